(* LR/GenProofsFill.v -- proofs about the model generator LR/Gen.v, part 5: table filling.
     - every entry of an action row is justified by an item of the state (conflicts or not);
     - one state is filled without Conflict and without the Accept clash exactly when the cells its
       items ask for are pairwise consistent (a statement about the item SET);
     - hence the verdict gen_clean is exactly "the grammar is LR(1)" over the canonical collection
       (Gen2.lr1_conflict_free), which mentions no fuel, no work-list order and no order inside a state. *)
From Coq Require Import Arith NArith PArith List Bool Lia FMapPositive.
Require Import EmbossV.LR.Driver EmbossV.LR.Sound EmbossV.LR.Complete EmbossV.LR.Early EmbossV.LR.Gen
               EmbossV.LR.GenProofs EmbossV.LR.GenProofsItems EmbossV.LR.GenCert EmbossV.LR.GenProofsLink
               EmbossV.LR.GenCert2 EmbossV.LR.GenProofsColl.
Import ListNotations.
Open Scope N_scope.

Definition ekey (eoi : N) (e : entry) : option (N * act) :=
  match e with E_none => None | E_act t a => Some (t, a) | E_accept => Some (eoi, Accept) end.

Definition akind (a : act) : option ckind :=
  match a with Shift _ => Some KShift | Reduce l r => Some (KReduce l r) | Accept => Some KAccept | Err _ => None end.

Lemma act_eqb_refl : forall a, act_eqb a a = true.
Proof. intros [s|l r| |c]; simpl; try reflexivity; try apply N.eqb_refl. apply prod_eqb_refl. Qed.

Lemma row_set_In : forall (A : Type) k (v : A) row t a,
  In (t, a) (row_set k v row) -> (t = k /\ a = v) \/ In (t, a) row.
Proof.
  induction row as [|[k' v'] row IH]; intros t a H; simpl in H.
  - destruct H as [H|[]]. inversion H. auto.
  - destruct (N.eqb k k').
    + destruct H as [H|H]; [inversion H; auto|right; right; exact H].
    + destruct H as [H|H]; [right; left; exact H|]. destruct (IH _ _ H) as [H1|H1]; [auto|right; right; exact H1].
Qed.

Section Fill.
  Variable G : grammar.
  Variable eoi : N.
  Variable grow : list (N * N).

  Definition just (S : list litem) (t : N) (a : act) : Prop :=
    exists it, In it S /\ ekey eoi (entry_of G eoi grow it) = Some (t, a).

  Lemma just_incl : forall S S' t a, incl S S' -> just S t a -> just S' t a.
  Proof. intros S S' t a H [it [H1 H2]]. exists it. split; [apply H; exact H1|exact H2]. Qed.

  Lemma fill_item_row : forall st it,
    f_row (fill_item G eoi grow st it) =
    match ekey eoi (entry_of G eoi grow it) with None => f_row st | Some (t, a) => row_set t a (f_row st) end.
  Proof. intros st it. unfold fill_item. destruct (entry_of G eoi grow it); reflexivity. Qed.

  Lemma fill_fold_just : forall S l st0, incl l S ->
    (forall t a, In (t, a) (f_row st0) -> just S t a) ->
    forall t a, In (t, a) (f_row (fold_left (fill_item G eoi grow) l st0)) -> just S t a.
  Proof.
    intros S. induction l as [|it l IH]; intros st0 Hsub H0 t a H; simpl in H; [auto|].
    apply IH in H; [exact H| |].
    - intros x Hx. apply Hsub. right. exact Hx.
    - intros t' a' H'. rewrite fill_item_row in H'.
      destruct (ekey eoi (entry_of G eoi grow it)) as [[t1 a1]|] eqn:Ek; [|auto].
      apply row_set_In in H'. destruct H' as [[H1 H2]|H']; [|auto]. subst t' a'.
      exists it. split; [apply Hsub; left; reflexivity|exact Ek].
  Qed.

  (* every entry of the action row of a state stems from an item of the state *)
  Lemma fill_state_just : forall S t a, In (t, a) (f_row (fill_state G eoi grow S)) -> just S t a.
  Proof. intros S t a H. unfold fill_state in H. eapply fill_fold_just; [| |exact H]; [intros x h; exact h|intros t' a' []]. Qed.

  Definition entries_compat (L : list litem) : Prop :=
    forall it1 it2 t a1 a2, In it1 L -> In it2 L ->
      ekey eoi (entry_of G eoi grow it1) = Some (t, a1) -> ekey eoi (entry_of G eoi grow it2) = Some (t, a2) -> a1 = a2.

  Lemma fill_fold_clean : forall l seen st0, entries_compat (seen ++ l) ->
    (forall t a, assoc t (f_row st0) = Some a -> just seen t a) ->
    f_conf st0 = [] -> f_clash st0 = false ->
    f_conf (fold_left (fill_item G eoi grow) l st0) = [] /\ f_clash (fold_left (fill_item G eoi grow) l st0) = false.
  Proof.
    induction l as [|it l IH]; intros seen st0 Hc Hj Hc0 Hk0; simpl; [auto|].
    assert (Hit : In it (seen ++ it :: l)) by (apply in_app_iff; right; left; reflexivity).
    assert (Hseen : forall x, In x seen -> In x (seen ++ it :: l)) by (intros; apply in_app_iff; auto).
    apply (IH (seen ++ [it])).
    - rewrite <- app_assoc. exact Hc.
    - intros t' a' H'. rewrite fill_item_row in H'.
      destruct (ekey eoi (entry_of G eoi grow it)) as [[t1 a1]|] eqn:Ek.
      + destruct (N.eq_dec t' t1) as [E|E].
        * subst t'. rewrite assoc_row_set_same in H'. inversion H'. subst a'.
          exists it. split; [apply in_app_iff; right; left; reflexivity|exact Ek].
        * rewrite assoc_row_set_other in H' by exact E.
          eapply just_incl; [|apply Hj; exact H']. intros x Hx. apply in_app_iff. auto.
      + eapply just_incl; [|apply Hj; exact H']. intros x Hx. apply in_app_iff. auto.
    - unfold fill_item. destruct (entry_of G eoi grow it) as [|t a|] eqn:Ee; [exact Hc0| |exact Hc0]. simpl.
      destruct (assoc t (f_row st0)) as [a'|] eqn:Ea; [|exact Hc0].
      destruct (Hj _ _ Ea) as [it' [Hi' Hk']].
      assert (a' = a).
      { apply (Hc it' it t a' a); [apply Hseen; exact Hi'|exact Hit|exact Hk'|rewrite Ee; reflexivity]. }
      subst a'. rewrite act_eqb_refl. exact Hc0.
    - unfold fill_item. destruct (entry_of G eoi grow it) as [|t a|] eqn:Ee; [exact Hk0|exact Hk0|]. simpl.
      rewrite Hk0. simpl. destruct (assoc eoi (f_row st0)) as [a'|] eqn:Ea; [|reflexivity].
      destruct (Hj _ _ Ea) as [it' [Hi' Hk']].
      assert (a' = Accept).
      { apply (Hc it' it eoi a' Accept); [apply Hseen; exact Hi'|exact Hit|exact Hk'|rewrite Ee; reflexivity]. }
      subst a'. reflexivity.
  Qed.

  Lemma fill_state_clean_compat : forall S,
    (f_conf (fill_state G eoi grow S) = [] /\ f_clash (fill_state G eoi grow S) = false) <-> entries_compat S.
  Proof.
    intros S. split.
    - intros [Hc Hk] it1 it2 t a1 a2 H1 H2 E1 E2.
      pose proof (fill_state_spec G eoi grow S Hc Hk it1 H1) as P1.
      pose proof (fill_state_spec G eoi grow S Hc Hk it2 H2) as P2.
      unfold entry_in in P1, P2.
      destruct (entry_of G eoi grow it1) as [|t1 b1|]; destruct (entry_of G eoi grow it2) as [|t2 b2|];
        simpl in E1, E2; try discriminate; inversion E1; inversion E2; subst; congruence.
    - intros Hc. unfold fill_state. apply (fill_fold_clean S []); [exact Hc| |reflexivity|reflexivity].
      intros t a H. discriminate.
  Qed.

  (* ---- from entries (with shift targets) to cell kinds (without) ---- *)

  Lemma ekey_shift : forall it t j, ekey eoi (entry_of G eoi grow it) = Some (t, Shift j) ->
    next_sym G it = Some t /\ is_nonterminal G t = false /\ assoc t grow = Some j.
  Proof.
    intros it t j H. unfold entry_of in H. destruct (next_sym G it) as [X|].
    - destruct (is_nonterminal G X) eqn:Ent; [discriminate|].
      destruct (assoc X grow) as [j'|] eqn:Ea; [|discriminate]. simpl in H. inversion H. subst. auto.
    - destruct (it_p it) as [p|].
      + destruct (nth_error (g_prods G) (N.to_nat p)) as [[l r]|]; simpl in H; [inversion H|discriminate].
      + destruct (Nat.eqb (it_d it) 1 && N.eqb (it_a it) eoi); simpl in H; [inversion H|discriminate].
  Qed.

  Lemma ekey_reduce : forall it t l r, ekey eoi (entry_of G eoi grow it) = Some (t, Reduce l r) ->
    next_sym G it = None /\ t = it_a it /\ exists p, it_p it = Some p /\ nth_error (g_prods G) (N.to_nat p) = Some (l, r).
  Proof.
    intros it t l r H. unfold entry_of in H. destruct (next_sym G it) as [X|].
    - destruct (is_nonterminal G X); [discriminate|]. destruct (assoc X grow); simpl in H; [inversion H|discriminate].
    - destruct (it_p it) as [p|].
      + destruct (nth_error (g_prods G) (N.to_nat p)) as [[l' r']|] eqn:En; simpl in H; [|discriminate].
        inversion H. subst. split; [reflexivity|]. split; [reflexivity|]. exists p. auto.
      + destruct (Nat.eqb (it_d it) 1 && N.eqb (it_a it) eoi); simpl in H; [inversion H|discriminate].
  Qed.

  Lemma ekey_accept : forall it t, ekey eoi (entry_of G eoi grow it) = Some (t, Accept) ->
    next_sym G it = None /\ t = eoi /\ it_p it = None /\ it_d it = 1%nat /\ it_a it = eoi.
  Proof.
    intros it t H. unfold entry_of in H. destruct (next_sym G it) as [X|].
    - destruct (is_nonterminal G X); [discriminate|]. destruct (assoc X grow); simpl in H; [inversion H|discriminate].
    - destruct (it_p it) as [p|].
      + destruct (nth_error (g_prods G) (N.to_nat p)) as [[l' r']|]; simpl in H; [inversion H|discriminate].
      + destruct (Nat.eqb (it_d it) 1 && N.eqb (it_a it) eoi) eqn:E; simpl in H; [|discriminate].
        inversion H. apply andb_true_iff in E. destruct E as [E1 E2]. apply Nat.eqb_eq in E1. apply N.eqb_eq in E2.
        repeat split; auto; congruence.
  Qed.

  Lemma ekey_no_err : forall it t c, ekey eoi (entry_of G eoi grow it) <> Some (t, Err c).
  Proof.
    intros it t c H. unfold entry_of in H. destruct (next_sym G it) as [X|].
    - destruct (is_nonterminal G X); [discriminate|]. destruct (assoc X grow); simpl in H; [inversion H|discriminate].
    - destruct (it_p it) as [p|].
      + destruct (nth_error (g_prods G) (N.to_nat p)) as [[l' r']|]; simpl in H; [inversion H|discriminate].
      + destruct (Nat.eqb (it_d it) 1 && N.eqb (it_a it) eoi); simpl in H; [inversion H|discriminate].
  Qed.

  Lemma cell_kind_ekey : forall S it, In it S ->
    (forall X, In X (next_syms G S) -> exists j, assoc X grow = Some j) ->
    forall t k, cell_kind G eoi it = Some (t, k) <->
                exists a, ekey eoi (entry_of G eoi grow it) = Some (t, a) /\ akind a = Some k.
  Proof.
    intros S it Hit Htot t k. unfold cell_kind, entry_of. destruct (next_sym G it) as [X|] eqn:En.
    - destruct (is_nonterminal G X) eqn:Ent.
      + split; [discriminate|]. intros [a [H _]]. discriminate.
      + destruct (Htot X) as [j Hj]; [apply next_syms_In; exists it; auto|]. rewrite Hj. simpl. split.
        * intros H. inversion H. subst. exists (Shift j). auto.
        * intros [a [H1 H2]]. inversion H1. subst. simpl in H2. inversion H2. reflexivity.
    - destruct (it_p it) as [p|].
      + destruct (nth_error (g_prods G) (N.to_nat p)) as [[l r]|]; simpl.
        * split; [intros H; inversion H; subst; exists (Reduce l r); auto|].
          intros [a [H1 H2]]. inversion H1. subst. simpl in H2. inversion H2. reflexivity.
        * split; [discriminate|]. intros [a [H _]]. discriminate.
      + destruct (Nat.eqb (it_d it) 1 && N.eqb (it_a it) eoi); simpl.
        * split; [intros H; inversion H; subst; exists Accept; auto|].
          intros [a [H1 H2]]. inversion H1. subst. simpl in H2. inversion H2. reflexivity.
        * split; [discriminate|]. intros [a [H _]]. discriminate.
  Qed.

  Lemma compat_consistent : forall S,
    (forall X, In X (next_syms G S) -> exists j, assoc X grow = Some j) ->
    (entries_compat S <-> state_consistent G eoi S).
  Proof.
    intros S Htot. split.
    - intros Hc it1 it2 t k1 k2 H1 H2 E1 E2.
      apply (cell_kind_ekey S it1 H1 Htot) in E1. apply (cell_kind_ekey S it2 H2 Htot) in E2.
      destruct E1 as [a1 [E1 K1]]. destruct E2 as [a2 [E2 K2]].
      rewrite (Hc _ _ _ _ _ H1 H2 E1 E2) in K1. congruence.
    - intros Hc it1 it2 t a1 a2 H1 H2 E1 E2.
      assert (K1 : exists k1, akind a1 = Some k1).
      { destruct a1; simpl; eauto. exfalso. eapply ekey_no_err; eauto. }
      assert (K2 : exists k2, akind a2 = Some k2).
      { destruct a2; simpl; eauto. exfalso. eapply ekey_no_err; eauto. }
      destruct K1 as [k1 K1]. destruct K2 as [k2 K2].
      assert (C1 : cell_kind G eoi it1 = Some (t, k1)) by (apply (cell_kind_ekey S it1 H1 Htot); eauto).
      assert (C2 : cell_kind G eoi it2 = Some (t, k2)) by (apply (cell_kind_ekey S it2 H2 Htot); eauto).
      pose proof (Hc _ _ _ _ _ H1 H2 C1 C2) as Hk. subst k2.
      destruct a1 as [j1|l1 r1| |c1]; destruct a2 as [j2|l2 r2| |c2]; simpl in K1, K2; try congruence.
      apply ekey_shift in E1. apply ekey_shift in E2. destruct E1 as [_ [_ E1]]. destruct E2 as [_ [_ E2]]. congruence.
  Qed.
End Fill.

Lemma state_consistent_same_set : forall G eoi S S', same_set S S' -> state_consistent G eoi S -> state_consistent G eoi S'.
Proof. intros G eoi S S' H Hc it1 it2 t k1 k2 H1 H2. apply Hc; apply H; assumption. Qed.

(* ---------------------------------------------------------------- the verdict *)

Lemma conflicts_from_nil_iff : forall fs i, conflicts_from i fs = [] <-> forall f, In f fs -> f_conf f = [].
Proof.
  induction fs as [|f0 fs IH]; intros i; simpl.
  - split; [intros _ f []|reflexivity].
  - split.
    + intros H. apply app_eq_nil in H. destruct H as [H1 H2]. intros f [Hf|Hf].
      * subst f0. destruct (f_conf f); [reflexivity|discriminate].
      * eapply IH; eauto.
    + intros H. rewrite (H f0 (or_introl eq_refl)). simpl. apply (IH (N.succ i)). intros f Hf. apply H. right. exact Hf.
Qed.

Lemma zip_fill_In : forall G eoi states gotos f, In f (zip_fill G eoi states gotos) ->
  exists k S grow, nth_error states k = Some S /\ nth_error gotos k = Some grow /\ f = fill_state G eoi grow S.
Proof.
  intros G eoi. induction states as [|s ss IH]; intros gotos f H; [destruct H|].
  destruct gotos as [|g gs]; [destruct H|]. simpl in H. destruct H as [H|H].
  - exists O, s, g. auto.
  - destruct (IH _ _ H) as [k [St [grow [H1 [H2 H3]]]]]. exists (Datatypes.S k), St, grow. auto.
Qed.

Lemma coll_is_collection : forall G tab eoi cf states gotos,
  coll_ok G tab eoi cf states gotos -> coll_ok2 G eoi states gotos -> is_collection G eoi states gotos.
Proof.
  intros G tab eoi cf states gotos H1 H2. constructor.
  - exact (co_len _ _ _ _ _ _ H1).
  - exact (co_init _ _ _ _ _ _ H1).
  - intros k S grow Hk Hg X HX. destruct (co_rows _ _ _ _ _ _ H1 _ _ _ Hk Hg) as [_ Hr2].
    destruct (Hr2 _ HX) as [j0 Hj0]. eapply assoc_some_of_In. exact Hj0.
  - exact (c2_rows _ _ _ _ H2).
  - exact (c2_canon _ _ _ _ H2).
Qed.

Section Verdict.
  Variable G : grammar.
  Variable eoi : N.
  Variable states : list (list litem).
  Variable gotos : list (list (N * N)).
  Hypothesis Hic : is_collection G eoi states gotos.

  Lemma goto_row_exists : forall k S, nth_error states k = Some S -> exists grow, nth_error gotos k = Some grow.
  Proof.
    intros k S Hk. assert (Hkl : (k < length gotos)%nat).
    { rewrite (ic_len _ _ _ _ Hic). apply nth_error_Some. congruence. }
    destruct (nth_error gotos k) as [grow|] eqn:Eg; [eauto|]. apply nth_error_None in Eg. lia.
  Qed.

  (* every canonical item set is (as a set) a state of the collection *)
  Lemma canon_complete : forall J, canon G eoi J -> exists k J', nth_error states k = Some J' /\ same_set J J'.
  Proof.
    intros J HJ. induction HJ as [I HI|I X J HI IH [it [Hit Hn]] HJ].
    - destruct (ic_init _ _ _ _ Hic) as [I0 [H0 Hin0]]. exists O, I0. split; [exact H0|].
      intros x. rewrite HI, Hin0. tauto.
    - destruct IH as [k [I' [Hk Hss]]]. destruct (goto_row_exists _ _ Hk) as [grow Hg].
      assert (HX : In X (next_syms G I')) by (apply next_syms_In; exists it; split; [apply Hss; exact Hit|exact Hn]).
      destruct (ic_total _ _ _ _ Hic _ _ _ Hk Hg _ HX) as [j Hj].
      destruct (ic_rows _ _ _ _ Hic _ _ _ _ _ Hk Hg (assoc_In _ _ _ _ Hj)) as [_ [J' [HJ' Hin]]].
      exists (N.to_nat j), J'. split; [exact HJ'|]. intros x. rewrite HJ, Hin. split; apply in_goto_same_set.
      + exact Hss.
      + apply same_set_sym. exact Hss.
  Qed.

  Lemma verdict_spec : fill_clean G eoi states gotos <-> lr1_conflict_free G eoi.
  Proof.
    unfold fill_clean. rewrite conflicts_from_nil_iff. split.
    - intros [Hc Hk] J HJ. destruct (canon_complete J HJ) as [k [J' [Hk' Hss]]].
      destruct (goto_row_exists _ _ Hk') as [grow Hg].
      apply (state_consistent_same_set G eoi J'); [apply same_set_sym; exact Hss|].
      apply (compat_consistent G eoi grow J' (ic_total _ _ _ _ Hic _ _ _ Hk' Hg)).
      apply fill_state_clean_compat.
      assert (Hf : In (fill_state G eoi grow J') (zip_fill G eoi states gotos)).
      { eapply nth_error_In. apply zip_fill_nth; eassumption. }
      split; [apply Hc; exact Hf|]. eapply existsb_false_all; eassumption.
    - intros Hcf.
      assert (Hall : forall f, In f (zip_fill G eoi states gotos) -> f_conf f = [] /\ f_clash f = false).
      { intros f Hf. destruct (zip_fill_In _ _ _ _ _ Hf) as [k [S [grow [Hk [Hg Hfe]]]]]. subst f.
        apply fill_state_clean_compat. apply (compat_consistent G eoi grow S (ic_total _ _ _ _ Hic _ _ _ Hk Hg)).
        apply Hcf. apply (ic_canon _ _ _ _ Hic). eapply nth_error_In. exact Hk. }
      split; [intros f Hf; apply Hall; exact Hf|].
      destruct (existsb f_clash (zip_fill G eoi states gotos)) eqn:E; [|reflexivity].
      apply existsb_exists in E. destruct E as [f [Hf Hc]]. destruct (Hall _ Hf) as [_ H]. congruence.
  Qed.
End Verdict.

Lemma generate_is_collection : forall G eoi sp ff cf sf r,
  is_nonterminal G eoi = false -> generate G eoi sp ff cf sf = GenOk r ->
  is_collection G eoi (g_states r) (g_gotos r).
Proof.
  intros G eoi sp ff cf sf r Heoi Hgen. unfold generate in Hgen.
  destruct (first_table G ff) as [tab|] eqn:Ef; [|discriminate].
  destruct (items G tab eoi cf sf) as [[states gotos]|] eqn:Ei; [|discriminate].
  inversion Hgen. subst r. clear Hgen. cbn [g_states g_gotos].
  pose proof (first_table_sound _ _ _ Ef) as Hs. pose proof (first_fix_stable _ _ _ _ Ef) as Hst.
  eapply coll_is_collection; [eapply items_coll_ok; eassumption|eapply items_coll_ok2; eassumption].
Qed.

Lemma gen_clean_fill_clean : forall G eoi sp ff cf sf r, generate G eoi sp ff cf sf = GenOk r ->
  (gen_clean r = true <-> fill_clean G eoi (g_states r) (g_gotos r)).
Proof.
  intros G eoi sp ff cf sf r Hgen. unfold generate in Hgen.
  destruct (first_table G ff) as [tab|] eqn:Ef; [|discriminate].
  destruct (items G tab eoi cf sf) as [[states gotos]|] eqn:Ei; [|discriminate].
  inversion Hgen. subst r. clear Hgen. unfold gen_clean, fill_clean. cbn [g_conflicts g_clash g_states g_gotos].
  destruct (conflicts_from 0 (zip_fill G eoi states gotos)).
  - rewrite negb_true_iff. tauto.
  - split; [discriminate|]. intros [H _]. discriminate.
Qed.

(* the verdict of the model generator is a property of the grammar alone *)
Theorem gen_clean_iff_lr1 : forall G eoi sp ff cf sf r,
  is_nonterminal G eoi = false -> generate G eoi sp ff cf sf = GenOk r ->
  (gen_clean r = true <-> lr1_conflict_free G eoi).
Proof.
  intros G eoi sp ff cf sf r Heoi Hgen. rewrite (gen_clean_fill_clean _ _ _ _ _ _ _ Hgen).
  apply verdict_spec. eapply generate_is_collection; eassumption.
Qed.

(* the verdict does not depend on the order in which the work list finds the states nor on the order of
   the items inside a state: ANY presentation of the canonical collection is filled without Conflict /
   Accept clash exactly when the model generator reports a clean verdict.
   (partial: the production LIST is the same on both sides -- items carry production indices -- and the
   tables themselves are not compared) *)
Theorem generate_verdict_order_independent_partial : forall G eoi sp ff cf sf r states' gotos',
  is_nonterminal G eoi = false -> generate G eoi sp ff cf sf = GenOk r ->
  is_collection G eoi states' gotos' ->
  (gen_clean r = true <-> fill_clean G eoi states' gotos').
Proof.
  intros G eoi sp ff cf sf r states' gotos' Heoi Hgen Hic.
  rewrite (gen_clean_iff_lr1 _ _ _ _ _ _ _ Heoi Hgen). symmetry. apply verdict_spec. exact Hic.
Qed.
