(* C15 — a verified acyclicity test (repeated removal of sinks, |g| rounds).
   This is the spec-level decision procedure the compiler's verdict is compared
   with; the algorithmic model of the compiler's own Tarjan is in Tarjan.v. *)
From Coq Require Import NArith List Bool Lia Relations.
Import ListNotations.
Require Import EmbossV.Deps.Graph.

(* entries whose key is not done yet and all of whose successors are done *)
Definition new_of (g : graph) (done : list N) : list (N * list N) :=
  filter (fun p => negb (mem (fst p) done) && ready done (succs g (fst p))) g.

Definition kstep (g : graph) (done : list N) : list N := map fst (new_of g done) ++ done.

(* at most k rounds; stops as soon as a round adds nothing *)
Fixpoint iter (k : nat) (g : graph) (done : list N) : list N :=
  match k with
  | O => done
  | S k' => match new_of g done with
            | [] => done
            | _ :: _ => iter k' g (kstep g done)
            end
  end.

Definition acyclic_dec (g : graph) : bool :=
  let done := iter (length g) g [] in
  forallb (fun u => mem u done) (nodes g).

(* ---------------------------------------------------------------- soundness *)

Definition kinv (g : graph) (done : list N) : Prop :=
  (forall u v, In u done -> edge g u v -> In v done) /\
  (forall u, In u done -> ~ clos_trans N (edge g) u u).

Lemma in_kstep : forall g done x,
  In x (kstep g done) <->
  In x done \/ (In x (nodes g) /\ ~ In x done /\ forall v, edge g x v -> In v done).
Proof.
  intros. unfold kstep, new_of. rewrite in_app_iff, in_map_iff. split.
  - intros [[[k l] [E Hin]]|H]; [|auto]. cbn in E. subst k.
    apply filter_In in Hin. destruct Hin as [Hin Hc]. cbn in Hc.
    apply andb_true_iff in Hc. destruct Hc as [Hn Hr].
    right. split; [apply in_map_iff; exists (x, l); auto|]. split.
    + apply mem_false. destruct (mem x done); [discriminate|reflexivity].
    + intros v Hv. rewrite ready_spec in Hr. apply Hr. apply succs_edge. exact Hv.
  - intros [H|[Hn [Hnd Hs]]]; [auto|]. left.
    apply in_map_iff in Hn. destruct Hn as [[k l] [E Hin]]. cbn in E. subst k.
    exists (x, l). split; [reflexivity|]. apply filter_In. split; [exact Hin|]. cbn.
    apply andb_true_iff. split.
    + apply mem_false in Hnd. rewrite Hnd. reflexivity.
    + apply ready_spec. intros v Hv. apply Hs. apply succs_edge. exact Hv.
Qed.

Lemma kstep_kinv : forall g done, kinv g done -> kinv g (kstep g done).
Proof.
  intros g done [Hcl Hac]. split.
  - intros u v Hu Huv. apply in_kstep. left. apply in_kstep in Hu.
    destruct Hu as [Hu|[_ [_ Hs]]]; eauto.
  - intros u Hu Hcyc. apply in_kstep in Hu. destruct Hu as [Hu|[_ [Hnd Hs]]].
    + exact (Hac u Hu Hcyc).
    + destruct (clos_trans_first _ _ _ Hcyc) as [y [Huy [->|Hyu]]].
      * apply Hnd. apply Hs. exact Huy.
      * apply Hnd. apply (reach_closed_set (edge g) (fun x => In x done)) with (u := y).
        -- intros a b Ha Hab. eapply Hcl; eauto.
        -- exact Hyu.
        -- apply Hs. exact Huy.
Qed.

Lemma iter_kinv : forall k g done, kinv g done -> kinv g (iter k g done).
Proof.
  induction k; intros; cbn; [assumption|]. destruct (new_of g done); [assumption|].
  apply IHk. apply kstep_kinv. assumption.
Qed.

Lemma acyclic_dec_sound : forall g, acyclic_dec g = true -> ~ cyclic g.
Proof.
  intros g H [v [Hv Hcyc]]. unfold acyclic_dec in H. rewrite forallb_forall in H.
  assert (K : kinv g (iter (length g) g [])).
  { apply iter_kinv. split; intros u; intros; contradiction. }
  destruct K as [_ Hac]. apply (Hac v); [|exact Hcyc]. apply mem_In. apply H. exact Hv.
Qed.

(* ------------------------------------------------------------- completeness *)

Definition undone (g : graph) (done : list N) : list (N * list N) :=
  filter (fun p => negb (mem (fst p) done)) g.

Lemma filter_nil_impl : forall (A : Type) (f f' : A -> bool) l,
  (forall x, f' x = true -> f x = true) -> filter f l = [] -> filter f' l = [].
Proof.
  induction l as [|x t IH]; intros Himp H; [reflexivity|]. cbn in *.
  destruct (f x) eqn:E; [discriminate|]. destruct (f' x) eqn:E'.
  - rewrite (Himp x E') in E. discriminate.
  - auto.
Qed.

Lemma filter_length_le : forall (A : Type) (f f' : A -> bool) l,
  (forall x, f' x = true -> f x = true) -> length (filter f' l) <= length (filter f l).
Proof.
  induction l as [|x t IH]; intros Himp; [cbn; lia|]. cbn. specialize (IH Himp).
  destruct (f' x) eqn:E'.
  - rewrite (Himp x E'). cbn. lia.
  - destruct (f x); cbn; lia.
Qed.

Lemma filter_length_lt : forall (A : Type) (f f' : A -> bool) l,
  (forall x, f' x = true -> f x = true) ->
  (exists x, In x l /\ f x = true /\ f' x = false) ->
  length (filter f' l) < length (filter f l).
Proof.
  induction l as [|x t IH]; intros Himp [y [Hin [Hf Hf']]]; [destruct Hin|]. cbn.
  destruct Hin as [->|Hin].
  - rewrite Hf, Hf'. cbn. pose proof (filter_length_le A f f' t Himp). lia.
  - assert (length (filter f' t) < length (filter f t)) by (apply IH; eauto).
    destruct (f' x) eqn:E'.
    + rewrite (Himp x E'). cbn. lia.
    + destruct (f x); cbn; lia.
Qed.

Lemma kstep_fix : forall g done, new_of g done = [] -> kstep g done = done.
Proof. intros g done H. unfold kstep. rewrite H. reflexivity. Qed.

Lemma iter_fix : forall k g done, new_of g done = [] -> iter k g done = done.
Proof.
  destruct k; intros g done H; cbn; [reflexivity|]. rewrite H. reflexivity.
Qed.

Lemma kstep_decreases : forall g done, new_of g done <> [] ->
  length (undone g (kstep g done)) < length (undone g done).
Proof.
  intros g done Hne. unfold undone. apply filter_length_lt.
  - intros p Hp. unfold kstep in Hp. rewrite mem_app, negb_orb in Hp.
    apply andb_true_iff in Hp. tauto.
  - destruct (new_of g done) as [|p0 t] eqn:E; [congruence|].
    assert (Hin : In p0 (new_of g done)) by (rewrite E; left; reflexivity).
    exists p0. unfold new_of in Hin. apply filter_In in Hin. destruct Hin as [Hin Hc].
    apply andb_true_iff in Hc. destruct Hc as [Hn _]. split; [exact Hin|]. split; [exact Hn|].
    apply negb_false_iff. apply mem_In. unfold kstep. apply in_app_iff. left.
    apply in_map. rewrite E. left. reflexivity.
Qed.

Lemma iter_reaches_fix : forall k g done,
  length (undone g done) <= k -> new_of g (iter k g done) = [].
Proof.
  induction k; intros g done Hle.
  - cbn. unfold new_of. apply filter_nil_impl with (f := fun p => negb (mem (fst p) done)).
    + intros x Hx. apply andb_true_iff in Hx. tauto.
    + unfold undone in Hle. destruct (filter _ g); [reflexivity|cbn in Hle; lia].
  - cbn. destruct (new_of g done) as [|p0 t] eqn:E.
    + exact E.
    + apply IHk. assert (new_of g done <> []) by congruence.
      pose proof (kstep_decreases g done H). lia.
Qed.

Lemma acyclic_dec_complete : forall g, closed g -> acyclic_dec g = false -> cyclic g.
Proof.
  intros g Hcl H. unfold acyclic_dec in H.
  set (done := iter (length g) g []) in *.
  assert (Hfix : new_of g done = []).
  { apply iter_reaches_fix. unfold undone.
    pose proof (filter_length_le _ (fun _ => true) (fun p => negb (mem (fst p) [])) g (fun _ _ => eq_refl)) as Hl.
    assert (Hall : filter (fun _ : N * list N => true) g = g).
    { clear. induction g as [|a t IH]; cbn; [reflexivity|]. rewrite IH. reflexivity. }
    rewrite Hall in Hl. exact Hl. }
  assert (Hex : exists u, In u (nodes g) /\ ~ In u done).
  { clear Hfix. induction (nodes g) as [|x t IH]; [discriminate|]. cbn in H.
    destruct (mem x done) eqn:E.
    - destruct (IH H) as [u [Hu Hnd]]. exists u. split; [right|]; assumption.
    - exists x. split; [left; reflexivity|apply mem_false; exact E]. }
  destruct Hex as [u0 [Hu0 Hnd0]].
  apply (no_sink_cyclic g (fun x => In x (nodes g) /\ ~ In x done)) with (u := u0); [tauto| |tauto].
  intros u [Hu Hnd].
  (* u is a key that is not done; since nothing new is ready it has an undone successor *)
  apply in_map_iff in Hu. destruct Hu as [[k l] [E Hin]]. cbn in E. subst k.
  assert (Hr : ready done (succs g u) = false).
  { destruct (ready done (succs g u)) eqn:Er; [|reflexivity]. exfalso.
    assert (In (u, l) (new_of g done)).
    { apply filter_In. split; [exact Hin|]. cbn. apply mem_false in Hnd. rewrite Hnd, Er. reflexivity. }
    rewrite Hfix in H0. destruct H0. }
  unfold ready in Hr.
  assert (Hv : exists v, In v (succs g u) /\ mem v done = false).
  { clear -Hr. induction (succs g u) as [|x t IH]; [discriminate|]. cbn in Hr.
    destruct (mem x done) eqn:E.
    - destruct (IH Hr) as [v [Hv Hm]]. exists v. split; [right|]; assumption.
    - exists x. split; [left; reflexivity|exact E]. }
  destruct Hv as [v [Hv Hm]]. apply succs_edge in Hv. exists v. split; [exact Hv|]. split.
  - eapply Hcl; eauto.
  - apply mem_false. exact Hm.
Qed.

Theorem acyclic_dec_spec_proof : forall g, closed g -> (acyclic_dec g = true <-> ~ cyclic g).
Proof.
  intros g Hcl. split.
  - apply acyclic_dec_sound.
  - intros Hn. destruct (acyclic_dec g) eqn:E; [reflexivity|]. exfalso. apply Hn.
    apply acyclic_dec_complete; assumption.
Qed.
