(* Executable glue for the C15 correspondence harness. *)
From Coq Require Import NArith List Bool Arith.
Import ListNotations.
Require Import EmbossV.Deps.Graph EmbossV.Deps.Kahn EmbossV.Deps.Order EmbossV.Deps.Tarjan.

(* --- cycle detection: _find_cycles versus the Tarjan mirror and acyclic_dec --- *)

(* what the harness records for one graph:
   (closed?, acyclic_dec, result of the Tarjan mirror) *)
Definition run_graph (g : graph) : bool * bool * tres (list (list N)) :=
  (closedb g, acyclic_dec g, find_cycles (S (length g)) g).

Definition subsetb (a b : list N) : bool := forallb (fun x => mem x b) a.
Definition set_eqb (a b : list N) : bool := subsetb a b && subsetb b a.
Definition sets_subsetb (a b : list (list N)) : bool := forallb (fun x => existsb (set_eqb x) b) a.
Definition sets_eqb (a b : list (list N)) : bool :=
  sets_subsetb a b && sets_subsetb b a && Nat.eqb (length a) (length b).

Definition tres_eqb (a b : tres (list (list N))) : bool :=
  match a, b with
  | TOk x, TOk y => sets_eqb x y
  | TErr, TErr => true
  | TNoFuel, TNoFuel => true
  | _, _ => false
  end.

Definition run_graph_eqb (a b : bool * bool * tres (list (list N))) : bool :=
  Bool.eqb (fst (fst a)) (fst (fst b)) && Bool.eqb (snd (fst a)) (snd (fst b)) && tres_eqb (snd a) (snd b).

(* --- field ordering --- *)

Definition run_order (c : graph * list N) : ores := dep_order (fst c) (snd c).

Fixpoint nat_list_eqb (a b : list nat) : bool :=
  match a, b with
  | [], [] => true
  | x :: a', y :: b' => Nat.eqb x y && nat_list_eqb a' b'
  | _, _ => false
  end.

(* a failed assertion in the implementation is compared as `Stuck` whatever the lists *)
Definition ores_eqb (a b : ores) : bool :=
  match a, b with
  | Done x, Done y => nat_list_eqb x y
  | Stuck _ _, Stuck _ _ => true
  | NoFuel, NoFuel => true
  | _, _ => false
  end.
