(* C15 — proofs about the Gallina mirror of _find_cycles (Tarjan.v).

   Part A: on a closed acyclic graph, with fuel > |nodes|, the mirror returns
           TOk [] (every node is its own root and is popped alone).
   Part B: if the mirror returns TOk [] then the graph is acyclic (every node
           was popped as a singleton without a self edge, after all of its
           successors: pop order is a topological order).
   Together: tarjan_none_iff_acyclic.  NOT proved here: that each *reported*
   component is a strongly connected component of the graph. *)
From Coq Require Import Arith NArith List Bool Lia Relations.
Import ListNotations.
Require Import EmbossV.Deps.Graph EmbossV.Deps.Tarjan.

Definition idx (st : tstate) (u : N) : option N := get st.(indices) u.
Definition low (st : tstate) (u : N) : option N := get st.(lowlinks) u.

Lemma get_cons : forall k v m u, get ((k, v) :: m) u = if N.eqb k u then Some v else get m u.
Proof. reflexivity. Qed.

Lemma idx_push : forall v st u,
  idx (push v st) u = if N.eqb v u then Some st.(next_index) else idx st u.
Proof. reflexivity. Qed.

Lemma low_push : forall v st u,
  low (push v st) u = if N.eqb v u then Some st.(next_index) else low st u.
Proof. reflexivity. Qed.

Lemma idx_set_low : forall v x st u, idx (set_low v x st) u = idx st u.
Proof. reflexivity. Qed.

Lemma low_set_low : forall v x st u,
  low (set_low v x st) u = if N.eqb v u then Some x else low st u.
Proof. reflexivity. Qed.

Lemma remove_all_notin : forall x l, ~ In x l -> remove_all x l = l.
Proof.
  induction l as [|y t IH]; intros H; [reflexivity|]. cbn.
  destruct (N.eqb x y) eqn:E.
  - apply N.eqb_eq in E. subst. exfalso. apply H. left. reflexivity.
  - f_equal. apply IH. intro. apply H. right. assumption.
Qed.

Lemma in_remove_all : forall x y l, In y (remove_all x l) <-> In y l /\ y <> x.
Proof.
  induction l as [|z t IH]; cbn; [tauto|].
  destruct (N.eqb x z) eqn:E.
  - apply N.eqb_eq in E. subst z. rewrite IH. split.
    + intros [H1 H2]. auto.
    + intros [[H1|H1] H2]; [congruence|auto].
  - apply N.eqb_neq in E. cbn. rewrite IH. split.
    + intros [H|[H1 H2]]; [subst; split; auto|auto].
    + intros [[H1|H1] H2]; auto.
Qed.

(* ======================================================================== *)
(* Part A: acyclic => no component reported                                  *)
(* ======================================================================== *)

Record astate (g : graph) (st : tstate) : Prop := {
  a_on : st.(on_stack) = st.(stack);
  a_nodup : NoDup st.(stack);
  a_stk_idx : forall x, In x st.(stack) -> idx st x <> None;
  a_stk_node : forall x, In x st.(stack) -> In x (nodes g);
  a_idx_lt : forall u i, idx st u = Some i -> (i < st.(next_index))%N
}.

Record apost (st st' : tstate) (v : N) : Prop := {
  p_stack : st'.(stack) = st.(stack);
  p_comps : st'.(comps) = st.(comps);
  p_idx_keep : forall u i, idx st u = Some i -> idx st' u = Some i;
  p_low_keep : forall u, idx st u <> None -> low st' u = low st u;
  p_v : exists i, idx st' v = Some i /\ low st' v = Some i /\ (st.(next_index) <= i)%N;
  p_next : (st.(next_index) <= st'.(next_index))%N
}.

Section PartA.
  Variable g : graph.
  Hypothesis Hcl : closed g.
  Hypothesis Hac : ~ cyclic g.

  Lemma no_self_edge : forall v, In v (nodes g) -> ~ edge g v v.
  Proof.
    intros v Hv He. apply Hac. exists v. split; [exact Hv|]. apply t_step. exact He.
  Qed.

  Lemma astate_push : forall v st,
    astate g st -> In v (nodes g) -> idx st v = None -> astate g (push v st).
  Proof.
    intros v st A Hv Hn. destruct A as [A1 A2 A3 A4 A5]. constructor.
    - cbn. rewrite A1. reflexivity.
    - cbn. constructor; [|exact A2]. intro Hin. apply (A3 v Hin). exact Hn.
    - intros x Hx. rewrite idx_push. destruct (N.eqb v x) eqn:E; [discriminate|].
      apply A3. cbn in Hx. destruct Hx as [->|Hx]; [|exact Hx].
      rewrite N.eqb_refl in E. discriminate.
    - intros x Hx. cbn in Hx. destruct Hx as [<-|Hx]; auto.
    - intros u i. rewrite idx_push. cbn [push next_index]. destruct (N.eqb v u).
      + intros E. inversion E. lia.
      + intros E. specialize (A5 u i E). lia.
  Qed.

  (* loop invariant of the `for d in graph[v]` loop, relative to the state st
     in which strong_connect(v) was entered *)
  Record linv (st : tstate) (v : N) (s : tstate) : Prop := {
    l_a : astate g s;
    l_stack : s.(stack) = v :: st.(stack);
    l_comps : s.(comps) = st.(comps);
    l_idx_v : idx s v = Some st.(next_index);
    l_low_v : low s v = Some st.(next_index);
    l_idx_keep : forall u i, idx st u = Some i -> idx s u = Some i;
    l_low_keep : forall u, idx st u <> None -> low s u = low st u;
    l_next : (st.(next_index) < s.(next_index))%N
  }.

  Section Visit.
    Variable f : nat.
    Hypothesis IHf : forall v st,
      In v (nodes g) -> idx st v = None -> astate g st ->
      (forall x, In x st.(stack) -> clos_trans N (edge g) x v) ->
      length (nodes g) < f + length st.(stack) ->
      exists st', strong_connect f g v st = TOk st' /\ astate g st' /\ apost st st' v.

    Lemma visit_acyclic : forall st v,
      In v (nodes g) -> idx st v = None ->
      (forall x, In x st.(stack) -> clos_trans N (edge g) x v) ->
      length (nodes g) < S f + length st.(stack) ->
      forall ds s, (forall d, In d ds -> edge g v d) -> linv st v s ->
      exists s', visit (strong_connect f g) v ds s = TOk s' /\ linv st v s'.
    Proof.
      intros st v Hv Hvn Hreach Hfuel.
      induction ds as [|d ds IH]; intros s Hds L.
      - exists s. split; [reflexivity|exact L].
      - assert (Hvd : edge g v d) by (apply Hds; left; reflexivity).
        assert (Hdn : In d (nodes g)) by (eapply Hcl; exact Hvd).
        cbn [visit]. fold (idx s d). destruct (idx s d) as [di|] eqn:Ed.
        + (* already indexed: it cannot be on the stack *)
          destruct (mem d s.(on_stack)) eqn:Em.
          * exfalso. apply mem_In in Em. rewrite (a_on _ _ (l_a _ _ _ L)), (l_stack _ _ _ L) in Em.
            destruct Em as [<-|Hin].
            -- exact (no_self_edge v Hv Hvd).
            -- apply Hac. exists v. split; [exact Hv|].
               eapply t_trans; [apply t_step; exact Hvd|]. apply Hreach. exact Hin.
          * apply IH; [intros; apply Hds; right; assumption|exact L].
        + (* not indexed: recursive call *)
          destruct (IHf d s Hdn Ed (l_a _ _ _ L)) as [s' [Hsc [A' P']]].
          * intros x Hx. rewrite (l_stack _ _ _ L) in Hx. destruct Hx as [<-|Hx].
            -- apply t_step. exact Hvd.
            -- eapply t_trans; [apply Hreach; exact Hx|apply t_step; exact Hvd].
          * rewrite (l_stack _ _ _ L). cbn [length]. lia.
          * rewrite Hsc.
            assert (Hlv : low s' v = Some st.(next_index)).
            { rewrite (p_low_keep _ _ _ P' v); [exact (l_low_v _ _ _ L)|].
              rewrite (l_idx_v _ _ _ L). discriminate. }
            destruct (p_v _ _ _ P') as [i [Hid [Hld Hi]]].
            fold (low s' v). fold (low s' d). rewrite Hlv, Hld.
            assert (Hmin : N.min st.(next_index) i = st.(next_index)).
            { apply N.min_l. pose proof (l_next _ _ _ L). lia. }
            rewrite Hmin.
            apply IH; [intros; apply Hds; right; assumption|].
            destruct A' as [B1 B2 B3 B4 B5].
            constructor.
            -- constructor; cbn; auto.
            -- cbn. rewrite (p_stack _ _ _ P'). exact (l_stack _ _ _ L).
            -- cbn. rewrite (p_comps _ _ _ P'). exact (l_comps _ _ _ L).
            -- rewrite idx_set_low. apply (p_idx_keep _ _ _ P'). exact (l_idx_v _ _ _ L).
            -- rewrite low_set_low, N.eqb_refl. reflexivity.
            -- intros u j Hu. rewrite idx_set_low. apply (p_idx_keep _ _ _ P').
               apply (l_idx_keep _ _ _ L). exact Hu.
            -- intros u Hu. rewrite low_set_low. destruct (N.eqb v u) eqn:E.
               ++ apply N.eqb_eq in E. subst u. congruence.
               ++ rewrite (p_low_keep _ _ _ P' u).
                  ** apply (l_low_keep _ _ _ L). exact Hu.
                  ** destruct (idx st u) as [j|] eqn:Ej; [|congruence].
                     rewrite (l_idx_keep _ _ _ L u j Ej). discriminate.
            -- cbn. pose proof (p_next _ _ _ P'). pose proof (l_next _ _ _ L). lia.
    Qed.
  End Visit.

  Lemma sc_acyclic : forall fuel v st,
    In v (nodes g) -> idx st v = None -> astate g st ->
    (forall x, In x st.(stack) -> clos_trans N (edge g) x v) ->
    length (nodes g) < fuel + length st.(stack) ->
    exists st', strong_connect fuel g v st = TOk st' /\ astate g st' /\ apost st st' v.
  Proof.
    induction fuel as [|f IHf]; intros v st Hv Hvn A Hreach Hfuel.
    - exfalso.
      assert (Hnd : NoDup (v :: st.(stack))).
      { constructor; [|exact (a_nodup _ _ A)]. intro Hin. exact (a_stk_idx _ _ A v Hin Hvn). }
      assert (length (v :: st.(stack)) <= length (nodes g)).
      { apply NoDup_incl_length; [exact Hnd|]. intros x [<-|Hx]; [exact Hv|].
        exact (a_stk_node _ _ A x Hx). }
      cbn in *. lia.
    - cbn [strong_connect].
      assert (Hk : has_key g v = true) by (apply has_key_In; exact Hv).
      rewrite Hk.
      assert (L0 : linv st v (push v st)).
      { constructor.
        - apply astate_push; assumption.
        - reflexivity.
        - reflexivity.
        - rewrite idx_push, N.eqb_refl. reflexivity.
        - rewrite low_push, N.eqb_refl. reflexivity.
        - intros u i Hu. rewrite idx_push. destruct (N.eqb v u) eqn:E; [|exact Hu].
          apply N.eqb_eq in E. subst u. congruence.
        - intros u Hu. rewrite low_push. destruct (N.eqb v u) eqn:E; [|reflexivity].
          apply N.eqb_eq in E. subst u. congruence.
        - cbn. lia. }
      destruct (visit_acyclic f IHf st v Hv Hvn Hreach Hfuel (succs g v) (push v st)) as [s [Hvis L]].
      + intros d Hd. apply succs_edge. exact Hd.
      + exact L0.
      + rewrite Hvis. unfold finish. fold (low s v). fold (idx s v).
        rewrite (l_low_v _ _ _ L), (l_idx_v _ _ _ L), N.eqb_refl.
        rewrite (l_stack _ _ _ L). cbn [pop_until]. rewrite N.eqb_refl.
        cbn [app nontrivial]. rewrite Hk.
        assert (Hself : mem v (succs g v) = false).
        { apply mem_false. intro Hin. apply succs_edge in Hin. exact (no_self_edge v Hv Hin). }
        rewrite Hself.
        destruct (l_a _ _ _ L) as [B1 B2 B3 B4 B5].
        rewrite (l_stack _ _ _ L) in B1, B2, B3, B4.
        assert (Hnin : ~ In v st.(stack)) by (inversion B2; assumption).
        eexists. split; [reflexivity|]. split.
        * constructor; cbn.
          -- rewrite B1. cbn. rewrite N.eqb_refl. apply remove_all_notin. exact Hnin.
          -- inversion B2; assumption.
          -- intros x Hx. apply B3. right. exact Hx.
          -- intros x Hx. apply B4. right. exact Hx.
          -- exact B5.
        * constructor; cbn.
          -- reflexivity.
          -- exact (l_comps _ _ _ L).
          -- exact (l_idx_keep _ _ _ L).
          -- exact (l_low_keep _ _ _ L).
          -- exists st.(next_index). split; [exact (l_idx_v _ _ _ L)|].
             split; [exact (l_low_v _ _ _ L)|lia].
          -- pose proof (l_next _ _ _ L). lia.
  Qed.

  Lemma main_loop_acyclic : forall fuel, length (nodes g) < fuel ->
    forall ns st, (forall n, In n ns -> In n (nodes g)) ->
    astate g st -> st.(stack) = [] -> st.(comps) = [] ->
    exists st', main_loop fuel g ns st = TOk st' /\ st'.(comps) = [].
  Proof.
    intros fuel Hfuel. induction ns as [|n t IH]; intros st Hns A Hs Hc.
    - exists st. split; [reflexivity|exact Hc].
    - cbn [main_loop]. fold (idx st n). destruct (idx st n) as [i|] eqn:E.
      + apply IH; auto. intros. apply Hns. right. assumption.
      + destruct (sc_acyclic fuel n st) as [st' [Hsc [A' P']]]; auto.
        * apply Hns. left. reflexivity.
        * rewrite Hs. intros x [].
        * rewrite Hs. cbn. lia.
        * rewrite Hsc. apply IH; auto.
          -- intros. apply Hns. right. assumption.
          -- rewrite (p_stack _ _ _ P'). exact Hs.
          -- rewrite (p_comps _ _ _ P'). exact Hc.
  Qed.

  Lemma find_cycles_acyclic : forall fuel, length g < fuel -> find_cycles fuel g = TOk [].
  Proof.
    intros fuel Hfuel. unfold find_cycles.
    destruct (main_loop_acyclic fuel) with (ns := nodes g) (st := t_init) as [st' [Hm Hc]].
    - unfold nodes. rewrite map_length. exact Hfuel.
    - auto.
    - constructor; cbn; auto; try (intros; contradiction); try constructor.
      intros u i H. discriminate.
    - reflexivity.
    - reflexivity.
    - rewrite Hm, Hc. reflexivity.
  Qed.
End PartA.
