(* C15 — proofs about the Gallina mirror of _find_cycles (Tarjan.v).

   Part A: on a closed acyclic graph, with fuel > |nodes|, the mirror returns
           TOk [] (every node is its own root and is popped alone).
   Part B: if the mirror returns TOk [] then the graph is acyclic (every node
           was popped as a singleton without a self edge, after all of its
           successors: pop order is a topological order).
   Together: tarjan_none_iff_acyclic.  NOT proved here: that each *reported*
   component is a strongly connected component of the graph. *)
From Coq Require Import Arith NArith List Bool Lia Relations.
Import ListNotations.
Require Import EmbossV.Deps.Graph EmbossV.Deps.Kahn EmbossV.Deps.Tarjan.

Definition idx (st : tstate) (u : N) : option N := get st.(indices) u.
Definition low (st : tstate) (u : N) : option N := get st.(lowlinks) u.

Lemma get_cons : forall k v m u, get ((k, v) :: m) u = if N.eqb k u then Some v else get m u.
Proof. reflexivity. Qed.

Lemma idx_push : forall v st u,
  idx (push v st) u = if N.eqb v u then Some st.(next_index) else idx st u.
Proof. reflexivity. Qed.

Lemma low_push : forall v st u,
  low (push v st) u = if N.eqb v u then Some st.(next_index) else low st u.
Proof. reflexivity. Qed.

Lemma idx_set_low : forall v x st u, idx (set_low v x st) u = idx st u.
Proof. reflexivity. Qed.

Lemma low_set_low : forall v x st u,
  low (set_low v x st) u = if N.eqb v u then Some x else low st u.
Proof. reflexivity. Qed.

Lemma remove_all_notin : forall x l, ~ In x l -> remove_all x l = l.
Proof.
  induction l as [|y t IH]; intros H; [reflexivity|]. cbn.
  destruct (N.eqb x y) eqn:E.
  - apply N.eqb_eq in E. subst. exfalso. apply H. left. reflexivity.
  - f_equal. apply IH. intro. apply H. right. assumption.
Qed.

Lemma in_remove_all : forall x y l, In y (remove_all x l) <-> In y l /\ y <> x.
Proof.
  induction l as [|z t IH]; cbn; [tauto|].
  destruct (N.eqb x z) eqn:E.
  - apply N.eqb_eq in E. subst z. rewrite IH. split.
    + intros [H1 H2]. auto.
    + intros [[H1|H1] H2]; [congruence|auto].
  - apply N.eqb_neq in E. cbn. rewrite IH. split.
    + intros [H|[H1 H2]]; [subst; split; auto|auto].
    + intros [[H1|H1] H2]; auto.
Qed.

Lemma nodup_app_r : forall (a b : list N), NoDup (a ++ b) -> NoDup b.
Proof.
  induction a as [|x a IH]; cbn; intros b H; [exact H|]. inversion H. auto.
Qed.

(* ======================================================================== *)
(* Part A: acyclic => no component reported                                  *)
(* ======================================================================== *)

Record astate (g : graph) (st : tstate) : Prop := {
  a_on : st.(on_stack) = st.(stack);
  a_nodup : NoDup st.(stack);
  a_stk_idx : forall x, In x st.(stack) -> idx st x <> None;
  a_stk_node : forall x, In x st.(stack) -> In x (nodes g);
  a_idx_lt : forall u i, idx st u = Some i -> (i < st.(next_index))%N
}.

Record apost (st st' : tstate) (v : N) : Prop := {
  p_stack : st'.(stack) = st.(stack);
  p_comps : st'.(comps) = st.(comps);
  p_idx_keep : forall u i, idx st u = Some i -> idx st' u = Some i;
  p_low_keep : forall u, idx st u <> None -> low st' u = low st u;
  p_v : exists i, idx st' v = Some i /\ low st' v = Some i /\ (st.(next_index) <= i)%N;
  p_next : (st.(next_index) <= st'.(next_index))%N
}.

Section PartA.
  Variable g : graph.
  Hypothesis Hcl : closed g.
  Hypothesis Hac : ~ cyclic g.

  Lemma no_self_edge : forall v, In v (nodes g) -> ~ edge g v v.
  Proof.
    intros v Hv He. apply Hac. exists v. split; [exact Hv|]. apply t_step. exact He.
  Qed.

  Lemma astate_push : forall v st,
    astate g st -> In v (nodes g) -> idx st v = None -> astate g (push v st).
  Proof.
    intros v st A Hv Hn. destruct A as [A1 A2 A3 A4 A5]. constructor.
    - cbn. rewrite A1. reflexivity.
    - cbn. constructor; [|exact A2]. intro Hin. apply (A3 v Hin). exact Hn.
    - intros x Hx. rewrite idx_push. destruct (N.eqb v x) eqn:E; [discriminate|].
      apply A3. cbn in Hx. destruct Hx as [->|Hx]; [|exact Hx].
      rewrite N.eqb_refl in E. discriminate.
    - intros x Hx. cbn in Hx. destruct Hx as [<-|Hx]; auto.
    - intros u i. rewrite idx_push. cbn [push next_index]. destruct (N.eqb v u).
      + intros E. inversion E. lia.
      + intros E. specialize (A5 u i E). lia.
  Qed.

  (* loop invariant of the `for d in graph[v]` loop, relative to the state st
     in which strong_connect(v) was entered *)
  Record linv (st : tstate) (v : N) (s : tstate) : Prop := {
    l_a : astate g s;
    l_stack : s.(stack) = v :: st.(stack);
    l_comps : s.(comps) = st.(comps);
    l_idx_v : idx s v = Some st.(next_index);
    l_low_v : low s v = Some st.(next_index);
    l_idx_keep : forall u i, idx st u = Some i -> idx s u = Some i;
    l_low_keep : forall u, idx st u <> None -> low s u = low st u;
    l_next : (st.(next_index) < s.(next_index))%N
  }.

  Section Visit.
    Variable f : nat.
    Hypothesis IHf : forall v st,
      In v (nodes g) -> idx st v = None -> astate g st ->
      (forall x, In x st.(stack) -> clos_trans N (edge g) x v) ->
      length (nodes g) < f + length st.(stack) ->
      exists st', strong_connect f g v st = TOk st' /\ astate g st' /\ apost st st' v.

    Lemma visit_acyclic : forall st v,
      In v (nodes g) -> idx st v = None ->
      (forall x, In x st.(stack) -> clos_trans N (edge g) x v) ->
      length (nodes g) < S f + length st.(stack) ->
      forall ds s, (forall d, In d ds -> edge g v d) -> linv st v s ->
      exists s', visit (strong_connect f g) v ds s = TOk s' /\ linv st v s'.
    Proof.
      intros st v Hv Hvn Hreach Hfuel.
      induction ds as [|d ds IH]; intros s Hds L.
      - exists s. split; [reflexivity|exact L].
      - assert (Hvd : edge g v d) by (apply Hds; left; reflexivity).
        assert (Hdn : In d (nodes g)) by (eapply Hcl; exact Hvd).
        cbn [visit]. fold (idx s d). destruct (idx s d) as [di|] eqn:Ed.
        + (* already indexed: it cannot be on the stack *)
          destruct (mem d s.(on_stack)) eqn:Em.
          * exfalso. apply mem_In in Em. rewrite (a_on _ _ (l_a _ _ _ L)), (l_stack _ _ _ L) in Em.
            destruct Em as [<-|Hin].
            -- exact (no_self_edge v Hv Hvd).
            -- apply Hac. exists v. split; [exact Hv|].
               eapply t_trans; [apply t_step; exact Hvd|]. apply Hreach. exact Hin.
          * apply IH; [intros; apply Hds; right; assumption|exact L].
        + (* not indexed: recursive call *)
          destruct (IHf d s Hdn Ed (l_a _ _ _ L)) as [s' [Hsc [A' P']]].
          * intros x Hx. rewrite (l_stack _ _ _ L) in Hx. destruct Hx as [<-|Hx].
            -- apply t_step. exact Hvd.
            -- eapply t_trans; [apply Hreach; exact Hx|apply t_step; exact Hvd].
          * rewrite (l_stack _ _ _ L). cbn [length]. lia.
          * rewrite Hsc.
            assert (Hlv : low s' v = Some st.(next_index)).
            { rewrite (p_low_keep _ _ _ P' v); [exact (l_low_v _ _ _ L)|].
              rewrite (l_idx_v _ _ _ L). discriminate. }
            destruct (p_v _ _ _ P') as [i [Hid [Hld Hi]]].
            fold (low s' v). fold (low s' d). rewrite Hlv, Hld.
            assert (Hmin : N.min st.(next_index) i = st.(next_index)).
            { apply N.min_l. pose proof (l_next _ _ _ L). lia. }
            rewrite Hmin.
            apply IH; [intros; apply Hds; right; assumption|].
            destruct A' as [B1 B2 B3 B4 B5].
            constructor.
            -- constructor; cbn; auto.
            -- cbn. rewrite (p_stack _ _ _ P'). exact (l_stack _ _ _ L).
            -- cbn. rewrite (p_comps _ _ _ P'). exact (l_comps _ _ _ L).
            -- rewrite idx_set_low. apply (p_idx_keep _ _ _ P'). exact (l_idx_v _ _ _ L).
            -- rewrite low_set_low, N.eqb_refl. reflexivity.
            -- intros u j Hu. rewrite idx_set_low. apply (p_idx_keep _ _ _ P').
               apply (l_idx_keep _ _ _ L). exact Hu.
            -- intros u Hu. rewrite low_set_low. destruct (N.eqb v u) eqn:E.
               ++ apply N.eqb_eq in E. subst u. congruence.
               ++ rewrite (p_low_keep _ _ _ P' u).
                  ** apply (l_low_keep _ _ _ L). exact Hu.
                  ** destruct (idx st u) as [j|] eqn:Ej; [|congruence].
                     rewrite (l_idx_keep _ _ _ L u j Ej). discriminate.
            -- cbn. pose proof (p_next _ _ _ P'). pose proof (l_next _ _ _ L). lia.
    Qed.
  End Visit.

  Lemma sc_acyclic : forall fuel v st,
    In v (nodes g) -> idx st v = None -> astate g st ->
    (forall x, In x st.(stack) -> clos_trans N (edge g) x v) ->
    length (nodes g) < fuel + length st.(stack) ->
    exists st', strong_connect fuel g v st = TOk st' /\ astate g st' /\ apost st st' v.
  Proof.
    induction fuel as [|f IHf]; intros v st Hv Hvn A Hreach Hfuel.
    - exfalso.
      assert (Hnd : NoDup (v :: st.(stack))).
      { constructor; [|exact (a_nodup _ _ A)]. intro Hin. exact (a_stk_idx _ _ A v Hin Hvn). }
      assert (length (v :: st.(stack)) <= length (nodes g)).
      { apply NoDup_incl_length; [exact Hnd|]. intros x [<-|Hx]; [exact Hv|].
        exact (a_stk_node _ _ A x Hx). }
      cbn in *. lia.
    - cbn [strong_connect].
      assert (Hk : has_key g v = true) by (apply has_key_In; exact Hv).
      rewrite Hk.
      assert (L0 : linv st v (push v st)).
      { constructor.
        - apply astate_push; assumption.
        - reflexivity.
        - reflexivity.
        - rewrite idx_push, N.eqb_refl. reflexivity.
        - rewrite low_push, N.eqb_refl. reflexivity.
        - intros u i Hu. rewrite idx_push. destruct (N.eqb v u) eqn:E; [|exact Hu].
          apply N.eqb_eq in E. subst u. congruence.
        - intros u Hu. rewrite low_push. destruct (N.eqb v u) eqn:E; [|reflexivity].
          apply N.eqb_eq in E. subst u. congruence.
        - cbn. lia. }
      destruct (visit_acyclic f IHf st v Hv Hvn Hreach Hfuel (succs g v) (push v st)) as [s [Hvis L]].
      + intros d Hd. apply succs_edge. exact Hd.
      + exact L0.
      + rewrite Hvis. unfold finish. fold (low s v). fold (idx s v).
        rewrite (l_low_v _ _ _ L), (l_idx_v _ _ _ L), N.eqb_refl.
        rewrite (l_stack _ _ _ L). cbn [pop_until]. rewrite N.eqb_refl.
        cbn [app nontrivial]. rewrite Hk.
        assert (Hself : mem v (succs g v) = false).
        { apply mem_false. intro Hin. apply succs_edge in Hin. exact (no_self_edge v Hv Hin). }
        rewrite Hself.
        destruct (l_a _ _ _ L) as [B1 B2 B3 B4 B5].
        rewrite (l_stack _ _ _ L) in B1, B2, B3, B4.
        assert (Hnin : ~ In v st.(stack)) by (inversion B2; assumption).
        eexists. split; [reflexivity|]. split.
        * constructor; cbn.
          -- rewrite B1. cbn. rewrite N.eqb_refl. apply remove_all_notin. exact Hnin.
          -- inversion B2; assumption.
          -- intros x Hx. apply B3. right. exact Hx.
          -- intros x Hx. apply B4. right. exact Hx.
          -- exact B5.
        * constructor; cbn.
          -- reflexivity.
          -- exact (l_comps _ _ _ L).
          -- exact (l_idx_keep _ _ _ L).
          -- exact (l_low_keep _ _ _ L).
          -- exists st.(next_index). split; [exact (l_idx_v _ _ _ L)|].
             split; [exact (l_low_v _ _ _ L)|lia].
          -- pose proof (l_next _ _ _ L). lia.
  Qed.

  Lemma main_loop_acyclic : forall fuel, length (nodes g) < fuel ->
    forall ns st, (forall n, In n ns -> In n (nodes g)) ->
    astate g st -> st.(stack) = [] -> st.(comps) = [] ->
    exists st', main_loop fuel g ns st = TOk st' /\ st'.(comps) = [].
  Proof.
    intros fuel Hfuel. induction ns as [|n t IH]; intros st Hns A Hs Hc.
    - exists st. split; [reflexivity|exact Hc].
    - cbn [main_loop]. fold (idx st n). destruct (idx st n) as [i|] eqn:E.
      + apply IH; auto. intros. apply Hns. right. assumption.
      + destruct (sc_acyclic fuel n st) as [st' [Hsc [A' P']]]; auto.
        * apply Hns. left. reflexivity.
        * rewrite Hs. intros x [].
        * rewrite Hs. cbn. lia.
        * rewrite Hsc. apply IH; auto.
          -- intros. apply Hns. right. assumption.
          -- rewrite (p_stack _ _ _ P'). exact Hs.
          -- rewrite (p_comps _ _ _ P'). exact Hc.
  Qed.

  Lemma find_cycles_acyclic : forall fuel, length g < fuel -> find_cycles fuel g = TOk [].
  Proof.
    intros fuel Hfuel. unfold find_cycles.
    destruct (main_loop_acyclic fuel) with (ns := nodes g) (st := t_init) as [st' [Hm Hc]].
    - unfold nodes. rewrite map_length. exact Hfuel.
    - auto.
    - constructor; cbn; auto; try (intros; contradiction); try constructor.
      intros u i H. discriminate.
    - reflexivity.
    - reflexivity.
    - rewrite Hm, Hc. reflexivity.
  Qed.
End PartA.

(* ======================================================================== *)
(* Part B: no component reported => acyclic                                  *)
(* ======================================================================== *)

Definition popped (st : tstate) (u : N) : Prop := idx st u <> None /\ ~ In u st.(stack).

(* the invariant of the sink-removal argument (as in Kahn.v), on a predicate *)
Definition KI (g : graph) (P : N -> Prop) : Prop :=
  (forall u w, P u -> edge g u w -> P w) /\
  (forall u, P u -> ~ clos_trans N (edge g) u u).

Lemma KI_ext : forall g (P Q : N -> Prop), (forall u, P u <-> Q u) -> KI g P -> KI g Q.
Proof.
  intros g P Q H [H1 H2]. split.
  - intros u w Hu He. apply H. eapply H1; [apply H; exact Hu|exact He].
  - intros u Hu. apply H2. apply H. exact Hu.
Qed.

Lemma KI_add : forall g (P : N -> Prop) v,
  KI g P -> ~ P v -> (forall w, edge g v w -> P w) ->
  KI g (fun u => P u \/ u = v).
Proof.
  intros g P v [H1 H2] Hnv Hs. split.
  - intros u w [Hu| ->] He; left; [eapply H1; eauto|apply Hs; exact He].
  - intros u [Hu| ->] Hc; [exact (H2 u Hu Hc)|].
    destruct (clos_trans_first _ _ _ Hc) as [y [Hvy [->|Hyv]]].
    + apply Hnv. apply Hs. exact Hvy.
    + apply Hnv. apply (reach_closed_set (edge g) P) with (u := y);
        [intros a b Ha Hab; eapply H1; eauto|exact Hyv|apply Hs; exact Hvy].
Qed.

(* low-links and stack indices never drop below the index at which a top-level call started *)
Definition Kinv (b : N) (st : tstate) : Prop :=
  (forall x, In x st.(stack) -> exists i, idx st x = Some i /\ (b <= i)%N) /\
  (forall u i, idx st u = Some i -> (b <= i)%N -> exists l, low st u = Some l /\ (b <= l)%N).

Record wf (st : tstate) : Prop := {
  w_on : forall x, In x st.(on_stack) <-> In x st.(stack);
  w_stk_idx : forall x, In x st.(stack) -> idx st x <> None;
  w_idx_lt : forall u i, idx st u = Some i -> (i < st.(next_index))%N;
  w_low : forall u i, idx st u = Some i -> exists l, low st u = Some l /\ (l <= i)%N;
  w_nodup : NoDup st.(stack)
}.

Record bpost (g : graph) (st st' : tstate) (v : N) : Prop := {
  b_idx_keep : forall u i, idx st u = Some i -> idx st' u = Some i;
  b_low_keep : forall u, idx st u <> None -> low st' u = low st u;
  b_new_ge : forall u i, idx st u = None -> idx st' u = Some i -> (st.(next_index) <= i)%N;
  b_idx_v : idx st' v = Some st.(next_index);
  b_next : (st.(next_index) <= st'.(next_index))%N;
  b_stack : exists X, st'.(stack) = X ++ st.(stack) /\ forall x, In x X -> idx st x = None;
  b_root : low st' v = idx st' v -> st'.(stack) = st.(stack);
  b_comps : exists C, st'.(comps) = C ++ st.(comps);
  b_ki : st'.(comps) = [] -> KI g (popped st) -> KI g (popped st');
  b_k : forall b, (b <= st.(next_index))%N -> Kinv b st -> Kinv b st'
}.

Lemma pop_until_spec : forall v X R ons acc, ~ In v X ->
  exists ons', pop_until v (X ++ v :: R) ons acc = Some (R, ons', acc ++ X ++ [v]) /\
               forall x, In x ons' <-> (In x ons /\ ~ In x X /\ x <> v).
Proof.
  induction X as [|y X IH]; intros R ons acc Hn.
  - cbn. rewrite N.eqb_refl. eexists. split; [reflexivity|].
    intros x. rewrite in_remove_all. tauto.
  - cbn [app pop_until]. destruct (N.eqb y v) eqn:E.
    + apply N.eqb_eq in E. subst. exfalso. apply Hn. left. reflexivity.
    + destruct (IH R (remove_all y ons) (acc ++ [y])) as [ons' [Hp Hi]].
      * intro. apply Hn. right. assumption.
      * exists ons'. split.
        -- rewrite Hp. rewrite <- app_assoc. reflexivity.
        -- intros x. rewrite Hi, in_remove_all. cbn. apply N.eqb_neq in E. split.
           ++ intros [[H1 H2] [H3 H4]]. repeat split; auto. intros [H|H]; auto.
           ++ intros [H1 [H2 H3]]. repeat split; auto.
Qed.

Section PartB.
  Variable g : graph.

  Lemma popped_mono : forall st s v X,
    s.(stack) = X ++ v :: st.(stack) -> (forall x, In x X -> idx st x = None) -> idx st v = None ->
    (forall u i, idx st u = Some i -> idx s u = Some i) ->
    forall u, popped st u -> popped s u.
  Proof.
    intros st s v X Hs HX Hv Hk u [H1 H2]. split.
    - destruct (idx st u) as [i|] eqn:E; [|congruence]. rewrite (Hk u i E). discriminate.
    - rewrite Hs. intro Hin. apply in_app_iff in Hin. destruct Hin as [Hin|[<-|Hin]].
      + apply H1. apply HX. exact Hin.
      + apply H1. exact Hv.
      + apply H2. exact Hin.
  Qed.

  Lemma wf_push : forall v st, wf st -> idx st v = None -> wf (push v st).
  Proof.
    intros v st W Hv. destruct W as [W1 W2 W3 W4 W5]. constructor.
    - intros x. cbn. rewrite W1. tauto.
    - intros x Hx. rewrite idx_push. destruct (N.eqb v x) eqn:E; [discriminate|].
      cbn in Hx. destruct Hx as [->|Hx]; [rewrite N.eqb_refl in E; discriminate|auto].
    - intros u i. rewrite idx_push. cbn [push next_index]. destruct (N.eqb v u).
      + intros E. inversion E. lia.
      + intros E. specialize (W3 u i E). lia.
    - intros u i. rewrite idx_push, low_push. destruct (N.eqb v u).
      + intros E. inversion E. subst. exists st.(next_index). split; [reflexivity|lia].
      + apply W4.
    - cbn. constructor; [|exact W5]. intro Hin. exact (W2 v Hin Hv).
  Qed.

  Lemma Kinv_push : forall b v st, (b <= st.(next_index))%N -> idx st v = None ->
    Kinv b st -> Kinv b (push v st).
  Proof.
    intros b v st Hb Hv [K1 K2]. split.
    - intros x Hx. rewrite idx_push. destruct (N.eqb v x) eqn:E.
      + exists st.(next_index). auto.
      + cbn in Hx. destruct Hx as [->|Hx]; [rewrite N.eqb_refl in E; discriminate|auto].
    - intros u i. rewrite idx_push, low_push. destruct (N.eqb v u).
      + intros E Hi. inversion E. subst. exists st.(next_index). auto.
      + apply K2.
  Qed.

  Lemma wf_set_low : forall v x a s, wf s -> low s v = Some a -> (x <= a)%N -> wf (set_low v x s).
  Proof.
    intros v x a s [W1 W2 W3 W4 W5] Ha Hx. constructor.
    - exact W1.
    - exact W2.
    - exact W3.
    - intros u i Hu. change (idx (set_low v x s) u) with (idx s u) in Hu.
      rewrite low_set_low. destruct (N.eqb v u) eqn:E.
      + apply N.eqb_eq in E. subst u. exists x. split; [reflexivity|].
        destruct (W4 v i Hu) as [l [Hl Hle]]. rewrite Ha in Hl. inversion Hl. subst. lia.
      + apply W4. exact Hu.
    - exact W5.
  Qed.

  Lemma Kinv_set_low : forall b v x s, Kinv b s -> (b <= x)%N -> Kinv b (set_low v x s).
  Proof.
    intros b v x s [K1 K2] Hx. split; [exact K1|].
    intros u i Hu Hi. change (idx (set_low v x s) u) with (idx s u) in Hu.
    rewrite low_set_low. destruct (N.eqb v u) eqn:E.
    - exists x. auto.
    - apply (K2 u i); assumption.
  Qed.

  (* loop invariant of the successor loop; D = successors already processed *)
  Record linvB (st : tstate) (v : N) (D : list N) (s : tstate) : Prop := {
    lb_wf : wf s;
    lb_stack : exists X, s.(stack) = X ++ v :: st.(stack) /\ forall x, In x X -> idx st x = None;
    lb_idx_v : idx s v = Some st.(next_index);
    lb_idx_keep : forall u i, idx st u = Some i -> idx s u = Some i;
    lb_low_keep : forall u, idx st u <> None -> low s u = low st u;
    lb_new_ge : forall u i, idx st u = None -> idx s u = Some i -> (st.(next_index) <= i)%N;
    lb_next : (st.(next_index) < s.(next_index))%N;
    lb_J : forall d, In d D -> exists di, idx s d = Some di /\
             (In d s.(stack) -> exists lv, low s v = Some lv /\ (lv <= di)%N);
    lb_comps : exists C, s.(comps) = C ++ st.(comps);
    lb_ki : s.(comps) = [] -> KI g (popped st) -> KI g (popped s);
    lb_k : forall b, (b <= st.(next_index))%N -> Kinv b st -> Kinv b s
  }.

  Section VisitB.
    Variable f : nat.
    Hypothesis IHf : forall v st st',
      strong_connect f g v st = TOk st' -> wf st -> idx st v = None ->
      wf st' /\ bpost g st st' v.

    Lemma visit_sound : forall st v, wf st -> idx st v = None ->
      forall ds D s s',
      visit (strong_connect f g) v ds s = TOk s' ->
      linvB st v D s -> linvB st v (D ++ ds) s'.
    Proof.
      intros st v Wst Hvn. induction ds as [|d ds IH]; intros D s s' Hvis L.
      - cbn in Hvis. inversion Hvis. subst. rewrite app_nil_r. exact L.
      - replace (D ++ d :: ds) with ((D ++ [d]) ++ ds) by (rewrite <- app_assoc; reflexivity).
        cbn [visit] in Hvis. fold (idx s d) in Hvis.
        destruct (lb_stack _ _ _ _ L) as [X [HsX HX]].
        pose proof (lb_wf _ _ _ _ L) as Ws.
        destruct (idx s d) as [di|] eqn:Ed.
        + destruct (mem d s.(on_stack)) eqn:Em.
          * (* on the stack: lowlink[v] = min(lowlink[v], index[d]) *)
            fold (low s v) in Hvis. destruct (low s v) as [a|] eqn:Ea; [|discriminate].
            apply IH with (s := set_low v (N.min a di) s); [exact Hvis|].
            destruct Ws as [W1 W2 W3 W4 W5].
            constructor.
            -- apply wf_set_low with (a := a); [constructor; assumption|exact Ea|lia].
            -- exists X. split; [exact HsX|exact HX].
            -- exact (lb_idx_v _ _ _ _ L).
            -- exact (lb_idx_keep _ _ _ _ L).
            -- intros u Hu. rewrite low_set_low. destruct (N.eqb v u) eqn:E.
               ++ apply N.eqb_eq in E. subst u. congruence.
               ++ apply (lb_low_keep _ _ _ _ L). exact Hu.
            -- exact (lb_new_ge _ _ _ _ L).
            -- exact (lb_next _ _ _ _ L).
            -- intros d' Hd'. apply in_app_iff in Hd'. destruct Hd' as [Hd'|[<-|[]]].
               ++ destruct (lb_J _ _ _ _ L d' Hd') as [d'i [Hi Hs]].
                  exists d'i. split; [exact Hi|]. intros Hin. destruct (Hs Hin) as [lv [Hlv Hle]].
                  exists (N.min a di). rewrite low_set_low, N.eqb_refl. split; [reflexivity|].
                  rewrite Ea in Hlv. inversion Hlv. subst. lia.
               ++ exists di. split; [exact Ed|]. intros _. exists (N.min a di).
                  rewrite low_set_low, N.eqb_refl. split; [reflexivity|lia].
            -- exact (lb_comps _ _ _ _ L).
            -- exact (lb_ki _ _ _ _ L).
            -- intros b Hb HK. pose proof (lb_k _ _ _ _ L b Hb HK) as HKs.
               apply Kinv_set_low; [exact HKs|]. destruct HKs as [K1 K2].
               assert (Hb' : (b <= st.(next_index))%N) by exact Hb.
               destruct (K2 v _ (lb_idx_v _ _ _ _ L) Hb') as [l [Hl Hle]]. rewrite Ea in Hl. inversion Hl. subst.
               assert (Hdin : In d s.(stack)) by (apply W1; apply mem_In; exact Em).
               destruct (K1 d Hdin) as [j [Hj Hjb]]. rewrite Ed in Hj. inversion Hj. subst. lia.
          * (* indexed and already popped: nothing happens *)
            apply IH with (s := s); [exact Hvis|].
            destruct L as [L1 L2 L3 L4 L5 L6 L7 L8 L9 L10 L11]. constructor; auto.
            intros d' Hd'. apply in_app_iff in Hd'. destruct Hd' as [Hd'|[<-|[]]]; [auto|].
            exists di. split; [exact Ed|]. intros Hin. exfalso.
            apply (w_on _ Ws) in Hin. apply mem_In in Hin. congruence.
        + (* not indexed: recursive call, then lowlink[v] = min(lowlink[v], lowlink[d]) *)
          destruct (strong_connect f g d s) as [s1| |] eqn:Hsc; try discriminate.
          destruct (IHf d s s1 Hsc Ws Ed) as [W1 P1].
          fold (low s1 v) in Hvis. fold (low s1 d) in Hvis.
          destruct (low s1 v) as [a|] eqn:Ea; [|discriminate].
          destruct (low s1 d) as [b0|] eqn:Eb; [|discriminate].
          apply IH with (s := set_low v (N.min a b0) s1); [exact Hvis|].
          assert (Hidxv1 : idx s1 v = Some st.(next_index))
            by (apply (b_idx_keep _ _ _ _ P1); exact (lb_idx_v _ _ _ _ L)).
          assert (Hlowv : low s v = Some a).
          { rewrite <- (b_low_keep _ _ _ _ P1 v); [exact Ea|]. rewrite (lb_idx_v _ _ _ _ L). discriminate. }
          destruct (b_stack _ _ _ _ P1) as [X1 [Hs1 HX1]].
          destruct W1 as [V1 V2 V3 V4 V5].
          constructor.
          -- apply wf_set_low with (a := a); [constructor; assumption|exact Ea|lia].
          -- exists (X1 ++ X). split.
             ++ cbn. rewrite Hs1, HsX. rewrite app_assoc. reflexivity.
             ++ intros x Hx. apply in_app_iff in Hx. destruct Hx as [Hx|Hx]; [|auto].
                specialize (HX1 x Hx). destruct (idx st x) as [j|] eqn:Ej; [|reflexivity].
                rewrite (lb_idx_keep _ _ _ _ L x j Ej) in HX1. discriminate.
          -- exact Hidxv1.
          -- intros u i Hu. apply (b_idx_keep _ _ _ _ P1). apply (lb_idx_keep _ _ _ _ L). exact Hu.
          -- intros u Hu. rewrite low_set_low. destruct (N.eqb v u) eqn:E.
             ++ apply N.eqb_eq in E. subst u. congruence.
             ++ rewrite (b_low_keep _ _ _ _ P1 u).
                ** apply (lb_low_keep _ _ _ _ L). exact Hu.
                ** destruct (idx st u) as [j|] eqn:Ej; [|congruence].
                   rewrite (lb_idx_keep _ _ _ _ L u j Ej). discriminate.
          -- intros u i Hu Hi. change (idx (set_low v (N.min a b0) s1) u) with (idx s1 u) in Hi.
             destruct (idx s u) as [j|] eqn:Ej.
             ++ rewrite (b_idx_keep _ _ _ _ P1 u j Ej) in Hi. inversion Hi. subst.
                apply (lb_new_ge _ _ _ _ L u i Hu Ej).
             ++ pose proof (b_new_ge _ _ _ _ P1 u i Ej Hi). pose proof (lb_next _ _ _ _ L). lia.
          -- cbn. pose proof (b_next _ _ _ _ P1). pose proof (lb_next _ _ _ _ L). lia.
          -- intros d' Hd'. apply in_app_iff in Hd'. destruct Hd' as [Hd'|[<-|[]]].
             ++ destruct (lb_J _ _ _ _ L d' Hd') as [d'i [Hi Hs]].
                exists d'i. split; [apply (b_idx_keep _ _ _ _ P1); exact Hi|].
                intros Hin. cbn in Hin. rewrite Hs1 in Hin. apply in_app_iff in Hin.
                destruct Hin as [Hin|Hin]; [rewrite (HX1 d' Hin) in Hi; discriminate|].
                destruct (Hs Hin) as [lv [Hlv Hle]]. rewrite Hlowv in Hlv. inversion Hlv. subst.
                exists (N.min lv b0). rewrite low_set_low, N.eqb_refl. split; [reflexivity|lia].
             ++ pose proof (b_idx_v _ _ _ _ P1) as Hd1. exists s.(next_index).
                split; [exact Hd1|]. intros _. exists (N.min a b0).
                rewrite low_set_low, N.eqb_refl. split; [reflexivity|].
                destruct (V4 d _ Hd1) as [l [Hl Hle]]. rewrite Eb in Hl. inversion Hl. subst. lia.
          -- destruct (lb_comps _ _ _ _ L) as [C HC]. destruct (b_comps _ _ _ _ P1) as [C1 HC1].
             exists (C1 ++ C). cbn. rewrite HC1, HC, app_assoc. reflexivity.
          -- intros Hc HK. cbn in Hc.
             assert (Hcs : s.(comps) = []).
             { destruct (b_comps _ _ _ _ P1) as [C1 HC1]. rewrite Hc in HC1.
               symmetry in HC1. apply app_eq_nil in HC1. tauto. }
             exact (b_ki _ _ _ _ P1 Hc (lb_ki _ _ _ _ L Hcs HK)).
          -- intros b Hb HK.
             assert (Hbs : (b <= s.(next_index))%N) by (pose proof (lb_next _ _ _ _ L); lia).
             pose proof (b_k _ _ _ _ P1 b Hbs (lb_k _ _ _ _ L b Hb HK)) as HK1.
             apply Kinv_set_low; [exact HK1|]. destruct HK1 as [K1 K2].
             destruct (K2 v _ Hidxv1 Hb) as [l [Hl Hle]]. rewrite Ea in Hl. inversion Hl. subst.
             pose proof (b_idx_v _ _ _ _ P1) as Hd1.
             destruct (K2 d _ Hd1 Hbs) as [l' [Hl' Hle']]. rewrite Eb in Hl'. inversion Hl'. subst. lia.
    Qed.
  End VisitB.

  Lemma linvB_init : forall st v, wf st -> idx st v = None -> linvB st v [] (push v st).
  Proof.
    intros st v W Hv. constructor.
    - apply wf_push; assumption.
    - exists []. split; [reflexivity|intros x []].
    - rewrite idx_push, N.eqb_refl. reflexivity.
    - intros u i Hu. rewrite idx_push. destruct (N.eqb v u) eqn:E; [|exact Hu].
      apply N.eqb_eq in E. subst u. congruence.
    - intros u Hu. rewrite low_push. destruct (N.eqb v u) eqn:E; [|reflexivity].
      apply N.eqb_eq in E. subst u. congruence.
    - intros u i Hu. rewrite idx_push. destruct (N.eqb v u) eqn:E.
      + intros H. inversion H. lia.
      + intros H. congruence.
    - cbn. lia.
    - intros d [].
    - exists []. reflexivity.
    - intros _ HK. apply KI_ext with (P := popped st); [|exact HK].
      intros u. unfold popped. rewrite idx_push. cbn [push stack]. split.
      + intros [H1 H2]. destruct (N.eqb v u) eqn:E.
        * apply N.eqb_eq in E. subst u. congruence.
        * split; [exact H1|]. intros [Hin|Hin]; [subst; rewrite N.eqb_refl in E; discriminate|auto].
      + intros [H1 H2]. destruct (N.eqb v u) eqn:E.
        * exfalso. apply H2. left. apply N.eqb_eq. exact E.
        * split; [exact H1|]. intro Hin. apply H2. right. exact Hin.
    - intros b Hb HK. apply Kinv_push; assumption.
  Qed.

  Lemma nontrivial_false : forall X v, nontrivial g (X ++ [v]) = Some false ->
    X = [] /\ mem v (succs g v) = false.
  Proof.
    intros X v H. destruct X as [|x X].
    - cbn in H. destruct (has_key g v); [|discriminate]. inversion H. auto.
    - cbn in H. destruct (X ++ [v]) eqn:E; [destruct X; discriminate|discriminate].
  Qed.

  Lemma sc_sound : forall fuel v st st',
    strong_connect fuel g v st = TOk st' -> wf st -> idx st v = None ->
    wf st' /\ bpost g st st' v.
  Proof.
    induction fuel as [|f IHf]; intros v st st' H W Hv; [discriminate|].
    cbn [strong_connect] in H.
    destruct (has_key g v) eqn:Hk; [|discriminate].
    destruct (visit (strong_connect f g) v (succs g v) (push v st)) as [s| |] eqn:Hvis; try discriminate.
    pose proof (visit_sound f IHf st v W Hv _ _ _ _ Hvis (linvB_init st v W Hv)) as L.
    cbn [app] in L.
    unfold finish in H. fold (low s v) in H. fold (idx s v) in H.
    rewrite (lb_idx_v _ _ _ _ L) in H.
    destruct (low s v) as [l|] eqn:El; [|discriminate].
    destruct (lb_stack _ _ _ _ L) as [X [HsX HX]].
    pose proof (lb_wf _ _ _ _ L) as Ws.
    assert (HXv : forall x, In x (X ++ [v]) -> idx st x = None).
    { intros x Hx. apply in_app_iff in Hx. destruct Hx as [Hx|[<-|[]]]; auto. }
    destruct (N.eqb l st.(next_index)) eqn:Eroot.
    - (* v is a root: pop the component *)
      apply N.eqb_eq in Eroot. subst l.
      assert (Hnd : NoDup (X ++ v :: st.(stack))) by (rewrite <- HsX; exact (w_nodup _ Ws)).
      assert (HvX : ~ In v X).
      { intro Hin. apply NoDup_remove_2 in Hnd. apply Hnd. apply in_app_iff. left. exact Hin. }
      destruct (pop_until_spec v X st.(stack) s.(on_stack) [] HvX) as [ons' [Hp Hons]].
      rewrite HsX, Hp in H. cbn [app] in H.
      destruct (nontrivial g (X ++ [v])) as [b|] eqn:Ent; [|discriminate].
      inversion H; subst st'; clear H.
      assert (HndR : NoDup st.(stack)).
      { apply nodup_app_r in Hnd. inversion Hnd. assumption. }
      assert (HRX : forall x, In x st.(stack) -> ~ In x X /\ x <> v).
      { intros x Hx. split.
        - intro HxX. revert Hnd. clear -Hx HxX. induction X as [|y X IH]; [destruct HxX|].
          cbn. intros Hnd. inversion Hnd; subst. destruct HxX as [->|HxX].
          + apply H1. apply in_app_iff. right. right. exact Hx.
          + apply IH; assumption.
        - intros ->. apply NoDup_remove_2 in Hnd. apply Hnd. apply in_app_iff. right. exact Hx. }
      destruct Ws as [W1 W2 W3 W4 W5].
      split.
      + constructor; cbn [on_stack stack next_index].
        * intros x. rewrite Hons, W1, HsX. split.
          -- intros [Hin [H1 H2]]. apply in_app_iff in Hin. destruct Hin as [Hin|[Hin|Hin]]; [tauto|congruence|exact Hin].
          -- intros Hin. destruct (HRX x Hin) as [H1 H2]. split; [|tauto].
             apply in_app_iff. right. right. exact Hin.
        * intros x Hx. apply (W2 x). rewrite HsX. apply in_app_iff. right. right. exact Hx.
        * exact W3.
        * exact W4.
        * exact HndR.
      + constructor; cbn [stack comps next_index].
        * exact (lb_idx_keep _ _ _ _ L).
        * exact (lb_low_keep _ _ _ _ L).
        * exact (lb_new_ge _ _ _ _ L).
        * exact (lb_idx_v _ _ _ _ L).
        * pose proof (lb_next _ _ _ _ L). lia.
        * exists []. split; [reflexivity|intros x []].
        * reflexivity.
        * destruct (lb_comps _ _ _ _ L) as [C HC]. destruct b.
          -- exists ((X ++ [v]) :: C). rewrite HC. reflexivity.
          -- exists C. exact HC.
        * intros Hc HK. destruct b; [discriminate|].
          destruct (nontrivial_false _ _ Ent) as [-> Hself].
          cbn [app] in HsX.
          pose proof (lb_ki _ _ _ _ L Hc HK) as HKs.
          apply KI_ext with (P := fun u => popped s u \/ u = v).
          -- intros u. unfold popped. cbn [stack]. rewrite HsX. split.
             ++ intros [[H1 H2]| ->].
                ** split; [exact H1|]. intro Hin. apply H2. right. exact Hin.
                ** split.
                   --- change (idx s v <> None). rewrite (lb_idx_v _ _ _ _ L). discriminate.
                   --- intro Hin. exact (proj2 (HRX v Hin) eq_refl).
             ++ intros [H1 H2]. destruct (N.eq_dec u v) as [->|Hne]; [right; reflexivity|].
                left. split; [exact H1|]. intros [Hin|Hin]; [congruence|auto].
          -- apply KI_add; [exact HKs| |].
             ++ intros [_ Hn]. apply Hn. rewrite HsX. left. reflexivity.
             ++ intros w Hvw. apply succs_edge in Hvw.
                destruct (lb_J _ _ _ _ L w Hvw) as [wi [Hwi Hst]]. split.
                ** rewrite Hwi. discriminate.
                ** intro Hin. destruct (Hst Hin) as [lv [Hlv Hle]]. rewrite El in Hlv. inversion Hlv. subst lv.
                   rewrite HsX in Hin. destruct Hin as [<-|Hin].
                   --- apply mem_false in Hself. exact (Hself Hvw).
                   --- destruct (idx st w) as [j|] eqn:Ej.
                       +++ pose proof (w_idx_lt _ W w j Ej).
                           rewrite (lb_idx_keep _ _ _ _ L w j Ej) in Hwi. inversion Hwi. subst. lia.
                       +++ exact (w_stk_idx _ W w Hin Ej).
        * intros b0 Hb HK. destruct (lb_k _ _ _ _ L b0 Hb HK) as [K1 K2]. split.
          -- intros x Hx. apply (K1 x). rewrite HsX. apply in_app_iff. right. right. exact Hx.
          -- exact K2.
    - (* not a root: v stays on the stack *)
      inversion H; subst st'; clear H. split; [exact Ws|].
      constructor.
      + exact (lb_idx_keep _ _ _ _ L).
      + exact (lb_low_keep _ _ _ _ L).
      + exact (lb_new_ge _ _ _ _ L).
      + exact (lb_idx_v _ _ _ _ L).
      + pose proof (lb_next _ _ _ _ L). lia.
      + exists (X ++ [v]). split; [rewrite HsX, <- app_assoc; reflexivity|exact HXv].
      + intros Heq. rewrite El, (lb_idx_v _ _ _ _ L) in Heq. inversion Heq. subst.
        rewrite N.eqb_refl in Eroot. discriminate.
      + exact (lb_comps _ _ _ _ L).
      + exact (lb_ki _ _ _ _ L).
      + exact (lb_k _ _ _ _ L).
  Qed.

  Lemma main_loop_sound : forall fuel ns st st',
    main_loop fuel g ns st = TOk st' -> wf st -> st.(stack) = [] ->
    wf st' /\ st'.(stack) = [] /\
    (exists C, st'.(comps) = C ++ st.(comps)) /\
    (st'.(comps) = [] -> KI g (popped st) -> KI g (popped st')) /\
    (forall u, idx st u <> None -> idx st' u <> None) /\
    (forall n, In n ns -> idx st' n <> None).
  Proof.
    intros fuel. induction ns as [|n t IH]; intros st st' H W Hs.
    - inversion H; subst. split; [exact W|]. split; [exact Hs|]. split; [exists []; reflexivity|].
      split; [auto|]. split; [auto|]. intros n [].
    - cbn [main_loop] in H. fold (idx st n) in H. destruct (idx st n) as [i|] eqn:En.
      + destruct (IH st st' H W Hs) as [W' [Hs' [HC [HK [Hk Hn]]]]].
        split; [exact W'|]. split; [exact Hs'|]. split; [exact HC|]. split; [exact HK|].
        split; [exact Hk|]. intros m [<-|Hm]; auto. apply Hk. rewrite En. discriminate.
      + destruct (strong_connect fuel g n st) as [s1| |] eqn:Hsc; try discriminate.
        destruct (sc_sound fuel n st s1 Hsc W En) as [W1 P1].
        assert (Hs1 : s1.(stack) = []).
        { rewrite <- Hs. apply (b_root _ _ _ _ P1).
          assert (HK0 : Kinv st.(next_index) st).
          { split.
            - rewrite Hs. intros x [].
            - intros u i Hu Hi. pose proof (w_idx_lt _ W u i Hu). lia. }
          destruct (b_k _ _ _ _ P1 _ (N.le_refl _) HK0) as [_ K2].
          destruct (K2 n _ (b_idx_v _ _ _ _ P1) (N.le_refl _)) as [l [Hl Hle]].
          destruct (w_low _ W1 n _ (b_idx_v _ _ _ _ P1)) as [l' [Hl' Hle']].
          rewrite Hl in Hl'. inversion Hl'. subst l'.
          rewrite Hl, (b_idx_v _ _ _ _ P1). f_equal. lia. }
        destruct (IH s1 st' H W1 Hs1) as [W' [Hs' [[C HC] [HK [Hk Hn]]]]].
        destruct (b_comps _ _ _ _ P1) as [C1 HC1].
        assert (Hkeep : forall u, idx st u <> None -> idx s1 u <> None).
        { intros u Hu. destruct (idx st u) as [j|] eqn:Ej; [|congruence].
          rewrite (b_idx_keep _ _ _ _ P1 u j Ej). discriminate. }
        split; [exact W'|]. split; [exact Hs'|]. split.
        { exists (C ++ C1). rewrite HC, HC1, app_assoc. reflexivity. }
        split.
        { intros Hc HK0. apply HK; [exact Hc|]. apply (b_ki _ _ _ _ P1); [|exact HK0].
          rewrite Hc in HC. symmetry in HC. apply app_eq_nil in HC. tauto. }
        split.
        { intros u Hu. apply Hk. apply Hkeep. exact Hu. }
        intros m [<-|Hm]; auto. apply Hk. rewrite (b_idx_v _ _ _ _ P1). discriminate.
  Qed.

  Lemma find_cycles_none_acyclic : forall fuel, find_cycles fuel g = TOk [] -> ~ cyclic g.
  Proof.
    intros fuel H. unfold find_cycles in H.
    destruct (main_loop fuel g (nodes g) t_init) as [st'| |] eqn:Hm; try discriminate.
    inversion H as [Hc]. clear H.
    assert (W0 : wf t_init).
    { constructor; cbn; try tauto; try (intros; discriminate); constructor. }
    destruct (main_loop_sound fuel (nodes g) t_init st' Hm W0 eq_refl) as [W' [Hs' [_ [HK [_ Hn]]]]].
    assert (HK0 : KI g (popped t_init)).
    { split.
      - intros u w [Hu _]. exfalso. apply Hu. reflexivity.
      - intros u [Hu _]. exfalso. apply Hu. reflexivity. }
    destruct (HK Hc HK0) as [_ Hac].
    intros [v [Hv Hcyc]]. apply (Hac v); [|exact Hcyc].
    split; [apply Hn; exact Hv|rewrite Hs'; intros []].
  Qed.
End PartB.

(* ======================================================================== *)
(* Part C: totality — on a closed graph with fuel > |g| the mirror returns    *)
(* TOk (no dictionary/stack error, no exhausted fuel)                         *)
(* ======================================================================== *)

Definition unindexed_count (g : graph) (st : tstate) : nat :=
  length (filter (fun u => match idx st u with None => true | Some _ => false end) (nodes g)).

Lemma uc_le : forall g a b, (forall u, idx a u <> None -> idx b u <> None) ->
  unindexed_count g b <= unindexed_count g a.
Proof.
  intros g a b H. unfold unindexed_count. induction (nodes g) as [|x t IH]; [cbn; lia|].
  cbn. destruct (idx b x) eqn:Eb; destruct (idx a x) eqn:Ea; cbn; try lia.
  exfalso. apply (H x); [rewrite Ea; discriminate|exact Eb].
Qed.

Lemma uc_lt : forall g a b v, (forall u, idx a u <> None -> idx b u <> None) ->
  In v (nodes g) -> idx a v = None -> idx b v <> None ->
  unindexed_count g b < unindexed_count g a.
Proof.
  intros g a b v H Hv Ha Hb. unfold unindexed_count.
  induction (nodes g) as [|x t IH]; [destruct Hv|].
  assert (Hle : length (filter (fun u => match idx b u with None => true | Some _ => false end) t) <=
                length (filter (fun u => match idx a u with None => true | Some _ => false end) t)).
  { clear -H. induction t as [|y t IH]; [cbn; lia|]. cbn.
    destruct (idx b y) eqn:Eb; destruct (idx a y) eqn:Ea; cbn; try lia.
    exfalso. apply (H y); [rewrite Ea; discriminate|exact Eb]. }
  cbn. destruct Hv as [->|Hv].
  - rewrite Ha. destruct (idx b v); [cbn; lia|congruence].
  - specialize (IH Hv). destruct (idx b x) eqn:Eb; destruct (idx a x) eqn:Ea; cbn; try lia.
    exfalso. apply (H x); [rewrite Ea; discriminate|exact Eb].
Qed.

Section PartC.
  Variable g : graph.
  Hypothesis Hcl : closed g.

  Lemma visit_cons : forall rec v d ds s,
    visit rec v (d :: ds) s =
    match visit rec v [d] s with TOk s1 => visit rec v ds s1 | TErr => TErr | TNoFuel => TNoFuel end.
  Proof.
    intros. cbn [visit]. destruct (get (indices s) d).
    - destruct (mem d (on_stack s)); [|reflexivity]. destruct (get (lowlinks s) v); reflexivity.
    - destruct (rec d s); try reflexivity.
      destruct (get (lowlinks a) v); [|reflexivity]. destruct (get (lowlinks a) d); reflexivity.
  Qed.

  Section VisitC.
    Variable f : nat.
    Hypothesis IHf : forall v st, wf st -> idx st v = None -> In v (nodes g) ->
      unindexed_count g st < f -> exists st', strong_connect f g v st = TOk st'.

    Lemma visit_total : forall st v, wf st -> idx st v = None ->
      forall ds D s, (forall d, In d ds -> In d (nodes g)) ->
      linvB g st v D s -> unindexed_count g s < f ->
      exists s', visit (strong_connect f g) v ds s = TOk s'.
    Proof.
      intros st v Wst Hvn. induction ds as [|d ds IH]; intros D s Hds L HU.
      - exists s. reflexivity.
      - rewrite visit_cons.
        assert (Hstep : exists s1, visit (strong_connect f g) v [d] s = TOk s1).
        { cbn [visit]. fold (idx s d). pose proof (lb_wf _ _ _ _ _ L) as Ws.
          destruct (w_low _ Ws v _ (lb_idx_v _ _ _ _ _ L)) as [a [Ha _]].
          destruct (idx s d) as [di|] eqn:Ed.
          - destruct (mem d s.(on_stack)); [|eexists; reflexivity].
            fold (low s v). rewrite Ha. eexists. reflexivity.
          - destruct (IHf d s Ws Ed (Hds d (or_introl eq_refl)) HU) as [s1 Hs1].
            rewrite Hs1.
            assert (HIH : forall v0 st0 st0', strong_connect f g v0 st0 = TOk st0' -> wf st0 -> idx st0 v0 = None ->
                          wf st0' /\ bpost g st0 st0' v0) by (intros; eapply sc_sound; eauto).
            destruct (HIH d s s1 Hs1 Ws Ed) as [W1 P1].
            fold (low s1 v). fold (low s1 d).
            destruct (w_low _ W1 v _ (b_idx_keep _ _ _ _ P1 v _ (lb_idx_v _ _ _ _ _ L))) as [a1 [Ha1 _]].
            destruct (w_low _ W1 d _ (b_idx_v _ _ _ _ P1)) as [b1 [Hb1 _]].
            rewrite Ha1, Hb1. eexists. reflexivity. }
        destruct Hstep as [s1 Hs1]. rewrite Hs1.
        assert (HIH : forall v0 st0 st0', strong_connect f g v0 st0 = TOk st0' -> wf st0 -> idx st0 v0 = None ->
                      wf st0' /\ bpost g st0 st0' v0) by (intros; eapply sc_sound; eauto).
        pose proof (visit_sound g f HIH st v Wst Hvn [d] D s s1 Hs1 L) as L1.
        apply IH with (D := D ++ [d]); [intros; apply Hds; right; assumption|exact L1|].
        eapply Nat.le_lt_trans; [|exact HU]. apply uc_le.
        (* indexed nodes stay indexed across one step *)
        intros u Hu. clear -Hs1 Hu HIH L.
        cbn [visit] in Hs1. fold (idx s d) in Hs1. destruct (idx s d) as [di|] eqn:Ed.
        + destruct (mem d s.(on_stack)).
          * destruct (get (lowlinks s) v); [|discriminate]. inversion Hs1. subst. exact Hu.
          * inversion Hs1. subst. exact Hu.
        + destruct (strong_connect f g d s) as [s2| |] eqn:Hsc; try discriminate.
          destruct (HIH d s s2 Hsc (lb_wf _ _ _ _ _ L) Ed) as [_ P2].
          destruct (get (lowlinks s2) v); [|discriminate]. destruct (get (lowlinks s2) d); [|discriminate].
          inversion Hs1. subst. change (idx s2 u <> None).
          destruct (idx s u) as [j|] eqn:Ej; [|congruence].
          rewrite (b_idx_keep _ _ _ _ P2 u j Ej). discriminate.
    Qed.
  End VisitC.

  Lemma sc_total : forall fuel v st, wf st -> idx st v = None -> In v (nodes g) ->
    unindexed_count g st < fuel -> exists st', strong_connect fuel g v st = TOk st'.
  Proof.
    induction fuel as [|f IHf]; intros v st W Hv Hn HU; [lia|].
    cbn [strong_connect]. rewrite (proj2 (has_key_In g v) Hn).
    assert (HUp : unindexed_count g (push v st) < f).
    { assert (unindexed_count g (push v st) < unindexed_count g st); [|lia].
      apply uc_lt with (v := v); auto.
      - intros u Hu. rewrite idx_push. destruct (N.eqb v u); [discriminate|exact Hu].
      - rewrite idx_push, N.eqb_refl. discriminate. }
    destruct (visit_total f IHf st v W Hv (succs g v) [] (push v st)) as [s Hvis].
    - intros d Hd. apply succs_edge in Hd. eapply Hcl; exact Hd.
    - apply linvB_init; assumption.
    - exact HUp.
    - rewrite Hvis.
      assert (HIH : forall v0 st0 st0', strong_connect f g v0 st0 = TOk st0' -> wf st0 -> idx st0 v0 = None ->
                    wf st0' /\ bpost g st0 st0' v0) by (intros; eapply sc_sound; eauto).
      pose proof (visit_sound g f HIH st v W Hv _ _ _ _ Hvis (linvB_init g st v W Hv)) as L.
      cbn [app] in L. unfold finish. fold (low s v). fold (idx s v).
      pose proof (lb_wf _ _ _ _ _ L) as Ws.
      rewrite (lb_idx_v _ _ _ _ _ L).
      destruct (w_low _ Ws v _ (lb_idx_v _ _ _ _ _ L)) as [l [Hl _]]. rewrite Hl.
      destruct (N.eqb l st.(next_index)); [|eexists; reflexivity].
      destruct (lb_stack _ _ _ _ _ L) as [X [HsX HX]].
      assert (HvX : ~ In v X).
      { intro Hin. pose proof (w_nodup _ Ws) as Hnd. rewrite HsX in Hnd.
        apply NoDup_remove_2 in Hnd. apply Hnd. apply in_app_iff. left. exact Hin. }
      destruct (pop_until_spec v X st.(stack) s.(on_stack) [] HvX) as [ons' [Hp _]].
      rewrite HsX, Hp. cbn [app].
      assert (Hnt : exists b, nontrivial g (X ++ [v]) = Some b).
      { destruct X as [|x X].
        - cbn. rewrite (proj2 (has_key_In g v) Hn). eexists. reflexivity.
        - cbn. destruct (X ++ [v]) eqn:E; [destruct X; discriminate|]. eexists. reflexivity. }
      destruct Hnt as [b Hb]. rewrite Hb. eexists. reflexivity.
  Qed.

  Lemma main_loop_total : forall fuel, length (nodes g) < fuel ->
    forall ns st, (forall n, In n ns -> In n (nodes g)) -> wf st -> st.(stack) = [] ->
    exists st', main_loop fuel g ns st = TOk st'.
  Proof.
    intros fuel Hfuel. induction ns as [|n t IH]; intros st Hns W Hs.
    - exists st. reflexivity.
    - cbn [main_loop]. fold (idx st n). destruct (idx st n) as [i|] eqn:En.
      + apply IH; auto. intros. apply Hns. right. assumption.
      + destruct (sc_total fuel n st W En (Hns n (or_introl eq_refl))) as [s1 Hs1].
        * eapply Nat.le_lt_trans; [|exact Hfuel]. unfold unindexed_count.
          clear. induction (nodes g) as [|x t IH]; [cbn; lia|]. cbn.
          destruct (idx st x); cbn; lia.
        * rewrite Hs1.
          assert (Hml : main_loop fuel g [n] st = TOk s1).
          { cbn [main_loop]. fold (idx st n). rewrite En, Hs1. reflexivity. }
          destruct (main_loop_sound g fuel [n] st s1 Hml W Hs) as [W1 [Hs1' _]].
          apply IH; auto. intros. apply Hns. right. assumption.
  Qed.

  Lemma find_cycles_total_proof : forall fuel, length g < fuel -> exists C, find_cycles fuel g = TOk C.
  Proof.
    intros fuel Hfuel. unfold find_cycles.
    destruct (main_loop_total fuel) with (ns := nodes g) (st := t_init) as [st' Hm].
    - unfold nodes. rewrite map_length. exact Hfuel.
    - auto.
    - constructor; cbn; try tauto; try (intros; discriminate); constructor.
    - reflexivity.
    - rewrite Hm. eexists. reflexivity.
  Qed.
End PartC.

(* ======================================================================== *)

Theorem tarjan_none_iff_acyclic_proof : forall g fuel, closed g -> length g < fuel ->
  (find_cycles fuel g = TOk [] <-> ~ cyclic g).
Proof.
  intros g fuel Hcl Hfuel. split.
  - apply find_cycles_none_acyclic.
  - intros Hac. apply find_cycles_acyclic; assumption.
Qed.

(* the verdict, as the compiler uses it: an error is reported iff the returned set is non-empty *)
Theorem tarjan_verdict_proof : forall g fuel, closed g -> length g < fuel ->
  exists C, find_cycles fuel g = TOk C /\ (C = [] <-> ~ cyclic g).
Proof.
  intros g fuel Hcl Hfuel. destruct (find_cycles_total_proof g Hcl fuel Hfuel) as [C HC].
  exists C. split; [exact HC|]. rewrite <- (tarjan_none_iff_acyclic_proof g fuel Hcl Hfuel), HC.
  split; [intros ->; reflexivity|intros H; inversion H; reflexivity].
Qed.

Theorem tarjan_agrees_with_acyclic_dec_proof : forall g, closed g ->
  exists C, find_cycles (S (length g)) g = TOk C /\ (C = [] <-> acyclic_dec g = true).
Proof.
  intros g Hcl. destruct (tarjan_verdict_proof g (S (length g)) Hcl (Nat.lt_succ_diag_r _)) as [C [HC HI]].
  exists C. split; [exact HC|]. rewrite (acyclic_dec_spec_proof g Hcl). exact HI.
Qed.
