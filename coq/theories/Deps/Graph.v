(* C15 — dependency graphs.

   A graph is what dependency_checker._find_dependencies returns: a dictionary
   from node labels to sets of node labels, written as an association list
   (labels are numbered by the harness).  An edge u -> v means "u depends on v".
   Duplicate keys are tolerated (their successor lists are united), so nothing
   below needs a NoDup hypothesis. *)
From Coq Require Import NArith List Bool Lia Relations.
Import ListNotations.

Definition graph := list (N * list N).

Definition nodes (g : graph) : list N := map fst g.

Definition edge (g : graph) (u v : N) : Prop := exists l, In (u, l) g /\ In v l.

(* every edge leads to a key of the dictionary (otherwise graph[v] raises KeyError) *)
Definition closed (g : graph) : Prop := forall u v, edge g u v -> In v (nodes g).

(* some node reaches itself through at least one edge (a self loop counts) *)
Definition cyclic (g : graph) : Prop :=
  exists v, In v (nodes g) /\ clos_trans N (edge g) v v.

Fixpoint mem (x : N) (l : list N) : bool :=
  match l with
  | [] => false
  | y :: t => N.eqb x y || mem x t
  end.

(* all(x in done for x in l) *)
Definition ready (done : list N) (l : list N) : bool := forallb (fun v => mem v done) l.

Definition succs (g : graph) (u : N) : list N :=
  flat_map (fun p => if N.eqb (fst p) u then snd p else []) g.

Definition has_key (g : graph) (u : N) : bool := mem u (nodes g).

Definition closedb (g : graph) : bool :=
  forallb (fun p => forallb (fun v => has_key g v) (snd p)) g.

(* a list in which each element has an edge to the next one *)
Fixpoint chain (R : N -> N -> Prop) (l : list N) : Prop :=
  match l with
  | [] => True
  | x :: t => match t with [] => True | y :: _ => R x y /\ chain R t end
  end.

(* ------------------------------------------------------------------------ *)

Lemma mem_In : forall x l, mem x l = true <-> In x l.
Proof.
  induction l as [|y t IH]; cbn; [split; [discriminate|tauto]|].
  rewrite orb_true_iff, IH, N.eqb_eq. split; intros [H|H]; auto.
Qed.

Lemma mem_false : forall x l, mem x l = false <-> ~ In x l.
Proof.
  intros. rewrite <- mem_In. destruct (mem x l); split; congruence.
Qed.

Lemma mem_app : forall x a b, mem x (a ++ b) = mem x a || mem x b.
Proof.
  induction a as [|y t IH]; cbn; intros; [reflexivity|].
  rewrite IH, orb_assoc. reflexivity.
Qed.

Lemma ready_spec : forall done l, ready done l = true <-> forall v, In v l -> In v done.
Proof.
  intros. unfold ready. rewrite forallb_forall. split; intros H v Hv.
  - apply mem_In. auto.
  - apply mem_In. auto.
Qed.

Lemma succs_edge : forall g u v, In v (succs g u) <-> edge g u v.
Proof.
  intros. unfold succs, edge. rewrite in_flat_map. split.
  - intros [[k l] [Hin Hv]]. cbn in Hv. destruct (N.eqb k u) eqn:E; [|destruct Hv].
    apply N.eqb_eq in E. subst. eauto.
  - intros [l [Hin Hv]]. exists (u, l). split; [exact Hin|]. cbn. rewrite N.eqb_refl. exact Hv.
Qed.

Lemma edge_src_node : forall g u v, edge g u v -> In u (nodes g).
Proof.
  intros g u v [l [H _]]. unfold nodes. apply in_map_iff. exists (u, l). auto.
Qed.

Lemma has_key_In : forall g u, has_key g u = true <-> In u (nodes g).
Proof. intros. apply mem_In. Qed.

Lemma closedb_spec : forall g, closedb g = true <-> closed g.
Proof.
  intros. unfold closedb, closed. rewrite forallb_forall. split.
  - intros H u v [l [Hin Hv]]. specialize (H _ Hin). cbn in H.
    rewrite forallb_forall in H. apply has_key_In. auto.
  - intros H [u l] Hin. cbn. apply forallb_forall. intros v Hv. apply has_key_In.
    apply (H u v). exists l. auto.
Qed.

Lemma clos_trans_first : forall (R : N -> N -> Prop) x z,
  clos_trans N R x z -> exists y, R x y /\ (y = z \/ clos_trans N R y z).
Proof.
  intros R x z H. apply clos_trans_t1n in H. destruct H as [y H|y z H H'].
  - exists y. auto.
  - exists y. split; [exact H|]. right. apply clos_t1n_trans. exact H'.
Qed.

(* a set closed under successors contains everything reachable from a member *)
Lemma reach_closed_set : forall (R : N -> N -> Prop) (S : N -> Prop),
  (forall u v, S u -> R u v -> S v) ->
  forall u w, clos_trans N R u w -> S u -> S w.
Proof.
  intros R S HS u w H. induction H; intros; eauto.
Qed.

Lemma chain_tail : forall R x t, chain R (x :: t) -> chain R t.
Proof. intros R x [|y t] H; cbn in *; tauto. Qed.

Lemma chain_reach : forall R t x y, chain R (x :: t) -> In y t -> clos_trans N R x y.
Proof.
  induction t as [|z t IH]; intros x y Hc Hin; [destruct Hin|].
  destruct Hc as [Hxz Hc]. destruct Hin as [->|Hin].
  - apply t_step. exact Hxz.
  - eapply t_trans; [apply t_step; exact Hxz|]. apply IH; assumption.
Qed.

(* pigeonhole on a walk: a repeated vertex lies on a cycle *)
Lemma chain_repeat_cycle : forall R l, chain R l -> ~ NoDup l ->
  exists x, In x l /\ clos_trans N R x x.
Proof.
  induction l as [|x t IH]; intros Hc Hnd.
  - exfalso. apply Hnd. constructor.
  - destruct (in_dec N.eq_dec x t) as [Hin|Hnin].
    + exists x. split; [left; reflexivity|]. eapply chain_reach; eauto.
    + destruct IH as [y [Hy Hcyc]].
      * eapply chain_tail; eauto.
      * intro Hn. apply Hnd. constructor; assumption.
      * exists y. split; [right; exact Hy|exact Hcyc].
Qed.

Lemma walk_exists : forall (R : N -> N -> Prop) (P : N -> Prop),
  (forall u, P u -> exists v, R u v /\ P v) ->
  forall k u, P u -> exists l, length l = S k /\ chain R (u :: l) /\ (forall x, In x l -> P x).
Proof.
  intros R P Hnext. induction k as [|k IH]; intros u Hu.
  - destruct (Hnext u Hu) as [v [Huv Hv]]. exists [v]. cbn. split; [reflexivity|].
    split; [tauto|]. intros x [<-|[]]. exact Hv.
  - destruct (Hnext u Hu) as [v [Huv Hv]]. destruct (IH v Hv) as [l [Hlen [Hc HP]]].
    exists (v :: l). split; [cbn; lia|]. split.
    + cbn. split; [exact Huv|exact Hc].
    + intros x [<-|Hin]; auto.
Qed.

(* a non-empty set of nodes in which every member has a successor in the set
   contains a cycle *)
Lemma no_sink_cyclic : forall g (P : N -> Prop),
  (forall u, P u -> In u (nodes g)) ->
  (forall u, P u -> exists v, edge g u v /\ P v) ->
  forall u, P u -> cyclic g.
Proof.
  intros g P Hnode Hnext u Hu.
  destruct (walk_exists (edge g) P Hnext (length (nodes g)) u Hu) as [l [Hlen [Hc HP]]].
  assert (Hnd : ~ NoDup l).
  { intro Hnd. assert (length l <= length (nodes g)).
    { apply NoDup_incl_length; [exact Hnd|]. intros x Hx. apply Hnode, HP, Hx. }
    lia. }
  destruct (chain_repeat_cycle (edge g) l (chain_tail _ _ _ Hc) Hnd) as [x [Hx Hcyc]].
  exists x. split; [apply Hnode, HP, Hx|exact Hcyc].
Qed.

Example closed_satisfiable : closed [(0%N, [1%N]); (1%N, [])] /\ ~ cyclic [(0%N, [1%N]); (1%N, [])].
Proof.
  split.
  - apply closedb_spec. reflexivity.
  - intros [v [_ H]].
    assert (Hs : forall u w, clos_trans N (edge [(0%N, [1%N]); (1%N, [])]) u w -> u = 0%N /\ w = 1%N).
    { intros u w H0. induction H0 as [u w [l [Hin Hw]]|u w z _ [_ ->] _ [E _]].
      - cbn in Hin. destruct Hin as [E|[E|[]]]; inversion E; subst; cbn in Hw; [|tauto].
        destruct Hw as [<-|[]]. auto.
      - discriminate. }
    destruct (Hs _ _ H) as [-> E]. discriminate.
Qed.
