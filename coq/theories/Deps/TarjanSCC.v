(* C15 — every component reported by the Gallina mirror of _find_cycles is a
   strongly connected component that contains a cycle, every node that lies on
   a cycle is in a reported component, and no node is reported twice.

   The proof adds to the invariants of TarjanProofs.v (Part B):
     R   every node y on the stack has lowlink[y] = index[z] for a stack node z
         with z = y or y ->+ z;
     PC  the popped nodes are closed under successors;
     CC  every popped node on a cycle is in a reported component;
     CG  every reported component is mutually reachable (>= 1 edge) and maximal;
     CD  the reported components are duplicate-free and pairwise disjoint;
   and, per call strong_connect(v): every node indexed during the call is
   reachable from v and has lowlink >= lowlink[v]; every node the call leaves on
   the stack is finished (lowlink < index, and lowlink <= index of each
   successor that is still on the stack). *)
From Coq Require Import Arith NArith List Bool Lia Relations.
Import ListNotations.
Require Import EmbossV.Deps.Graph EmbossV.Deps.Tarjan EmbossV.Deps.TarjanProofs.

Definition rplus (g : graph) : N -> N -> Prop := clos_trans N (edge g).

Definition lowreach (g : graph) (st : tstate) (y : N) : Prop :=
  exists z l, low st y = Some l /\ In z st.(stack) /\ idx st z = Some l /\ (z = y \/ rplus g y z).

(* mutually reachable through at least one edge, and maximal *)
Definition cyclic_scc (g : graph) (comp : list N) : Prop :=
  comp <> [] /\
  (forall u w, In u comp -> In w comp -> rplus g u w) /\
  (forall u w, In u comp -> rplus g u w -> rplus g w u -> In w comp).

Record wf2 (g : graph) (st : tstate) : Prop := {
  w2_R : forall y, In y st.(stack) -> lowreach g st y;
  w2_PC : forall u w, popped st u -> edge g u w -> popped st w;
  w2_CC : forall u, popped st u -> rplus g u u -> exists comp, In comp st.(comps) /\ In u comp;
  w2_CG : forall comp, In comp st.(comps) -> cyclic_scc g comp;
  w2_CD : NoDup (concat st.(comps));
  w2_CP : forall comp u, In comp st.(comps) -> In u comp -> popped st u
}.

(* x is on the stack and its call has returned *)
Definition finished_ok (g : graph) (st : tstate) (x : N) : Prop :=
  (exists l i, low st x = Some l /\ idx st x = Some i /\ (l < i)%N) /\
  (forall w, edge g x w -> exists wi, idx st w = Some wi /\
     (In w st.(stack) -> exists lx, low st x = Some lx /\ (lx <= wi)%N)).

Record dpost (g : graph) (st st' : tstate) (v : N) : Prop := {
  d_reach : forall u, idx st u = None -> idx st' u <> None -> u = v \/ rplus g v u;
  d_L : forall u, idx st u = None -> idx st' u <> None ->
        exists lv lu, low st' v = Some lv /\ low st' u = Some lu /\ (lv <= lu)%N;
  d_X : forall x, In x st'.(stack) -> idx st x = None -> finished_ok g st' x;
  d_case : In v st'.(stack) \/ low st' v = idx st' v
}.

Record linvD (g : graph) (st : tstate) (v : N) (s : tstate) : Prop := {
  ld_wf2 : wf2 g s;
  ld_reach : forall u, idx st u = None -> idx s u <> None -> u = v \/ rplus g v u;
  ld_L : forall u, idx st u = None -> idx s u <> None ->
         exists lv lu, low s v = Some lv /\ low s u = Some lu /\ (lv <= lu)%N;
  ld_X : forall x, In x s.(stack) -> idx st x = None -> x <> v -> finished_ok g s x
}.

Lemma nodup_app_intro : forall (a b : list N), NoDup a -> NoDup b ->
  (forall x, In x a -> ~ In x b) -> NoDup (a ++ b).
Proof.
  induction a as [|x a IH]; intros b Ha Hb Hd; [exact Hb|]. cbn. inversion Ha; subst. constructor.
  - intro Hin. apply in_app_iff in Hin. destruct Hin as [Hin|Hin]; [contradiction|].
    apply (Hd x); [left; reflexivity|exact Hin].
  - apply IH; auto. intros y Hy. apply Hd. right. exact Hy.
Qed.

Lemma nodup_app_l : forall (a b : list N), NoDup (a ++ b) -> NoDup a.
Proof.
  induction a as [|x a IH]; intros b H; [constructor|]. cbn in H. inversion H; subst. constructor.
  - intro Hin. apply H2. apply in_app_iff. left. exact Hin.
  - eapply IH; eauto.
Qed.

Lemma rplus_step_l : forall g a b c, edge g a b -> (b = c \/ rplus g b c) -> rplus g a c.
Proof.
  intros g a b c H [->|H']; [apply t_step; exact H|]. eapply t_trans; [apply t_step; exact H|exact H'].
Qed.

Section SCC.
  Variable g : graph.

  (* ---------------------------------------------------------------- frames *)

  Lemma popped_push : forall v st u, idx st v = None -> (popped (push v st) u <-> popped st u).
  Proof.
    intros v st u Hv. unfold popped. rewrite idx_push. cbn [push stack]. split.
    - intros [H1 H2]. destruct (N.eqb v u) eqn:E.
      + apply N.eqb_eq in E. subst u. exfalso. apply H2. left. reflexivity.
      + split; [exact H1|]. intro Hin. apply H2. right. exact Hin.
    - intros [H1 H2]. destruct (N.eqb v u) eqn:E.
      + apply N.eqb_eq in E. subst u. congruence.
      + split; [exact H1|]. intros [Hin|Hin]; [subst; rewrite N.eqb_refl in E; discriminate|auto].
  Qed.

  Lemma wf2_push : forall v st, wf st -> wf2 g st -> idx st v = None -> wf2 g (push v st).
  Proof.
    intros v st W [R PC CC CG CD CP] Hv. constructor.
    - intros y Hy. cbn [push stack] in Hy. destruct Hy as [<-|Hy].
      + exists v, st.(next_index). rewrite low_push, idx_push, N.eqb_refl.
        split; [reflexivity|]. split; [left; reflexivity|]. split; [reflexivity|left; reflexivity].
      + destruct (R y Hy) as [z [l [Hl [Hz [Hi Hr]]]]].
        assert (Hyv : N.eqb v y = false).
        { apply N.eqb_neq. intros ->. exact (w_stk_idx _ W y Hy Hv). }
        assert (Hzv : N.eqb v z = false).
        { apply N.eqb_neq. intros ->. exact (w_stk_idx _ W z Hz Hv). }
        exists z, l. rewrite low_push, idx_push, Hyv, Hzv. split; [exact Hl|].
        split; [right; exact Hz|]. split; [exact Hi|exact Hr].
    - intros u w Hu He. apply popped_push; [exact Hv|]. apply popped_push in Hu; [|exact Hv]. eapply PC; eauto.
    - intros u Hu Hc. apply popped_push in Hu; [|exact Hv]. exact (CC u Hu Hc).
    - exact CG.
    - exact CD.
    - intros comp u Hc Hu. apply popped_push; [exact Hv|]. eapply CP; eauto.
  Qed.

  (* setting lowlink[v] keeps wf2 when a witness for the new value is given *)
  Lemma wf2_set_low : forall v x s, wf2 g s ->
    (In v s.(stack) -> exists z, In z s.(stack) /\ idx s z = Some x /\ (z = v \/ rplus g v z)) ->
    wf2 g (set_low v x s).
  Proof.
    intros v x s [R PC CC CG CD CP] Hw. constructor.
    - intros y Hy. change (In y s.(stack)) in Hy. destruct (N.eq_dec v y) as [->|Hne].
      + destruct (Hw Hy) as [z [Hz [Hi Hr]]]. exists z, x. rewrite low_set_low, N.eqb_refl.
        split; [reflexivity|]. split; [exact Hz|]. split; [exact Hi|exact Hr].
      + destruct (R y Hy) as [z [l [Hl [Hz [Hi Hr]]]]]. exists z, l. rewrite low_set_low.
        apply N.eqb_neq in Hne. rewrite Hne. split; [exact Hl|]. split; [exact Hz|]. split; [exact Hi|exact Hr].
    - exact PC.
    - exact CC.
    - exact CG.
    - exact CD.
    - exact CP.
  Qed.

  Lemma finished_ok_set_low : forall v m s x, x <> v -> finished_ok g s x -> finished_ok g (set_low v m s) x.
  Proof.
    intros v m s x Hne [[l [i [Hl [Hi Hlt]]]] HE].
    assert (E : N.eqb v x = false) by (apply N.eqb_neq; congruence).
    split.
    - exists l, i. rewrite low_set_low, E. auto.
    - intros w Hw. destruct (HE w Hw) as [wi [Hwi Hs]]. exists wi. split; [exact Hwi|].
      intros Hin. destruct (Hs Hin) as [lx [Hlx Hle]]. exists lx. rewrite low_set_low, E. auto.
  Qed.

  (* across a call that only adds new nodes on top of the stack *)
  Lemma finished_ok_frame : forall s s1 x,
    finished_ok g s x ->
    (forall u i, idx s u = Some i -> idx s1 u = Some i) ->
    (forall u, idx s u <> None -> low s1 u = low s u) ->
    (exists X, s1.(stack) = X ++ s.(stack) /\ forall y, In y X -> idx s y = None) ->
    finished_ok g s1 x.
  Proof.
    intros s s1 x [[l [i [Hl [Hi Hlt]]]] HE] Hk Hlk [X [HsX HX]].
    assert (Hlx : low s1 x = low s x) by (apply Hlk; rewrite Hi; discriminate).
    split.
    - exists l, i. rewrite Hlx. auto.
    - intros w Hw. destruct (HE w Hw) as [wi [Hwi Hs]]. exists wi. split; [apply Hk; exact Hwi|].
      intros Hin. rewrite HsX in Hin. apply in_app_iff in Hin. destruct Hin as [Hin|Hin].
      + rewrite (HX w Hin) in Hwi. discriminate.
      + destruct (Hs Hin) as [lx [Hl' Hle]]. exists lx. rewrite Hlx. auto.
  Qed.

  (* ------------------------------------------------------- the successor loop *)

  Section VisitD.
    Variable f : nat.
    Hypothesis IHf : forall v st st',
      strong_connect f g v st = TOk st' -> wf st -> wf2 g st -> idx st v = None ->
      wf2 g st' /\ dpost g st st' v.

    Lemma IHB : forall v0 st0 st0', strong_connect f g v0 st0 = TOk st0' -> wf st0 -> idx st0 v0 = None ->
      wf st0' /\ bpost g st0 st0' v0.
    Proof. intros. eapply sc_sound; eauto. Qed.

    Lemma step_scc : forall st v, wf st -> idx st v = None ->
      forall d D s s1, edge g v d ->
      visit (strong_connect f g) v [d] s = TOk s1 ->
      linvB g st v D s -> linvD g st v s -> linvD g st v s1.
    Proof.
      intros st v Wst Hvn d D s s1 Hvd Hvis L LD.
      cbn [visit] in Hvis. fold (idx s d) in Hvis.
      pose proof (lb_wf _ _ _ _ _ L) as Ws.
      pose proof (lb_idx_v _ _ _ _ _ L) as Hiv.
      destruct (w_low _ Ws v _ Hiv) as [a0 [Ha0 Hle0]].
      destruct (idx s d) as [di|] eqn:Ed.
      - destruct (mem d s.(on_stack)) eqn:Em.
        + (* d on the stack *)
          fold (low s v) in Hvis. rewrite Ha0 in Hvis. inversion Hvis; subst s1; clear Hvis.
          assert (Hdin : In d s.(stack)) by (apply (w_on _ Ws); apply mem_In; exact Em).
          constructor.
          * apply wf2_set_low; [exact (ld_wf2 _ _ _ _ LD)|]. intros Hin.
            destruct (N.min_spec a0 di) as [[Hlt ->]|[Hge ->]].
            -- destruct (w2_R _ _ (ld_wf2 _ _ _ _ LD) v Hin) as [z [l [Hl [Hz [Hi Hr]]]]].
               rewrite Ha0 in Hl. inversion Hl; subst l. exists z. auto.
            -- exists d. split; [exact Hdin|]. split; [exact Ed|]. right. apply t_step. exact Hvd.
          * exact (ld_reach _ _ _ _ LD).
          * intros u Hu Hi. change (idx s u <> None) in Hi.
            destruct (ld_L _ _ _ _ LD u Hu Hi) as [lv [lu [Hlv [Hlu Hle]]]].
            rewrite Ha0 in Hlv. inversion Hlv; subst lv.
            rewrite !low_set_low, N.eqb_refl. destruct (N.eqb v u) eqn:E.
            -- exists (N.min a0 di), (N.min a0 di). split; [reflexivity|]. split; [reflexivity|lia].
            -- exists (N.min a0 di), lu. split; [reflexivity|]. split; [exact Hlu|lia].
          * intros x Hx Hxn Hxv. apply finished_ok_set_low; [exact Hxv|].
            apply (ld_X _ _ _ _ LD); assumption.
        + inversion Hvis; subst s1. exact LD.
      - (* recursive call *)
        destruct (strong_connect f g d s) as [s0| |] eqn:Hsc; try discriminate.
        destruct (IHB d s s0 Hsc Ws Ed) as [W0 P0].
        destruct (IHf d s s0 Hsc Ws (ld_wf2 _ _ _ _ LD) Ed) as [W20 DP].
        fold (low s0 v) in Hvis. fold (low s0 d) in Hvis.
        destruct (low s0 v) as [a|] eqn:Ea; [|discriminate].
        destruct (low s0 d) as [b|] eqn:Eb; [|discriminate].
        inversion Hvis; subst s1; clear Hvis.
        assert (Hlowv : low s v = Some a).
        { rewrite <- (b_low_keep _ _ _ _ P0 v); [exact Ea|]. rewrite Hiv. discriminate. }
        rewrite Ha0 in Hlowv. inversion Hlowv; subst a0. clear Hlowv.
        destruct (b_stack _ _ _ _ P0) as [X0 [Hs0 HX0]].
        constructor.
        * apply wf2_set_low; [exact W20|]. intros Hin.
          destruct (N.min_spec a b) as [[Hlt ->]|[Hge ->]].
          -- destruct (w2_R _ _ W20 v Hin) as [z [l [Hl [Hz [Hi Hr]]]]].
             rewrite Ea in Hl. inversion Hl; subst l. exists z. auto.
          -- destruct (d_case _ _ _ _ DP) as [Hdin|Hroot].
             ++ destruct (w2_R _ _ W20 d Hdin) as [z [l [Hl [Hz [Hi Hr]]]]].
                rewrite Eb in Hl. inversion Hl; subst l. exists z. split; [exact Hz|]. split; [exact Hi|].
                right. apply (rplus_step_l g v d z Hvd). destruct Hr as [->|Hr]; auto.
             ++ exfalso. rewrite Eb, (b_idx_v _ _ _ _ P0) in Hroot. inversion Hroot; subst b.
                pose proof (lb_next _ _ _ _ _ L). lia.
        * intros u Hu Hi. change (idx s0 u <> None) in Hi.
          destruct (idx s u) as [j|] eqn:Ej.
          -- apply (ld_reach _ _ _ _ LD u Hu). rewrite Ej. discriminate.
          -- destruct (d_reach _ _ _ _ DP u Ej Hi) as [->|Hr]; right.
             ++ apply t_step. exact Hvd.
             ++ eapply t_trans; [apply t_step; exact Hvd|exact Hr].
        * intros u Hu Hi. change (idx s0 u <> None) in Hi.
          rewrite !low_set_low, N.eqb_refl. destruct (N.eqb v u) eqn:E.
          -- exists (N.min a b), (N.min a b). split; [reflexivity|]. split; [reflexivity|lia].
          -- destruct (idx s u) as [j|] eqn:Ej.
             ++ assert (Hsu : idx s u <> None) by (rewrite Ej; discriminate).
                destruct (ld_L _ _ _ _ LD u Hu Hsu) as [lv [lu [Hlv [Hlu Hle]]]].
                rewrite Ha0 in Hlv. inversion Hlv; subst lv.
                exists (N.min a b), lu. split; [reflexivity|].
                split; [rewrite (b_low_keep _ _ _ _ P0 u Hsu); exact Hlu|lia].
             ++ destruct (d_L _ _ _ _ DP u Ej Hi) as [lv [lu [Hlv [Hlu Hle]]]].
                rewrite Eb in Hlv. inversion Hlv; subst lv.
                exists (N.min a b), lu. split; [reflexivity|]. split; [exact Hlu|lia].
        * intros x Hx Hxn Hxv. change (In x s0.(stack)) in Hx.
          apply finished_ok_set_low; [exact Hxv|].
          destruct (idx s x) as [j|] eqn:Ej.
          -- rewrite Hs0 in Hx. apply in_app_iff in Hx. destruct Hx as [Hx|Hx].
             ++ rewrite (HX0 x Hx) in Ej. discriminate.
             ++ apply finished_ok_frame with (s := s).
                ** apply (ld_X _ _ _ _ LD); assumption.
                ** exact (b_idx_keep _ _ _ _ P0).
                ** exact (b_low_keep _ _ _ _ P0).
                ** exists X0. auto.
          -- apply (d_X _ _ _ _ DP); assumption.
    Qed.

    Lemma visit_scc : forall st v, wf st -> idx st v = None ->
      forall ds D s s', (forall d, In d ds -> edge g v d) ->
      visit (strong_connect f g) v ds s = TOk s' ->
      linvB g st v D s -> linvD g st v s -> linvD g st v s'.
    Proof.
      intros st v Wst Hvn. induction ds as [|d ds IH]; intros D s s' Hds Hvis L LD.
      - cbn in Hvis. inversion Hvis; subst. exact LD.
      - rewrite visit_cons in Hvis.
        destruct (visit (strong_connect f g) v [d] s) as [s1| |] eqn:H1; try discriminate.
        pose proof (visit_sound g f IHB st v Wst Hvn [d] D s s1 H1 L) as L1.
        apply IH with (D := D ++ [d]) (s := s1).
        + intros. apply Hds. right. assumption.
        + exact Hvis.
        + exact L1.
        + apply (step_scc st v Wst Hvn d D s s1); auto. apply Hds. left. reflexivity.
    Qed.
  End VisitD.

  Lemma linvD_init : forall st v, wf st -> wf2 g st -> idx st v = None -> linvD g st v (push v st).
  Proof.
    intros st v W W2 Hv. constructor.
    - apply wf2_push; assumption.
    - intros u Hu Hi. rewrite idx_push in Hi. destruct (N.eqb v u) eqn:E.
      + left. symmetry. apply N.eqb_eq. exact E.
      + congruence.
    - intros u Hu Hi. rewrite idx_push in Hi. destruct (N.eqb v u) eqn:E; [|congruence].
      apply N.eqb_eq in E. subst u. exists st.(next_index), st.(next_index).
      rewrite low_push, N.eqb_refl. split; [reflexivity|]. split; [reflexivity|lia].
    - intros x Hx Hxn Hxv. cbn [push stack] in Hx. destruct Hx as [->|Hx]; [congruence|].
      exfalso. exact (w_stk_idx _ W x Hx Hxn).
  Qed.

  (* what popping a root does, in the vocabulary of the invariants *)
  Lemma pop_root : forall st v s X b st',
    wf st -> idx st v = None -> wf s -> wf2 g s ->
    linvB g st v (succs g v) s -> linvD g st v s ->
    s.(stack) = X ++ v :: st.(stack) -> (forall x, In x X -> idx st x = None) ->
    low s v = Some st.(next_index) ->
    nontrivial g (X ++ [v]) = Some b ->
    st'.(stack) = st.(stack) ->
    (forall u, idx st' u = idx s u) -> (forall u, low st' u = low s u) ->
    st'.(comps) = (if b then (X ++ [v]) :: s.(comps) else s.(comps)) ->
    wf2 g st'.
  Proof.
    intros st v s X b st' Wst Hv Ws W2 L LD HsX HX El Hnt Hstk Hidx Hlow Hcomps.
    set (iv := st.(next_index)) in *.
    set (comp := X ++ [v]) in *.
    pose proof (lb_idx_v _ _ _ _ _ L) as Hiv. fold iv in Hiv.
    assert (Hnd : NoDup (X ++ v :: st.(stack))) by (rewrite <- HsX; exact (w_nodup _ Ws)).
    assert (HvX : ~ In v X).
    { intro Hin. apply NoDup_remove_2 in Hnd. apply Hnd. apply in_app_iff. left. exact Hin. }
    assert (Hcomp_in : forall u, In u comp <-> In u X \/ u = v).
    { intros u. unfold comp. rewrite in_app_iff. cbn. intuition. }
    assert (Hcomp_stack : forall u, In u comp -> In u s.(stack)).
    { intros u Hu. apply Hcomp_in in Hu. rewrite HsX. apply in_app_iff. destruct Hu as [Hu| ->]; [left; exact Hu|right; left; reflexivity]. }
    assert (Hcomp_notbelow : forall u, In u comp -> ~ In u st.(stack)).
    { intros u Hu Hin. apply Hcomp_in in Hu. destruct Hu as [Hu| ->].
      - clear -Hnd Hu Hin. induction X as [|y X IH]; [destruct Hu|]. cbn in Hnd. inversion Hnd; subst.
        destruct Hu as [->|Hu]; [apply H1; apply in_app_iff; right; right; exact Hin|auto].
      - apply NoDup_remove_2 in Hnd. apply Hnd. apply in_app_iff. right. exact Hin. }
    assert (Hcomp_new : forall u, In u comp -> idx st u = None).
    { intros u Hu. apply Hcomp_in in Hu. destruct Hu as [Hu| ->]; auto. }
    assert (Hidx_ge : forall u, In u comp -> exists i, idx s u = Some i /\ (iv <= i)%N).
    { intros u Hu. pose proof (w_stk_idx _ Ws u (Hcomp_stack u Hu)) as Hi.
      destruct (idx s u) as [i|] eqn:E; [|congruence]. exists i. split; [reflexivity|].
      exact (lb_new_ge _ _ _ _ _ L u i (Hcomp_new u Hu) E). }
    assert (Hbelow : forall z, In z st.(stack) -> exists j, idx s z = Some j /\ (j < iv)%N).
    { intros z Hz. pose proof (w_stk_idx _ Wst z Hz) as Hi. destruct (idx st z) as [j|] eqn:E; [|congruence].
      exists j. split; [exact (lb_idx_keep _ _ _ _ _ L z j E)|exact (w_idx_lt _ Wst z j E)]. }
    assert (F1 : forall u, In u comp -> exists lu, low s u = Some lu /\ (iv <= lu)%N).
    { intros u Hu. destruct (Hidx_ge u Hu) as [i [Hi _]].
      destruct (ld_L _ _ _ _ LD u (Hcomp_new u Hu)) as [lv [lu [Hlv [Hlu Hle]]]]; [rewrite Hi; discriminate|].
      rewrite El in Hlv. inversion Hlv; subst lv. exists lu. auto. }
    assert (Hfin : forall y, In y X -> finished_ok g s y).
    { intros y Hy. apply (ld_X _ _ _ _ LD).
      - apply Hcomp_stack. apply Hcomp_in. left. exact Hy.
      - apply HX. exact Hy.
      - intros ->. exact (HvX Hy). }
    assert (Hstack_split : forall z, In z s.(stack) -> In z comp \/ In z st.(stack)).
    { intros z Hz. rewrite HsX in Hz. apply in_app_iff in Hz. destruct Hz as [Hz|[<-|Hz]].
      - left. apply Hcomp_in. left. exact Hz.
      - left. apply Hcomp_in. right. reflexivity.
      - right. exact Hz. }
    (* every member above v reaches v *)
    assert (F2 : forall k y i, In y X -> idx s y = Some i -> N.to_nat i <= k -> rplus g y v).
    { induction k as [|k IHk]; intros y i Hy Hi Hk.
      - destruct (Hfin y Hy) as [[l [i' [Hl [Hi' Hlt]]]] _]. rewrite Hi in Hi'. inversion Hi'; subst i'. lia.
      - destruct (Hfin y Hy) as [[l [i' [Hl [Hi' Hlt]]]] _]. rewrite Hi in Hi'. inversion Hi'; subst i'.
        assert (Hys : In y s.(stack)) by (apply Hcomp_stack; apply Hcomp_in; left; exact Hy).
        destruct (w2_R _ _ W2 y Hys) as [z [l' [Hl' [Hz [Hiz Hr]]]]].
        rewrite Hl in Hl'. inversion Hl'; subst l'.
        destruct Hr as [->|Hr]; [rewrite Hi in Hiz; inversion Hiz; lia|].
        destruct (F1 y) as [lu [Hlu Hge]]; [apply Hcomp_in; left; exact Hy|].
        rewrite Hl in Hlu. inversion Hlu; subst lu.
        destruct (Hstack_split z Hz) as [Hzc|Hzb].
        + apply Hcomp_in in Hzc. destruct Hzc as [Hzx| ->]; [|exact Hr].
          eapply t_trans; [exact Hr|]. apply (IHk z l Hzx Hiz). lia.
        + destruct (Hbelow z Hzb) as [j [Hj Hjlt]]. rewrite Hiz in Hj. inversion Hj; subst j. lia. }
    assert (F2' : forall y, In y X -> rplus g y v).
    { intros y Hy. destruct (Hidx_ge y) as [i [Hi _]]; [apply Hcomp_in; left; exact Hy|].
      exact (F2 (N.to_nat i) y i Hy Hi (le_n _)). }
    assert (F3 : forall y, In y X -> rplus g v y).
    { intros y Hy. destruct (Hidx_ge y) as [i [Hi _]]; [apply Hcomp_in; left; exact Hy|].
      destruct (ld_reach _ _ _ _ LD y (HX y Hy)) as [->|Hr]; [rewrite Hi; discriminate| |exact Hr].
      exfalso. exact (HvX Hy). }
    (* successors of members are popped or members *)
    assert (F4 : forall u w, In u comp -> edge g u w -> popped s w \/ In w comp).
    { intros u w Hu He.
      assert (Hw : exists wi, idx s w = Some wi /\ (In w s.(stack) -> (iv <= wi)%N)).
      { apply Hcomp_in in Hu. destruct Hu as [Hu| ->].
        - destruct (Hfin u Hu) as [_ HE]. destruct (HE w He) as [wi [Hwi Hs]]. exists wi. split; [exact Hwi|].
          intros Hin. destruct (Hs Hin) as [lx [Hlx Hle]].
          destruct (F1 u) as [lu [Hlu Hge]]; [apply Hcomp_in; left; exact Hu|].
          rewrite Hlx in Hlu. inversion Hlu; subst lu. lia.
        - destruct (lb_J _ _ _ _ _ L w) as [wi [Hwi Hs]]; [apply succs_edge; exact He|].
          exists wi. split; [exact Hwi|]. intros Hin. destruct (Hs Hin) as [lv [Hlv Hle]].
          rewrite El in Hlv. inversion Hlv; subst lv. exact Hle. }
      destruct Hw as [wi [Hwi Hs]].
      destruct (in_dec N.eq_dec w s.(stack)) as [Hin|Hnin].
      - right. destruct (Hstack_split w Hin) as [Hc|Hb]; [exact Hc|].
        destruct (Hbelow w Hb) as [j [Hj Hjlt]]. rewrite Hwi in Hj. inversion Hj; subst j.
        specialize (Hs Hin). lia.
      - left. split; [rewrite Hwi; discriminate|exact Hnin]. }
    assert (Hpop_eq : forall u, popped st' u <-> popped s u \/ In u comp).
    { intros u. unfold popped. rewrite Hidx, Hstk. split.
      - intros [H1 H2]. destruct (in_dec N.eq_dec u s.(stack)) as [Hin|Hnin].
        + destruct (Hstack_split u Hin) as [Hc|Hb]; [right; exact Hc|contradiction].
        + left. split; assumption.
      - intros [[H1 H2]|Hc].
        + split; [exact H1|]. intro Hin. apply H2. rewrite HsX. apply in_app_iff. right. right. exact Hin.
        + split; [exact (w_stk_idx _ Ws u (Hcomp_stack u Hc))|exact (Hcomp_notbelow u Hc)]. }
    assert (Hclosed : forall a c, (popped s a \/ In a comp) -> edge g a c -> (popped s c \/ In c comp)).
    { intros a c [Ha|Ha] He; [left; exact (w2_PC _ _ W2 a c Ha He)|exact (F4 a c Ha He)]. }
    assert (Hnot_popped : forall u, In u comp -> ~ popped s u).
    { intros u Hu [_ Hn]. apply Hn. apply Hcomp_stack. exact Hu. }
    assert (Hmax : forall u w, In u comp -> rplus g u w -> rplus g w u -> In w comp).
    { intros u w Hu Huw Hwu.
      destruct (reach_closed_set (edge g) (fun a => popped s a \/ In a comp) Hclosed u w Huw (or_intror Hu)) as [Hp|Hc];
        [|exact Hc].
      exfalso. apply (Hnot_popped u Hu).
      apply (reach_closed_set (edge g) (popped s) (fun a c Ha He => w2_PC _ _ W2 a c Ha He) w u Hwu Hp). }
    constructor.
    - (* R *)
      intros y Hy. rewrite Hstk in Hy.
      assert (Hys : In y s.(stack)) by (rewrite HsX; apply in_app_iff; right; right; exact Hy).
      destruct (w2_R _ _ W2 y Hys) as [z [l [Hl [Hz [Hiz Hr]]]]].
      exists z, l. rewrite Hlow, Hidx, Hstk. split; [exact Hl|]. split; [|split; [exact Hiz|exact Hr]].
      destruct (Hstack_split z Hz) as [Hc|Hb]; [|exact Hb]. exfalso.
      destruct (Hidx_ge z Hc) as [i [Hi Hge]]. rewrite Hiz in Hi. inversion Hi; subst i.
      destruct (Hbelow y Hy) as [j [Hj Hjlt]]. destruct (w_low _ Ws y j Hj) as [l' [Hl' Hle]].
      rewrite Hl in Hl'. inversion Hl'; subst l'. lia.
    - (* PC *)
      intros u w Hu He. apply Hpop_eq. apply Hpop_eq in Hu. exact (Hclosed u w Hu He).
    - (* CC *)
      intros u Hu Hc. apply Hpop_eq in Hu. rewrite Hcomps. destruct Hu as [Hu|Hu].
      + destruct (w2_CC _ _ W2 u Hu Hc) as [c [Hc1 Hc2]]. exists c. split; [|exact Hc2].
        destruct b; [right; exact Hc1|exact Hc1].
      + destruct b; [exists comp; split; [left; reflexivity|exact Hu]|]. exfalso.
        destruct (nontrivial_false g X v Hnt) as [HX0 Hself]. subst X. unfold comp in Hu. cbn in Hu.
        destruct Hu as [<-|[]].
        destruct (clos_trans_first _ _ _ Hc) as [w [Hvw Hrest]].
        destruct (F4 v w) as [Hp|Hw]; [unfold comp; left; reflexivity|exact Hvw| |].
        * apply (Hnot_popped v); [unfold comp; left; reflexivity|].
          destruct Hrest as [->|Hwv]; [exact Hp|].
          apply (reach_closed_set (edge g) (popped s) (fun a c Ha He => w2_PC _ _ W2 a c Ha He) w v Hwv Hp).
        * unfold comp in Hw. cbn in Hw. destruct Hw as [<-|[]].
          apply mem_false in Hself. apply Hself. apply succs_edge. exact Hvw.
    - (* CG *)
      intros c Hc. rewrite Hcomps in Hc. destruct b; [|exact (w2_CG _ _ W2 c Hc)].
      destruct Hc as [<-|Hc]; [|exact (w2_CG _ _ W2 c Hc)].
      assert (Hvv : rplus g v v).
      { destruct X as [|x X'] eqn:EX.
        - cbn in Hnt. destruct (has_key g v); [|discriminate]. inversion Hnt as [Hm].
          apply t_step. apply succs_edge. apply mem_In. exact Hm.
        - eapply t_trans; [apply (F3 x); left; reflexivity|apply (F2' x); left; reflexivity]. }
      split; [|split].
      + unfold comp. destruct X; discriminate.
      + intros u w Hu Hw. apply Hcomp_in in Hu. apply Hcomp_in in Hw.
        destruct Hu as [Hu| ->], Hw as [Hw| ->].
        * eapply t_trans; [apply F2'; exact Hu|apply F3; exact Hw].
        * apply F2'. exact Hu.
        * apply F3. exact Hw.
        * exact Hvv.
      + exact Hmax.
    - (* CD *)
      rewrite Hcomps. destruct b; [|exact (w2_CD _ _ W2)]. cbn [concat].
      apply nodup_app_intro.
      + unfold comp. replace (X ++ [v]) with (X ++ v :: []) by reflexivity.
        clear -Hnd. induction X as [|y X IH]; cbn in *.
        * constructor; [intros []|constructor].
        * inversion Hnd; subst. constructor.
          -- intro Hin. apply H1. apply in_app_iff in Hin. apply in_app_iff. destruct Hin as [Hin|[<-|[]]]; [left; exact Hin|right; left; reflexivity].
          -- apply IH. exact H2.
      + exact (w2_CD _ _ W2).
      + intros u Hu Hin. apply in_concat in Hin. destruct Hin as [c [Hc Huc]].
        exact (Hnot_popped u Hu (w2_CP _ _ W2 c u Hc Huc)).
    - (* CP *)
      intros c u Hc Hu. apply Hpop_eq. rewrite Hcomps in Hc. destruct b.
      + destruct Hc as [<-|Hc]; [right; exact Hu|left; exact (w2_CP _ _ W2 c u Hc Hu)].
      + left. exact (w2_CP _ _ W2 c u Hc Hu).
  Qed.

  Lemma sc_scc : forall fuel v st st',
    strong_connect fuel g v st = TOk st' -> wf st -> wf2 g st -> idx st v = None ->
    wf2 g st' /\ dpost g st st' v.
  Proof.
    induction fuel as [|f IHf]; intros v st st' H W W2 Hv; [discriminate|].
    cbn [strong_connect] in H.
    destruct (has_key g v) eqn:Hk; [|discriminate].
    destruct (visit (strong_connect f g) v (succs g v) (push v st)) as [s| |] eqn:Hvis; try discriminate.
    pose proof (visit_sound g f (IHB f) st v W Hv _ _ _ _ Hvis (linvB_init g st v W Hv)) as L.
    cbn [app] in L.
    assert (LD : linvD g st v s).
    { apply (visit_scc f IHf st v W Hv (succs g v) [] (push v st) s).
      - intros d Hd. apply succs_edge. exact Hd.
      - exact Hvis.
      - apply linvB_init; assumption.
      - apply linvD_init; assumption. }
    unfold finish in H. fold (low s v) in H. fold (idx s v) in H.
    pose proof (lb_idx_v _ _ _ _ _ L) as Hiv. rewrite Hiv in H.
    destruct (low s v) as [l|] eqn:El; [|discriminate].
    destruct (lb_stack _ _ _ _ _ L) as [X [HsX HX]].
    pose proof (lb_wf _ _ _ _ _ L) as Ws.
    destruct (N.eqb l st.(next_index)) eqn:Eroot.
    - (* root *)
      apply N.eqb_eq in Eroot. subst l.
      assert (Hnd : NoDup (X ++ v :: st.(stack))) by (rewrite <- HsX; exact (w_nodup _ Ws)).
      assert (HvX : ~ In v X).
      { intro Hin. apply NoDup_remove_2 in Hnd. apply Hnd. apply in_app_iff. left. exact Hin. }
      destruct (pop_until_spec v X st.(stack) s.(on_stack) [] HvX) as [ons' [Hp Hons]].
      rewrite HsX, Hp in H. cbn [app] in H.
      destruct (nontrivial g (X ++ [v])) as [b|] eqn:Ent; [|discriminate].
      inversion H; subst st'; clear H.
      split.
      + eapply (pop_root st v s X b); eauto; try reflexivity. exact (ld_wf2 _ _ _ _ LD).
      + constructor.
        * exact (ld_reach _ _ _ _ LD).
        * exact (ld_L _ _ _ _ LD).
        * intros x Hx Hxn. cbn [stack] in Hx. exfalso. exact (w_stk_idx _ W x Hx Hxn).
        * right. change (low s v = idx s v). rewrite El, Hiv. reflexivity.
    - (* not a root *)
      inversion H; subst st'; clear H. split; [exact (ld_wf2 _ _ _ _ LD)|].
      constructor.
      + exact (ld_reach _ _ _ _ LD).
      + exact (ld_L _ _ _ _ LD).
      + intros x Hx Hxn. destruct (N.eq_dec x v) as [->|Hne]; [|apply (ld_X _ _ _ _ LD); assumption].
        split.
        * destruct (w_low _ Ws v _ Hiv) as [l' [Hl' Hle]]. rewrite El in Hl'. inversion Hl'; subst l'.
          exists l, st.(next_index). split; [exact El|]. split; [exact Hiv|].
          apply N.eqb_neq in Eroot. lia.
        * intros w Hw. apply succs_edge in Hw. exact (lb_J _ _ _ _ _ L w Hw).
      + left. rewrite HsX. apply in_app_iff. right. left. reflexivity.
  Qed.

  Lemma wf2_init : wf2 g t_init.
  Proof.
    constructor; cbn.
    - intros y [].
    - intros u w [Hu _]. exfalso. apply Hu. reflexivity.
    - intros u [Hu _]. exfalso. apply Hu. reflexivity.
    - intros c [].
    - constructor.
    - intros c u [].
  Qed.

  Lemma main_loop_scc : forall fuel ns st st',
    main_loop fuel g ns st = TOk st' -> wf st -> wf2 g st -> st.(stack) = [] -> wf2 g st'.
  Proof.
    intros fuel. induction ns as [|n t IH]; intros st st' H W W2 Hs.
    - inversion H; subst. exact W2.
    - cbn [main_loop] in H. fold (idx st n) in H. destruct (idx st n) as [i|] eqn:En.
      + exact (IH st st' H W W2 Hs).
      + destruct (strong_connect fuel g n st) as [s1| |] eqn:Hsc; try discriminate.
        assert (Hml : main_loop fuel g [n] st = TOk s1).
        { cbn [main_loop]. fold (idx st n). rewrite En, Hsc. reflexivity. }
        destruct (main_loop_sound g fuel [n] st s1 Hml W Hs) as [W1 [Hs1 _]].
        destruct (sc_scc fuel n st s1 Hsc W W2 En) as [W21 _].
        exact (IH s1 st' H W1 W21 Hs1).
  Qed.

  Theorem find_cycles_sccs : forall fuel C, find_cycles fuel g = TOk C ->
    (forall comp, In comp C -> cyclic_scc g comp) /\
    (forall v, In v (nodes g) -> rplus g v v -> exists comp, In comp C /\ In v comp) /\
    NoDup (concat C).
  Proof.
    intros fuel C H. unfold find_cycles in H.
    destruct (main_loop fuel g (nodes g) t_init) as [st'| |] eqn:Hm; try discriminate.
    inversion H; subst C; clear H.
    assert (W0 : wf t_init).
    { constructor; cbn; try tauto; try (intros; discriminate); constructor. }
    pose proof (main_loop_scc fuel (nodes g) t_init st' Hm W0 wf2_init eq_refl) as W2.
    destruct (main_loop_sound g fuel (nodes g) t_init st' Hm W0 eq_refl) as [W' [Hs' [_ [_ [_ Hn]]]]].
    split; [exact (w2_CG _ _ W2)|]. split; [|exact (w2_CD _ _ W2)].
    intros v Hv Hc. apply (w2_CC _ _ W2); [|exact Hc].
    split; [apply Hn; exact Hv|rewrite Hs'; intros []].
  Qed.
End SCC.

(* two strongly connected components that share a node have the same members *)
Lemma cyclic_scc_unique : forall g A B v, cyclic_scc g A -> cyclic_scc g B -> In v A -> In v B ->
  forall x, In x A <-> In x B.
Proof.
  intros g A B v [_ [HA1 HA2]] [_ [HB1 HB2]] HvA HvB x. split; intros Hx.
  - apply (HB2 v x HvB); [apply HA1|apply HA1]; assumption.
  - apply (HA2 v x HvA); [apply HB1|apply HB1]; assumption.
Qed.

Theorem tarjan_components_are_sccs_proof : forall g fuel, closed g -> length g < fuel ->
  exists C, find_cycles fuel g = TOk C /\
    (forall comp, In comp C -> cyclic_scc g comp) /\
    (forall v, In v (nodes g) -> clos_trans N (edge g) v v -> exists comp, In comp C /\ In v comp) /\
    NoDup (concat C).
Proof.
  intros g fuel Hcl Hfuel. destruct (find_cycles_total_proof g Hcl fuel Hfuel) as [C HC].
  exists C. split; [exact HC|]. exact (find_cycles_sccs g fuel C HC).
Qed.

(* every strongly connected set with a cycle is reported, as exactly one entry *)
Theorem tarjan_reports_each_scc_once_proof : forall g fuel C S, find_cycles fuel g = TOk C ->
  cyclic_scc g S ->
  exists l1 comp l2, C = l1 ++ comp :: l2 /\ (forall x, In x S <-> In x comp) /\
    forall c, In c (l1 ++ l2) -> forall x, In x S -> ~ In x c.
Proof.
  intros g fuel C S HC HS. destruct (find_cycles_sccs g fuel C HC) as [HG [HCov HND]].
  destruct HS as [Hne [HS1 HS2]]. destruct S as [|v S']; [congruence|].
  assert (Hvv : rplus g v v) by (apply HS1; left; reflexivity).
  assert (Hnode : In v (nodes g)).
  { destruct (clos_trans_first _ _ _ Hvv) as [y [He _]]. eapply edge_src_node; exact He. }
  destruct (HCov v Hnode Hvv) as [comp [Hc Hvc]].
  apply in_split in Hc. destruct Hc as [l1 [l2 ->]]. exists l1, comp, l2. split; [reflexivity|].
  assert (Hsame : forall x, In x (v :: S') <-> In x comp).
  { apply (cyclic_scc_unique g (v :: S') comp v); auto.
    - split; [discriminate|]. split; assumption.
    - apply HG. apply in_app_iff. right. left. reflexivity.
    - left. reflexivity. }
  split; [exact Hsame|].
  intros c Hc x Hx Hxc. apply Hsame in Hx.
  rewrite concat_app in HND. cbn [concat] in HND.
  apply in_app_iff in Hc. destruct Hc as [Hc|Hc].
  - (* x occurs in concat l1 and in comp *)
    assert (Hx1 : In x (concat l1)) by (apply in_concat; exists c; auto).
    clear -HND Hx1 Hx. induction (concat l1) as [|y t IH]; [destruct Hx1|]. cbn in HND. inversion HND; subst.
    destruct Hx1 as [->|Hx1]; [apply H1; apply in_app_iff; right; apply in_app_iff; left; exact Hx|auto].
  - assert (Hx2 : In x (concat l2)) by (apply in_concat; exists c; auto).
    apply nodup_app_r in HND. clear -HND Hx2 Hx. induction comp as [|y t IH]; [destruct Hx|]. cbn in HND.
    inversion HND; subst. destruct Hx as [->|Hx]; [apply H1; apply in_app_iff; right; exact Hx2|auto].
Qed.
