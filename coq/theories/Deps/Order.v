(* C15 — the greedy loop of
   dependency_checker._find_dependency_ordering_for_fields_in_structure.

   Input: the fields of one structure in source order, each as
   (name, names mentioned by field references in it), and the names of the
   structure's run-time parameters.  Output: field numbers in dependency order.

       order = []; added = set(parameters); needed = list(range(n))
       while True:
         for i in range(len(needed)):
           if all(d in added for d in deps[needed[i]]):
             order.append(needed[i]); added.add(name[needed[i]]); del needed[i]; break
         else: break
       assert len(order) == n

   One unit of fuel is one iteration of `while True`.  `Stuck` is the failing
   assertion, `NoFuel` the exhausted fuel: both are distinct results and are
   excluded explicitly in the theorems. *)
From Coq Require Import Arith NArith List Bool Lia Relations Permutation PeanoNat.
Import ListNotations.
Require Import EmbossV.Deps.Graph.

Inductive ores :=
| Done (o : list nat)
| Stuck (o needed : list nat)
| NoFuel.

Definition fname (fs : graph) (i : nat) : N := fst (nth i fs (0%N, [])).
Definition fdeps (fs : graph) (i : nat) : list N := snd (nth i fs (0%N, [])).

(* the `for i in range(len(needed))` scan: first ready field, and `needed` without it *)
Fixpoint pick (fs : graph) (added : list N) (needed : list nat) : option (nat * list nat) :=
  match needed with
  | [] => None
  | i :: t =>
      if ready added (fdeps fs i) then Some (i, t)
      else match pick fs added t with
           | Some (j, t') => Some (j, i :: t')
           | None => None
           end
  end.

Fixpoint loop (fuel : nat) (fs : graph) (added : list N) (needed order : list nat) : ores :=
  match fuel with
  | O => NoFuel
  | S f =>
      match pick fs added needed with
      | Some (i, needed') => loop f fs (fname fs i :: added) needed' (order ++ [i])
      | None => match needed with [] => Done order | _ :: _ => Stuck order needed end
      end
  end.

Definition dep_order (fs : graph) (params : list N) : ores :=
  loop (S (length fs)) fs params (seq 0 (length fs)) [].

(* j occurs strictly before i *)
Definition before (j i : nat) (o : list nat) : Prop :=
  exists l1 l2 l3, o = l1 ++ j :: l2 ++ i :: l3.

(* the structure-local graph: dependencies on parameters removed *)
Definition strip (ps : list N) (fs : graph) : graph :=
  map (fun p => (fst p, filter (fun d => negb (mem d ps)) (snd p))) fs.

(* every remaining dependency is a field of this structure, and no field
   depends on itself through field references *)
Definition local_acyclic (fs : graph) (ps : list N) : Prop :=
  closed (strip ps fs) /\ ~ cyclic (strip ps fs).

(* ------------------------------------------------------------------------ *)

Lemma pick_some : forall fs added needed i rest,
  pick fs added needed = Some (i, rest) ->
  exists l1 l2, needed = l1 ++ i :: l2 /\ rest = l1 ++ l2 /\
                ready added (fdeps fs i) = true /\
                forall k, In k l1 -> ready added (fdeps fs k) = false.
Proof.
  induction needed as [|a t IH]; intros i rest H; [discriminate|]. cbn in H.
  destruct (ready added (fdeps fs a)) eqn:E.
  - inversion H; subst. exists [], rest. cbn. repeat split; auto. intros k [].
  - destruct (pick fs added t) as [[j t']|] eqn:Ep; [|discriminate].
    inversion H; subst. destruct (IH _ _ eq_refl) as [l1 [l2 [-> [-> [Hr Hn]]]]].
    exists (a :: l1), l2. cbn. repeat split; auto. intros k [<-|Hk]; auto.
Qed.

Lemma pick_none : forall fs added needed,
  pick fs added needed = None -> forall k, In k needed -> ready added (fdeps fs k) = false.
Proof.
  induction needed as [|a t IH]; intros H k Hk; [destruct Hk|]. cbn in H.
  destruct (ready added (fdeps fs a)) eqn:E; [discriminate|].
  destruct (pick fs added t) as [[j t']|] eqn:Ep; [discriminate|].
  destruct Hk as [<-|Hk]; auto.
Qed.

(* invariant rule for the loop *)
Lemma loop_inv : forall fs (Inv : list N -> list nat -> list nat -> Prop),
  (forall added order i l1 l2,
      Inv added (l1 ++ i :: l2) order ->
      ready added (fdeps fs i) = true ->
      (forall k, In k l1 -> ready added (fdeps fs k) = false) ->
      Inv (fname fs i :: added) (l1 ++ l2) (order ++ [i])) ->
  forall fuel added needed order, Inv added needed order ->
  match loop fuel fs added needed order with
  | Done o => exists added', Inv added' [] o
  | Stuck o nd => exists added', Inv added' nd o /\ nd <> [] /\
                                 forall k, In k nd -> ready added' (fdeps fs k) = false
  | NoFuel => True
  end.
Proof.
  intros fs Inv Hstep. induction fuel as [|f IH]; intros added needed order HI; [exact I|].
  cbn. destruct (pick fs added needed) as [[i rest]|] eqn:Ep.
  - destruct (pick_some _ _ _ _ _ Ep) as [l1 [l2 [-> [-> [Hr Hn]]]]].
    apply IH. apply Hstep; assumption.
  - destruct needed as [|a t].
    + exists added. exact HI.
    + exists added. split; [exact HI|]. split; [discriminate|]. apply pick_none. exact Ep.
Qed.

Lemma loop_fuel : forall fs fuel added needed order,
  length needed < fuel -> loop fuel fs added needed order <> NoFuel.
Proof.
  induction fuel as [|f IH]; intros added needed order Hlt; [lia|].
  cbn. destruct (pick fs added needed) as [[i rest]|] eqn:Ep.
  - destruct (pick_some _ _ _ _ _ Ep) as [l1 [l2 [-> [-> _]]]].
    apply IH. rewrite app_length in *. cbn in Hlt. lia.
  - destruct needed; discriminate.
Qed.

(* ------------------------------------------------------------ permutation *)

Lemma order_perm_proof : forall fs ps o,
  dep_order fs ps = Done o -> Permutation o (seq 0 (length fs)).
Proof.
  intros fs ps o H. unfold dep_order in H.
  pose proof (loop_inv fs (fun _ needed order => Permutation (order ++ needed) (seq 0 (length fs)))) as L.
  assert (Hstep : forall (added : list N) order i l1 l2,
             Permutation (order ++ l1 ++ i :: l2) (seq 0 (length fs)) ->
             ready added (fdeps fs i) = true ->
             (forall k, In k l1 -> ready added (fdeps fs k) = false) ->
             Permutation ((order ++ [i]) ++ l1 ++ l2) (seq 0 (length fs))).
  { intros added order i l1 l2 HP _ _. rewrite <- app_assoc. cbn.
    eapply Permutation_trans; [|exact HP].
    apply Permutation_app_head. apply Permutation_middle. }
  specialize (L Hstep).
  specialize (L (S (length fs)) ps (seq 0 (length fs)) [] (Permutation_refl _)).
  rewrite H in L. destruct L as [_ L]. rewrite app_nil_r in L. exact L.
Qed.

(* ------------------------------------------------------- respects the deps *)

Lemma before_app_r : forall j i o x, before j i o -> before j i (o ++ [x]).
Proof.
  intros j i o x [l1 [l2 [l3 ->]]]. exists l1, l2, (l3 ++ [x]).
  rewrite <- app_assoc. cbn. rewrite <- app_assoc. reflexivity.
Qed.

Lemma before_last : forall j i o, In j o -> before j i (o ++ [i]).
Proof.
  intros j i o H. apply in_split in H. destruct H as [l1 [l2 ->]].
  exists l1, l2, []. rewrite <- app_assoc. reflexivity.
Qed.

Definition resp_inv (fs : graph) (ps : list N) (added : list N) (order : list nat) : Prop :=
  (forall x, In x added -> In x ps \/ exists j, In j order /\ fname fs j = x) /\
  (forall i, In i order -> forall d, In d (fdeps fs i) ->
      In d ps \/ exists j, fname fs j = d /\ before j i order).

Lemma order_respects_deps_proof : forall fs ps o,
  dep_order fs ps = Done o ->
  forall i d, In i o -> In d (fdeps fs i) ->
  In d ps \/ exists j, fname fs j = d /\ before j i o.
Proof.
  intros fs ps o H. unfold dep_order in H.
  pose proof (loop_inv fs (fun added _ order => resp_inv fs ps added order)) as L.
  assert (Hstep : forall added order i (l1 l2 : list nat),
             resp_inv fs ps added order ->
             ready added (fdeps fs i) = true ->
             (forall k, In k l1 -> ready added (fdeps fs k) = false) ->
             resp_inv fs ps (fname fs i :: added) (order ++ [i])).
  { intros added order i l1 l2 [HA HO] Hr _. split.
    - intros x [<-|Hx].
      + right. exists i. split; [apply in_app_iff; right; left; reflexivity|reflexivity].
      + destruct (HA x Hx) as [Hp|[j [Hj Hn]]]; [left; exact Hp|].
        right. exists j. split; [apply in_app_iff; left; exact Hj|exact Hn].
    - intros i' Hi' d Hd. apply in_app_iff in Hi'. destruct Hi' as [Hi'|[<-|[]]].
      + destruct (HO i' Hi' d Hd) as [Hp|[j [Hn Hb]]]; [left; exact Hp|].
        right. exists j. split; [exact Hn|apply before_app_r; exact Hb].
      + rewrite ready_spec in Hr. destruct (HA d (Hr d Hd)) as [Hp|[j [Hj Hn]]]; [left; exact Hp|].
        right. exists j. split; [exact Hn|apply before_last; exact Hj]. }
  specialize (L (fun added order i l1 l2 HI => Hstep added order i l1 l2 HI)).
  specialize (L (S (length fs)) ps (seq 0 (length fs)) []).
  rewrite H in L. destruct L as [added' [_ HO]].
  - split; [intros x Hx; left; exact Hx|intros i []].
  - intros i d Hi Hd. exact (HO i Hi d Hd).
Qed.

(* --------------------------------------------------------------- stability *)

Lemma loop_stable : forall fs ps m k added,
  k + m = length fs ->
  (forall i, i < length fs -> forall d, In d (fdeps fs i) ->
       In d ps \/ exists j, j < i /\ fname fs j = d) ->
  (forall x, (In x ps \/ exists j, j < k /\ fname fs j = x) -> In x added) ->
  loop (S m) fs added (seq k m) (seq 0 k) = Done (seq 0 (length fs)).
Proof.
  intros fs ps. induction m as [|m IH]; intros k added Hk Hsrc Hadd.
  - cbn. replace k with (length fs) by lia. reflexivity.
  - cbn [seq]. cbn [loop pick].
    assert (Hr : ready added (fdeps fs k) = true).
    { apply ready_spec. intros d Hd. apply Hadd. apply (Hsrc k); [lia|exact Hd]. }
    rewrite Hr. replace (seq 0 k ++ [k]) with (seq 0 (S k)) by (rewrite seq_S; reflexivity).
    apply IH; [lia|exact Hsrc|].
    intros x [Hp|[j [Hj Hn]]].
    + right. apply Hadd. left. exact Hp.
    + assert (j = k \/ j < k) as [->|Hlt] by lia.
      * left. exact Hn.
      * right. apply Hadd. right. exists j. auto.
Qed.

Lemma order_stable_proof : forall fs ps,
  (forall i, i < length fs -> forall d, In d (fdeps fs i) ->
       In d ps \/ exists j, j < i /\ fname fs j = d) ->
  dep_order fs ps = Done (seq 0 (length fs)).
Proof.
  intros fs ps H. unfold dep_order.
  apply (loop_stable fs ps (length fs) 0 ps); [lia|exact H|].
  intros x [Hp|[j [Hj _]]]; [exact Hp|lia].
Qed.

(* ------------------------------------------------------------- definedness *)

Lemma nodes_strip : forall ps fs, nodes (strip ps fs) = nodes fs.
Proof.
  intros. unfold nodes, strip. rewrite map_map. reflexivity.
Qed.

Lemma node_is_field : forall fs x, In x (nodes fs) -> exists j, j < length fs /\ fname fs j = x.
Proof.
  intros fs x H. unfold nodes in H. apply in_map_iff in H. destruct H as [p [E Hin]].
  destruct (In_nth _ _ (0%N, []) Hin) as [j [Hj Hn]]. exists j. split; [exact Hj|].
  unfold fname. rewrite Hn. exact E.
Qed.

Lemma strip_edge : forall ps fs j d, j < length fs -> In d (fdeps fs j) -> ~ In d ps ->
  edge (strip ps fs) (fname fs j) d.
Proof.
  intros ps fs j d Hj Hd Hnp. unfold edge, strip.
  exists (filter (fun d => negb (mem d ps)) (fdeps fs j)). split.
  - apply in_map_iff. exists (nth j fs (0%N, [])). split; [reflexivity|]. apply nth_In. exact Hj.
  - apply filter_In. split; [exact Hd|]. apply negb_true_iff. apply mem_false. exact Hnp.
Qed.

Lemma unready_dep : forall added l, ready added l = false -> exists d, In d l /\ ~ In d added.
Proof.
  intros added. induction l as [|x t IH]; intros H; [discriminate|]. cbn in H.
  destruct (mem x added) eqn:E.
  - destruct (IH H) as [d [Hd Hn]]. exists d. split; [right|]; assumption.
  - exists x. split; [left; reflexivity|apply mem_false; exact E].
Qed.

Definition def_inv (fs : graph) (ps : list N) (added : list N) (needed : list nat) : Prop :=
  (forall x, In x ps -> In x added) /\
  (forall j, j < length fs -> ~ In j needed -> In (fname fs j) added) /\
  (forall j, In j needed -> j < length fs).

Lemma order_defined_proof : forall fs ps,
  local_acyclic fs ps -> exists o, dep_order fs ps = Done o.
Proof.
  intros fs ps [Hcl Hac]. unfold dep_order.
  pose proof (loop_inv fs (fun added needed _ => def_inv fs ps added needed)) as L.
  assert (Hstep : forall added (order : list nat) i l1 l2,
             def_inv fs ps added (l1 ++ i :: l2) ->
             ready added (fdeps fs i) = true ->
             (forall k, In k l1 -> ready added (fdeps fs k) = false) ->
             def_inv fs ps (fname fs i :: added) (l1 ++ l2)).
  { intros added order i l1 l2 [HP [HA HN]] _ _. split; [|split].
    - intros x Hx. right. auto.
    - intros j Hj Hnin. destruct (Nat.eq_dec j i) as [->|Hne]; [left; reflexivity|].
      right. apply HA; [exact Hj|]. intro Hin. apply Hnin.
      apply in_app_iff in Hin. apply in_app_iff. destruct Hin as [Hin|[E|Hin]]; auto. congruence.
    - intros j Hin. apply HN. apply in_app_iff in Hin. apply in_app_iff. cbn. tauto. }
  specialize (L Hstep (S (length fs)) ps (seq 0 (length fs)) []).
  assert (Hinit : def_inv fs ps ps (seq 0 (length fs))).
  { split; [auto|]. split.
    - intros j Hj Hn. exfalso. apply Hn. apply in_seq. lia.
    - intros j Hj. apply in_seq in Hj. lia. }
  specialize (L Hinit).
  destruct (loop (S (length fs)) fs ps (seq 0 (length fs)) []) as [o|o nd|] eqn:E.
  - exists o. reflexivity.
  - exfalso. destruct L as [added [[HP [HA HN]] [Hne Hun]]].
    (* an unready field exists; follow missing dependencies for ever *)
    set (g' := strip ps fs) in *.
    assert (Hnext : forall j, In j nd -> exists d, edge g' (fname fs j) d /\ In d (nodes g') /\ ~ In d added).
    { intros j Hj. destruct (unready_dep _ _ (Hun j Hj)) as [d [Hd Hnd]].
      assert (Hnp : ~ In d ps) by (intro Hp; apply Hnd; auto).
      assert (He : edge g' (fname fs j) d) by (apply strip_edge; auto).
      exists d. split; [exact He|]. split; [eapply Hcl; exact He|exact Hnd]. }
    destruct nd as [|i0 t]; [congruence|].
    destruct (Hnext i0 (or_introl eq_refl)) as [d0 [_ [Hd0 Hnd0]]].
    apply Hac.
    apply (no_sink_cyclic g' (fun x => In x (nodes g') /\ ~ In x added)) with (u := d0); [tauto| |tauto].
    intros x [Hx Hnx]. unfold g' in Hx. rewrite nodes_strip in Hx.
    destruct (node_is_field _ _ Hx) as [j [Hj Hn]]. subst x.
    destruct (in_dec Nat.eq_dec j (i0 :: t)) as [Hin|Hnin].
    + destruct (Hnext j Hin) as [d [He [Hd Hnd]]]. exists d. tauto.
    + exfalso. apply Hnx. apply HA; assumption.
  - exfalso. apply (loop_fuel fs (S (length fs)) ps (seq 0 (length fs)) []); [rewrite seq_length; lia|exact E].
Qed.

Example local_acyclic_satisfiable :
  local_acyclic [(10%N, [11%N; 1%N]); (11%N, [])] [1%N] /\
  dep_order [(10%N, [11%N; 1%N]); (11%N, [])] [1%N] = Done [1; 0].
Proof.
  split; [|reflexivity]. split.
  - apply closedb_spec. reflexivity.
  - intros [v [_ H]].
    assert (Hs : forall u w, clos_trans N (edge (strip [1%N] [(10%N, [11%N; 1%N]); (11%N, [])])) u w ->
                             u = 10%N /\ w = 11%N).
    { intros u w H0. induction H0 as [u w [l [Hin Hw]]|u w z _ [_ ->] _ [E _]].
      - cbn in Hin. destruct Hin as [E|[E|[]]]; inversion E; subst; cbn in Hw; [|tauto].
        destruct Hw as [<-|[]]. auto.
      - discriminate. }
    destruct (Hs _ _ H) as [-> E]. discriminate.
Qed.
