(* C15 — where the greedy ordering loop puts the fields it has to delay.

   The comment in dependency_checker.py says: "for fields which appear before
   their dependencies in the original source text, this algorithm moves them to
   immediately after their dependencies".  Read literally ("every field placed
   after a field that is later in the source sits immediately after the last of
   its dependencies") this is false of the loop (order_moves_refuted: two fields
   waiting for the same third one are emitted one after the other).  What the
   loop satisfies exactly is the greedy specification below: at every position
   the chosen field is ready and every source-earlier field still to come is not
   ready (order_greedy_spec), and that specification determines the order
   (order_greedy_unique).  Consequences:
     order_stable_moves : if the field immediately before i in the output comes
                          later than i in the source, then i mentions that field
                          (so i sits immediately after the last of its
                          dependencies);
     order_stability    : two fields appear in source order unless the earlier
                          one still lacked a dependency when the later one was
                          placed. *)
From Coq Require Import Arith NArith List Bool Lia Relations Permutation Sorted PeanoNat.
Import ListNotations.
Require Import EmbossV.Deps.Graph EmbossV.Deps.Order.

(* the set `added` after the fields l1 have been placed (in that order) *)
Definition added_of (fs : graph) (ps : list N) (l1 : list nat) : list N :=
  map (fname fs) (rev l1) ++ ps.

Definition greedy_spec (fs : graph) (ps : list N) (o : list nat) : Prop :=
  forall l1 i l2, o = l1 ++ i :: l2 ->
    ready (added_of fs ps l1) (fdeps fs i) = true /\
    forall j, In j l2 -> j < i -> ready (added_of fs ps l1) (fdeps fs j) = false.

(* ------------------------------------------------------------ sorted lists *)

Lemma ss_app_inv : forall (l1 l2 : list nat), StronglySorted lt (l1 ++ l2) ->
  StronglySorted lt l1 /\ StronglySorted lt l2 /\ forall x y, In x l1 -> In y l2 -> x < y.
Proof.
  induction l1 as [|a l1 IH]; intros l2 H.
  - split; [constructor|]. split; [exact H|intros x y []].
  - cbn in H. inversion H as [|? ? Hs Hf]; subst. destruct (IH l2 Hs) as [H1 [H2 H3]].
    rewrite Forall_forall in Hf. split; [|split; [exact H2|]].
    + constructor; [exact H1|]. apply Forall_forall. intros x Hx. apply Hf. apply in_app_iff. left. exact Hx.
    + intros x y [<-|Hx] Hy; [apply Hf; apply in_app_iff; right; exact Hy|auto].
Qed.

Lemma ss_app_intro : forall (l1 l2 : list nat), StronglySorted lt l1 -> StronglySorted lt l2 ->
  (forall x y, In x l1 -> In y l2 -> x < y) -> StronglySorted lt (l1 ++ l2).
Proof.
  induction l1 as [|a l1 IH]; intros l2 H1 H2 H3; [exact H2|]. cbn.
  inversion H1 as [|? ? Hs Hf]; subst. constructor.
  - apply IH; auto. intros x y Hx Hy. apply H3; [right; exact Hx|exact Hy].
  - apply Forall_forall. intros x Hx. apply in_app_iff in Hx. destruct Hx as [Hx|Hx].
    + rewrite Forall_forall in Hf. auto.
    + apply H3; [left; reflexivity|exact Hx].
Qed.

Lemma ss_seq : forall n k, StronglySorted lt (seq k n).
Proof.
  induction n as [|n IH]; intros k; cbn; constructor; [apply IH|].
  apply Forall_forall. intros x Hx. apply in_seq in Hx. lia.
Qed.

Lemma app_tail_cases : forall (A : Type) (o : list A) i l1 x l2,
  o ++ [i] = l1 ++ x :: l2 ->
  (l2 = [] /\ o = l1 /\ i = x) \/ (exists l2', l2 = l2' ++ [i] /\ o = l1 ++ x :: l2').
Proof.
  intros A o i l1 x l2 H. destruct l2 as [|y l2] using rev_ind.
  - left. apply app_inj_tail in H. destruct H as [-> ->]. auto.
  - right. clear IHl2. exists l2.
    replace (l1 ++ x :: l2 ++ [y]) with ((l1 ++ x :: l2) ++ [y]) in H by (rewrite <- app_assoc; reflexivity).
    apply app_inj_tail in H. destruct H as [-> ->]. auto.
Qed.

(* ------------------------------------------------------- the greedy invariant *)

Definition ginv (fs : graph) (ps : list N) (added : list N) (needed order : list nat) : Prop :=
  added = added_of fs ps order /\
  StronglySorted lt needed /\
  forall l1 i l2, order = l1 ++ i :: l2 ->
    ready (added_of fs ps l1) (fdeps fs i) = true /\
    forall j, (In j l2 \/ In j needed) -> j < i -> ready (added_of fs ps l1) (fdeps fs j) = false.

Lemma order_greedy_spec_proof : forall fs ps o, dep_order fs ps = Done o -> greedy_spec fs ps o.
Proof.
  intros fs ps o H. unfold dep_order in H.
  pose proof (loop_inv fs (ginv fs ps)) as L.
  assert (Hstep : forall added order i l1 l2,
             ginv fs ps added (l1 ++ i :: l2) order ->
             ready added (fdeps fs i) = true ->
             (forall k, In k l1 -> ready added (fdeps fs k) = false) ->
             ginv fs ps (fname fs i :: added) (l1 ++ l2) (order ++ [i])).
  { intros added order i n1 n2 [Ha [Hs Hg]] Hr Hun. subst added.
    destruct (ss_app_inv _ _ Hs) as [S1 [S2 S3]]. inversion S2 as [|? ? S2' F2]; subst.
    rewrite Forall_forall in F2.
    split; [|split].
    - unfold added_of. rewrite rev_app_distr. reflexivity.
    - apply ss_app_intro; auto. intros x y Hx Hy. apply S3; [exact Hx|right; exact Hy].
    - intros l1 x l2 E. destruct (app_tail_cases _ _ _ _ _ _ E) as [[-> [-> ->]]|[l2' [-> ->]]].
      + split; [exact Hr|]. intros j [[]|Hj] Hlt. apply in_app_iff in Hj. destruct Hj as [Hj|Hj].
        * apply Hun. exact Hj.
        * specialize (F2 j Hj). lia.
      + destruct (Hg l1 x l2' eq_refl) as [G1 G2]. split; [exact G1|].
        intros j [Hj|Hj] Hlt.
        * apply in_app_iff in Hj. destruct Hj as [Hj|[<-|[]]].
          -- apply G2; [left; exact Hj|exact Hlt].
          -- apply G2; [right; apply in_app_iff; right; left; reflexivity|exact Hlt].
        * apply G2; [|exact Hlt]. right. apply in_app_iff in Hj. apply in_app_iff. cbn. tauto. }
  specialize (L Hstep (S (length fs)) ps (seq 0 (length fs)) []).
  rewrite H in L. destruct L as [added' [_ [_ Hg]]].
  - split; [reflexivity|]. split; [apply ss_seq|]. intros l1 i l2 E. destruct l1; discriminate.
  - intros l1 i l2 E. destruct (Hg l1 i l2 E) as [G1 G2]. split; [exact G1|].
    intros j Hj Hlt. apply G2; [left; exact Hj|exact Hlt].
Qed.

(* ---------------------------------------------------------------- uniqueness *)

Lemma greedy_unique_aux : forall fs ps t l t',
  Permutation t t' ->
  greedy_spec fs ps (l ++ t) -> greedy_spec fs ps (l ++ t') -> t = t'.
Proof.
  intros fs ps. induction t as [|i t IH]; intros l t' HP G G'.
  - apply Permutation_nil in HP. subst. reflexivity.
  - destruct t' as [|i' t']; [apply Permutation_sym, Permutation_nil in HP; discriminate|].
    destruct (G l i t eq_refl) as [R1 U1]. destruct (G' l i' t' eq_refl) as [R2 U2].
    assert (E : i = i').
    { destruct (Nat.lt_trichotomy i i') as [Hlt|[E|Hlt]]; [|exact E|].
      - exfalso. assert (Hin : In i (i' :: t')) by (eapply Permutation_in; [exact HP|left; reflexivity]).
        destruct Hin as [->|Hin]; [lia|]. rewrite (U2 i Hin Hlt) in R1. discriminate.
      - exfalso. assert (Hin : In i' (i :: t)) by (eapply Permutation_in; [apply Permutation_sym; exact HP|left; reflexivity]).
        destruct Hin as [->|Hin]; [lia|]. rewrite (U1 i' Hin Hlt) in R2. discriminate. }
    subst i'. f_equal. apply (IH (l ++ [i]) t').
    + eapply Permutation_cons_inv. exact HP.
    + rewrite <- app_assoc. exact G.
    + rewrite <- app_assoc. exact G'.
Qed.

Lemma order_greedy_unique_proof : forall fs ps o o',
  dep_order fs ps = Done o -> Permutation o' (seq 0 (length fs)) -> greedy_spec fs ps o' -> o' = o.
Proof.
  intros fs ps o o' H HP G'. symmetry. apply (greedy_unique_aux fs ps o [] o').
  - eapply Permutation_trans; [exact (order_perm_proof fs ps o H)|apply Permutation_sym; exact HP].
  - apply order_greedy_spec_proof. exact H.
  - exact G'.
Qed.

(* -------------------------------------------------------------- consequences *)

Lemma added_of_snoc : forall fs ps l p, added_of fs ps (l ++ [p]) = fname fs p :: added_of fs ps l.
Proof. intros. unfold added_of. rewrite rev_app_distr. reflexivity. Qed.

Lemma in_added_of : forall fs ps l d, In d (added_of fs ps l) <-> In d ps \/ exists k, In k l /\ fname fs k = d.
Proof.
  intros. unfold added_of. rewrite in_app_iff, in_map_iff. split.
  - intros [[k [E Hk]]|H]; [|left; exact H]. right. exists k. split; [apply in_rev; exact Hk|exact E].
  - intros [H|[k [Hk E]]]; [right; exact H|]. left. exists k. split; [exact E|apply in_rev in Hk; exact Hk].
Qed.

(* a field placed directly after a source-later field mentions that field *)
Lemma order_stable_moves_proof : forall fs ps o, dep_order fs ps = Done o ->
  forall l1 p i l2, o = l1 ++ p :: i :: l2 -> i < p ->
  In (fname fs p) (fdeps fs i) /\ ~ In (fname fs p) ps /\
  forall k, In k l1 -> fname fs k <> fname fs p.
Proof.
  intros fs ps o H l1 p i l2 E Hlt. pose proof (order_greedy_spec_proof fs ps o H) as G.
  destruct (G l1 p (i :: l2) E) as [_ U].
  assert (E' : o = (l1 ++ [p]) ++ i :: l2) by (rewrite <- app_assoc; exact E).
  destruct (G (l1 ++ [p]) i l2 E') as [R _]. rewrite added_of_snoc in R.
  specialize (U i (or_introl eq_refl) Hlt).
  destruct (unready_dep _ _ U) as [d [Hd Hnd]].
  rewrite ready_spec in R. destruct (R d Hd) as [<-|Hin]; [|contradiction].
  split; [exact Hd|]. split.
  - intro Hp. apply Hnd. apply in_added_of. left. exact Hp.
  - intros k Hk Ek. apply Hnd. apply in_added_of. right. exists k. auto.
Qed.

(* source order is kept unless the earlier field still lacked a dependency *)
Lemma order_stability_proof : forall fs ps o, dep_order fs ps = Done o ->
  forall l1 j l2 i, o = l1 ++ j :: l2 -> In i l2 -> i < j ->
  exists d, In d (fdeps fs i) /\ ~ In d ps /\ forall k, In k l1 -> fname fs k <> d.
Proof.
  intros fs ps o H l1 j l2 i E Hi Hlt. pose proof (order_greedy_spec_proof fs ps o H) as G.
  destruct (G l1 j l2 E) as [_ U]. destruct (unready_dep _ _ (U i Hi Hlt)) as [d [Hd Hnd]].
  exists d. split; [exact Hd|]. split.
  - intro Hp. apply Hnd. apply in_added_of. left. exact Hp.
  - intros k Hk Ek. apply Hnd. apply in_added_of. right. exists k. auto.
Qed.

(* the literal reading of the source comment / DESIGN wording fails: field 1 is placed after
   the source-later field 2, its only dependency, yet not immediately after it *)
Lemma order_moves_refuted_proof :
  exists fs ps o i, dep_order fs ps = Done o /\
    (exists j, i < j /\ before j i o) /\
    ~ (exists l1 p l2, o = l1 ++ p :: i :: l2 /\ In (fname fs p) (fdeps fs i)).
Proof.
  exists [(10%N, [12%N]); (11%N, [12%N]); (12%N, [])], [], [2; 0; 1], 1.
  split; [reflexivity|]. split.
  - exists 2. split; [lia|]. exists [], [0], []. reflexivity.
  - intros [l1 [p [l2 [E Hin]]]].
    destruct l1 as [|a [|b [|c l1]]]; cbn in E; inversion E; subst; cbn in Hin.
    + destruct Hin as [Hin|[]]. discriminate.
    + destruct l1; discriminate.
Qed.
