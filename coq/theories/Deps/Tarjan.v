(* C15 — Gallina mirror of dependency_checker._find_cycles (Tarjan's SCC
   algorithm as written there), with the closure variables as an explicit state
   record and the Python call stack as fuel.  Definitions only; the proofs are
   in TarjanProofs.v.

       next_index = [0]; node_indices = {}; node_lowlinks = {}
       nodes_on_stack = set(); stack = []; nontrivial_components = set()

       def strong_connect(node):
           node_indices[node] = node_lowlinks[node] = next_index[0]; next_index[0] += 1
           stack.append(node); nodes_on_stack.add(node)
           for d in graph[node]:
               if d not in node_indices:
                   strong_connect(d)
                   node_lowlinks[node] = min(node_lowlinks[node], node_lowlinks[d])
               elif d in nodes_on_stack:
                   node_lowlinks[node] = min(node_lowlinks[node], node_indices[d])
           component = []
           if node_lowlinks[node] == node_indices[node]:
               while True:
                   popped = stack.pop(); nodes_on_stack.remove(popped); component.append(popped)
                   if popped == node: break
               if len(component) > 1 or component[0] in graph[component[0]]:
                   nontrivial_components.add(frozenset(component))

       for node in graph:
           if node not in node_indices: strong_connect(node)
       return nontrivial_components

   Iteration orders of `graph` (a dict) and `graph[node]` (a set) are the list
   orders of the association list given to the model.  Every Python exception
   the code could raise (KeyError on a dictionary, IndexError on stack.pop())
   is the distinct result TErr; exhausted fuel (the analogue of RecursionError)
   is TNoFuel. *)
From Coq Require Import NArith List Bool.
Import ListNotations.
Require Import EmbossV.Deps.Graph.

Inductive tres (A : Type) :=
| TOk (a : A)
| TErr
| TNoFuel.
Arguments TOk {A} a.
Arguments TErr {A}.
Arguments TNoFuel {A}.

Record tstate := mkT {
  next_index : N;
  indices : list (N * N);      (* node_indices, newest binding first *)
  lowlinks : list (N * N);     (* node_lowlinks, newest binding first *)
  on_stack : list N;           (* nodes_on_stack *)
  stack : list N;              (* stack, top first *)
  comps : list (list N)        (* nontrivial_components, newest first; each in pop order *)
}.

Definition t_init : tstate := mkT 0 [] [] [] [] [].

Fixpoint get (m : list (N * N)) (k : N) : option N :=
  match m with
  | [] => None
  | (k', v) :: t => if N.eqb k' k then Some v else get t k
  end.

Definition set_low (node x : N) (st : tstate) : tstate :=
  mkT st.(next_index) st.(indices) ((node, x) :: st.(lowlinks)) st.(on_stack) st.(stack) st.(comps).

Definition push (node : N) (st : tstate) : tstate :=
  mkT (N.succ st.(next_index))
      ((node, st.(next_index)) :: st.(indices))
      ((node, st.(next_index)) :: st.(lowlinks))
      (node :: st.(on_stack))
      (node :: st.(stack))
      st.(comps).

Fixpoint remove_all (x : N) (l : list N) : list N :=
  match l with
  | [] => []
  | y :: t => if N.eqb x y then remove_all x t else y :: remove_all x t
  end.

(* the `while True: popped = stack.pop() ...` loop; None = pop from an empty list *)
Fixpoint pop_until (node : N) (stk ons acc : list N) : option (list N * list N * list N) :=
  match stk with
  | [] => None
  | x :: t =>
      let ons' := remove_all x ons in
      let acc' := acc ++ [x] in
      if N.eqb x node then Some (t, ons', acc') else pop_until node t ons' acc'
  end.

Definition nontrivial (g : graph) (comp : list N) : option bool :=
  match comp with
  | [] => None                                  (* component[0] of an empty list *)
  | c0 :: rest =>
      match rest with
      | _ :: _ => Some true                      (* len(component) > 1 *)
      | [] => if has_key g c0 then Some (mem c0 (succs g c0)) else None
      end
  end.

Definition finish (g : graph) (node : N) (st : tstate) : tres tstate :=
  match get st.(lowlinks) node, get st.(indices) node with
  | Some l, Some i =>
      if N.eqb l i then
        match pop_until node st.(stack) st.(on_stack) [] with
        | None => TErr
        | Some (stk, ons, comp) =>
            match nontrivial g comp with
            | None => TErr
            | Some b =>
                TOk (mkT st.(next_index) st.(indices) st.(lowlinks) ons stk
                         (if b then comp :: st.(comps) else st.(comps)))
            end
        end
      else TOk st
  | _, _ => TErr
  end.

(* the `for d in graph[node]` loop; `rec` is strong_connect at one less fuel *)
Fixpoint visit (rec : N -> tstate -> tres tstate) (node : N) (ds : list N) (st : tstate)
  : tres tstate :=
  match ds with
  | [] => TOk st
  | d :: ds' =>
      match get st.(indices) d with
      | None =>
          match rec d st with
          | TOk st' =>
              match get st'.(lowlinks) node, get st'.(lowlinks) d with
              | Some a, Some b => visit rec node ds' (set_low node (N.min a b) st')
              | _, _ => TErr
              end
          | TErr => TErr
          | TNoFuel => TNoFuel
          end
      | Some di =>
          if mem d st.(on_stack) then
            match get st.(lowlinks) node with
            | Some a => visit rec node ds' (set_low node (N.min a di) st)
            | None => TErr
            end
          else visit rec node ds' st
      end
  end.

Fixpoint strong_connect (fuel : nat) (g : graph) (node : N) (st : tstate) : tres tstate :=
  match fuel with
  | O => TNoFuel
  | S f =>
      if has_key g node then
        match visit (strong_connect f g) node (succs g node) (push node st) with
        | TOk st2 => finish g node st2
        | TErr => TErr
        | TNoFuel => TNoFuel
        end
      else TErr                                    (* graph[node] raises KeyError *)
  end.

Fixpoint main_loop (fuel : nat) (g : graph) (ns : list N) (st : tstate) : tres tstate :=
  match ns with
  | [] => TOk st
  | n :: t =>
      match get st.(indices) n with
      | Some _ => main_loop fuel g t st
      | None =>
          match strong_connect fuel g n st with
          | TOk st' => main_loop fuel g t st'
          | TErr => TErr
          | TNoFuel => TNoFuel
          end
      end
  end.

(* _find_cycles(graph); fuel bounds the recursion depth of strong_connect *)
Definition find_cycles (fuel : nat) (g : graph) : tres (list (list N)) :=
  match main_loop fuel g (nodes g) t_init with
  | TOk st => TOk st.(comps)
  | TErr => TErr
  | TNoFuel => TNoFuel
  end.
