(* C15 — statements only; proofs are in Kahn.v, Order.v, TarjanProofs.v. *)
From Coq Require Import Arith NArith List Bool Relations Permutation.
Import ListNotations.
Require Import EmbossV.Deps.Graph EmbossV.Deps.Kahn EmbossV.Deps.Order.

(* cycle clause, specification level: the decision procedure the compiler's verdict is compared with *)
Theorem acyclic_dec_spec : forall g, closed g -> (acyclic_dec g = true <-> ~ cyclic g).
Proof. exact acyclic_dec_spec_proof. Qed.

(* ordering clause: the mirrored greedy loop, for every field list and parameter list *)
Theorem order_perm : forall fs ps o,
  dep_order fs ps = Done o -> Permutation o (seq 0 (length fs)).
Proof. exact order_perm_proof. Qed.

Theorem order_respects_deps : forall fs ps o,
  dep_order fs ps = Done o ->
  forall i d, In i o -> In d (fdeps fs i) ->
  In d ps \/ exists j, fname fs j = d /\ before j i o.
Proof. exact order_respects_deps_proof. Qed.

Theorem order_stable : forall fs ps,
  (forall i, i < length fs -> forall d, In d (fdeps fs i) ->
       In d ps \/ exists j, j < i /\ fname fs j = d) ->
  dep_order fs ps = Done (seq 0 (length fs)).
Proof. exact order_stable_proof. Qed.

Theorem order_defined : forall fs ps,
  local_acyclic fs ps -> exists o, dep_order fs ps = Done o.
Proof. exact order_defined_proof. Qed.

(* cycle clause, algorithmic level: the Gallina mirror of _find_cycles (Tarjan.v) *)
Require Import EmbossV.Deps.Tarjan EmbossV.Deps.TarjanProofs.

Theorem tarjan_none_iff_acyclic : forall g fuel, closed g -> length g < fuel ->
  (find_cycles fuel g = TOk [] <-> ~ cyclic g).
Proof. exact tarjan_none_iff_acyclic_proof. Qed.

(* no KeyError / IndexError / exhausted fuel on a closed graph, and the set of
   reported components is empty exactly on acyclic graphs *)
Theorem tarjan_verdict : forall g fuel, closed g -> length g < fuel ->
  exists C, find_cycles fuel g = TOk C /\ (C = [] <-> ~ cyclic g).
Proof. exact tarjan_verdict_proof. Qed.

Theorem tarjan_agrees_with_acyclic_dec : forall g, closed g ->
  exists C, find_cycles (S (length g)) g = TOk C /\ (C = [] <-> acyclic_dec g = true).
Proof. exact tarjan_agrees_with_acyclic_dec_proof. Qed.

(* what is reported: each component is a strongly connected component containing a cycle
   (members mutually reachable through >= 1 edge, maximal), every node on a cycle is in a
   reported component, and no node is reported twice (NoDup of the concatenation: no
   duplicates inside a component, components pairwise disjoint) *)
Require Import EmbossV.Deps.TarjanSCC.

Theorem tarjan_components_are_sccs : forall g fuel, closed g -> length g < fuel ->
  exists C, find_cycles fuel g = TOk C /\
    (forall comp, In comp C -> cyclic_scc g comp) /\
    (forall v, In v (nodes g) -> clos_trans N (edge g) v v -> exists comp, In comp C /\ In v comp) /\
    NoDup (concat C).
Proof. exact tarjan_components_are_sccs_proof. Qed.

(* every strongly connected set with a cycle is one entry of the result, and no other entry touches it *)
Theorem tarjan_reports_each_scc_once : forall g fuel C S, find_cycles fuel g = TOk C ->
  cyclic_scc g S ->
  exists l1 comp l2, C = l1 ++ comp :: l2 /\ (forall x, In x S <-> In x comp) /\
    forall c, In c (l1 ++ l2) -> forall x, In x S -> ~ In x c.
Proof. exact tarjan_reports_each_scc_once_proof. Qed.

(* ordering clause, placement of delayed fields (OrderMoves.v) *)
Require Import EmbossV.Deps.OrderMoves.

(* the exact behaviour of the loop: at every position the chosen field is ready and every
   source-earlier field still to come is not; this determines the order *)
Theorem order_greedy_spec : forall fs ps o, dep_order fs ps = Done o -> greedy_spec fs ps o.
Proof. exact order_greedy_spec_proof. Qed.

Theorem order_greedy_unique : forall fs ps o o',
  dep_order fs ps = Done o -> Permutation o' (seq 0 (length fs)) -> greedy_spec fs ps o' -> o' = o.
Proof. exact order_greedy_unique_proof. Qed.

(* a field placed directly after a field that comes later in the source mentions that field,
   i.e. it sits immediately after the last of its dependencies *)
Theorem order_stable_moves : forall fs ps o, dep_order fs ps = Done o ->
  forall l1 p i l2, o = l1 ++ p :: i :: l2 -> i < p ->
  In (fname fs p) (fdeps fs i) /\ ~ In (fname fs p) ps /\
  forall k, In k l1 -> fname fs k <> fname fs p.
Proof. exact order_stable_moves_proof. Qed.

(* stability: two fields keep their source order unless the earlier one still lacked a
   dependency (not a parameter, not provided by anything placed so far) when the later one was placed *)
Theorem order_stability : forall fs ps o, dep_order fs ps = Done o ->
  forall l1 j l2 i, o = l1 ++ j :: l2 -> In i l2 -> i < j ->
  exists d, In d (fdeps fs i) /\ ~ In d ps /\ forall k, In k l1 -> fname fs k <> d.
Proof. exact order_stability_proof. Qed.

(* the literal wording "every field placed after a source-later field sits immediately after
   the last of its dependencies" is false of the loop: witness with two fields waiting for a third *)
Theorem order_moves_refuted :
  exists fs ps o i, dep_order fs ps = Done o /\
    (exists j, i < j /\ before j i o) /\
    ~ (exists l1 p l2, o = l1 ++ p :: i :: l2 /\ In (fname fs p) (fdeps fs i)).
Proof. exact order_moves_refuted_proof. Qed.
