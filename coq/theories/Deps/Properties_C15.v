(* C15 — statements only; proofs are in Kahn.v, Order.v, TarjanProofs.v. *)
From Coq Require Import Arith NArith List Bool Relations Permutation.
Import ListNotations.
Require Import EmbossV.Deps.Graph EmbossV.Deps.Kahn EmbossV.Deps.Order.

(* cycle clause, specification level: the decision procedure the compiler's verdict is compared with *)
Theorem acyclic_dec_spec : forall g, closed g -> (acyclic_dec g = true <-> ~ cyclic g).
Proof. exact acyclic_dec_spec_proof. Qed.

(* ordering clause: the mirrored greedy loop, for every field list and parameter list *)
Theorem order_perm : forall fs ps o,
  dep_order fs ps = Done o -> Permutation o (seq 0 (length fs)).
Proof. exact order_perm_proof. Qed.

Theorem order_respects_deps : forall fs ps o,
  dep_order fs ps = Done o ->
  forall i d, In i o -> In d (fdeps fs i) ->
  In d ps \/ exists j, fname fs j = d /\ before j i o.
Proof. exact order_respects_deps_proof. Qed.

Theorem order_stable : forall fs ps,
  (forall i, i < length fs -> forall d, In d (fdeps fs i) ->
       In d ps \/ exists j, j < i /\ fname fs j = d) ->
  dep_order fs ps = Done (seq 0 (length fs)).
Proof. exact order_stable_proof. Qed.

Theorem order_defined : forall fs ps,
  local_acyclic fs ps -> exists o, dep_order fs ps = Done o.
Proof. exact order_defined_proof. Qed.

(* cycle clause, algorithmic level: the Gallina mirror of _find_cycles (Tarjan.v).
   Not proved: that every *reported* component is a strongly connected component. *)
Require Import EmbossV.Deps.Tarjan EmbossV.Deps.TarjanProofs.

Theorem tarjan_none_iff_acyclic : forall g fuel, closed g -> length g < fuel ->
  (find_cycles fuel g = TOk [] <-> ~ cyclic g).
Proof. exact tarjan_none_iff_acyclic_proof. Qed.

(* no KeyError / IndexError / exhausted fuel on a closed graph, and the set of
   reported components is empty exactly on acyclic graphs *)
Theorem tarjan_verdict : forall g fuel, closed g -> length g < fuel ->
  exists C, find_cycles fuel g = TOk C /\ (C = [] <-> ~ cyclic g).
Proof. exact tarjan_verdict_proof. Qed.

Theorem tarjan_agrees_with_acyclic_dec : forall g, closed g ->
  exists C, find_cycles (S (length g)) g = TOk C /\ (C = [] <-> acyclic_dec g = true).
Proof. exact tarjan_agrees_with_acyclic_dec_proof. Qed.
