(* C15 — statements only; proofs are in Kahn.v, Order.v, TarjanProofs.v. *)
From Coq Require Import NArith List Bool Relations Permutation.
Import ListNotations.
Require Import EmbossV.Deps.Graph EmbossV.Deps.Kahn EmbossV.Deps.Order.

(* cycle clause, specification level: the decision procedure the compiler's verdict is compared with *)
Theorem acyclic_dec_spec : forall g, closed g -> (acyclic_dec g = true <-> ~ cyclic g).
Proof. exact acyclic_dec_spec_proof. Qed.

(* ordering clause: the mirrored greedy loop, for every field list and parameter list *)
Theorem order_perm : forall fs ps o,
  dep_order fs ps = Done o -> Permutation o (seq 0 (length fs)).
Proof. exact order_perm_proof. Qed.

Theorem order_respects_deps : forall fs ps o,
  dep_order fs ps = Done o ->
  forall i d, In i o -> In d (fdeps fs i) ->
  In d ps \/ exists j, fname fs j = d /\ before j i o.
Proof. exact order_respects_deps_proof. Qed.

Theorem order_stable : forall fs ps,
  (forall i, i < length fs -> forall d, In d (fdeps fs i) ->
       In d ps \/ exists j, j < i /\ fname fs j = d) ->
  dep_order fs ps = Done (seq 0 (length fs)).
Proof. exact order_stable_proof. Qed.

Theorem order_defined : forall fs ps,
  local_acyclic fs ps -> exists o, dep_order fs ps = Done o.
Proof. exact order_defined_proof. Qed.
