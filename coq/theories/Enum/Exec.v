(* Executable glue used by the C19 correspondence harness. *)
From Coq Require Import ZArith NArith List Bool String Ascii.
Import ListNotations.
Require Import EmbossV.Enum.Model.
Open Scope Z_scope.

(* strings from code points (so that the harness can pass any 8-bit character) *)
Fixpoint string_of_codes (l : list N) : string :=
  match l with
  | [] => EmptyString
  | n :: t => String (ascii_of_N n) (string_of_codes t)
  end.

Fixpoint codes_of_string (s : string) : list N :=
  match s with
  | EmptyString => []
  | String c r => N_of_ascii c :: codes_of_string r
  end.

(* ---- equality tests ---- *)
Definition opt_eqb {A} (f : A -> A -> bool) (a b : option A) : bool :=
  match a, b with
  | None, None => true
  | Some x, Some y => f x y
  | _, _ => false
  end.

Fixpoint list_eqb {A} (f : A -> A -> bool) (a b : list A) : bool :=
  match a, b with
  | [], [] => true
  | x :: s, y :: t => f x y && list_eqb f s t
  | _, _ => false
  end.

Definition pair_eqb {A B} (f : A -> A -> bool) (g : B -> B -> bool) (a b : A * B) : bool :=
  f (fst a) (fst b) && g (snd a) (snd b).

(* ---- name conversion ---- *)
(* input: code points; output: (snake_to_camel, snake_to_k_camel) as code points *)
Definition run_convert (l : list N) : list N * list N :=
  let s := string_of_codes l in
  (codes_of_string (snake_to_camel s), codes_of_string (snake_to_k_camel s)).

Definition run_convert_eqb : (list N * list N) -> (list N * list N) -> bool :=
  pair_eqb (list_eqb N.eqb) (list_eqb N.eqb).

(* ---- enum_case attribute ---- *)
Definition case_error_code (e : case_error) : N :=
  match e with EmptyCase => 0 | DuplicateCase => 1 | UnsupportedCase => 2 end%N.

(* output: the pieces and the verification errors in order *)
Definition run_split (l : list N) : list (list N) * list N :=
  let s := string_of_codes l in
  (map codes_of_string (split_enum_case_values s), map case_error_code (verify_cases s)).

Definition run_split_eqb : (list (list N) * list N) -> (list (list N) * list N) -> bool :=
  pair_eqb (list_eqb (list_eqb N.eqb)) (list_eqb N.eqb).

(* ---- a whole enum ---- *)
Record enum_in := mk_enum_in {
  ei_vals : list (string * Z * option string);   (* name, value, innermost enum_case attribute text *)
  ei_signed : option bool;                         (* explicit is_signed *)
  ei_bits : option Z;                              (* explicit maximum_bits *)
  ei_names : list string;                          (* probes for TryToGetEnumFromName *)
  ei_probe : list Z                                (* probes for TryToGetNameFromEnum / EnumIsKnown *)
}.

Fixpoint build_values (l : list (string * Z * option string)) : option (list evalue) :=
  match l with
  | [] => Some []
  | (n, v, a) :: t =>
      match cases_of_attribute a, build_values t with
      | Some cs, Some r => Some (mk_evalue n v cs :: r)
      | _, _ => None
      end
  end.

Definition no_cases : list ecase := [].

(* status: 0 accepted, 1 rejected by the front end (width, range, duplicate name),
   2 rejected by the back end (enum_case attribute) *)
Record enum_out := mk_enum_out {
  eo_status : N;
  eo_signed : bool;
  eo_bits : Z;
  eo_utype : option (bool * Z);
  eo_distinct : bool;
  eo_enumerators : list (string * Z);
  eo_from : list (option Z);
  eo_to : list (option string);
  eo_known : list bool
}.

Definition front_end_ok (d : edecl) : bool :=
  width_ok d && representable d && strings_distinct (map ev_name (ed_values d)).

Definition run_enum (i : enum_in) : enum_out :=
  (* the front end does not look at enum_case; give every value a dummy spelling for its verdict *)
  let fe_vals := map (fun x => mk_evalue (fst (fst x)) (snd (fst x)) [Shouty]) (ei_vals i) in
  let fe := infer fe_vals (mk_eattrs (ei_signed i) (ei_bits i)) in
  if negb (front_end_ok fe) then
    mk_enum_out 1 (ed_signed fe) (ed_bits fe) None true [] [] [] []
  else
    match build_values (ei_vals i) with
    | None => mk_enum_out 2 (ed_signed fe) (ed_bits fe) None true [] [] [] []
    | Some vals =>
        let d := infer vals (mk_eattrs (ei_signed i) (ei_bits i)) in
        mk_enum_out (if accepted d then 0 else 2) (ed_signed d) (ed_bits d)
          (option_map (fun t => (ct_signed t, ct_bits t)) (underlying_type (ed_bits d) (ed_signed d)))
          (enumerators_distinct d)
          (enumerators d)
          (map (from_name d) (ei_names i))
          (map (to_name d) (ei_probe i))
          (map (is_known d) (ei_probe i))
    end.

Definition enum_out_eqb (a b : enum_out) : bool :=
  N.eqb (eo_status a) (eo_status b) &&
  Bool.eqb (eo_signed a) (eo_signed b) &&
  Z.eqb (eo_bits a) (eo_bits b) &&
  opt_eqb (pair_eqb Bool.eqb Z.eqb) (eo_utype a) (eo_utype b) &&
  Bool.eqb (eo_distinct a) (eo_distinct b) &&
  list_eqb (pair_eqb String.eqb Z.eqb) (eo_enumerators a) (eo_enumerators b) &&
  list_eqb (opt_eqb Z.eqb) (eo_from a) (eo_from b) &&
  list_eqb (opt_eqb String.eqb) (eo_to a) (eo_to b) &&
  list_eqb Bool.eqb (eo_known a) (eo_known b).

(* ---- enum fields ---- *)
(* input: underlying type (signed, bits), field bits, bit-block value width, probe values, probe raw patterns.
   output per probe value: (the property's verdict, EnumView::CouldWriteValue as written, value read back
   after a write as written); per raw pattern: (sign-/zero-extended value the property asks for,
   EnumView::Read as written) *)
Definition sign_extend (signed : bool) (k raw : Z) : Z :=
  if signed && (2 ^ (k - 1) <=? raw) then raw - 2 ^ k else raw.

(* The harness passes the C++ observations; the verdict per probe is
     0  the implementation does what the property asks,
     1  it does not, and does exactly what EnumView as modelled (unfixed) does,
     2  it does neither. *)
Definition verdict_write (ts : bool) (t : ctype) (k bw v : Z) (cpp_could : bool) (cpp_read : Z) : N :=
  let spec := in_range (field_range ts k) v in
  let impl := could_write t k bw v in
  if negb (Bool.eqb cpp_could spec) then (if Bool.eqb cpp_could impl then 1 else 2)%N
  else if cpp_could then
    (if Z.eqb cpp_read v then 0%N else if Z.eqb cpp_read (read_raw t (write_raw k bw v)) then 1%N else 2%N)
  else 0%N.

Definition verdict_read (ts : bool) (t : ctype) (k raw cpp_read : Z) : N :=
  if Z.eqb cpp_read (sign_extend ts k raw) then 0%N
  else if Z.eqb cpp_read (read_raw t raw) then 1%N else 2%N.

(* input: underlying type (signed, bits), field bits, bit-block value width,
   write probes (value, CouldWriteValue, value read back or 0), read probes (raw pattern, Read()) *)
Definition run_field (x : (bool * Z) * Z * Z * list (Z * bool * Z) * list (Z * Z)) : list N * list N :=
  let '(ts, tb, k, bw, ws, rs) := x in
  let t := mk_ctype ts tb in
  (map (fun p => verdict_write ts t k bw (fst (fst p)) (snd (fst p)) (snd p)) ws,
   map (fun p => verdict_read ts t k (fst p) (snd p)) rs).

Definition run_field_eqb : (list N * list N) -> (list N * list N) -> bool :=
  pair_eqb (list_eqb N.eqb) (list_eqb N.eqb).

(* ---- a module: the front end looks at every enum before the back end does; the back end
   verifies EVERY enum_case attribute where it is written (header_generator._verify_attribute_values
   traverses all Attribute nodes), also a $default that every value overrides ---- *)
Definition attribute_ok (a : string) : bool := match verify_cases a with [] => true | _ => false end.

Definition run_module (x : list string * list enum_in) : N * bool * list enum_out :=
  let '(written, l) := x in
  let outs := map run_enum l in
  let status := (if existsb (fun o => N.eqb (eo_status o) 1) outs then 1
                 else if negb (forallb attribute_ok written) || existsb (fun o => N.eqb (eo_status o) 2) outs then 2
                 else 0)%N in
  let compiles := forallb eo_distinct outs in
  if N.eqb status 0 then (status, compiles, if compiles then outs else []) else (status, true, []).

Definition module_out_eqb (a b : N * bool * list enum_out) : bool :=
  N.eqb (fst (fst a)) (fst (fst b)) && Bool.eqb (snd (fst a)) (snd (fst b)) &&
  list_eqb enum_out_eqb (snd a) (snd b).
