(* C19 — enum names, values and C++ representation: the model (definitions only).

   Mirrors
     compiler/util/name_conversion.py          snake_to_camel, camel_to_k_camel, convert_case
     compiler/back_end/cpp/header_generator.py _split_enum_case_values(_into_spans), _verify_enum_case_attribute,
                                               _get_enum_value_names, _cpp_integer_type_for_enum,
                                               _generate_enum_definition (+ templates enum_definition, enum_value,
                                               enum_from_name_case, name_from_enum_case, enum_is_known_case, enum_traits)
     compiler/front_end/attribute_checker.py   _add_missing_width_and_sign_attributes_on_enum, _verify_width_attribute_on_enum
     compiler/front_end/constraints.py         _check_that_enum_values_are_representable, _check_physical_type_requirements (enum branch)
     runtime/cpp/emboss_enum_view.h            EnumView::CouldWriteValue / Read / TryToWrite
   Strings are Coq [string]s of 8-bit characters; Emboss names are ASCII by the tokenizer. *)
From Coq Require Import ZArith NArith List Bool String Ascii.
Import ListNotations.
Open Scope Z_scope.

(* ------------------------------------------------------------------------- *)
(* Characters (ASCII semantics of str.upper / str.lower / str.isspace)        *)
(* ------------------------------------------------------------------------- *)

Definition code (c : ascii) : N := N_of_ascii c.

Definition is_upper (c : ascii) : bool := (65 <=? code c)%N && (code c <=? 90)%N.
Definition is_lower (c : ascii) : bool := (97 <=? code c)%N && (code c <=? 122)%N.
Definition is_digit (c : ascii) : bool := (48 <=? code c)%N && (code c <=? 57)%N.

Definition to_upper (c : ascii) : ascii := if is_lower c then ascii_of_N (code c - 32) else c.
Definition to_lower (c : ascii) : ascii := if is_upper c then ascii_of_N (code c + 32) else c.

Definition underscore : ascii := "_"%char.
Definition comma : ascii := ","%char.

(* Python str.isspace on code points below 256 *)
Definition is_space (c : ascii) : bool :=
  let n := code c in
  ((9 <=? n) && (n <=? 13) || (28 <=? n) && (n <=? 32) || (n =? 133) || (n =? 160))%N.

Fixpoint map_string (f : ascii -> ascii) (s : string) : string :=
  match s with
  | EmptyString => EmptyString
  | String c r => String (f c) (map_string f r)
  end.

Fixpoint concat_strings (l : list string) : string :=
  match l with
  | [] => EmptyString
  | s :: t => (s ++ concat_strings t)%string
  end.

(* ------------------------------------------------------------------------- *)
(* name_conversion.py                                                         *)
(* ------------------------------------------------------------------------- *)

(* str.capitalize: first character upper-cased, the rest lower-cased *)
Definition capitalize (s : string) : string :=
  match s with
  | EmptyString => EmptyString
  | String c r => String (to_upper c) (map_string to_lower r)
  end.

(* str.split(sep) for a one-character separator: never returns the empty list;
   "A__B" -> ["A"; ""; "B"],  "A_" -> ["A"; ""],  "" -> [""] *)
Fixpoint split_on (sep : ascii) (s : string) : list string :=
  match s with
  | EmptyString => [EmptyString]
  | String c r =>
      if Ascii.eqb c sep then EmptyString :: split_on sep r
      else match split_on sep r with
           | w :: ws => String c w :: ws
           | [] => [String c EmptyString]
           end
  end.

(* "".join(word.capitalize() for word in name.split("_")) *)
Definition snake_to_camel (name : string) : string :=
  concat_strings (map capitalize (split_on underscore name)).

Definition camel_to_k_camel (name : string) : string := String "k"%char name.

Definition snake_to_k_camel (name : string) : string := camel_to_k_camel (snake_to_camel name).

(* the two spellings the C++ back end supports (_SUPPORTED_ENUM_CASES) *)
Inductive ecase := Shouty | KCamel.

Definition ecase_eqb (a b : ecase) : bool :=
  match a, b with Shouty, Shouty | KCamel, KCamel => true | _, _ => false end.

(* name_conversion.convert_case("SHOUTY_CASE", case, name) *)
Definition convert_case (c : ecase) (name : string) : string :=
  match c with
  | Shouty => name
  | KCamel => snake_to_k_camel name
  end.

(* One-pass description of snake_to_camel, proved equal in Proofs.v: underscores
   vanish, a character at the start of a word is upper-cased, others lower-cased. *)
Fixpoint camel_scan (at_start : bool) (s : string) : string :=
  match s with
  | EmptyString => EmptyString
  | String c r =>
      if Ascii.eqb c underscore then camel_scan true r
      else String (if at_start then to_upper c else to_lower c) (camel_scan false r)
  end.

(* ------------------------------------------------------------------------- *)
(* vocabulary of the statements about case conversion                          *)
(* ------------------------------------------------------------------------- *)

Fixpoint string_In (c : ascii) (s : string) : Prop :=
  match s with EmptyString => False | String x r => x = c \/ string_In c r end.

Fixpoint count_char (c : ascii) (s : string) : nat :=
  match s with
  | EmptyString => O
  | String x r => ((if Ascii.eqb x c then 1 else 0) + count_char c r)%nat
  end.

(* Names on which snake_to_camel is injective: SHOUTY names in which every
   underscore is directly followed by a letter.  [good false r]: r continues a
   word; [good true r]: r directly follows an underscore. *)
Fixpoint good (at_start : bool) (s : string) : bool :=
  match s with
  | EmptyString => negb at_start
  | String c r =>
      if Ascii.eqb c underscore then negb at_start && good true r
      else if at_start then is_upper c && good false r
      else (is_upper c || is_digit c) && good false r
  end.

Definition letter_boundaries (s : string) : bool :=
  match s with
  | EmptyString => false
  | String c r => is_upper c && good false r
  end.

Fixpoint unscan (t : string) : string :=
  match t with
  | EmptyString => EmptyString
  | String c r => if is_upper c then String underscore (String c (unscan r)) else String (to_upper c) (unscan r)
  end.


Fixpoint cases_distinct (l : list ecase) : bool :=
  match l with
  | [] => true
  | c :: t => negb (existsb (ecase_eqb c) t) && cases_distinct t
  end.

(* ------------------------------------------------------------------------- *)
(* the enum_case attribute value                                               *)
(* ------------------------------------------------------------------------- *)

Fixpoint drop_leading_space (s : string) : string :=
  match s with
  | EmptyString => EmptyString
  | String c r => if is_space c then drop_leading_space r else s
  end.

Fixpoint all_space (s : string) : bool :=
  match s with
  | EmptyString => true
  | String c r => is_space c && all_space r
  end.

(* drop trailing whitespace *)
Fixpoint drop_trailing_space (s : string) : string :=
  match s with
  | EmptyString => EmptyString
  | String c r => if all_space s then EmptyString else String c (drop_trailing_space r)
  end.

Definition trim (s : string) : string := drop_trailing_space (drop_leading_space s).

(* _split_enum_case_values: split on ',', trim each piece, and yield nothing for a
   last piece that is blank unless it is also the first piece. *)
Definition split_enum_case_values (v : string) : list string :=
  let pieces := split_on comma v in
  let trimmed := map trim pieces in
  match pieces with
  | [_] => trimmed
  | _ => if all_space (last pieces EmptyString) then removelast trimmed else trimmed
  end.

Definition parse_case (s : string) : option ecase :=
  if String.eqb s "SHOUTY_CASE" then Some Shouty
  else if String.eqb s "kCamelCase" then Some KCamel
  else None.

Inductive case_error := EmptyCase | DuplicateCase | UnsupportedCase.

(* _verify_enum_case_attribute: one optional error per span, in order *)
Fixpoint verify_cases_from (seen : list string) (l : list string) : list case_error :=
  match l with
  | [] => []
  | c :: t =>
      if String.eqb c EmptyString then EmptyCase :: verify_cases_from seen t
      else if existsb (String.eqb c) seen then DuplicateCase :: verify_cases_from seen t
      else match parse_case c with
           | None => UnsupportedCase :: verify_cases_from (c :: seen) t
           | Some _ => verify_cases_from (c :: seen) t
           end
  end.

Definition verify_cases (v : string) : list case_error :=
  verify_cases_from [] (split_enum_case_values v).

Fixpoint parse_cases (l : list string) : option (list ecase) :=
  match l with
  | [] => Some []
  | c :: t => match parse_case c, parse_cases t with
              | Some k, Some ks => Some (k :: ks)
              | _, _ => None
              end
  end.

(* the cases requested for one value: attribute absent -> ["SHOUTY_CASE"];
   None = the back end rejects the module *)
Definition cases_of_attribute (attr : option string) : option (list ecase) :=
  match attr with
  | None => Some [Shouty]
  | Some v => match verify_cases v with
              | [] => parse_cases (split_enum_case_values v)
              | _ => None
              end
  end.

(* ------------------------------------------------------------------------- *)
(* enum declarations                                                           *)
(* ------------------------------------------------------------------------- *)

Record evalue := mk_evalue { ev_name : string; ev_value : Z; ev_cases : list ecase }.

(* as written: explicit attributes are optional *)
Record eattrs := mk_eattrs { at_signed : option bool; at_bits : option Z }.

(* after _add_missing_width_and_sign_attributes_on_enum *)
Record edecl := mk_edecl { ed_values : list evalue; ed_signed : bool; ed_bits : Z }.

Definition default_maximum_bits : Z := 64.

Definition infer (vals : list evalue) (a : eattrs) : edecl :=
  mk_edecl vals
    (match at_signed a with
     | Some s => s
     | None => existsb (fun ev => ev_value ev <? 0) vals
     end)
    (match at_bits a with Some b => b | None => default_maximum_bits end).

(* _verify_width_attribute_on_enum *)
Definition width_ok (d : edecl) : bool := (1 <=? ed_bits d) && (ed_bits d <=? 64).

Definition range_of (signed : bool) (bits : Z) : Z * Z :=
  if signed then (- 2 ^ (bits - 1), 2 ^ (bits - 1) - 1) else (0, 2 ^ bits - 1).

Definition in_range (r : Z * Z) (v : Z) : bool := (fst r <=? v) && (v <=? snd r).

(* _check_that_enum_values_are_representable: the values that get an error *)
Definition out_of_range_values (d : edecl) : list evalue :=
  filter (fun ev => negb (in_range (range_of (ed_signed d) (ed_bits d)) (ev_value ev))) (ed_values d).

Definition representable (d : edecl) : bool :=
  match out_of_range_values d with [] => true | _ => false end.

Fixpoint string_mem (s : string) (l : list string) : bool :=
  match l with [] => false | x :: t => String.eqb s x || string_mem s t end.

Fixpoint strings_distinct (l : list string) : bool :=
  match l with [] => true | x :: t => negb (string_mem x t) && strings_distinct t end.

(* what the front end + back-end attribute verification accept *)
Definition accepted (d : edecl) : bool :=
  width_ok d && representable d &&
  strings_distinct (map ev_name (ed_values d)) &&
  forallb (fun ev => match ev_cases ev with [] => false | _ => true end) (ed_values d).

(* ------------------------------------------------------------------------- *)
(* C++ representation                                                          *)
(* ------------------------------------------------------------------------- *)

Record ctype := mk_ctype { ct_signed : bool; ct_bits : Z }.

(* _cpp_integer_type_for_enum: None = the Python assert fires *)
Definition underlying_type (max_bits : Z) (signed : bool) : option ctype :=
  if max_bits <=? 8 then Some (mk_ctype signed 8)
  else if max_bits <=? 16 then Some (mk_ctype signed 16)
  else if max_bits <=? 32 then Some (mk_ctype signed 32)
  else if max_bits <=? 64 then Some (mk_ctype signed 64)
  else None.

Definition ctype_range (t : ctype) : Z * Z := range_of (ct_signed t) (ct_bits t).

(* the flattened emission order of _generate_enum_definition:
   (Emboss name, C++ enumerator, value), one per value per requested case *)
Definition emission (d : edecl) : list (string * string * Z) :=
  flat_map (fun ev => map (fun c => (ev_name ev, convert_case c (ev_name ev), ev_value ev)) (ev_cases ev))
           (ed_values d).

(* enum class E : T { name = value, ... } *)
Definition enumerators (d : edecl) : list (string * Z) :=
  map (fun x => (snd (fst x), snd x)) (emission d).

Definition enumerators_distinct (d : edecl) : bool := strings_distinct (map fst (enumerators d)).

(* first entry with the given key *)
Fixpoint assoc {A} (l : list (string * A)) (k : string) : option A :=
  match l with
  | [] => None
  | (n, v) :: t => if String.eqb n k then Some v else assoc t k
  end.

(* value denoted by E::name *)
Definition enumerator_value (es : list (string * Z)) (name : string) : option Z := assoc es name.

(* number of (value, requested case) pairs *)
Definition requested_count (d : edecl) : nat :=
  fold_right (fun ev n => (List.length (ev_cases ev) + n)%nat) 0%nat (ed_values d).

(* TryToGetEnumFromName: the strcmp chain, in order: (Emboss name, enumerator) *)
Definition from_name_chain (d : edecl) : list (string * string) :=
  map (fun x => (fst (fst x), snd (fst x))) (emission d).

Definition chain_lookup (chain : list (string * string)) (s : string) : option string := assoc chain s.

Definition from_name (d : edecl) (s : string) : option Z :=
  match chain_lookup (from_name_chain d) s with
  | None => None
  | Some e => enumerator_value (enumerators d) e
  end.

Definition Z_mem (v : Z) (l : list Z) : bool := existsb (Z.eqb v) l.

(* the `previously_seen_numeric_values` filter: (enumerator, Emboss name) of the
   entries whose value was not seen before *)
Fixpoint first_seen (seen : list Z) (l : list (string * string * Z)) : list (string * string) :=
  match l with
  | [] => []
  | (n, e, v) :: t =>
      if Z_mem v seen then first_seen seen t
      else (e, n) :: first_seen (v :: seen) t
  end.

Definition switch_cases (d : edecl) : list (string * string) := first_seen [] (emission d).

(* switch (value) { case E::label: return payload; ... default: none } *)
Fixpoint switch_lookup {A} (es : list (string * Z)) (cases : list (string * A)) (v : Z) : option A :=
  match cases with
  | [] => None
  | (label, payload) :: t =>
      match enumerator_value es label with
      | Some lv => if lv =? v then Some payload else switch_lookup es t v
      | None => switch_lookup es t v
      end
  end.

(* a switch with two labels of equal value is ill-formed C++ *)
Definition label_values (es : list (string * Z)) (labels : list string) : list (option Z) :=
  map (enumerator_value es) labels.

(* TryToGetNameFromEnum *)
Definition to_name (d : edecl) (v : Z) : option string :=
  switch_lookup (enumerators d) (switch_cases d) v.

(* EnumIsKnown *)
Definition is_known (d : edecl) (v : Z) : bool :=
  match switch_lookup (enumerators d) (map (fun c => (fst c, tt)) (switch_cases d)) v with
  | Some _ => true
  | None => false
  end.

(* SendToOstream: the name, or the numeric value of the underlying type *)
Definition send_to_ostream (d : edecl) (v : Z) : string + Z :=
  match to_name d v with Some n => inl n | None => inr v end.

(* ------------------------------------------------------------------------- *)
(* enum fields (EnumView over a bit block)                                     *)
(* ------------------------------------------------------------------------- *)

(* C++ conversion of an integer to an integral type (two's complement wrap) *)
Definition wrap (t : ctype) (v : Z) : Z :=
  let m := 2 ^ ct_bits t in
  let u := v mod m in
  if ct_signed t then (if u <? 2 ^ (ct_bits t - 1) then u else u - m) else u.

(* constraints._check_physical_type_requirements, enum branch *)
Definition field_size_ok (d : edecl) (kbits : Z) : bool := (1 <=? kbits) && (kbits <=? ed_bits d).

(* LeastWidthInteger<n>::Unsigned *)
Definition least_width (n : Z) : Z :=
  if n <=? 8 then 8 else if n <=? 16 then 16 else if n <=? 32 then 32 else 64.

(* EnumView<Enum, FixedSizeViewParameters<kbits, AllValuesAreOk>, BitView>::CouldWriteValue,
   [t] = underlying type of Enum, [bw] = width of BitView::ValueType (unsigned) *)
Definition could_write (t : ctype) (kbits bw : Z) (v : Z) : bool :=
  let raw := wrap (mk_ctype false bw) v in
  (v =? wrap t raw) && ((kbits =? bw) || (raw <? 2 ^ kbits)).

(* what a successful Write stores, and what Read returns for a stored raw value *)
Definition write_raw (kbits bw : Z) (v : Z) : Z := (wrap (mk_ctype false bw) v) mod 2 ^ kbits.
Definition read_raw (t : ctype) (raw : Z) : Z := wrap t raw.

(* the property's notion of "in range" for a field of kbits bits of an enum with the given signedness *)
Definition field_range (signed : bool) (kbits : Z) : Z * Z := range_of signed kbits.
