(* C19 — proofs, part 2: representation, lookup functions, inference. *)
From Coq Require Import ZArith NArith List Bool String Ascii Lia.
Import ListNotations.
Require Import EmbossV.Enum.Model EmbossV.Enum.Proofs.
Open Scope Z_scope.

(* ------------------------------------------------------------------------- *)
(* ranges and the underlying type                                              *)
(* ------------------------------------------------------------------------- *)

Lemma in_range_iff : forall r v, in_range r v = true <-> fst r <= v <= snd r.
Proof. intros [lo hi] v. unfold in_range. cbn. rewrite andb_true_iff, !Z.leb_le. tauto. Qed.

Lemma range_of_mono : forall s b w v, 1 <= b -> b <= w ->
  in_range (range_of s b) v = true -> in_range (range_of s w) v = true.
Proof.
  intros s b w v Hb Hw. rewrite !in_range_iff. unfold range_of.
  assert (2 ^ b <= 2 ^ w) by (apply Z.pow_le_mono_r; lia).
  assert (2 ^ (b - 1) <= 2 ^ (w - 1)) by (apply Z.pow_le_mono_r; lia).
  destruct s; cbn; lia.
Qed.

Lemma representable_iff_lem : forall d,
  representable d = true <->
  (forall ev, In ev (ed_values d) -> in_range (range_of (ed_signed d) (ed_bits d)) (ev_value ev) = true).
Proof.
  intros d. unfold representable, out_of_range_values.
  destruct (filter _ (ed_values d)) eqn:E.
  - rewrite filter_nil_iff in E. split; [|reflexivity]. intros _ ev H. specialize (E ev H).
    apply negb_false_iff in E. exact E.
  - split; [discriminate|]. intros H. exfalso.
    assert (In e (e :: l)) as Hin by (left; reflexivity). rewrite <- E in Hin.
    apply filter_In in Hin. destruct Hin as [Hin Hf]. rewrite (H e Hin) in Hf. discriminate.
Qed.

Lemma underlying_total_lem : forall d, width_ok d = true ->
  exists t, underlying_type (ed_bits d) (ed_signed d) = Some t.
Proof.
  intros d H. unfold width_ok in H. apply andb_true_iff in H. destruct H as [_ H]. apply Z.leb_le in H.
  unfold underlying_type.
  destruct (ed_bits d <=? 8); [eauto|]. destruct (ed_bits d <=? 16); [eauto|].
  destruct (ed_bits d <=? 32); [eauto|]. destruct (ed_bits d <=? 64) eqn:E; [eauto|].
  apply Z.leb_gt in E. lia.
Qed.

Lemma underlying_fits_lem : forall d t,
  width_ok d = true -> underlying_type (ed_bits d) (ed_signed d) = Some t ->
  ct_signed t = ed_signed d /\
  In (ct_bits t) [8; 16; 32; 64] /\
  ed_bits d <= ct_bits t /\
  (forall w, In w [8; 16; 32; 64] -> ed_bits d <= w -> ct_bits t <= w) /\
  (forall v, in_range (range_of (ed_signed d) (ed_bits d)) v = true -> in_range (ctype_range t) v = true) /\
  (representable d = true -> forall ev, In ev (ed_values d) -> in_range (ctype_range t) (ev_value ev) = true).
Proof.
  intros d t Hw Hu. unfold width_ok in Hw. apply andb_true_iff in Hw. destruct Hw as [H1 H64].
  apply Z.leb_le in H1, H64.
  assert (ct_signed t = ed_signed d /\ In (ct_bits t) [8; 16; 32; 64] /\ ed_bits d <= ct_bits t /\
          (forall w, In w [8; 16; 32; 64] -> ed_bits d <= w -> ct_bits t <= w)) as [Hs [Hin [Hle Hmin]]].
  { unfold underlying_type in Hu.
    destruct (ed_bits d <=? 8) eqn:E8; [inversion Hu; subst; cbn; apply Z.leb_le in E8;
      repeat split; auto; intros w [W|[W|[W|[W|[]]]]]; subst; lia|].
    destruct (ed_bits d <=? 16) eqn:E16; [inversion Hu; subst; cbn; apply Z.leb_le in E16; apply Z.leb_gt in E8;
      repeat split; auto; intros w [W|[W|[W|[W|[]]]]]; subst; lia|].
    destruct (ed_bits d <=? 32) eqn:E32; [inversion Hu; subst; cbn; apply Z.leb_le in E32; apply Z.leb_gt in E16;
      repeat split; auto; intros w [W|[W|[W|[W|[]]]]]; subst; lia|].
    destruct (ed_bits d <=? 64) eqn:E64; [inversion Hu; subst; cbn; apply Z.leb_gt in E32;
      repeat split; auto; intros w [W|[W|[W|[W|[]]]]]; subst; lia|discriminate]. }
  assert (forall v, in_range (range_of (ed_signed d) (ed_bits d)) v = true -> in_range (ctype_range t) v = true) as Hr.
  { intros v Hv. unfold ctype_range. rewrite Hs. eapply range_of_mono; eauto. }
  repeat split; auto.
  intros Hrep ev Hev. apply Hr. apply (proj1 (representable_iff_lem d) Hrep). exact Hev.
Qed.

(* ------------------------------------------------------------------------- *)
(* enumerators                                                                 *)
(* ------------------------------------------------------------------------- *)

Lemma in_emission : forall d n e v,
  In (n, e, v) (emission d) <->
  exists ev c, In ev (ed_values d) /\ In c (ev_cases ev) /\ n = ev_name ev /\ e = convert_case c (ev_name ev) /\ v = ev_value ev.
Proof.
  intros d n e v. unfold emission. rewrite in_flat_map. split.
  - intros [ev [Hev Hin]]. apply in_map_iff in Hin. destruct Hin as [c [Hc Hin]].
    inversion Hc; subst. exists ev, c. auto.
  - intros [ev [c [Hev [Hc [-> [-> ->]]]]]]. exists ev. split; [exact Hev|].
    apply in_map_iff. exists c. auto.
Qed.

Lemma in_enumerators : forall d e v,
  In (e, v) (enumerators d) <->
  exists ev c, In ev (ed_values d) /\ In c (ev_cases ev) /\ e = convert_case c (ev_name ev) /\ v = ev_value ev.
Proof.
  intros d e v. unfold enumerators. rewrite in_map_iff. split.
  - intros [[[n e'] v'] [Heq Hin]]. cbn in Heq. inversion Heq; subst.
    apply in_emission in Hin. destruct Hin as [ev [c [H1 [H2 [_ [H3 H4]]]]]]. exists ev, c. auto.
  - intros [ev [c [H1 [H2 [-> ->]]]]]. exists (ev_name ev, convert_case c (ev_name ev), ev_value ev).
    split; [reflexivity|]. apply in_emission. exists ev, c. auto.
Qed.

Lemma enumerators_length_lem : forall d, List.length (enumerators d) = requested_count d.
Proof.
  intros [vals s b]. unfold enumerators, emission, requested_count. cbn [ed_values].
  rewrite map_length. induction vals as [|ev t IH]; [reflexivity|].
  cbn [flat_map fold_right]. rewrite app_length, map_length, IH. reflexivity.
Qed.

Lemma enumerator_value_declared_lem : forall d ev c,
  enumerators_distinct d = true -> In ev (ed_values d) -> In c (ev_cases ev) ->
  enumerator_value (enumerators d) (convert_case c (ev_name ev)) = Some (ev_value ev).
Proof.
  intros d ev c Hd Hev Hc. unfold enumerator_value. apply assoc_NoDup.
  - apply strings_distinct_NoDup. exact Hd.
  - apply in_enumerators. exists ev, c. auto.
Qed.

Lemma emission_enumerator_value : forall d n e v,
  enumerators_distinct d = true -> In (n, e, v) (emission d) -> enumerator_value (enumerators d) e = Some v.
Proof.
  intros d n e v Hd Hin. apply in_emission in Hin. destruct Hin as [ev [c [H1 [H2 [_ [-> ->]]]]]].
  apply enumerator_value_declared_lem; assumption.
Qed.

(* ------------------------------------------------------------------------- *)
(* accepted: projections                                                       *)
(* ------------------------------------------------------------------------- *)

Lemma accepted_parts : forall d, accepted d = true ->
  width_ok d = true /\ representable d = true /\ NoDup (map ev_name (ed_values d)) /\
  (forall ev, In ev (ed_values d) -> ev_cases ev <> []).
Proof.
  intros d H. unfold accepted in H. rewrite !andb_true_iff in H. destruct H as [[[H1 H2] H3] H4].
  repeat split; auto.
  - apply strings_distinct_NoDup. exact H3.
  - intros ev Hev. rewrite forallb_forall in H4. specialize (H4 ev Hev).
    destruct (ev_cases ev); [discriminate|discriminate].
Qed.

(* ------------------------------------------------------------------------- *)
(* TryToGetEnumFromName                                                        *)
(* ------------------------------------------------------------------------- *)

Lemma in_chain : forall d n e, In (n, e) (from_name_chain d) <-> exists v, In (n, e, v) (emission d).
Proof.
  intros d n e. unfold from_name_chain. rewrite in_map_iff. split.
  - intros [[[n' e'] v] [Heq Hin]]. cbn in Heq. inversion Heq; subst. eauto.
  - intros [v Hin]. exists (n, e, v). auto.
Qed.

Lemma from_name_spec_lem : forall d s v,
  accepted d = true -> enumerators_distinct d = true ->
  (from_name d s = Some v <-> exists ev, In ev (ed_values d) /\ ev_name ev = s /\ ev_value ev = v).
Proof.
  intros d s v Ha Hd. destruct (accepted_parts d Ha) as [_ [_ [Hnd Hne]]].
  unfold from_name, chain_lookup. split.
  - destruct (assoc (from_name_chain d) s) as [e|] eqn:E; [|discriminate].
    intros Hv. apply assoc_In in E. apply in_chain in E. destruct E as [v' Hin].
    rewrite (emission_enumerator_value d s e v' Hd Hin) in Hv. inversion Hv; subst.
    apply in_emission in Hin. destruct Hin as [ev [c [H1 [_ [H3 [_ H5]]]]]]. exists ev. auto.
  - intros [ev [Hev [Hn Hv]]]. subst.
    destruct (ev_cases ev) as [|c cs] eqn:Ec; [exfalso; exact (Hne ev Hev Ec)|].
    assert (In (ev_name ev, convert_case c (ev_name ev), ev_value ev) (emission d)) as Hin.
    { apply in_emission. exists ev, c. rewrite Ec. cbn. auto. }
    assert (In (ev_name ev, convert_case c (ev_name ev)) (from_name_chain d)) as Hch.
    { apply in_chain. eauto. }
    destruct (assoc_some_of_In _ _ _ Hch) as [e' He']. rewrite He'.
    apply assoc_In in He'. apply in_chain in He'. destruct He' as [v' Hin'].
    rewrite (emission_enumerator_value d _ e' v' Hd Hin').
    apply in_emission in Hin'. destruct Hin' as [ev' [c' [H1 [_ [H3 [_ H5]]]]]].
    assert (ev = ev') by (eapply (NoDup_map_inj_on ev_name); eauto). subst. reflexivity.
Qed.

Lemma from_name_none_lem : forall d s,
  accepted d = true -> enumerators_distinct d = true ->
  (from_name d s = None <-> forall ev, In ev (ed_values d) -> ev_name ev <> s).
Proof.
  intros d s Ha Hd. split.
  - intros H ev Hev Hn. assert (from_name d s = Some (ev_value ev)) as H'.
    { apply from_name_spec_lem; auto. exists ev. auto. }
    congruence.
  - intros H. destruct (from_name d s) as [v|] eqn:E; [|reflexivity].
    apply from_name_spec_lem in E; auto. destruct E as [ev [Hev [Hn _]]]. exfalso. exact (H ev Hev Hn).
Qed.

(* ------------------------------------------------------------------------- *)
(* TryToGetNameFromEnum / EnumIsKnown                                          *)
(* ------------------------------------------------------------------------- *)

(* first emitted entry having the value *)
Fixpoint first_with_value (l : list (string * string * Z)) (v : Z) : option string :=
  match l with
  | [] => None
  | (n, e, v0) :: t => if v0 =? v then Some n else first_with_value t v
  end.

Lemma switch_first_seen : forall es l seen v,
  (forall n e v0, In (n, e, v0) l -> enumerator_value es e = Some v0) ->
  switch_lookup es (first_seen seen l) v = if Z_mem v seen then None else first_with_value l v.
Proof.
  intros es. induction l as [|[[n e] v0] t IH]; intros seen v Hes.
  - cbn. destruct (Z_mem v seen); reflexivity.
  - assert (forall n e v0, In (n, e, v0) t -> enumerator_value es e = Some v0) as Hes'
        by (intros; eapply Hes; right; eauto).
    cbn [first_seen first_with_value]. destruct (Z_mem v0 seen) eqn:Em.
    + rewrite (IH seen v Hes'). destruct (Z_mem v seen) eqn:Ev; [reflexivity|].
      destruct (v0 =? v) eqn:E; [|reflexivity]. apply Z.eqb_eq in E. subst. congruence.
    + cbn [switch_lookup]. rewrite (Hes n e v0 (or_introl eq_refl)).
      destruct (v0 =? v) eqn:E.
      * apply Z.eqb_eq in E. subst. rewrite Em. reflexivity.
      * rewrite (IH (v0 :: seen) v Hes'). unfold Z_mem at 1. cbn [existsb]. fold (Z_mem v seen).
        rewrite Z.eqb_sym, E. reflexivity.
Qed.

Lemma first_with_value_app : forall l1 l2 v,
  first_with_value (l1 ++ l2) v =
  match first_with_value l1 v with Some n => Some n | None => first_with_value l2 v end.
Proof.
  induction l1 as [|[[n e] v0] t IH]; intros l2 v; [reflexivity|].
  cbn. destruct (v0 =? v); [reflexivity|apply IH].
Qed.

(* first declared value having the numeric value *)
Fixpoint first_declared (vals : list evalue) (v : Z) : option string :=
  match vals with
  | [] => None
  | ev :: t => if ev_value ev =? v then Some (ev_name ev) else first_declared t v
  end.

Lemma first_with_value_one : forall (ev : evalue) cs v,
  first_with_value (map (fun c => (ev_name ev, convert_case c (ev_name ev), ev_value ev)) cs) v =
  match cs with [] => None | _ => if ev_value ev =? v then Some (ev_name ev) else None end.
Proof.
  intros ev cs v. induction cs as [|c t IH]; [reflexivity|].
  cbn [map first_with_value]. destruct (ev_value ev =? v) eqn:E; [reflexivity|].
  rewrite IH. destruct t; reflexivity.
Qed.

Lemma first_with_value_emission : forall vals s b v,
  (forall ev, In ev vals -> ev_cases ev <> []) ->
  first_with_value (emission (mk_edecl vals s b)) v = first_declared vals v.
Proof.
  intros vals s b v. unfold emission. cbn [ed_values].
  induction vals as [|ev t IH]; intros Hne; [reflexivity|].
  cbn [flat_map first_declared]. rewrite first_with_value_app, first_with_value_one.
  destruct (ev_cases ev) eqn:Ec; [exfalso; exact (Hne ev (or_introl eq_refl) Ec)|].
  destruct (ev_value ev =? v); [reflexivity|]. apply IH. intros ev' H. apply Hne. right; exact H.
Qed.

Lemma first_declared_some : forall vals v n,
  first_declared vals v = Some n <->
  exists pre ev post, vals = pre ++ ev :: post /\ ev_name ev = n /\ ev_value ev = v /\
                      (forall e', In e' pre -> ev_value e' <> v).
Proof.
  induction vals as [|ev t IH]; intros v n.
  - cbn. split; [discriminate|]. intros [pre [ev [post [H _]]]]. destruct pre; discriminate.
  - cbn [first_declared]. destruct (ev_value ev =? v) eqn:E.
    + apply Z.eqb_eq in E. split.
      * intros H. inversion H; subst. exists [], ev, t. cbn. repeat split; auto; intros e' [].
      * intros [pre [ev' [post [Hl [Hn [Hv Hpre]]]]]]. destruct pre as [|p pre'].
        -- cbn in Hl. inversion Hl; subst. reflexivity.
        -- cbn in Hl. inversion Hl; subst. exfalso. apply (Hpre p (or_introl eq_refl)). reflexivity.
    + apply Z.eqb_neq in E. rewrite IH. split.
      * intros [pre [ev' [post [Hl [Hn [Hv Hpre]]]]]]. exists (ev :: pre), ev', post. subst. cbn.
        repeat split; auto. intros e' [He|He]; subst; auto.
      * intros [pre [ev' [post [Hl [Hn [Hv Hpre]]]]]]. destruct pre as [|p pre'].
        -- cbn in Hl. inversion Hl; subst. contradiction.
        -- cbn in Hl. inversion Hl; subst. exists pre', ev', post. repeat split; auto.
           intros e' He. apply Hpre. right; exact He.
Qed.

Lemma first_declared_none : forall vals v,
  first_declared vals v = None <-> (forall ev, In ev vals -> ev_value ev <> v).
Proof.
  induction vals as [|ev t IH]; intros v; cbn.
  - split; [intros _ ev []|reflexivity].
  - destruct (ev_value ev =? v) eqn:E.
    + apply Z.eqb_eq in E. split; [discriminate|]. intros H. exfalso. exact (H ev (or_introl eq_refl) E).
    + apply Z.eqb_neq in E. rewrite IH. split.
      * intros H e' [He|He]; subst; auto.
      * intros H e' He. apply H. right; exact He.
Qed.

Lemma to_name_first_declared : forall d v,
  accepted d = true -> enumerators_distinct d = true -> to_name d v = first_declared (ed_values d) v.
Proof.
  intros d v Ha Hd. destruct (accepted_parts d Ha) as [_ [_ [_ Hne]]].
  unfold to_name, switch_cases. rewrite switch_first_seen.
  - cbn. destruct d as [vals s b]. apply first_with_value_emission. exact Hne.
  - intros n e v0 Hin. eapply emission_enumerator_value; eauto.
Qed.

Lemma to_name_first_lem : forall d v n,
  accepted d = true -> enumerators_distinct d = true ->
  (to_name d v = Some n <->
   exists pre ev post, ed_values d = pre ++ ev :: post /\ ev_name ev = n /\ ev_value ev = v /\
                       (forall e', In e' pre -> ev_value e' <> v)).
Proof. intros d v n Ha Hd. rewrite to_name_first_declared by assumption. apply first_declared_some. Qed.

Lemma to_name_none_lem : forall d v,
  accepted d = true -> enumerators_distinct d = true ->
  (to_name d v = None <-> forall ev, In ev (ed_values d) -> ev_value ev <> v).
Proof. intros d v Ha Hd. rewrite to_name_first_declared by assumption. apply first_declared_none. Qed.

Lemma switch_lookup_unit : forall {A} es (cases : list (string * A)) v,
  switch_lookup es (map (fun c => (fst c, tt)) cases) v =
  match switch_lookup es cases v with Some _ => Some tt | None => None end.
Proof.
  intros A es. induction cases as [|[l p] t IH]; intros v; [reflexivity|].
  cbn. destruct (enumerator_value es l) as [lv|]; [|apply IH].
  destruct (lv =? v); [reflexivity|apply IH].
Qed.

Lemma is_known_iff_declared_lem : forall d v,
  accepted d = true -> enumerators_distinct d = true ->
  (is_known d v = true <-> exists ev, In ev (ed_values d) /\ ev_value ev = v).
Proof.
  intros d v Ha Hd. unfold is_known. rewrite switch_lookup_unit. fold (to_name d v).
  destruct (to_name d v) as [n|] eqn:E.
  - split; [|reflexivity]. intros _. apply to_name_first_lem in E; auto.
    destruct E as [pre [ev [post [Hl [_ [Hv _]]]]]]. exists ev. split; [|exact Hv].
    rewrite Hl. apply in_or_app. right. left. reflexivity.
  - split; [discriminate|]. intros [ev [Hev Hv]]. exfalso.
    apply (proj1 (to_name_none_lem d v Ha Hd) E ev Hev Hv).
Qed.

Lemma send_to_ostream_lem : forall d v,
  accepted d = true -> enumerators_distinct d = true ->
  send_to_ostream d v = match first_declared (ed_values d) v with Some n => inl n | None => inr v end.
Proof. intros d v Ha Hd. unfold send_to_ostream. rewrite to_name_first_declared by assumption. reflexivity. Qed.

(* the emitted switch has no two labels of equal value (it is well-formed C++) *)
Lemma first_seen_labels : forall es l seen,
  (forall n e v0, In (n, e, v0) l -> enumerator_value es e = Some v0) ->
  NoDup (label_values es (map fst (first_seen seen l))) /\
  (forall x, In x (label_values es (map fst (first_seen seen l))) -> exists v, x = Some v /\ Z_mem v seen = false).
Proof.
  intros es. induction l as [|[[n e] v0] t IH]; intros seen Hes.
  - cbn. split; [constructor|intros x []].
  - assert (forall n e v0, In (n, e, v0) t -> enumerator_value es e = Some v0) as Hes'
        by (intros; eapply Hes; right; eauto).
    cbn [first_seen]. destruct (Z_mem v0 seen) eqn:Em; [apply IH; exact Hes'|].
    destruct (IH (v0 :: seen) Hes') as [Hnd Hall]. unfold label_values in *. cbn [map fst].
    rewrite (Hes n e v0 (or_introl eq_refl)). split.
    + constructor; [|exact Hnd]. intros Hin. destruct (Hall _ Hin) as [v [Hv Hm]]. inversion Hv; subst.
      unfold Z_mem in Hm. cbn in Hm. rewrite Z.eqb_refl in Hm. discriminate.
    + intros x [Hx|Hx]; [subst; eauto|]. destruct (Hall _ Hx) as [v [Hv Hm]]. exists v. split; [exact Hv|].
      unfold Z_mem in Hm. cbn in Hm. apply orb_false_iff in Hm. exact (proj2 Hm).
Qed.

Lemma switch_labels_distinct_lem : forall d,
  enumerators_distinct d = true ->
  NoDup (label_values (enumerators d) (map fst (switch_cases d))).
Proof.
  intros d Hd. unfold switch_cases. apply first_seen_labels.
  intros n e v0 Hin. eapply emission_enumerator_value; eauto.
Qed.

(* ------------------------------------------------------------------------- *)
(* attribute inference                                                         *)
(* ------------------------------------------------------------------------- *)

Lemma infer_signed_lem : forall vals a, at_signed a = None ->
  (ed_signed (infer vals a) = true <-> exists ev, In ev vals /\ ev_value ev < 0).
Proof.
  intros vals a H. unfold infer. cbn. rewrite H, existsb_exists. split.
  - intros [ev [H1 H2]]. apply Z.ltb_lt in H2. eauto.
  - intros [ev [H1 H2]]. exists ev. split; [exact H1|]. apply Z.ltb_lt. exact H2.
Qed.

Lemma infer_explicit_lem : forall vals s b,
  infer vals (mk_eattrs (Some s) (Some b)) = mk_edecl vals s b.
Proof. reflexivity. Qed.

Lemma infer_default_bits_lem : forall vals a, at_bits a = None -> ed_bits (infer vals a) = 64.
Proof. intros vals a H. unfold infer. cbn. rewrite H. reflexivity. Qed.

(* with no attributes an enum is representable iff all values fit uint64_t, or
   some value is negative and all fit int64_t *)
Lemma infer_default_representable_lem : forall vals,
  representable (infer vals (mk_eattrs None None)) = true <->
  ((forall ev, In ev vals -> 0 <= ev_value ev <= 2 ^ 64 - 1) \/
   ((exists ev, In ev vals /\ ev_value ev < 0) /\ forall ev, In ev vals -> - 2 ^ 63 <= ev_value ev <= 2 ^ 63 - 1)).
Proof.
  intros vals. rewrite representable_iff_lem. cbn [ed_values ed_signed ed_bits infer at_signed at_bits].
  unfold default_maximum_bits.
  destruct (existsb (fun ev => ev_value ev <? 0) vals) eqn:E.
  - apply existsb_exists in E. destruct E as [ev0 [H0 Hneg]]. apply Z.ltb_lt in Hneg. split.
    + intros H. right. split; [eauto|]. intros ev Hev. specialize (H ev Hev). apply in_range_iff in H.
      cbn in H. change (64 - 1) with 63 in H. exact H.
    + intros [H|[_ H]] ev Hev.
      * specialize (H ev0 H0). lia.
      * apply in_range_iff. cbn. change (64 - 1) with 63. exact (H ev Hev).
  - assert (forall ev, In ev vals -> 0 <= ev_value ev) as Hnn.
    { intros ev Hev. destruct (Z.ltb_spec (ev_value ev) 0) as [Hlt|Hge]; [|exact Hge].
      exfalso. assert (existsb (fun ev => ev_value ev <? 0) vals = true) as X.
      { apply existsb_exists. exists ev. split; [exact Hev|apply Z.ltb_lt; exact Hlt]. }
      congruence. }
    split.
    + intros H. left. intros ev Hev. specialize (H ev Hev). apply in_range_iff in H. cbn in H. exact H.
    + intros [H|[[ev0 [H0 Hneg]] _]] ev Hev.
      * apply in_range_iff. cbn. exact (H ev Hev).
      * specialize (Hnn ev0 H0). lia.
Qed.

(* ------------------------------------------------------------------------- *)
(* enum fields                                                                 *)
(* ------------------------------------------------------------------------- *)

Lemma enum_field_static_assert_lem : forall d t k,
  width_ok d = true -> field_size_ok d k = true ->
  underlying_type (ed_bits d) (ed_signed d) = Some t -> 1 <= k <= ct_bits t.
Proof.
  intros d t k Hw Hk Hu. destruct (underlying_fits_lem d t Hw Hu) as [_ [_ [Hle _]]].
  unfold field_size_ok in Hk. apply andb_true_iff in Hk. destruct Hk as [H1 H2].
  apply Z.leb_le in H1, H2. lia.
Qed.

Lemma wrap_unsigned : forall w v, wrap (mk_ctype false w) v = v mod 2 ^ w.
Proof. reflexivity. Qed.

Lemma pow2_pos : forall n, 0 <= n -> 0 < 2 ^ n.
Proof. intros n H. apply Z.pow_pos_nonneg; lia. Qed.

Lemma field_unsigned_lem : forall w k bw v,
  1 <= k -> k <= w -> k <= bw -> 0 <= v <= 2 ^ w - 1 ->
  could_write (mk_ctype false w) k bw v = in_range (field_range false k) v /\
  (could_write (mk_ctype false w) k bw v = true ->
   read_raw (mk_ctype false w) (write_raw k bw v) = v).
Proof.
  intros w k bw v Hk Hkw Hkb Hv.
  assert (0 < 2 ^ k) by (apply pow2_pos; lia).
  assert (0 < 2 ^ w) by (apply pow2_pos; lia).
  assert (0 < 2 ^ bw) by (apply pow2_pos; lia).
  assert (2 ^ k <= 2 ^ w) by (apply Z.pow_le_mono_r; lia).
  assert (2 ^ k <= 2 ^ bw) by (apply Z.pow_le_mono_r; lia).
  unfold could_write, write_raw, read_raw, field_range, range_of, in_range. rewrite !wrap_unsigned. cbn [fst snd].
  destruct (Z.lt_ge_cases v (2 ^ k)) as [Hlt|Hge].
  - rewrite (Z.mod_small v (2 ^ bw)) by lia. rewrite (Z.mod_small v (2 ^ w)) by lia.
    rewrite (Z.mod_small v (2 ^ k)) by lia. rewrite (Z.mod_small v (2 ^ w)) by lia.
    rewrite Z.eqb_refl. split; [|reflexivity].
    assert (v <? 2 ^ k = true) as -> by (apply Z.ltb_lt; lia). rewrite orb_true_r.
    symmetry. apply andb_true_iff. split; apply Z.leb_le; lia.
  - assert (((0 <=? v) && (v <=? 2 ^ k - 1)) = false) as Hr.
    { apply andb_false_iff. right. apply Z.leb_gt. lia. }
    rewrite Hr.
    assert ((v =? (v mod 2 ^ bw) mod 2 ^ w) && ((k =? bw) || (v mod 2 ^ bw <? 2 ^ k)) = false) as Hf.
    { pose proof (Z.mod_pos_bound v (2 ^ bw) ltac:(lia)) as Hb.
      pose proof (Z.mod_le (v mod 2 ^ bw) (2 ^ w) ltac:(lia) ltac:(lia)) as Hm.
      destruct (v =? (v mod 2 ^ bw) mod 2 ^ w) eqn:Ea; [|reflexivity]. apply Z.eqb_eq in Ea. cbn.
      apply orb_false_iff. split.
      - apply Z.eqb_neq. intros ->. lia.
      - apply Z.ltb_ge. lia. }
    rewrite Hf. split; [reflexivity|discriminate].
Qed.

Lemma field_signed_full_lem : forall w v,
  1 <= w -> - 2 ^ (w - 1) <= v <= 2 ^ (w - 1) - 1 ->
  could_write (mk_ctype true w) w w v = true /\ read_raw (mk_ctype true w) (write_raw w w v) = v.
Proof.
  intros w v Hw Hv.
  assert (0 < 2 ^ (w - 1)) by (apply pow2_pos; lia).
  assert (2 ^ w = 2 * 2 ^ (w - 1)) as Hp.
  { replace w with (1 + (w - 1)) at 1 by lia. rewrite Z.pow_add_r by lia. reflexivity. }
  assert (wrap (mk_ctype true w) (v mod 2 ^ w) = v) as Hwrap.
  { unfold wrap. cbn [ct_signed ct_bits]. rewrite Z.mod_mod by lia.
    destruct (Z.lt_ge_cases v 0) as [Hneg|Hpos].
    - assert (v mod 2 ^ w = v + 2 ^ w) as ->.
      { symmetry. apply (Z.mod_unique_pos v (2 ^ w) (-1)); lia. }
      assert (v + 2 ^ w <? 2 ^ (w - 1) = false) as -> by (apply Z.ltb_ge; lia). lia.
    - rewrite (Z.mod_small v) by lia.
      assert (v <? 2 ^ (w - 1) = true) as -> by (apply Z.ltb_lt; lia). reflexivity. }
  unfold could_write, write_raw, read_raw. rewrite wrap_unsigned. rewrite Z.mod_mod by lia.
  rewrite Hwrap, !Z.eqb_refl. auto.
Qed.

(* the F1 class: a signed enum in a field narrower than its bit block *)
Lemma field_signed_narrow_lem : forall w k bw v,
  1 <= k -> k < bw -> w <= bw -> - 2 ^ (k - 1) <= v < 0 -> - 2 ^ (w - 1) <= v ->
  could_write (mk_ctype true w) k bw v = false.
Proof.
  intros w k bw v Hk Hkb Hwb Hv Hvw.
  assert (0 < 2 ^ k) by (apply pow2_pos; lia).
  assert (0 < 2 ^ (k - 1)) by (apply pow2_pos; lia).
  assert (2 ^ k = 2 * 2 ^ (k - 1)) as Hp.
  { replace k with (1 + (k - 1)) at 1 by lia. rewrite Z.pow_add_r by lia. reflexivity. }
  assert (2 * 2 ^ k <= 2 ^ bw).
  { replace bw with (1 + (bw - 1)) by lia. rewrite Z.pow_add_r by lia. change (2 ^ 1) with 2.
    assert (2 ^ k <= 2 ^ (bw - 1)) by (apply Z.pow_le_mono_r; lia). lia. }
  unfold could_write. rewrite wrap_unsigned.
  assert (v mod 2 ^ bw = v + 2 ^ bw) as ->.
  { symmetry. apply (Z.mod_unique_pos v (2 ^ bw) (-1)); lia. }
  apply andb_false_iff. right. apply orb_false_iff. split.
  - apply Z.eqb_neq. lia.
  - apply Z.ltb_ge. lia.
Qed.

(* ------------------------------------------------------------------------- *)
(* enum_case attribute                                                         *)
(* ------------------------------------------------------------------------- *)

Lemma parse_case_inj : forall a b k, parse_case a = Some k -> parse_case b = Some k -> a = b.
Proof.
  intros a b k. unfold parse_case.
  destruct (String.eqb a "SHOUTY_CASE") eqn:A1; [apply String.eqb_eq in A1|destruct (String.eqb a "kCamelCase") eqn:A2; [apply String.eqb_eq in A2|discriminate]];
  (destruct (String.eqb b "SHOUTY_CASE") eqn:B1; [apply String.eqb_eq in B1|destruct (String.eqb b "kCamelCase") eqn:B2; [apply String.eqb_eq in B2|intros; discriminate]]);
  intros H1 H2; inversion H1; subst; inversion H2; subst; reflexivity || discriminate.
Qed.

Lemma verify_cases_ok : forall l seen,
  verify_cases_from seen l = [] ->
  exists ks, parse_cases l = Some ks /\ List.length ks = List.length l /\ NoDup l /\
             (forall c, In c l -> ~ In c seen).
Proof.
  induction l as [|c t IH]; intros seen H.
  - exists []. cbn. repeat split; auto. constructor.
  - cbn in H. destruct (String.eqb c EmptyString); [discriminate|].
    destruct (existsb (String.eqb c) seen) eqn:Es; [discriminate|].
    destruct (parse_case c) as [k|] eqn:Ep; [|discriminate].
    destruct (IH (c :: seen) H) as [ks [Hp [Hl [Hnd Hns]]]].
    exists (k :: ks). cbn. rewrite Ep, Hp. repeat split; auto.
    + constructor; [|exact Hnd]. intros Hin. apply (Hns c Hin). left; reflexivity.
    + intros c' [Hc|Hc] Hin.
      * subst c'. assert (existsb (String.eqb c) seen = true) as X.
        { apply existsb_exists. exists c. split; [exact Hin|apply String.eqb_refl]. }
        congruence.
      * apply (Hns c' Hc). right; exact Hin.
Qed.

Lemma parse_cases_NoDup : forall l ks, parse_cases l = Some ks -> NoDup l -> NoDup ks.
Proof.
  induction l as [|c t IH]; intros ks H Hnd.
  - cbn in H. inversion H. constructor.
  - cbn in H. destruct (parse_case c) as [k|] eqn:Ep; [|discriminate].
    destruct (parse_cases t) as [ks'|] eqn:Et; [|discriminate]. inversion H; subst.
    inversion Hnd as [|? ? Hnotin Hnd']; subst. constructor; [|apply IH; auto].
    intros Hin. apply Hnotin. clear - Hin Et Ep.
    revert ks' Et Hin. induction t as [|c' t' IHt]; intros ks' Et Hin.
    + cbn in Et. inversion Et; subst. destruct Hin.
    + cbn in Et. destruct (parse_case c') as [k'|] eqn:Ep'; [|discriminate].
      destruct (parse_cases t') as [ks''|] eqn:Et'; [|discriminate]. inversion Et; subst.
      destruct Hin as [Hk|Hin].
      * subst k'. left. eapply parse_case_inj; eauto.
      * right. eapply IHt; eauto.
Qed.

Lemma split_enum_case_values_nonempty : forall v, split_enum_case_values v <> [].
Proof.
  intros v. unfold split_enum_case_values. pose proof (split_on_nonempty comma v) as H.
  destruct (split_on comma v) as [|p [|q r]]; [contradiction|cbn; discriminate|].
  destruct (all_space _); [|cbn; discriminate].
  cbn [map]. cbn [removelast]. destruct (map trim r); discriminate.
Qed.

Lemma cases_of_attribute_ok_lem : forall attr ks,
  cases_of_attribute attr = Some ks -> ks <> [] /\ NoDup ks.
Proof.
  intros [v|] ks H; cbn in H.
  - unfold verify_cases in H. destruct (verify_cases_from [] (split_enum_case_values v)) eqn:Ev; [|discriminate].
    destruct (verify_cases_ok _ _ Ev) as [ks' [Hp [Hl [Hnd _]]]]. rewrite Hp in H. inversion H; subst. split.
    + intros ->. cbn in Hl. pose proof (split_enum_case_values_nonempty v) as Hn.
      destruct (split_enum_case_values v); [contradiction|discriminate].
    + eapply parse_cases_NoDup; eauto.
  - inversion H; subst. split; [discriminate|]. constructor; [intros []|constructor].
Qed.

(* ------------------------------------------------------------------------- *)
(* distinct enumerators: refuted in general (F5), true on letter-boundary names *)
(* ------------------------------------------------------------------------- *)

Lemma NoDup_app_intro : forall {A} (l1 l2 : list A),
  NoDup l1 -> NoDup l2 -> (forall a, In a l1 -> ~ In a l2) -> NoDup (l1 ++ l2).
Proof.
  intros A. induction l1 as [|x t IH]; intros l2 H1 H2 Hd; [exact H2|].
  inversion H1 as [|? ? Hnotin H1']; subst. cbn. constructor.
  - intros Hin. apply in_app_or in Hin. destruct Hin as [Hin|Hin]; [contradiction|].
    apply (Hd x (or_introl eq_refl) Hin).
  - apply IH; auto. intros a Ha. apply Hd. right; exact Ha.
Qed.

Lemma NoDup_flat_map : forall {A B} (f : A -> list B) (l : list A),
  NoDup l -> (forall x, In x l -> NoDup (f x)) ->
  (forall x y a, In x l -> In y l -> In a (f x) -> In a (f y) -> x = y) ->
  NoDup (flat_map f l).
Proof.
  intros A B f. induction l as [|x t IH]; intros Hnd Hf Hdisj; [constructor|].
  inversion Hnd as [|? ? Hnotin Hnd']; subst. cbn [flat_map]. apply NoDup_app_intro.
  - apply Hf. left; reflexivity.
  - apply IH; auto.
    + intros y Hy. apply Hf. right; exact Hy.
    + intros y z a Hy Hz. apply Hdisj; right; assumption.
  - intros a Ha Hin. apply in_flat_map in Hin. destruct Hin as [y [Hy Hay]].
    assert (x = y) by (eapply Hdisj; eauto; [left; reflexivity|right; exact Hy]).
    subst. contradiction.
Qed.

Lemma enumerator_names_flat_map : forall d,
  map fst (enumerators d) =
  flat_map (fun ev => map (fun c => convert_case c (ev_name ev)) (ev_cases ev)) (ed_values d).
Proof.
  intros [vals s b]. unfold enumerators, emission. cbn [ed_values]. rewrite map_map. cbn [fst snd].
  induction vals as [|ev t IH]; [reflexivity|].
  cbn [flat_map]. rewrite map_app, IH, map_map. reflexivity.
Qed.

Lemma convert_case_same_name : forall c1 c2 s,
  letter_boundaries s = true -> convert_case c1 s = convert_case c2 s -> c1 = c2.
Proof.
  intros [|] [|] s Hs H; auto; exfalso.
  - exact (shouty_ne_kcamel_lem s s Hs H).
  - exact (shouty_ne_kcamel_lem s s Hs (eq_sym H)).
Qed.

Lemma enumerators_distinct_partial_lem : forall d,
  accepted d = true ->
  (forall ev, In ev (ed_values d) -> letter_boundaries (ev_name ev) = true /\ NoDup (ev_cases ev)) ->
  enumerators_distinct d = true.
Proof.
  intros d Ha Hg. destruct (accepted_parts d Ha) as [_ [_ [Hnd _]]].
  unfold enumerators_distinct. apply strings_distinct_NoDup. rewrite enumerator_names_flat_map.
  apply NoDup_flat_map.
  - eapply NoDup_map_inv. exact Hnd.
  - intros ev Hev. destruct (Hg ev Hev) as [Hl Hc].
    clear - Hl Hc. induction (ev_cases ev) as [|c t IH]; [constructor|].
    inversion Hc as [|? ? Hnotin Hc']; subst. cbn. constructor; [|apply IH; exact Hc'].
    intros Hin. apply in_map_iff in Hin. destruct Hin as [c' [Heq Hc'in]].
    apply (convert_case_same_name c' c _ Hl) in Heq. subst. contradiction.
  - intros x y a Hx Hy Hax Hay. apply in_map_iff in Hax, Hay.
    destruct Hax as [c1 [E1 _]], Hay as [c2 [E2 _]]. subst a.
    destruct (Hg x Hx) as [Lx _], (Hg y Hy) as [Ly _].
    assert (ev_name x = ev_name y) as Hn.
    { destruct c1, c2.
      - exact (eq_sym E2).
      - exfalso. exact (shouty_ne_kcamel_lem _ _ Lx (eq_sym E2)).
      - exfalso. exact (shouty_ne_kcamel_lem _ _ Ly E2).
      - symmetry. apply (convert_case_injective_lem KCamel); auto. }
    eapply (NoDup_map_inj_on ev_name); eauto.
Qed.

(* witnesses *)
Definition f5_enum : edecl :=
  mk_edecl [mk_evalue "AB_1" 1 [KCamel]; mk_evalue "AB1" 2 [KCamel]] false 64.

Lemma enumerators_distinct_refuted_lem :
  exists d, accepted d = true /\ enumerators_distinct d = false /\
            exists a b, In a (ed_values d) /\ In b (ed_values d) /\ ev_name a <> ev_name b /\
                        convert_case KCamel (ev_name a) = convert_case KCamel (ev_name b).
Proof.
  exists f5_enum. split; [reflexivity|]. split; [reflexivity|].
  exists (mk_evalue "AB_1" 1 [KCamel]), (mk_evalue "AB1" 2 [KCamel]).
  repeat split; cbn; auto. discriminate.
Qed.

(* field_accepts_in_range: refuted for a signed enum in a narrow field (F1) *)
Lemma field_accepts_in_range_refuted_lem :
  exists t k bw v,
    In (ct_bits t) [8; 16; 32; 64] /\ 1 <= k <= ct_bits t /\ bw = least_width k /\
    in_range (ctype_range t) v = true /\ in_range (field_range (ct_signed t) k) v = true /\
    could_write t k bw v = false.
Proof.
  exists (mk_ctype true 8), 4, 8, (-1). cbn. repeat split; auto; lia.
Qed.

Lemma field_read_refuted_lem :
  exists t k raw,
    In (ct_bits t) [8; 16; 32; 64] /\ 1 <= k <= ct_bits t /\ 0 <= raw < 2 ^ k /\
    in_range (field_range (ct_signed t) k) (read_raw t raw) = false.
Proof.
  exists (mk_ctype true 8), 4, 15. cbn. repeat split; auto; lia.
Qed.

Lemma field_accepts_in_range_partial_lem : forall t k bw v,
  1 <= k -> k <= ct_bits t -> k <= bw ->
  (ct_signed t = false \/ (k = bw /\ k = ct_bits t)) ->
  in_range (ctype_range t) v = true ->
  could_write t k bw v = in_range (field_range (ct_signed t) k) v /\
  (could_write t k bw v = true -> read_raw t (write_raw k bw v) = v).
Proof.
  intros [s w] k bw v Hk Hkw Hkb Hg Hv. cbn [ct_signed ct_bits] in *.
  apply in_range_iff in Hv. unfold ctype_range, range_of in Hv. cbn [ct_signed ct_bits] in Hv.
  destruct Hg as [->|[-> ->]].
  - cbn [fst snd] in Hv. apply field_unsigned_lem; auto.
  - destruct s.
    + cbn [fst snd] in Hv. destruct (field_signed_full_lem w v Hk Hv) as [H1 H2]. split; [|intros _; exact H2].
      rewrite H1. symmetry. apply in_range_iff. unfold field_range, range_of. cbn [fst snd]. exact Hv.
    + cbn [fst snd] in Hv. apply field_unsigned_lem; auto; lia.
Qed.

(* non-vacuity: an accepted enum with duplicates, negatives, both cases *)
Definition sample_enum : edecl :=
  mk_edecl [mk_evalue "NEG_ONE" (-1) [Shouty; KCamel]; mk_evalue "ZERO_VALUE" 0 [KCamel];
            mk_evalue "ALSO_ZERO" 0 [Shouty]; mk_evalue "BIG_VALUE" 127 [Shouty]] true 8.

Lemma sample_enum_ok :
  accepted sample_enum = true /\ enumerators_distinct sample_enum = true /\
  underlying_type (ed_bits sample_enum) (ed_signed sample_enum) = Some (mk_ctype true 8) /\
  enumerators sample_enum = [("NEG_ONE"%string, -1); ("kNegOne"%string, -1); ("kZeroValue"%string, 0);
                             ("ALSO_ZERO"%string, 0); ("BIG_VALUE"%string, 127)] /\
  from_name sample_enum "ALSO_ZERO" = Some 0 /\ from_name sample_enum "kZeroValue" = None /\
  to_name sample_enum 0 = Some "ZERO_VALUE"%string /\ to_name sample_enum 1 = None /\
  is_known sample_enum (-1) = true /\ is_known sample_enum 5 = false.
Proof. vm_compute. repeat split; reflexivity. Qed.
