(* C19 — proofs about the enum model. *)
From Coq Require Import ZArith NArith List Bool String Ascii Lia.
Import ListNotations.
Require Import EmbossV.Enum.Model.
Open Scope Z_scope.

(* ------------------------------------------------------------------------- *)
(* generic list / string facts                                                 *)
(* ------------------------------------------------------------------------- *)

Lemma string_mem_In : forall s l, string_mem s l = true <-> In s l.
Proof.
  induction l as [|x t IH]; cbn; [split; [discriminate|tauto]|].
  rewrite orb_true_iff, IH, String.eqb_eq. split; intros [H|H]; auto.
Qed.

Lemma strings_distinct_NoDup : forall l, strings_distinct l = true <-> NoDup l.
Proof.
  induction l as [|x t IH]; cbn; [split; [constructor|reflexivity]|].
  rewrite andb_true_iff, negb_true_iff, IH. split.
  - intros [H1 H2]. constructor; [|exact H2]. rewrite <- string_mem_In. rewrite H1. discriminate.
  - intros H. inversion H; subst. split; [|assumption].
    destruct (string_mem x t) eqn:E; [|reflexivity]. apply string_mem_In in E. contradiction.
Qed.

Lemma NoDup_map_inj_on : forall {A B} (f : A -> B) (l : list A) a b,
  NoDup (map f l) -> In a l -> In b l -> f a = f b -> a = b.
Proof.
  induction l as [|x t IH]; cbn; intros a b Hnd Ha Hb Hf; [contradiction|].
  inversion Hnd as [|? ? Hnotin Hnd']; subst.
  destruct Ha as [Ha|Ha], Hb as [Hb|Hb]; subst.
  - reflexivity.
  - exfalso. apply Hnotin. rewrite Hf. apply in_map. exact Hb.
  - exfalso. apply Hnotin. rewrite <- Hf. apply in_map. exact Ha.
  - eapply IH; eauto.
Qed.

Lemma assoc_In : forall {A} (l : list (string * A)) k v, assoc l k = Some v -> In (k, v) l.
Proof.
  induction l as [|[n x] t IH]; cbn; intros k v H; [discriminate|].
  destruct (String.eqb n k) eqn:E.
  - apply String.eqb_eq in E. inversion H; subst. left; reflexivity.
  - right. apply IH. exact H.
Qed.

Lemma assoc_None : forall {A} (l : list (string * A)) k, assoc l k = None <-> (forall v, ~ In (k, v) l).
Proof.
  induction l as [|[n x] t IH]; cbn; intros k.
  - split; [intros _ v H; exact H|reflexivity].
  - destruct (String.eqb n k) eqn:E.
    + apply String.eqb_eq in E. subst. split; [discriminate|]. intros H. exfalso. apply (H x). left; reflexivity.
    + apply String.eqb_neq in E. rewrite IH. split.
      * intros H v [Hv|Hv]; [inversion Hv; subst; congruence|exact (H v Hv)].
      * intros H v Hv. apply (H v). right; exact Hv.
Qed.

Lemma assoc_some_of_In : forall {A} (l : list (string * A)) k v, In (k, v) l -> exists v', assoc l k = Some v'.
Proof.
  intros A l k v H. destruct (assoc l k) eqn:E; [eauto|].
  exfalso. rewrite assoc_None in E. exact (E v H).
Qed.

Lemma assoc_NoDup : forall {A} (l : list (string * A)) k v,
  NoDup (map fst l) -> In (k, v) l -> assoc l k = Some v.
Proof.
  induction l as [|[n x] t IH]; cbn; intros k v Hnd Hin; [contradiction|].
  inversion Hnd as [|? ? Hnotin Hnd']; subst.
  destruct Hin as [Hin|Hin].
  - inversion Hin; subst. rewrite String.eqb_refl. reflexivity.
  - destruct (String.eqb n k) eqn:E.
    + apply String.eqb_eq in E. subst. exfalso. apply Hnotin.
      change k with (fst (k, v)). apply in_map. exact Hin.
    + apply IH; assumption.
Qed.

Lemma filter_nil_iff : forall {A} (f : A -> bool) l, filter f l = [] <-> (forall x, In x l -> f x = false).
Proof.
  induction l as [|x t IH]; cbn; [split; [intros _ y H; contradiction|reflexivity]|].
  destruct (f x) eqn:E.
  - split; [discriminate|]. intros H. rewrite (H x (or_introl eq_refl)) in E. discriminate.
  - rewrite IH. split.
    + intros H y [Hy|Hy]; subst; auto.
    + intros H y Hy. apply H. right; exact Hy.
Qed.

Lemma Z_mem_In : forall v l, Z_mem v l = true <-> In v l.
Proof.
  intros v l. unfold Z_mem. rewrite existsb_exists. split.
  - intros [x [Hx He]]. apply Z.eqb_eq in He. subst. exact Hx.
  - intros H. exists v. split; [exact H|apply Z.eqb_refl].
Qed.

(* ------------------------------------------------------------------------- *)
(* characters                                                                  *)
(* ------------------------------------------------------------------------- *)

Ltac all_chars c :=
  destruct c as [b0 b1 b2 b3 b4 b5 b6 b7];
  destruct b0, b1, b2, b3, b4, b5, b6, b7.

Lemma to_upper_not_underscore : forall c, c <> underscore -> to_upper c <> underscore.
Proof. intros c; all_chars c; vm_compute; congruence. Qed.

Lemma to_lower_not_underscore : forall c, c <> underscore -> to_lower c <> underscore.
Proof. intros c; all_chars c; vm_compute; congruence. Qed.

Lemma upper_to_upper : forall c, is_upper c = true -> to_upper c = c.
Proof. intros c; all_chars c; vm_compute; congruence. Qed.

Lemma upper_lower_roundtrip : forall c, is_upper c = true ->
  is_upper (to_lower c) = false /\ to_upper (to_lower c) = c.
Proof. intros c; all_chars c; vm_compute; intros H; try discriminate H; split; reflexivity. Qed.

Lemma digit_fixed : forall c, is_digit c = true ->
  is_upper c = false /\ to_lower c = c /\ to_upper c = c.
Proof. intros c; all_chars c; vm_compute; intros H; try discriminate H; repeat split; reflexivity. Qed.

Lemma upper_not_underscore : forall c, is_upper c = true -> Ascii.eqb c underscore = false.
Proof. intros c; all_chars c; vm_compute; congruence. Qed.

Lemma digit_not_underscore : forall c, is_digit c = true -> Ascii.eqb c underscore = false.
Proof. intros c; all_chars c; vm_compute; congruence. Qed.

(* ------------------------------------------------------------------------- *)
(* snake_to_camel                                                              *)
(* ------------------------------------------------------------------------- *)

Lemma split_on_nonempty : forall sep s, split_on sep s <> [].
Proof.
  intros sep s. destruct s as [|c r]; cbn; [discriminate|].
  destruct (Ascii.eqb c sep); [discriminate|]. destruct (split_on sep r); discriminate.
Qed.

Lemma append_String : forall c a b, (String c a ++ b)%string = String c (a ++ b)%string.
Proof. reflexivity. Qed.

Lemma camel_scan_split : forall r,
  match split_on underscore r with
  | w :: ws =>
      camel_scan false r = (map_string to_lower w ++ concat_strings (map capitalize ws))%string /\
      camel_scan true r = (capitalize w ++ concat_strings (map capitalize ws))%string
  | [] => False
  end.
Proof.
  induction r as [|c r IH]; [cbn; split; reflexivity|].
  cbn [split_on camel_scan]. destruct (Ascii.eqb c underscore) eqn:E.
  - destruct (split_on underscore r) as [|w ws]; [contradiction|]. destruct IH as [_ IH2].
    cbn [map concat_strings capitalize map_string]. cbn [append]. split; exact IH2.
  - destruct (split_on underscore r) as [|w ws]; [contradiction|]. destruct IH as [IH1 _].
    cbn [capitalize map_string]. rewrite !append_String. rewrite IH1. split; reflexivity.
Qed.

Lemma snake_to_camel_scan_lem : forall s, snake_to_camel s = camel_scan true s.
Proof.
  intros s. unfold snake_to_camel. pose proof (camel_scan_split s) as H.
  destruct (split_on underscore s) as [|w ws]; [contradiction|].
  destruct H as [_ H]. cbn [map concat_strings]. symmetry. exact H.
Qed.

Lemma camel_scan_no_underscore : forall s b, ~ string_In underscore (camel_scan b s).
Proof.
  induction s as [|c r IH]; intros b; cbn; [tauto|].
  destruct (Ascii.eqb c underscore) eqn:E; [apply IH|].
  apply Ascii.eqb_neq in E. cbn. intros [H|H]; [|exact (IH _ H)].
  destruct b; [exact (to_upper_not_underscore c E H)|exact (to_lower_not_underscore c E H)].
Qed.

Lemma snake_to_camel_no_underscore_lem : forall s, ~ string_In underscore (snake_to_camel s).
Proof. intros s. rewrite snake_to_camel_scan_lem. apply camel_scan_no_underscore. Qed.

Lemma camel_scan_length : forall s b,
  (String.length (camel_scan b s) + count_char underscore s = String.length s)%nat.
Proof.
  induction s as [|c r IH]; intros b; cbn [camel_scan count_char String.length]; [reflexivity|].
  destruct (Ascii.eqb c underscore).
  - specialize (IH true). lia.
  - cbn [String.length]. specialize (IH false). lia.
Qed.

Lemma snake_to_camel_length_lem : forall s,
  (String.length (snake_to_camel s) + count_char underscore s = String.length s)%nat.
Proof. intros s. rewrite snake_to_camel_scan_lem. apply camel_scan_length. Qed.

Lemma unscan_camel_scan : forall r,
  (good false r = true -> unscan (camel_scan false r) = r) /\
  (good true r = true -> unscan (camel_scan true r) = String underscore r).
Proof.
  induction r as [|c r [IH1 IH2]]; [cbn; split; [reflexivity|discriminate]|].
  cbn [good camel_scan]. destruct (Ascii.eqb c underscore) eqn:E.
  - apply Ascii.eqb_eq in E. subst c. split.
    + cbn. intros H. exact (IH2 H).
    + cbn. discriminate.
  - split; intros H; apply andb_true_iff in H; destruct H as [Hc Hr].
    + cbn [unscan]. apply orb_true_iff in Hc. destruct Hc as [Hc|Hc].
      * destruct (upper_lower_roundtrip c Hc) as [H1 H2]. rewrite H1, H2, (IH1 Hr). reflexivity.
      * destruct (digit_fixed c Hc) as [H1 [H2 H3]]. rewrite H2, H1, H3, (IH1 Hr). reflexivity.
    + cbn [unscan]. rewrite (upper_to_upper c Hc), Hc, (IH1 Hr). reflexivity.
Qed.

Lemma snake_to_camel_injective_lem : forall s1 s2,
  letter_boundaries s1 = true -> letter_boundaries s2 = true ->
  snake_to_camel s1 = snake_to_camel s2 -> s1 = s2.
Proof.
  intros s1 s2 H1 H2. rewrite !snake_to_camel_scan_lem.
  destruct s1 as [|c1 r1]; [discriminate|]. destruct s2 as [|c2 r2]; [discriminate|].
  cbn [letter_boundaries] in H1, H2. apply andb_true_iff in H1, H2.
  destruct H1 as [U1 G1], H2 as [U2 G2]. cbn [camel_scan].
  rewrite (upper_not_underscore _ U1), (upper_not_underscore _ U2).
  rewrite (upper_to_upper _ U1), (upper_to_upper _ U2). intros H. inversion H as [[Hc Hr]].
  apply (f_equal unscan) in Hr.
  rewrite (proj1 (unscan_camel_scan r1) G1), (proj1 (unscan_camel_scan r2) G2) in Hr.
  subst. reflexivity.
Qed.

Lemma convert_case_injective_lem : forall c s1 s2,
  letter_boundaries s1 = true -> letter_boundaries s2 = true ->
  convert_case c s1 = convert_case c s2 -> s1 = s2.
Proof.
  intros [|] s1 s2 H1 H2; cbn; [auto|].
  unfold snake_to_k_camel, camel_to_k_camel. intros H. inversion H.
  apply snake_to_camel_injective_lem; assumption.
Qed.

(* Shouty and kCamel spellings never coincide: a kCamel name starts with 'k',
   a SHOUTY name with an upper-case letter. *)
Lemma shouty_ne_kcamel_lem : forall s1 s2,
  letter_boundaries s1 = true -> convert_case Shouty s1 <> convert_case KCamel s2.
Proof.
  intros s1 s2 H. destruct s1 as [|c r]; [discriminate|]. cbn in H. apply andb_true_iff in H.
  destruct H as [U _]. cbn. unfold snake_to_k_camel, camel_to_k_camel. intros E. inversion E; subst.
  vm_compute in U. discriminate.
Qed.
