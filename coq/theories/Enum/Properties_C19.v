(* C19 — enum names, values and C++ representation: property theorems.
   Statements only; every proof is `exact <lemma>`.

   d : edecl is an enum as the back end sees it (values in source order, each
   with its Emboss name, numeric value and requested enum_case spellings;
   is_signed and maximum_bits after attribute inference).
   [accepted d]            the front end and the back end's attribute verification accept it
                           (1 <= maximum_bits <= 64, every value representable, names distinct,
                           at least one spelling per value);
   [enumerators_distinct d] the emitted `enum class` has no two enumerators of the same
                           spelling, i.e. it is well-formed C++ (false for finding F5). *)
From Coq Require Import ZArith List Bool String Ascii.
Import ListNotations.
Require Import EmbossV.Enum.Model EmbossV.Enum.Proofs EmbossV.Enum.Proofs2.
Open Scope Z_scope.

(* --- underlying type ------------------------------------------------------ *)

Theorem underlying_total : forall d, width_ok d = true ->
  exists t, underlying_type (ed_bits d) (ed_signed d) = Some t.
Proof. exact underlying_total_lem. Qed.
Print Assumptions underlying_total.

(* declared signedness; one of the four fixed-width types and the smallest that has
   maximum_bits bits; holds every maximum_bits-bit value; every declared value of an
   accepted enum is representable in it *)
Theorem underlying_fits : forall d t,
  width_ok d = true -> underlying_type (ed_bits d) (ed_signed d) = Some t ->
  ct_signed t = ed_signed d /\
  In (ct_bits t) [8; 16; 32; 64] /\
  ed_bits d <= ct_bits t /\
  (forall w, In w [8; 16; 32; 64] -> ed_bits d <= w -> ct_bits t <= w) /\
  (forall v, in_range (range_of (ed_signed d) (ed_bits d)) v = true -> in_range (ctype_range t) v = true) /\
  (representable d = true -> forall ev, In ev (ed_values d) -> in_range (ctype_range t) (ev_value ev) = true).
Proof. exact underlying_fits_lem. Qed.
Print Assumptions underlying_fits.

Theorem representable_iff : forall d,
  representable d = true <->
  (forall ev, In ev (ed_values d) -> in_range (range_of (ed_signed d) (ed_bits d)) (ev_value ev) = true).
Proof. exact representable_iff_lem. Qed.

(* --- attribute inference -------------------------------------------------- *)

Theorem infer_signed : forall vals a, at_signed a = None ->
  (ed_signed (infer vals a) = true <-> exists ev, In ev vals /\ ev_value ev < 0).
Proof. exact infer_signed_lem. Qed.

Theorem infer_default_bits : forall vals a, at_bits a = None -> ed_bits (infer vals a) = 64.
Proof. exact infer_default_bits_lem. Qed.

Theorem infer_default_representable : forall vals,
  representable (infer vals (mk_eattrs None None)) = true <->
  ((forall ev, In ev vals -> 0 <= ev_value ev <= 2 ^ 64 - 1) \/
   ((exists ev, In ev vals /\ ev_value ev < 0) /\ forall ev, In ev vals -> - 2 ^ 63 <= ev_value ev <= 2 ^ 63 - 1)).
Proof. exact infer_default_representable_lem. Qed.
Print Assumptions infer_default_representable.

(* --- enumerators ---------------------------------------------------------- *)

(* one enumerator per declared name per requested spelling, with the declared value; nothing else *)
Theorem enumerator_values : forall d e v,
  In (e, v) (enumerators d) <->
  exists ev c, In ev (ed_values d) /\ In c (ev_cases ev) /\ e = convert_case c (ev_name ev) /\ v = ev_value ev.
Proof. exact in_enumerators. Qed.
Print Assumptions enumerator_values.

Theorem enumerator_count : forall d, List.length (enumerators d) = requested_count d.
Proof. exact enumerators_length_lem. Qed.

(* E::<spelling> denotes exactly the declared value *)
Theorem enumerator_value_declared : forall d ev c,
  enumerators_distinct d = true -> In ev (ed_values d) -> In c (ev_cases ev) ->
  enumerator_value (enumerators d) (convert_case c (ev_name ev)) = Some (ev_value ev).
Proof. exact enumerator_value_declared_lem. Qed.
Print Assumptions enumerator_value_declared.

(* distinctness of enumerators: false in general (finding F5) ... *)
Theorem enumerators_distinct_refuted :
  exists d, accepted d = true /\ enumerators_distinct d = false /\
            exists a b, In a (ed_values d) /\ In b (ed_values d) /\ ev_name a <> ev_name b /\
                        convert_case KCamel (ev_name a) = convert_case KCamel (ev_name b).
Proof. exact enumerators_distinct_refuted_lem. Qed.

(* ... true when every underscore of every name is directly followed by a letter
   and no value requests the same spelling twice *)
Theorem enumerators_distinct_partial : forall d,
  accepted d = true ->
  (forall ev, In ev (ed_values d) -> letter_boundaries (ev_name ev) = true /\ NoDup (ev_cases ev)) ->
  enumerators_distinct d = true.
Proof. exact enumerators_distinct_partial_lem. Qed.
Print Assumptions enumerators_distinct_partial.

(* --- TryToGetEnumFromName ------------------------------------------------- *)

Theorem from_name_spec : forall d s v,
  accepted d = true -> enumerators_distinct d = true ->
  (from_name d s = Some v <-> exists ev, In ev (ed_values d) /\ ev_name ev = s /\ ev_value ev = v).
Proof. exact from_name_spec_lem. Qed.
Print Assumptions from_name_spec.

Theorem from_name_nothing_else : forall d s,
  accepted d = true -> enumerators_distinct d = true ->
  (from_name d s = None <-> forall ev, In ev (ed_values d) -> ev_name ev <> s).
Proof. exact from_name_none_lem. Qed.

(* --- TryToGetNameFromEnum / EnumIsKnown / operator<< ----------------------- *)

Theorem to_name_first : forall d v n,
  accepted d = true -> enumerators_distinct d = true ->
  (to_name d v = Some n <->
   exists pre ev post, ed_values d = pre ++ ev :: post /\ ev_name ev = n /\ ev_value ev = v /\
                       (forall e', In e' pre -> ev_value e' <> v)).
Proof. exact to_name_first_lem. Qed.
Print Assumptions to_name_first.

Theorem to_name_undeclared : forall d v,
  accepted d = true -> enumerators_distinct d = true ->
  (to_name d v = None <-> forall ev, In ev (ed_values d) -> ev_value ev <> v).
Proof. exact to_name_none_lem. Qed.

Theorem is_known_iff_declared : forall d v,
  accepted d = true -> enumerators_distinct d = true ->
  (is_known d v = true <-> exists ev, In ev (ed_values d) /\ ev_value ev = v).
Proof. exact is_known_iff_declared_lem. Qed.
Print Assumptions is_known_iff_declared.

(* the emitted switch statements never have two labels of equal value *)
Theorem switch_labels_distinct : forall d,
  enumerators_distinct d = true ->
  NoDup (label_values (enumerators d) (map fst (switch_cases d))).
Proof. exact switch_labels_distinct_lem. Qed.

(* --- case conversion ------------------------------------------------------ *)

Theorem snake_to_camel_scan : forall s, snake_to_camel s = camel_scan true s.
Proof. exact snake_to_camel_scan_lem. Qed.

Theorem snake_to_camel_no_underscore : forall s, ~ string_In underscore (snake_to_camel s).
Proof. exact snake_to_camel_no_underscore_lem. Qed.

Theorem snake_to_camel_length : forall s,
  (String.length (snake_to_camel s) + count_char underscore s = String.length s)%nat.
Proof. exact snake_to_camel_length_lem. Qed.

Theorem convert_case_injective : forall c s1 s2,
  letter_boundaries s1 = true -> letter_boundaries s2 = true ->
  convert_case c s1 = convert_case c s2 -> s1 = s2.
Proof. exact convert_case_injective_lem. Qed.
Print Assumptions convert_case_injective.

Theorem shouty_ne_kcamel : forall s1 s2,
  letter_boundaries s1 = true -> convert_case Shouty s1 <> convert_case KCamel s2.
Proof. exact shouty_ne_kcamel_lem. Qed.

Theorem cases_of_attribute_ok : forall attr ks,
  cases_of_attribute attr = Some ks -> ks <> [] /\ NoDup ks.
Proof. exact cases_of_attribute_ok_lem. Qed.

(* --- enum fields ---------------------------------------------------------- *)

(* EnumView's static_assert  kBits <= 8 * sizeof(ValueType)  follows from the front end's size check *)
Theorem enum_field_static_assert : forall d t k,
  width_ok d = true -> field_size_ok d k = true ->
  underlying_type (ed_bits d) (ed_signed d) = Some t -> 1 <= k <= ct_bits t.
Proof. exact enum_field_static_assert_lem. Qed.

(* "enum fields accept any in-range value": false for a signed enum in a field narrower
   than its bit block (finding F1): -1 cannot be written to a 4-bit field of an int8_t enum,
   and the stored pattern 0b1111 reads back as 15 *)
Theorem field_accepts_in_range_refuted :
  exists t k bw v,
    In (ct_bits t) [8; 16; 32; 64] /\ 1 <= k <= ct_bits t /\ bw = least_width k /\
    in_range (ctype_range t) v = true /\ in_range (field_range (ct_signed t) k) v = true /\
    could_write t k bw v = false.
Proof. exact field_accepts_in_range_refuted_lem. Qed.

Theorem field_read_refuted :
  exists t k raw,
    In (ct_bits t) [8; 16; 32; 64] /\ 1 <= k <= ct_bits t /\ 0 <= raw < 2 ^ k /\
    in_range (field_range (ct_signed t) k) (read_raw t raw) = false.
Proof. exact field_read_refuted_lem. Qed.

(* every negative value of a signed enum is refused by a field narrower than its bit block *)
Theorem field_signed_narrow_refuses_negatives : forall w k bw v,
  1 <= k -> k < bw -> w <= bw -> - 2 ^ (k - 1) <= v < 0 -> - 2 ^ (w - 1) <= v ->
  could_write (mk_ctype true w) k bw v = false.
Proof. exact field_signed_narrow_lem. Qed.

(* unsigned enums at any width, signed enums at full width: exactly the in-range values
   are accepted, and a written value reads back unchanged *)
Theorem field_accepts_in_range_partial : forall t k bw v,
  1 <= k -> k <= ct_bits t -> k <= bw ->
  (ct_signed t = false \/ (k = bw /\ k = ct_bits t)) ->
  in_range (ctype_range t) v = true ->
  could_write t k bw v = in_range (field_range (ct_signed t) k) v /\
  (could_write t k bw v = true -> read_raw t (write_raw k bw v) = v).
Proof. exact field_accepts_in_range_partial_lem. Qed.
Print Assumptions field_accepts_in_range_partial.

(* --- non-vacuity ---------------------------------------------------------- *)

Theorem hypotheses_satisfiable :
  accepted sample_enum = true /\ enumerators_distinct sample_enum = true /\
  underlying_type (ed_bits sample_enum) (ed_signed sample_enum) = Some (mk_ctype true 8) /\
  enumerators sample_enum = [("NEG_ONE"%string, -1); ("kNegOne"%string, -1); ("kZeroValue"%string, 0);
                             ("ALSO_ZERO"%string, 0); ("BIG_VALUE"%string, 127)] /\
  from_name sample_enum "ALSO_ZERO" = Some 0 /\ from_name sample_enum "kZeroValue" = None /\
  to_name sample_enum 0 = Some "ZERO_VALUE"%string /\ to_name sample_enum 1 = None /\
  is_known sample_enum (-1) = true /\ is_known sample_enum 5 = false.
Proof. exact sample_enum_ok. Qed.
