(* C06 -- the storage step of the text round trip, for the concrete byte store of Text/Store.v:
   the TryToWrite calls of the emitted fields, performed in emission order on the zeroed buffer,
   succeed, and afterwards every emitted field reads back the written value.  Built on the write
   theorems of C03 (Bits/Properties_C03.v: write_read_frame_*, root_frame, root_length,
   root_container_after). *)
From Coq Require Import ZArith List Bool Lia ZifyBool.
Import ListNotations.
Set Warnings "-notation-overridden".
Require Import EmbossV.Bits.Model EmbossV.Bits.Proofs_Int EmbossV.Bits.Proofs_Load EmbossV.Bits.Proofs_Read
               EmbossV.Bits.Proofs_Bcd EmbossV.Bits.Proofs_Write EmbossV.Bits.Proofs_BcdWrite EmbossV.Bits.Proofs_C03
               EmbossV.Bits.Properties_C03.
Require Import EmbossV.Text.IntCodec EmbossV.Text.ProofsInt EmbossV.Text.ProofsToken EmbossV.Text.StructText
               EmbossV.Text.ProofsStruct EmbossV.Text.ProofsArray EmbossV.Text.ProofsRoundtrip EmbossV.Text.Store.
Set Warnings "+notation-overridden".
Open Scope Z_scope.

Local Arguments Z.pow : simpl never.
Local Arguments Z.mul : simpl never.
Local Arguments Z.add : simpl never.
Local Arguments Z.sub : simpl never.
Local Arguments Z.of_nat : simpl never.
Local Arguments Model.wrap : simpl never.

(* ---------- lists ---------- *)
Lemma nth_firstn_lt : forall (A : Type) (l : list A) n i d, (i < n)%nat -> nth i (firstn n l) d = nth i l d.
Proof.
  intros A l. induction l as [|a l IH]; intros n i d H.
  - rewrite firstn_nil. reflexivity.
  - destruct n; [lia|]. destruct i; [reflexivity|]. cbn. apply IH. lia.
Qed.

Lemma nth_skipn_add : forall (A : Type) (l : list A) b i d, nth i (skipn b l) d = nth (b + i) l d.
Proof.
  intros A l. induction l as [|a l IH]; intros b i d.
  - rewrite skipn_nil. destruct i; destruct (b + _)%nat; reflexivity.
  - destruct b; [reflexivity|]. cbn. apply IH.
Qed.

Lemma sub_storage_length : forall root boff c, (boff + c <= length root)%nat -> length (sub_storage root boff c) = c.
Proof. intros. unfold sub_storage. rewrite firstn_length, skipn_length. lia. Qed.

Lemma sub_storage_nth : forall root boff c i d, (i < c)%nat -> nth i (sub_storage root boff c) d = nth (boff + i) root d.
Proof. intros. unfold sub_storage. rewrite nth_firstn_lt by assumption. apply nth_skipn_add. Qed.

Lemma sub_storage_ext : forall r1 r2 boff c, length r1 = length r2 -> (boff + c <= length r1)%nat ->
  (forall i, (boff <= i < boff + c)%nat -> nth i r1 0 = nth i r2 0) ->
  sub_storage r1 boff c = sub_storage r2 boff c.
Proof.
  intros r1 r2 boff c Hl Hf H. apply (nth_ext _ _ 0 0).
  - rewrite !sub_storage_length by lia. reflexivity.
  - intros i Hi. rewrite sub_storage_length in Hi by lia. rewrite !sub_storage_nth by lia. apply H. lia.
Qed.

Lemma sub_storage_byte : forall root boff c, Forall byte root -> Forall byte (sub_storage root boff c).
Proof.
  intros root boff c Hb. unfold sub_storage. apply Forall_forall. intros x Hx.
  apply (proj1 (Forall_forall byte root) Hb). apply (in_skipn_in _ x boff). eapply in_firstn_in. exact Hx.
Qed.

Lemma splice_byte : forall root boff bs, Forall byte root -> Forall byte bs -> Forall byte (splice root boff bs).
Proof.
  intros root boff bs Hr Hb. unfold splice. apply Forall_app. split.
  - apply Forall_forall. intros x Hx. apply (proj1 (Forall_forall byte root) Hr). eapply in_firstn_in. exact Hx.
  - apply Forall_app. split; [exact Hb|].
    apply Forall_forall. intros x Hx. apply (proj1 (Forall_forall byte root) Hr). eapply in_skipn_in. exact Hx.
Qed.

(* a write into one container leaves every disjoint container as it was *)
Lemma sub_storage_splice_apart : forall root boff bs boff2 c2,
  (boff + length bs <= length root)%nat -> (boff2 + c2 <= length root)%nat ->
  (boff2 + c2 <= boff \/ boff + length bs <= boff2)%nat ->
  sub_storage (splice root boff bs) boff2 c2 = sub_storage root boff2 c2.
Proof.
  intros root boff bs boff2 c2 H1 H2 H3. apply sub_storage_ext.
  - apply root_length. exact H1.
  - rewrite root_length by exact H1. exact H2.
  - intros i Hi. apply root_frame; [exact H1|lia].
Qed.

Lemma zeros_byte : forall n, Forall byte (zeros n).
Proof. intros n. unfold zeros. apply Forall_forall. intros x Hx. apply repeat_spec in Hx. subst x. unfold byte. lia. Qed.

Lemma zeros_length : forall n, length (zeros n) = n.
Proof. intros. apply repeat_length. Qed.

(* ---------- the view at a location, in the terms of C03 ---------- *)
Lemma field_bv_sub : forall o root boff c, (boff + c <= length root)%nat ->
  field_bv o root boff c = field_bv o (sub_storage root boff c) 0 (length (sub_storage root boff c)).
Proof.
  intros o root boff c H. unfold field_bv. rewrite (sub_storage_length root boff c H).
  f_equal. f_equal. set (zs := sub_storage root boff c).
  assert (L : length zs = c) by (apply sub_storage_length; exact H).
  unfold sub_storage at 1. cbn [skipn]. rewrite <- L. symmetry. apply firstn_all.
Qed.

Lemma whole_block : forall o zs, zcontainer_ok o zs ->
  wf_block (field_bv o zs 0 (length zs)) zs /\ bv_obb (field_bv o zs 0 (length zs)) = None.
Proof.
  intros o zs [Hb [Hn Hfit]]. split; [|reflexivity].
  destruct (field_bv_wf o zs 0 (length zs) Hb Hn ltac:(lia) Hfit) as [W L].
  replace (sub_storage zs 0 (length zs)) with zs in W by (unfold sub_storage; cbn [skipn]; symmetry; apply firstn_all).
  exact W.
Qed.

Lemma gos_order : forall bv off w, bv_order (get_offset_storage bv off w) = bv_order bv.
Proof. intros. unfold get_offset_storage. destruct (bv_obb bv); reflexivity. Qed.
Lemma gos_kbits : forall bv off w, bv_kbits (get_offset_storage bv off w) = bv_kbits bv.
Proof. intros. unfold get_offset_storage. destruct (bv_obb bv); reflexivity. Qed.
Lemma gos_ct : forall bv off w, bv_ct (get_offset_storage bv off w) = bv_ct bv.
Proof. intros. unfold bv_ct. rewrite gos_kbits. reflexivity. Qed.

(* a scalar that is its whole container (BitBlock) behaves as the OffsetBitBlock (0, 8 * size) *)
Lemma bv_read_whole_eq : forall bv bytes, wf_block bv bytes -> bv_obb bv = None ->
  bv_read true (get_offset_storage bv 0 (8 * Z.of_nat (length bytes))) = bv_read true bv.
Proof.
  intros bv bytes W Hobb. pose proof W as [Hb HB Hn Hk Hfit].
  rewrite (bv_read_field _ bytes 0 (8 * Z.of_nat (length bytes))) by (apply get_offset_storage_wf; try assumption; lia).
  rewrite (bv_read_whole bv bytes W Hobb). f_equal. unfold cv_of. rewrite gos_order.
  apply field_bits_whole; [lia|]. apply container_valz_bound. exact HB.
Qed.

Lemma is_complete_whole : forall bv bytes, wf_block bv bytes -> bv_obb bv = None ->
  is_complete bv (8 * Z.of_nat (length bytes)) = true.
Proof.
  intros bv bytes W Hobb. unfold is_complete, bv_ok, bv_size_in_bits. rewrite Hobb.
  rewrite (wf_block_ok bv bytes W). destruct W. lia.
Qed.

Lemma bv_write_whole_eq : forall bv bytes X, wf_block bv bytes -> bv_obb bv = None ->
  0 <= X < 2 ^ cbits (bv_ct bv) ->
  bv_write true (get_offset_storage bv 0 (8 * Z.of_nat (length bytes))) X = bv_write true bv X.
Proof.
  intros bv bytes X W Hobb HX.
  set (w := 8 * Z.of_nat (length bytes)).
  pose proof W as [Hb HB Hn Hk Hfit].
  assert (F : wf_field (get_offset_storage bv 0 w) bytes 0 w) by (apply get_offset_storage_wf; try assumption; unfold w; lia).
  destruct (bv_ct_std bv bytes W) as [Hstd [Hu Hc]].
  assert (Hcv := cv_bound bv bytes W). assert (Hcvc := cv_bound_ct bv bytes W).
  pose proof F as [W' Hobb' _ _ _].
  unfold bv_write. rewrite Hobb', Hobb. cbn [ob_offset ob_size ob_ok negb].
  rewrite gos_ct. unfold bitblock_write at 2. rewrite Hb, Hk. fold w.
  rewrite mask_to_n_bits_spec by (try assumption; unfold w; lia). cbn [Model.bind].
  destruct (X =? X mod 2 ^ w) eqn:E; cbn [negb]; [|reflexivity].
  assert (Pw : 0 < 2 ^ w) by (apply pow2_pos; unfold w; lia).
  assert (HXw : 0 <= X < 2 ^ w) by (assert (M := Z.mod_pos_bound X (2 ^ w) Pw); lia).
  rewrite (bitblock_read_spec _ bytes W'). cbn [Model.bind].
  assert (Ecv : cv_of (get_offset_storage bv 0 w) bytes = cv_of bv bytes) by (unfold cv_of; rewrite gos_order; reflexivity).
  rewrite Ecv.
  destruct (mask_in_value_spec (bv_ct bv) 0 w (cv_of bv bytes) X) as [R [HR [HRb Hbits]]]; try assumption; try (unfold w; lia).
  rewrite HR. cbn [Model.bind].
  assert (ER : R = X).
  { apply Z.bits_inj'. intros i Hi. rewrite Hbits by exact Hi. unfold inserted.
    destruct ((0 <=? i) && (i <? 0 + w)) eqn:C.
    - f_equal. lia.
    - rewrite (testbit_small (cv_of bv bytes) w i) by (unfold w in *; lia).
      symmetry. apply (testbit_small X w i); unfold w in *; lia. }
  subst R.
  unfold bitblock_write. cbn [bv_bytes get_offset_storage]. 
  unfold get_offset_storage. rewrite Hobb. cbn [bv_bytes bv_kbits bv_order bv_ct].
  rewrite Hb. unfold bv_ct. rewrite Hk. fold w.
  change (uty w) with (uty w).
  assert (Em : mask_to_n_bits (uty w) X w = Some (X mod 2 ^ w)).
  { unfold bv_ct in Hstd, Hu, HX. rewrite Hk in Hstd, Hu, HX. fold w in Hstd, Hu, HX.
    apply mask_to_n_bits_spec; try assumption. unfold w; lia. }
  cbn [bv_kbits]. rewrite Em. cbn [Model.bind]. rewrite E. reflexivity.
Qed.

(* ---------- value types ---------- *)
Lemma ity_eqb_eq : forall a b, ity_eqb a b = true -> a = b.
Proof.
  intros [sa wa] [sb wb] H. unfold ity_eqb in H. cbn [ity_signed ity_width] in H.
  apply andb_true_iff in H. destruct H as [H1 H2]. apply eqb_prop in H1. subst sb.
  destruct wa, wb; cbn in H2; try discriminate; reflexivity.
Qed.

Lemma wbits_lw : forall w, wbits (lw_width w) = lw w.
Proof.
  intros w. unfold lw_width, lw. destruct (w <=? 8); [reflexivity|]. destruct (w <=? 16); [reflexivity|].
  destruct (w <=? 32); reflexivity.
Qed.

Lemma cty_of_u : forall w, cty_of (mk_ity false (lw_width w)) = uty w.
Proof. intros. unfold cty_of, uty. cbn [ity_signed ity_width]. rewrite wbits_lw. reflexivity. Qed.
Lemma cty_of_s : forall w, cty_of (mk_ity true (lw_width w)) = sty w.
Proof. intros. unfold cty_of, sty. cbn [ity_signed ity_width]. rewrite wbits_lw. reflexivity. Qed.

Lemma std_cty_of : forall t, std_cty (cty_of t).
Proof. intros [s w]. unfold std_cty, std_bits, cty_of. cbn [cbits ity_width]. destruct w; cbn; auto. Qed.

Lemma bcd_max_lt : forall w, 1 <= w -> bcd_max w < 2 ^ w.
Proof.
  intros w Hw. unfold bcd_max.
  assert (D := Z.div_mod w 4 ltac:(lia)). assert (M := Z.mod_pos_bound w 4 ltac:(lia)).
  assert (Q : 0 <= w / 4) by (apply Z.div_pos; lia).
  assert (E : 2 ^ w = 16 ^ (w / 4) * 2 ^ (w mod 4)).
  { rewrite D at 1. rewrite Z.pow_add_r by lia. f_equal. rewrite Z.pow_mul_r by lia. reflexivity. }
  rewrite E.
  assert (L : 10 ^ (w / 4) <= 16 ^ (w / 4)) by (apply Z.pow_le_mono_l; lia).
  assert (P : 0 < 2 ^ (w mod 4)) by (apply pow2_pos; lia).
  nia.
Qed.

Lemma zwidth : forall o zs off w, zcontainer_ok o zs -> zfield_ok zs off w -> 1 <= w <= 64.
Proof. intros o zs off w [_ [Hn _]] [Hw [Hoff Hext]]. lia. Qed.

(* ---------- a successful write through the view at bits [off, off+w) of a container ---------- *)
Lemma accept_z : forall k ty o zs off w x, zcontainer_ok o zs -> zfield_ok zs off w -> kval_okb k ty w x = true ->
  exists zs' u, view_try_write k (zfield o zs off w) w x = Some (true, Some zs') /\
                write_post o zs off w u zs' /\ view_read k ty (zfield o zs' off w) w = Some x.
Proof.
  intros k ty o zs off w x C F V. assert (Hw := zwidth o zs off w C F).
  assert (Hlw := lw_ge w ltac:(lia)).
  assert (P1 : 2 ^ w <= 2 ^ lw w) by (apply pow2_le; lia).
  destruct k; destruct x as [t v|b|t v]; cbn [kval_okb] in V; try discriminate.
  - (* UInt *)
    apply andb_true_iff in V. destruct V as [V V4]. apply andb_true_iff in V. destruct V as [V V3].
    apply andb_true_iff in V. destruct V as [V1 V2]. apply ity_eqb_eq in V1, V2. subst ty.
    subst t. cbn [view_try_write view_read]. rewrite cty_of_u.
    destruct (write_read_frame_uint o zs off w (uty w) v C F (std_uty w)) as [zs' [H1 [H2 H3]]].
    { apply in_cty_unsigned; [reflexivity|]. cbn [cbits uty]. lia. }
    { lia. }
    exists zs', v. rewrite H1, H3. split; [reflexivity|]. split; [exact H2|reflexivity].
  - (* Int *)
    apply andb_true_iff in V. destruct V as [V V4]. apply andb_true_iff in V. destruct V as [V V3].
    apply andb_true_iff in V. destruct V as [V1 V2]. apply ity_eqb_eq in V1, V2. subst ty.
    subst t. cbn [view_try_write view_read]. rewrite cty_of_s.
    assert (P2 : 2 ^ (w - 1) <= 2 ^ (lw w - 1)) by (apply pow2_le; lia).
    destruct (write_read_frame_int o zs off w (sty w) v C F (std_sty w)) as [zs' [H1 [H2 H3]]].
    { unfold in_cty, cmin, cmax. cbn [csigned cbits sty]. lia. }
    { lia. }
    exists zs', (v mod 2 ^ w). rewrite H1, H3. split; [reflexivity|]. split; [exact H2|reflexivity].
  - (* Bcd *)
    apply andb_true_iff in V. destruct V as [V V4]. apply andb_true_iff in V. destruct V as [V V3].
    apply andb_true_iff in V. destruct V as [V1 V2]. apply ity_eqb_eq in V1, V2. subst ty.
    subst t. cbn [view_try_write view_read]. rewrite cty_of_u.
    assert (B := bcd_max_lt w ltac:(lia)).
    destruct (write_read_frame_bcd o zs off w (uty w) v C F) as [zs' [H1 [H2 [H3 H4]]]].
    { lia. }
    { apply in_cty_unsigned; [reflexivity|]. cbn [cbits uty]. lia. }
    exists zs', (to_bcd_spec (bcd_digits w) v). rewrite H1, H3. split; [reflexivity|]. split; [exact H2|reflexivity].
  - (* Flag *)
    assert (w = 1) by lia. subst w. cbn [view_try_write view_read].
    destruct (write_read_frame_flag o zs off b C F) as [zs' [H1 [H2 H3]]].
    exists zs', (if b then 1 else 0). rewrite H1, H3. split; [reflexivity|]. split; [exact H2|reflexivity].
  - (* Enum *)
    apply andb_true_iff in V. destruct V as [V V5]. apply andb_true_iff in V. destruct V as [V V4].
    apply andb_true_iff in V. destruct V as [V V3]. apply andb_true_iff in V. destruct V as [V1 V2].
    apply ity_eqb_eq in V1. subst ty. cbn [view_try_write view_read].
    destruct (write_read_frame_enum_unsigned o zs off w (cty_of t) v C F (std_cty_of t)) as [zs' [H1 [H2 H3]]].
    { unfold cty_of. cbn [csigned]. destruct (ity_signed t); [discriminate|reflexivity]. }
    { unfold cty_of. cbn [cbits]. lia. }
    { lia. }
    exists zs', v. rewrite H1, H3. split; [reflexivity|]. split; [exact H2|reflexivity].
Qed.

(* ---------- reads depend on the view only through buffer_.ReadUInt() and the container type ---------- *)
Lemma view_read_ext : forall k t b1 b2 w, bv_read true b1 = bv_read true b2 -> bv_kbits b1 = bv_kbits b2 ->
  view_read k t b1 w = view_read k t b2 w.
Proof.
  intros k t b1 b2 w H K. destruct k; cbn [view_read];
    unfold uint_read, int_read, bcd_read, flag_read, enum_read, bv_ct; rewrite H, ?K; reflexivity.
Qed.

(* ---------- a scalar that is its whole container ---------- *)
Lemma view_read_whole : forall k t o zs, zcontainer_ok o zs ->
  view_read k t (field_bv o zs 0 (length zs)) (8 * Z.of_nat (length zs)) =
  view_read k t (zfield o zs 0 (8 * Z.of_nat (length zs))) (8 * Z.of_nat (length zs)).
Proof.
  intros k t o zs C. destruct (whole_block o zs C) as [W Hobb]. unfold zfield.
  apply view_read_ext.
  - symmetry. apply bv_read_whole_eq; assumption.
  - rewrite gos_kbits. reflexivity.
Qed.

Lemma is_complete_z : forall o zs off w, zcontainer_ok o zs -> zfield_ok zs off w -> is_complete (zfield o zs off w) w = true.
Proof. intros. eapply is_complete_wf. apply zfield_wf; eassumption. Qed.

Lemma view_try_write_whole : forall k o zs x, zcontainer_ok o zs -> k <> SFlag ->
  view_try_write k (field_bv o zs 0 (length zs)) (8 * Z.of_nat (length zs)) x =
  view_try_write k (zfield o zs 0 (8 * Z.of_nat (length zs))) (8 * Z.of_nat (length zs)) x.
Proof.
  intros k o zs x C Hk. destruct (whole_block o zs C) as [W Hobb].
  set (w := 8 * Z.of_nat (length zs)).
  assert (F : zfield_ok zs 0 w) by (destruct C as [_ [Hn _]]; unfold zfield_ok, w; lia).
  assert (IC1 := is_complete_whole _ zs W Hobb). fold w in IC1.
  assert (IC2 := is_complete_z o zs 0 w C F).
  destruct (bv_ct_std _ zs W) as [Hstd [Hu Hc]].
  assert (Hb1 : 1 <= cbits (bv_ct (field_bv o zs 0 (length zs)))) by (destruct Hstd as [H|[H|[H|H]]]; lia).
  assert (WR : forall X, bv_write true (zfield o zs 0 w) (Model.wrap (bv_ct (field_bv o zs 0 (length zs))) X) =
                         bv_write true (field_bv o zs 0 (length zs)) (Model.wrap (bv_ct (field_bv o zs 0 (length zs))) X)).
  { intros X. unfold zfield, w. apply bv_write_whole_eq; try assumption.
    apply in_cty_unsigned; [assumption|]. apply wrap_in. exact Hb1. }
  assert (CT : bv_ct (zfield o zs 0 w) = bv_ct (field_bv o zs 0 (length zs))) by (unfold zfield; apply gos_ct).
  destruct k; destruct x as [t v|b|t v]; cbn [view_try_write]; try reflexivity; try congruence.
  - unfold uint_try_write. rewrite IC1, IC2, CT, WR. reflexivity.
  - unfold int_try_write. rewrite IC1, IC2, CT.
    destruct (int_could_write (cty_of t) w v) as [[|]|]; cbn [Model.bind negb]; try reflexivity.
    assert (Hwr : 0 <= Model.wrap (bv_ct (field_bv o zs 0 (length zs))) v < 2 ^ cbits (bv_ct (field_bv o zs 0 (length zs)))).
    { apply in_cty_unsigned; [assumption|]. apply wrap_in. exact Hb1. }
    rewrite mask_to_n_bits_spec by (try assumption; unfold w; lia). cbn [Model.bind].
    assert (Pw : 0 < 2 ^ w) by (apply pow2_pos; unfold w; lia).
    assert (M := Z.mod_pos_bound (Model.wrap (bv_ct (field_bv o zs 0 (length zs))) v) (2 ^ w) Pw).
    assert (Hle : 2 ^ w <= 2 ^ cbits (bv_ct (field_bv o zs 0 (length zs)))) by (apply pow2_le; unfold w; lia).
    unfold zfield, w. rewrite bv_write_whole_eq; try assumption; [reflexivity|]. fold w. lia.
  - unfold bcd_try_write. rewrite IC1, IC2, CT.
    destruct (bcd_could_write (cty_of t) w v) as [[|]|]; cbn [Model.bind negb]; try reflexivity.
    destruct (convert_to_bcd w (Model.wrap (uty w) v)); cbn [Model.bind]; [|reflexivity].
    rewrite WR. reflexivity.
  - unfold enum_try_write. rewrite IC1, IC2, CT, WR. reflexivity.
Qed.

Definition l_off (l : loc) : Z := match l_bits l with Some (off, _) => off | None => 0 end.

Lemma order_fitsb_ok : forall o c, order_fitsb o c = true -> order_fits o c.
Proof. intros o c H. destruct o; cbn in *; try exact I; apply Nat.eqb_eq; exact H. Qed.

(* the view at a location that fits the buffer, in the terms of C03 *)
Lemma loc_norm : forall n l root, length root = n -> Forall byte root -> loc_fitsb n l = true ->
  let zs := sub_storage root (l_boff l) (l_c l) in
  (l_boff l + l_c l <= length root)%nat /\ length zs = l_c l /\
  zcontainer_ok (l_order l) zs /\ zfield_ok zs (l_off l) (l_w l) /\
  (forall x, loc_try_write l x root = view_try_write (l_kind l) (zfield (l_order l) zs (l_off l) (l_w l)) (l_w l) x) /\
  loc_read l root = view_read (l_kind l) (l_ty l) (zfield (l_order l) zs (l_off l) (l_w l)) (l_w l).
Proof.
  intros n l root Hn Hb Hf zs. unfold loc_fitsb in Hf.
  apply andb_true_iff in Hf. destruct Hf as [Hf F5]. apply andb_true_iff in Hf. destruct Hf as [Hf F4].
  apply andb_true_iff in Hf. destruct Hf as [Hf F3]. apply andb_true_iff in Hf. destruct Hf as [F1 F2].
  apply order_fitsb_ok in F4.
  assert (B : (l_boff l + l_c l <= length root)%nat) by lia.
  assert (L : length zs = l_c l) by (apply sub_storage_length; exact B).
  assert (C : zcontainer_ok (l_order l) zs).
  { split; [apply sub_storage_byte; exact Hb|]. rewrite L. split; [lia|exact F4]. }
  split; [exact B|]. split; [exact L|]. split; [exact C|].
  unfold loc_try_write, loc_read, loc_bv, l_off, l_w. rewrite (field_bv_sub _ root _ _ B). fold zs.
  destruct (l_bits l) as [[off w]|] eqn:E.
  - split; [unfold zfield_ok; rewrite L; lia|]. split; [intros x|]; reflexivity.
  - split; [unfold zfield_ok; rewrite L; lia|]. rewrite <- L. split.
    + intros x. apply view_try_write_whole; [exact C|]. destruct (l_kind l); congruence.
    + apply view_read_whole. exact C.
Qed.

Lemma field_bits_ext : forall a b off w, 0 <= off -> 0 <= w ->
  (forall i, off <= i < off + w -> Z.testbit a i = Z.testbit b i) -> field_bits a off w = field_bits b off w.
Proof.
  intros a b off w Ho Hw H. apply Z.bits_inj'. intros i Hi.
  rewrite !testbit_field_bits by lia. destruct (i <? w) eqn:C; [|reflexivity]. cbn [andb]. apply H. lia.
Qed.

Lemma order_eqb_eq : forall a b, order_eqb a b = true -> a = b.
Proof. intros [] []; cbn; congruence. Qed.

(* one TryToWrite of an admissible value at a location that fits: it succeeds, the field reads
   back the value, and every location apart from it reads what it read before *)
Lemma write_one : forall n l x root, length root = n -> Forall byte root -> loc_fitsb n l = true -> val_okb l x = true ->
  exists bs, loc_try_write l x root = Some (true, Some bs) /\
    length (splice root (l_boff l) bs) = n /\ Forall byte (splice root (l_boff l) bs) /\
    loc_read l (splice root (l_boff l) bs) = Some x /\
    (forall l2, loc_fitsb n l2 = true -> loc_apartb l2 l = true ->
                loc_read l2 (splice root (l_boff l) bs) = loc_read l2 root).
Proof.
  intros n l x root Hn Hb Hf Hv.
  destruct (loc_norm n l root Hn Hb Hf) as [B [L [C [F [TW RD]]]]].
  set (zs := sub_storage root (l_boff l) (l_c l)) in *.
  destruct (accept_z (l_kind l) (l_ty l) (l_order l) zs (l_off l) (l_w l) x C F Hv) as [zs' [u [H1 [H2 H3]]]].
  pose proof H2 as [L' [B' [_ FR]]].
  assert (Lb : (l_boff l + length zs' <= length root)%nat) by (rewrite L', L; exact B).
  set (root1 := splice root (l_boff l) zs').
  assert (Hn1 : length root1 = n) by (unfold root1; rewrite root_length by exact Lb; exact Hn).
  assert (Hb1 : Forall byte root1) by (apply splice_byte; assumption).
  assert (S1 : sub_storage root1 (l_boff l) (l_c l) = zs').
  { unfold root1. rewrite <- L, <- L'. apply root_container_after. exact Lb. }
  exists zs'. fold root1. split; [rewrite TW; exact H1|]. split; [exact Hn1|]. split; [exact Hb1|]. split.
  - destruct (loc_norm n l root1 Hn1 Hb1 Hf) as [_ [_ [_ [_ [_ RD1]]]]]. rewrite RD1, S1. exact H3.
  - intros l2 Hf2 Hap.
    destruct (loc_norm n l2 root Hn Hb Hf2) as [B2 [L2 [C2 [F2 [_ RD2]]]]].
    destruct (loc_norm n l2 root1 Hn1 Hb1 Hf2) as [_ [L2' [C2' [F2' [_ RD2']]]]].
    unfold loc_apartb in Hap. apply orb_true_iff in Hap. destruct Hap as [Hap|Hap].
    + (* disjoint containers *)
      unfold bytes_apartb in Hap.
      assert (E : sub_storage root1 (l_boff l2) (l_c l2) = sub_storage root (l_boff l2) (l_c l2)).
      { unfold root1. apply sub_storage_splice_apart; [exact Lb|exact B2|]. rewrite L', L. lia. }
      rewrite RD2', RD2, E. reflexivity.
    + (* two fields of one `bits` container *)
      unfold bits_apartb in Hap.
      apply andb_true_iff in Hap. destruct Hap as [Hap A4]. apply andb_true_iff in Hap. destruct Hap as [Hap A3].
      apply andb_true_iff in Hap. destruct Hap as [A1 A2].
      apply order_eqb_eq in A1. apply Nat.eqb_eq in A2, A3.
      rewrite RD2', RD2. rewrite A1, A2, A3 in *. rewrite S1. fold zs. fold zs in C2, F2, L2.
      rewrite S1 in C2', F2', L2'.
      apply view_read_ext.
      * rewrite (bv_read_field _ zs' (l_off l2) (l_w l2)) by (apply zfield_wf; assumption).
        rewrite (bv_read_field _ zs (l_off l2) (l_w l2)) by (apply zfield_wf; assumption).
        f_equal. unfold cv_of, zfield. rewrite !gos_order. cbn [field_bv bv_order].
        destruct F2 as [Hw2 [Ho2 He2]].
        apply field_bits_ext; [lia|lia|]. intros i Hi. apply FR; [lia|].
        unfold l_off, l_w in *. destruct (l_bits l2) as [[o2 w2]|]; [|discriminate].
        destruct (l_bits l) as [[o1 w1]|]; [|discriminate]. lia.
      * unfold zfield. rewrite !gos_kbits. cbn [field_bv bv_kbits]. rewrite L', L. reflexivity.
Qed.

(* ---------- the sequence of writes ---------- *)
Lemma pairwise_app_in : forall (A : Type) (f : A -> A -> bool) a b c e,
  pairwise f (a ++ b :: c) = true -> In e a -> f e b = true.
Proof.
  intros A f a. induction a as [|a0 a IH]; intros b c e H Hin; [destruct Hin|].
  cbn [app pairwise] in H. apply andb_true_iff in H. destruct H as [H1 H2].
  destruct Hin as [->|Hin].
  - apply (proj1 (forallb_forall _ _) H1). apply in_or_app. right. left. reflexivity.
  - eapply IH; eassumption.
Qed.

Lemma ev_ok_in : forall n tab evs e, layout_okb n tab evs = true -> In e evs ->
  exists l, tab_loc tab (fst e) = Some l /\ loc_fitsb n l = true /\ val_okb l (snd e) = true.
Proof.
  intros n tab evs e H Hin. unfold layout_okb in H. apply andb_true_iff in H. destruct H as [H _].
  assert (E := proj1 (forallb_forall _ _) H e Hin). unfold ev_okb in E.
  destruct (tab_loc tab (fst e)) as [l|]; [|discriminate].
  apply andb_true_iff in E. destruct E. exists l. repeat split; assumption.
Qed.

Lemma apply_ok : forall n L tab evs done root,
  length root = n -> Forall byte root ->
  layout_okb n tab (done ++ evs) = true -> determined n L tab (done ++ evs) ->
  agrees tab done root ->
  exists root', apply_events (list Z) (store_tw L) evs root = Some root' /\ length root' = n /\ Forall byte root' /\
                agrees tab (done ++ evs) root'.
Proof.
  intros n L tab evs. induction evs as [|[p x] r IH]; intros done root Hn Hb Hok Hdet Hag.
  - exists root. rewrite app_nil_r. repeat split; assumption.
  - assert (HL := Hdet done p x r eq_refl root Hn Hb Hag).
    destruct (ev_ok_in n tab _ (p, x) Hok ltac:(apply in_or_app; right; left; reflexivity)) as [l [Ht [Hf Hv]]].
    cbn [fst snd] in Ht, Hv.
    destruct (write_one n l x root Hn Hb Hf Hv) as [bs [TW [Hn1 [Hb1 [RB FR]]]]].
    assert (Hag1 : agrees tab (done ++ [(p, x)]) (splice root (l_boff l) bs)).
    { intros q y Hin. apply in_app_or in Hin. destruct Hin as [Hin|[Hin|[]]].
      - destruct (Hag q y Hin) as [lq [Hq Rq]]. exists lq. split; [exact Hq|].
        rewrite FR; [exact Rq| |].
        + destruct (ev_ok_in n tab _ (q, y) Hok ltac:(apply in_or_app; left; exact Hin)) as [l' [Ht' [Hf' _]]].
          cbn [fst] in Ht'. congruence.
        + unfold layout_okb in Hok. apply andb_true_iff in Hok. destruct Hok as [_ Hp].
          assert (E := pairwise_app_in _ _ _ _ _ (q, y) Hp Hin). unfold ev_apartb in E. cbn [fst] in E.
          rewrite Hq, Ht in E. exact E.
      - inversion Hin; subst q y. exists l. split; assumption. }
    cbn [apply_events]. unfold store_tw at 1. rewrite HL, Ht, TW.
    destruct (IH (done ++ [(p, x)]) (splice root (l_boff l) bs) Hn1 Hb1) as [root' [A1 [A2 [A3 A4]]]].
    + rewrite <- app_assoc. exact Hok.
    + rewrite <- app_assoc. exact Hdet.
    + exact Hag1.
    + exists root'. rewrite <- app_assoc in A4. repeat split; assumption.
Qed.

(* Hstore of struct_roundtrip_partial, for the byte store *)
Lemma store_roundtrip_lem : forall n L tab evs,
  layout_okb n tab evs = true -> determined n L tab evs ->
  exists restored, apply_events (list Z) (store_tw L) evs (zeros n) = Some restored /\ length restored = n /\
                   (forall p x, In (p, x) evs -> store_rd L p restored = Some x).
Proof.
  intros n L tab evs Hok Hdet.
  destruct (apply_ok n L tab evs [] (zeros n) (zeros_length n) (zeros_byte n) Hok Hdet) as [root' [A1 [A2 [A3 A4]]]].
  { intros q y []. }
  exists root'. split; [exact A1|]. split; [exact A2|].
  intros p x Hin. cbn [app] in A4.
  destruct (in_split _ _ Hin) as [pre [post E]].
  assert (HL : L p root' = tab_loc tab p).
  { apply (Hdet pre p x post E root' A2 A3). intros q y Hq. apply A4. rewrite E. apply in_or_app. left. exact Hq. }
  destruct (A4 p x Hin) as [l [Hl Rl]]. unfold store_rd. rewrite HL, Hl. exact Rl.
Qed.

Lemma static_determined : forall n tab evs, determined n (static_layout tab) tab evs.
Proof. intros n tab evs pre p x post _ root _ _ _. reflexivity. Qed.

Lemma struct_roundtrip_dependent_lem : forall g o fs n L tab fuel,
  wf_val g (VStruct fs) -> opts_ok o -> (need (VStruct fs) <= fuel)%nat ->
  layout_okb n tab (events_of g [] (VStruct fs)) = true ->
  determined n L tab (events_of g [] (VStruct fs)) ->
  exists s restored,
    update_from_text (list Z) (store_tw L) fuel (schema_of (VStruct fs)) (write_to_string g o (VStruct fs)) (zeros n)
      = UOk s restored /\ snd s = [] /\ length restored = n /\
    (forall p x, In (p, x) (events_of g [] (VStruct fs)) -> store_rd L p restored = Some x).
Proof.
  intros g o fs n L tab fuel Hwf Ho Hf Hok Hdet.
  destruct (store_roundtrip_lem n L tab _ Hok Hdet) as [restored [A1 [A2 A3]]].
  destruct (struct_roundtrip_partial_lem (list Z) (store_tw L) (store_rd L) g o fs (zeros n) restored fuel Hwf Ho Hf
              (conj A1 A3)) as [s [S1 [S2 S3]]].
  exists s, restored. repeat split; assumption.
Qed.

Lemma struct_roundtrip_static_lem : forall g o fs n tab fuel,
  wf_val g (VStruct fs) -> opts_ok o -> (need (VStruct fs) <= fuel)%nat ->
  layout_okb n tab (events_of g [] (VStruct fs)) = true ->
  exists s restored,
    update_from_text (list Z) (store_tw (static_layout tab)) fuel (schema_of (VStruct fs))
                     (write_to_string g o (VStruct fs)) (zeros n) = UOk s restored /\ snd s = [] /\ length restored = n /\
    (forall p x, In (p, x) (events_of g [] (VStruct fs)) -> store_rd (static_layout tab) p restored = Some x).
Proof.
  intros g o fs n tab fuel Hwf Ho Hf Hok.
  apply (struct_roundtrip_dependent_lem g o fs n (static_layout tab) tab fuel Hwf Ho Hf Hok).
  apply static_determined.
Qed.

(* ---------- a non-trivial instance ---------- *)
(* struct S (6 bytes):  0 [+2] UInt a (BigEndian);  2 [+1] Int b;  3 [+2] bits c (LittleEndian): 0 [+1] Flag f,
   1 [+5] UInt u, 8 [+8] Bcd d;  5 [+1] enum e *)
Definition ex_snames : list (list Z * Z) := [([90], 0); ([66; 73; 71], 200)].
Definition ex_sview : tval :=
  VStruct [(mk_finfo [97] true ANone false false, VInt (mk_ity false W16) 48879);
           (mk_finfo [98] true AEmit false false, VInt (mk_ity true W8) (-2));
           (mk_finfo [99] true ANone false false,
              VStruct [(mk_finfo [102] true ANone false false, VBool true);
                       (mk_finfo [117] true ANone false false, VInt (mk_ity false W8) 21);
                       (mk_finfo [100] true ANone false false, VInt (mk_ity false W8) 42)]);
           (mk_finfo [101] true ANone false false, VEnum (mk_ity false W8) ex_snames 200)].
Definition ex_stab : ltab :=
  [([PField [97]], mk_loc BE 0 2 None SUInt (mk_ity false W16));
   ([PField [98]], mk_loc LE 2 1 None SInt (mk_ity true W8));
   ([PField [99]; PField [102]], mk_loc LE 3 2 (Some (0, 1)) SFlag (mk_ity false W8));
   ([PField [99]; PField [117]], mk_loc LE 3 2 (Some (1, 5)) SUInt (mk_ity false W8));
   ([PField [99]; PField [100]], mk_loc LE 3 2 (Some (8, 8)) SBcd (mk_ity false W8));
   ([PField [101]], mk_loc LE 5 1 None SEnum (mk_ity false W8))].
Definition ex_sopts : opts := mk_opts [32; 32] [] true true true 16.

Lemma ex_store :
  wf_val gt_std ex_sview /\ opts_ok ex_sopts /\
  layout_okb 6 ex_stab (events_of gt_std [] ex_sview) = true /\
  length (events_of gt_std [] ex_sview) = 6%nat /\
  exists s, update_from_text (list Z) (store_tw (static_layout ex_stab)) 40 (schema_of ex_sview)
              (write_to_string gt_std ex_sopts ex_sview) (zeros 6) = UOk s [190; 239; 254; 43; 66; 200] /\ snd s = [].
Proof.
  split; [|split; [|split; [|split]]].
  - cbn. repeat split; try discriminate; try reflexivity; try tauto;
      repeat constructor; cbn; intuition (try discriminate; try lia).
  - repeat split; try reflexivity. left; reflexivity.
  - vm_compute. reflexivity.
  - reflexivity.
  - eexists. vm_compute. split; reflexivity.
Qed.

(* ---------- the dependent layouts of Store.v (dyn_layout) are determined ---------- *)
Lemma pe_eqb_eq : forall a b, pe_eqb a b = true -> a = b.
Proof.
  intros [x|x] [y|y] H; cbn [pe_eqb] in H; try discriminate.
  - apply list_eqb_eq in H. congruence.
  - f_equal. lia.
Qed.

Lemma sp_eqb_eq : forall a b, sp_eqb a b = true -> a = b.
Proof.
  induction a as [|x a IH]; intros [|y b] H; cbn [sp_eqb] in H; try discriminate; [reflexivity|].
  apply andb_true_iff in H. destruct H as [H1 H2]. f_equal; [apply pe_eqb_eq; exact H1|apply IH; exact H2].
Qed.

Lemma sp_eqb_refl : forall a, sp_eqb a a = true.
Proof.
  induction a as [|x a IH]; [reflexivity|]. cbn [sp_eqb]. rewrite IH.
  destruct x; cbn [pe_eqb]; [rewrite list_eqb_refl|rewrite Z.eqb_refl]; reflexivity.
Qed.

Lemma pairwise_later : forall (A : Type) (f : A -> A -> bool) a b c e,
  pairwise f (a ++ b :: c) = true -> In e c -> f b e = true.
Proof.
  intros A f a. induction a as [|a0 a IH]; intros b c e H Hin.
  - cbn [app pairwise] in H. apply andb_true_iff in H. destruct H as [H1 _].
    apply (proj1 (forallb_forall _ _) H1). exact Hin.
  - cbn [app pairwise] in H. apply andb_true_iff in H. destruct H as [_ H2]. eapply IH; eassumption.
Qed.

Lemma loc_apartb_irrefl : forall n l, loc_fitsb n l = true -> loc_apartb l l = false.
Proof.
  intros n l Hf. unfold loc_fitsb in Hf.
  apply andb_true_iff in Hf. destruct Hf as [Hf F5]. apply andb_true_iff in Hf. destruct Hf as [Hf F4].
  apply andb_true_iff in Hf. destruct Hf as [Hf F3]. apply andb_true_iff in Hf. destruct Hf as [F1 F2].
  unfold loc_apartb, bytes_apartb, bits_apartb.
  destruct (l_bits l) as [[off w]|].
  - replace ((off + w <=? off) || (off + w <=? off)) with false by lia. rewrite andb_false_r. lia.
  - rewrite andb_false_r. lia.
Qed.

(* the paths of the written fields are pairwise different *)
Lemma paths_distinct : forall n tab pre p x post q y,
  layout_okb n tab (pre ++ (p, x) :: post) = true -> In (q, y) (pre ++ post) -> sp_eqb q p = false.
Proof.
  intros n tab pre p x post q y Hok Hin.
  destruct (sp_eqb q p) eqn:E; [|reflexivity]. apply sp_eqb_eq in E. subst q. exfalso.
  destruct (ev_ok_in n tab _ (p, x) Hok ltac:(apply in_or_app; right; left; reflexivity)) as [l [Ht [Hf _]]].
  cbn [fst] in Ht. assert (IR := loc_apartb_irrefl n l Hf).
  pose proof Hok as Hok'. unfold layout_okb in Hok'. apply andb_true_iff in Hok'. destruct Hok' as [_ Hp].
  apply in_app_or in Hin. destruct Hin as [Hin|Hin].
  - assert (A := pairwise_app_in _ _ _ _ _ (p, y) Hp Hin). unfold ev_apartb in A. cbn [fst] in A. rewrite Ht in A. congruence.
  - assert (A := pairwise_later _ _ _ _ _ (p, y) Hp Hin). unfold ev_apartb in A. cbn [fst] in A. rewrite Ht in A. congruence.
Qed.

Lemma resolve_none : forall dt evs acc p, (forall q y, In (q, y) evs -> sp_eqb q p = false) ->
  tab_loc (resolve dt acc evs) p = None.
Proof.
  intros dt evs. induction evs as [|[q y] r IH]; intros acc p H; [reflexivity|].
  cbn [resolve].
  assert (Hq : sp_eqb q p = false) by (apply (H q y); left; reflexivity).
  assert (Hr : forall q0 y0, In (q0, y0) r -> sp_eqb q0 p = false) by (intros; eapply H; right; eassumption).
  destruct (match dtab_find dt q with Some d => dloc_eval (ev_value acc) d | None => None end).
  - cbn [tab_loc]. rewrite Hq. apply IH. exact Hr.
  - apply IH. exact Hr.
Qed.

Lemma resolve_loc : forall dt pre acc p x post l,
  (forall q y, In (q, y) (pre ++ post) -> sp_eqb q p = false) ->
  tab_loc (resolve dt acc (pre ++ (p, x) :: post)) p = Some l ->
  exists d, dtab_find dt p = Some d /\ dloc_eval (ev_value (acc ++ pre)) d = Some l.
Proof.
  intros dt pre. induction pre as [|[q y] pre IH]; intros acc p x post l Hd H.
  - cbn [app resolve] in H. rewrite app_nil_r.
    destruct (dtab_find dt p) as [d|].
    + destruct (dloc_eval (ev_value acc) d) as [l'|] eqn:E.
      * cbn [tab_loc] in H. rewrite sp_eqb_refl in H. exists d. split; [reflexivity|]. congruence.
      * rewrite resolve_none in H by exact Hd. discriminate.
    + rewrite resolve_none in H by exact Hd. discriminate.
  - cbn [app resolve] in H.
    assert (Hq : sp_eqb q p = false) by (apply (Hd q y); left; reflexivity).
    assert (Hr : forall q0 y0, In (q0, y0) (pre ++ post) -> sp_eqb q0 p = false) by (intros; eapply Hd; right; eassumption).
    replace (acc ++ (q, y) :: pre) with ((acc ++ [(q, y)]) ++ pre) by (rewrite <- app_assoc; reflexivity).
    destruct (match dtab_find dt q with Some d => dloc_eval (ev_value acc) d | None => None end).
    + cbn [tab_loc] in H. rewrite Hq in H. eapply IH; eassumption.
    + eapply IH; eassumption.
Qed.

Lemma ev_value_split : forall pre q z, ev_value pre q = Some z ->
  exists pre1 y pre2, pre = pre1 ++ (q, y) :: pre2 /\ z = wv_z y.
Proof.
  induction pre as [|[p x] pre IH]; intros q z H; [discriminate|]. cbn [ev_value] in H.
  destruct (sp_eqb p q) eqn:E.
  - apply sp_eqb_eq in E. subst p. inversion H. exists [], x, pre. split; reflexivity.
  - destruct (IH q z H) as [pre1 [y [pre2 [E1 E2]]]]. exists ((p, x) :: pre1), y, pre2. subst pre. split; [reflexivity|exact E2].
Qed.

Lemma dloc_eval_mono : forall r1 r2 d l, (forall q z, r1 q = Some z -> r2 q = Some z) ->
  dloc_eval r1 d = Some l -> dloc_eval r2 d = Some l.
Proof.
  intros r1 r2 d l H E. unfold dloc_eval in *.
  destruct (forallb (test_holds r1) (d_tests d)) eqn:T; [|discriminate].
  assert (T2 : forallb (test_holds r2) (d_tests d) = true).
  { apply forallb_forall. intros t Ht. assert (T1 := proj1 (forallb_forall _ _) T t Ht).
    destruct t as [q k|q b]; cbn [test_holds] in *.
    - destruct (r1 q) as [z|] eqn:R; [|discriminate]. rewrite (H q z R). exact T1.
    - destruct (r1 q) as [z|] eqn:R; [|discriminate]. rewrite (H q z R). exact T1. }
  rewrite T2.
  assert (S2 : forall ts acc b, sum_terms r1 ts acc = Some b -> sum_terms r2 ts acc = Some b).
  { induction ts as [|q ts IH]; intros acc b Hs; cbn [sum_terms] in *; [exact Hs|].
    destruct (r1 q) as [z|] eqn:R; [|discriminate]. rewrite (H q z R). apply IH. exact Hs. }
  destruct (sum_terms r1 (d_terms d) (d_base d)) as [b|] eqn:S1; [|discriminate].
  rewrite (S2 _ _ _ S1). exact E.
Qed.

Lemma dyn_determined_lem : forall n fuel dt evs,
  (length evs <= fuel)%nat ->
  layout_okb n (resolve dt [] evs) evs = true ->
  determined n (dyn_layout fuel dt) (resolve dt [] evs) evs.
Proof.
  intros n fuel0 dt evs Hfuel Hok.
  set (tab := resolve dt [] evs) in *.
  assert (Main : forall k pre p x post, evs = pre ++ (p, x) :: post -> (length pre <= k)%nat ->
            forall fuel, (length pre < fuel)%nat ->
            forall root, length root = n -> Forall byte root -> agrees tab pre root ->
            dyn_loc fuel dt p root = tab_loc tab p).
  { induction k as [|k IHk]; intros pre p x post E Hk fuel Hf root Hn Hb Hag.
    - destruct pre; [|cbn in Hk; lia]. destruct fuel as [|f]; [lia|].
      rewrite E in Hok.
      destruct (ev_ok_in n tab _ (p, x) Hok ltac:(left; reflexivity)) as [l [Ht _]]. cbn [fst] in Ht.
      assert (Hd := paths_distinct n tab [] p x post). 
      unfold tab in Ht. rewrite E in Ht.
      destruct (resolve_loc dt [] [] p x post l) as [d [D1 D2]].
      { intros q y Hin. apply (Hd q y Hok Hin). }
      { exact Ht. }
      unfold tab. rewrite E. rewrite Ht. cbn [dyn_loc]. rewrite D1.
      eapply dloc_eval_mono; [|exact D2]. intros q z Hq. cbn in Hq. discriminate.
    - destruct fuel as [|f]; [lia|].
      assert (Hok' := Hok). rewrite E in Hok'.
      destruct (ev_ok_in n tab _ (p, x) Hok' ltac:(apply in_or_app; right; left; reflexivity)) as [l [Ht _]]. cbn [fst] in Ht.
      assert (Ht' := Ht). unfold tab in Ht'. rewrite E in Ht'.
      destruct (resolve_loc dt pre [] p x post l) as [d [D1 D2]].
      { intros q y Hin. apply (paths_distinct n tab pre p x post q y Hok' Hin). }
      { exact Ht'. }
      rewrite Ht. cbn [dyn_loc]. rewrite D1.
      eapply dloc_eval_mono; [|exact D2]. cbn [app]. intros q z Hq.
      destruct (ev_value_split pre q z Hq) as [pre1 [y [pre2 [E1 E2]]]].
      assert (Lq : dyn_loc f dt q root = tab_loc tab q).
      { apply (IHk pre1 q y (pre2 ++ (p, x) :: post)).
        - rewrite E, E1. rewrite <- app_assoc. reflexivity.
        - rewrite E1, app_length in Hk. cbn [length] in Hk. lia.
        - rewrite E1, app_length in Hf. cbn [length] in Hf. lia.
        - exact Hn.
        - exact Hb.
        - intros q0 y0 Hin. apply Hag. rewrite E1. apply in_or_app. left. exact Hin. }
      rewrite Lq.
      destruct (Hag q y ltac:(rewrite E1; apply in_or_app; right; left; reflexivity)) as [lq [Hlq Rq]].
      rewrite Hlq, Rq. cbn [option_map]. congruence. }
  intros pre p x post E root Hn Hb Hag. unfold dyn_layout.
  apply (Main (length pre) pre p x post E (le_n _) fuel0); try assumption.
  rewrite E, app_length in Hfuel. cbn [length] in Hfuel. lia.
Qed.

Lemma struct_roundtrip_dynamic_lem : forall g o fs n dt fuel lfuel,
  wf_val g (VStruct fs) -> opts_ok o -> (need (VStruct fs) <= fuel)%nat ->
  (length (events_of g [] (VStruct fs)) <= lfuel)%nat ->
  layout_okb n (resolve dt [] (events_of g [] (VStruct fs))) (events_of g [] (VStruct fs)) = true ->
  exists s restored,
    update_from_text (list Z) (store_tw (dyn_layout lfuel dt)) fuel (schema_of (VStruct fs))
                     (write_to_string g o (VStruct fs)) (zeros n) = UOk s restored /\ snd s = [] /\ length restored = n /\
    (forall p x, In (p, x) (events_of g [] (VStruct fs)) -> store_rd (dyn_layout lfuel dt) p restored = Some x).
Proof.
  intros g o fs n dt fuel lfuel Hwf Ho Hf Hl Hok.
  apply (struct_roundtrip_dependent_lem g o fs n (dyn_layout lfuel dt) _ fuel Hwf Ho Hf Hok).
  apply dyn_determined_lem; assumption.
Qed.

(* struct D (6 bytes, LittleEndian):  0 [+1] UInt tag;  if tag == 1: 1 [+2] UInt x;  3 [+1] UInt ptr;  ptr [+1] Int y *)
Definition ex_dview : tval :=
  VStruct [(mk_finfo [116] true ANone false false, VInt (mk_ity false W8) 1);
           (mk_finfo [120] true ANone false false, VInt (mk_ity false W16) 4660);
           (mk_finfo [112] true ANone false false, VInt (mk_ity false W8) 5);
           (mk_finfo [121] true ANone false false, VInt (mk_ity true W8) (-1))].
Definition ex_dtab : dtab :=
  [([PField [116]], mk_dloc [] 0 [] (mk_loc LE 0 1 None SUInt (mk_ity false W8)));
   ([PField [120]], mk_dloc [TEq [PField [116]] 1] 1 [] (mk_loc LE 0 2 None SUInt (mk_ity false W16)));
   ([PField [112]], mk_dloc [] 3 [] (mk_loc LE 0 1 None SUInt (mk_ity false W8)));
   ([PField [121]], mk_dloc [] 0 [[PField [112]]] (mk_loc LE 0 1 None SInt (mk_ity true W8)))].

Lemma ex_dyn :
  wf_val gt_std ex_dview /\
  layout_okb 6 (resolve ex_dtab [] (events_of gt_std [] ex_dview)) (events_of gt_std [] ex_dview) = true /\
  tab_loc (resolve ex_dtab [] (events_of gt_std [] ex_dview)) [PField [121]] = Some (mk_loc LE 5 1 None SInt (mk_ity true W8)) /\
  exists s, update_from_text (list Z) (store_tw (dyn_layout 4 ex_dtab)) 40 (schema_of ex_dview)
              (write_to_string gt_std ex_sopts ex_dview) (zeros 6) = UOk s [1; 52; 18; 5; 0; 255] /\ snd s = [].
Proof.
  split; [|split; [|split]].
  - cbn. repeat split; try discriminate; try reflexivity; try tauto;
      repeat constructor; cbn; intuition (try discriminate; try lia).
  - vm_compute. reflexivity.
  - vm_compute. reflexivity.
  - eexists. vm_compute. split; reflexivity.
Qed.
