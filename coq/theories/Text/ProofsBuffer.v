(* C06 -- WriteIntegerToTextStream never writes before the start of its stack buffer:
   the text is at most buffer_size - 1 characters (EMBOSS_DCHECK_GE(next_char, 0) holds). *)
From Coq Require Import ZArith List Bool Lia ZifyBool.
Import ListNotations.
Require Import EmbossV.Text.IntCodec EmbossV.Text.ProofsInt.
Open Scope Z_scope.

Fixpoint len_bound (K : nat) (dc g : Z) : Z :=
  match K with
  | O => 0
  | S K' => 1 + (if negb (dc =? 0) && (dc mod g =? 0) then 1 else 0) + len_bound K' (dc + 1) g
  end.

Lemma len_bound_nonneg : forall K dc g, 0 <= len_bound K dc g.
Proof.
  induction K as [|K IH]; intros dc g; cbn [len_bound]; [lia|].
  specialize (IH (dc + 1) g). destruct (negb (dc =? 0) && (dc mod g =? 0)); lia.
Qed.

Lemma digs_len : forall f K base grp v dc buf,
  2 <= base -> 0 <= v < base ^ Z.of_nat K ->
  Z.of_nat (length (digs f base grp v dc buf)) <= Z.of_nat (length buf) + len_bound K dc (grouping_of base).
Proof.
  induction f as [|f IH]; intros K base grp v dc buf Hb Hv.
  - cbn [digs]. pose proof (len_bound_nonneg K dc (grouping_of base)). lia.
  - rewrite digs_unfold. destruct (v >? 0) eqn:E.
    + destruct K as [|K]; [cbn in Hv; lia|].
      assert (Hq : 0 <= v / base < base ^ Z.of_nat K).
      { split; [apply Z.div_pos; lia|].
        apply Z.div_lt_upper_bound; [lia|].
        replace (Z.of_nat (S K)) with (Z.succ (Z.of_nat K)) in Hv by lia.
        rewrite Z.pow_succ_r in Hv by lia. lia. }
      specialize (IH K base grp (v / base) (dc + 1)
                    (digit_char (v mod base) ::
                     (if negb (dc =? 0) && (dc mod grouping_of base =? 0) && grp then ch_us :: buf else buf)) Hb Hq).
      cbn [len_bound]. cbn [length] in IH.
      destruct (negb (dc =? 0) && (dc mod grouping_of base =? 0)); destruct grp; cbn [andb length] in *; lia.
    + pose proof (len_bound_nonneg K dc (grouping_of base)). lia.
Qed.

(* enough digits for every value of the type *)
Definition max_digits (t : ity) (base : Z) : nat :=
  match ity_width t with
  | W8 => if base =? 2 then 8%nat else if base =? 16 then 2%nat else 3%nat
  | W16 => if base =? 2 then 16%nat else if base =? 16 then 4%nat else 5%nat
  | W32 => if base =? 2 then 32%nat else if base =? 16 then 8%nat else 10%nat
  | W64 => if base =? 2 then 64%nat else if base =? 16 then 16%nat else 20%nat
  end.

Lemma pow_check : forall t base, base_ok base = true ->
  ((if ity_signed t then ty_max t + 1 else ty_max t) <? base ^ Z.of_nat (max_digits t base)) = true.
Proof.
  intros t base Hb. apply base_ok_cases in Hb.
  destruct t as [[] []]; destruct Hb as [->|[->| ->]]; vm_compute; reflexivity.
Qed.

Lemma abs_lt_pow : forall t x base, base_ok base = true -> fits t x = true ->
  Z.abs x < base ^ Z.of_nat (max_digits t base).
Proof.
  intros t x base Hb Hx. apply fits_iff in Hx.
  pose proof (pow_check t base Hb) as P.
  pose proof (ty_facts t) as (F1 & F2 & F3 & F4 & F5 & F6 & F7 & F8).
  set (p := base ^ Z.of_nat (max_digits t base)) in *. clearbody p.
  destruct (ity_signed t).
  - destruct (F6 eq_refl) as [F6a F6b]. lia.
  - specialize (F5 eq_refl). lia.
Qed.

Definition text_bound (t : ity) (base : Z) : Z :=
  (if ity_signed t then 1 else 0) + (if base =? 10 then 0 else 2) +
  Z.max 1 (len_bound (max_digits t base) 0 (grouping_of base)).

Lemma text_bound_fits : forall t base, base_ok base = true -> text_bound t base <= buffer_size t - 1.
Proof.
  intros t base Hb. apply base_ok_cases in Hb.
  destruct t as [[] []]; destruct Hb as [->|[->| ->]]; vm_compute; discriminate.
Qed.

Lemma enc_finish_len : forall base neg body,
  Z.of_nat (length (enc_finish base neg body)) =
    (if neg then 1 else 0) + (if (base =? 16) || (base =? 2) then 2 else 0) + Z.of_nat (length body).
Proof.
  intros base neg body. unfold enc_finish.
  destruct (base =? 16); [|destruct (base =? 2)]; destruct neg; cbn [orb length]; lia.
Qed.

Lemma numeral_text_len : forall t x base grp, base_ok base = true -> fits t x = true ->
  Z.of_nat (length (numeral_text base grp x)) <= text_bound t base.
Proof.
  intros t x base grp Hb Hx.
  pose proof (abs_lt_pow t x base Hb Hx) as Habs.
  assert (Hb2 : 2 <= base) by (apply base_ok_range in Hb; lia).
  assert (Hv : 0 <= Z.abs x < base ^ Z.of_nat (max_digits t base)) by (split; [apply Z.abs_nonneg|exact Habs]).
  assert (Hsign : (x <? 0) = true -> ity_signed t = true).
  { intros H. eapply fits_neg_signed; [exact Hx|]. clear - H. lia. }
  unfold numeral_text, text_bound. rewrite enc_finish_len.
  assert (Hbody : Z.of_nat (length (if x =? 0 then [ch_0] else digs enc_fuel base grp (Z.abs x) 0 [])) <=
                  Z.max 1 (len_bound (max_digits t base) 0 (grouping_of base))).
  { destruct (x =? 0); [cbn [length]; lia|].
    pose proof (digs_len enc_fuel (max_digits t base) base grp (Z.abs x) 0 [] Hb2 Hv) as H.
    cbn [length] in H. clear - H. lia. }
  set (L := Z.of_nat (length (if x =? 0 then [ch_0] else digs enc_fuel base grp (Z.abs x) 0 []))) in *.
  set (M := Z.max 1 (len_bound (max_digits t base) 0 (grouping_of base))) in *.
  clearbody L M. clear Habs Hv Hx.
  assert (Hpre : (if (base =? 16) || (base =? 2) then 2 else 0) = (if base =? 10 then 0 else 2)).
  { apply base_ok_cases in Hb. destruct Hb as [->|[->| ->]]; reflexivity. }
  rewrite Hpre. clear Hpre Hb Hb2.
  destruct (x <? 0) eqn:En.
  - rewrite (Hsign eq_refl). clear - Hbody. destruct (base =? 10); lia.
  - clear - Hbody. destruct (ity_signed t); destruct (base =? 10); lia.
Qed.

(* every character written by buffer_char lands inside `char buffer[buffer_size]`, leaving room
   for the terminating NUL at buffer[buffer_size - 1] *)
Lemma encode_fits_buffer_lem : forall t x base grp text,
  encode_int t x base grp = Ok text -> Z.of_nat (length text) <= buffer_size t - 1.
Proof.
  intros t x base grp text H.
  destruct (base_ok base) eqn:Hb; [destruct (fits t x) eqn:Hx|].
  - rewrite encode_int_spec_lem in H by assumption. inversion H; subst.
    pose proof (numeral_text_len t x base grp Hb Hx). pose proof (text_bound_fits t base Hb). lia.
  - unfold encode_int in H. rewrite Hb, Hx in H. discriminate.
  - unfold encode_int in H. rewrite Hb in H. discriminate.
Qed.

(* the bound is attained: the lowest 64-bit value in grouped binary fills the buffer exactly *)
Lemma buffer_tight_example :
  exists text, encode_int (mk_ity true W64) (-9223372036854775808) 2 true = Ok text /\
               Z.of_nat (length text) = buffer_size (mk_ity true W64) - 1.
Proof. eexists. split; vm_compute; reflexivity. Qed.
