(* C06 -- the concrete byte store behind UpdateFromText.  DEFINITIONS ONLY.

   StructText.v leaves the store abstract: `update` calls `try_write path value store`.  Here the
   store is the byte buffer the view was made over, and TryToWrite / Read at a path are the
   scalar views of the runtime as modelled in Bits/Model.v (C02/C03):

     a path (field names / array indices from the root view) is mapped by a LAYOUT to a location
       (byte order, byte offset and size of the container, bit range inside a `bits` container or
        none when the scalar is the container itself, kind of view, C++ value type)
     TryToWrite(v)  = uint/int/bcd/flag/enum_try_write of Bits/Model.v on
                      BitBlock<ByteOrderer<ContiguousBuffer>>(root.GetOffsetStorage(boff, c))
                      [.GetOffsetStorage(off, w) for a field of a `bits`], the new container bytes
                      being put back into the root buffer (`splice`)
     Read()         = the corresponding *_read.

   A layout is a function of the CURRENT buffer (list pelem -> list Z -> option loc): the location
   of a field may depend on the values of other fields (dynamic offsets, existence conditions);
   a static layout is a constant table. *)
From Coq Require Import ZArith List Bool.
Import ListNotations.
Set Warnings "-notation-overridden".
Require Import EmbossV.Bits.Model.
Require Import EmbossV.Text.IntCodec EmbossV.Text.StructText.
Set Warnings "+notation-overridden".
Open Scope Z_scope.

(* ------------------------------------------------------------------ *)
(* locations                                                            *)
(* ------------------------------------------------------------------ *)
Inductive skind := SUInt | SInt | SBcd | SFlag | SEnum.

Record loc := mk_loc {
  l_order : order;               (* byte order of the container *)
  l_boff : nat;                  (* byte offset of the container in the root buffer *)
  l_c : nat;                     (* size of the container in bytes *)
  l_bits : option (Z * Z);       (* Some (off, w): bits [off, off+w) of a `bits` container (OffsetBitBlock);
                                    None: the scalar is the whole container (BitBlock) *)
  l_kind : skind;
  l_ty : ity                     (* View::ValueType (UInt/Int/Bcd), the underlying type of the enum; unused for Flag *)
}.

Definition l_w (l : loc) : Z :=
  match l_bits l with Some (_, w) => w | None => 8 * Z.of_nat (l_c l) end.

Definition cty_of (t : ity) : cty := mk_cty (ity_signed t) (wbits (ity_width t)).

(* the buffer_ member of the scalar view at location l of the root buffer *)
Definition loc_bv (l : loc) (root : list Z) : bitview :=
  let b := field_bv (l_order l) root (l_boff l) (l_c l) in
  match l_bits l with Some (off, w) => get_offset_storage b off w | None => b end.

(* view.TryToWrite(x); the argument type is the one ReadIntegerFromTextStream /
   ReadBooleanFromTextStream / ReadEnumViewFromTextStream pass (View::ValueType, bool, the enum).
   None also stands for a view/value combination that does not exist (excluded in statements). *)
Definition view_try_write (k : skind) (bv : bitview) (w : Z) (x : wv) : option (bool * option (list Z)) :=
  match k, x with
  | SUInt, WInt t v => uint_try_write true bv (cty_of t) w v
  | SInt, WInt t v => int_try_write true bv (cty_of t) w v
  | SBcd, WInt t v => bcd_try_write true bv (cty_of t) w v
  | SFlag, WBool b => flag_try_write true bv b
  | SEnum, WEnum t v => enum_try_write true bv (cty_of t) w v
  | _, _ => None
  end.

(* view.Read() as the value UpdateFromText would have to write to produce it *)
Definition view_read (k : skind) (t : ity) (bv : bitview) (w : Z) : option wv :=
  match k with
  | SUInt => option_map (WInt t) (uint_read true bv w)
  | SInt => option_map (WInt t) (int_read true bv w)
  | SBcd => option_map (WInt t) (bcd_read true bv w)
  | SFlag => option_map WBool (flag_read true bv)
  | SEnum => option_map (WEnum t) (enum_read true bv (cty_of t) w)
  end.

Definition loc_try_write (l : loc) (x : wv) (root : list Z) : option (bool * option (list Z)) :=
  view_try_write (l_kind l) (loc_bv l root) (l_w l) x.

Definition loc_read (l : loc) (root : list Z) : option wv :=
  view_read (l_kind l) (l_ty l) (loc_bv l root) (l_w l).

(* ------------------------------------------------------------------ *)
(* the store                                                            *)
(* ------------------------------------------------------------------ *)
Definition layout := list pelem -> list Z -> option loc.

(* TryToWrite at a path: false (None) when the field does not exist in the current buffer, when
   the view refuses the value, or when a step of the write is undefined *)
Definition store_tw (L : layout) (p : list pelem) (x : wv) (root : list Z) : option (list Z) :=
  match L p root with
  | None => None
  | Some l =>
      match loc_try_write l x root with
      | Some (true, Some bs) => Some (splice root (l_boff l) bs)
      | _ => None
      end
  end.

Definition store_rd (L : layout) (p : list pelem) (root : list Z) : option wv :=
  match L p root with
  | None => None
  | Some l => loc_read l root
  end.

(* ------------------------------------------------------------------ *)
(* static layouts: a table                                              *)
(* ------------------------------------------------------------------ *)
Definition pe_eqb (a b : pelem) : bool :=
  match a, b with
  | PField x, PField y => list_eqb x y
  | PIndex x, PIndex y => x =? y
  | _, _ => false
  end.

Fixpoint sp_eqb (a b : list pelem) : bool :=
  match a, b with
  | [], [] => true
  | x :: a', y :: b' => pe_eqb x y && sp_eqb a' b'
  | _, _ => false
  end.

Definition ltab := list (list pelem * loc).

Fixpoint tab_loc (tab : ltab) (p : list pelem) : option loc :=
  match tab with
  | [] => None
  | (q, l) :: r => if sp_eqb q p then Some l else tab_loc r p
  end.

Definition static_layout (tab : ltab) : layout := fun p _ => tab_loc tab p.

(* ------------------------------------------------------------------ *)
(* the class of layouts the round trip is proved for (boolean, so that  *)
(* the harness evaluates the same conditions on every generated case)   *)
(* ------------------------------------------------------------------ *)
Definition order_fitsb (o : order) (c : nat) : bool :=
  match o with Null | NullSized => Nat.eqb c 1 | _ => true end.

(* the container lies inside a buffer of n bytes, is 1..8 bytes long, the bit range lies inside
   the container; a Flag is one bit of a `bits` *)
Definition loc_fitsb (n : nat) (l : loc) : bool :=
  Nat.leb (l_boff l + l_c l) n && Nat.leb 1 (l_c l) && Nat.leb (l_c l) 8 && order_fitsb (l_order l) (l_c l) &&
  match l_bits l with
  | Some (off, w) => (1 <=? w) && (0 <=? off) && (off + w <=? 8 * Z.of_nat (l_c l))
  | None => match l_kind l with SFlag => false | _ => true end
  end.

(* LeastWidthInteger<w> *)
Definition lw_width (w : Z) : width :=
  if w <=? 8 then W8 else if w <=? 16 then W16 else if w <=? 32 then W32 else W64.

Definition ity_eqb (a b : ity) : bool :=
  Bool.eqb (ity_signed a) (ity_signed b) && (wbits (ity_width a) =? wbits (ity_width b)).

(* the value is one the view at l holds: in range of the field's width (decimal digits for Bcd);
   the value type is the view's.  Enums: unsigned underlying type (signed enums: finding F1 of
   C02/C03, not in this class). *)
Definition kval_okb (k : skind) (ty : ity) (w : Z) (x : wv) : bool :=
  match k, x with
  | SUInt, WInt t v => ity_eqb t ty && ity_eqb t (mk_ity false (lw_width w)) && (0 <=? v) && (v <? 2 ^ w)
  | SInt, WInt t v => ity_eqb t ty && ity_eqb t (mk_ity true (lw_width w)) && (- 2 ^ (w - 1) <=? v) && (v <? 2 ^ (w - 1))
  | SBcd, WInt t v => ity_eqb t ty && ity_eqb t (mk_ity false (lw_width w)) && (0 <=? v) && (v <=? bcd_max w)
  | SFlag, WBool _ => w =? 1
  | SEnum, WEnum t v => ity_eqb t ty && negb (ity_signed t) && (w <=? wbits (ity_width t)) && (0 <=? v) && (v <? 2 ^ w)
  | _, _ => false
  end.

Definition val_okb (l : loc) (x : wv) : bool := kval_okb (l_kind l) (l_ty l) (l_w l) x.

(* the two locations share no bit of the buffer: disjoint containers, or disjoint bit ranges of
   one and the same `bits` container *)
Definition bytes_apartb (a b : loc) : bool :=
  Nat.leb (l_boff a + l_c a) (l_boff b) || Nat.leb (l_boff b + l_c b) (l_boff a).

Definition order_eqb (a b : order) : bool :=
  match a, b with LE, LE | BE, BE | Null, Null | NullSized, NullSized => true | _, _ => false end.

Definition bits_apartb (a b : loc) : bool :=
  order_eqb (l_order a) (l_order b) && Nat.eqb (l_boff a) (l_boff b) && Nat.eqb (l_c a) (l_c b) &&
  match l_bits a, l_bits b with
  | Some (o1, w1), Some (o2, w2) => (o1 + w1 <=? o2) || (o2 + w2 <=? o1)
  | _, _ => false
  end.

Definition loc_apartb (a b : loc) : bool := bytes_apartb a b || bits_apartb a b.

Definition ev_okb (n : nat) (tab : ltab) (e : event) : bool :=
  match tab_loc tab (fst e) with
  | Some l => loc_fitsb n l && val_okb l (snd e)
  | None => false
  end.

Definition ev_apartb (tab : ltab) (e1 e2 : event) : bool :=
  match tab_loc tab (fst e1), tab_loc tab (fst e2) with
  | Some a, Some b => loc_apartb a b
  | _, _ => false
  end.

Fixpoint pairwise {A : Type} (f : A -> A -> bool) (l : list A) : bool :=
  match l with
  | [] => true
  | a :: r => forallb (f a) r && pairwise f r
  end.

(* every written field has a location in the table that fits a buffer of n bytes and holds the
   value; the locations of the written fields are pairwise disjoint *)
Definition layout_okb (n : nat) (tab : ltab) (evs : list event) : bool :=
  forallb (ev_okb n tab) evs && pairwise (ev_apartb tab) evs.

(* ------------------------------------------------------------------ *)
(* layouts that depend on the buffer                                    *)
(* ------------------------------------------------------------------ *)

(* the fields written so far read back, at the locations of the table, the values written *)
Definition agrees (tab : ltab) (evs : list event) (root : list Z) : Prop :=
  forall q y, In (q, y) evs -> exists l, tab_loc tab q = Some l /\ loc_read l root = Some y.

(* "emission order is dependency order": when a field is about to be written, its location in
   the buffer being restored is determined by the fields written before it, and it is the
   location `tab` gives (the one it has in the view the text was written from) *)
Definition determined (n : nat) (L : layout) (tab : ltab) (evs : list event) : Prop :=
  forall pre p x post, evs = pre ++ (p, x) :: post ->
    forall root, length root = n -> Forall byte root -> agrees tab pre root ->
      L p root = tab_loc tab p.

(* ------------------------------------------------------------------ *)
(* a concrete language of dependent layouts: the byte offset of a       *)
(* container is a constant plus the values of integer fields, a field   *)
(* exists when a conjunction of tests on other fields holds             *)
(* ------------------------------------------------------------------ *)
Inductive ltest :=
| TEq (p : list pelem) (k : Z)        (* if p == k *)
| TFlag (p : list pelem) (b : bool).  (* if p   /  if !p  (boolean field) *)

Record dloc := mk_dloc {
  d_tests : list ltest;           (* existence condition (of the field and of the structures around it) *)
  d_base : Z;                     (* constant part of the byte offset *)
  d_terms : list (list pelem);    (* fields whose values are added *)
  d_loc : loc                     (* everything else (l_boff is ignored) *)
}.

Definition dtab := list (list pelem * dloc).

Fixpoint dtab_find (tab : dtab) (p : list pelem) : option dloc :=
  match tab with
  | [] => None
  | (q, d) :: r => if sp_eqb q p then Some d else dtab_find r p
  end.

Definition wv_z (x : wv) : Z :=
  match x with WInt _ z => z | WEnum _ z => z | WBool b => if b then 1 else 0 end.

Definition set_boff (l : loc) (b : nat) : loc :=
  mk_loc (l_order l) b (l_c l) (l_bits l) (l_kind l) (l_ty l).

(* the location a table entry denotes, given the values of the fields it refers to *)
Section DEval.
  Variable rdz : list pelem -> option Z.

  Definition test_holds (t : ltest) : bool :=
    match t with
    | TEq q k => match rdz q with Some z => z =? k | None => false end
    | TFlag q b => match rdz q with Some z => Bool.eqb (negb (z =? 0)) b | None => false end
    end.

  Fixpoint sum_terms (l : list (list pelem)) (acc : Z) : option Z :=
    match l with
    | [] => Some acc
    | q :: r => match rdz q with Some z => sum_terms r (acc + z) | None => None end
    end.

  Definition dloc_eval (d : dloc) : option loc :=
    if forallb test_holds (d_tests d) then
      match sum_terms (d_terms d) (d_base d) with
      | Some b => if 0 <=? b then Some (set_boff (d_loc d) (Z.to_nat b)) else None
      | None => None
      end
    else None.
End DEval.

(* evaluation on the current buffer; reading a field another one depends on needs that field's
   own location, hence the fuel (the depth of the dependency chain) *)
Fixpoint dyn_loc (fuel : nat) (tab : dtab) (p : list pelem) (root : list Z) {struct fuel} : option loc :=
  match fuel with
  | O => None
  | S f =>
      match dtab_find tab p with
      | None => None
      | Some d =>
          dloc_eval (fun q => match dyn_loc f tab q root with
                              | Some l => option_map wv_z (loc_read l root)
                              | None => None
                              end) d
      end
  end.

Definition dyn_layout (fuel : nat) (tab : dtab) : layout := fun p root => dyn_loc fuel tab p root.

(* the static table a dependent table denotes for a given sequence of writes: the location of
   each written field, evaluated with the values of the fields written before it (that is: in
   the view the text was written from) *)
Fixpoint ev_value (evs : list event) (q : list pelem) : option Z :=
  match evs with
  | [] => None
  | (p, x) :: r => if sp_eqb p q then Some (wv_z x) else ev_value r q
  end.

Fixpoint resolve (dt : dtab) (pre evs : list event) : ltab :=
  match evs with
  | [] => []
  | (p, x) :: r =>
      match match dtab_find dt p with Some d => dloc_eval (ev_value pre) d | None => None end with
      | Some l => (p, l) :: resolve dt (pre ++ [(p, x)]) r
      | None => resolve dt (pre ++ [(p, x)]) r
      end
  end.
