(* C06 -- the text-level round trip for structures (scalars, enums, nested structures, arrays). *)
From Coq Require Import ZArith List Bool Lia ZifyBool.
Import ListNotations.
Require Import EmbossV.Text.IntCodec EmbossV.Text.ProofsInt EmbossV.Text.ProofsToken EmbossV.Text.StructText
               EmbossV.Text.ProofsStruct EmbossV.Text.ProofsArray.
Open Scope Z_scope.

Section RT3.
  Variable W : Type.
  Variable tw : list pelem -> wv -> W -> option W.

  Lemma rt_val_all : forall v, RT_val W tw v.
  Proof.
    apply tval_ind2.
    - (* VInt *)
      intros t x g o path b pad rest w w' fuel Hwf Ho Hp Ha Hf Hev.
      destruct fuel as [|f]; [cbn [need] in Hf; lia|].
      cbn [events_of leaf_event apply_events] in Hev.
      destruct (tw path (WInt t x) w) as [w1|] eqn:E; [|discriminate]. inversion Hev; subst w1.
      change (write_val g o (VInt t x)) with (write_val gt_std o (VInt t x)).
      apply (rt_int W tw t x o path b pad rest w w' f); assumption.
    - (* VBool *)
      intros bv g o path b pad rest w w' fuel Hwf Ho Hp Ha Hf Hev.
      destruct fuel as [|f]; [cbn [need] in Hf; lia|].
      cbn [events_of leaf_event apply_events] in Hev.
      destruct (tw path (WBool bv) w) as [w1|] eqn:E; [|discriminate]. inversion Hev; subst w1.
      change (write_val g o (VBool bv)) with (write_val gt_std o (VBool bv)).
      cbn [trail_of app]. cbn [schema_of].
      apply (rt_bool W tw bv o path b pad rest w w' f); [assumption|apply Ha; reflexivity|assumption].
    - (* VEnum *)
      intros t names x g o path b pad rest w w' fuel Hwf Ho Hp Ha Hf Hev.
      destruct fuel as [|f]; [cbn [need] in Hf; lia|].
      cbn [events_of leaf_event apply_events] in Hev.
      destruct (tw path (WEnum t x) w) as [w1|] eqn:E; [|discriminate]. inversion Hev; subst w1.
      change (write_val g o (VEnum t names x)) with (write_val gt_std o (VEnum t names x)).
      cbn [wf_val] in Hwf. destruct Hwf as [Hx Hn].
      apply (rt_enum W tw t names x o path b pad rest w w' f); assumption.
    - (* VStruct *)
      intros fs HF g o path b pad rest w w' fuel Hwf Ho Hp Ha Hfuel Hev.
      rewrite need_struct in Hfuel. destruct fuel as [|f]; [lia|].
      destruct (wf_struct_forall g fs Hwf) as [ND Hok].
      rewrite schema_struct, update_S_struct, write_struct_unfold.
      rewrite events_struct in Hev.
      cbn [trail_of app].
      pose proof Ho as (O1 & O2 & O3 & O4).
      (* the opening brace *)
      set (sk := if o_multiline o then [ch_lf] else @nil Z).
      set (cl := if o_multiline o then o_cur o else [ch_space]).
      assert (Hshape : (open_text o ++ wfields g (plus_one_indent o) fs false ++ close_text o) ++ rest =
                       ch_lbrace :: sk ++ wfields g (plus_one_indent o) fs false ++ cl ++ ch_rbrace :: rest).
      { unfold open_text, close_text, sk, cl. destruct (o_multiline o); cbn [app]; rewrite <- !app_assoc; reflexivity. }
      rewrite Hshape.
      destruct (read_punct b pad ch_lbrace
                  (sk ++ wfields g (plus_one_indent o) fs false ++ cl ++ ch_rbrace :: rest)
                  (ws_like_space pad Hp) eq_refl ltac:(discriminate)) as [b1 RT].
      rewrite RT. change (list_eqb [ch_lbrace] [ch_lbrace]) with true. cbv iota.
      apply (fields_loop W tw g (plus_one_indent o) path cl rest fs (opts_ok_plus o Ho)
               ltac:(unfold cl; destruct (o_multiline o); [exact O2|reflexivity]) ND fs HF Hok [] eq_refl
               b1 sk false w w' f
               ltac:(unfold sk; destruct (o_multiline o); [apply ws_like_space; reflexivity|apply ws_like_nil])
               ltac:(lia) Hev).
    - (* VArray *)
      intros a es HF. apply rt_array. exact HF.
  Qed.

  (* UpdateFromText(WriteToString(view, options)) performs exactly the TryToWrite calls of the
     fields that were written as `name: value`, in that (dependency) order, returns true and
     consumes the whole text. *)
  Lemma text_roundtrip_lem : forall g o fs w w' fuel,
    wf_val g (VStruct fs) -> opts_ok o -> (need (VStruct fs) <= fuel)%nat ->
    apply_events W tw (events_of g [] (VStruct fs)) w = Some w' ->
    exists s, update_from_text W tw fuel (schema_of (VStruct fs)) (write_to_string g o (VStruct fs)) w = UOk s w' /\
              snd s = [].
  Proof.
    intros g o fs w w' fuel Hwf Ho Hf Hev.
    destruct (rt_val_all (VStruct fs) g o [] [] [] [] w w' fuel Hwf Ho eq_refl (fun _ => I) Hf Hev) as [b' H].
    unfold update_from_text, write_to_string, st_of.
    cbn [app] in H. rewrite app_nil_r in H. cbn [trail_of app] in H.
    exists (b', []). split; [exact H|reflexivity].
  Qed.

  (* the same for an array value on its own (multi-line: elements separated by line breaks only;
     single line: by commas, index markers every 8 elements) *)
  Lemma array_roundtrip_lem : forall g o a es path w w' fuel,
    wf_val g (VArray a es) -> opts_ok o -> (need (VArray a es) <= fuel)%nat ->
    apply_events W tw (events_of g path (VArray a es)) w = Some w' ->
    exists s, update W tw fuel (schema_of (VArray a es)) path (st_of (write_val g o (VArray a es))) w = UOk s w' /\
              snd s = [].
  Proof.
    intros g o a es path w w' fuel Hwf Ho Hf Hev.
    destruct (rt_val_all (VArray a es) g o path [] [] [] w w' fuel Hwf Ho eq_refl (fun _ => I) Hf Hev) as [b' H].
    unfold st_of. cbn [app] in H. rewrite app_nil_r in H. cbn [trail_of app] in H.
    exists (b', []). split; [exact H|reflexivity].
  Qed.
End RT3.

(* struct_roundtrip_partial.  The storage step -- "performing, on the zeroed buffer, the TryToWrite
   calls of the emitted fields in dependency order succeeds and afterwards each of them reads back"
   -- depends on the layout semantics (C01/C03) and on the dependency order (C15); it is the named
   hypothesis Hstore.  Everything that the TEXT contributes is proved: the text is re-read to
   exactly those calls. *)
Lemma struct_roundtrip_partial_lem :
  forall (W : Type) (tw : list pelem -> wv -> W -> option W) (rd : list pelem -> W -> option wv)
         g o fs zeroed restored fuel,
    wf_val g (VStruct fs) -> opts_ok o -> (need (VStruct fs) <= fuel)%nat ->
    forall Hstore : apply_events W tw (events_of g [] (VStruct fs)) zeroed = Some restored /\
                    (forall p x, In (p, x) (events_of g [] (VStruct fs)) -> rd p restored = Some x),
    exists s, update_from_text W tw fuel (schema_of (VStruct fs)) (write_to_string g o (VStruct fs)) zeroed
              = UOk s restored /\ snd s = [] /\
              (forall p x, In (p, x) (events_of g [] (VStruct fs)) -> rd p restored = Some x).
Proof.
  intros W tw rd g o fs zeroed restored fuel Hwf Ho Hf [H1 H2].
  destruct (text_roundtrip_lem W tw g o fs zeroed restored fuel Hwf Ho Hf H1) as [s [Hs Hn]].
  exists s. repeat split; assumption.
Qed.

(* every field written as `name: value` is in the event list, at its place *)
Lemma events_emitted_lem : forall g path fi fv pre post,
  emits_value g fi = true ->
  events_of g path (VStruct (pre ++ (fi, fv) :: post)) =
    events_of g path (VStruct pre) ++ events_of g (path ++ [PField (f_name fi)]) fv ++ events_of g path (VStruct post).
Proof.
  intros g path fi fv pre post H. rewrite !events_struct.
  induction pre as [|[fi0 fv0] pre IH]; cbn [app events_fields].
  - rewrite H. reflexivity.
  - rewrite IH. rewrite <- app_assoc. reflexivity.
Qed.

(* ------------------------------------------------------------------ *)
(* non-vacuity: a concrete view satisfying the hypotheses               *)
(* ------------------------------------------------------------------ *)
Definition ex_names : list (list Z * Z) := [([90; 69; 82; 79], 0); ([79; 78; 69], 1)].   (* ZERO = 0, ONE = 1 *)
Definition ex_inner : tval :=
  VStruct [(mk_finfo [120] true ANone false false, VInt (mk_ity true W16) (-32768));
           (mk_finfo [107] true AEmit false false, VEnum (mk_ity false W8) ex_names 1)].
Definition ex_array : tval :=
  VArray true [VInt (mk_ity false W8) 65; VInt (mk_ity false W8) 35; VInt (mk_ity false W8) 0].
Definition ex_view : tval :=
  VStruct [(mk_finfo [97; 114; 114] true ANone false false, ex_array);
           (mk_finfo [116; 97; 103] true ANone false false, VInt (mk_ity false W8) 200);
           (mk_finfo [115] true ASkip false false, VInt (mk_ity false W8) 7);
           (mk_finfo [97; 98; 115] false ANone false false, VInt (mk_ity false W32) 0);
           (mk_finfo [102] true AEmit false false, VBool true);
           (mk_finfo [105; 110] true ANone false false, ex_inner);
           (mk_finfo [101] true ANone false false, VEnum (mk_ity false W8) ex_names 9);
           (mk_finfo [118] true ANone true false, VInt (mk_ity true W32) 207)].
Definition ex_opts : opts := mk_opts [32; 32] [] true true true 16.
Definition ex_rec (p : list pelem) (x : wv) (w : list event) : option (list event) := Some ((p, x) :: w).

Lemma ex_wf : wf_val gt_std ex_view /\ opts_ok ex_opts.
Proof.
  split.
  - cbn. repeat split; try discriminate; try reflexivity; try tauto;
      repeat constructor; cbn; intuition (try discriminate; try lia).
  - repeat split; try reflexivity. left; reflexivity.
Qed.

Lemma ex_roundtrip :
  exists s w, update_from_text (list event) ex_rec 40 (schema_of ex_view) (write_to_string gt_std ex_opts ex_view) []
              = UOk s w /\ snd s = [] /\ rev w = events_of gt_std [] ex_view /\ length w = 8%nat.
Proof. eexists. eexists. vm_compute. repeat split. Qed.

Definition ex_opts_single : opts := mk_opts [] [] false false false 10.
Lemma ex_roundtrip_single :
  opts_ok ex_opts_single /\
  exists s w, update_from_text (list event) ex_rec 40 (schema_of ex_view) (write_to_string gt_std ex_opts_single ex_view) []
              = UOk s w /\ snd s = [] /\ rev w = events_of gt_std [] ex_view.
Proof. split; [repeat split; try reflexivity; right; reflexivity|]. eexists. eexists. vm_compute. repeat split. Qed.

Lemma ex_codec :
  encode_int (mk_ity true W8) (-128) 2 true = Ok [45; 48; 98; 49; 48; 48; 48; 48; 48; 48; 48] /\
  decode_int (mk_ity true W8) [45; 48; 98; 49; 48; 48; 48; 48; 48; 48; 48] = Ok (-128) /\
  decode_int (mk_ity true W8) [49; 50; 56] = Reject /\ numeral_value true [49; 50; 56] = Some 128 /\
  decode_int (mk_ity false W8) [45; 49] = Reject /\
  encode_int (mk_ity false W64) 18446744073709551615 10 true =
    Ok [49;56;95;52;52;54;95;55;52;52;95;48;55;51;95;55;48;57;95;53;53;49;95;54;49;53].
Proof. vm_compute. repeat split. Qed.
