(* C06 -- arrays: the text written by WriteArrayToTextStream is read back by ReadArrayFromTextStream. *)
From Coq Require Import ZArith List Bool Lia ZifyBool.
Import ListNotations.
Require Import EmbossV.Text.IntCodec EmbossV.Text.ProofsInt EmbossV.Text.ProofsToken EmbossV.Text.StructText
               EmbossV.Text.ProofsStruct.
Open Scope Z_scope.

(* the local fixpoints of write_val, named *)
Fixpoint welems_m (g : gentab) (eo o : opts) (l : list tval) (i : Z) : list Z :=
  match l with
  | [] => []
  | e :: r => s_lf ++ o_cur eo ++ [ch_lbrack] ++ index_text o i ++ s_idx_close ++
              write_val g eo e ++ welems_m g eo o r (i + 1)
  end.

Fixpoint welems_s (g : gentab) (eo o : opts) (n : Z) (l : list tval) (i : Z) : list Z :=
  match l with
  | [] => []
  | e :: r => [ch_space] ++
              (if i mod 8 =? 0 then [ch_lbrack] ++ index_text o i ++ s_idx_close else []) ++
              write_val g eo e ++
              (if i <? n - 1 then [ch_comma] else []) ++ welems_s g eo o n r (i + 1)
  end.

Lemma write_array_unfold : forall g o a es,
  write_val g o (VArray a es) =
    let eo := plus_one_indent o in
    if o_multiline o then
      [ch_lbrace] ++ (if a && o_multiline eo && o_comments eo then ascii_comment eo es 0 else []) ++
      welems_m g eo o es 0 ++ s_lf ++ o_cur o ++ [ch_rbrace]
    else
      [ch_lbrace] ++ welems_s g eo o (Z.of_nat (length es)) es 0 ++ [ch_space; ch_rbrace].
Proof.
  intros g o a es. cbn [write_val]. cbv zeta. destruct (o_multiline o).
  - f_equal. f_equal. f_equal. generalize 0.
    induction es as [|e r IH]; intros i; [reflexivity|]. cbn [welems_m]. rewrite IH. reflexivity.
  - f_equal. f_equal. generalize (Z.of_nat (length es)). intros n. generalize 0 at 2 3.
    induction es as [|e r IH]; intros i; [reflexivity|]. cbn [welems_s]. rewrite IH. reflexivity.
Qed.

(* the first character of a value text *)
Definition starts_value (c : Z) : Prop :=
  is_space c = false /\ c <> ch_hash /\ c <> ch_rbrace /\ c <> ch_lbrack /\ c <> ch_comma.

Lemma tok_head_starts : forall tok, tok <> [] -> tok_chars tok = true ->
  exists c r, tok = c :: r /\ starts_value c.
Proof.
  intros [|c r] NE H; [congruence|]. exists c, r. split; [reflexivity|].
  unfold tok_chars in H. cbn [forallb] in H. apply andb_true_iff in H. destruct H as [H _].
  unfold starts_value. unfold is_delim, is_punct in H.
  unfold ch_hash, ch_rbrace, ch_lbrack, ch_comma in *. repeat split; lia.
Qed.

Lemma write_val_head : forall g o v, wf_val g v -> opts_ok o ->
  exists c r, write_val g o v = c :: r /\ starts_value c.
Proof.
  intros g o v Hwf (O1 & O2 & O3 & O4).
  assert (N : forall t x, fits t x = true -> forall tl,
              exists c r, enc t x (o_base o) (o_grouping o) ++ tl = c :: r /\ starts_value c).
  { intros t x Hx tl. rewrite enc_eq by assumption.
    destruct (numeral_text_tok (o_base o) (o_grouping o) x O3) as (T1 & T2 & T3).
    destruct (tok_head_starts _ T3 T1) as [c [r [E S]]]. rewrite E. exists c, (r ++ tl). split; [reflexivity|exact S]. }
  destruct v; cbn [write_val wf_val] in *.
  - unfold write_int. apply N. exact Hwf.
  - destruct b; eexists; eexists; (split; [reflexivity|]); repeat split; discriminate.
  - destruct Hwf as [Hx [ND HF]]. unfold write_enum.
    destruct (enum_name names x) as [n|] eqn:E.
    + apply enum_name_in in E. rewrite Forall_forall in HF. specialize (HF _ E). cbn [fst] in HF.
      destruct HF as [[NE TC] _]. destruct (tok_head_starts _ NE TC) as [c [r [E2 S]]].
      rewrite E2. eexists. eexists. split; [reflexivity|exact S].
    + rewrite <- (app_nil_r (enc t x (o_base o) (o_grouping o))). apply N. exact Hx.
  - destruct (o_multiline o); eexists; eexists; (split; [reflexivity|]); repeat split; discriminate.
  - destruct (o_multiline o); eexists; eexists; (split; [reflexivity|]); repeat split; discriminate.
Qed.

(* the ASCII shorthand comment, followed by a line break, is skipped like white space *)
Lemma ascii_comment_skip : forall eo es i ic x,
  forallb is_blank (o_cur eo) = true -> 0 <= i -> (ic = true \/ i mod 64 = 0) ->
  skip_ws ic (ascii_comment eo es i ++ ch_lf :: x) = skip_ws false x.
Proof.
  intros eo es. induction es as [|e r IH]; intros i ic x Hcur Hi Hic.
  - cbn [ascii_comment app skip_ws]. change (ch_lf =? ch_hash) with false.
    change ((ch_lf =? ch_cr) || (ch_lf =? ch_lf)) with true. cbv iota.
    change (is_space ch_lf) with true. rewrite orb_true_r. reflexivity.
  - cbn [ascii_comment].
    set (c := if (32 <=? int_of e) && (int_of e <=? 126) then int_of e else 46).
    assert (Hc : ((c =? ch_cr) || (c =? ch_lf)) = false).
    { unfold c, ch_cr, ch_lf. destruct ((32 <=? int_of e) && (int_of e <=? 126)) eqn:E; lia. }
    assert (Hstep : forall y, skip_ws true (c :: y) = skip_ws true y).
    { intros y. cbn [skip_ws]. rewrite Hc. destruct (c =? ch_hash); reflexivity. }
    destruct (i mod 64 =? 0) eqn:E64.
    + (* a new comment line: LF, indent, "# " *)
      rewrite <- !app_assoc. cbn [app s_lf].
      assert (Hlf : forall ic0 y, skip_ws ic0 (ch_lf :: y) = skip_ws false y).
      { intros ic0 y. cbn [skip_ws]. change (ch_lf =? ch_hash) with false.
        change ((ch_lf =? ch_cr) || (ch_lf =? ch_lf)) with true. cbv iota.
        change (is_space ch_lf) with true. rewrite orb_true_r. reflexivity. }
      rewrite Hlf. rewrite skip_ws_blank by (apply blank_is_space; exact Hcur).
      cbn [s_hash_sp app].
      assert (Hh : forall y, skip_ws false (ch_hash :: ch_space :: y) = skip_ws true y).
      { intros y. reflexivity. }
      rewrite Hh. rewrite Hstep. apply IH; [exact Hcur|lia|left; reflexivity].
    + destruct Hic as [->|Hm]; [|lia].
      cbn [app]. rewrite Hstep. apply IH; [exact Hcur|lia|left; reflexivity].
Qed.

Lemma skip_ws_pad_stop : forall pad c y,
  forallb is_space pad = true -> is_space c = false -> c <> ch_hash ->
  skip_ws false (pad ++ c :: y) = c :: y.
Proof. intros pad c y H1 H2 H3. rewrite skip_ws_blank by exact H1. apply skip_ws_stop; assumption. Qed.

Lemma lf_blank_space : forall cur, forallb is_blank cur = true -> forallb is_space (s_lf ++ cur) = true.
Proof. intros cur H. cbn [s_lf app forallb]. rewrite (blank_is_space _ H). reflexivity. Qed.

Lemma skip_ws_lf : forall x, skip_ws false (ch_lf :: x) = skip_ws false x.
Proof. intros x. reflexivity. Qed.

Section ArrayRT.
  Variable W : Type.
  Variable tw : list pelem -> wv -> W -> option W.

  Lemma array_loop_S : forall f n e path index s w,
    array_loop W tw (S f) n e path index s w =
      match discard_whitespace s with
      | None => UFail w
      | Some s1 =>
          match st_read s1 with
          | None => UFail w
          | Some (c, s2) =>
              if c =? ch_rbrace then UOk s2 w
              else
                let hdr : hres :=
                  if c =? ch_lbrack then
                    match read_token s2 with
                    | None => HFail
                    | Some (itext, s3) =>
                        match decode_int u64 itext with
                        | Ok i =>
                            match read_token s3 with
                            | None => HFail
                            | Some (rb, s4) =>
                                if negb (list_eqb rb [ch_rbrack]) then HFail
                                else match read_token s4 with
                                     | None => HFail
                                     | Some (colon, s5) =>
                                         if negb (list_eqb colon [ch_colon]) then HFail else HOk s5 i
                                     end
                            end
                        | Reject => HFail
                        | _ => HBad
                        end
                    end
                  else match st_unread c s2 with Some s3 => HOk s3 index | None => HFail end in
                match hdr with
                | HOk s6 i =>
                    if i >=? n then UFail w
                    else
                      match update W tw f e (path ++ [PIndex i]) s6 w with
                      | UOk s7 w7 =>
                          match discard_whitespace s7 with
                          | None => UFail w7
                          | Some s8 =>
                              match st_read s8 with
                              | None => UFail w7
                              | Some (c2, s9) =>
                                  if c2 =? ch_comma then array_loop W tw f n e path (i + 1) s9 w7
                                  else match st_unread c2 s9 with
                                       | Some s10 => array_loop W tw f n e path (i + 1) s10 w7
                                       | None => UFail w7
                                       end
                              end
                          end
                      | e7 => e7
                      end
                | HFail => UFail w
                | HBad => UBad
                end
          end
      end.
  Proof. reflexivity. Qed.

  Lemma update_S_array : forall f n e path s w,
    update W tw (S f) (SArray n e) path s w =
      match read_token s with
      | None => UFail w
      | Some (brace, s1) => if list_eqb brace [ch_lbrace] then array_loop W tw f n e path 0 s1 w else UFail w
      end.
  Proof. reflexivity. Qed.

  (* DiscardWhitespace followed by Read: the first character that is not white space *)
  Lemma discard_read : forall b a c y,
    skip_ws false a = c :: y ->
    exists b', discard_whitespace (b, a) = Some (b', c :: y) /\ st_read (b', c :: y) = Some (c, (c :: b', y)) /\
               st_unread c (c :: b', y) = Some (b', c :: y).
  Proof.
    intros b a c y H. destruct (discard_whitespace_pure b a) as [b' [H1 _]]. rewrite H in H1.
    exists b'. split; [exact H1|]. split; [reflexivity|].
    unfold st_unread. cbn [fst snd]. rewrite Z.eqb_refl. reflexivity.
  Qed.

  Lemma skip_ws_idem : forall c y, is_space c = false -> c <> ch_hash -> skip_ws false (c :: y) = c :: y.
  Proof. intros. apply skip_ws_stop; assumption. Qed.

  (* the index header "[i]: " *)
  Lemma read_header : forall o i b x,
    opts_ok o -> 0 <= i <= 18446744073709551615 ->
    exists b',
      (match read_token (b, index_text o i ++ s_idx_close ++ x) with
       | None => HFail
       | Some (itext, s3) =>
           match decode_int u64 itext with
           | Ok i0 =>
               match read_token s3 with
               | None => HFail
               | Some (rb, s4) =>
                   if negb (list_eqb rb [ch_rbrack]) then HFail
                   else match read_token s4 with
                        | None => HFail
                        | Some (colon, s5) =>
                            if negb (list_eqb colon [ch_colon]) then HFail else HOk s5 i0
                        end
               end
           | Reject => HFail
           | _ => HBad
           end
       end) = HOk (b', ch_space :: x) i.
  Proof.
    intros o i b x (O1 & O2 & O3 & O4) Hi.
    assert (Hfit : fits u64 i = true).
    { apply fits_iff. change (ty_min u64) with 0. change (ty_max u64) with 18446744073709551615. lia. }
    unfold index_text. rewrite enc_eq by assumption.
    destruct (numeral_text_tok (o_base o) (o_grouping o) i O3) as (T1 & T2 & T3).
    destruct (read_word b [] (numeral_text (o_base o) (o_grouping o) i) (s_idx_close ++ x) eq_refl T3 T1 eq_refl) as [b1 R1].
    cbn [app] in R1. rewrite R1.
    rewrite decode_numeral_text_lem by assumption.
    destruct (read_punct b1 [] ch_rbrack (ch_colon :: ch_space :: x) ws_like_nil eq_refl ltac:(discriminate)) as [b2 R2].
    cbn [app] in R2. change (s_idx_close ++ x) with (ch_rbrack :: ch_colon :: ch_space :: x). rewrite R2.
    change (list_eqb [ch_rbrack] [ch_rbrack]) with true. cbn [negb]. cbv iota.
    destruct (read_punct b2 [] ch_colon (ch_space :: x) ws_like_nil eq_refl ltac:(discriminate)) as [b3 R3].
    cbn [app] in R3. rewrite R3.
    change (list_eqb [ch_colon] [ch_colon]) with true. cbn [negb]. cbv iota.
    exists b3. reflexivity.
  Qed.

  (* ---------------- multi-line ---------------- *)
  Definition tail_m (g : gentab) (o : opts) (l : list tval) (i : Z) (rest : list Z) : list Z :=
    welems_m g (plus_one_indent o) o l i ++ s_lf ++ o_cur o ++ ch_rbrace :: rest.

  Lemma tail_m_first : forall g o l i rest, opts_ok o ->
    exists c y, skip_ws false (tail_m g o l i rest) = c :: y /\ (c = ch_lbrack \/ c = ch_rbrace) /\
                (exists more, tail_m g o l i rest = ch_lf :: more).
  Proof.
    intros g o l i rest Ho. pose proof (opts_ok_plus o Ho) as (P1 & P2 & P3 & P4).
    destruct Ho as (O1 & O2 & O3 & O4). unfold tail_m.
    destruct l as [|e r]; cbn [welems_m].
    - exists ch_rbrace, rest. split; [|split; [right; reflexivity|eexists; reflexivity]].
      exact (skip_ws_pad_stop (s_lf ++ o_cur o) ch_rbrace rest (lf_blank_space _ O2) eq_refl ltac:(discriminate)).
    - eexists ch_lbrack, _. split; [|split; [left; reflexivity|eexists; reflexivity]].
      rewrite <- !app_assoc.
      exact (skip_ws_pad_stop (s_lf ++ o_cur (plus_one_indent o)) ch_lbrack _ (lf_blank_space _ P2) eq_refl ltac:(discriminate)).
  Qed.

  Lemma tail_m_nil : forall g o i rest, opts_ok o -> skip_ws false (tail_m g o [] i rest) = ch_rbrace :: rest.
  Proof.
    intros g o i rest (O1 & O2 & O3 & O4). unfold tail_m. cbn [welems_m].
    exact (skip_ws_pad_stop (s_lf ++ o_cur o) ch_rbrace rest (lf_blank_space _ O2) eq_refl ltac:(discriminate)).
  Qed.

  Lemma tail_m_cons : forall g o e r i rest, opts_ok o ->
    skip_ws false (tail_m g o (e :: r) i rest) =
      ch_lbrack :: index_text o i ++ s_idx_close ++ write_val g (plus_one_indent o) e ++ tail_m g o r (i + 1) rest.
  Proof.
    intros g o e r i rest Ho. pose proof (opts_ok_plus o Ho) as (P1 & P2 & P3 & P4).
    unfold tail_m. cbn [welems_m]. rewrite <- !app_assoc.
    exact (skip_ws_pad_stop (s_lf ++ o_cur (plus_one_indent o)) ch_lbrack _ (lf_blank_space _ P2) eq_refl ltac:(discriminate)).
  Qed.

  Lemma array_loop_multi : forall g o path esch n rest,
    opts_ok o -> o_multiline o = true -> n <= 18446744073709551615 ->
    forall l, Forall (RT_val W tw) l -> Forall (fun e => wf_val g e /\ schema_of e = esch) l ->
    forall i b a w w' fuel,
      0 <= i -> i + Z.of_nat (length l) = n ->
      skip_ws false a = skip_ws false (tail_m g o l i rest) ->
      (S (need_elems l) <= fuel)%nat ->
      apply_events W tw (events_elems g path l i) w = Some w' ->
      exists b', array_loop W tw fuel n esch path i (b, a) w = UOk (b', rest) w'.
  Proof.
    intros g o path esch n rest Ho Hml Hn l HRT.
    pose proof (opts_ok_plus o Ho) as Heo.
    induction HRT as [|e r Hrt HRT IH]; intros Hwf i b a w w' fuel Hi Hlen Ha Hfuel Hev.
    - (* closing brace *)
      destruct fuel as [|f]; [lia|]. rewrite array_loop_S.
      pose proof (tail_m_nil g o i rest Ho) as E2.
      rewrite E2 in Ha.
      destruct (discard_read b a _ _ Ha) as [b1 [D1 [D2 _]]]. rewrite D1, D2.
      change (ch_rbrace =? ch_rbrace) with true. cbv iota.
      cbn [events_elems apply_events] in Hev. inversion Hev; subst. exists (ch_rbrace :: b1). reflexivity.
    - pose proof (Forall_inv Hwf) as [Hwe Hsch]. pose proof (Forall_inv_tail Hwf) as Hwf'.
      cbn [need_elems] in Hfuel. destruct fuel as [|f]; [lia|].
      assert (Hf1 : (need e <= f)%nat) by (clear - Hfuel; lia).
      assert (Hf2 : (S (need_elems r) <= f)%nat) by (clear - Hfuel; lia).
      cbn [events_elems] in Hev. apply apply_events_app in Hev. destruct Hev as [w1 [Hev1 Hev2]].
      cbn [length] in Hlen.
      assert (Hi2 : 0 <= i <= 18446744073709551615) by (clear - Hi Hlen Hn; lia).
      assert (Hi3 : 0 <= i + 1) by (clear - Hi; lia).
      assert (Hlen3 : i + 1 + Z.of_nat (length r) = n) by (clear - Hlen; lia).
      assert (Ege : (i >=? n) = false) by (clear - Hlen; lia).
      rewrite array_loop_S.
      (* the element line: LF indent [ index ]: value *)
      set (eo := plus_one_indent o) in *.
      set (more := tail_m g o r (i + 1) rest).
      rewrite (tail_m_cons g o e r i rest Ho) in Ha. fold eo in Ha. fold more in Ha.
      destruct Heo as (P1 & P2 & P3 & P4).
      destruct (discard_read b a _ _ Ha) as [b1 [D1 [D2 _]]]. rewrite D1, D2.
      change (ch_lbrack =? ch_rbrace) with false. cbv iota. cbv zeta.
      change (ch_lbrack =? ch_lbrack) with true. cbv iota.
      change (s_idx_close ++ write_val g eo e ++ more) with (ch_rbrack :: ch_colon :: ch_space :: write_val g eo e ++ more).
      destruct (read_header o i (ch_lbrack :: b1) (write_val g eo e ++ more) Ho Hi2) as [b2 HH].
      change (s_idx_close ++ write_val g eo e ++ more) with (ch_rbrack :: ch_colon :: ch_space :: write_val g eo e ++ more) in HH.
      rewrite HH.
      rewrite Ege.
      (* the element *)
      destruct (tail_m_first g o r (i + 1) rest Ho) as [c2 [y2 [E2 [Hc2 [more' Hmore]]]]].
      fold more in E2, Hmore.
      assert (Hafter : trail_of eo e = [] -> after_ok more) by (intros _; rewrite Hmore; reflexivity).
      destruct (Hrt g eo (path ++ [PIndex i]) b2 [ch_space] more w w1 f Hwe (conj P1 (conj P2 (conj P3 P4))) (eq_refl true) Hafter Hf1 Hev1)
        as [b3 HV].
      cbn [app] in HV. rewrite Hsch in HV. rewrite HV.
      (* after the element: no comma; the next non-blank character is put back *)
      assert (E3 : skip_ws false (trail_of eo e ++ more) = c2 :: y2).
      { pose proof (trail_ws_like g eo e (conj P1 (conj P2 (conj P3 P4))) Hwe more') as T.
        rewrite <- app_assoc in T. rewrite Hmore. change ([ch_lf] ++ more') with (ch_lf :: more') in T. rewrite T.
        rewrite <- E2, Hmore. symmetry. apply skip_ws_lf. }
      destruct (discard_read b3 _ _ _ E3) as [b4 [D3 [D4 D5]]]. rewrite D3, D4.
      assert (Ecm : (c2 =? ch_comma) = false) by (destruct Hc2 as [-> | ->]; reflexivity). rewrite Ecm.
      rewrite D5.
      apply (IH Hwf' (i + 1) b4 (c2 :: y2) w1 w' f Hi3 Hlen3); [|exact Hf2|exact Hev2].
      fold more. rewrite E2. apply skip_ws_stop; destruct Hc2 as [-> | ->]; try reflexivity; discriminate.
  Qed.

  (* ---------------- single line (comments off) ---------------- *)
  Definition tail_s (g : gentab) (o : opts) (n : Z) (l : list tval) (i : Z) (rest : list Z) : list Z :=
    welems_s g (plus_one_indent o) o n l i ++ ch_space :: ch_rbrace :: rest.

  Lemma array_loop_single : forall g o path esch n rest,
    opts_ok o -> o_multiline o = false -> n <= 18446744073709551615 ->
    forall l, Forall (RT_val W tw) l -> Forall (fun e => wf_val g e /\ schema_of e = esch) l ->
    forall i b a w w' fuel,
      0 <= i -> i + Z.of_nat (length l) = n ->
      skip_ws false a = skip_ws false (tail_s g o n l i rest) ->
      (S (need_elems l) <= fuel)%nat ->
      apply_events W tw (events_elems g path l i) w = Some w' ->
      exists b', array_loop W tw fuel n esch path i (b, a) w = UOk (b', rest) w'.
  Proof.
    intros g o path esch n rest Ho Hml Hn l HRT.
    pose proof (opts_ok_plus o Ho) as Heo.
    assert (Hnc : o_comments o = false) by (destruct Ho as (_ & _ & _ & [O4|O4]); [congruence|exact O4]).
    induction HRT as [|e r Hrt HRT IH]; intros Hwf i b a w w' fuel Hi Hlen Ha Hfuel Hev.
    - destruct fuel as [|f]; [lia|]. rewrite array_loop_S.
      assert (E2 : skip_ws false (tail_s g o n [] i rest) = ch_rbrace :: rest) by reflexivity.
      rewrite E2 in Ha.
      destruct (discard_read b a _ _ Ha) as [b1 [D1 [D2 _]]]. rewrite D1, D2.
      change (ch_rbrace =? ch_rbrace) with true. cbv iota.
      cbn [events_elems apply_events] in Hev. inversion Hev; subst. exists (ch_rbrace :: b1). reflexivity.
    - pose proof (Forall_inv Hwf) as [Hwe Hsch]. pose proof (Forall_inv_tail Hwf) as Hwf'.
      cbn [need_elems] in Hfuel. destruct fuel as [|f]; [lia|].
      assert (Hf1 : (need e <= f)%nat) by (clear - Hfuel; lia).
      assert (Hf2 : (S (need_elems r) <= f)%nat) by (clear - Hfuel; lia).
      cbn [events_elems] in Hev. apply apply_events_app in Hev. destruct Hev as [w1 [Hev1 Hev2]].
      cbn [length] in Hlen.
      assert (Hi2 : 0 <= i <= 18446744073709551615) by (clear - Hi Hlen Hn; lia).
      assert (Hi3 : 0 <= i + 1) by (clear - Hi; lia).
      assert (Hlen3 : i + 1 + Z.of_nat (length r) = n) by (clear - Hlen; lia).
      assert (Ege : (i >=? n) = false) by (clear - Hlen; lia).
      rewrite array_loop_S.
      set (eo := plus_one_indent o) in *.
      destruct Heo as (P1 & P2 & P3 & P4).
      assert (Htr : trail_of eo e = []) by (apply trail_nil_nocomments; exact Hnc).
      set (sep := if i <? n - 1 then [ch_comma] else @nil Z).
      set (more := tail_s g o n r (i + 1) rest).
      assert (Eline : tail_s g o n (e :: r) i rest =
                      [ch_space] ++ (if i mod 8 =? 0 then [ch_lbrack] ++ index_text o i ++ s_idx_close else []) ++
                      write_val g eo e ++ sep ++ more).
      { unfold tail_s, more, tail_s, sep. fold eo. cbn [welems_s]. rewrite <- !app_assoc. reflexivity. }
      rewrite Eline in Ha. rewrite skip_ws_blank in Ha by reflexivity.
      (* what follows the element *)
      assert (Hsepmore : exists c2 y2, skip_ws false (sep ++ more) = c2 :: y2 /\
                ((c2 = ch_comma /\ r <> [] /\ y2 = more) \/ (c2 = ch_rbrace /\ r = [] /\ y2 = rest)) /\ after_ok (sep ++ more)).
      { unfold sep. destruct r as [|e2 r2].
        - assert (E : (i <? n - 1) = false) by (cbn [length] in Hlen; lia). rewrite E.
          exists ch_rbrace, rest. split; [reflexivity|]. split; [right; repeat split|reflexivity].
        - assert (E : (i <? n - 1) = true) by (cbn [length] in Hlen; lia). rewrite E.
          exists ch_comma, more. split; [reflexivity|]. split; [left; repeat split; discriminate|reflexivity]. }
      destruct Hsepmore as [c2 [y2 [E3 [Hc2 Hafter]]]].
      (* the element itself, from a stream positioned at white space + value *)
      assert (Helem : forall b0 pad, forallb is_space pad = true ->
                exists b3, update W tw f esch (path ++ [PIndex i]) (b0, pad ++ write_val g eo e ++ sep ++ more) w =
                           UOk (b3, sep ++ more) w1).
      { intros b0 pad Hpad.
        destruct (Hrt g eo (path ++ [PIndex i]) b0 pad (sep ++ more) w w1 f Hwe (conj P1 (conj P2 (conj P3 P4))) Hpad
                    (fun _ => Hafter) Hf1 Hev1) as [b3 HV].
        rewrite Htr, Hsch in HV. cbn [app] in HV. exists b3. exact HV. }
      (* after the element *)
      assert (Hnext : forall b3, exists b',
                match discard_whitespace (b3, sep ++ more) with
                | None => UFail w1
                | Some s8 =>
                    match st_read s8 with
                    | None => UFail w1
                    | Some (c2, s9) =>
                        if c2 =? ch_comma then array_loop W tw f n esch path (i + 1) s9 w1
                        else match st_unread c2 s9 with
                             | Some s10 => array_loop W tw f n esch path (i + 1) s10 w1
                             | None => UFail w1
                             end
                    end
                end = UOk (b', rest) w').
      { intros b3. destruct (discard_read b3 _ _ _ E3) as [b4 [D3 [D4 D5]]]. rewrite D3, D4.
        destruct Hc2 as [[-> [Hr ->]]|[-> [Hr ->]]].
        - change (ch_comma =? ch_comma) with true. cbv iota.
          apply (IH Hwf' (i + 1) (ch_comma :: b4) more w1 w' f Hi3 Hlen3 eq_refl Hf2 Hev2).
        - change (ch_rbrace =? ch_comma) with false. cbv iota. rewrite D5.
          apply (IH Hwf' (i + 1) b4 (ch_rbrace :: rest) w1 w' f Hi3 Hlen3); [|exact Hf2|exact Hev2].
          subst r. reflexivity. }
      destruct (i mod 8 =? 0) eqn:E8.
      + (* with an index header *)
        cbn [app] in Ha. rewrite <- app_assoc in Ha. cbn [app] in Ha.
        rewrite skip_ws_stop in Ha by (try reflexivity; discriminate).
        destruct (discard_read b a _ _ Ha) as [b1 [D1 [D2 _]]]. rewrite D1, D2.
        change (ch_lbrack =? ch_rbrace) with false. cbv iota. cbv zeta.
        change (ch_lbrack =? ch_lbrack) with true. cbv iota.
        destruct (read_header o i (ch_lbrack :: b1) (write_val g eo e ++ sep ++ more) Ho Hi2) as [b2 HH].
        rewrite HH.
        rewrite Ege.
        destruct (Helem b2 [ch_space] eq_refl) as [b3 HV]. cbn [app] in HV. rewrite HV.
        apply Hnext.
      + (* without: the first character of the value is read and put back *)
        cbn [app] in Ha.
        destruct (write_val_head g eo e Hwe (conj P1 (conj P2 (conj P3 P4)))) as [c0 [r0 [Ehead (S1 & S2 & S3 & S4 & S5)]]].
        rewrite Ehead in Ha. cbn [app] in Ha.
        rewrite skip_ws_stop in Ha by assumption.
        destruct (discard_read b a _ _ Ha) as [b1 [D1 [D2 D3]]]. rewrite D1, D2.
        assert (Erb : (c0 =? ch_rbrace) = false) by (clear - S3; lia). rewrite Erb. cbv zeta.
        assert (Elb : (c0 =? ch_lbrack) = false) by (clear - S4; lia). rewrite Elb.
        rewrite D3.
        rewrite Ege.
        destruct (Helem b1 [] eq_refl) as [b3 HV]. cbn [app] in HV. rewrite Ehead in HV. cbn [app] in HV.
        rewrite HV. apply Hnext.
  Qed.

  (* ---------------- the array as a value ---------------- *)
  Lemma rt_array : forall a es, Forall (RT_val W tw) es -> RT_val W tw (VArray a es).
  Proof.
    intros a es HF g o path b pad rest w w' fuel Hwf Ho Hp Ha Hfuel Hev.
    rewrite need_array in Hfuel. destruct fuel as [|f]; [lia|].
    assert (Hf0 : (S (need_elems es) <= f)%nat) by (clear - Hfuel; lia).
    assert (Hz0 : 0 <= 0) by lia.
    assert (Hl0 : 0 + Z.of_nat (length es) = Z.of_nat (length es)) by lia.
    destruct (wf_array_forall g a es Hwf) as [Hlen Hall].
    rewrite schema_array, update_S_array, write_array_unfold. cbv zeta.
    rewrite events_array in Hev. cbn [trail_of app].
    pose proof Ho as (O1 & O2 & O3 & O4).
    pose proof (opts_ok_plus o Ho) as (P1 & P2 & P3 & P4).
    destruct (o_multiline o) eqn:EM.
    - (* multi-line *)
      set (cm := if a && o_multiline (plus_one_indent o) && o_comments (plus_one_indent o)
                 then ascii_comment (plus_one_indent o) es 0 else []).
      replace ((ch_lbrace :: cm ++ welems_m g (plus_one_indent o) o es 0 ++ s_lf ++ o_cur o ++ [ch_rbrace]) ++ rest)
        with (ch_lbrace :: cm ++ tail_m g o es 0 rest)
        by (unfold tail_m; cbn [app]; rewrite <- !app_assoc; reflexivity).
      destruct (read_punct b pad ch_lbrace (cm ++ tail_m g o es 0 rest) (ws_like_space pad Hp) eq_refl ltac:(discriminate))
        as [b1 RT].
      rewrite RT. change (list_eqb [ch_lbrace] [ch_lbrace]) with true. cbv iota.
      apply (array_loop_multi g o path (elem_sch es) (Z.of_nat (length es)) rest Ho EM Hlen es HF Hall 0 b1
               (cm ++ tail_m g o es 0 rest) w w' f Hz0 Hl0); [|exact Hf0|exact Hev].
      unfold cm. destruct (a && o_multiline (plus_one_indent o) && o_comments (plus_one_indent o)); [|reflexivity].
      destruct (tail_m_first g o es 0 rest Ho) as [c [y [_ [_ [more Hm]]]]]. rewrite Hm.
      rewrite ascii_comment_skip; [|exact P2|exact Hz0|right; reflexivity].
      cbn [skip_ws]. change (ch_lf =? ch_hash) with false.
      change ((ch_lf =? ch_cr) || (ch_lf =? ch_lf)) with true. cbv iota. change (is_space ch_lf) with true.
      rewrite orb_true_r. reflexivity.
    - (* single line *)
      replace ((ch_lbrace :: welems_s g (plus_one_indent o) o (Z.of_nat (length es)) es 0 ++ [ch_space; ch_rbrace]) ++ rest)
        with (ch_lbrace :: tail_s g o (Z.of_nat (length es)) es 0 rest)
        by (unfold tail_s; cbn [app]; rewrite <- !app_assoc; reflexivity).
      destruct (read_punct b pad ch_lbrace (tail_s g o (Z.of_nat (length es)) es 0 rest) (ws_like_space pad Hp) eq_refl
                  ltac:(discriminate)) as [b1 RT].
      rewrite RT. change (list_eqb [ch_lbrace] [ch_lbrace]) with true. cbv iota.
      apply (array_loop_single g o path (elem_sch es) (Z.of_nat (length es)) rest Ho EM Hlen es HF Hall 0 b1
               _ w w' f Hz0 Hl0 eq_refl Hf0 Hev).
  Qed.
End ArrayRT.
