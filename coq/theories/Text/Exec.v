(* C06 -- executable glue for the correspondence harness (harness/props/c06.py). *)
From Coq Require Import ZArith List Bool String Ascii.
Import ListNotations.
Set Warnings "-notation-overridden".
Require Import EmbossV.Bits.Model.
Require Import EmbossV.Text.IntCodec EmbossV.Text.StructText EmbossV.Text.Store.
Set Warnings "+notation-overridden".
Open Scope Z_scope.

(* character codes of a Coq string literal (the harness writes ASCII texts as literals) *)
Fixpoint codes (s : string) : list Z :=
  match s with
  | EmptyString => []
  | String a r => Z.of_N (N_of_ascii a) :: codes r
  end.

(* constructors used by the generated case files (plain applications parse faster than nested
   pair notations) *)
Definition fld (fi : finfo) (v : tval) : finfo * tval := (fi, v).
Definition en (n : list Z) (v : Z) : list Z * Z := (n, v).

(* ---- (a) integer codec and tokenizer, directly ---- *)
Inductive ccase :=
| CEnc (t : ity) (v base : Z) (g : bool)
| CDec (t : ity) (text : list Z)
| CTok (text : list Z).

Inductive cout :=
| OText (l : list Z) | OVal (z : Z) | OReject | OUB | OFuel | OToks (ok : bool) (l : list (list Z)).

(* ReadToken until the empty token (end of input) *)
Fixpoint all_tokens (fuel : nat) (s : stream) : bool * list (list Z) :=
  match fuel with
  | O => (false, [])
  | S f =>
      match read_token s with
      | None => (false, [])
      | Some ([], _) => (true, [])
      | Some (tok, s') => let '(ok, l) := all_tokens f s' in (ok, tok :: l)
      end
  end.

Definition run_codec (c : ccase) : cout :=
  match c with
  | CEnc t v base g =>
      match encode_int t v base g with
      | Ok l => OText l | Reject => OReject | UB => OUB | OutOfFuel => OFuel
      end
  | CDec t text =>
      match decode_int t text with
      | Ok z => OVal z | Reject => OReject | UB => OUB | OutOfFuel => OFuel
      end
  | CTok text => let '(ok, l) := all_tokens (S (List.length text)) (st_of text) in OToks ok l
  end.

Fixpoint lists_eqb (a b : list (list Z)) : bool :=
  match a, b with
  | [], [] => true
  | x :: a', y :: b' => list_eqb x y && lists_eqb a' b'
  | _, _ => false
  end.

Definition cout_eqb (a b : cout) : bool :=
  match a, b with
  | OText x, OText y => list_eqb x y
  | OVal x, OVal y => x =? y
  | OReject, OReject | OUB, OUB | OFuel, OFuel => true
  | OToks o1 x, OToks o2 y => Bool.eqb o1 o2 && lists_eqb x y
  | _, _ => false
  end.

(* ---- (b) structures ---- *)
Definition wv_eqb (a b : wv) : bool :=
  match a, b with
  | WInt t x, WInt t' y | WEnum t x, WEnum t' y =>
      Bool.eqb (ity_signed t) (ity_signed t') && (wbits (ity_width t) =? wbits (ity_width t')) && (x =? y)
  | WBool x, WBool y => Bool.eqb x y
  | _, _ => false
  end.

Definition pelem_eqb (a b : pelem) : bool :=
  match a, b with
  | PField x, PField y => list_eqb x y
  | PIndex x, PIndex y => x =? y
  | _, _ => false
  end.

Fixpoint path_eqb (a b : list pelem) : bool :=
  match a, b with
  | [], [] => true
  | x :: a', y :: b' => pelem_eqb x y && path_eqb a' b'
  | _, _ => false
  end.

Fixpoint events_eqb (a b : list event) : bool :=
  match a, b with
  | [], [] => true
  | (p, x) :: a', (q, y) :: b' => path_eqb p q && wv_eqb x y && events_eqb a' b'
  | _, _ => false
  end.

(* the store that records every TryToWrite (most recent first); every write succeeds *)
Definition rec_write (p : list pelem) (x : wv) (w : list event) : option (list event) := Some ((p, x) :: w).

Definition fuel_for (text : list Z) : nat := (4 * List.length text + 64)%nat.

(* WriteToString, and: does UpdateFromText of that text perform exactly the TryToWrite calls
   events_of predicts, consuming the whole text? *)
Definition run_write (c : gentab * opts * tval) : list Z * bool :=
  let '(g, o, v) := c in
  let text := write_to_string g o v in
  let rt :=
    match update_from_text (list event) rec_write (fuel_for text) (schema_of v) text [] with
    | UOk s w => events_eqb (rev w) (events_of g [] v) &&
                 (match snd s with [] => true | _ => false end)
    | _ => false
    end in
  (text, rt).

Definition run_write_eqb (a b : list Z * bool) : bool :=
  list_eqb (fst a) (fst b) && Bool.eqb (snd a) (snd b).

(* UpdateFromText on an arbitrary text for a structure whose leaves are independent
   (static, non-overlapping layout): the store maps each leaf to its last written value;
   TryToWrite fails outside [lo, hi] (CouldWriteValue).  Result: status (0 = true, 1 = false,
   2 = bad, 3 = fuel) and the final value of every leaf, in table order. *)
Definition leaf_tab := list (list pelem * Z * Z).

Definition wv_int (x : wv) : Z :=
  match x with WInt _ z => z | WEnum _ z => z | WBool b => if b then 1 else 0 end.

Fixpoint tab_find (tab : leaf_tab) (p : list pelem) : option (Z * Z) :=
  match tab with
  | [] => None
  | (q, lo, hi) :: r => if path_eqb q p then Some (lo, hi) else tab_find r p
  end.

Definition flat_write (tab : leaf_tab) (p : list pelem) (x : wv) (w : list (list pelem * Z))
  : option (list (list pelem * Z)) :=
  match tab_find tab p with
  | None => None
  | Some (lo, hi) =>
      let z := wv_int x in
      if (lo <=? z) && (z <=? hi) then Some ((p, z) :: w) else None
  end.

Fixpoint store_get (w : list (list pelem * Z)) (p : list pelem) : Z :=
  match w with
  | [] => 0
  | (q, z) :: r => if path_eqb q p then z else store_get r p
  end.

Definition run_update_flat (c : sch * leaf_tab * list Z) : Z * list Z :=
  let '(sc, tab, text) := c in
  let final (w : list (list pelem * Z)) := map (fun e => store_get w (fst (fst e))) tab in
  match update_from_text _ (flat_write tab) (fuel_for text) sc text [] with
  | UOk _ w => (0, final w)
  | UFail w => (1, final w)
  | UBad => (2, [])
  | UFuel => (3, [])
  end.

Definition run_update_flat_eqb (a b : Z * list Z) : bool :=
  (fst a =? fst b) && list_eqb (snd a) (snd b).

(* ---- (c) the concrete byte store (Text/Store.v): UpdateFromText of the model's text into a
   zeroed buffer of n bytes, with TryToWrite = the scalar views of Bits/Model.v.  Result: status
   (0 = true, 1 = false, 2 = bad, 3 = fuel) and the bytes of the buffer afterwards, once with the
   static layout `tab` (the locations the emitted fields have in the view the text was written
   from) and once with the dependent layout `dt` (locations and existence conditions evaluated on
   the buffer being restored); and the instance of struct_roundtrip_static: when the case is in
   the proved class, the update succeeded and every emitted field reads back. *)
Definition reads_back (L : layout) (evs : list event) (w : list Z) : bool :=
  forallb (fun e => match store_rd L (fst e) w with Some y => wv_eqb y (snd e) | None => false end) evs.

Definition run_upd (L : layout) (fuel : nat) (sc : sch) (text : list Z) (n : nat) : Z * list Z :=
  match update_from_text (list Z) (store_tw L) fuel sc text (zeros n) with
  | UOk _ w => (0, w)
  | UFail w => (1, w)
  | UBad => (2, [])
  | UFuel => (3, [])
  end.

Definition store_case := (gentab * opts * tval * nat * ltab * dtab)%type.
Definition store_out := (Z * list Z * (Z * list Z) * bool)%type.

Definition run_store (c : store_case) : store_out :=
  let '(g, o, v, n, tab, dt) := c in
  let text := write_to_string g o v in
  let evs := events_of g [] v in
  let sc := schema_of v in
  let r1 := run_upd (static_layout tab) (fuel_for text) sc text n in
  let r2 := run_upd (dyn_layout (S (List.length dt)) dt) (fuel_for text) sc text n in
  let thm := if layout_okb n tab evs
             then (fst r1 =? 0) && reads_back (static_layout tab) evs (snd r1)
             else true in
  (* the instance of struct_roundtrip_dynamic *)
  let dl := dyn_layout (S (List.length dt)) dt in
  let thm2 := if layout_okb n (resolve dt [] evs) evs && Nat.leb (List.length evs) (S (List.length dt))
              then (fst r2 =? 0) && reads_back dl evs (snd r2)
              else true in
  (fst r1, snd r1, r2, thm && thm2).

Definition store_out_eqb (a b : store_out) : bool :=
  let '(s1, b1, (t1, c1), k1) := a in
  let '(s2, b2, (t2, c2), k2) := b in
  (s1 =? s2) && list_eqb b1 b2 && (t1 =? t2) && list_eqb c1 c2 && Bool.eqb k1 k2.

(* is the case in the class struct_roundtrip_static is proved for? *)
Definition run_inclass (c : gentab * tval * nat * ltab) : bool :=
  let '(g, v, n, tab) := c in layout_okb n tab (events_of g [] v).

(* is the case in the class struct_roundtrip_dynamic is proved for? *)
Definition run_inclass_dyn (c : gentab * tval * nat * dtab) : bool :=
  let '(g, v, n, dt) := c in
  let evs := events_of g [] v in
  layout_okb n (resolve dt [] evs) evs && Nat.leb (List.length evs) (S (List.length dt)).

(* constructors for the generated case files *)
Definition loc_whole (o : order) (boff c : nat) (k : skind) (t : ity) : loc := mk_loc o boff c None k t.
Definition loc_bits (o : order) (boff c : nat) (off w : Z) (k : skind) (t : ity) : loc := mk_loc o boff c (Some (off, w)) k t.
