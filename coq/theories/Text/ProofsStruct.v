(* C06 -- proofs about the structure-level text model (StructText.v). *)
From Coq Require Import ZArith List Bool Lia ZifyBool.
Import ListNotations.
Require Import EmbossV.Text.IntCodec EmbossV.Text.ProofsInt EmbossV.Text.ProofsToken EmbossV.Text.StructText.
Open Scope Z_scope.

(* ------------------------------------------------------------------ *)
(* induction principle for the nested type tval                         *)
(* ------------------------------------------------------------------ *)
Section TvalInd.
  Variable P : tval -> Prop.
  Hypothesis Hint : forall t x, P (VInt t x).
  Hypothesis Hbool : forall b, P (VBool b).
  Hypothesis Henum : forall t names x, P (VEnum t names x).
  Hypothesis Hstruct : forall fs, Forall (fun p => P (snd p)) fs -> P (VStruct fs).
  Hypothesis Harr : forall a es, Forall P es -> P (VArray a es).

  Fixpoint tval_ind2 (v : tval) : P v :=
    match v with
    | VInt t x => Hint t x
    | VBool b => Hbool b
    | VEnum t names x => Henum t names x
    | VStruct fs =>
        Hstruct fs ((fix go (l : list (finfo * tval)) : Forall (fun p => P (snd p)) l :=
                       match l with
                       | [] => Forall_nil _
                       | p :: r => Forall_cons p (tval_ind2 (snd p)) (go r)
                       end) fs)
    | VArray a es =>
        Harr a es ((fix go (l : list tval) : Forall P l :=
                      match l with
                      | [] => Forall_nil _
                      | e :: r => Forall_cons e (tval_ind2 e) (go r)
                      end) es)
    end.
End TvalInd.

(* ------------------------------------------------------------------ *)
(* emission: order, Skip / absent, Emit / default                       *)
(* ------------------------------------------------------------------ *)

(* the text one field contributes to WriteToTextStream of its structure *)
Definition field_chunk (g : gentab) (fo : opts) (wrote : bool) (fi : finfo) (fv : tval) : list Z :=
  if negb (gen_emits g (f_attr fi)) then []
  else if f_ro fi then
    (if f_present fi && o_comments fo then
       o_cur fo ++ s_hash_sp ++ f_name fi ++ s_colon_sp ++ write_val g fo fv ++ s_lf
     else [])
  else if f_present fi then
    (if o_multiline fo then o_cur fo else (if wrote then [ch_comma] else []) ++ [ch_space]) ++
    f_name fi ++ s_colon_sp ++ write_val g fo fv ++ (if o_multiline fo then s_lf else [])
  else [].

Fixpoint chunks (g : gentab) (fo : opts) (l : list (finfo * tval)) (wrote : bool) : list (list Z) :=
  match l with
  | [] => []
  | (fi, fv) :: r => field_chunk g fo wrote fi fv :: chunks g fo r (wrote || emits_value g fi)
  end.

Definition open_text (o : opts) : list Z := if o_multiline o then [ch_lbrace; ch_lf] else [ch_lbrace].
Definition close_text (o : opts) : list Z := if o_multiline o then o_cur o ++ [ch_rbrace] else [ch_space; ch_rbrace].

(* the local fixpoint of write_val, named *)
Fixpoint wfields (g : gentab) (fo : opts) (l : list (finfo * tval)) (wrote : bool) : list Z :=
  match l with
  | [] => []
  | (fi, fv) :: r =>
      if negb (gen_emits g (f_attr fi)) then wfields g fo r wrote
      else if f_ro fi then
        (if f_present fi && o_comments fo then
           o_cur fo ++ s_hash_sp ++ f_name fi ++ s_colon_sp ++ write_val g fo fv ++ s_lf
         else []) ++ wfields g fo r wrote
      else if f_present fi then
        (if o_multiline fo then o_cur fo else (if wrote then [ch_comma] else []) ++ [ch_space]) ++
        f_name fi ++ s_colon_sp ++ write_val g fo fv ++
        (if o_multiline fo then s_lf else []) ++ wfields g fo r true
      else wfields g fo r wrote
  end.

Lemma write_struct_unfold : forall g o fs,
  write_val g o (VStruct fs) = open_text o ++ wfields g (plus_one_indent o) fs false ++ close_text o.
Proof.
  intros g o fs. cbn [write_val]. unfold open_text, close_text. f_equal. f_equal.
  generalize false. induction fs as [|[fi fv] r IH]; intros wrote; cbn [wfields]; [reflexivity|].
  destruct (negb (gen_emits g (f_attr fi))); [apply IH|].
  destruct (f_ro fi); [rewrite IH; reflexivity|].
  destruct (f_present fi); [rewrite IH; reflexivity|apply IH].
Qed.

Lemma wfields_chunks : forall g fo l wrote, wfields g fo l wrote = concat (chunks g fo l wrote).
Proof.
  intros g fo l; induction l as [|[fi fv] r IH]; intros wrote; cbn [wfields chunks concat]; [reflexivity|].
  unfold field_chunk, emits_value.
  destruct (gen_emits g (f_attr fi)); cbn [negb andb].
  - destruct (f_ro fi); cbn [negb andb].
    + rewrite andb_false_r, orb_false_r. rewrite IH. reflexivity.
    + destruct (f_present fi); cbn [andb].
      * rewrite orb_true_r. rewrite IH. rewrite <- !app_assoc. reflexivity.
      * rewrite orb_false_r. rewrite IH. reflexivity.
  - rewrite orb_false_r. rewrite IH. reflexivity.
Qed.

(* emit_order: the text of a structure is the concatenation, in the given (dependency) order,
   of the texts of its fields *)
Lemma emit_order_lem : forall g o fs,
  write_val g o (VStruct fs) =
    open_text o ++ concat (chunks g (plus_one_indent o) fs false) ++ close_text o.
Proof. intros. rewrite write_struct_unfold, wfields_chunks. reflexivity. Qed.

(* skip_absent: a field marked Skip, or absent, contributes nothing *)
Lemma skip_absent_lem : forall g fo wrote fi fv,
  gentab_ok g = true -> (f_attr fi = ASkip \/ f_present fi = false) ->
  field_chunk g fo wrote fi fv = [].
Proof.
  intros g fo wrote fi fv Hg H. unfold gentab_ok in Hg. unfold field_chunk.
  destruct H as [H|H].
  - rewrite H. cbn [gen_emits]. destruct (g_skip g); [destruct (g_none g); discriminate|reflexivity].
  - rewrite H. cbn [andb]. destruct (negb (gen_emits g (f_attr fi))); [reflexivity|].
    destruct (f_ro fi); reflexivity.
Qed.

(* emit_present: a present field that is not marked Skip (no attribute, or "Emit") is written as
   `name: value` (or, when read-only, as a comment if comments are on) *)
Lemma emit_present_lem : forall g fo wrote fi fv,
  gentab_ok g = true -> f_attr fi <> ASkip -> f_present fi = true ->
  field_chunk g fo wrote fi fv =
    if f_ro fi then
      (if o_comments fo then o_cur fo ++ s_hash_sp ++ f_name fi ++ s_colon_sp ++ write_val g fo fv ++ s_lf else [])
    else
      (if o_multiline fo then o_cur fo else (if wrote then [ch_comma] else []) ++ [ch_space]) ++
      f_name fi ++ s_colon_sp ++ write_val g fo fv ++ (if o_multiline fo then s_lf else []).
Proof.
  intros g fo wrote fi fv Hg Ha Hp. unfold gentab_ok in Hg. unfold field_chunk. rewrite Hp.
  assert (E : gen_emits g (f_attr fi) = true).
  { destruct (f_attr fi); cbn [gen_emits]; [| congruence |]; destruct (g_none g), (g_skip g), (g_emit g); try discriminate; reflexivity. }
  rewrite E. cbn [negb andb]. reflexivity.
Qed.

(* the generator before the fix of finding F2 did not have this property *)
Lemma emit_present_fails_for_f2_table_lem :
  exists fo wrote fi fv, f_attr fi = AEmit /\ f_present fi = true /\ f_ro fi = false /\
                         field_chunk gt_f2 fo wrote fi fv = [].
Proof.
  exists (mk_opts [] [] false false false 10), false,
         (mk_finfo [101] true AEmit false false), (VInt (mk_ity false W8) 3).
  repeat split.
Qed.

(* ------------------------------------------------------------------ *)
(* numerals as tokens                                                   *)
(* ------------------------------------------------------------------ *)
Lemma enc_eq : forall t x base grp,
  base_ok base = true -> fits t x = true -> enc t x base grp = numeral_text base grp x.
Proof. intros. unfold enc. rewrite encode_int_spec_lem by assumption. reflexivity. Qed.

Lemma numeral_char_tok : forall base c, 2 <= base <= 16 -> numeral_char base c ->
  is_delim c = false /\ no_newline c = true.
Proof.
  intros base c Hb [->|[d [Hd ->]]].
  - split; reflexivity.
  - unfold digit_char. destruct (d <? 10) eqn:E;
      unfold is_delim, is_space, is_punct, no_newline, ch_space, ch_tab, ch_lf, ch_cr, ch_hash, ch_colon, ch_lbrace,
        ch_rbrace, ch_lbrack, ch_rbrack, ch_comma; split; lia.
Qed.

Lemma forall_numeral_tok : forall base l, 2 <= base <= 16 -> Forall (numeral_char base) l ->
  tok_chars l = true /\ forallb no_newline l = true.
Proof.
  intros base l Hb H. induction H as [|c r Hc Hr IH]; [split; reflexivity|].
  destruct IH as [I1 I2]. destruct (numeral_char_tok base c Hb Hc) as [C1 C2].
  unfold tok_chars in *. cbn [forallb]. rewrite C1, C2, I1, I2. split; reflexivity.
Qed.

Lemma numeral_text_tok : forall base grp x, base_ok base = true ->
  tok_chars (numeral_text base grp x) = true /\ forallb no_newline (numeral_text base grp x) = true /\
  numeral_text base grp x <> [].
Proof.
  intros base grp x Hb. pose proof (base_ok_range _ Hb) as Hr.
  unfold numeral_text. fold (body_of base grp x).
  pose proof (body_chars base grp x ltac:(lia)) as BC.
  destruct (forall_numeral_tok base _ Hr BC) as [T1 T2].
  pose proof (body_nonempty base grp x) as NE.
  unfold enc_finish.
  assert (P : forall pre, tok_chars pre = true -> forallb no_newline pre = true ->
            tok_chars (pre ++ body_of base grp x) = true /\ forallb no_newline (pre ++ body_of base grp x) = true /\
            pre ++ body_of base grp x <> []).
  { intros pre P1 P2. unfold tok_chars in *. rewrite !forallb_app, P1, P2, T1, T2.
    repeat split. destruct pre; [exact NE|discriminate]. }
  destruct (base =? 16); [|destruct (base =? 2)]; destruct (x <? 0).
  - apply (P [ch_minus; ch_0; ch_x]); reflexivity.
  - apply (P [ch_0; ch_x]); reflexivity.
  - apply (P [ch_minus; ch_0; ch_b]); reflexivity.
  - apply (P [ch_0; ch_b]); reflexivity.
  - apply (P [ch_minus]); reflexivity.
  - apply (P []); reflexivity.
Qed.

(* the most significant character written by the digit loop is a digit *)
Lemma digs_head : forall fuel base grp v dc c r,
  2 <= base <= 16 ->
  (exists d, 0 <= d < base /\ c = digit_char d) ->
  exists d r', 0 <= d < base /\ digs fuel base grp v dc (c :: r) = digit_char d :: r'.
Proof.
  induction fuel as [|f IH]; intros base grp v dc c r Hb [d [Hd Hc]].
  - exists d, r. cbn [digs]. subst c. split; [lia|reflexivity].
  - rewrite digs_unfold. destruct (v >? 0) eqn:E.
    + apply IH; [lia|]. exists (v mod base). split; [|reflexivity].
      pose proof (mod_range v base ltac:(lia)). lia.
    + exists d, r. subst c. split; [lia|reflexivity].
Qed.

Lemma is_digit_char : forall d, 0 <= d < 10 -> is_digit (digit_char d) = true.
Proof. intros d H. unfold is_digit, digit_char. destruct (d <? 10) eqn:E; lia. Qed.

Lemma numeral_text_head_nonneg : forall base grp x,
  base_ok base = true -> 0 <= x ->
  exists c r, numeral_text base grp x = c :: r /\ is_digit c = true.
Proof.
  intros base grp x Hb Hx. pose proof (base_ok_cases _ Hb) as Hc.
  unfold numeral_text, enc_finish.
  assert (E : (x <? 0) = false) by lia. rewrite E.
  destruct Hc as [->|[->| ->]]; cbn [Z.eqb Pos.eqb].
  - exists ch_0. eexists. split; reflexivity.
  - destruct (x =? 0) eqn:E0.
    + exists ch_0, []. split; reflexivity.
    + change enc_fuel with (S 64). rewrite digs_unfold.
      assert (E1 : (Z.abs x >? 0) = true) by lia. rewrite E1.
      cbn [Z.eqb negb andb].
      destruct (digs_head 64 10 grp (Z.abs x / 10) (0 + 1) (digit_char (Z.abs x mod 10)) [] ltac:(lia)) as [d [r' [Hd Hr]]].
      * exists (Z.abs x mod 10). split; [|reflexivity]. pose proof (mod_range (Z.abs x) 10 ltac:(lia)). lia.
      * exists (digit_char d), r'. split; [exact Hr|]. apply is_digit_char. lia.
  - exists ch_0. eexists. split; reflexivity.
Qed.

Lemma numeral_text_head_neg : forall base grp x,
  x < 0 -> exists r, numeral_text base grp x = ch_minus :: r.
Proof.
  intros base grp x Hx. unfold numeral_text, enc_finish.
  assert (E : (x <? 0) = true) by lia. rewrite E. eexists. reflexivity.
Qed.

Lemma ty_mod_facts : forall t,
  2 ^ wbits (ity_width t) = if ity_signed t then 2 * (ty_max t + 1) else ty_max t + 1.
Proof. intros [[] []]; reflexivity. Qed.

Lemma wrap_fits : forall t x, fits t x = true -> wrap t x = x.
Proof.
  intros t x H. apply fits_iff in H.
  pose proof (ty_facts t) as (F1 & F2 & F3 & F4 & F5 & F6 & F7 & F8).
  unfold wrap. rewrite ty_mod_facts.
  destruct (ity_signed t) eqn:S.
  - destruct (F6 eq_refl) as [F6a F6b]. cbn [andb].
    set (m := 2 * (ty_max t + 1)).
    destruct (Z_lt_le_dec x 0) as [Hn|Hp].
    + assert (E : x mod m = x + m).
      { symmetry. apply (Z.mod_unique x m (-1) (x + m)); unfold m; lia. }
      rewrite E. assert (E2 : (x + m >? ty_max t) = true) by (unfold m; lia). rewrite E2. lia.
    + rewrite Z.mod_small by (unfold m; lia).
      assert (E2 : (x >? ty_max t) = false) by lia. rewrite E2. reflexivity.
  - specialize (F5 eq_refl). cbn [andb]. apply Z.mod_small. lia.
Qed.

(* ------------------------------------------------------------------ *)
(* small facts                                                          *)
(* ------------------------------------------------------------------ *)
Lemma list_eqb_refl : forall a, list_eqb a a = true.
Proof. induction a as [|x a IH]; [reflexivity|]. cbn [list_eqb]. rewrite Z.eqb_refl, IH. reflexivity. Qed.

Lemma list_eqb_eq : forall a b, list_eqb a b = true -> a = b.
Proof.
  induction a as [|x a IH]; intros [|y b] H; cbn [list_eqb] in H; try discriminate; [reflexivity|].
  apply andb_true_iff in H. destruct H as [H1 H2]. f_equal; [lia|apply IH; exact H2].
Qed.

Lemma list_eqb_neq : forall a b, a <> b -> list_eqb a b = false.
Proof. intros a b H. destruct (list_eqb a b) eqn:E; [apply list_eqb_eq in E; congruence|reflexivity]. Qed.

Definition after_ok (rest : list Z) : Prop :=
  match rest with [] => True | c :: _ => is_delim c = true end.

Definition ws_like (skip : list Z) : Prop := forall x, skip_ws false (skip ++ x) = skip_ws false x.

Lemma ws_like_nil : ws_like [].
Proof. intros x. reflexivity. Qed.

Lemma ws_like_app : forall a b, ws_like a -> ws_like b -> ws_like (a ++ b).
Proof. intros a b Ha Hb x. rewrite <- app_assoc. rewrite Ha. apply Hb. Qed.

Lemma ws_like_space : forall pad, forallb is_space pad = true -> ws_like pad.
Proof. intros pad H x. apply skip_ws_blank. exact H. Qed.

Lemma ws_like_comment : forall body, forallb no_newline body = true -> ws_like (ch_hash :: body ++ [ch_lf]).
Proof.
  intros body H x. cbn [app]. rewrite <- app_assoc. cbn [app]. apply skip_ws_comment. exact H.
Qed.

Lemma next_token_ws_like : forall skip x, ws_like skip -> next_token (skip ++ x) = next_token x.
Proof. intros skip x H. unfold next_token. rewrite H. reflexivity. Qed.

Lemma next_token_word_gen : forall tok a,
  tok <> [] -> tok_chars tok = true -> after_ok a -> next_token (tok ++ a) = (tok, a).
Proof.
  intros tok a NE T H. destruct a as [|d a].
  - rewrite app_nil_r. apply next_token_word_eof; assumption.
  - apply next_token_word; assumption.
Qed.

Lemma blank_is_space : forall l, forallb is_blank l = true -> forallb is_space l = true.
Proof.
  induction l as [|c r IH]; intros H; [reflexivity|].
  cbn [forallb] in *. apply andb_true_iff in H. destruct H as [H1 H2]. rewrite IH by assumption.
  unfold is_blank in H1. unfold is_space. rewrite andb_true_r. lia.
Qed.

Lemma tok_chars_no_newline : forall l, tok_chars l = true -> forallb no_newline l = true.
Proof.
  induction l as [|c r IH]; intros H; [reflexivity|].
  unfold tok_chars in *. cbn [forallb] in *. apply andb_true_iff in H. destruct H as [H1 H2].
  rewrite IH by assumption. rewrite andb_true_r.
  unfold is_delim, is_space in H1. unfold no_newline. lia.
Qed.

Lemma tok_not_punct : forall tok c, tok_chars tok = true -> is_delim c = true -> tok <> [c].
Proof.
  intros tok c H Hc E. subst tok. unfold tok_chars in H. cbn [forallb] in H. rewrite Hc in H. discriminate.
Qed.

(* ------------------------------------------------------------------ *)
(* well-formed views and options for which the text is re-readable      *)
(* ------------------------------------------------------------------ *)
Definition opts_ok (o : opts) : Prop :=
  forallb is_blank (o_indent o) = true /\ forallb is_blank (o_cur o) = true /\ base_ok (o_base o) = true /\
  (o_multiline o = true \/ o_comments o = false).

Lemma opts_ok_plus : forall o, opts_ok o -> opts_ok (plus_one_indent o).
Proof.
  intros o (H1 & H2 & H3 & H4). unfold opts_ok, plus_one_indent. cbn.
  rewrite forallb_app, H1, H2. repeat split; assumption.
Qed.

Definition name_ok (n : list Z) : Prop := n <> [] /\ tok_chars n = true.

(* an enum value name: a word that does not look like a number *)
Definition ename_ok (n : list Z) : Prop :=
  name_ok n /\ match n with c :: _ => is_digit c = false /\ c <> ch_minus | [] => False end.

Definition names_ok (names : list (list Z * Z)) : Prop :=
  NoDup (map fst names) /\ Forall (fun p => ename_ok (fst p)) names.

Definition scalar (v : tval) : Prop :=
  match v with VStruct _ | VArray _ _ => False | _ => True end.

(* arrays: all elements have the same shape (the element view type), and the indices fit size_t *)
Fixpoint wf_val (g : gentab) (v : tval) {struct v} : Prop :=
  match v with
  | VInt t x => fits t x = true
  | VBool _ => True
  | VEnum t names x => fits t x = true /\ names_ok names
  | VStruct fs =>
      NoDup (map (fun p => f_name (fst p)) fs) /\
      (fix wfl (l : list (finfo * tval)) : Prop :=
         match l with
         | [] => True
         | (fi, fv) :: r =>
             (name_ok (f_name fi) /\ (emits_value g fi = true -> f_anon fi = false) /\
              (f_ro fi = true -> scalar fv) /\ wf_val g fv) /\ wfl r
         end) fs
  | VArray _ es =>
      Z.of_nat (length es) <= 18446744073709551615 /\
      (fix wfl (l : list tval) : Prop :=
         match l with
         | [] => True
         | e :: r => (wf_val g e /\ schema_of e = match es with e0 :: _ => schema_of e0 | [] => SBool end) /\ wfl r
         end) es
  end.

Definition field_ok (g : gentab) (p : finfo * tval) : Prop :=
  name_ok (f_name (fst p)) /\ (emits_value g (fst p) = true -> f_anon (fst p) = false) /\
  (f_ro (fst p) = true -> scalar (snd p)) /\ wf_val g (snd p).

Lemma wf_struct_forall : forall g fs, wf_val g (VStruct fs) ->
  NoDup (map (fun p => f_name (fst p)) fs) /\ Forall (field_ok g) fs.
Proof.
  intros g fs [H1 H2]. split; [exact H1|]. clear H1.
  induction fs as [|[fi fv] r IH]; [constructor|].
  destruct H2 as [Hf Hr]. constructor; [exact Hf|apply IH; exact Hr].
Qed.

Definition elem_sch (es : list tval) : sch := match es with e0 :: _ => schema_of e0 | [] => SBool end.

Lemma wf_array_forall : forall g a es, wf_val g (VArray a es) ->
  Z.of_nat (length es) <= 18446744073709551615 /\
  Forall (fun e => wf_val g e /\ schema_of e = elem_sch es) es.
Proof.
  intros g a es [H1 H2]. split; [exact H1|]. clear H1. unfold elem_sch.
  generalize (match es with e0 :: _ => schema_of e0 | [] => SBool end) H2. clear H2.
  induction es as [|e r IH]; intros sc H2; [constructor|].
  destruct H2 as [He Hr]. constructor; [exact He|apply IH; exact Hr].
Qed.

(* fuel that is enough for UpdateFromTextStream on the text of v *)
Fixpoint need (v : tval) : nat :=
  match v with
  | VStruct fs => S (S ((fix nl (l : list (finfo * tval)) : nat :=
                           match l with [] => O | (_, fv) :: r => S (need fv + nl r) end) fs))
  | VArray _ es => S (S ((fix nl (l : list tval) : nat :=
                            match l with [] => O | e :: r => S (need e + nl r) end) es))
  | _ => S O
  end.

Fixpoint need_fields (l : list (finfo * tval)) : nat :=
  match l with [] => O | (_, fv) :: r => S (need fv + need_fields r) end.

Fixpoint need_elems (l : list tval) : nat :=
  match l with [] => O | e :: r => S (need e + need_elems r) end.

Lemma need_array : forall a es, need (VArray a es) = S (S (need_elems es)).
Proof. intros a es. reflexivity. Qed.

Lemma need_struct : forall fs, need (VStruct fs) = S (S (need_fields fs)).
Proof.
  intros fs. reflexivity.
Qed.

Fixpoint events_fields (g : gentab) (path : list pelem) (l : list (finfo * tval)) : list event :=
  match l with
  | [] => []
  | (fi, fv) :: r =>
      (if emits_value g fi then events_of g (path ++ [PField (f_name fi)]) fv else []) ++ events_fields g path r
  end.

Lemma events_struct : forall g path fs, events_of g path (VStruct fs) = events_fields g path fs.
Proof.
  intros g path fs. cbn [events_of].
  induction fs as [|[fi fv] r IH]; [reflexivity|]. cbn [events_fields]. rewrite IH. reflexivity.
Qed.

Fixpoint events_elems (g : gentab) (path : list pelem) (l : list tval) (i : Z) : list event :=
  match l with
  | [] => []
  | e :: r => events_of g (path ++ [PIndex i]) e ++ events_elems g path r (i + 1)
  end.

Lemma events_array : forall g path a es, events_of g path (VArray a es) = events_elems g path es 0.
Proof.
  intros g path a es. cbn [events_of]. generalize 0.
  induction es as [|e r IH]; intros i; [reflexivity|]. cbn [events_elems]. rewrite IH. reflexivity.
Qed.

Lemma schema_array : forall a es, schema_of (VArray a es) = SArray (Z.of_nat (length es)) (elem_sch es).
Proof. reflexivity. Qed.

Definition sch_fields (fs : list (finfo * tval)) : list (list Z * bool * sch) :=
  map (fun p => (f_name (fst p), decodable (fst p), schema_of (snd p))) fs.

Lemma schema_struct : forall fs, schema_of (VStruct fs) = SStruct (sch_fields fs).
Proof. reflexivity. Qed.

(* value text = the token(s) that are read + a trailing comment *)
Definition trail_of (o : opts) (v : tval) : list Z :=
  match v with
  | VInt t x => if o_comments o then s_cmt ++ enc t x (if o_base o =? 10 then 16 else 10) (o_grouping o) else []
  | VEnum t names x =>
      match enum_name names x with
      | Some _ => if o_comments o then s_cmt ++ enc t x (o_base o) (o_grouping o) else []
      | None => []
      end
  | _ => []
  end.

Definition core_of (g : gentab) (o : opts) (v : tval) : list Z :=
  match v with
  | VInt t x => enc t x (o_base o) (o_grouping o)
  | VEnum t names x =>
      match enum_name names x with Some n => n | None => enc t x (o_base o) (o_grouping o) end
  | _ => write_val g o v
  end.

Lemma write_split : forall g o v, write_val g o v = core_of g o v ++ trail_of o v.
Proof.
  intros g o v. destruct v; cbn [write_val core_of trail_of]; try (rewrite app_nil_r; reflexivity).
  - reflexivity.
  - unfold write_enum. destruct (enum_name names x); [reflexivity|rewrite app_nil_r; reflexivity].
Qed.

Lemma other_base_ok : forall b, base_ok b = true -> base_ok (if b =? 10 then 16 else 10) = true.
Proof. intros b H. destruct (b =? 10); reflexivity. Qed.

(* a trailing comment followed by the end of the line is skipped like white space *)
Lemma trail_ws_like : forall g o v, opts_ok o -> wf_val g v -> ws_like (trail_of o v ++ [ch_lf]).
Proof.
  intros g o v (O1 & O2 & O3 & O4) Hwf.
  assert (C : forall t x base, base_ok base = true -> fits t x = true ->
              ws_like ((s_cmt ++ enc t x base (o_grouping o)) ++ [ch_lf])).
  { intros t x base Hb Hx. rewrite enc_eq by assumption.
    destruct (numeral_text_tok base (o_grouping o) x Hb) as (T1 & T2 & T3).
    change s_cmt with ([ch_space; ch_space] ++ [ch_hash; ch_space]).
    rewrite <- !app_assoc. apply ws_like_app; [apply ws_like_space; reflexivity|].
    cbn [app]. change (ch_hash :: ch_space :: numeral_text base (o_grouping o) x ++ [ch_lf])
      with (ch_hash :: (ch_space :: numeral_text base (o_grouping o) x) ++ [ch_lf]).
    apply ws_like_comment. cbn [forallb]. rewrite T2. reflexivity. }
  destruct v; cbn [trail_of]; try (apply ws_like_space; reflexivity).
  - cbn [wf_val] in Hwf. destruct (o_comments o); [|apply ws_like_space; reflexivity].
    apply C; [apply other_base_ok; exact O3|exact Hwf].
  - cbn [wf_val] in Hwf. destruct Hwf as [Hx _].
    destruct (enum_name names x); [|apply ws_like_space; reflexivity].
    destruct (o_comments o); [|apply ws_like_space; reflexivity].
    apply C; assumption.
Qed.

Lemma trail_head : forall o v, trail_of o v = [] \/ exists r, trail_of o v = ch_space :: r.
Proof.
  intros o v. destruct v; cbn [trail_of]; try (left; reflexivity).
  - destruct (o_comments o); [right; eexists; reflexivity|left; reflexivity].
  - destruct (enum_name names x); [|left; reflexivity].
    destruct (o_comments o); [right; eexists; reflexivity|left; reflexivity].
Qed.

Lemma trail_nil_nocomments : forall o v, o_comments o = false -> trail_of o v = [].
Proof.
  intros o v H. destruct v; cbn [trail_of]; try reflexivity; rewrite H; [reflexivity|].
  destruct (enum_name names x); reflexivity.
Qed.

(* the text of a scalar has no line break (so a read-only field is one comment line) *)
Lemma enum_name_in : forall names x n, enum_name names x = Some n -> In (n, x) names.
Proof.
  induction names as [|[m v] r IH]; intros x n H; cbn [enum_name] in H; [discriminate|].
  destruct (v =? x) eqn:E.
  - inversion H; subst. left. f_equal. lia.
  - right. apply IH. exact H.
Qed.

Lemma scalar_no_newline : forall g o v, opts_ok o -> wf_val g v -> scalar v ->
  forallb no_newline (write_val g o v) = true.
Proof.
  intros g o v (O1 & O2 & O3 & O4) Hwf Hs.
  assert (N : forall t x base, base_ok base = true -> fits t x = true ->
              forallb no_newline (enc t x base (o_grouping o)) = true).
  { intros t x base Hb Hx. rewrite enc_eq by assumption.
    destruct (numeral_text_tok base (o_grouping o) x Hb) as (T1 & T2 & T3). exact T2. }
  destruct v; cbn [scalar] in Hs; try contradiction; cbn [write_val wf_val] in *.
  - unfold write_int. rewrite forallb_app, N by assumption.
    destruct (o_comments o); [|reflexivity]. rewrite forallb_app, N; [reflexivity|apply other_base_ok; exact O3|exact Hwf].
  - destruct b; reflexivity.
  - destruct Hwf as [Hx [ND HF]]. unfold write_enum.
    destruct (enum_name names x) as [n|] eqn:E; [|apply N; assumption].
    apply enum_name_in in E. rewrite Forall_forall in HF. specialize (HF _ E). cbn [fst] in HF.
    destruct HF as [[NE TC] _]. rewrite forallb_app, (tok_chars_no_newline _ TC).
    destruct (o_comments o); [|reflexivity]. rewrite forallb_app, N by assumption. reflexivity.
Qed.

(* ------------------------------------------------------------------ *)
(* UpdateFromTextStream of the written text                             *)
(* ------------------------------------------------------------------ *)
Section RT.
  Variable W : Type.
  Variable tw : list pelem -> wv -> W -> option W.

  Lemma update_S_leaf : forall f sc path s w,
    (match sc with SStruct _ | SArray _ _ => False | _ => True end) ->
    update W tw (S f) sc path s w = update_leaf W tw sc path s w.
  Proof. intros f sc path s w H. destruct sc; try contradiction; reflexivity. Qed.

  Lemma update_S_struct : forall f fs path s w,
    update W tw (S f) (SStruct fs) path s w =
      match read_token s with
      | None => UFail w
      | Some (brace, s1) => if list_eqb brace [ch_lbrace] then struct_loop W tw f fs path s1 w else UFail w
      end.
  Proof. reflexivity. Qed.

  Lemma struct_loop_S : forall f fs path s w,
    struct_loop W tw (S f) fs path s w =
      match read_token s with
      | None => UFail w
      | Some (name0, s1) =>
          match (if list_eqb name0 [ch_comma] then read_token s1 else Some (name0, s1)) with
          | None => UFail w
          | Some (name, s2) =>
              if list_eqb name [ch_rbrace] then UOk s2 w
              else
                match read_token s2 with
                | None => UFail w
                | Some (colon, s3) =>
                    if negb (list_eqb colon [ch_colon]) then UFail w
                    else
                      match find_field fs name with
                      | None => UFail w
                      | Some fsc =>
                          match update W tw f fsc (path ++ [PField name]) s3 w with
                          | UOk s4 w4 => struct_loop W tw f fs path s4 w4
                          | e => e
                          end
                      end
                end
          end
      end.
  Proof. reflexivity. Qed.

  Lemma apply_events_app : forall e1 e2 w w',
    apply_events W tw (e1 ++ e2) w = Some w' ->
    exists w1, apply_events W tw e1 w = Some w1 /\ apply_events W tw e2 w1 = Some w'.
  Proof.
    induction e1 as [|[p x] r IH]; intros e2 w w' H.
    - exists w. split; [reflexivity|exact H].
    - cbn [app apply_events] in *. destruct (tw p x w) as [w0|]; [|discriminate].
      apply IH. exact H.
  Qed.

  (* reading one token of the text: pad (white space), the word, then something that ends it *)
  Lemma read_word : forall b pad tok a,
    forallb is_space pad = true -> tok <> [] -> tok_chars tok = true -> after_ok a ->
    exists b', read_token (b, pad ++ tok ++ a) = Some (tok, (b', a)).
  Proof.
    intros b pad tok a Hp NE T Ha.
    destruct (read_token_pure_lem b (pad ++ tok ++ a)) as [b' [H _]].
    rewrite next_token_skip_space in H by assumption.
    rewrite next_token_word_gen in H by assumption.
    exists b'. exact H.
  Qed.

  Lemma read_punct : forall b skip c a,
    ws_like skip -> is_punct c = true -> c <> 0 ->
    exists b', read_token (b, skip ++ c :: a) = Some ([c], (b', a)).
  Proof.
    intros b skip c a Hs Hc H0.
    destruct (read_token_pure_lem b (skip ++ c :: a)) as [b' [H _]].
    rewrite next_token_ws_like in H by assumption.
    rewrite next_token_punct in H by assumption.
    exists b'. exact H.
  Qed.

  (* ---- leaves ---- *)
  Lemma rt_int : forall t x o path b pad rest w w' f,
    fits t x = true -> opts_ok o -> forallb is_space pad = true ->
    (trail_of o (VInt t x) = [] -> after_ok rest) ->
    tw path (WInt t x) w = Some w' ->
    exists b', update W tw (S f) (SInt t) path (b, pad ++ write_val gt_std o (VInt t x) ++ rest) w =
               UOk (b', trail_of o (VInt t x) ++ rest) w'.
  Proof.
    intros t x o path b pad rest w w' f Hx (O1 & O2 & O3 & O4) Hp Ha Htw.
    rewrite update_S_leaf by exact I.
    rewrite (write_split gt_std o (VInt t x)). cbn [core_of]. rewrite <- app_assoc.
    rewrite enc_eq by assumption.
    destruct (numeral_text_tok (o_base o) (o_grouping o) x O3) as (T1 & T2 & T3).
    assert (Hafter : after_ok (trail_of o (VInt t x) ++ rest)).
    { destruct (trail_head o (VInt t x)) as [E|[r E]]; rewrite E; [apply Ha; exact E|reflexivity]. }
    destruct (read_word b pad _ _ Hp T3 T1 Hafter) as [b' RT].
    exists b'. unfold update_leaf. rewrite RT.
    destruct (numeral_text (o_base o) (o_grouping o) x) as [|c r] eqn:E; [congruence|]. rewrite <- E.
    rewrite decode_numeral_text_lem by assumption.
    unfold do_write. rewrite Htw. reflexivity.
  Qed.

  Lemma rt_bool : forall bv o path b pad rest w w' f,
    forallb is_space pad = true -> after_ok rest ->
    tw path (WBool bv) w = Some w' ->
    exists b', update W tw (S f) SBool path (b, pad ++ write_val gt_std o (VBool bv) ++ rest) w = UOk (b', rest) w'.
  Proof.
    intros bv o path b pad rest w w' f Hp Ha Htw.
    rewrite update_S_leaf by exact I. cbn [write_val].
    assert (T : forall s, s = s_true \/ s = s_false -> s <> [] /\ tok_chars s = true).
    { intros s [->| ->]; split; try discriminate; reflexivity. }
    destruct bv.
    - destruct (T s_true (or_introl eq_refl)) as [NE TC].
      destruct (read_word b pad _ _ Hp NE TC Ha) as [b' RT]. exists b'.
      unfold update_leaf. rewrite RT. change (list_eqb s_true s_true) with true. cbv iota.
      unfold do_write. rewrite Htw. reflexivity.
    - destruct (T s_false (or_intror eq_refl)) as [NE TC].
      destruct (read_word b pad _ _ Hp NE TC Ha) as [b' RT]. exists b'.
      unfold update_leaf. rewrite RT. change (list_eqb s_false s_true) with false.
      change (list_eqb s_false s_false) with true. cbv iota.
      unfold do_write. rewrite Htw. reflexivity.
  Qed.

  Lemma enum_value_name : forall names x n,
    NoDup (map fst names) -> enum_name names x = Some n -> enum_value names n = Some x.
  Proof.
    induction names as [|[m v] r IH]; intros x n ND H; cbn [enum_name] in H; [discriminate|].
    cbn [map fst] in ND. inversion ND as [|? ? Hnotin ND']; subst.
    cbn [enum_value]. destruct (v =? x) eqn:E.
    - inversion H; subst. rewrite list_eqb_refl. f_equal. lia.
    - destruct (list_eqb m n) eqn:E2.
      + apply list_eqb_eq in E2. subst m. exfalso. apply Hnotin.
        apply enum_name_in in H. apply (in_map fst) in H. exact H.
      + apply IH; assumption.
  Qed.

  Lemma u64_fits : forall t x, fits t x = true -> 0 <= x -> fits u64 x = true.
  Proof.
    intros t x H Hx. apply fits_iff in H. apply fits_iff.
    pose proof (ty_facts t) as (_ & _ & _ & _ & _ & _ & F7 & _).
    change (ty_min u64) with 0. change (ty_max u64) with 18446744073709551615. lia.
  Qed.

  Lemma i64_fits : forall t x, fits t x = true -> x < 0 -> fits i64 x = true.
  Proof.
    intros t x H Hx. apply fits_iff in H. apply fits_iff.
    pose proof (ty_facts t) as (_ & _ & _ & _ & F5 & F6 & _).
    change (ty_min i64) with (-9223372036854775808). change (ty_max i64) with 9223372036854775807.
    destruct (ity_signed t); [destruct (F6 eq_refl); lia|specialize (F5 eq_refl); lia].
  Qed.

  Lemma rt_enum : forall t names x o path b pad rest w w' f,
    fits t x = true -> names_ok names -> opts_ok o -> forallb is_space pad = true ->
    (trail_of o (VEnum t names x) = [] -> after_ok rest) ->
    tw path (WEnum t x) w = Some w' ->
    exists b', update W tw (S f) (SEnum t names) path (b, pad ++ write_val gt_std o (VEnum t names x) ++ rest) w =
               UOk (b', trail_of o (VEnum t names x) ++ rest) w'.
  Proof.
    intros t names x o path b pad rest w w' f Hx [ND HF] (O1 & O2 & O3 & O4) Hp Ha Htw.
    rewrite update_S_leaf by exact I.
    rewrite (write_split gt_std o (VEnum t names x)). rewrite <- app_assoc.
    assert (Hafter : after_ok (trail_of o (VEnum t names x) ++ rest)).
    { destruct (trail_head o (VEnum t names x)) as [E|[r E]]; rewrite E; [apply Ha; exact E|reflexivity]. }
    cbn [core_of].
    destruct (enum_name names x) as [n|] eqn:EN.
    - (* by name *)
      pose proof (enum_name_in _ _ _ EN) as Hin.
      rewrite Forall_forall in HF. specialize (HF _ Hin). cbn [fst] in HF.
      destruct HF as [[NE TC] Hhead].
      destruct (read_word b pad _ _ Hp NE TC Hafter) as [b' RT]. exists b'.
      unfold update_leaf. rewrite RT.
      destruct n as [|c r]; [contradiction|]. destruct Hhead as [Hd Hm].
      rewrite Hd. assert (E : (c =? ch_minus) = false) by lia. rewrite E.
      rewrite (enum_value_name _ _ _ ND EN). unfold do_write. rewrite Htw. reflexivity.
    - (* by number, in the underlying type; read as uint64_t or int64_t *)
      rewrite enc_eq by assumption.
      destruct (numeral_text_tok (o_base o) (o_grouping o) x O3) as (T1 & T2 & T3).
      destruct (read_word b pad _ _ Hp T3 T1 Hafter) as [b' RT]. exists b'.
      unfold update_leaf. rewrite RT.
      destruct (Z_lt_le_dec x 0) as [Hneg|Hpos].
      + destruct (numeral_text_head_neg (o_base o) (o_grouping o) x Hneg) as [r E].
        rewrite E. change (is_digit ch_minus) with false. cbv iota. rewrite Z.eqb_refl. rewrite <- E.
        rewrite decode_numeral_text_lem; [|exact O3|eapply i64_fits; eauto].
        rewrite wrap_fits by assumption. unfold do_write. rewrite Htw. reflexivity.
      + destruct (numeral_text_head_nonneg (o_base o) (o_grouping o) x O3 Hpos) as [c [r [E Hd]]].
        rewrite E. rewrite Hd. rewrite <- E.
        rewrite decode_numeral_text_lem; [|exact O3|eapply u64_fits; eauto].
        rewrite wrap_fits by assumption. unfold do_write. rewrite Htw. reflexivity.
  Qed.
End RT.

Section RT2.
  Variable W : Type.
  Variable tw : list pelem -> wv -> W -> option W.

  (* the statement proved by induction on the view *)
  Definition RT_val (v : tval) : Prop :=
    forall g o path b pad rest w w' fuel,
      wf_val g v -> opts_ok o -> forallb is_space pad = true ->
      (trail_of o v = [] -> after_ok rest) ->
      (need v <= fuel)%nat ->
      apply_events W tw (events_of g path v) w = Some w' ->
      exists b', update W tw fuel (schema_of v) path (b, pad ++ write_val g o v ++ rest) w =
                 UOk (b', trail_of o v ++ rest) w'.

  Lemma find_field_in : forall fs_all pre fi fv r,
    fs_all = pre ++ (fi, fv) :: r ->
    NoDup (map (fun p => f_name (fst p)) fs_all) -> decodable fi = true ->
    find_field (sch_fields fs_all) (f_name fi) = Some (schema_of fv).
  Proof.
    intros fs_all pre fi fv r -> ND Hd.
    induction pre as [|[fi0 fv0] pre IH]; cbn [app sch_fields map find_field fst snd].
    - rewrite Hd, list_eqb_refl. reflexivity.
    - cbn [app map fst] in ND. inversion ND as [|? ? Hnotin ND']; subst.
      destruct (decodable fi0 && list_eqb (f_name fi0) (f_name fi)) eqn:E.
      + apply andb_true_iff in E. destruct E as [_ E]. apply list_eqb_eq in E.
        exfalso. apply Hnotin. rewrite map_app. apply in_or_app. right. left. cbn [fst]. symmetry. exact E.
      + apply IH. exact ND'.
  Qed.

  (* in single-line mode the remaining fields start with a comma (or there are none) *)
  Lemma wfields_single_head : forall g fo r,
    o_multiline fo = false -> o_comments fo = false ->
    wfields g fo r true = [] \/ exists x, wfields g fo r true = ch_comma :: x.
  Proof.
    intros g fo r Hm Hc. induction r as [|[fi fv] r IH]; cbn [wfields]; [left; reflexivity|].
    destruct (negb (gen_emits g (f_attr fi))); [exact IH|].
    destruct (f_ro fi).
    - rewrite Hc, andb_false_r. cbn [app]. exact IH.
    - destruct (f_present fi); [|exact IH]. rewrite Hm. right. eexists. cbn [app]. reflexivity.
  Qed.

  Lemma after_ok_close : forall cl rest, forallb is_blank cl = true -> after_ok (cl ++ ch_rbrace :: rest).
  Proof.
    intros [|c cl] rest H; cbn [app after_ok]; [reflexivity|].
    cbn [forallb] in H. apply andb_true_iff in H. destruct H as [H _].
    unfold is_blank in H. unfold is_delim, is_space. lia.
  Qed.

  Lemma fields_loop : forall g fo path cl rest fs_all,
    opts_ok fo -> forallb is_blank cl = true ->
    NoDup (map (fun p => f_name (fst p)) fs_all) ->
    forall fs, Forall (fun p => RT_val (snd p)) fs -> Forall (field_ok g) fs ->
    forall pre, fs_all = pre ++ fs ->
    forall b skip wrote w w' fuel,
      ws_like skip -> (S (need_fields fs) <= fuel)%nat ->
      apply_events W tw (events_fields g path fs) w = Some w' ->
      exists b', struct_loop W tw fuel (sch_fields fs_all) path
                   (b, skip ++ wfields g fo fs wrote ++ cl ++ ch_rbrace :: rest) w = UOk (b', rest) w'.
  Proof.
    intros g fo path cl rest fs_all Hfo Hcl ND fs HRT.
    induction HRT as [|[fi fv] r Hrt HRT IH]; intros Hok pre Hpre b skip wrote w w' fuel Hskip Hfuel Hev.
    - (* no more fields: the closing brace *)
      destruct fuel as [|f]; [lia|]. rewrite struct_loop_S. cbn [wfields app].
      assert (Hs2 : ws_like (skip ++ cl)) by (apply ws_like_app; [exact Hskip|apply ws_like_space, blank_is_space; exact Hcl]).
      rewrite app_assoc.
      destruct (read_punct b (skip ++ cl) ch_rbrace rest Hs2 eq_refl ltac:(discriminate)) as [b' RT].
      rewrite RT. change (list_eqb [ch_rbrace] [ch_comma]) with false. cbv iota.
      change (list_eqb [ch_rbrace] [ch_rbrace]) with true. cbv iota.
      cbn [events_fields apply_events] in Hev. inversion Hev; subst. exists b'. reflexivity.
    - inversion Hok as [|? ? Hf Hok']; subst.
      destruct Hf as (Hname & Hanon & Hro & Hwf). cbn [fst snd] in *.
      assert (Hpre' : pre ++ (fi, fv) :: r = (pre ++ [(fi, fv)]) ++ r) by (rewrite <- app_assoc; reflexivity).
      cbn [need_fields] in Hfuel.
      cbn [wfields events_fields] in *.
      unfold emits_value in Hev, Hanon.
      destruct (gen_emits g (f_attr fi)) eqn:EG; cbn [negb andb] in *;
        [|apply (IH Hok' _ Hpre' b skip wrote w w' fuel Hskip ltac:(lia) Hev)].
      destruct (f_ro fi) eqn:ERO; cbn [negb andb] in *.
      + (* read-only: one comment line, or nothing *)
        rewrite andb_false_r in Hev. cbn [app] in Hev.
        destruct (f_present fi && o_comments fo) eqn:EPC;
          [|cbn [app]; apply (IH Hok' _ Hpre' b skip wrote w w' fuel Hskip ltac:(lia) Hev)].
        destruct Hfo as (O1 & O2 & O3 & O4).
        assert (Hline : ws_like (o_cur fo ++ s_hash_sp ++ f_name fi ++ s_colon_sp ++ write_val g fo fv ++ s_lf)).
        { apply ws_like_app; [apply ws_like_space, blank_is_space; exact O2|].
          change (s_hash_sp ++ f_name fi ++ s_colon_sp ++ write_val g fo fv ++ s_lf)
            with (ch_hash :: (ch_space :: f_name fi ++ s_colon_sp ++ write_val g fo fv ++ [ch_lf])).
          replace (ch_space :: f_name fi ++ s_colon_sp ++ write_val g fo fv ++ [ch_lf])
            with ((ch_space :: f_name fi ++ s_colon_sp ++ write_val g fo fv) ++ [ch_lf])
            by (cbn [app]; rewrite <- !app_assoc; reflexivity).
          apply ws_like_comment. cbn [forallb]. rewrite !forallb_app.
          destruct Hname as [_ TC]. rewrite (tok_chars_no_newline _ TC).
          rewrite (scalar_no_newline g fo fv (conj O1 (conj O2 (conj O3 O4))) Hwf (Hro eq_refl)). reflexivity. }
        rewrite <- !app_assoc.
        replace (skip ++ o_cur fo ++ s_hash_sp ++ f_name fi ++ s_colon_sp ++ write_val g fo fv ++ s_lf ++
                 wfields g fo r wrote ++ cl ++ ch_rbrace :: rest)
          with ((skip ++ o_cur fo ++ s_hash_sp ++ f_name fi ++ s_colon_sp ++ write_val g fo fv ++ s_lf) ++
                wfields g fo r wrote ++ cl ++ ch_rbrace :: rest)
          by (rewrite <- !app_assoc; reflexivity).
        apply (IH Hok' _ Hpre' b _ wrote w w' fuel); [apply ws_like_app; assumption|lia|exact Hev].
      + destruct (f_present fi) eqn:EP; cbn [andb] in *;
          [|apply (IH Hok' _ Hpre' b skip wrote w w' fuel Hskip ltac:(lia) Hev)].
        (* a name: value pair *)
        apply apply_events_app in Hev. destruct Hev as [w1 [Hev1 Hev2]].
        destruct fuel as [|f]; [lia|].
        assert (Hf1 : (need fv <= f)%nat) by (clear - Hfuel; lia).
        assert (Hf2 : (S (need_fields r) <= f)%nat) by (clear - Hfuel; lia).
        rewrite struct_loop_S.
        destruct Hname as [NE TC].
        pose proof Hfo as (O1 & O2 & O3 & O4).
        assert (Hdec : decodable fi = true) by (unfold decodable; rewrite (Hanon eq_refl), ERO; reflexivity).
        assert (Hnc : list_eqb (f_name fi) [ch_comma] = false) by (apply list_eqb_neq, tok_not_punct; [exact TC|reflexivity]).
        assert (Hnb : list_eqb (f_name fi) [ch_rbrace] = false) by (apply list_eqb_neq, tok_not_punct; [exact TC|reflexivity]).
        (* what follows the value *)
        set (post := if o_multiline fo then s_lf else []).
        set (more := wfields g fo r true ++ cl ++ ch_rbrace :: rest).
        assert (Hpost_after : trail_of fo fv = [] -> after_ok (post ++ more)).
        { intros _. unfold post, more. destruct (o_multiline fo) eqn:EM; [reflexivity|]. cbn [app].
          destruct O4 as [O4|O4]; [congruence|].
          destruct (wfields_single_head g fo r EM O4) as [E|[x E]]; rewrite E; [apply after_ok_close; exact Hcl|reflexivity]. }
        assert (Hskip2 : ws_like (trail_of fo fv ++ post)).
        { unfold post. destruct (o_multiline fo) eqn:EM.
          - apply (trail_ws_like g); assumption.
          - destruct O4 as [O4|O4]; [congruence|]. rewrite (trail_nil_nocomments fo fv O4). apply ws_like_nil. }
        (* the tokens `name` and `:` *)
        assert (Hname_tok : forall b0, exists b1,
                  (let rt0 := read_token (b0, skip ++ (if o_multiline fo then o_cur fo
                                                       else (if wrote then [ch_comma] else []) ++ [ch_space]) ++
                                              f_name fi ++ s_colon_sp ++ write_val g fo fv ++ post ++ more) in
                   match rt0 with
                   | Some (name0, s1) =>
                       (if list_eqb name0 [ch_comma] then read_token s1 else Some (name0, s1))
                   | None => None
                   end) = Some (f_name fi, (b1, s_colon_sp ++ write_val g fo fv ++ post ++ more))).
        { intros b0. cbv zeta.
          assert (Hword : forall b2 sk, ws_like sk -> exists b3,
                    read_token (b2, sk ++ f_name fi ++ s_colon_sp ++ write_val g fo fv ++ post ++ more) =
                    Some (f_name fi, (b3, s_colon_sp ++ write_val g fo fv ++ post ++ more))).
          { intros b2 sk Hsk.
            destruct (read_token_pure_lem b2 (sk ++ f_name fi ++ s_colon_sp ++ write_val g fo fv ++ post ++ more)) as [b3 [H _]].
            rewrite next_token_ws_like in H by exact Hsk.
            rewrite next_token_word_gen in H; [|exact NE|exact TC|reflexivity].
            exists b3. exact H. }
          destruct (o_multiline fo) eqn:EM.
          - rewrite app_assoc.
            destruct (Hword b0 (skip ++ o_cur fo)) as [b3 H];
              [apply ws_like_app; [exact Hskip|apply ws_like_space, blank_is_space; exact O2]|].
            rewrite H, Hnc. exists b3. reflexivity.
          - destruct wrote.
            + cbn [app].
              destruct (read_punct b0 skip ch_comma
                          (ch_space :: f_name fi ++ s_colon_sp ++ write_val g fo fv ++ post ++ more) Hskip eq_refl ltac:(discriminate))
                as [b2 H2].
              rewrite H2. change (list_eqb [ch_comma] [ch_comma]) with true. cbv iota.
              destruct (Hword b2 [ch_space]) as [b3 H]; [apply ws_like_space; reflexivity|].
              cbn [app] in H. rewrite H. exists b3. reflexivity.
            + cbn [app]. rewrite app_assoc.
              destruct (Hword b0 (skip ++ [ch_space])) as [b3 H];
                [apply ws_like_app; [exact Hskip|apply ws_like_space; reflexivity]|].
              rewrite <- app_assoc in H. cbn [app] in H. rewrite <- app_assoc. cbn [app].
              rewrite H, Hnc. exists b3. reflexivity. }
        (* put the text into the shape used by Hname_tok *)
        replace (skip ++ ((if o_multiline fo then o_cur fo else (if wrote then [ch_comma] else []) ++ [ch_space]) ++
                          f_name fi ++ s_colon_sp ++ write_val g fo fv ++
                          post ++ wfields g fo r true) ++ cl ++ ch_rbrace :: rest)
          with (skip ++ (if o_multiline fo then o_cur fo else (if wrote then [ch_comma] else []) ++ [ch_space]) ++
                f_name fi ++ s_colon_sp ++ write_val g fo fv ++ post ++ more)
          by (unfold more; rewrite <- !app_assoc; reflexivity).
        destruct (Hname_tok b) as [b1 HN]. cbv zeta in HN.
        destruct (read_token (b, skip ++ (if o_multiline fo then o_cur fo else (if wrote then [ch_comma] else []) ++ [ch_space]) ++
                                f_name fi ++ s_colon_sp ++ write_val g fo fv ++ post ++ more)) as [[name0 s1]|]; [|discriminate].
        rewrite HN. rewrite Hnb.
        (* the colon *)
        destruct (read_punct b1 [] ch_colon (ch_space :: write_val g fo fv ++ post ++ more) ws_like_nil eq_refl ltac:(discriminate))
          as [b2 HC].
        cbn [app] in HC. change (s_colon_sp ++ write_val g fo fv ++ post ++ more)
          with (ch_colon :: ch_space :: write_val g fo fv ++ post ++ more).
        rewrite HC. change (list_eqb [ch_colon] [ch_colon]) with true. cbn [negb]. cbv iota.
        rewrite (find_field_in _ pre fi fv r eq_refl ND Hdec).
        (* the value *)
        destruct (Hrt g fo (path ++ [PField (f_name fi)]) b2 [ch_space] (post ++ more) w w1 f Hwf Hfo (eq_refl true) Hpost_after
                    Hf1 Hev1) as [b3 HV].
        cbn [app] in HV. rewrite HV.
        (* the remaining fields *)
        rewrite app_assoc.
        apply (IH Hok' _ Hpre' b3 (trail_of fo fv ++ post) true w1 w' f Hskip2 Hf2 Hev2).
  Qed.
End RT2.
