(* C06 -- proofs about the integer text codec (IntCodec.v). *)
From Coq Require Import ZArith List Bool Lia ZifyBool.
Import ListNotations.
Require Import EmbossV.Text.IntCodec.
Open Scope Z_scope.

(* ------------------------------------------------------------------ *)
(* facts about the eight types (symbolic, enough for lia)               *)
(* ------------------------------------------------------------------ *)
Definition ty_facts_b (t : ity) : bool :=
  (ty_min (promote t) <=? ty_min t) && (ty_min t <=? 0) && (127 <=? ty_max t) &&
  (ty_max t <=? ty_max (promote t)) &&
  (if ity_signed t then ty_min t =? - ty_max t - 1 else ty_min t =? 0) &&
  (ty_max t <? 18446744073709551616) && (2147483647 <=? ty_max (promote t)) &&
  (if ity_signed t then ty_max t <? 9223372036854775808 else true).

Lemma ty_facts_b_true : forall t, ty_facts_b t = true.
Proof. intros [[] []]; vm_compute; reflexivity. Qed.

Lemma ty_facts : forall t,
  ty_min (promote t) <= ty_min t /\ ty_min t <= 0 /\ 127 <= ty_max t /\ ty_max t <= ty_max (promote t) /\
  (ity_signed t = false -> ty_min t = 0) /\
  (ity_signed t = true -> ty_min t = - ty_max t - 1 /\ ty_max t < 9223372036854775808) /\
  ty_max t < 18446744073709551616 /\ 2147483647 <= ty_max (promote t).
Proof.
  intros t. pose proof (ty_facts_b_true t) as H. unfold ty_facts_b in H.
  destruct (ity_signed t); repeat split; try discriminate; intros; try lia.
Qed.

Lemma c_int_facts : ty_min c_int = -2147483648 /\ ty_max c_int = 2147483647.
Proof. vm_compute; auto. Qed.

Lemma fits_iff : forall t z, fits t z = true <-> ty_min t <= z <= ty_max t.
Proof. intros; unfold fits; lia. Qed.

Lemma chk_ok : forall t z, fits t z = true -> chk t z = Ok z.
Proof. intros t z H; unfold chk; rewrite H; reflexivity. Qed.

Lemma base_ok_cases : forall b, base_ok b = true -> b = 2 \/ b = 10 \/ b = 16.
Proof. intros b; unfold base_ok; lia. Qed.

Lemma base_ok_range : forall b, base_ok b = true -> 2 <= b <= 16.
Proof. intros b H; apply base_ok_cases in H; lia. Qed.

Lemma digit_of_range : forall c d, digit_of c = Some d -> 0 <= d < 16.
Proof.
  intros c d; unfold digit_of.
  destruct ((48 <=? c) && (c <=? 57)) eqn:E1; [intros H; inversion H; lia|].
  destruct ((65 <=? c) && (c <=? 70)) eqn:E2; [intros H; inversion H; lia|].
  destruct ((97 <=? c) && (c <=? 102)) eqn:E3; [intros H; inversion H; lia|discriminate].
Qed.

(* ------------------------------------------------------------------ *)
(* division facts, proved once in a small context                       *)
(* ------------------------------------------------------------------ *)
Lemma div_gt_iff : forall a n b, 0 < b -> (a > n / b <-> a * b > n).
Proof.
  intros a n b Hb.
  pose proof (Z.mul_div_le n b Hb). pose proof (Z.mul_succ_div_gt n b Hb).
  split; intros H1; nia.
Qed.

Lemma div_range : forall n b, 0 < b -> 0 <= n -> 0 <= n / b <= n.
Proof.
  intros n b Hb Hn. split; [apply Z.div_pos; lia|].
  apply Z.div_le_upper_bound; [lia|nia].
Qed.

Lemma mod_range : forall n b, 0 < b -> 0 <= n mod b < b.
Proof. intros; apply Z.mod_pos_bound; lia. Qed.

Lemma quot_neg : forall n b, 0 < b -> n <= 0 -> Z.quot n b = - ((- n) / b).
Proof.
  intros n b Hb Hn. replace n with (- (- n)) at 1 by lia.
  rewrite Z.quot_opp_l by lia. rewrite Z.quot_div_nonneg by lia. reflexivity.
Qed.

Lemma quot_lt_iff : forall a n b, 0 < b -> n <= 0 -> (a < Z.quot n b <-> a * b < n).
Proof.
  intros a n b Hb Hn. rewrite quot_neg by lia.
  pose proof (div_gt_iff (- a) (- n) b Hb). split; intros; nia.
Qed.

Lemma quot_neg_range : forall n b, 0 < b -> n <= 0 -> n <= Z.quot n b <= 0.
Proof.
  intros n b Hb Hn. rewrite quot_neg by lia.
  pose proof (div_range (- n) b Hb). lia.
Qed.

Lemma succ_div_carry : forall n b, 0 < b -> n mod b + 1 = b ->
  (n + 1) / b = n / b + 1 /\ (n + 1) mod b = 0.
Proof.
  intros n b Hb H. pose proof (Z.div_mod n b ltac:(lia)) as E.
  assert (E2 : n + 1 = b * (n / b + 1) + 0) by nia.
  split; [symmetry; apply (Z.div_unique _ _ _ 0); lia | symmetry; apply (Z.mod_unique _ _ (n / b + 1)); lia].
Qed.

Lemma succ_div_nocarry : forall n b, 0 < b -> n mod b + 1 <> b ->
  (n + 1) / b = n / b /\ (n + 1) mod b = n mod b + 1.
Proof.
  intros n b Hb H. pose proof (Z.div_mod n b ltac:(lia)) as E.
  pose proof (mod_range n b Hb).
  assert (E2 : n + 1 = b * (n / b) + (n mod b + 1)) by lia.
  split; [symmetry; apply (Z.div_unique _ _ _ (n mod b + 1)); lia
         | symmetry; apply (Z.mod_unique _ _ (n / b)); lia].
Qed.

(* ------------------------------------------------------------------ *)
(* one accumulation step of DecodeInteger: no UB, exact overflow test   *)
(* ------------------------------------------------------------------ *)
Lemma dec_step_pos : forall t base acc d,
  base_ok base = true -> 0 <= acc <= ty_max t -> 0 <= d < base ->
  dec_step t false base acc d =
    if acc * base + d <=? ty_max t then Ok (acc * base + d) else Reject.
Proof.
  intros t base acc d Hb Ha Hd.
  pose proof (ty_facts t) as (F1 & F2 & F3 & F4 & _).
  apply base_ok_range in Hb.
  unfold dec_step.
  assert (Hq : Z.quot (ty_max t - d) base = (ty_max t - d) / base)
    by (apply Z.quot_div_nonneg; lia).
  pose proof (div_range (ty_max t - d) base ltac:(lia) ltac:(lia)) as Hr.
  pose proof (div_gt_iff acc (ty_max t - d) base ltac:(lia)) as Hi.
  rewrite chk_ok by (apply fits_iff; lia). cbn [bind]. rewrite Hq.
  rewrite chk_ok by (apply fits_iff; lia). cbn [bind].
  destruct (acc >? (ty_max t - d) / base) eqn:E.
  - destruct (acc * base + d <=? ty_max t) eqn:E2; [|reflexivity]. exfalso; lia.
  - assert (acc * base + d <= ty_max t) by lia.
    assert (0 <= acc * base) by nia.
    rewrite chk_ok by (apply fits_iff; lia). cbn [bind].
    rewrite chk_ok by (apply fits_iff; lia). cbn [bind].
    rewrite chk_ok by (apply fits_iff; lia).
    destruct (acc * base + d <=? ty_max t) eqn:E2; [reflexivity|lia].
Qed.

Lemma dec_step_neg : forall t base acc d,
  ity_signed t = true ->
  base_ok base = true -> ty_min t <= acc <= 0 -> 0 <= d < base ->
  dec_step t true base acc d =
    if ty_min t <=? acc * base - d then Ok (acc * base - d) else Reject.
Proof.
  intros t base acc d Hs Hb Ha Hd.
  pose proof (ty_facts t) as (F1 & F2 & F3 & F4 & _ & F6 & _).
  specialize (F6 Hs). destruct F6 as [F6 _].
  apply base_ok_range in Hb.
  unfold dec_step.
  assert (Hm : ty_min t + d <= 0) by lia.
  pose proof (quot_neg_range (ty_min t + d) base ltac:(lia) Hm) as Hr.
  pose proof (quot_lt_iff acc (ty_min t + d) base ltac:(lia) Hm) as Hi.
  rewrite chk_ok by (apply fits_iff; lia). cbn [bind].
  rewrite chk_ok by (apply fits_iff; lia). cbn [bind].
  destruct (acc <? Z.quot (ty_min t + d) base) eqn:E.
  - destruct (ty_min t <=? acc * base - d) eqn:E2; [|reflexivity]. exfalso; lia.
  - assert (ty_min t <= acc * base - d) by lia.
    assert (acc * base <= 0) by nia.
    rewrite chk_ok by (apply fits_iff; lia). cbn [bind].
    rewrite chk_ok by (apply fits_iff; lia). cbn [bind].
    rewrite chk_ok by (apply fits_iff; lia).
    destruct (ty_min t <=? acc * base - d) eqn:E2; [reflexivity|lia].
Qed.

(* ------------------------------------------------------------------ *)
(* DecodeInteger = range-checked numeral_value                          *)
(* ------------------------------------------------------------------ *)
Lemma digits_val_ge : forall base s off acc v,
  2 <= base -> 0 <= acc -> digits_val base off acc s = Some v -> acc <= v.
Proof.
  intros base s; induction s as [|c s IH]; intros off acc v Hb Ha H; cbn [digits_val] in H.
  - inversion H; lia.
  - destruct (c =? ch_us).
    + destruct (off =? 0); [discriminate|]. eapply IH; eauto.
    + destruct (digit_of c) as [d|] eqn:D; [|discriminate].
      apply digit_of_range in D.
      destruct (d >=? base); [discriminate|].
      apply IH in H; nia.
Qed.

Lemma dec_loop_pos : forall t base s off acc,
  base_ok base = true -> 0 <= acc <= ty_max t ->
  dec_loop t false base off acc s =
    match digits_val base off acc s with
    | None => Reject
    | Some v => if v <=? ty_max t then Ok v else Reject
    end.
Proof.
  intros t base s; induction s as [|c s IH]; intros off acc Hb Ha; cbn [dec_loop digits_val].
  - destruct (acc <=? ty_max t) eqn:E; [reflexivity|lia].
  - destruct (c =? ch_us).
    + destruct (off =? 0); [reflexivity|]. apply IH; auto.
    + destruct (digit_of c) as [d|] eqn:D; [|reflexivity].
      pose proof (digit_of_range _ _ D) as Hd.
      destruct (d >=? base) eqn:E; [reflexivity|].
      rewrite dec_step_pos by (auto; lia).
      destruct (acc * base + d <=? ty_max t) eqn:E2; cbn [bind].
      * apply IH; auto. pose proof (base_ok_cases _ Hb). nia.
      * destruct (digits_val base (off + 1) (acc * base + d) s) as [v|] eqn:DV; [|reflexivity].
        apply digits_val_ge in DV; [|pose proof (base_ok_cases _ Hb); lia|pose proof (base_ok_cases _ Hb); nia].
        destruct (v <=? ty_max t) eqn:E3; [lia|reflexivity].
Qed.

Lemma dec_loop_neg : forall t base s off acc,
  ity_signed t = true -> base_ok base = true -> ty_min t <= acc <= 0 ->
  dec_loop t true base off acc s =
    match digits_val base off (- acc) s with
    | None => Reject
    | Some v => if ty_min t <=? - v then Ok (- v) else Reject
    end.
Proof.
  intros t base s; induction s as [|c s IH]; intros off acc Hs Hb Ha; cbn [dec_loop digits_val].
  - rewrite Z.opp_involutive. destruct (ty_min t <=? acc) eqn:E; [reflexivity|lia].
  - destruct (c =? ch_us).
    + destruct (off =? 0); [reflexivity|]. apply IH; auto.
    + destruct (digit_of c) as [d|] eqn:D; [|reflexivity].
      pose proof (digit_of_range _ _ D) as Hd.
      destruct (d >=? base) eqn:E; [reflexivity|].
      rewrite dec_step_neg by (auto; lia).
      replace (- acc * base + d) with (- (acc * base - d)) by ring.
      destruct (ty_min t <=? acc * base - d) eqn:E2; cbn [bind].
      * apply IH; auto. pose proof (base_ok_cases _ Hb). nia.
      * destruct (digits_val base (off + 1) (- (acc * base - d)) s) as [v|] eqn:DV; [|reflexivity].
        apply digits_val_ge in DV; [|pose proof (base_ok_cases _ Hb); lia|pose proof (base_ok_cases _ Hb); nia].
        destruct (ty_min t <=? - v) eqn:E3; [lia|reflexivity].
Qed.

Lemma strip_prefix_base : forall off s base off2 s2,
  strip_prefix off s = (base, off2, s2) -> base_ok base = true.
Proof.
  intros off s base off2 s2; unfold strip_prefix.
  destruct s as [|c0 [|c1 r]]; try (intros H; inversion H; reflexivity).
  destruct (c0 =? ch_0); [|intros H; inversion H; reflexivity].
  destruct ((c1 =? ch_x) || (c1 =? ch_X)); [intros H; inversion H; reflexivity|].
  destruct ((c1 =? ch_b) || (c1 =? ch_B)); intros H; inversion H; reflexivity.
Qed.

Lemma strip_sign_signed : forall sg text off s1,
  strip_sign sg text = (true, off, s1) -> sg = true.
Proof.
  intros sg text off s1; unfold strip_sign.
  destruct text as [|c r]; [intros H; inversion H|].
  destruct sg; [reflexivity|]. cbn [andb]. intros H; inversion H.
Qed.

Lemma decode_int_spec_lem : forall t text,
  decode_int t text =
    match numeral_value (ity_signed t) text with
    | None => Reject
    | Some v => if fits t v then Ok v else Reject
    end.
Proof.
  intros t text. unfold decode_int, numeral_value.
  destruct (strip_sign (ity_signed t) text) as [[neg off] s1] eqn:SS.
  destruct (strip_prefix off s1) as [[base off2] s2] eqn:SP.
  pose proof (strip_prefix_base _ _ _ _ _ SP) as Hb.
  pose proof (ty_facts t) as F.
  destruct s2 as [|c s2]; [reflexivity|].
  destruct neg.
  - apply strip_sign_signed in SS.
    rewrite dec_loop_neg by (auto; lia). cbn [Z.opp].
    destruct (digits_val base off2 0 (c :: s2)) as [v|] eqn:DV; [|reflexivity].
    apply digits_val_ge in DV; [|pose proof (base_ok_cases _ Hb); lia|lia].
    unfold fits.
    destruct (ty_min t <=? - v) eqn:E1; destruct (- v <=? ty_max t) eqn:E2; cbn [andb]; try reflexivity; lia.
  - rewrite dec_loop_pos by (auto; lia).
    destruct (digits_val base off2 0 (c :: s2)) as [v|] eqn:DV; [|reflexivity].
    apply digits_val_ge in DV; [|pose proof (base_ok_cases _ Hb); lia|lia].
    unfold fits.
    destruct (ty_min t <=? v) eqn:E1; destruct (v <=? ty_max t) eqn:E2; cbn [andb]; try reflexivity; lia.
Qed.

(* no input string drives DecodeInteger into undefined / overflowing arithmetic *)
Lemma decode_total_lem : forall t text, decode_int t text <> UB /\ decode_int t text <> OutOfFuel.
Proof.
  intros t text; rewrite decode_int_spec_lem.
  destruct (numeral_value (ity_signed t) text) as [v|]; [destruct (fits t v)|]; split; discriminate.
Qed.

(* a numeral whose value is outside the type is rejected, never wrapped *)
Lemma decode_rejects_overflow_lem : forall t text v,
  numeral_value (ity_signed t) text = Some v -> fits t v = false -> decode_int t text = Reject.
Proof. intros t text v H F; rewrite decode_int_spec_lem, H, F; reflexivity. Qed.

Lemma decode_exact_lem : forall t text v,
  decode_int t text = Ok v <-> numeral_value (ity_signed t) text = Some v /\ fits t v = true.
Proof.
  intros t text v; rewrite decode_int_spec_lem.
  destruct (numeral_value (ity_signed t) text) as [w|]; [|split; [discriminate|intros [H _]; discriminate]].
  destruct (fits t w) eqn:F; split.
  - intros H; inversion H; subst; auto.
  - intros [H1 H2]; inversion H1; reflexivity.
  - discriminate.
  - intros [H1 H2]; inversion H1; subst; congruence.
Qed.

(* malformed numerals (not a digit string of the announced base, empty, stray leading '_',
   sign on an unsigned type) are rejected *)
Lemma decode_rejects_malformed_lem : forall t text,
  numeral_value (ity_signed t) text = None -> decode_int t text = Reject.
Proof. intros t text H; rewrite decode_int_spec_lem, H; reflexivity. Qed.

(* ------------------------------------------------------------------ *)
(* WriteIntegerToTextStream = numeral_text, without UB                  *)
(* ------------------------------------------------------------------ *)
Lemma grouping_pos : forall base, 3 <= grouping_of base <= 8.
Proof. intros; unfold grouping_of; destruct (base =? 10); [lia|]; destruct (base =? 16); lia. Qed.

Lemma pow2_half : forall f : nat, 2 ^ (Z.of_nat (S f) - 1) = 2 ^ Z.of_nat f.
Proof. intros; f_equal; lia. Qed.

Lemma pow2_step : forall f : nat, (1 <= f)%nat -> 2 ^ Z.of_nat f = 2 * 2 ^ (Z.of_nat f - 1).
Proof.
  intros f H. replace (Z.of_nat f) with (Z.succ (Z.of_nat f - 1)) at 1 by lia.
  rewrite Z.pow_succ_r by lia. reflexivity.
Qed.

Lemma div_base_lt : forall (f : nat) v base,
  2 <= base -> 0 < v -> v < 2 ^ Z.of_nat f -> v / base < 2 ^ (Z.of_nat f - 1).
Proof.
  intros f v base Hb Hv H.
  destruct f as [|f]; [cbn in H; lia|].
  rewrite pow2_step in H by lia.
  assert (0 < 2 ^ (Z.of_nat (S f) - 1)) by (apply Z.pow_pos_nonneg; lia).
  apply Z.div_lt_upper_bound; [lia|]. nia.
Qed.

Lemma enc_loop_spec : forall fuel t base grp v dc buf,
  base_ok base = true -> 0 <= v <= ty_max t -> v < 2 ^ (Z.of_nat fuel - 1) ->
  0 <= dc -> dc + Z.of_nat fuel <= 2147483647 ->
  enc_loop fuel t base grp v dc buf = Ok (digs fuel base grp v dc buf).
Proof.
  induction fuel as [|f IH]; intros t base grp v dc buf Hb Hv Hf Hdc Hdc2.
  - exfalso. change (Z.of_nat 0 - 1) with (-1) in Hf. rewrite Z.pow_neg_r in Hf by lia. lia.
  - cbn [enc_loop digs].
    destruct (v >? 0) eqn:E; [|reflexivity].
    pose proof (ty_facts t) as (F1 & F2 & F3 & F4 & _). pose proof c_int_facts as [C1 C2].
    pose proof (grouping_pos base) as G.
    pose proof (base_ok_range _ Hb) as Hb'.
    rewrite pow2_half in Hf.
    assert (R1 : Z.rem dc (grouping_of base) = dc mod grouping_of base) by (apply Z.rem_mod_nonneg; lia).
    assert (R2 : Z.rem v base = v mod base) by (apply Z.rem_mod_nonneg; lia).
    assert (R3 : Z.quot v base = v / base) by (apply Z.quot_div_nonneg; lia).
    rewrite R1, R2, R3. clear R1 R2 R3.
    pose proof (mod_range dc (grouping_of base) ltac:(lia)) as A1.
    pose proof (mod_range v base ltac:(lia)) as A2.
    pose proof (div_range v base ltac:(lia) ltac:(lia)) as A3.
    assert (A4 : v / base < 2 ^ (Z.of_nat f - 1)) by (apply div_base_lt; lia).
    assert (A5 : Z.of_nat (S f) = Z.of_nat f + 1) by lia.
    rewrite chk_ok by (apply fits_iff; rewrite C1, C2; lia). cbn [bind].
    rewrite chk_ok by (apply fits_iff; lia). cbn [bind].
    rewrite chk_ok by (apply fits_iff; lia). cbn [bind].
    rewrite chk_ok by (apply fits_iff; lia). cbn [bind].
    rewrite chk_ok by (apply fits_iff; rewrite C1, C2; lia). cbn [bind].
    apply IH; auto; lia.
Qed.

Lemma digs_unfold : forall f base grp v dc buf,
  digs (S f) base grp v dc buf =
    if v >? 0 then
      digs f base grp (v / base) (dc + 1)
        (digit_char (v mod base) ::
         (if negb (dc =? 0) && (dc mod grouping_of base =? 0) && grp then ch_us :: buf else buf))
    else buf.
Proof. reflexivity. Qed.

Lemma digs_fuel_S : forall f base grp v dc buf,
  2 <= base -> 0 <= v < 2 ^ (Z.of_nat f - 1) ->
  digs (S f) base grp v dc buf = digs f base grp v dc buf.
Proof.
  induction f as [|f IH]; intros base grp v dc buf Hb Hv.
  - exfalso. change (Z.of_nat 0 - 1) with (-1) in Hv. rewrite Z.pow_neg_r in Hv by lia. lia.
  - rewrite (digs_unfold (S f) base grp v dc buf). rewrite (digs_unfold f base grp v dc buf).
    destruct (v >? 0) eqn:E; [|reflexivity].
    apply IH; [lia|].
    rewrite pow2_half in Hv. split; [apply Z.div_pos; lia|apply div_base_lt; lia].
Qed.

Lemma signed_max_lt : forall t, ity_signed t = true -> ty_max t + 1 <= 2 ^ 63.
Proof. intros [[] []] H; try discriminate; vm_compute; discriminate. Qed.

Lemma encode_int_spec_lem : forall t x base grp,
  base_ok base = true -> fits t x = true ->
  encode_int t x base grp = Ok (numeral_text base grp x).
Proof.
  intros t x base grp Hb Hx.
  pose proof (ty_facts t) as (F1 & F2 & F3 & F4 & F5 & F6 & F7 & F8). apply fits_iff in Hx.
  pose proof (base_ok_range _ Hb) as Hb'.
  assert (P64 : 2 ^ (Z.of_nat enc_fuel - 1) = 18446744073709551616) by reflexivity.
  unfold encode_int, numeral_text. rewrite Hb. cbn [negb].
  rewrite (proj2 (fits_iff t x)) by lia. cbn [negb].
  destruct (x <? 0) eqn:Eneg.
  - assert (Hx0 : (x =? 0) = false) by lia. rewrite Hx0.
    assert (Hs : ity_signed t = true) by (destruct (ity_signed t) eqn:S; [reflexivity|]; specialize (F5 eq_refl); lia).
    specialize (F6 Hs). destruct F6 as [F6 F6'].
    destruct (x =? ty_min t) eqn:Emin.
    + (* the lowest() special case *)
      assert (Hmin : x = - ty_max t - 1) by lia.
      set (n := - (x + 1)).
      assert (Hn : n = ty_max t) by (unfold n; lia).
      rewrite chk_ok by (apply fits_iff; lia). cbn [bind].
      rewrite chk_ok by (apply fits_iff; fold n; lia). cbn [bind]. fold n.
      assert (R2 : Z.rem n base = n mod base) by (apply Z.rem_mod_nonneg; lia).
      assert (R3 : Z.quot n base = n / base) by (apply Z.quot_div_nonneg; lia).
      rewrite R2, R3. clear R2 R3.
      pose proof (mod_range n base ltac:(lia)) as A2.
      pose proof (div_range n base ltac:(lia) ltac:(lia)) as A3.
      rewrite chk_ok by (apply fits_iff; lia). cbn [bind].
      rewrite chk_ok by (apply fits_iff; lia). cbn [bind].
      rewrite chk_ok by (apply fits_iff; lia). cbn [bind].
      rewrite chk_ok by (apply fits_iff; lia). cbn [bind].
      assert (Habs : Z.abs x = n + 1) by lia.
      assert (Hlt : (n + 1) / base < 2 ^ 63).
      { pose proof (signed_max_lt t Hs).
        apply Z.div_lt_upper_bound; [lia|]. rewrite Hn.
        assert (0 < 2 ^ 63) by reflexivity. nia. }
      (* the specification side: one unfolding of digs on |x| *)
      assert (Hspec : digs enc_fuel base grp (Z.abs x) 0 [] =
                      digs enc_fuel base grp ((n + 1) / base) 1 [digit_char ((n + 1) mod base)]).
      { rewrite Habs. change enc_fuel with (S 64).
        rewrite (digs_fuel_S 64 base grp ((n + 1) / base) 1).
        - rewrite digs_unfold.
          assert (E1 : (n + 1 >? 0) = true) by lia. rewrite E1.
          cbn [Z.eqb negb andb]. reflexivity.
        - lia.
        - split; [apply Z.div_pos; lia|]. exact Hlt. }
      rewrite Hspec. clear Hspec.
      destruct (n mod base + 1 =? base) eqn:Ed.
      * (* digit == base: digit = 0; ++value *)
        destruct (succ_div_carry n base ltac:(lia) ltac:(lia)) as [Q1 Q2].
        assert (n / base + 1 <= ty_max t).
        { rewrite <- Q1. apply Z.div_le_upper_bound; [lia|]. nia. }
        rewrite chk_ok by (apply fits_iff; lia). cbn [bind fst snd].
        rewrite Q1, Q2.
        rewrite enc_loop_spec; [reflexivity|auto|lia| |lia|cbn; lia].
        rewrite P64. lia.
      * destruct (succ_div_nocarry n base ltac:(lia) ltac:(lia)) as [Q1 Q2].
        cbn [bind fst snd].
        rewrite Q1, Q2.
        rewrite enc_loop_spec; [reflexivity|auto|lia| |lia|cbn; lia].
        rewrite P64. lia.
    + rewrite chk_ok by (apply fits_iff; lia). cbn [bind].
      rewrite chk_ok by (apply fits_iff; lia). cbn [bind].
      rewrite enc_loop_spec; [|auto|lia| |lia|cbn; lia].
      * replace (Z.abs x) with (- x) by lia. reflexivity.
      * rewrite P64. lia.
  - destruct (x =? 0) eqn:E0.
    + assert (x = 0) by lia. subst x. reflexivity.
    + rewrite enc_loop_spec; [|auto|lia| |lia|cbn; lia].
      * replace (Z.abs x) with x by lia. reflexivity.
      * rewrite P64. lia.
Qed.

(* ------------------------------------------------------------------ *)
(* numeral_value (numeral_text x) = x                                   *)
(* ------------------------------------------------------------------ *)

(* digits_val depends on the offset only through "is it 0" *)
Lemma digits_val_off : forall base s off off' acc,
  ((off =? 0) = (off' =? 0)) -> 0 <= off -> 0 <= off' ->
  digits_val base off acc s = digits_val base off' acc s.
Proof.
  intros base s; induction s as [|c s IH]; intros off off' acc H H0 H0'; cbn [digits_val]; [reflexivity|].
  destruct (c =? ch_us).
  - rewrite H. destruct (off' =? 0); [reflexivity|]. apply IH; lia.
  - destruct (digit_of c) as [d|]; [|reflexivity].
    destruct (d >=? base); [reflexivity|]. apply IH; lia.
Qed.

Lemma digit_of_char : forall d, 0 <= d < 16 -> digit_of (digit_char d) = Some d.
Proof.
  intros d H. unfold digit_char, digit_of.
  destruct (d <? 10) eqn:E.
  - assert (E1 : ((48 <=? 48 + d) && (48 + d <=? 57)) = true) by lia. rewrite E1. f_equal; lia.
  - assert (E1 : ((48 <=? 97 + (d - 10)) && (97 + (d - 10) <=? 57)) = false) by lia. rewrite E1.
    assert (E2 : ((65 <=? 97 + (d - 10)) && (97 + (d - 10) <=? 70)) = false) by lia. rewrite E2.
    assert (E3 : ((97 <=? 97 + (d - 10)) && (97 + (d - 10) <=? 102)) = true) by lia. rewrite E3.
    f_equal; lia.
Qed.

Lemma digit_char_not_us : forall d, 0 <= d < 16 -> (digit_char d =? ch_us) = false.
Proof. intros d H; unfold digit_char, ch_us; destruct (d <? 10) eqn:E; lia. Qed.

Fixpoint comb (fuel : nat) (base acc v : Z) : Z :=
  match fuel with
  | O => acc
  | S f => if v >? 0 then comb f base acc (v / base) * base + v mod base else acc
  end.

Lemma comb_zero : forall fuel base v,
  2 <= base -> 0 <= v < 2 ^ (Z.of_nat fuel - 1) -> comb fuel base 0 v = v.
Proof.
  induction fuel as [|f IH]; intros base v Hb Hv.
  - exfalso. change (Z.of_nat 0 - 1) with (-1) in Hv. rewrite Z.pow_neg_r in Hv by lia. lia.
  - cbn [comb]. destruct (v >? 0) eqn:E; [|lia].
    rewrite pow2_half in Hv.
    rewrite IH; [|lia|split; [apply Z.div_pos; lia|apply div_base_lt; lia]].
    pose proof (Z.div_mod v base ltac:(lia)). lia.
Qed.

Lemma digits_val_digs : forall fuel base grp v dc buf off acc,
  base_ok base = true -> 0 <= v < 2 ^ (Z.of_nat fuel - 1) -> 0 <= off ->
  digits_val base off acc (digs fuel base grp v dc buf) =
  digits_val base (if v >? 0 then 1 else off) (comb fuel base acc v) buf.
Proof.
  induction fuel as [|f IH]; intros base grp v dc buf off acc Hb Hv Hoff.
  - exfalso. change (Z.of_nat 0 - 1) with (-1) in Hv. rewrite Z.pow_neg_r in Hv by lia. lia.
  - pose proof (base_ok_range _ Hb) as Hb'.
    rewrite digs_unfold. cbn [comb].
    destruct (v >? 0) eqn:E; [|reflexivity].
    rewrite pow2_half in Hv.
    rewrite IH; [|auto|split; [apply Z.div_pos; lia|apply div_base_lt; lia]|lia].
    pose proof (mod_range v base ltac:(lia)) as Hm.
    set (off1 := if v / base >? 0 then 1 else off).
    assert (Hoff1 : 0 <= off1) by (unfold off1; destruct (v / base >? 0); lia).
    cbn [digits_val].
    rewrite digit_char_not_us by lia.
    rewrite digit_of_char by lia.
    assert (E2 : (v mod base >=? base) = false) by lia. rewrite E2.
    destruct (negb (dc =? 0) && (dc mod grouping_of base =? 0) && grp).
    + cbn [digits_val]. change (ch_us =? ch_us) with true. cbv iota.
      assert (E3 : (off1 + 1 =? 0) = false) by lia. rewrite E3.
      apply digits_val_off; lia.
    + apply digits_val_off; lia.
Qed.

Definition numeral_char (base c : Z) : Prop :=
  c = ch_us \/ exists d, 0 <= d < base /\ c = digit_char d.

Lemma digs_chars : forall fuel base grp v dc buf,
  2 <= base -> 0 <= v -> Forall (numeral_char base) buf ->
  Forall (numeral_char base) (digs fuel base grp v dc buf).
Proof.
  induction fuel as [|f IH]; intros base grp v dc buf Hb Hv H; [exact H|].
  rewrite digs_unfold. destruct (v >? 0) eqn:E; [|exact H].
  apply IH; [lia|apply Z.div_pos; lia|].
  constructor.
  - right. exists (v mod base). split; [apply mod_range; lia|reflexivity].
  - destruct (negb (dc =? 0) && (dc mod grouping_of base =? 0) && grp); [|exact H].
    constructor; [left; reflexivity|exact H].
Qed.

Lemma digs_nonempty : forall fuel base grp v dc buf,
  0 < v -> digs (S fuel) base grp v dc buf <> [].
Proof.
  intros fuel base grp v dc buf Hv. rewrite digs_unfold.
  assert (E : (v >? 0) = true) by lia. rewrite E.
  generalize (v / base) (dc + 1).
  generalize (digit_char (v mod base)).
  generalize (if negb (dc =? 0) && (dc mod grouping_of base =? 0) && grp then ch_us :: buf else buf).
  induction fuel as [|f IH]; intros l c v' dc'; cbn [digs]; [discriminate|].
  destruct (v' >? 0); [apply IH|discriminate].
Qed.

Lemma numeral_char_10 : forall c, numeral_char 10 c ->
  c <> ch_minus /\ c <> ch_x /\ c <> ch_X /\ c <> ch_b /\ c <> ch_B.
Proof.
  intros c [->|[d [Hd ->]]]; unfold ch_us, ch_minus, ch_x, ch_X, ch_b, ch_B, digit_char.
  - lia.
  - destruct (d <? 10) eqn:E; lia.
Qed.

Definition body_of (base : Z) (grp : bool) (x : Z) : list Z :=
  if x =? 0 then [ch_0] else digs enc_fuel base grp (Z.abs x) 0 [].

Lemma body_chars : forall base grp x, 2 <= base -> Forall (numeral_char base) (body_of base grp x).
Proof.
  intros base grp x Hb. unfold body_of. destruct (x =? 0).
  - constructor; [|constructor]. right. exists 0. split; [lia|reflexivity].
  - apply digs_chars; [lia|lia|constructor].
Qed.

Lemma body_nonempty : forall base grp x, body_of base grp x <> [].
Proof.
  intros base grp x. unfold body_of. destruct (x =? 0) eqn:E; [discriminate|].
  apply digs_nonempty. lia.
Qed.

Lemma body_value : forall base grp x off,
  base_ok base = true -> Z.abs x < 18446744073709551616 -> 0 <= off ->
  digits_val base off 0 (body_of base grp x) = Some (Z.abs x).
Proof.
  intros base grp x off Hb Hx Hoff. unfold body_of.
  pose proof (base_ok_range _ Hb) as Hb'.
  destruct (x =? 0) eqn:E.
  - assert (x = 0) by lia. subst x. cbn [digits_val].
    change (ch_0 =? ch_us) with false. cbv iota.
    change (digit_of ch_0) with (Some 0).  cbv iota.
    assert (E2 : (0 >=? base) = false) by lia. rewrite E2. reflexivity.
  - assert (P64 : 2 ^ (Z.of_nat enc_fuel - 1) = 18446744073709551616) by reflexivity.
    rewrite digits_val_digs; [|auto|lia|lia].
    rewrite comb_zero; [|lia|lia]. reflexivity.
Qed.

Lemma numeral_value_text_lem : forall sg base grp x,
  base_ok base = true -> Z.abs x < 18446744073709551616 -> (x < 0 -> sg = true) ->
  numeral_value sg (numeral_text base grp x) = Some x.
Proof.
  intros sg base grp x Hb Hx Hsg.
  pose proof (base_ok_cases _ Hb) as Hb'.
  unfold numeral_text. fold (body_of base grp x).
  pose proof (body_nonempty base grp x) as NE.
  assert (Hb2 : 2 <= base) by lia.
  pose proof (body_chars base grp x Hb2) as BC.
  unfold numeral_value.
  (* the text after the optional sign *)
  set (after_sign := if base =? 16 then ch_0 :: ch_x :: body_of base grp x
                     else if base =? 2 then ch_0 :: ch_b :: body_of base grp x
                     else body_of base grp x).
  assert (Hprefix : forall off, 0 <= off -> exists off2, 0 <= off2 /\
            strip_prefix off after_sign = (base, off2, body_of base grp x)).
  { intros off Hoff. unfold after_sign.
    destruct Hb' as [->|[->| ->]]; cbn [Z.eqb Pos.eqb].
    - exists (off + 2). split; [lia|reflexivity].
    - exists off. split; [lia|].
      unfold strip_prefix.
      destruct (body_of 10 grp x) as [|c0 [|c1 r]] eqn:B; try reflexivity.
      inversion BC as [|? ? _ BC1]; subst. inversion BC1 as [|? ? H1 _]; subst.
      apply numeral_char_10 in H1. destruct H1 as (_ & H2 & H3 & H4 & H5).
      destruct (c0 =? ch_0); [|reflexivity].
      assert (E1 : ((c1 =? ch_x) || (c1 =? ch_X)) = false) by lia. rewrite E1.
      assert (E2 : ((c1 =? ch_b) || (c1 =? ch_B)) = false) by lia. rewrite E2.
      reflexivity.
    - exists (off + 2). split; [lia|reflexivity]. }
  assert (Hhead : x >= 0 -> strip_sign sg after_sign = (false, 0, after_sign)).
  { intros _. unfold strip_sign, after_sign.
    destruct Hb' as [->|[->| ->]]; cbn [Z.eqb Pos.eqb].
    - change (ch_0 =? ch_minus) with false. rewrite andb_false_r. reflexivity.
    - destruct (body_of 10 grp x) as [|c0 r] eqn:B; [reflexivity|].
      inversion BC as [|? ? H1 _]; subst. apply numeral_char_10 in H1. destruct H1 as (H1 & _).
      assert (E1 : (c0 =? ch_minus) = false) by lia. rewrite E1, andb_false_r. reflexivity.
    - change (ch_0 =? ch_minus) with false. rewrite andb_false_r. reflexivity. }
  unfold enc_finish. fold after_sign.
  destruct (x <? 0) eqn:Eneg.
  - rewrite (Hsg ltac:(lia)).
    unfold strip_sign. change (ch_minus =? ch_minus) with true. cbn [andb].
    destruct (Hprefix 1 ltac:(lia)) as [off2 [Hoff2 ->]].
    destruct (body_of base grp x) as [|c r] eqn:B; [congruence|]. rewrite <- B.
    rewrite body_value by (auto; lia). f_equal. lia.
  - rewrite Hhead by lia.
    destruct (Hprefix 0 ltac:(lia)) as [off2 [Hoff2 ->]].
    destruct (body_of base grp x) as [|c r] eqn:B; [congruence|]. rewrite <- B.
    rewrite body_value by (auto; lia). f_equal. lia.
Qed.

(* ------------------------------------------------------------------ *)
(* round trip                                                           *)
(* ------------------------------------------------------------------ *)
Lemma fits_abs : forall t x, fits t x = true -> Z.abs x < 18446744073709551616.
Proof.
  intros t x H. apply fits_iff in H.
  pose proof (ty_facts t) as (F1 & F2 & F3 & F4 & F5 & F6 & F7 & F8).
  destruct (ity_signed t) eqn:S.
  - destruct (F6 eq_refl). lia.
  - specialize (F5 eq_refl). lia.
Qed.

Lemma fits_neg_signed : forall t x, fits t x = true -> x < 0 -> ity_signed t = true.
Proof.
  intros t x H Hx. apply fits_iff in H.
  pose proof (ty_facts t) as (F1 & F2 & F3 & F4 & F5 & _).
  destruct (ity_signed t); [reflexivity|]. specialize (F5 eq_refl). lia.
Qed.

(* decoding (as type t') the text written for a value of type t *)
Lemma decode_numeral_text_lem : forall t' base grp x,
  base_ok base = true -> fits t' x = true ->
  decode_int t' (numeral_text base grp x) = Ok x.
Proof.
  intros t' base grp x Hb Hx.
  rewrite decode_int_spec_lem.
  rewrite numeral_value_text_lem; auto.
  - rewrite Hx. reflexivity.
  - eapply fits_abs; eauto.
  - intros; eapply fits_neg_signed; eauto.
Qed.

Lemma int_roundtrip_lem : forall t x base grp,
  base_ok base = true -> fits t x = true ->
  exists text, encode_int t x base grp = Ok text /\ decode_int t text = Ok x.
Proof.
  intros t x base grp Hb Hx. exists (numeral_text base grp x). split.
  - apply encode_int_spec_lem; auto.
  - apply decode_numeral_text_lem; auto.
Qed.

(* a value written as type t and read as another type t' that contains it (enum text:
   written with the underlying type, read as uint64_t / int64_t) *)
Lemma int_roundtrip_cross_lem : forall t t' x base grp,
  base_ok base = true -> fits t x = true -> fits t' x = true ->
  exists text, encode_int t x base grp = Ok text /\ decode_int t' text = Ok x.
Proof.
  intros t t' x base grp Hb Hx Hx'. exists (numeral_text base grp x). split.
  - apply encode_int_spec_lem; auto.
  - apply decode_numeral_text_lem; auto.
Qed.

Lemma encode_total_lem : forall t x base grp,
  encode_int t x base grp <> UB /\ encode_int t x base grp <> OutOfFuel.
Proof.
  intros t x base grp.
  destruct (base_ok base) eqn:Hb; [destruct (fits t x) eqn:Hx|].
  - rewrite encode_int_spec_lem by auto. split; discriminate.
  - unfold encode_int. rewrite Hb, Hx. cbn [negb]. split; discriminate.
  - unfold encode_int. rewrite Hb. cbn [negb]. split; discriminate.
Qed.

(* the text of a number does not depend on the C++ type it was written with *)
Lemma encode_type_independent_lem : forall t t' x base grp,
  base_ok base = true -> fits t x = true -> fits t' x = true ->
  encode_int t x base grp = encode_int t' x base grp.
Proof. intros; rewrite !encode_int_spec_lem by auto; reflexivity. Qed.

(* encoding is injective: two values with the same text are equal *)
Lemma encode_injective_lem : forall t x y base grp b' g' text,
  base_ok base = true -> base_ok b' = true -> fits t x = true -> fits t y = true ->
  encode_int t x base grp = Ok text -> encode_int t y b' g' = Ok text -> x = y.
Proof.
  intros t x y base grp b' g' text Hb Hb' Hx Hy E1 E2.
  rewrite encode_int_spec_lem in E1 by auto. rewrite encode_int_spec_lem in E2 by auto.
  inversion E1 as [T1]. inversion E2 as [T2].
  pose proof (decode_numeral_text_lem t base grp x Hb Hx) as D1.
  pose proof (decode_numeral_text_lem t b' g' y Hb' Hy) as D2.
  rewrite T1 in D1. rewrite T2 in D2. congruence.
Qed.
