(* C06 -- property theorems.  Statements only; every proof is `exact <lemma>`. *)
From Coq Require Import ZArith List Bool.
Import ListNotations.
Require Import EmbossV.Text.IntCodec EmbossV.Text.ProofsInt EmbossV.Text.ProofsBuffer EmbossV.Text.ProofsToken EmbossV.Text.StructText
               EmbossV.Text.ProofsStruct EmbossV.Text.ProofsArray EmbossV.Text.ProofsRoundtrip.
Open Scope Z_scope.

(* ---------------- integer text codec ---------------- *)

(* For every C++ integer type (signed?, 8/16/32/64), every value of the type, every base in
   {2,10,16}, with or without digit grouping: WriteIntegerToTextStream produces a text (no
   overflowing arithmetic step, no fuel artefact) and DecodeInteger reads it back to the value. *)
Theorem int_roundtrip : forall t x base grp,
  base_ok base = true -> fits t x = true ->
  exists text, encode_int t x base grp = Ok text /\ decode_int t text = Ok x.
Proof. exact int_roundtrip_lem. Qed.

(* written with one type, read with another type that contains the value (enum values are
   written with the underlying type and read as uint64_t / int64_t) *)
Theorem int_roundtrip_cross : forall t t' x base grp,
  base_ok base = true -> fits t x = true -> fits t' x = true ->
  exists text, encode_int t x base grp = Ok text /\ decode_int t' text = Ok x.
Proof. exact int_roundtrip_cross_lem. Qed.

(* DecodeInteger is exactly "the mathematical value of the numeral, if it is well formed and
   lies in the type": it never wraps and never accepts a malformed numeral. *)
Theorem decode_int_spec : forall t text,
  decode_int t text =
    match numeral_value (ity_signed t) text with
    | None => Reject
    | Some v => if fits t v then Ok v else Reject
    end.
Proof. exact decode_int_spec_lem. Qed.

Theorem decode_rejects_overflow : forall t text v,
  numeral_value (ity_signed t) text = Some v -> fits t v = false -> decode_int t text = Reject.
Proof. exact decode_rejects_overflow_lem. Qed.

Theorem decode_rejects_malformed : forall t text,
  numeral_value (ity_signed t) text = None -> decode_int t text = Reject.
Proof. exact decode_rejects_malformed_lem. Qed.

Theorem decode_exact : forall t text v,
  decode_int t text = Ok v <-> numeral_value (ity_signed t) text = Some v /\ fits t v = true.
Proof. exact decode_exact_lem. Qed.

(* no input string makes an arithmetic step of DecodeInteger leave the range of its C++ type *)
Theorem decode_total : forall t text, decode_int t text <> UB /\ decode_int t text <> OutOfFuel.
Proof. exact decode_total_lem. Qed.

Theorem encode_total : forall t x base grp,
  encode_int t x base grp <> UB /\ encode_int t x base grp <> OutOfFuel.
Proof. exact encode_total_lem. Qed.

Theorem encode_int_spec : forall t x base grp,
  base_ok base = true -> fits t x = true -> encode_int t x base grp = Ok (numeral_text base grp x).
Proof. exact encode_int_spec_lem. Qed.

Theorem encode_injective : forall t x y base grp b' g' text,
  base_ok base = true -> base_ok b' = true -> fits t x = true -> fits t y = true ->
  encode_int t x base grp = Ok text -> encode_int t y b' g' = Ok text -> x = y.
Proof. exact encode_injective_lem. Qed.

(* WriteIntegerToTextStream fills `char buffer[buffer_size]` from its end: every text is at most
   buffer_size - 1 characters long, so the index next_char never goes below 0
   (EMBOSS_DCHECK_GE(next_char, 0)); the bound is attained. *)
Theorem encode_fits_buffer : forall t x base grp text,
  encode_int t x base grp = Ok text -> Z.of_nat (length text) <= buffer_size t - 1.
Proof. exact encode_fits_buffer_lem. Qed.

Example encode_buffer_bound_attained :
  exists text, encode_int (mk_ity true W64) (-9223372036854775808) 2 true = Ok text /\
               Z.of_nat (length text) = buffer_size (mk_ity true W64) - 1.
Proof. exact buffer_tight_example. Qed.

(* ---------------- tokens and white space ---------------- *)
Theorem read_token_total : forall s, read_token s <> None.
Proof. exact read_token_total_lem. Qed.

Theorem discard_whitespace_total : forall s, discard_whitespace s <> None.
Proof. exact discard_whitespace_total_lem. Qed.

Theorem read_token_pure : forall b a,
  exists b', read_token (b, a) = Some (fst (next_token a), (b', snd (next_token a))) /\
             rev b' ++ snd (next_token a) = rev b ++ a.
Proof. exact read_token_pure_lem. Qed.

Theorem token_word : forall tok d a,
  tok <> [] -> tok_chars tok = true -> is_delim d = true -> next_token (tok ++ d :: a) = (tok, d :: a).
Proof. exact next_token_word. Qed.

Theorem token_punct : forall c a, is_punct c = true -> c <> 0 -> next_token (c :: a) = ([c], a).
Proof. exact next_token_punct. Qed.

Theorem token_skips_space : forall pad a, forallb is_space pad = true -> next_token (pad ++ a) = next_token a.
Proof. exact next_token_skip_space. Qed.

Theorem token_skips_comment : forall body a,
  forallb no_newline body = true -> next_token (ch_hash :: body ++ ch_lf :: a) = next_token a.
Proof. exact next_token_skip_comment. Qed.

(* ---------------- structures: what is emitted ---------------- *)

(* emit_order: the text of a structure is "{" ++ the texts of its fields, concatenated in the order
   in which the fields are given (the harness gives fields_in_dependency_order of the real front
   end) ++ "}" *)
Theorem emit_order : forall g o fs,
  write_val g o (VStruct fs) =
    open_text o ++ concat (chunks g (plus_one_indent o) fs false) ++ close_text o.
Proof. exact emit_order_lem. Qed.

(* skip_absent: with the generator table of the working tree (checked each run: gentab_ok), a field
   marked [text_output: "Skip"], or an absent field, contributes no text *)
Theorem skip_absent : forall g fo wrote fi fv,
  gentab_ok g = true -> (f_attr fi = ASkip \/ f_present fi = false) -> field_chunk g fo wrote fi fv = [].
Proof. exact skip_absent_lem. Qed.

(* emit_present: a present field without attribute or marked "Emit" is written: as `name: value`,
   or, when read-only, as the comment `# name: value` if comments are on *)
Theorem emit_present : forall g fo wrote fi fv,
  gentab_ok g = true -> f_attr fi <> ASkip -> f_present fi = true ->
  field_chunk g fo wrote fi fv =
    if f_ro fi then
      (if o_comments fo then o_cur fo ++ s_hash_sp ++ f_name fi ++ s_colon_sp ++ write_val g fo fv ++ s_lf else [])
    else
      (if o_multiline fo then o_cur fo else (if wrote then [ch_comma] else []) ++ [ch_space]) ++
      f_name fi ++ s_colon_sp ++ write_val g fo fv ++ (if o_multiline fo then s_lf else []).
Proof. exact emit_present_lem. Qed.

(* finding F2 (fixed in /repo by 5b3353e): for the table of the generator before the fix the
   statement above fails *)
Theorem emit_present_fails_for_f2_table :
  exists fo wrote fi fv, f_attr fi = AEmit /\ f_present fi = true /\ f_ro fi = false /\
                         field_chunk gt_f2 fo wrote fi fv = [].
Proof. exact emit_present_fails_for_f2_table_lem. Qed.

(* ---------------- structures: the text is read back ---------------- *)

(* text_roundtrip (scalars, enums by name or number, nested structures, arrays of any of these;
   every re-readable option set: bases 2/10/16, grouping, single line without comments, multi-line with or without comments,
   any blank indent): for ANY store W with ANY TryToWrite, UpdateFromText of WriteToString's result
   returns true, consumes the whole text, and has performed exactly the TryToWrite calls
   events_of lists -- (path, value) of every field written as `name: value`, in emission order. *)
Theorem text_roundtrip : forall (W : Type) (tw : list pelem -> wv -> W -> option W) g o fs w w' fuel,
  wf_val g (VStruct fs) -> opts_ok o -> (need (VStruct fs) <= fuel)%nat ->
  apply_events W tw (events_of g [] (VStruct fs)) w = Some w' ->
  exists s, update_from_text W tw fuel (schema_of (VStruct fs)) (write_to_string g o (VStruct fs)) w = UOk s w' /\
            snd s = [].
Proof. exact text_roundtrip_lem. Qed.

(* the finding "multi-line arrays cannot be read back" (fixed in /repo by 4bd9029) as a positive
   theorem about the repaired reader: an array value alone, any element shape, both layouts *)
Theorem array_roundtrip : forall (W : Type) (tw : list pelem -> wv -> W -> option W) g o a es path w w' fuel,
  wf_val g (VArray a es) -> opts_ok o -> (need (VArray a es) <= fuel)%nat ->
  apply_events W tw (events_of g path (VArray a es)) w = Some w' ->
  exists s, update W tw fuel (schema_of (VArray a es)) path (st_of (write_val g o (VArray a es))) w = UOk s w' /\
            snd s = [].
Proof. exact array_roundtrip_lem. Qed.

(* struct_roundtrip_partial: the gap is the storage step Hstore (TryToWrite calls of the emitted
   fields, performed in dependency order on the zeroed buffer, succeed and read back) -- layout
   semantics of C01/C03 and the order of C15. *)
Theorem struct_roundtrip_partial :
  forall (W : Type) (tw : list pelem -> wv -> W -> option W) (rd : list pelem -> W -> option wv)
         g o fs zeroed restored fuel,
    wf_val g (VStruct fs) -> opts_ok o -> (need (VStruct fs) <= fuel)%nat ->
    forall Hstore : apply_events W tw (events_of g [] (VStruct fs)) zeroed = Some restored /\
                    (forall p x, In (p, x) (events_of g [] (VStruct fs)) -> rd p restored = Some x),
    exists s, update_from_text W tw fuel (schema_of (VStruct fs)) (write_to_string g o (VStruct fs)) zeroed
              = UOk s restored /\ snd s = [] /\
              (forall p x, In (p, x) (events_of g [] (VStruct fs)) -> rd p restored = Some x).
Proof. exact struct_roundtrip_partial_lem. Qed.

Theorem events_emitted : forall g path fi fv pre post,
  emits_value g fi = true ->
  events_of g path (VStruct (pre ++ (fi, fv) :: post)) =
    events_of g path (VStruct pre) ++ events_of g (path ++ [PField (f_name fi)]) fv ++ events_of g path (VStruct post).
Proof. exact events_emitted_lem. Qed.

(* ---------------- non-vacuity ---------------- *)
Example example_view_wf : wf_val gt_std ex_view /\ opts_ok ex_opts.
Proof. exact ex_wf. Qed.

Example example_roundtrip :
  exists s w, update_from_text (list event) ex_rec 40 (schema_of ex_view) (write_to_string gt_std ex_opts ex_view) []
              = UOk s w /\ snd s = [] /\ rev w = events_of gt_std [] ex_view /\ length w = 8%nat.
Proof. exact ex_roundtrip. Qed.

Example example_roundtrip_single_line :
  opts_ok ex_opts_single /\
  exists s w, update_from_text (list event) ex_rec 40 (schema_of ex_view) (write_to_string gt_std ex_opts_single ex_view) []
              = UOk s w /\ snd s = [] /\ rev w = events_of gt_std [] ex_view.
Proof. exact ex_roundtrip_single. Qed.

Example example_codec :
  encode_int (mk_ity true W8) (-128) 2 true = Ok [45; 48; 98; 49; 48; 48; 48; 48; 48; 48; 48] /\
  decode_int (mk_ity true W8) [45; 48; 98; 49; 48; 48; 48; 48; 48; 48; 48] = Ok (-128) /\
  decode_int (mk_ity true W8) [49; 50; 56] = Reject /\ numeral_value true [49; 50; 56] = Some 128 /\
  decode_int (mk_ity false W8) [45; 49] = Reject /\
  encode_int (mk_ity false W64) 18446744073709551615 10 true =
    Ok [49;56;95;52;52;54;95;55;52;52;95;48;55;51;95;55;48;57;95;53;53;49;95;54;49;53].
Proof. exact ex_codec. Qed.
