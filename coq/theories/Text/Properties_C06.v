(* C06 -- property theorems.  Statements only; every proof is `exact <lemma>`. *)
From Coq Require Import ZArith List Bool.
Import ListNotations.
Set Warnings "-notation-overridden".
Require Import EmbossV.Bits.Model.
Require Import EmbossV.Text.IntCodec EmbossV.Text.ProofsInt EmbossV.Text.ProofsBuffer EmbossV.Text.ProofsToken EmbossV.Text.StructText
               EmbossV.Text.ProofsStruct EmbossV.Text.ProofsArray EmbossV.Text.ProofsRoundtrip
               EmbossV.Text.Store EmbossV.Text.ProofsStore.
Set Warnings "+notation-overridden".
Open Scope Z_scope.

(* ---------------- integer text codec ---------------- *)

(* For every C++ integer type (signed?, 8/16/32/64), every value of the type, every base in
   {2,10,16}, with or without digit grouping: WriteIntegerToTextStream produces a text (no
   overflowing arithmetic step, no fuel artefact) and DecodeInteger reads it back to the value. *)
Theorem int_roundtrip : forall t x base grp,
  base_ok base = true -> fits t x = true ->
  exists text, encode_int t x base grp = Ok text /\ decode_int t text = Ok x.
Proof. exact int_roundtrip_lem. Qed.

(* written with one type, read with another type that contains the value (enum values are
   written with the underlying type and read as uint64_t / int64_t) *)
Theorem int_roundtrip_cross : forall t t' x base grp,
  base_ok base = true -> fits t x = true -> fits t' x = true ->
  exists text, encode_int t x base grp = Ok text /\ decode_int t' text = Ok x.
Proof. exact int_roundtrip_cross_lem. Qed.

(* DecodeInteger is exactly "the mathematical value of the numeral, if it is well formed and
   lies in the type": it never wraps and never accepts a malformed numeral. *)
Theorem decode_int_spec : forall t text,
  decode_int t text =
    match numeral_value (ity_signed t) text with
    | None => Reject
    | Some v => if fits t v then Ok v else Reject
    end.
Proof. exact decode_int_spec_lem. Qed.

Theorem decode_rejects_overflow : forall t text v,
  numeral_value (ity_signed t) text = Some v -> fits t v = false -> decode_int t text = Reject.
Proof. exact decode_rejects_overflow_lem. Qed.

Theorem decode_rejects_malformed : forall t text,
  numeral_value (ity_signed t) text = None -> decode_int t text = Reject.
Proof. exact decode_rejects_malformed_lem. Qed.

Theorem decode_exact : forall t text v,
  decode_int t text = Ok v <-> numeral_value (ity_signed t) text = Some v /\ fits t v = true.
Proof. exact decode_exact_lem. Qed.

(* no input string makes an arithmetic step of DecodeInteger leave the range of its C++ type *)
Theorem decode_total : forall t text, decode_int t text <> UB /\ decode_int t text <> OutOfFuel.
Proof. exact decode_total_lem. Qed.

Theorem encode_total : forall t x base grp,
  encode_int t x base grp <> UB /\ encode_int t x base grp <> OutOfFuel.
Proof. exact encode_total_lem. Qed.

Theorem encode_int_spec : forall t x base grp,
  base_ok base = true -> fits t x = true -> encode_int t x base grp = Ok (numeral_text base grp x).
Proof. exact encode_int_spec_lem. Qed.

Theorem encode_injective : forall t x y base grp b' g' text,
  base_ok base = true -> base_ok b' = true -> fits t x = true -> fits t y = true ->
  encode_int t x base grp = Ok text -> encode_int t y b' g' = Ok text -> x = y.
Proof. exact encode_injective_lem. Qed.

(* WriteIntegerToTextStream fills `char buffer[buffer_size]` from its end: every text is at most
   buffer_size - 1 characters long, so the index next_char never goes below 0
   (EMBOSS_DCHECK_GE(next_char, 0)); the bound is attained. *)
Theorem encode_fits_buffer : forall t x base grp text,
  encode_int t x base grp = Ok text -> Z.of_nat (length text) <= buffer_size t - 1.
Proof. exact encode_fits_buffer_lem. Qed.

Example encode_buffer_bound_attained :
  exists text, encode_int (mk_ity true W64) (-9223372036854775808) 2 true = Ok text /\
               Z.of_nat (length text) = buffer_size (mk_ity true W64) - 1.
Proof. exact buffer_tight_example. Qed.

(* ---------------- tokens and white space ---------------- *)
Theorem read_token_total : forall s, read_token s <> None.
Proof. exact read_token_total_lem. Qed.

Theorem discard_whitespace_total : forall s, discard_whitespace s <> None.
Proof. exact discard_whitespace_total_lem. Qed.

Theorem read_token_pure : forall b a,
  exists b', read_token (b, a) = Some (fst (next_token a), (b', snd (next_token a))) /\
             rev b' ++ snd (next_token a) = rev b ++ a.
Proof. exact read_token_pure_lem. Qed.

Theorem token_word : forall tok d a,
  tok <> [] -> tok_chars tok = true -> is_delim d = true -> next_token (tok ++ d :: a) = (tok, d :: a).
Proof. exact next_token_word. Qed.

Theorem token_punct : forall c a, is_punct c = true -> c <> 0 -> next_token (c :: a) = ([c], a).
Proof. exact next_token_punct. Qed.

Theorem token_skips_space : forall pad a, forallb is_space pad = true -> next_token (pad ++ a) = next_token a.
Proof. exact next_token_skip_space. Qed.

Theorem token_skips_comment : forall body a,
  forallb no_newline body = true -> next_token (ch_hash :: body ++ ch_lf :: a) = next_token a.
Proof. exact next_token_skip_comment. Qed.

(* ---------------- structures: what is emitted ---------------- *)

(* emit_order: the text of a structure is "{" ++ the texts of its fields, concatenated in the order
   in which the fields are given (the harness gives fields_in_dependency_order of the real front
   end) ++ "}" *)
Theorem emit_order : forall g o fs,
  write_val g o (VStruct fs) =
    open_text o ++ concat (chunks g (plus_one_indent o) fs false) ++ close_text o.
Proof. exact emit_order_lem. Qed.

(* skip_absent: with the generator table of the working tree (checked each run: gentab_ok), a field
   marked [text_output: "Skip"], or an absent field, contributes no text *)
Theorem skip_absent : forall g fo wrote fi fv,
  gentab_ok g = true -> (f_attr fi = ASkip \/ f_present fi = false) -> field_chunk g fo wrote fi fv = [].
Proof. exact skip_absent_lem. Qed.

(* emit_present: a present field without attribute or marked "Emit" is written: as `name: value`,
   or, when read-only, as the comment `# name: value` if comments are on *)
Theorem emit_present : forall g fo wrote fi fv,
  gentab_ok g = true -> f_attr fi <> ASkip -> f_present fi = true ->
  field_chunk g fo wrote fi fv =
    if f_ro fi then
      (if o_comments fo then o_cur fo ++ s_hash_sp ++ f_name fi ++ s_colon_sp ++ write_val g fo fv ++ s_lf else [])
    else
      (if o_multiline fo then o_cur fo else (if wrote then [ch_comma] else []) ++ [ch_space]) ++
      f_name fi ++ s_colon_sp ++ write_val g fo fv ++ (if o_multiline fo then s_lf else []).
Proof. exact emit_present_lem. Qed.

(* finding F2 (fixed in /repo by 5b3353e): for the table of the generator before the fix the
   statement above fails *)
Theorem emit_present_fails_for_f2_table :
  exists fo wrote fi fv, f_attr fi = AEmit /\ f_present fi = true /\ f_ro fi = false /\
                         field_chunk gt_f2 fo wrote fi fv = [].
Proof. exact emit_present_fails_for_f2_table_lem. Qed.

(* ---------------- structures: the text is read back ---------------- *)

(* text_roundtrip (scalars, enums by name or number, nested structures, arrays of any of these;
   every re-readable option set: bases 2/10/16, grouping, single line without comments, multi-line with or without comments,
   any blank indent): for ANY store W with ANY TryToWrite, UpdateFromText of WriteToString's result
   returns true, consumes the whole text, and has performed exactly the TryToWrite calls
   events_of lists -- (path, value) of every field written as `name: value`, in emission order. *)
Theorem text_roundtrip : forall (W : Type) (tw : list pelem -> wv -> W -> option W) g o fs w w' fuel,
  wf_val g (VStruct fs) -> opts_ok o -> (need (VStruct fs) <= fuel)%nat ->
  apply_events W tw (events_of g [] (VStruct fs)) w = Some w' ->
  exists s, update_from_text W tw fuel (schema_of (VStruct fs)) (write_to_string g o (VStruct fs)) w = UOk s w' /\
            snd s = [].
Proof. exact text_roundtrip_lem. Qed.

(* the finding "multi-line arrays cannot be read back" (fixed in /repo by 4bd9029) as a positive
   theorem about the repaired reader: an array value alone, any element shape, both layouts *)
Theorem array_roundtrip : forall (W : Type) (tw : list pelem -> wv -> W -> option W) g o a es path w w' fuel,
  wf_val g (VArray a es) -> opts_ok o -> (need (VArray a es) <= fuel)%nat ->
  apply_events W tw (events_of g path (VArray a es)) w = Some w' ->
  exists s, update W tw fuel (schema_of (VArray a es)) path (st_of (write_val g o (VArray a es))) w = UOk s w' /\
            snd s = [].
Proof. exact array_roundtrip_lem. Qed.

(* struct_roundtrip_partial: for an ABSTRACT store the storage step is the hypothesis Hstore (TryToWrite
   calls of the emitted fields, performed in dependency order on the zeroed buffer, succeed and read
   back).  It is discharged below for the concrete byte store (struct_roundtrip_static, no storage
   hypothesis; struct_roundtrip_dynamic, no hypothesis, offsets = constant + fields and conditions =
   conjunctions of field tests; struct_roundtrip_dependent, any layout function, only `determined`).
   What remains `_partial`: writable virtual fields (TryToWrite through the inverse transform, C03
   invert_correct), signed enums (finding F1), Float fields, location / condition expressions outside
   the language of dyn_layout (their link to the expression semantics of C01 is the hypothesis
   `determined`), arrays whose element count depends on a field (schema_of fixes the count). *)
Theorem struct_roundtrip_partial :
  forall (W : Type) (tw : list pelem -> wv -> W -> option W) (rd : list pelem -> W -> option wv)
         g o fs zeroed restored fuel,
    wf_val g (VStruct fs) -> opts_ok o -> (need (VStruct fs) <= fuel)%nat ->
    forall Hstore : apply_events W tw (events_of g [] (VStruct fs)) zeroed = Some restored /\
                    (forall p x, In (p, x) (events_of g [] (VStruct fs)) -> rd p restored = Some x),
    exists s, update_from_text W tw fuel (schema_of (VStruct fs)) (write_to_string g o (VStruct fs)) zeroed
              = UOk s restored /\ snd s = [] /\
              (forall p x, In (p, x) (events_of g [] (VStruct fs)) -> rd p restored = Some x).
Proof. exact struct_roundtrip_partial_lem. Qed.

(* ---------------- structures: the storage step, for the concrete byte store ---------------- *)
(* Text/Store.v: the store is the byte buffer; TryToWrite / Read at a path are the scalar views of
   Bits/Model.v (C02/C03: BitBlock / OffsetBitBlock over the container's bytes, byte order, range checks)
   at the location a LAYOUT gives for the path: store_tw L, store_rd L.

   struct_roundtrip_static: NO storage hypothesis.  For every structure value whose written (emitted,
   writable) leaves -- UInt, Int, Bcd, Flag, unsigned enums; at top level, inside nested structures,
   inside `bits`, as array elements -- have locations in a table `tab` that fit a buffer of n bytes, hold
   the value (layout_okb: range of the field's width, the view's value type) and are pairwise disjoint
   (disjoint containers, or disjoint bit ranges of one `bits` container): UpdateFromText of
   WriteToString's text into the ZEROED buffer of n bytes returns true, consumes the text, and every
   emitted field reads back the value that was written. *)
Theorem struct_roundtrip_static : forall g o fs n tab fuel,
  wf_val g (VStruct fs) -> opts_ok o -> (need (VStruct fs) <= fuel)%nat ->
  layout_okb n tab (events_of g [] (VStruct fs)) = true ->
  exists s restored,
    update_from_text (list Z) (store_tw (static_layout tab)) fuel (schema_of (VStruct fs))
                     (write_to_string g o (VStruct fs)) (zeros n) = UOk s restored /\ snd s = [] /\ length restored = n /\
    (forall p x, In (p, x) (events_of g [] (VStruct fs)) -> store_rd (static_layout tab) p restored = Some x).
Proof. exact struct_roundtrip_static_lem. Qed.

(* struct_roundtrip_dependent: locations that depend on the buffer (dynamic offsets, conditional fields,
   fields of nested structures at dynamic offsets).  L gives the location of a path IN THE CURRENT
   BUFFER.  The only hypothesis about L is `determined`: when a field is about to be written, its
   location in the buffer being restored is fixed by the fields written before it (= emitted before it:
   emission order is dependency order, C15) and equals its location `tab` in the view the text was
   written from.  No hypothesis about the writes themselves. *)
Theorem struct_roundtrip_dependent : forall g o fs n L tab fuel,
  wf_val g (VStruct fs) -> opts_ok o -> (need (VStruct fs) <= fuel)%nat ->
  layout_okb n tab (events_of g [] (VStruct fs)) = true ->
  determined n L tab (events_of g [] (VStruct fs)) ->
  exists s restored,
    update_from_text (list Z) (store_tw L) fuel (schema_of (VStruct fs)) (write_to_string g o (VStruct fs)) (zeros n)
      = UOk s restored /\ snd s = [] /\ length restored = n /\
    (forall p x, In (p, x) (events_of g [] (VStruct fs)) -> store_rd L p restored = Some x).
Proof. exact struct_roundtrip_dependent_lem. Qed.

(* struct_roundtrip_dynamic: NO hypothesis about the layout function either, for the dependent layouts of
   Text/Store.v (dyn_layout): the byte offset of a field's container is a constant plus the values of
   integer fields (fields located by a pointer field, fields of a structure at such an offset), and the
   field exists when a conjunction of tests `field == constant` / `flag` / `!flag` on other fields holds
   (conditional fields; the conditions of the enclosing structures are part of the conjunction).
   TryToWrite and Read evaluate offsets and conditions ON THE BUFFER BEING RESTORED (reading the fields
   they refer to, whose own locations are evaluated the same way).  `resolve dt [] evs` is the static
   table the layout denotes in the view the text was written from: each written field's location,
   evaluated with the values of the fields written BEFORE it -- so layout_okb of that table contains
   "every field a written field depends on is written before it" (fields_in_dependency_order, C15; a
   field some other field depends on must not be marked Skip). *)
Theorem struct_roundtrip_dynamic : forall g o fs n dt fuel lfuel,
  wf_val g (VStruct fs) -> opts_ok o -> (need (VStruct fs) <= fuel)%nat ->
  (length (events_of g [] (VStruct fs)) <= lfuel)%nat ->
  layout_okb n (resolve dt [] (events_of g [] (VStruct fs))) (events_of g [] (VStruct fs)) = true ->
  exists s restored,
    update_from_text (list Z) (store_tw (dyn_layout lfuel dt)) fuel (schema_of (VStruct fs))
                     (write_to_string g o (VStruct fs)) (zeros n) = UOk s restored /\ snd s = [] /\ length restored = n /\
    (forall p x, In (p, x) (events_of g [] (VStruct fs)) -> store_rd (dyn_layout lfuel dt) p restored = Some x).
Proof. exact struct_roundtrip_dynamic_lem. Qed.

Theorem dyn_layout_determined : forall n fuel dt evs,
  (length evs <= fuel)%nat ->
  layout_okb n (resolve dt [] evs) evs = true ->
  determined n (dyn_layout fuel dt) (resolve dt [] evs) evs.
Proof. exact dyn_determined_lem. Qed.

(* the storage step alone (Hstore of struct_roundtrip_partial), for any sequence of writes *)
Theorem store_roundtrip : forall n L tab evs,
  layout_okb n tab evs = true -> determined n L tab evs ->
  exists restored, apply_events (list Z) (store_tw L) evs (zeros n) = Some restored /\ length restored = n /\
                   (forall p x, In (p, x) evs -> store_rd L p restored = Some x).
Proof. exact store_roundtrip_lem. Qed.

(* one TryToWrite: it succeeds, the field reads back, every location apart from it is untouched *)
Theorem store_write_frame : forall n l x root, length root = n -> Forall byte root -> loc_fitsb n l = true -> val_okb l x = true ->
  exists bs, loc_try_write l x root = Some (true, Some bs) /\
    length (splice root (l_boff l) bs) = n /\ Forall byte (splice root (l_boff l) bs) /\
    loc_read l (splice root (l_boff l) bs) = Some x /\
    (forall l2, loc_fitsb n l2 = true -> loc_apartb l2 l = true ->
                loc_read l2 (splice root (l_boff l) bs) = loc_read l2 root).
Proof. exact write_one. Qed.

Theorem events_emitted : forall g path fi fv pre post,
  emits_value g fi = true ->
  events_of g path (VStruct (pre ++ (fi, fv) :: post)) =
    events_of g path (VStruct pre) ++ events_of g (path ++ [PField (f_name fi)]) fv ++ events_of g path (VStruct post).
Proof. exact events_emitted_lem. Qed.

(* ---------------- non-vacuity ---------------- *)
Example example_view_wf : wf_val gt_std ex_view /\ opts_ok ex_opts.
Proof. exact ex_wf. Qed.

Example example_roundtrip :
  exists s w, update_from_text (list event) ex_rec 40 (schema_of ex_view) (write_to_string gt_std ex_opts ex_view) []
              = UOk s w /\ snd s = [] /\ rev w = events_of gt_std [] ex_view /\ length w = 8%nat.
Proof. exact ex_roundtrip. Qed.

Example example_roundtrip_single_line :
  opts_ok ex_opts_single /\
  exists s w, update_from_text (list event) ex_rec 40 (schema_of ex_view) (write_to_string gt_std ex_opts_single ex_view) []
              = UOk s w /\ snd s = [] /\ rev w = events_of gt_std [] ex_view.
Proof. exact ex_roundtrip_single. Qed.

(* a 6-byte structure with a big-endian UInt:16, an Int:8, a little-endian `bits` with a Flag, a UInt:5 and a
   Bcd:8, and an enum: in the class of struct_roundtrip_static; the restored bytes *)
Example example_store_roundtrip :
  wf_val gt_std ex_sview /\ opts_ok ex_sopts /\
  layout_okb 6 ex_stab (events_of gt_std [] ex_sview) = true /\
  length (events_of gt_std [] ex_sview) = 6%nat /\
  exists s, update_from_text (list Z) (store_tw (static_layout ex_stab)) 40 (schema_of ex_sview)
              (write_to_string gt_std ex_sopts ex_sview) (zeros 6) = UOk s [190; 239; 254; 43; 66; 200] /\ snd s = [].
Proof. exact ex_store. Qed.

(* a structure with a conditional field and a field located by a pointer field: in the class of
   struct_roundtrip_dynamic; the pointer-located field resolves to byte 5; the restored bytes *)
Example example_dynamic_roundtrip :
  wf_val gt_std ex_dview /\
  layout_okb 6 (resolve ex_dtab [] (events_of gt_std [] ex_dview)) (events_of gt_std [] ex_dview) = true /\
  tab_loc (resolve ex_dtab [] (events_of gt_std [] ex_dview)) [PField [121]] = Some (mk_loc LE 5 1 None SInt (mk_ity true W8)) /\
  exists s, update_from_text (list Z) (store_tw (dyn_layout 4 ex_dtab)) 40 (schema_of ex_dview)
              (write_to_string gt_std ex_sopts ex_dview) (zeros 6) = UOk s [1; 52; 18; 5; 0; 255] /\ snd s = [].
Proof. exact ex_dyn. Qed.

Example example_codec :
  encode_int (mk_ity true W8) (-128) 2 true = Ok [45; 48; 98; 49; 48; 48; 48; 48; 48; 48; 48] /\
  decode_int (mk_ity true W8) [45; 48; 98; 49; 48; 48; 48; 48; 48; 48; 48] = Ok (-128) /\
  decode_int (mk_ity true W8) [49; 50; 56] = Reject /\ numeral_value true [49; 50; 56] = Some 128 /\
  decode_int (mk_ity false W8) [45; 49] = Reject /\
  encode_int (mk_ity false W64) 18446744073709551615 10 true =
    Ok [49;56;95;52;52;54;95;55;52;52;95;48;55;51;95;55;48;57;95;53;53;49;95;54;49;53].
Proof. exact ex_codec. Qed.
