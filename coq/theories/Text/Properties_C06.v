(* C06 -- property theorems.  Statements only; every proof is `exact <lemma>`. *)
From Coq Require Import ZArith List Bool.
Import ListNotations.
Require Import EmbossV.Text.IntCodec EmbossV.Text.ProofsInt EmbossV.Text.ProofsToken.
Open Scope Z_scope.

(* ---------------- integer text codec ---------------- *)

(* For every C++ integer type (signed?, 8/16/32/64), every value of the type, every base in
   {2,10,16}, with or without digit grouping: WriteIntegerToTextStream produces a text (no
   overflowing arithmetic step, no fuel artefact) and DecodeInteger reads it back to the value. *)
Theorem int_roundtrip : forall t x base grp,
  base_ok base = true -> fits t x = true ->
  exists text, encode_int t x base grp = Ok text /\ decode_int t text = Ok x.
Proof. exact int_roundtrip_lem. Qed.

(* written with one type, read with another type that contains the value (enum values are
   written with the underlying type and read as uint64_t / int64_t) *)
Theorem int_roundtrip_cross : forall t t' x base grp,
  base_ok base = true -> fits t x = true -> fits t' x = true ->
  exists text, encode_int t x base grp = Ok text /\ decode_int t' text = Ok x.
Proof. exact int_roundtrip_cross_lem. Qed.

(* DecodeInteger is exactly "the mathematical value of the numeral, if it is well formed and
   lies in the type": it never wraps and never accepts a malformed numeral. *)
Theorem decode_int_spec : forall t text,
  decode_int t text =
    match numeral_value (ity_signed t) text with
    | None => Reject
    | Some v => if fits t v then Ok v else Reject
    end.
Proof. exact decode_int_spec_lem. Qed.

Theorem decode_rejects_overflow : forall t text v,
  numeral_value (ity_signed t) text = Some v -> fits t v = false -> decode_int t text = Reject.
Proof. exact decode_rejects_overflow_lem. Qed.

Theorem decode_rejects_malformed : forall t text,
  numeral_value (ity_signed t) text = None -> decode_int t text = Reject.
Proof. exact decode_rejects_malformed_lem. Qed.

Theorem decode_exact : forall t text v,
  decode_int t text = Ok v <-> numeral_value (ity_signed t) text = Some v /\ fits t v = true.
Proof. exact decode_exact_lem. Qed.

(* no input string makes an arithmetic step of DecodeInteger leave the range of its C++ type *)
Theorem decode_total : forall t text, decode_int t text <> UB /\ decode_int t text <> OutOfFuel.
Proof. exact decode_total_lem. Qed.

Theorem encode_total : forall t x base grp,
  encode_int t x base grp <> UB /\ encode_int t x base grp <> OutOfFuel.
Proof. exact encode_total_lem. Qed.

Theorem encode_int_spec : forall t x base grp,
  base_ok base = true -> fits t x = true -> encode_int t x base grp = Ok (numeral_text base grp x).
Proof. exact encode_int_spec_lem. Qed.

Theorem encode_injective : forall t x y base grp b' g' text,
  base_ok base = true -> base_ok b' = true -> fits t x = true -> fits t y = true ->
  encode_int t x base grp = Ok text -> encode_int t y b' g' = Ok text -> x = y.
Proof. exact encode_injective_lem. Qed.

(* ---------------- tokens and white space ---------------- *)
Theorem read_token_total : forall s, read_token s <> None.
Proof. exact read_token_total_lem. Qed.

Theorem discard_whitespace_total : forall s, discard_whitespace s <> None.
Proof. exact discard_whitespace_total_lem. Qed.

Theorem read_token_pure : forall b a,
  exists b', read_token (b, a) = Some (fst (next_token a), (b', snd (next_token a))) /\
             rev b' ++ snd (next_token a) = rev b ++ a.
Proof. exact read_token_pure_lem. Qed.

Theorem token_word : forall tok d a,
  tok <> [] -> tok_chars tok = true -> is_delim d = true -> next_token (tok ++ d :: a) = (tok, d :: a).
Proof. exact next_token_word. Qed.

Theorem token_punct : forall c a, is_punct c = true -> c <> 0 -> next_token (c :: a) = ([c], a).
Proof. exact next_token_punct. Qed.

Theorem token_skips_space : forall pad a, forallb is_space pad = true -> next_token (pad ++ a) = next_token a.
Proof. exact next_token_skip_space. Qed.

Theorem token_skips_comment : forall body a,
  forallb no_newline body = true -> next_token (ch_hash :: body ++ ch_lf :: a) = next_token a.
Proof. exact next_token_skip_comment. Qed.
