(* C06 -- proofs about TextStream / DiscardWhitespace / ReadToken (IntCodec.v):
   the stream functions never fail, preserve the text, and coincide with pure
   functions of the remaining text. *)
From Coq Require Import ZArith List Bool Lia ZifyBool.
Import ListNotations.
Require Import EmbossV.Text.IntCodec.
Open Scope Z_scope.

(* ---- pure counterparts on the remaining text ---- *)
Fixpoint skip_ws (in_comment : bool) (a : list Z) : list Z :=
  match a with
  | [] => []
  | c :: r =>
      let ic1 := if c =? ch_hash then true else in_comment in
      let ic2 := if (c =? ch_cr) || (c =? ch_lf) then false else ic1 in
      if ic2 || is_space c then skip_ws ic2 r else a
  end.

Fixpoint take_tok (a : list Z) : list Z * list Z :=
  match a with
  | [] => ([], [])
  | c :: r => if is_delim c then ([], a) else let '(t, rest) := take_tok r in (c :: t, rest)
  end.

Definition next_token (a : list Z) : list Z * list Z :=
  match skip_ws false a with
  | [] => ([], [])
  | c :: r => if is_punct c then ([c], r) else let '(t, rest) := take_tok r in (c :: t, rest)
  end.

(* ---- stream level ---- *)
Lemma st_unread_after_read : forall s c s', st_read s = Some (c, s') -> st_unread c s' = Some s.
Proof.
  intros [b a] c s'. unfold st_read, st_unread. cbn [fst snd].
  destruct a as [|c0 r]; [discriminate|]. intros H; inversion H; subst. cbn [fst snd].
  rewrite Z.eqb_refl. reflexivity.
Qed.

Lemma dw_loop_pure : forall a ic b,
  exists b', dw_loop ic b a = Some (b', skip_ws ic a) /\ rev b' ++ skip_ws ic a = rev b ++ a.
Proof.
  induction a as [|c r IH]; intros ic b; cbn [dw_loop skip_ws].
  - exists b. split; reflexivity.
  - set (ic2 := if (c =? ch_cr) || (c =? ch_lf) then false else if c =? ch_hash then true else ic).
    destruct (ic2 || is_space c).
    + destruct (IH ic2 (c :: b)) as [b' [H1 H2]]. exists b'. split; [exact H1|].
      rewrite H2. cbn [rev]. rewrite <- app_assoc. reflexivity.
    + exists b. unfold st_unread. cbn [fst snd]. rewrite Z.eqb_refl. split; reflexivity.
Qed.

(* DiscardWhitespace never returns false *)
Lemma discard_whitespace_pure : forall b a,
  exists b', discard_whitespace (b, a) = Some (b', skip_ws false a) /\
             rev b' ++ skip_ws false a = rev b ++ a.
Proof. intros b a. unfold discard_whitespace. cbn [fst snd]. apply dw_loop_pure. Qed.

Lemma tok_loop_pure : forall a acc b,
  exists b', tok_loop acc b a = Some (rev acc ++ fst (take_tok a), (b', snd (take_tok a))) /\
             rev b' ++ snd (take_tok a) = rev b ++ a.
Proof.
  induction a as [|c r IH]; intros acc b; cbn [tok_loop take_tok].
  - exists b. cbn [fst snd]. rewrite app_nil_r. split; reflexivity.
  - destruct (is_delim c).
    + exists b. unfold st_unread. cbn [fst snd]. rewrite Z.eqb_refl. rewrite app_nil_r. split; reflexivity.
    + destruct (IH (c :: acc) (c :: b)) as [b' [H1 H2]].
      destruct (take_tok r) as [t rest]. cbn [fst snd] in *.
      exists b'. split.
      * rewrite H1. cbn [rev]. rewrite <- app_assoc. reflexivity.
      * rewrite H2. cbn [rev]. rewrite <- app_assoc. reflexivity.
Qed.

(* ReadToken never returns false, and its result is a pure function of the remaining text *)
Lemma read_token_pure_lem : forall b a,
  exists b', read_token (b, a) = Some (fst (next_token a), (b', snd (next_token a))) /\
             rev b' ++ snd (next_token a) = rev b ++ a.
Proof.
  intros b a. unfold read_token, next_token.
  destruct (discard_whitespace_pure b a) as [b1 [H1 H2]]. rewrite H1.
  unfold st_read. cbn [fst snd].
  destruct (skip_ws false a) as [|c r] eqn:E.
  - exists b1. split; [reflexivity|exact H2].
  - destruct (is_punct c).
    + exists (c :: b1). cbn [fst snd]. split; [reflexivity|].
      cbn [rev]. rewrite <- app_assoc. exact H2.
    + destruct (tok_loop_pure r [c] (c :: b1)) as [b' [H3 H4]].
      destruct (take_tok r) as [t rest]. cbn [fst snd rev app] in *.
      exists b'. split; [exact H3|].
      rewrite H4. rewrite <- app_assoc. exact H2.
Qed.

Lemma read_token_total_lem : forall s, read_token s <> None.
Proof.
  intros [b a]. destruct (read_token_pure_lem b a) as [b' [H _]]. rewrite H. discriminate.
Qed.

Lemma discard_whitespace_total_lem : forall s, discard_whitespace s <> None.
Proof.
  intros [b a]. destruct (discard_whitespace_pure b a) as [b' [H _]]. rewrite H. discriminate.
Qed.

(* the stream text (consumed ++ remaining) is never changed *)
Lemma read_token_text_lem : forall s tok s', read_token s = Some (tok, s') -> st_text s' = st_text s.
Proof.
  intros [b a] tok s' H. destruct (read_token_pure_lem b a) as [b' [H1 H2]].
  rewrite H1 in H. inversion H; subst. unfold st_text. cbn [fst snd]. exact H2.
Qed.

(* ---- facts about the pure functions ---- *)
Definition is_blank (c : Z) : bool := (c =? ch_space) || (c =? ch_tab).

Lemma skip_ws_blank : forall pad a, forallb is_space pad = true -> skip_ws false (pad ++ a) = skip_ws false a.
Proof.
  induction pad as [|c r IH]; intros a H; [reflexivity|].
  cbn [forallb] in H. apply andb_true_iff in H. destruct H as [H1 H2].
  cbn [app skip_ws].
  assert (E : (c =? ch_hash) = false) by (unfold is_space, ch_hash, ch_space, ch_tab, ch_lf, ch_cr in *; lia).
  rewrite E. rewrite H1.
  destruct ((c =? ch_cr) || (c =? ch_lf)); cbn [orb]; apply IH; exact H2.
Qed.

(* a comment: '#' followed by characters other than CR/LF, closed by LF *)
Definition no_newline (c : Z) : bool := negb ((c =? ch_cr) || (c =? ch_lf)).

Lemma skip_ws_in_comment : forall body a,
  forallb no_newline body = true -> skip_ws true (body ++ ch_lf :: a) = skip_ws false a.
Proof.
  induction body as [|c r IH]; intros a H.
  - cbn [app skip_ws]. change (ch_lf =? ch_hash) with false. change ((ch_lf =? ch_cr) || (ch_lf =? ch_lf)) with true.
    cbv iota. change (is_space ch_lf) with true. reflexivity.
  - cbn [forallb] in H. apply andb_true_iff in H. destruct H as [H1 H2].
    cbn [app skip_ws]. unfold no_newline in H1.
    destruct ((c =? ch_cr) || (c =? ch_lf)); [discriminate|].
    destruct (c =? ch_hash); cbn [orb]; apply IH; exact H2.
Qed.

Lemma skip_ws_comment : forall body a,
  forallb no_newline body = true -> skip_ws false (ch_hash :: body ++ ch_lf :: a) = skip_ws false a.
Proof.
  intros body a H. cbn [skip_ws]. change (ch_hash =? ch_hash) with true.
  change ((ch_hash =? ch_cr) || (ch_hash =? ch_lf)) with false. cbv iota. cbn [orb].
  apply skip_ws_in_comment. exact H.
Qed.

Lemma skip_ws_stop : forall c a, is_space c = false -> c <> ch_hash -> skip_ws false (c :: a) = c :: a.
Proof.
  intros c a H1 H2. cbn [skip_ws].
  assert (E : (c =? ch_hash) = false) by lia. rewrite E.
  assert (E2 : ((c =? ch_cr) || (c =? ch_lf)) = false) by (unfold is_space in H1; lia). rewrite E2.
  rewrite H1. reflexivity.
Qed.

Lemma take_tok_app : forall tok d a,
  forallb (fun c => negb (is_delim c)) tok = true -> is_delim d = true ->
  take_tok (tok ++ d :: a) = (tok, d :: a).
Proof.
  induction tok as [|c r IH]; intros d a H Hd.
  - cbn [app take_tok]. rewrite Hd. reflexivity.
  - cbn [forallb] in H. apply andb_true_iff in H. destruct H as [H1 H2].
    cbn [app take_tok]. destruct (is_delim c); [discriminate|].
    rewrite IH by assumption. reflexivity.
Qed.

Lemma take_tok_eof : forall tok,
  forallb (fun c => negb (is_delim c)) tok = true -> take_tok tok = (tok, []).
Proof.
  induction tok as [|c r IH]; intros H; [reflexivity|].
  cbn [forallb] in H. apply andb_true_iff in H. destruct H as [H1 H2].
  cbn [take_tok]. destruct (is_delim c); [discriminate|]. rewrite IH by assumption. reflexivity.
Qed.

Definition tok_chars (tok : list Z) : bool := forallb (fun c => negb (is_delim c)) tok.

Lemma delim_not_space_hash : forall c, is_delim c = false -> is_space c = false /\ c <> ch_hash /\ is_punct c = false.
Proof. intros c; unfold is_delim; intros H. repeat split; try lia. Qed.

(* a word followed by a delimiter is read as one token and the delimiter stays *)
Lemma next_token_word : forall tok d a,
  tok <> [] -> tok_chars tok = true -> is_delim d = true ->
  next_token (tok ++ d :: a) = (tok, d :: a).
Proof.
  intros tok d a NE H Hd. destruct tok as [|c r]; [congruence|].
  unfold tok_chars in H. cbn [forallb] in H. apply andb_true_iff in H. destruct H as [H1 H2].
  assert (Hc : is_delim c = false) by (destruct (is_delim c); [discriminate|reflexivity]).
  destruct (delim_not_space_hash c Hc) as (S1 & S2 & S3).
  unfold next_token. cbn [app]. rewrite skip_ws_stop by assumption. rewrite S3.
  rewrite take_tok_app by assumption. reflexivity.
Qed.

Lemma next_token_word_eof : forall tok,
  tok <> [] -> tok_chars tok = true -> next_token tok = (tok, []).
Proof.
  intros tok NE H. destruct tok as [|c r]; [congruence|].
  unfold tok_chars in H. cbn [forallb] in H. apply andb_true_iff in H. destruct H as [H1 H2].
  assert (Hc : is_delim c = false) by (destruct (is_delim c); [discriminate|reflexivity]).
  destruct (delim_not_space_hash c Hc) as (S1 & S2 & S3).
  unfold next_token. rewrite skip_ws_stop by assumption. rewrite S3.
  rewrite take_tok_eof by assumption. reflexivity.
Qed.

(* punctuation is a one-character token *)
Lemma next_token_punct : forall c a,
  is_punct c = true -> c <> 0 -> next_token (c :: a) = ([c], a).
Proof.
  intros c a H H0. unfold next_token.
  assert (S1 : is_space c = false) by (unfold is_punct, is_space, ch_colon, ch_lbrace, ch_rbrace, ch_lbrack, ch_rbrack, ch_comma, ch_space, ch_tab, ch_lf, ch_cr in *; lia).
  assert (S2 : c <> ch_hash) by (unfold is_punct, ch_colon, ch_lbrace, ch_rbrace, ch_lbrack, ch_rbrack, ch_comma, ch_hash in *; lia).
  rewrite skip_ws_stop by assumption. rewrite H. reflexivity.
Qed.

(* leading blanks, newlines and whole-line comments do not matter *)
Lemma next_token_skip_space : forall pad a, forallb is_space pad = true -> next_token (pad ++ a) = next_token a.
Proof. intros pad a H. unfold next_token. rewrite skip_ws_blank by assumption. reflexivity. Qed.

Lemma next_token_skip_comment : forall body a,
  forallb no_newline body = true -> next_token (ch_hash :: body ++ ch_lf :: a) = next_token a.
Proof. intros body a H. unfold next_token. rewrite skip_ws_comment by assumption. reflexivity. Qed.

(* at end of input the token is empty *)
Lemma next_token_eof : next_token [] = ([], []).
Proof. reflexivity. Qed.

(* a non-empty token never contains a delimiter, and is empty only at end of input *)
Lemma take_tok_chars : forall a, tok_chars (fst (take_tok a)) = true.
Proof.
  induction a as [|c r IH]; [reflexivity|]. cbn [take_tok].
  destruct (is_delim c) eqn:E; [reflexivity|].
  destruct (take_tok r) as [t rest]. cbn [fst] in *. unfold tok_chars in *. cbn [forallb].
  rewrite E. exact IH.
Qed.

Lemma next_token_empty_iff_lem : forall a, fst (next_token a) = [] <-> skip_ws false a = [].
Proof.
  intros a. unfold next_token. destruct (skip_ws false a) as [|c r]; [split; reflexivity|].
  destruct (is_punct c); [split; discriminate|].
  destruct (take_tok r). split; discriminate.
Qed.
