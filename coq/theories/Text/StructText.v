(* C06 -- model of the text output / text input of structures.  DEFINITIONS ONLY.

   Mirrors
     generated_code_templates: struct_text_stream (WriteToTextStream, UpdateFromTextStream),
        write_field_to_text_stream, write_read_only_field_to_text_stream, decode_field
     header_generator.py _generate_structure_definition: which clauses are generated
        (text_output attribute, read-only fields, anonymous fields), in fields_in_dependency_order
     emboss_text_util.h: WriteIntegerViewToTextStream, WriteBooleanViewToTextStream,
        WriteEnumViewToTextStream, WriteArrayToTextStream, WriteShorthandAsciiArrayCommentToTextStream,
        ReadIntegerFromTextStream, ReadBooleanFromTextStream, ReadEnumViewFromTextStream,
        ReadArrayFromTextStream
     TextOutputOptions (allow_partial_output is not modelled: it is false by default and
        the property is about Ok views)

   A view is abstract: a tree of values.  A structure is the list of its fields IN THE ORDER OF
   fields_in_dependency_order (taken from the real front end by the harness), each with its name,
   has_x().ValueOr(false), its text_output attribute, read-only?, anonymous?, and its value.
   Float fields are not modelled (libc printf / sscanf). *)
From Coq Require Import ZArith List Bool.
Import ListNotations.
Require Import EmbossV.Text.IntCodec.
Open Scope Z_scope.

(* ------------------------------------------------------------------ *)
(* options                                                              *)
(* ------------------------------------------------------------------ *)
Record opts := mk_opts {
  o_indent : list Z;        (* indent_ *)
  o_cur : list Z;           (* current_indent_ *)
  o_comments : bool;
  o_multiline : bool;
  o_grouping : bool;        (* digit_grouping_ *)
  o_base : Z                (* numeric_base_ *)
}.

Definition plus_one_indent (o : opts) : opts :=
  mk_opts (o_indent o) (o_cur o ++ o_indent o) (o_comments o) (o_multiline o) (o_grouping o) (o_base o).

(* ------------------------------------------------------------------ *)
(* what the generator emits for a field                                 *)
(* ------------------------------------------------------------------ *)
Inductive attr := ANone | ASkip | AEmit.   (* no text_output attribute / "Skip" / "Emit" *)

(* The test in header_generator.py
       if not text_output_attr or text_output_attr.string_constant.text == "Emit":
   as a table; the harness regenerates it from the working tree on every run
   (probe module, one field per attribute value) and checks it against gt_std. *)
Record gentab := mk_gentab { g_none : bool; g_skip : bool; g_emit : bool }.
Definition gen_emits (g : gentab) (a : attr) : bool :=
  match a with ANone => g_none g | ASkip => g_skip g | AEmit => g_emit g end.
Definition gt_std : gentab := mk_gentab true false true.
(* the generator before the fix of finding F2 (String object compared with "Emit") *)
Definition gt_f2 : gentab := mk_gentab true false false.
Definition gentab_ok (g : gentab) : bool := g_none g && negb (g_skip g) && g_emit g.

Record finfo := mk_finfo {
  f_name : list Z;
  f_present : bool;     (* has_x().ValueOr(false) *)
  f_attr : attr;
  f_ro : bool;          (* ir_util.field_is_read_only *)
  f_anon : bool         (* field.name.is_anonymous *)
}.

(* ------------------------------------------------------------------ *)
(* values                                                               *)
(* ------------------------------------------------------------------ *)
Inductive tval :=
| VInt (t : ity) (x : Z)                               (* UInt / Int / Bcd / integer virtual: ValueType t *)
| VBool (b : bool)                                     (* Flag / boolean virtual *)
| VEnum (t : ity) (names : list (list Z * Z)) (x : Z)  (* underlying type, (name, value) in declaration order *)
| VStruct (fs : list (finfo * tval))
| VArray (ascii : bool) (elems : list tval).           (* ascii: elements are 8-bit UInt/Int *)

(* string constants *)
Definition s_true : list Z := [116; 114; 117; 101].
Definition s_false : list Z := [102; 97; 108; 115; 101].
Definition s_cmt : list Z := [32; 32; 35; 32].          (* "  # " *)
Definition s_colon_sp : list Z := [58; 32].             (* ": " *)
Definition s_hash_sp : list Z := [35; 32].              (* "# " *)
Definition s_lf : list Z := [10].
Definition s_idx_close : list Z := [93; 58; 32].        (* "]: " *)

Definition u64 : ity := mk_ity false W64.
Definition i64 : ity := mk_ity true W64.

(* the text WriteIntegerToTextStream produces; [] outside its domain (excluded by wf) *)
Definition enc (t : ity) (x base : Z) (grp : bool) : list Z :=
  match encode_int t x base grp with Ok s => s | _ => [] end.

(* WriteIntegerViewToTextStream *)
Definition write_int (o : opts) (t : ity) (x : Z) : list Z :=
  enc t x (o_base o) (o_grouping o) ++
  (if o_comments o then s_cmt ++ enc t x (if o_base o =? 10 then 16 else 10) (o_grouping o) else []).

(* TryToGetNameFromEnum: the first name declared with that value *)
Fixpoint enum_name (names : list (list Z * Z)) (x : Z) : option (list Z) :=
  match names with
  | [] => None
  | (n, v) :: r => if v =? x then Some n else enum_name r x
  end.

(* WriteEnumViewToTextStream *)
Definition write_enum (o : opts) (t : ity) (names : list (list Z * Z)) (x : Z) : list Z :=
  match enum_name names x with
  | Some n => n ++ (if o_comments o then s_cmt ++ enc t x (o_base o) (o_grouping o) else [])
  | None => enc t x (o_base o) (o_grouping o)
  end.

Definition int_of (v : tval) : Z := match v with VInt _ x => x | _ => 0 end.

(* WriteShorthandAsciiArrayCommentToTextStream (o = element options) *)
Fixpoint ascii_comment (o : opts) (elems : list tval) (i : Z) : list Z :=
  match elems with
  | [] => []
  | e :: r =>
      let c := int_of e in
      (if i mod 64 =? 0 then s_lf ++ o_cur o ++ s_hash_sp else []) ++
      [if (32 <=? c) && (c <=? 126) then c else 46] ++
      ascii_comment o r (i + 1)
  end.

Definition index_text (o : opts) (i : Z) : list Z := enc u64 i (o_base o) (o_grouping o).

Fixpoint write_val (g : gentab) (o : opts) (v : tval) {struct v} : list Z :=
  match v with
  | VInt t x => write_int o t x
  | VBool b => if b then s_true else s_false
  | VEnum t names x => write_enum o t names x
  | VStruct fs =>
      let fo := plus_one_indent o in
      (if o_multiline o then [ch_lbrace; ch_lf] else [ch_lbrace]) ++
      (fix wfields (l : list (finfo * tval)) (wrote : bool) {struct l} : list Z :=
         match l with
         | [] => []
         | (fi, fv) :: r =>
             if negb (gen_emits g (f_attr fi)) then wfields r wrote
             else if f_ro fi then
               (* write_read_only_field_to_text_stream *)
               (if f_present fi && o_comments fo then
                  o_cur fo ++ s_hash_sp ++ f_name fi ++ s_colon_sp ++ write_val g fo fv ++ s_lf
                else []) ++ wfields r wrote
             else if f_present fi then
               (* write_field_to_text_stream *)
               (if o_multiline fo then o_cur fo
                else (if wrote then [ch_comma] else []) ++ [ch_space]) ++
               f_name fi ++ s_colon_sp ++ write_val g fo fv ++
               (if o_multiline fo then s_lf else []) ++ wfields r true
             else wfields r wrote
         end) fs false ++
      (if o_multiline o then o_cur o ++ [ch_rbrace] else [ch_space; ch_rbrace])
  | VArray ascii elems =>
      let eo := plus_one_indent o in
      let n := Z.of_nat (length elems) in
      if o_multiline o then
        [ch_lbrace] ++
        (if ascii && o_multiline eo && o_comments eo then ascii_comment eo elems 0 else []) ++
        (fix welems (l : list tval) (i : Z) {struct l} : list Z :=
           match l with
           | [] => []
           | e :: r => s_lf ++ o_cur eo ++ [ch_lbrack] ++ index_text o i ++ s_idx_close ++
                       write_val g eo e ++ welems r (i + 1)
           end) elems 0 ++
        s_lf ++ o_cur o ++ [ch_rbrace]
      else
        [ch_lbrace] ++
        (fix welems (l : list tval) (i : Z) {struct l} : list Z :=
           match l with
           | [] => []
           | e :: r => [ch_space] ++
                       (if i mod 8 =? 0 then [ch_lbrack] ++ index_text o i ++ s_idx_close else []) ++
                       write_val g eo e ++
                       (if i <? n - 1 then [ch_comma] else []) ++ welems r (i + 1)
           end) elems 0 ++
        [ch_space; ch_rbrace]
  end.

(* ::emboss::WriteToString(view, options) *)
Definition write_to_string (g : gentab) (o : opts) (v : tval) : list Z := write_val g o v.

(* ------------------------------------------------------------------ *)
(* UpdateFromTextStream                                                 *)
(* ------------------------------------------------------------------ *)

(* what UpdateFromTextStream needs to know about a view: its shape *)
Inductive sch :=
| SInt (t : ity)
| SBool
| SEnum (t : ity) (names : list (list Z * Z))
| SStruct (fs : list (list Z * bool * sch))      (* name, has a decode_field clause?, shape *)
| SArray (count : Z) (e : sch).                  (* ElementCount() *)

(* a decode_field clause exists for: not anonymous and not read-only (whatever text_output says) *)
Definition decodable (fi : finfo) : bool := negb (f_anon fi) && negb (f_ro fi).

Fixpoint schema_of (v : tval) : sch :=
  match v with
  | VInt t _ => SInt t
  | VBool _ => SBool
  | VEnum t names _ => SEnum t names
  | VStruct fs => SStruct (map (fun p => (f_name (fst p), decodable (fst p), schema_of (snd p))) fs)
  | VArray _ elems => SArray (Z.of_nat (length elems))
                        (match elems with e :: _ => schema_of e | [] => SBool end)
  end.

(* the value handed to TryToWrite *)
Inductive wv := WInt (t : ity) (x : Z) | WBool (b : bool) | WEnum (t : ity) (x : Z).
Inductive pelem := PField (name : list Z) | PIndex (i : Z).
Definition event := (list pelem * wv)%type.

Fixpoint list_eqb (a b : list Z) : bool :=
  match a, b with
  | [], [] => true
  | x :: a', y :: b' => (x =? y) && list_eqb a' b'
  | _, _ => false
  end.

(* TryToGetEnumFromName: strcmp chain in declaration order *)
Fixpoint enum_value (names : list (list Z * Z)) (n : list Z) : option Z :=
  match names with
  | [] => None
  | (m, v) :: r => if list_eqb m n then Some v else enum_value r n
  end.

(* static_cast<ValueType>(value): conversion to the (fixed) underlying type is modular *)
Definition wrap (t : ity) (x : Z) : Z :=
  let m := 2 ^ wbits (ity_width t) in
  let r := x mod m in
  if ity_signed t && (r >? ty_max t) then r - m else r.

Inductive ures (W : Type) :=
| UOk (s : stream) (w : W)     (* returned true *)
| UFail (w : W)                 (* returned false; the store as left behind *)
| UBad                          (* a decode step reported UB / fuel (never: decode_total) *)
| UFuel.                        (* model artefact: loop fuel exhausted *)
Arguments UOk {W} s w.
Arguments UFail {W} w.
Arguments UBad {W}.
Arguments UFuel {W}.

Inductive hres := HOk (s : stream) (i : Z) | HFail | HBad.

Section Update.
  Variable W : Type.
  (* view.TryToWrite(value) at the given path; None = returned false *)
  Variable try_write : list pelem -> wv -> W -> option W.

  Definition do_write (path : list pelem) (x : wv) (s : stream) (w : W) : ures W :=
    match try_write path x w with Some w' => UOk s w' | None => UFail w end.

  Definition is_digit (c : Z) : bool := (48 <=? c) && (c <=? 57).

  (* ReadIntegerFromTextStream / ReadBooleanFromTextStream / ReadEnumViewFromTextStream *)
  Definition update_leaf (sc : sch) (path : list pelem) (s : stream) (w : W) : ures W :=
    match read_token s with
    | None => UFail w
    | Some (tok, s1) =>
        match sc with
        | SInt t =>
            match tok with
            | [] => UFail w
            | _ => match decode_int t tok with
                   | Ok x => do_write path (WInt t x) s1 w
                   | Reject => UFail w
                   | _ => UBad
                   end
            end
        | SBool =>
            if list_eqb tok s_true then do_write path (WBool true) s1 w
            else if list_eqb tok s_false then do_write path (WBool false) s1 w
            else UFail w
        | SEnum t names =>
            match tok with
            | [] => UFail w
            | c :: _ =>
                if is_digit c then
                  match decode_int u64 tok with
                  | Ok x => do_write path (WEnum t (wrap t x)) s1 w
                  | Reject => UFail w
                  | _ => UBad
                  end
                else if c =? ch_minus then
                  match decode_int i64 tok with
                  | Ok x => do_write path (WEnum t (wrap t x)) s1 w
                  | Reject => UFail w
                  | _ => UBad
                  end
                else
                  match enum_value names tok with
                  | Some x => do_write path (WEnum t x) s1 w
                  | None => UFail w
                  end
            end
        | _ => UFail w
        end
    end.

  Fixpoint find_field (fs : list (list Z * bool * sch)) (name : list Z) : option sch :=
    match fs with
    | [] => None
    | (n, dec, sc) :: r => if dec && list_eqb n name then Some sc else find_field r name
    end.

  Fixpoint update (fuel : nat) (sc : sch) (path : list pelem) (s : stream) (w : W) {struct fuel} : ures W :=
    match fuel with
    | O => UFuel
    | S f =>
        match sc with
        | SStruct fs =>
            match read_token s with
            | None => UFail w
            | Some (brace, s1) =>
                if list_eqb brace [ch_lbrace] then struct_loop f fs path s1 w else UFail w
            end
        | SArray n e =>
            match read_token s with
            | None => UFail w
            | Some (brace, s1) =>
                if list_eqb brace [ch_lbrace] then array_loop f n e path 0 s1 w else UFail w
            end
        | _ => update_leaf sc path s w
        end
    end
  (* for (;;) { name; optional ","; "}" -> true; ":"; decode_fields; return false; } *)
  with struct_loop (fuel : nat) (fs : list (list Z * bool * sch)) (path : list pelem) (s : stream) (w : W)
         {struct fuel} : ures W :=
    match fuel with
    | O => UFuel
    | S f =>
        match read_token s with
        | None => UFail w
        | Some (name0, s1) =>
            match (if list_eqb name0 [ch_comma] then read_token s1 else Some (name0, s1)) with
            | None => UFail w
            | Some (name, s2) =>
                if list_eqb name [ch_rbrace] then UOk s2 w
                else
                  match read_token s2 with
                  | None => UFail w
                  | Some (colon, s3) =>
                      if negb (list_eqb colon [ch_colon]) then UFail w
                      else
                        match find_field fs name with
                        | None => UFail w
                        | Some fsc =>
                            match update f fsc (path ++ [PField name]) s3 w with
                            | UOk s4 w4 => struct_loop f fs path s4 w4
                            | e => e
                            end
                        end
                  end
            end
        end
    end
  (* ReadArrayFromTextStream *)
  with array_loop (fuel : nat) (n : Z) (e : sch) (path : list pelem) (index : Z) (s : stream) (w : W)
         {struct fuel} : ures W :=
    match fuel with
    | O => UFuel
    | S f =>
        match discard_whitespace s with
        | None => UFail w
        | Some s1 =>
            match st_read s1 with
            | None => UFail w
            | Some (c, s2) =>
                if c =? ch_rbrace then UOk s2 w
                else
                  (* optional "[index]:" *)
                  let hdr : hres :=
                    if c =? ch_lbrack then
                      match read_token s2 with
                      | None => HFail
                      | Some (itext, s3) =>
                          match decode_int u64 itext with
                          | Ok i =>
                              match read_token s3 with
                              | None => HFail
                              | Some (rb, s4) =>
                                  if negb (list_eqb rb [ch_rbrack]) then HFail
                                  else match read_token s4 with
                                       | None => HFail
                                       | Some (colon, s5) =>
                                           if negb (list_eqb colon [ch_colon]) then HFail else HOk s5 i
                                       end
                              end
                          | Reject => HFail
                          | _ => HBad
                          end
                      end
                    else match st_unread c s2 with Some s3 => HOk s3 index | None => HFail end in
                  match hdr with
                  | HOk s6 i =>
                      if i >=? n then UFail w
                      else
                        match update f e (path ++ [PIndex i]) s6 w with
                        | UOk s7 w7 =>
                            match discard_whitespace s7 with
                            | None => UFail w7
                            | Some s8 =>
                                match st_read s8 with
                                | None => UFail w7
                                | Some (c2, s9) =>
                                    (* if (c != ',') { if (!stream->Unread(c)) return false; } *)
                                    if c2 =? ch_comma then array_loop f n e path (i + 1) s9 w7
                                    else match st_unread c2 s9 with
                                         | Some s10 => array_loop f n e path (i + 1) s10 w7
                                         | None => UFail w7
                                         end
                                end
                            end
                        | e7 => e7
                        end
                  | HFail => UFail w
                  | HBad => UBad
                  end
            end
        end
    end.

  (* ::emboss::UpdateFromText(view, text) *)
  Definition update_from_text (fuel : nat) (sc : sch) (text : list Z) (w : W) : ures W :=
    update fuel sc [] (st_of text) w.
End Update.

(* ------------------------------------------------------------------ *)
(* which fields WriteToTextStream emits, and the TryToWrite calls the   *)
(* text stands for                                                      *)
(* ------------------------------------------------------------------ *)

(* the field produces text *)
Definition emits (g : gentab) (fo : opts) (fi : finfo) : bool :=
  gen_emits g (f_attr fi) && f_present fi && (negb (f_ro fi) || o_comments fo).

(* ... as a name: value pair (not as a comment) *)
Definition emits_value (g : gentab) (fi : finfo) : bool :=
  gen_emits g (f_attr fi) && f_present fi && negb (f_ro fi).

Definition leaf_event (path : list pelem) (v : tval) : list event :=
  match v with
  | VInt t x => [(path, WInt t x)]
  | VBool b => [(path, WBool b)]
  | VEnum t _ x => [(path, WEnum t x)]
  | _ => []
  end.

Fixpoint events_of (g : gentab) (path : list pelem) (v : tval) {struct v} : list event :=
  match v with
  | VStruct fs =>
      (fix ev (l : list (finfo * tval)) : list event :=
         match l with
         | [] => []
         | (fi, fv) :: r =>
             (if emits_value g fi then events_of g (path ++ [PField (f_name fi)]) fv else []) ++ ev r
         end) fs
  | VArray _ elems =>
      (fix ev (l : list tval) (i : Z) : list event :=
         match l with
         | [] => []
         | e :: r => events_of g (path ++ [PIndex i]) e ++ ev r (i + 1)
         end) elems 0
  | _ => leaf_event path v
  end.

Section Apply.
  Variable W : Type.
  Variable try_write : list pelem -> wv -> W -> option W.
  Fixpoint apply_events (evs : list event) (w : W) : option W :=
    match evs with
    | [] => Some w
    | (p, x) :: r => match try_write p x w with Some w' => apply_events r w' | None => None end
    end.
End Apply.
