(* C06 -- model of the integer text codec and the tokenizer of
   runtime/cpp/emboss_text_util.h.  DEFINITIONS ONLY (proofs: ProofsInt.v, ProofsToken.v).

   Mirrors, line by line:
     DecodeInteger<IntType>            -> decode_int
     WriteIntegerToTextStream<_, T>    -> encode_int
     TextStream::Read / Unread         -> st_read / st_unread
     DiscardWhitespace                 -> discard_whitespace
     ReadToken                         -> read_token

   C++ arithmetic is written out: every arithmetic operation is evaluated in the
   type it has in C++ after the integer promotions (8/16-bit operands are
   promoted to `int`), and a result that does not fit that type is the distinct
   result [UB] -- never a silent wrap; unsigned wrap-around is treated in the same way
   (the code is meant never to rely on it).  Assignments back to IntType
   (`accumulator = ...`, `value = ...`, `value /= base`) are checked against
   IntType.  ProofsInt.v proves [UB] unreachable.

   Characters are their codes (Z); a text is a [list Z].  The index `unsigned
   offset` of DecodeInteger is an unbounded integer here (texts of 2^32 or more
   characters are outside the model; recorded as an assumption of the check). *)
From Coq Require Import ZArith List Bool.
Import ListNotations.
Open Scope Z_scope.

(* ------------------------------------------------------------------ *)
(* results                                                              *)
(* ------------------------------------------------------------------ *)
Inductive res (A : Type) : Type :=
| Ok (a : A)      (* the C++ function returned true / produced a *)
| Reject          (* the C++ function returned false *)
| UB              (* a C++ arithmetic step left the range of its type *)
| OutOfFuel.      (* model artefact: loop fuel exhausted (proved unreachable) *)
Arguments Ok {A} a.
Arguments Reject {A}.
Arguments UB {A}.
Arguments OutOfFuel {A}.

Definition bind {A B} (r : res A) (f : A -> res B) : res B :=
  match r with
  | Ok a => f a
  | Reject => Reject
  | UB => UB
  | OutOfFuel => OutOfFuel
  end.
Notation "x <- e ;; k" := (bind e (fun x => k)) (at level 61, e at next level, right associativity).

(* ------------------------------------------------------------------ *)
(* the eight C++ integer types                                          *)
(* ------------------------------------------------------------------ *)
Inductive width := W8 | W16 | W32 | W64.
Record ity := mk_ity { ity_signed : bool; ity_width : width }.

Definition wbits (w : width) : Z :=
  match w with W8 => 8 | W16 => 16 | W32 => 32 | W64 => 64 end.

Definition ty_min (t : ity) : Z :=
  if ity_signed t then - 2 ^ (wbits (ity_width t) - 1) else 0.
Definition ty_max (t : ity) : Z :=
  if ity_signed t then 2 ^ (wbits (ity_width t) - 1) - 1 else 2 ^ wbits (ity_width t) - 1.
Definition fits (t : ity) (z : Z) : bool := (ty_min t <=? z) && (z <=? ty_max t).

(* the type in which `a op b` is evaluated when both operands have type t
   (or a narrower type / a small non-negative int constant): integer promotion *)
Definition promote (t : ity) : ity :=
  match ity_width t with
  | W8 | W16 => mk_ity true W32
  | _ => t
  end.

Definition c_int : ity := mk_ity true W32.

(* a checked arithmetic result *)
Definition chk (t : ity) (z : Z) : res Z := if fits t z then Ok z else UB.

(* ------------------------------------------------------------------ *)
(* character codes                                                      *)
(* ------------------------------------------------------------------ *)
Definition ch_tab := 9.   Definition ch_lf := 10.  Definition ch_cr := 13.
Definition ch_space := 32. Definition ch_hash := 35. Definition ch_comma := 44.
Definition ch_minus := 45. Definition ch_0 := 48.   Definition ch_colon := 58.
Definition ch_B := 66.     Definition ch_X := 88.   Definition ch_lbrack := 91.
Definition ch_rbrack := 93. Definition ch_us := 95. Definition ch_b := 98.
Definition ch_x := 120.    Definition ch_lbrace := 123. Definition ch_rbrace := 125.

(* ------------------------------------------------------------------ *)
(* DecodeInteger                                                        *)
(* ------------------------------------------------------------------ *)

(*  if (c >= '0' && c <= '9') digit = c - '0';
    else if (c >= 'A' && c <= 'F') digit = c - 'A' + 10;
    else if (c >= 'a' && c <= 'f') digit = c - 'a' + 10;
    else return false;                                                  *)
Definition digit_of (c : Z) : option Z :=
  if (48 <=? c) && (c <=? 57) then Some (c - 48)
  else if (65 <=? c) && (c <=? 70) then Some (c - 65 + 10)
  else if (97 <=? c) && (c <=? 102) then Some (c - 97 + 10)
  else None.

(*  if (negative) {
      if (accumulator < (numeric_limits<IntType>::min() + digit) / base) return false;
      accumulator = accumulator * base - digit;
    } else {
      if (accumulator > (numeric_limits<IntType>::max() - digit) / base) return false;
      accumulator = accumulator * base + digit;
    }
   C++ `/` truncates towards zero: Z.quot.                              *)
Definition dec_step (t : ity) (negative : bool) (base acc digit : Z) : res Z :=
  let pt := promote t in
  if negative then
    l <- chk pt (ty_min t + digit) ;;
    q <- chk pt (Z.quot l base) ;;
    if acc <? q then Reject else
    m <- chk pt (acc * base) ;;
    r <- chk pt (m - digit) ;;
    chk t r
  else
    l <- chk pt (ty_max t - digit) ;;
    q <- chk pt (Z.quot l base) ;;
    if acc >? q then Reject else
    m <- chk pt (acc * base) ;;
    r <- chk pt (m + digit) ;;
    chk t r.

(* the for loop; [off] is the index of the head of [s] in the whole text *)
Fixpoint dec_loop (t : ity) (negative : bool) (base off acc : Z) (s : list Z) : res Z :=
  match s with
  | [] => Ok acc
  | c :: s' =>
      if c =? ch_us then
        if off =? 0 then Reject else dec_loop t negative base (off + 1) acc s'
      else
        match digit_of c with
        | None => Reject
        | Some d =>
            if d >=? base then Reject
            else acc' <- dec_step t negative base acc d ;;
                 dec_loop t negative base (off + 1) acc' s'
        end
  end.

(* sign: only for signed IntType *)
Definition strip_sign (sg : bool) (text : list Z) : bool * Z * list Z :=
  match text with
  | c :: r => if sg && (c =? ch_minus) then (true, 1, r) else (false, 0, text)
  | [] => (false, 0, text)
  end.

(* if (text.size() >= 2 + offset && text[offset] == '0') { x/X -> 16, b/B -> 2 } *)
Definition strip_prefix (off : Z) (s : list Z) : Z * Z * list Z :=
  match s with
  | c0 :: c1 :: r =>
      if c0 =? ch_0 then
        if (c1 =? ch_x) || (c1 =? ch_X) then (16, off + 2, r)
        else if (c1 =? ch_b) || (c1 =? ch_B) then (2, off + 2, r)
        else (10, off, s)
      else (10, off, s)
  | _ => (10, off, s)
  end.

Definition decode_int (t : ity) (text : list Z) : res Z :=
  let '(negative, off, s1) := strip_sign (ity_signed t) text in
  let '(base, off2, s2) := strip_prefix off s1 in
  match s2 with
  | [] => Reject                      (* if (offset == text.size()) return false; *)
  | _ => dec_loop t negative base off2 0 s2
  end.

(* ------------------------------------------------------------------ *)
(* WriteIntegerToTextStream                                             *)
(* ------------------------------------------------------------------ *)

(* digits[d] for "0123456789abcdef" *)
Definition digit_char (d : Z) : Z := if d <? 10 then 48 + d else 97 + (d - 10).

(* const int grouping = base == 10 ? 3 : base == 16 ? 4 : 8; *)
Definition grouping_of (base : Z) : Z := if base =? 10 then 3 else if base =? 16 then 4 else 8.

(* const int buffer_size = (sizeof value) * CHAR_BIT * 9 / 8 + 3; *)
Definition buffer_size (t : ity) : Z := wbits (ity_width t) * 9 / 8 + 3.

Definition enc_fuel : nat := 65.

(*  while (value > 0) {
      if (digit_count && digit_count % grouping == 0 && digit_grouping) buffer_char('_');
      buffer_char(digits[value % base]);
      value /= base;
      ++digit_count;
    }
   The buffer is filled from its end: buffer_char conses at the front.  *)
Fixpoint enc_loop (fuel : nat) (t : ity) (base : Z) (grp : bool) (value dc : Z) (buf : list Z)
  : res (list Z) :=
  match fuel with
  | O => OutOfFuel
  | S f =>
      if value >? 0 then
        r <- chk c_int (Z.rem dc (grouping_of base)) ;;
        let buf1 := if negb (dc =? 0) && (r =? 0) && grp then ch_us :: buf else buf in
        d <- chk (promote t) (Z.rem value base) ;;
        q <- chk (promote t) (Z.quot value base) ;;
        v' <- chk t q ;;
        dc' <- chk c_int (dc + 1) ;;
        enc_loop f t base grp v' dc' (digit_char d :: buf1)
      else Ok buf
  end.

(*  if (base == 16) { buffer_char('x'); buffer_char('0'); }
    else if (base == 2) { buffer_char('b'); buffer_char('0'); }
    if (sign < 0) buffer_char('-');                                      *)
Definition enc_finish (base : Z) (neg : bool) (buf : list Z) : list Z :=
  let b1 := if base =? 16 then ch_0 :: ch_x :: buf
            else if base =? 2 then ch_0 :: ch_b :: buf else buf in
  if neg then ch_minus :: b1 else b1.

Definition base_ok (base : Z) : bool := (base =? 2) || (base =? 10) || (base =? 16).

Definition encode_int (t : ity) (value base : Z) (grp : bool) : res (list Z) :=
  if negb (base_ok base) then Reject            (* EMBOSS_CHECK(base == 10 || base == 2 || base == 16) *)
  else if negb (fits t value) then Reject       (* not a value of IntegralType: outside the model *)
  else
    let pt := promote t in
    let buf0 := if value =? 0 then [ch_0] else [] in
    if value <? 0 then
      if value =? ty_min t then
        (* auto digit = -(value + 1) % base + 1;  value = -(value + 1) / base;
           if (digit == base) { digit = 0; ++value; }                      *)
        a <- chk pt (value + 1) ;;
        n <- chk pt (- a) ;;
        r <- chk pt (Z.rem n base) ;;
        digit <- chk pt (r + 1) ;;
        q <- chk pt (Z.quot n base) ;;
        v1 <- chk t q ;;
        dv <- (if digit =? base then (v2 <- chk t (v1 + 1) ;; Ok (0, v2)) else Ok (digit, v1)) ;;
        b <- enc_loop enc_fuel t base grp (snd dv) 1 (digit_char (fst dv) :: buf0) ;;
        Ok (enc_finish base true b)
      else
        n <- chk pt (- value) ;;
        v1 <- chk t n ;;
        b <- enc_loop enc_fuel t base grp v1 0 buf0 ;;
        Ok (enc_finish base true b)
    else
      b <- enc_loop enc_fuel t base grp value 0 buf0 ;;
      Ok (enc_finish base false b).

(* ------------------------------------------------------------------ *)
(* specification level: the text of a number and the value of a numeral *)
(* (unbounded integers, no C++ types)                                   *)
(* ------------------------------------------------------------------ *)

Fixpoint digs (fuel : nat) (base : Z) (grp : bool) (value dc : Z) (buf : list Z) : list Z :=
  match fuel with
  | O => buf
  | S f =>
      if value >? 0 then
        let buf1 := if negb (dc =? 0) && (dc mod grouping_of base =? 0) && grp then ch_us :: buf else buf in
        digs f base grp (value / base) (dc + 1) (digit_char (value mod base) :: buf1)
      else buf
  end.

Definition numeral_text (base : Z) (grp : bool) (x : Z) : list Z :=
  enc_finish base (x <? 0)
    (if x =? 0 then [ch_0] else digs enc_fuel base grp (Z.abs x) 0 []).

(* unbounded accumulation of digits; None = not a digit string of this base *)
Fixpoint digits_val (base off acc : Z) (s : list Z) : option Z :=
  match s with
  | [] => Some acc
  | c :: s' =>
      if c =? ch_us then
        if off =? 0 then None else digits_val base (off + 1) acc s'
      else
        match digit_of c with
        | None => None
        | Some d => if d >=? base then None else digits_val base (off + 1) (acc * base + d) s'
        end
  end.

(* the mathematical value of an Emboss numeral, [sg] = a leading '-' is allowed *)
Definition numeral_value (sg : bool) (text : list Z) : option Z :=
  let '(negative, off, s1) := strip_sign sg text in
  let '(base, off2, s2) := strip_prefix off s1 in
  match s2 with
  | [] => None
  | _ => match digits_val base off2 0 s2 with
         | None => None
         | Some v => Some (if negative then - v else v)
         end
  end.

(* ------------------------------------------------------------------ *)
(* TextStream, DiscardWhitespace, ReadToken                             *)
(* ------------------------------------------------------------------ *)

(* a stream is a zipper: characters already read (most recent first) and the rest;
   index_ = length of the first component *)
Definition stream := (list Z * list Z)%type.

Definition st_of (text : list Z) : stream := ([], text).
Definition st_text (s : stream) : list Z := rev (fst s) ++ snd s.

Definition st_read (s : stream) : option (Z * stream) :=
  match snd s with
  | [] => None
  | c :: r => Some (c, (c :: fst s, r))
  end.

(* if (index_ < 1) return false; if (text_[index_ - 1] != c) return false; --index_; *)
Definition st_unread (c : Z) (s : stream) : option stream :=
  match fst s with
  | [] => None
  | c' :: b => if c' =? c then Some (b, c' :: snd s) else None
  end.

Definition is_space (c : Z) : bool :=
  (c =? ch_space) || (c =? ch_tab) || (c =? ch_lf) || (c =? ch_cr).

(* strchr(":{}[],", c) != nullptr  -- note: strchr also finds the terminating NUL *)
Definition is_punct (c : Z) : bool :=
  (c =? ch_colon) || (c =? ch_lbrace) || (c =? ch_rbrace) || (c =? ch_lbrack) || (c =? ch_rbrack)
  || (c =? ch_comma) || (c =? 0).

(*  do {
      if (!stream->Read(&c)) return true;
      if (c == '#') in_comment = true;
      if (c == '\r' || c == '\n') in_comment = false;
    } while (in_comment || c == ' ' || c == '\t' || c == '\n' || c == '\r');
    return stream->Unread(c);                                            *)
Fixpoint dw_loop (in_comment : bool) (before after : list Z) : option stream :=
  match after with
  | [] => Some (before, [])
  | c :: r =>
      let ic1 := if c =? ch_hash then true else in_comment in
      let ic2 := if (c =? ch_cr) || (c =? ch_lf) then false else ic1 in
      if ic2 || is_space c then dw_loop ic2 (c :: before) r
      else st_unread c (c :: before, r)
  end.

(* None = the function returned false *)
Definition discard_whitespace (s : stream) : option stream := dw_loop false (fst s) (snd s).

(*  do { result.push_back(c); if (!stream->Read(&c)) { *token = result; return true; } }
    while (c != ' ' && c != '\t' && c != '\n' && c != '\r' && c != '#' && strchr(punctuation, c) == nullptr);
    if (!stream->Unread(c)) return false;                                *)
Definition is_delim (c : Z) : bool := is_space c || (c =? ch_hash) || is_punct c.

Fixpoint tok_loop (acc_rev : list Z) (before after : list Z) : option (list Z * stream) :=
  match after with
  | [] => Some (rev acc_rev, (before, []))
  | c :: r =>
      if is_delim c then
        match st_unread c (c :: before, r) with
        | Some s => Some (rev acc_rev, s)
        | None => None
        end
      else tok_loop (c :: acc_rev) (c :: before) r
  end.

Definition read_token (s : stream) : option (list Z * stream) :=
  match discard_whitespace s with
  | None => None
  | Some s1 =>
      match st_read s1 with
      | None => Some ([], s1)
      | Some (c, s2) =>
          if is_punct c then Some ([c], s2)
          else tok_loop [c] (fst s2) (snd s2)
      end
  end.
