(* C07 — proofs about literals, static_asserts and declared identifiers. *)
From Coq Require Import ZArith NArith List Bool String Ascii Lia.
Import ListNotations.
Require Import EmbossV.Enum.Model EmbossV.Enum.Proofs EmbossV.Enum.Proofs2 EmbossV.Names.Cpp.
Open Scope Z_scope.

(* ------------------------------------------------------------------------- *)
(* 1. literals                                                                 *)
(* ------------------------------------------------------------------------- *)

Ltac pows :=
  change (2 ^ 31) with 2147483648 in *; change (2 ^ 32) with 4294967296 in *;
  change (2 ^ 63) with 9223372036854775808 in *; change (2 ^ 64) with 18446744073709551616 in *.

Lemma wrap_id : forall t v, 1 <= ct_bits t -> in_range (ctype_range t) v = true -> wrap t v = v.
Proof.
  intros [s w] v Hw Hv. cbn [ct_bits] in Hw. apply in_range_iff in Hv.
  unfold ctype_range, range_of in Hv. cbn [ct_signed ct_bits] in Hv.
  assert (0 < 2 ^ (w - 1)) by (apply pow2_pos; lia).
  assert (2 ^ w = 2 * 2 ^ (w - 1)) as Hp.
  { replace w with (1 + (w - 1)) at 1 by lia. rewrite Z.pow_add_r by lia. reflexivity. }
  unfold wrap. cbn [ct_signed ct_bits]. destruct s; cbn [fst snd] in Hv.
  - destruct (Z.lt_ge_cases v 0) as [Hneg|Hpos].
    + assert (v mod 2 ^ w = v + 2 ^ w) as -> by (symmetry; apply (Z.mod_unique_pos v (2 ^ w) (-1)); lia).
      assert (v + 2 ^ w <? 2 ^ (w - 1) = false) as -> by (apply Z.ltb_ge; lia). lia.
    + rewrite (Z.mod_small v) by lia.
      assert (v <? 2 ^ (w - 1) = true) as -> by (apply Z.ltb_lt; lia). reflexivity.
  - apply Z.mod_small. lia.
Qed.

Lemma integer_type_range : forall v t,
  integer_type_for_range v v = Some t -> in_range (ctype_range (itype_ctype t)) v = true.
Proof.
  intros v t H. unfold integer_type_for_range in H.
  destruct ((- 2 ^ 31 <=? v) && (v <=? 2 ^ 31 - 1)) eqn:E1; [inversion H; subst; exact E1|].
  destruct ((0 <=? v) && (v <=? 2 ^ 32 - 1)) eqn:E2; [inversion H; subst; exact E2|].
  destruct ((- 2 ^ 63 <=? v) && (v <=? 2 ^ 63 - 1)) eqn:E3; [inversion H; subst; exact E3|].
  destruct ((0 <=? v) && (v <=? 2 ^ 64 - 1)) eqn:E4; [inversion H; subst; exact E4|discriminate].
Qed.

Lemma integer_type_total : forall v, - 2 ^ 63 <= v <= 2 ^ 64 - 1 -> exists t, integer_type_for_range v v = Some t.
Proof.
  intros v Hv. unfold integer_type_for_range.
  destruct ((- 2 ^ 31 <=? v) && (v <=? 2 ^ 31 - 1)); [eauto|].
  destruct ((0 <=? v) && (v <=? 2 ^ 32 - 1)); [eauto|].
  destruct ((- 2 ^ 63 <=? v) && (v <=? 2 ^ 63 - 1)) eqn:E3; [eauto|].
  destruct ((0 <=? v) && (v <=? 2 ^ 64 - 1)) eqn:E4; [eauto|].
  exfalso. apply andb_false_iff in E3, E4. rewrite !Z.leb_gt in E3, E4. lia.
Qed.

Lemma integer_type_none : forall v, v < - 2 ^ 63 \/ 2 ^ 64 - 1 < v -> integer_type_for_range v v = None.
Proof.
  intros v Hv. unfold integer_type_for_range.
  destruct ((- 2 ^ 31 <=? v) && (v <=? 2 ^ 31 - 1)) eqn:E1;
    [exfalso; apply andb_true_iff in E1; rewrite !Z.leb_le in E1; pows; lia|].
  destruct ((0 <=? v) && (v <=? 2 ^ 32 - 1)) eqn:E2;
    [exfalso; apply andb_true_iff in E2; rewrite !Z.leb_le in E2; pows; lia|].
  destruct ((- 2 ^ 63 <=? v) && (v <=? 2 ^ 63 - 1)) eqn:E3;
    [exfalso; apply andb_true_iff in E3; rewrite !Z.leb_le in E3; pows; lia|].
  destruct ((0 <=? v) && (v <=? 2 ^ 64 - 1)) eqn:E4;
    [exfalso; apply andb_true_iff in E4; rewrite !Z.leb_le in E4; pows; lia|].
  reflexivity.
Qed.

Lemma itype_bits_pos : forall t, 1 <= ct_bits (itype_ctype t).
Proof. intros []; cbn; lia. Qed.

(* a negative value never gets an unsigned type *)
Lemma negative_type_signed : forall v t, integer_type_for_range v v = Some t -> v < 0 -> itype_unsigned t = false.
Proof.
  intros v t H Hneg. apply integer_type_range in H. apply in_range_iff in H.
  destruct t; cbn in *; try reflexivity; lia.
Qed.

Lemma literal_value_lem : forall v, - 2 ^ 63 <= v <= 2 ^ 64 - 1 ->
  exists l, render_integer v = Some l /\ literal_value l = Some v /\
            in_range (ctype_range (itype_ctype (lit_type l))) v = true.
Proof.
  intros v Hv. destruct (integer_type_total v Hv) as [t Ht]. unfold render_integer. rewrite Ht.
  pose proof (integer_type_range v t Ht) as Hr.
  pose proof (wrap_id (itype_ctype t) v (itype_bits_pos t) Hr) as Hw.
  destruct (v =? - 2 ^ 63) eqn:Emin.
  - apply Z.eqb_eq in Emin. eexists. split; [reflexivity|]. split; [|exact Hr].
    unfold literal_value. cbn [lit_unsigned lit_digits lit_negative lit_minus_one lit_type].
    assert ((0 <=? 2 ^ 63 - 1) && (2 ^ 63 - 1 <=? 2 ^ 63 - 1) = true) as -> by reflexivity.
    assert (- (2 ^ 63 - 1) - 1 = v) as -> by lia.
    assert (- 2 ^ 63 <=? v = true) as -> by (apply Z.leb_le; lia). rewrite Hw. reflexivity.
  - apply Z.eqb_neq in Emin. eexists. split; [reflexivity|]. split; [|exact Hr].
    unfold literal_value. cbn [lit_unsigned lit_digits lit_negative lit_minus_one lit_type].
    destruct (Z.ltb_spec v 0) as [Hneg|Hpos].
    + rewrite (negative_type_signed v t Ht Hneg).
      assert ((0 <=? Z.abs v) && (Z.abs v <=? 2 ^ 63 - 1) = true) as -> by (apply andb_true_iff; rewrite !Z.leb_le; lia).
      assert (- Z.abs v = v) as -> by lia.
      assert (- 2 ^ 63 <=? v = true) as -> by (apply Z.leb_le; lia). rewrite Hw. reflexivity.
    + assert (Z.abs v = v) as -> by lia.
      destruct (itype_unsigned t) eqn:Eu.
      * assert ((0 <=? v) && (v <=? 2 ^ 64 - 1) = true) as -> by (apply andb_true_iff; rewrite !Z.leb_le; lia).
        rewrite Hw. reflexivity.
      * assert (v <= 2 ^ 63 - 1) as Hs.
        { apply in_range_iff in Hr. destruct t; cbn in Eu; try discriminate; cbn in Hr; pows; lia. }
        assert ((0 <=? v) && (v <=? 2 ^ 63 - 1) = true) as -> by (apply andb_true_iff; rewrite !Z.leb_le; lia).
        assert (- 2 ^ 63 <=? v = true) as -> by (apply Z.leb_le; lia). rewrite Hw. reflexivity.
Qed.

Lemma render_integer_none_lem : forall v, v < - 2 ^ 63 \/ 2 ^ 64 - 1 < v -> render_integer v = None.
Proof. intros v Hv. unfold render_integer. rewrite (integer_type_none v Hv). reflexivity. Qed.

(* without the special case the literal for -2^63 would be ill-formed *)
Lemma min_int64_needs_special_case_lem :
  literal_value (mk_literal I64 true (2 ^ 63) false false) = None.
Proof. reflexivity. Qed.

(* ------------------------------------------------------------------------- *)
(* 2. static_asserts                                                           *)
(* ------------------------------------------------------------------------- *)

Lemma least_width_ge : forall b, b <= 64 -> b <= least_width b.
Proof.
  intros b H. unfold least_width.
  destruct (Z.leb_spec b 8); [lia|]. destruct (Z.leb_spec b 16); [lia|]. destruct (Z.leb_spec b 32); lia.
Qed.

Lemma least_width_mono : forall a b, a <= b -> least_width a <= least_width b.
Proof.
  intros a b H. unfold least_width.
  destruct (Z.leb_spec a 8), (Z.leb_spec b 8), (Z.leb_spec a 16), (Z.leb_spec b 16),
           (Z.leb_spec a 32), (Z.leb_spec b 32); lia.
Qed.

Lemma prim_static_asserts_lem : forall p bits, prim_size_ok p bits = true -> prim_static_asserts p bits = true.
Proof.
  intros p bits H. destruct p; cbn in *; try exact H;
  apply andb_true_iff in H; destruct H as [H1 H2]; apply Z.leb_le in H1, H2;
  apply andb_true_iff; split; apply Z.leb_le; try lia; apply least_width_ge; lia.
Qed.

Lemma bits_block_lem : forall n, bits_block_ok n = true -> bit_block_static_asserts (8 * n) = true.
Proof.
  intros n H. unfold bits_block_ok in H. apply andb_true_iff in H. destruct H as [_ H].
  unfold bit_block_static_asserts. apply andb_true_iff. split; [|exact H].
  apply Z.eqb_eq. rewrite Z.mul_comm. apply Z_mod_mult.
Qed.

Lemma int_in_block_lem : forall f b, f <= b -> int_in_block_static_assert f b = true.
Proof. intros f b H. unfold int_in_block_static_assert. apply Z.leb_le. apply least_width_mono. exact H. Qed.

Lemma enum_static_assert_lem : forall d t k,
  width_ok d = true -> field_size_ok d k = true ->
  underlying_type (ed_bits d) (ed_signed d) = Some t -> enum_static_assert t k = true.
Proof.
  intros d t k Hw Hk Hu. unfold enum_static_assert. apply Z.leb_le.
  destruct (enum_field_static_assert_lem d t k Hw Hk Hu). lia.
Qed.

(* ------------------------------------------------------------------------- *)
(* 3. strings                                                                  *)
(* ------------------------------------------------------------------------- *)

Lemma prefix_append : forall p x, String.prefix p (p ++ x) = true.
Proof.
  induction p as [|c p IH]; intros x; cbn; [destruct x; reflexivity|].
  destruct (ascii_dec c c) as [_|N]; [apply IH|contradiction].
Qed.

Lemma append_length : forall a b, String.length (a ++ b) = (String.length a + String.length b)%nat.
Proof. induction a as [|c a IH]; intros b; cbn; [reflexivity|rewrite IH; reflexivity]. Qed.

Lemma append_inv_head : forall p a b, (p ++ a)%string = (p ++ b)%string -> a = b.
Proof. induction p as [|c p IH]; intros a b H; cbn in H; [exact H|]. inversion H. apply IH. assumption. Qed.

Lemma append_inv_tail : forall a b c, (a ++ c)%string = (b ++ c)%string -> a = b.
Proof.
  induction a as [|x a IH]; intros b c H.
  - destruct b as [|y b]; [reflexivity|]. exfalso. apply (f_equal String.length) in H.
    cbn in H. rewrite append_length in H. lia.
  - destruct b as [|y b].
    + exfalso. apply (f_equal String.length) in H. cbn in H. rewrite append_length in H. lia.
    + cbn in H. inversion H; subst. f_equal. eapply IH. eassumption.
Qed.

Lemma append_assoc : forall a b c, ((a ++ b) ++ c)%string = (a ++ (b ++ c))%string.
Proof. induction a as [|x a IH]; intros b c; cbn; [reflexivity|rewrite IH; reflexivity]. Qed.

Lemma wrapped_inj : forall p s a b, (p ++ a ++ s)%string = (p ++ b ++ s)%string -> a = b.
Proof. intros p s a b H. apply append_inv_head in H. apply append_inv_tail in H. exact H. Qed.

Lemma NoDup_map_inj : forall {A B} (f : A -> B) l, (forall a b, f a = f b -> a = b) -> NoDup l -> NoDup (map f l).
Proof.
  intros A B f l Hinj. induction l as [|x t IH]; intros H; [constructor|].
  inversion H as [|? ? Hnotin Ht]; subst. cbn. constructor; [|apply IH; exact Ht].
  intros Hin. apply in_map_iff in Hin. destruct Hin as [y [Hy Hyin]]. apply Hinj in Hy. subst. contradiction.
Qed.

Lemma NoDup_app_l : forall {A} (a b : list A), NoDup (a ++ b) -> NoDup a.
Proof.
  intros A. induction a as [|x t IH]; intros b H; [constructor|].
  cbn in H. inversion H as [|? ? Hnotin Ht]; subst. constructor; [|eapply IH; eauto].
  intros Hin. apply Hnotin. apply in_or_app. left; exact Hin.
Qed.

Lemma NoDup_app_r : forall {A} (a b : list A), NoDup (a ++ b) -> NoDup b.
Proof. intros A. induction a as [|x t IH]; intros b H; [exact H|]. cbn in H. inversion H; subst. eapply IH; eauto. Qed.

Lemma cases_distinct_NoDup : forall l, cases_distinct l = true -> NoDup l.
Proof.
  induction l as [|c t IH]; intros H; [constructor|].
  cbn in H. apply andb_true_iff in H. destruct H as [H1 H2]. constructor; [|apply IH; exact H2].
  intros Hin. apply negb_true_iff in H1. assert (existsb (ecase_eqb c) t = true) as X.
  { apply existsb_exists. exists c. split; [exact Hin|destruct c; reflexivity]. }
  congruence.
Qed.

(* ------------------------------------------------------------------------- *)
(* 4. distinct names by tags                                                   *)
(* ------------------------------------------------------------------------- *)

Section Tags.
  Variable tag : string -> N.

  Definition group_ok (t : N) (g : list string) : Prop := NoDup g /\ forall x, In x g -> tag x = t.

  Lemma concat_tagged_In : forall tags groups x,
    Forall2 group_ok tags groups -> In x (List.concat groups) -> In (tag x) tags.
  Proof.
    intros tags groups x H. induction H as [|t g ts gs [_ Hg] _ IH]; cbn; [tauto|].
    intros Hin. apply in_app_or in Hin. destruct Hin as [Hin|Hin]; [left; symmetry; apply Hg; exact Hin|right; apply IH; exact Hin].
  Qed.

  Lemma concat_NoDup_by_tag : forall tags groups,
    NoDup tags -> Forall2 group_ok tags groups -> NoDup (List.concat groups).
  Proof.
    intros tags groups Hnd H. induction H as [|t g ts gs [Hg1 Hg2] Hrest IH]; cbn; [constructor|].
    inversion Hnd as [|? ? Hnotin Hnd']; subst. apply NoDup_app_intro; [exact Hg1|apply IH; exact Hnd'|].
    intros x Hx Hin. apply Hnotin. rewrite <- (Hg2 x Hx). eapply concat_tagged_In; eauto.
  Qed.
End Tags.

Lemma forallb_In : forall {A} (f : A -> bool) l x, forallb f l = true -> In x l -> f x = true.
Proof. intros A f l x H Hin. rewrite forallb_forall in H. apply H. exact Hin. Qed.

Lemma string_mem_false : forall s l, string_mem s l = false -> ~ In s l.
Proof. intros s l H Hin. apply string_mem_In in Hin. congruence. Qed.

Lemma dollar_accessors_facts : forall u,
  NoDup (dollar_accessors u) /\ (forall x, In x (dollar_accessors u) -> first_is is_lower x = false) /\
  NoDup (map dollar_view_name (dollar_accessors u)) /\
  (forall x, In x (map dollar_view_name (dollar_accessors u)) -> class_tag x = 5%N) /\
  (forall x, In x (dollar_accessors u) -> class_tag x = 6%N).
Proof.
  intros u. destruct u; repeat split;
  try (apply strings_distinct_NoDup; reflexivity);
  intros x Hx; cbn in Hx; decompose [or] Hx; subst; try reflexivity; contradiction.
Qed.

Lemma snake_first_lower : forall s, is_snake s = true -> first_is is_lower s = true.
Proof. intros s H. unfold is_snake in H. apply andb_true_iff in H. tauto. Qed.

Lemma class_tag_has : forall x, class_tag (has_name x) = 1%N.
Proof. intros x. unfold class_tag, has_name, starts_with. rewrite prefix_append. reflexivity. Qed.

Ltac tag_solve :=
  unfold class_tag, ns_tag, starts_with, virtual_view_name, validator_name; cbn;
  first [ reflexivity
        | match goal with |- context [prefix EmptyString ?y] => destruct y; reflexivity end ].

Lemma class_tag_virtual_view : forall x, class_tag (virtual_view_name x) = 4%N.
Proof. intros x. tag_solve. Qed.

Lemma class_scope_partial : forall s,
  front_end_names_ok (ClassScope s) = true -> names_guard (ClassScope s) = true ->
  NoDup (class_scope_names s).
Proof.
  intros s Hfe Hg. cbn [front_end_names_ok] in Hfe. cbn [names_guard] in Hg.
  rewrite !andb_true_iff in Hfe. destruct Hfe as [[[[Fnd Fsn] End] Ecw] Ncw].
  rewrite !andb_true_iff in Hg. destruct Hg as [[[[[Gcamel Gtag3] Gtag2] Gback] Gpinit] Genum].
  apply strings_distinct_NoDup in Fnd, End, Gcamel.
  apply negb_true_iff in Gback, Gpinit. apply string_mem_false in Gback, Gpinit.
  destruct (dollar_accessors_facts (st_units s)) as [Dnd [Dup [DVnd [DVtag Dtag6]]]].
  unfold class_scope_names, class_groups.
  apply (concat_NoDup_by_tag class_tag [1; 2; 3; 4; 5; 6]%N).
  { repeat (constructor; [cbn; intros H; decompose [or] H; try discriminate; contradiction|]). constructor. }
  repeat (apply Forall2_cons; [split|]); try apply Forall2_nil.
  - (* has_ accessors *)
    apply NoDup_map_inj; [intros a b H; unfold has_name in H; eapply append_inv_head; exact H|].
    rewrite app_assoc. apply NoDup_app_intro; [exact Fnd|exact Dnd|].
    intros x Hx Hd. specialize (Dup x Hd). pose proof (forallb_In _ _ x Fsn Hx) as Hs.
    apply snake_first_lower in Hs. congruence.
  - intros x Hx. apply in_map_iff in Hx. destruct Hx as [y [<- _]]. apply class_tag_has.
  - (* private members *)
    assert (NoDup (map member_name (st_params s))) as Hm.
    { apply NoDup_map_inj; [intros a b H; unfold member_name in H; eapply append_inv_tail; exact H|].
      eapply NoDup_app_r. exact Fnd. }
    assert (forall p, In p (st_params s) -> member_name p <> "backing_"%string /\ member_name p <> "parameters_initialized_"%string) as Hne.
    { intros p Hp. split; intros E.
      - apply Gback. assert (p = "backing"%string) as <-; [|exact Hp].
        apply (append_inv_tail p "backing" "_"). exact E.
      - apply Gpinit. assert (p = "parameters_initialized"%string) as <-; [|exact Hp].
        apply (append_inv_tail p "parameters_initialized" "_"). exact E. }
    unfold private_members. destruct (st_params s) as [|p0 ps] eqn:Eps.
    + cbn. constructor; [intros []|constructor].
    + cbn [app]. constructor.
      * intros [H|H]; [discriminate|]. apply in_map_iff in H. destruct H as [p [Hp Hin]].
        destruct (Hne p Hin) as [H1 _]. contradiction.
      * constructor; [|exact Hm]. intros H. apply in_map_iff in H. destruct H as [p [Hp Hin]].
        destruct (Hne p Hin) as [_ H2]. contradiction.
  - intros x Hx. unfold private_members in Hx. cbn [app] in Hx. destruct Hx as [<-|Hx]; [reflexivity|].
    apply in_app_or in Hx. destruct Hx as [Hx|Hx].
    + destruct (st_params s); [destruct Hx|]. destruct Hx as [<-|[]]. reflexivity.
    + apply in_map_iff in Hx. destruct Hx as [p [<- Hp]].
      pose proof (forallb_In _ _ p Gtag2 Hp) as H. apply N.eqb_eq in H. exact H.
  - exact Fnd.
  - intros x Hx. pose proof (forallb_In _ _ x Gtag3 Hx) as H. apply N.eqb_eq in H. exact H.
  - (* virtual view classes *)
    unfold virtual_view_name.
    replace (map (fun n => ("EmbossReservedVirtual" ++ snake_to_camel n ++ "View")%string) (virtual_fields s))
      with (map (fun c => ("EmbossReservedVirtual" ++ c ++ "View")%string) (map snake_to_camel (virtual_fields s)))
      by (rewrite map_map; reflexivity).
    apply NoDup_map_inj; [intros a b H; eapply wrapped_inj; exact H|exact Gcamel].
  - intros x Hx. apply in_map_iff in Hx. destruct Hx as [y [<- _]]. apply class_tag_virtual_view.
  - exact DVnd.
  - exact DVtag.
  - (* fixed members and nested enums *)
    apply NoDup_app_intro.
    + unfold fixed_members. cbn [app]. constructor.
      * intros H. cbn in H. destruct (st_traits s), (st_units s); cbn in H; decompose [or] H; try discriminate; contradiction.
      * destruct (st_traits s), (st_units s); apply strings_distinct_NoDup; reflexivity.
    + exact End.
    + intros x Hx He. pose proof (forallb_In _ _ x Genum He) as H. apply andb_true_iff in H. destruct H as [_ H].
      apply negb_true_iff in H. apply string_mem_false in H. contradiction.
  - intros x Hx. apply in_app_or in Hx. destruct Hx as [Hx|Hx].
    + unfold fixed_members in Hx. cbn [app] in Hx. destruct Hx as [<-|Hx]; [reflexivity|].
      destruct (st_traits s), (st_units s); cbn in Hx; decompose [or] Hx; subst; try reflexivity; contradiction.
    + pose proof (forallb_In _ _ x Genum Hx) as H. apply andb_true_iff in H. destruct H as [H _].
      apply N.eqb_eq in H. exact H.
Qed.

Lemma ns_scope_partial : forall n,
  front_end_names_ok (NsScope n) = true -> names_guard (NsScope n) = true ->
  NoDup (ns_scope_names n).
Proof.
  intros n Hfe Hg. cbn [front_end_names_ok] in Hfe. cbn [names_guard] in Hg.
  rewrite !andb_true_iff in Hfe. destruct Hfe as [[[Tnd Tcw] Vnd] Vsn].
  rewrite !andb_true_iff in Hg. destruct Hg as [[[Gcamel Gtag8] Gderived] Gshared].
  apply strings_distinct_NoDup in Tnd, Vnd, Gcamel.
  assert (NoDup (ns_structs n)) as Snd by (eapply NoDup_app_l; exact Tnd).
  unfold ns_scope_names, ns_groups.
  apply (concat_NoDup_by_tag ns_tag [1; 2; 3; 4; 5; 6; 7; 8]%N).
  { repeat (constructor; [cbn; intros H; decompose [or] H; try discriminate; contradiction|]). constructor. }
  repeat (apply Forall2_cons; [split|]); try apply Forall2_nil.
  - unfold validator_name.
    replace (map (fun f => ("EmbossReservedValidatorFor" ++ snake_to_camel f)%string) (ns_validated n))
      with (map (fun c => ("EmbossReservedValidatorFor" ++ c)%string) (map snake_to_camel (ns_validated n)))
      by (rewrite map_map; reflexivity).
    apply NoDup_map_inj; [intros a b H; eapply append_inv_head; exact H|exact Gcamel].
  - intros x Hx. apply in_map_iff in Hx. destruct Hx as [y [<- _]]. tag_solve.
  - apply NoDup_map_inj; [intros a b H; eapply wrapped_inj; exact H|exact Snd].
  - intros x Hx. apply in_map_iff in Hx. destruct Hx as [y [<- _]]. tag_solve.
  - apply NoDup_map_inj; [intros a b H; eapply wrapped_inj; exact H|exact Snd].
  - intros x Hx. apply in_map_iff in Hx. destruct Hx as [y [<- _]]. tag_solve.
  - apply NoDup_map_inj; [intros a b H; eapply wrapped_inj; exact H|exact Snd].
  - intros x Hx. apply in_map_iff in Hx. destruct Hx as [y [<- Hy]].
    (* "Make" ++ t ++ "View" must not read as MakeAligned...: part of the guard through tag 8 of t?  no: derive from Gderived *)
    pose proof (forallb_In _ _ y Gderived Hy) as H. rewrite !andb_true_iff in H. destruct H as [[_ _] H4].
    apply N.eqb_eq in H4. exact H4.
  - apply NoDup_map_inj; [intros a b H; eapply wrapped_inj; exact H|exact Snd].
  - intros x Hx. apply in_map_iff in Hx. destruct Hx as [y [<- _]]. tag_solve.
  - apply NoDup_map_inj; [intros a b H; eapply append_inv_tail; exact H|exact Snd].
  - intros x Hx. apply in_map_iff in Hx. destruct Hx as [y [<- Hy]].
    pose proof (forallb_In _ _ y Gderived Hy) as H. rewrite !andb_true_iff in H. destruct H as [[H _] _].
    apply N.eqb_eq in H. exact H.
  - apply NoDup_map_inj; [intros a b H; eapply append_inv_tail; exact H|exact Snd].
  - intros x Hx. apply in_map_iff in Hx. destruct Hx as [y [<- Hy]].
    pose proof (forallb_In _ _ y Gderived Hy) as H. rewrite !andb_true_iff in H. destruct H as [[_ H] _].
    apply N.eqb_eq in H. exact H.
  - rewrite app_assoc. apply NoDup_app_intro; [exact Tnd| |].
    + unfold enum_shared. destruct (ns_enums n); [constructor|]. destruct (ns_traits n); [|constructor].
      apply strings_distinct_NoDup. reflexivity.
    + intros x Hx Hs. pose proof (forallb_In _ _ x Gshared Hx) as H. apply negb_true_iff in H.
      apply string_mem_false in H. contradiction.
  - intros x Hx. rewrite app_assoc in Hx. apply in_app_or in Hx. destruct Hx as [Hx|Hx].
    + pose proof (forallb_In _ _ x Gtag8 Hx) as H. apply N.eqb_eq in H. exact H.
    + unfold enum_shared in Hx. destruct (ns_enums n); [destruct Hx|]. destruct (ns_traits n); [|destruct Hx].
      cbn in Hx. decompose [or] Hx; subst; try reflexivity; contradiction.
Qed.

Lemma cpp_names_partial_lem : forall sc,
  front_end_names_ok sc = true -> names_guard sc = true -> cpp_names_distinct sc = true.
Proof.
  intros [s|n|d] Hfe Hg; unfold cpp_names_distinct; cbn [scope_names].
  - apply strings_distinct_NoDup. apply class_scope_partial; assumption.
  - apply strings_distinct_NoDup. apply ns_scope_partial; assumption.
  - apply (enumerators_distinct_partial_lem d Hfe). intros ev Hev.
    cbn [names_guard] in Hg. pose proof (forallb_In _ _ ev Hg Hev) as H. apply andb_true_iff in H.
    destruct H as [H1 H2]. split; [exact H1|apply cases_distinct_NoDup; exact H2].
Qed.

(* ------------------------------------------------------------------------- *)
(* 5. witnesses                                                                *)
(* ------------------------------------------------------------------------- *)

(* F5: enum values AB_1 and AB1 under kCamelCase *)
Definition f5_scope : scope := EnumScope f5_enum.

(* F6: virtual fields foo_bar and foo__bar *)
Definition f6_scope : scope :=
  ClassScope (mk_structure "Foo" UBytes
    [mk_field "x" Physical false; mk_field "foo_bar" Virtual false; mk_field "foo__bar" Virtual false] [] [] true).

(* F6, validators: fields foo_bar and foo__bar both with [requires] *)
Definition f6_validator_scope : scope := NsScope (mk_nspace ["foo_bar"; "foo__bar"]%string [] [] true).

(* fields foo and has_foo *)
Definition has_scope : scope :=
  ClassScope (mk_structure "Foo" UBytes [mk_field "foo" Physical false; mk_field "has_foo" Physical false] [] [] true).

(* a field called backing_ ; a parameter x next to a field x_ *)
Definition backing_scope : scope :=
  ClassScope (mk_structure "Foo" UBytes [mk_field "backing_" Physical false] [] [] true).
Definition member_scope : scope :=
  ClassScope (mk_structure "Foo" UBytes [mk_field "x_" Physical false] ["x"%string] [] true).

(* a nested enum called Ok *)
Definition nested_enum_scope : scope :=
  ClassScope (mk_structure "Foo" UBytes [mk_field "a" Physical false] [] ["Ok"%string] true).

(* struct Foo next to enum FooView *)
Definition type_alias_scope : scope := NsScope (mk_nspace [] ["Foo"%string] ["FooView"%string] true).

Lemma cpp_names_refuted_lem :
  (front_end_names_ok f5_scope = true /\ cpp_names_distinct f5_scope = false) /\
  (front_end_names_ok f6_scope = true /\ cpp_names_distinct f6_scope = false) /\
  (front_end_names_ok f6_validator_scope = true /\ cpp_names_distinct f6_validator_scope = false) /\
  (front_end_names_ok has_scope = true /\ cpp_names_distinct has_scope = false) /\
  (front_end_names_ok backing_scope = true /\ cpp_names_distinct backing_scope = false) /\
  (front_end_names_ok member_scope = true /\ cpp_names_distinct member_scope = false) /\
  (front_end_names_ok nested_enum_scope = true /\ cpp_names_distinct nested_enum_scope = false) /\
  (front_end_names_ok type_alias_scope = true /\ cpp_names_distinct type_alias_scope = false).
Proof. vm_compute. repeat split; reflexivity. Qed.

(* non-vacuity of the guard *)
Definition ok_class_scope : scope :=
  ClassScope (mk_structure "Foo" UBytes
    [mk_field "tag" Physical true; mk_field "payload_size" Physical false; mk_field "total" Virtual false;
     mk_field "alias_of_tag" Alias false] ["count"%string] ["Kind"%string] true).
Definition ok_ns_scope : scope := NsScope (mk_nspace ["tag"%string] ["Foo"; "Bar"]%string ["Kind"%string] true).

Lemma guard_satisfiable_lem :
  front_end_names_ok ok_class_scope = true /\ names_guard ok_class_scope = true /\
  front_end_names_ok ok_ns_scope = true /\ names_guard ok_ns_scope = true /\
  front_end_names_ok (EnumScope sample_enum) = true /\ names_guard (EnumScope sample_enum) = true.
Proof. vm_compute. repeat split; reflexivity. Qed.

(* ------------------------------------------------------------------------- *)
(* 6. include guards                                                           *)
(* ------------------------------------------------------------------------- *)

(* distinct module paths can get one include guard: a header importing both loses the second *)
Lemma header_guard_refuted_lem :
  exists p q, p <> q /\ header_guard p = header_guard q /\
              header_guard p = "X_Y_EMB_H_"%string.
Proof. exists "x/y.emb"%string, "x_y.emb"%string. split; [discriminate|]. split; reflexivity. Qed.
