(* C07 — every accepted module yields a header that compiles: the part that is logic.
   Statements only; every proof is `exact <lemma>`.  (g++'s acceptance of a whole header is
   explored by the harness, not proved: the property is claimed as partial.) *)
From Coq Require Import ZArith List Bool String Ascii.
Import ListNotations.
Require Import EmbossV.Enum.Model EmbossV.Enum.Proofs2 EmbossV.Names.Cpp EmbossV.Names.Proofs.
Open Scope Z_scope.

(* --- integer literals ------------------------------------------------------- *)

(* every value the front end can hand to _render_integer (all of [-2^63, 2^64)) is rendered as a
   well-formed ISO C++ constant expression of the chosen type that denotes exactly that value *)
Theorem literal_value_exact : forall v, - 2 ^ 63 <= v <= 2 ^ 64 - 1 ->
  exists l, render_integer v = Some l /\ literal_value l = Some v /\
            in_range (ctype_range (itype_ctype (lit_type l))) v = true.
Proof. exact literal_value_lem. Qed.
Print Assumptions literal_value_exact.

(* outside that range the Python assert fires *)
Theorem render_integer_domain : forall v, v < - 2 ^ 63 \/ 2 ^ 64 - 1 < v -> render_integer v = None.
Proof. exact render_integer_none_lem. Qed.

(* the special case is needed: "-9223372036854775808LL" is not a well-formed long long expression *)
Theorem min_int64_needs_special_case :
  literal_value (mk_literal I64 true (2 ^ 63) false false) = None.
Proof. exact min_int64_needs_special_case_lem. Qed.

(* --- front-end constraints imply the runtime's static_asserts --------------- *)

Theorem constraints_imply_static_asserts :
  (forall p bits, prim_size_ok p bits = true -> prim_static_asserts p bits = true) /\
  (forall n, bits_block_ok n = true -> bit_block_static_asserts (8 * n) = true) /\
  (forall f b, f <= b -> int_in_block_static_assert f b = true) /\
  (forall d t k, width_ok d = true -> field_size_ok d k = true ->
                 underlying_type (ed_bits d) (ed_signed d) = Some t -> enum_static_assert t k = true).
Proof. exact (conj prim_static_asserts_lem (conj bits_block_lem (conj int_in_block_lem enum_static_assert_lem))). Qed.
Print Assumptions constraints_imply_static_asserts.

(* --- declared identifiers --------------------------------------------------- *)

(* "the identifiers the header declares in one C++ scope are distinct" is FALSE of the faithful
   model; each witness is a scope the front end accepts:
     F5  enum values AB_1 / AB1 under kCamelCase            -> two enumerators kAb1
     F6  virtual fields foo_bar / foo__bar                  -> two classes EmbossReservedVirtualFooBarView
     F6' fields foo_bar / foo__bar with [requires]          -> two structs EmbossReservedValidatorForFooBar
     fields foo / has_foo                                   -> two members has_foo()
     field backing_ ; parameter x with field x_             -> clash with the private members backing_, x_
     nested enum Ok                                         -> `using Ok = ...` against the member Ok()
     struct Foo next to enum FooView                        -> `using FooView = GenericFooView<...>` *)
Theorem cpp_names_refuted :
  (front_end_names_ok f5_scope = true /\ cpp_names_distinct f5_scope = false) /\
  (front_end_names_ok f6_scope = true /\ cpp_names_distinct f6_scope = false) /\
  (front_end_names_ok f6_validator_scope = true /\ cpp_names_distinct f6_validator_scope = false) /\
  (front_end_names_ok has_scope = true /\ cpp_names_distinct has_scope = false) /\
  (front_end_names_ok backing_scope = true /\ cpp_names_distinct backing_scope = false) /\
  (front_end_names_ok member_scope = true /\ cpp_names_distinct member_scope = false) /\
  (front_end_names_ok nested_enum_scope = true /\ cpp_names_distinct nested_enum_scope = false) /\
  (front_end_names_ok type_alias_scope = true /\ cpp_names_distinct type_alias_scope = false).
Proof. exact cpp_names_refuted_lem. Qed.

(* under the guard (case conversion injective on the names of the scope, and no Emboss name
   spelled like a generated identifier: see Cpp.names_guard) the declared identifiers are distinct *)
Theorem cpp_names_partial : forall sc,
  front_end_names_ok sc = true -> names_guard sc = true -> cpp_names_distinct sc = true.
Proof. exact cpp_names_partial_lem. Qed.
Print Assumptions cpp_names_partial.

Theorem guard_satisfiable :
  front_end_names_ok ok_class_scope = true /\ names_guard ok_class_scope = true /\
  front_end_names_ok ok_ns_scope = true /\ names_guard ok_ns_scope = true /\
  front_end_names_ok (EnumScope sample_enum) = true /\ names_guard (EnumScope sample_enum) = true.
Proof. exact guard_satisfiable_lem. Qed.

(* --- include guards ------------------------------------------------------------ *)

(* "distinct module paths get distinct include guards" is FALSE of the faithful model:
   x/y.emb and x_y.emb both get X_Y_EMB_H_ (likewise a-b.emb / a_b.emb / a.b.emb / a__b.emb, Common.emb / common.emb) *)
Theorem header_guard_refuted :
  exists p q, p <> q /\ header_guard p = header_guard q /\ header_guard p = "X_Y_EMB_H_"%string.
Proof. exact header_guard_refuted_lem. Qed.
