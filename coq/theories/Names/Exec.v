(* Executable glue used by the C07 correspondence harness. *)
From Coq Require Import ZArith NArith List Bool String Ascii.
Import ListNotations.
Require Import EmbossV.Enum.Model EmbossV.Enum.Exec EmbossV.Names.Cpp.
Open Scope Z_scope.

(* ---- literals: text of _render_integer, and the value the text denotes ---- *)
Definition run_render (v : Z) : option (list N * option Z) :=
  match render_integer v with
  | None => None
  | Some l => Some (codes_of_string (literal_text l), literal_value l)
  end.

Definition run_render_eqb : option (list N * option Z) -> option (list N * option Z) -> bool :=
  opt_eqb (pair_eqb (list_eqb N.eqb) (opt_eqb Z.eqb)).

(* ---- static requirements: (acceptance by the front end, static_asserts) ---- *)
Definition prim_of_code (c : N) : prim :=
  match c with 0 => PUInt | 1 => PInt | 2 => PBcd | 3 => PFlag | _ => PFloat end%N.

Definition run_prim (x : N * Z) : bool * bool :=
  (prim_size_ok (prim_of_code (fst x)) (snd x), prim_static_asserts (prim_of_code (fst x)) (snd x)).

Definition run_prim_eqb : (bool * bool) -> (bool * bool) -> bool := pair_eqb Bool.eqb Bool.eqb.

(* ---- declared identifiers: which groups of generated names collide ---- *)
Fixpoint tag_groups (i : N) (gs : list (list string)) : list (N * string) :=
  match gs with
  | [] => []
  | g :: t => map (fun x => (i, x)) g ++ tag_groups (N.succ i) t
  end.

Fixpoint collisions_from (l : list (N * string)) : list (N * N) :=
  match l with
  | [] => []
  | (i, x) :: t =>
      map (fun p => (i, fst p)) (filter (fun p => String.eqb (snd p) x) t) ++ collisions_from t
  end.

Definition pairNN_eqb : (N * N) -> (N * N) -> bool := pair_eqb N.eqb N.eqb.

Fixpoint dedup (l : list (N * N)) : list (N * N) :=
  match l with
  | [] => []
  | p :: t => if existsb (pairNN_eqb p) t then dedup t else p :: dedup t
  end.

Definition scope_groups (sc : scope) : list (list string) :=
  match sc with
  | ClassScope s => class_groups s
  | NsScope n => ns_groups n
  | EnumScope d => [map fst (enumerators d)]
  end.

(* pairs (group, group), numbered from 1, that share a spelling *)
Definition collisions (sc : scope) : list (N * N) := dedup (collisions_from (tag_groups 1 (scope_groups sc))).

(* per scope: (front end accepts the names, the guard of cpp_names_partial, identifiers distinct, colliding groups) *)
Definition run_scope (sc : scope) : bool * bool * bool * list (N * N) :=
  (front_end_names_ok sc, names_guard sc, cpp_names_distinct sc, collisions sc).

Definition run_scopes (l : list scope) : list (bool * bool * bool * list (N * N)) := map run_scope l.

Definition run_scopes_eqb : list (bool * bool * bool * list (N * N)) -> list (bool * bool * bool * list (N * N)) -> bool :=
  list_eqb (pair_eqb (pair_eqb (pair_eqb Bool.eqb Bool.eqb) Bool.eqb) (list_eqb pairNN_eqb)).

(* enum scopes are built from (name, value, enum_case text) like in C19 *)
Definition enum_scope_of (vals : list (string * Z * option string)) : scope :=
  match build_values vals with
  | Some vs => EnumScope (infer vs (mk_eattrs None None))
  | None => EnumScope (mk_edecl [] false 64)
  end.

(* ---- include guard of a module path (code points in, code points out) ---- *)
Definition run_guard (l : list N) : list N := codes_of_string (header_guard (string_of_codes l)).
Definition run_guard_eqb : list N -> list N -> bool := list_eqb N.eqb.
