(* C07 — what is logic about "the emitted header compiles": the model (definitions only).

   Mirrors
     compiler/back_end/cpp/header_generator.py  _cpp_integer_type_for_range, _render_integer,
        the identifiers declared by _generate_structure_definition / _generate_structure_virtual_field_methods /
        _generate_validator_type_for / _generate_enum_definition and the templates structure_view_class,
        structure_single_*_method_declarations, enum_traits
     compiler/front_end/prelude.emb              static_requirements of UInt/Int/Bcd/Flag/Float
     compiler/front_end/constraints.py           enum field sizes, bits sizes
     runtime/cpp/*.h                             the static_asserts that depend on IR quantities *)
From Coq Require Import ZArith NArith List Bool String Ascii.
Import ListNotations.
Require Import EmbossV.Enum.Model.
Open Scope Z_scope.

(* ------------------------------------------------------------------------- *)
(* 1. integer literals                                                         *)
(* ------------------------------------------------------------------------- *)

Inductive itype := I32 | U32 | I64 | U64.

Definition itype_name (t : itype) : string :=
  match t with
  | I32 => "::std::int32_t" | U32 => "::std::uint32_t"
  | I64 => "::std::int64_t" | U64 => "::std::uint64_t"
  end.

Definition itype_ctype (t : itype) : ctype :=
  match t with
  | I32 => mk_ctype true 32 | U32 => mk_ctype false 32
  | I64 => mk_ctype true 64 | U64 => mk_ctype false 64
  end.

(* "uint" in integer_type *)
Definition itype_unsigned (t : itype) : bool := negb (ct_signed (itype_ctype t)).

(* _cpp_integer_type_for_range *)
Definition integer_type_for_range (lo hi : Z) : option itype :=
  if (- 2 ^ 31 <=? lo) && (hi <=? 2 ^ 31 - 1) then Some I32
  else if (0 <=? lo) && (hi <=? 2 ^ 32 - 1) then Some U32
  else if (- 2 ^ 63 <=? lo) && (hi <=? 2 ^ 63 - 1) then Some I64
  else if (0 <=? lo) && (hi <=? 2 ^ 64 - 1) then Some U64
  else None.

(* static_cast</**/T>([-]digits[U]LL[ - 1]) *)
Record literal := mk_literal {
  lit_type : itype;
  lit_negative : bool;
  lit_digits : Z;          (* the decimal digit string, as a number >= 0 *)
  lit_unsigned : bool;     (* U suffix *)
  lit_minus_one : bool     (* " - 1" *)
}.

(* _render_integer; None = the Python assert fires *)
Definition render_integer (v : Z) : option literal :=
  match integer_type_for_range v v with
  | None => None
  | Some t =>
      if v =? - 2 ^ 63 then Some (mk_literal t true (2 ^ 63 - 1) false true)
      else Some (mk_literal t (v <? 0) (Z.abs v) (itype_unsigned t) false)
  end.

(* decimal text of a natural number *)
Fixpoint digits_fuel (fuel : nat) (n : N) (acc : string) : string :=
  match fuel with
  | O => acc
  | S f =>
      let acc' := String (ascii_of_N (48 + n mod 10)) acc in
      if (n / 10 =? 0)%N then acc' else digits_fuel f (n / 10)%N acc'
  end.

Definition decimal_N (n : N) : string := digits_fuel (S (N.to_nat (N.log2 n))) n EmptyString.
Definition decimal_Z (z : Z) : string :=
  if z <? 0 then String "-"%char (decimal_N (Z.to_N (- z))) else decimal_N (Z.to_N z).

Definition literal_text (l : literal) : string :=
  ("static_cast</**/" ++ itype_name (lit_type l) ++ ">(" ++
   (if lit_negative l then "-" else "") ++ decimal_N (Z.to_N (lit_digits l)) ++
   (if lit_unsigned l then "U" else "") ++ "LL" ++
   (if lit_minus_one l then " - 1" else "") ++ ")")%string.

(* ISO C++ meaning of the literal expression; None = ill-formed or undefined:
   a decimal literal with suffix LL must fit long long, with ULL unsigned long long;
   unary minus and "- 1" are evaluated in that type (signed overflow is undefined,
   unsigned arithmetic wraps); static_cast to T wraps. *)
Definition literal_value (l : literal) : option Z :=
  let d := lit_digits l in
  if lit_unsigned l then
    if (0 <=? d) && (d <=? 2 ^ 64 - 1) then
      let a := if lit_negative l then (- d) mod 2 ^ 64 else d in
      let b := if lit_minus_one l then (a - 1) mod 2 ^ 64 else a in
      Some (wrap (itype_ctype (lit_type l)) b)
    else None
  else
    if (0 <=? d) && (d <=? 2 ^ 63 - 1) then
      let a := if lit_negative l then - d else d in
      let b := if lit_minus_one l then a - 1 else a in
      if (- 2 ^ 63 <=? b) then Some (wrap (itype_ctype (lit_type l)) b) else None
    else None.

(* ------------------------------------------------------------------------- *)
(* 2. runtime static_asserts as functions of the IR                            *)
(* ------------------------------------------------------------------------- *)

Inductive prim := PUInt | PInt | PBcd | PFlag | PFloat.

(* prelude.emb static_requirements (statically sized, size in bits) *)
Definition prim_size_ok (p : prim) (bits : Z) : bool :=
  match p with
  | PUInt | PInt | PBcd => (1 <=? bits) && (bits <=? 64)
  | PFlag => bits =? 1
  | PFloat => (bits =? 32) || (bits =? 64)
  end.

(* UIntView / IntView / BcdView: kBits <= 8 * sizeof(LeastWidthInteger<kBits>), LeastWidthInteger: kBits <= 64;
   FlagView: kBits == 1;  FloatView / FloatType: kBits == 32 || kBits == 64 *)
Definition prim_static_asserts (p : prim) (bits : Z) : bool :=
  match p with
  | PUInt | PInt | PBcd => (bits <=? 64) && (bits <=? least_width bits)
  | PFlag => bits =? 1
  | PFloat => (bits =? 32) || (bits =? 64)
  end.

(* a `bits` block read from a byte buffer: its field occupies size_bytes bytes (any
   whole number), and the front end requires 8 * size_bytes <= 64 *)
Definition bits_block_ok (size_bytes : Z) : bool := (1 <=? size_bytes) && (8 * size_bytes <=? 64).
(* BitBlock: kBufferSizeInBits % 8 == 0 && kBufferSizeInBits <= 64; MemoryAccessor: kBits % 8 == 0 *)
Definition bit_block_static_asserts (bits : Z) : bool := (bits mod 8 =? 0) && (bits <=? 64).

(* IntView over a block: sizeof(ValueType) <= sizeof(BitViewType::ValueType) *)
Definition int_in_block_static_assert (field_bits block_bits : Z) : bool :=
  least_width field_bits <=? least_width block_bits.

(* EnumView: kBits <= 8 * sizeof(underlying type) *)
Definition enum_static_assert (t : ctype) (bits : Z) : bool := bits <=? ct_bits t.

(* ------------------------------------------------------------------------- *)
(* 3. declared identifiers                                                     *)
(* ------------------------------------------------------------------------- *)

Fixpoint string_rev_acc (s acc : string) : string :=
  match s with EmptyString => acc | String c r => string_rev_acc r (String c acc) end.
Definition string_rev (s : string) : string := string_rev_acc s EmptyString.

Definition starts_with (p s : string) : bool := String.prefix p s.
Definition ends_with (suf s : string) : bool := String.prefix (string_rev suf) (string_rev s).

Definition first_is (f : ascii -> bool) (s : string) : bool :=
  match s with EmptyString => false | String c _ => f c end.

Inductive units := UBits | UBytes.
Definition units_text (u : units) : string := match u with UBits => "Bits" | UBytes => "Bytes" end.

Inductive fkind := Physical | Virtual | Alias.

Record field := mk_field { f_name : string; f_kind : fkind; f_requires : bool }.

(* what the back end looks at when it names things in Generic<Name>View *)
Record structure := mk_structure {
  st_name : string;
  st_units : units;
  st_fields : list field;          (* named fields, physical and virtual (no $-fields) *)
  st_params : list string;
  st_enums : list string;          (* directly nested enums: `using E = ...;` *)
  st_traits : bool                 (* include_enum_traits: text stream methods are emitted *)
}.

(* the three synthesized $-fields *)
Definition dollar_accessors (u : units) : list string :=
  [("IntrinsicSizeIn" ++ units_text u)%string; ("MaxSizeIn" ++ units_text u)%string; ("MinSizeIn" ++ units_text u)%string].

Definition has_name (n : string) : string := ("has_" ++ n)%string.
Definition virtual_view_name (n : string) : string := ("EmbossReservedVirtual" ++ snake_to_camel n ++ "View")%string.
Definition dollar_view_name (n : string) : string := ("EmbossReservedDollarVirtual" ++ n ++ "View")%string.
Definition validator_name (n : string) : string := ("EmbossReservedValidatorFor" ++ snake_to_camel n)%string.
Definition member_name (p : string) : string := (p ++ "_")%string.

(* members with fixed spellings (template structure_view_class and the size methods) *)
Definition fixed_members (s : structure) : list string :=
  [("Generic" ++ st_name s ++ "View")%string; "Storage"%string; "Ok"%string; "BackingStorage"%string; "IsComplete"%string;
   ("SizeIn" ++ units_text (st_units s))%string; "SizeIsKnown"%string; "Equals"%string; "UncheckedEquals"%string;
   "UncheckedCopyFrom"%string; "CopyFrom"%string; "TryToCopyFrom"%string; "IsAggregate"%string]
  ++ (if st_traits s then ["UpdateFromTextStream"%string; "WriteToTextStream"%string] else [])
  ++ dollar_accessors (st_units s).

Definition private_members (s : structure) : list string :=
  ["backing_"%string] ++ (match st_params s with [] => [] | _ => ["parameters_initialized_"%string] end)
  ++ map member_name (st_params s).

Definition virtual_fields (s : structure) : list string :=
  map f_name (filter (fun f => match f_kind f with Virtual => true | _ => false end) (st_fields s)).

(* the groups of identifiers declared in the scope of class Generic<Name>View *)
Definition class_groups (s : structure) : list (list string) :=
  [ map has_name (map f_name (st_fields s) ++ st_params s ++ dollar_accessors (st_units s));
    private_members s;
    map f_name (st_fields s) ++ st_params s;
    map virtual_view_name (virtual_fields s);
    map dollar_view_name (dollar_accessors (st_units s));
    fixed_members s ++ st_enums s ].

Definition class_scope_names (s : structure) : list string := List.concat (class_groups s).

(* a namespace scope: the module namespace, or `namespace <Struct>` holding the
   struct's nested types and the validators of its fields *)
Record nspace := mk_nspace {
  ns_validated : list string;      (* fields of the enclosing struct that carry [requires] *)
  ns_structs : list string;
  ns_enums : list string;
  ns_traits : bool
}.

Definition struct_derived (t : string) : list (list string) :=
  [ [("EmbossReservedInternalIsGeneric" ++ t ++ "View")%string];
    [("MakeAligned" ++ t ++ "View")%string];
    [("Make" ++ t ++ "View")%string];
    [("Generic" ++ t ++ "View")%string];
    [(t ++ "Writer")%string];
    [(t ++ "View")%string] ].

Definition enum_shared (n : nspace) : list string :=
  match ns_enums n with
  | [] => []
  | _ => if ns_traits n then ["EnumTraits"%string; "TryToGetEnumFromName"%string; "TryToGetNameFromEnum"%string;
                              "EnumIsKnown"%string] else []
  end.

Definition ns_groups (n : nspace) : list (list string) :=
  [ map validator_name (ns_validated n);
    map (fun t => ("EmbossReservedInternalIsGeneric" ++ t ++ "View")%string) (ns_structs n);
    map (fun t => ("MakeAligned" ++ t ++ "View")%string) (ns_structs n);
    map (fun t => ("Make" ++ t ++ "View")%string) (ns_structs n);
    map (fun t => ("Generic" ++ t ++ "View")%string) (ns_structs n);
    map (fun t => (t ++ "Writer")%string) (ns_structs n);
    map (fun t => (t ++ "View")%string) (ns_structs n);
    ns_structs n ++ ns_enums n ++ enum_shared n ].

Definition ns_scope_names (n : nspace) : list string := List.concat (ns_groups n).

Inductive scope := ClassScope (s : structure) | NsScope (n : nspace) | EnumScope (d : edecl).

Definition scope_names (sc : scope) : list string :=
  match sc with
  | ClassScope s => class_scope_names s
  | NsScope n => ns_scope_names n
  | EnumScope d => map fst (enumerators d)
  end.

(* the header declares no identifier twice in this scope *)
Definition cpp_names_distinct (sc : scope) : bool := strings_distinct (scope_names sc).

(* ---- what the front end guarantees about the Emboss names of a scope ---- *)

Fixpoint all_chars (f : ascii -> bool) (s : string) : bool :=
  match s with EmptyString => true | String c r => f c && all_chars f r end.

(* SnakeWord  [a-z][a-z_0-9]* *)
Definition is_snake (s : string) : bool :=
  first_is is_lower s && all_chars (fun c => is_lower c || is_digit c || Ascii.eqb c underscore) s.

(* CamelWord  [A-Z][a-zA-Z0-9]*[a-z][a-zA-Z0-9]*  (no underscore, some lower-case letter) *)
Fixpoint any_char (f : ascii -> bool) (s : string) : bool :=
  match s with EmptyString => false | String c r => f c || any_char f r end.
Definition is_camel_word (s : string) : bool :=
  first_is is_upper s && all_chars (fun c => is_lower c || is_upper c || is_digit c) s && any_char is_lower s.

Definition front_end_names_ok (sc : scope) : bool :=
  match sc with
  | ClassScope s =>
      strings_distinct (map f_name (st_fields s) ++ st_params s) &&
      forallb is_snake (map f_name (st_fields s) ++ st_params s) &&
      strings_distinct (st_enums s) && forallb is_camel_word (st_enums s) && is_camel_word (st_name s)
  | NsScope n =>
      strings_distinct (ns_structs n ++ ns_enums n) && forallb is_camel_word (ns_structs n ++ ns_enums n) &&
      strings_distinct (ns_validated n) && forallb is_snake (ns_validated n)
  | EnumScope d => accepted d
  end.

(* ---- the guard of cpp_names_partial ---- *)

(* every group of generated names is recognisable from the spelling alone *)
Definition class_tag (s : string) : N :=
  if starts_with "has_" s then 1
  else if first_is is_lower s then (if ends_with "_" s then 2 else 3)
  else if starts_with "EmbossReservedVirtual" s then 4
  else if starts_with "EmbossReservedDollarVirtual" s then 5
  else 6.

Definition ns_tag (s : string) : N :=
  if starts_with "EmbossReservedValidatorFor" s then 1
  else if starts_with "EmbossReservedInternalIsGeneric" s then 2
  else if starts_with "MakeAligned" s then 3
  else if starts_with "Make" s then 4
  else if starts_with "Generic" s then 5
  else if ends_with "Writer" s then 6
  else if ends_with "View" s then 7
  else 8.

Definition names_guard (sc : scope) : bool :=
  match sc with
  | ClassScope s =>
      (* case conversion injective on the names of this scope (excludes F6) *)
      strings_distinct (map snake_to_camel (virtual_fields s)) &&
      (* no field or parameter spelled like a generated accessor or private member *)
      forallb (fun n => N.eqb (class_tag n) 3) (map f_name (st_fields s) ++ st_params s) &&
      forallb (fun p => N.eqb (class_tag (member_name p)) 2) (st_params s) &&
      negb (string_mem "backing" (st_params s)) && negb (string_mem "parameters_initialized" (st_params s)) &&
      (* no nested enum spelled like a fixed member *)
      forallb (fun e => N.eqb (class_tag e) 6 && negb (string_mem e (fixed_members s))) (st_enums s)
  | NsScope n =>
      strings_distinct (map snake_to_camel (ns_validated n)) &&
      forallb (fun t => N.eqb (ns_tag t) 8) (ns_structs n ++ ns_enums n) &&
      forallb (fun t => N.eqb (ns_tag (t ++ "Writer")) 6 && N.eqb (ns_tag (t ++ "View")) 7 &&
                        N.eqb (ns_tag ("Make" ++ t ++ "View")) 4) (ns_structs n) &&
      forallb (fun t => negb (string_mem t (enum_shared n))) (ns_structs n ++ ns_enums n)
  | EnumScope d =>
      forallb (fun ev => letter_boundaries (ev_name ev) && cases_distinct (ev_cases ev)) (ed_values d)
  end.

(* ------------------------------------------------------------------------- *)
(* 4. include guards (_generate_header_guard)                                  *)
(* ------------------------------------------------------------------------- *)

Definition guard_char (c : ascii) : ascii :=
  if is_upper c || is_lower c || is_digit c || Ascii.eqb c underscore then c else underscore.

Fixpoint collapse_underscores (prev : bool) (s : string) : string :=
  match s with
  | EmptyString => EmptyString
  | String c r =>
      if Ascii.eqb c underscore
      then (if prev then collapse_underscores true r else String c (collapse_underscores true r))
      else String c (collapse_underscores false r)
  end.

(* (path + ".h").upper(), [^A-Za-z0-9_] -> "_", append "_", "__+" -> "_" *)
Definition header_guard (path : string) : string :=
  collapse_underscores false
    (map_string guard_char (map_string to_upper (path ++ ".h")) ++ "_")%string.
