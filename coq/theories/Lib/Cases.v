(* Helpers used by the correspondence harness to run model definitions inside
   Coq on generated cases and report which cases disagree with the
   implementation's recorded output. *)
From Coq Require Import NArith List Bool.
Import ListNotations.

Section Cases.
  Context {A B : Type}.
  Variable f : A -> B.
  Variable eqb : B -> B -> bool.

  Fixpoint mismatches_from (i : N) (l : list (A * B)) : list N :=
    match l with
    | [] => []
    | (a, b) :: t =>
        if eqb (f a) b then mismatches_from (N.succ i) t
        else i :: mismatches_from (N.succ i) t
    end.

  Definition mismatches (l : list (A * B)) : list N := mismatches_from 0%N l.

  Fixpoint nth_opt (i : N) (l : list (A * B)) : option (A * B) :=
    match l with
    | [] => None
    | x :: t => if N.eqb i 0 then Some x else nth_opt (N.pred i) t
    end.

  Definition outputs_at (l : list (A * B)) (idx : list N) : list (N * option B) :=
    map (fun i => (i, option_map (fun ab => f (fst ab)) (nth_opt i l))) idx.

  Lemma mismatches_from_nil_all :
    forall l i, mismatches_from i l = [] -> forall a b, In (a, b) l -> eqb (f a) b = true.
  Proof.
    induction l as [|[a0 b0] t IH]; intros i H a b Hin; [destruct Hin|].
    cbn [mismatches_from] in H. destruct (eqb (f a0) b0) eqn:E; [|discriminate].
    destruct Hin as [Heq|Hin]; [inversion Heq; subst; exact E|].
    eapply IH; eauto.
  Qed.
End Cases.
