(* Bits/Proofs_BcdWrite.v -- MaxBcd, BcdView::CouldWriteValue, ConvertToBcd, BcdView::TryToWrite *)
From Coq Require Import ZArith List Bool Lia ZifyBool.
Import ListNotations.
Require Import EmbossV.Bits.Model EmbossV.Bits.Proofs_Int EmbossV.Bits.Proofs_Load EmbossV.Bits.Proofs_Read
               EmbossV.Bits.Proofs_Bcd EmbossV.Bits.Proofs_Write.
Open Scope Z_scope.

Local Arguments Z.pow : simpl never.
Local Arguments Z.mul : simpl never.
Local Arguments Z.add : simpl never.
Local Arguments Z.sub : simpl never.
Local Arguments Z.div : simpl never.
Local Arguments Z.modulo : simpl never.
Local Arguments Z.land : simpl never.
Local Arguments Z.lor : simpl never.
Local Arguments Z.of_nat : simpl never.
Local Arguments wrap : simpl never.

(* ------------------------------------------------------------------------- *)
(* MaxBcd<ValueType>(bits) = 10^(bits/4) * 2^(bits mod 4) - 1                  *)
(* ------------------------------------------------------------------------- *)
Lemma max_bcd_inv : forall vt, std_cty vt -> csigned vt = false ->
  forall (q : nat) fuel rem, 0 <= rem < 4 -> (q < fuel)%nat -> 4 * Z.of_nat q + rem <= cbits vt ->
  max_bcd vt fuel (4 * Z.of_nat q + rem) = Some (10 ^ Z.of_nat q * 2 ^ rem - 1) /\
  10 ^ Z.of_nat q * 2 ^ rem <= 2 ^ (4 * Z.of_nat q + rem).
Proof.
  intros vt Hstd Hu.
  assert (Hpstd : std_cty (promote vt)) by (apply promote_std; assumption).
  assert (Hcm := cmax_promote vt Hstd). assert (Hpb := promote_bits_ge vt Hstd).
  assert (Hmax : cmax vt = 2 ^ cbits vt - 1) by (unfold cmax; rewrite Hu; reflexivity).
  assert (Hcb : 8 <= cbits vt) by (unfold std_cty, std_bits in Hstd; lia).
  induction q as [|q IH]; intros fuel rem Hrem Hf Hbits.
  - destruct fuel as [|fuel]; [lia|]. cbn [max_bcd].
    change (4 * Z.of_nat 0 + rem) with (0 + rem). rewrite Z.add_0_l.
    replace (rem <? 4) with true by lia.
    assert (R : rem = 0 \/ rem = 1 \/ rem = 2 \/ rem = 3) by lia.
    assert (H8 : 2 ^ 8 <= 2 ^ cbits vt) by (apply pow2_le; lia). pow_consts.
    split.
    + destruct R as [-> | [-> | [-> | ->]]]; cbn [bind]; unfold lit;
        (rewrite (c_shl_signed i32 1 i32); [|reflexivity|cbn; lia|lia|unfold cmax; cbn; pow_consts; lia]);
        cbn [bind]; unfold c_sub; (rewrite arith2_exact; change (common (promote i32) i32) with i32; try (cbn; lia); try (incty; lia));
        cbn [bind val snd]; pow_consts;
        (rewrite wrap_id; [reflexivity|lia|apply in_cty_nonneg; [assumption|lia]]).
    + change (10 ^ Z.of_nat 0) with 1. lia.
  - destruct fuel as [|fuel]; [lia|]. cbn [max_bcd].
    replace (4 * Z.of_nat (S q) + rem <? 4) with false by lia.
    replace (4 * Z.of_nat (S q) + rem - 4) with (4 * Z.of_nat q + rem) by lia.
    destruct (IH fuel rem Hrem ltac:(lia) ltac:(lia)) as [E B].
    rewrite E. cbn [bind].
    set (X := 10 ^ Z.of_nat q * 2 ^ rem) in *.
    assert (PX : 0 < X) by (unfold X; assert (0 < 10 ^ Z.of_nat q) by apply pow10_pos; assert (0 < 2 ^ rem) by (apply pow2_pos; lia); nia).
    assert (E16 : 2 ^ (4 * Z.of_nat (S q) + rem) = 16 * 2 ^ (4 * Z.of_nat q + rem)).
    { replace (4 * Z.of_nat (S q) + rem) with (4 + (4 * Z.of_nat q + rem)) by lia. rewrite pow2_add by lia. reflexivity. }
    assert (Hle : 2 ^ (4 * Z.of_nat (S q) + rem) <= 2 ^ cbits vt) by (apply pow2_le; lia).
    unfold lit, c_add.
    rewrite arith2_exact; rewrite ?common_i32_r by assumption; try lia; try (apply in_cty_promote_nonneg; [assumption|lia]).
    cbn [bind]. unfold c_mul.
    rewrite arith2_exact; rewrite ?common_promote_r, ?common_i32_l by assumption; try lia; try (apply in_cty_promote_nonneg; [assumption|lia]).
    cbn [bind]. unfold c_sub.
    rewrite arith2_exact; rewrite ?common_promote_l, ?common_i32_r by assumption; try lia; try (apply in_cty_promote_nonneg; [assumption|lia]).
    cbn [bind val snd].
    rewrite wrap_id by (first [lia | apply in_cty_nonneg; [assumption|lia]]).
    rewrite pow10_S. split; [f_equal; unfold X; lia|]. fold X. lia.
Qed.

Lemma bcd_max_split : forall w, 0 <= w -> w = 4 * Z.of_nat (Z.to_nat (w / 4)) + w mod 4 /\ 0 <= w mod 4 < 4.
Proof.
  intros w Hw. rewrite Z2Nat.id by (apply Z.div_pos; lia).
  split; [rewrite (Z.div_mod w 4) at 1 by lia; lia|apply Z.mod_pos_bound; lia].
Qed.

Lemma max_bcd_spec : forall w, 1 <= w <= 64 -> max_bcd (uty w) bcd_fuel w = Some (bcd_max w).
Proof.
  intros w Hw. destruct (bcd_max_split w ltac:(lia)) as [E R].
  assert (Hlw := lw_ge w ltac:(lia)).
  rewrite E at 2.
  destruct (max_bcd_inv (uty w) (std_uty w) eq_refl (Z.to_nat (w / 4)) bcd_fuel (w mod 4) R) as [H _].
  - unfold bcd_fuel. assert (w / 4 <= 16) by (apply Z.div_le_upper_bound; lia).
    apply Nat2Z.inj_lt. rewrite Z2Nat.id by (apply Z.div_pos; lia). lia.
  - rewrite <- E. exact Hlw.
  - rewrite H. unfold bcd_max. rewrite Z2Nat.id by (apply Z.div_pos; lia). reflexivity.
Qed.

(* CouldWriteValue when the argument is already a ValueType value (what the signature says) *)
Lemma bcd_could_write_spec : forall argty w v, 1 <= w <= 64 -> in_cty (uty w) v ->
  bcd_could_write argty w v = Some (v <=? bcd_max w).
Proof.
  intros argty w v Hw Hv. unfold bcd_could_write. rewrite max_bcd_spec by assumption. cbn [bind].
  f_equal. unfold c_le, c_cast. cbn [val snd].
  assert (Hb : 1 <= cbits (uty w)) by (cbn [cbits uty]; assert (H := lw_ge w); lia).
  rewrite wrap_id by assumption.
  destruct (max_bcd_inv (uty w) (std_uty w) eq_refl (Z.to_nat (w / 4)) bcd_fuel (w mod 4)) as [_ B].
  - apply bcd_max_split; lia.
  - unfold bcd_fuel. assert (w / 4 <= 16) by (apply Z.div_le_upper_bound; lia).
    apply Nat2Z.inj_lt. rewrite Z2Nat.id by (apply Z.div_pos; lia). lia.
  - destruct (bcd_max_split w ltac:(lia)) as [E _]. rewrite <- E. cbn [cbits uty]. apply lw_ge. lia.
  - destruct (bcd_max_split w ltac:(lia)) as [E _]. rewrite <- E in B.
    rewrite Z2Nat.id in B by (apply Z.div_pos; lia). fold (bcd_max w + 1) in B.
    assert (Hle : 2 ^ w <= 2 ^ lw w) by (apply pow2_le; assert (H := lw_ge w); lia).
    assert (0 <= bcd_max w).
    { unfold bcd_max. assert (0 < 10 ^ (w / 4)) by (apply Z.pow_pos_nonneg; [lia|apply Z.div_pos; lia]).
      assert (0 < 2 ^ (w mod 4)) by (apply pow2_pos; apply Z.mod_pos_bound; lia). nia. }
    apply in_cty_unsigned in Hv; [|reflexivity]. cbn [cbits uty] in Hv.
    apply c_cmp_sem; try apply std_uty; try (apply in_cty_unsigned; [reflexivity|cbn [cbits uty]; unfold bcd_max in *; lia]).
    left. lia.
Qed.

(* the narrowing finding: CouldWriteValue(256) on an 8-bit Bcd field called with an int argument *)
Lemma bcd_could_write_narrowing_refuted_l :
  exists argty w v, std_cty argty /\ in_cty argty v /\ 1 <= w <= 64 /\ ~ (0 <= v <= bcd_max w) /\
                    bcd_could_write argty w v = Some true.
Proof.
  exists i32, 8, 256. repeat split; try (vm_compute; congruence).
  - right; right; left; reflexivity.
  - vm_compute. intros [_ H]. apply H. reflexivity.
Qed.
