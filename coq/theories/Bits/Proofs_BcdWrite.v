(* Bits/Proofs_BcdWrite.v -- MaxBcd, BcdView::CouldWriteValue, ConvertToBcd, BcdView::TryToWrite *)
From Coq Require Import ZArith List Bool Lia ZifyBool.
Import ListNotations.
Require Import EmbossV.Bits.Model EmbossV.Bits.Proofs_Int EmbossV.Bits.Proofs_Load EmbossV.Bits.Proofs_Read
               EmbossV.Bits.Proofs_Bcd EmbossV.Bits.Proofs_Write.
Open Scope Z_scope.

Local Arguments Z.pow : simpl never.
Local Arguments Z.mul : simpl never.
Local Arguments Z.add : simpl never.
Local Arguments Z.sub : simpl never.
Local Arguments Z.div : simpl never.
Local Arguments Z.modulo : simpl never.
Local Arguments Z.land : simpl never.
Local Arguments Z.lor : simpl never.
Local Arguments Z.of_nat : simpl never.
Local Arguments wrap : simpl never.

(* ------------------------------------------------------------------------- *)
(* MaxBcd<ValueType>(bits) = 10^(bits/4) * 2^(bits mod 4) - 1                  *)
(* ------------------------------------------------------------------------- *)
Lemma max_bcd_inv : forall vt, std_cty vt -> csigned vt = false ->
  forall (q : nat) fuel rem, 0 <= rem < 4 -> (q < fuel)%nat -> 4 * Z.of_nat q + rem <= cbits vt ->
  max_bcd vt fuel (4 * Z.of_nat q + rem) = Some (10 ^ Z.of_nat q * 2 ^ rem - 1) /\
  10 ^ Z.of_nat q * 2 ^ rem <= 2 ^ (4 * Z.of_nat q + rem).
Proof.
  intros vt Hstd Hu.
  assert (Hpstd : std_cty (promote vt)) by (apply promote_std; assumption).
  assert (Hcm := cmax_promote vt Hstd). assert (Hpb := promote_bits_ge vt Hstd).
  assert (Hmax : cmax vt = 2 ^ cbits vt - 1) by (unfold cmax; rewrite Hu; reflexivity).
  assert (Hcb : 8 <= cbits vt) by (unfold std_cty, std_bits in Hstd; lia).
  induction q as [|q IH]; intros fuel rem Hrem Hf Hbits.
  - destruct fuel as [|fuel]; [lia|]. cbn [max_bcd].
    change (4 * Z.of_nat 0 + rem) with (0 + rem). rewrite Z.add_0_l.
    replace (rem <? 4) with true by lia.
    assert (R : rem = 0 \/ rem = 1 \/ rem = 2 \/ rem = 3) by lia.
    assert (H8 : 2 ^ 8 <= 2 ^ cbits vt) by (apply pow2_le; lia). pow_consts.
    split.
    + destruct R as [-> | [-> | [-> | ->]]]; cbn [bind]; unfold lit;
        (rewrite (c_shl_signed i32 1 i32); [|reflexivity|cbn; lia|lia|unfold cmax; cbn; pow_consts; lia]);
        cbn [bind]; unfold c_sub; (rewrite arith2_exact; change (common (promote i32) i32) with i32; try (cbn; lia); try (incty; lia));
        cbn [bind val snd]; pow_consts;
        (rewrite wrap_id; [reflexivity|lia|apply in_cty_nonneg; [assumption|lia]]).
    + change (10 ^ Z.of_nat 0) with 1. lia.
  - destruct fuel as [|fuel]; [lia|]. cbn [max_bcd].
    replace (4 * Z.of_nat (S q) + rem <? 4) with false by lia.
    replace (4 * Z.of_nat (S q) + rem - 4) with (4 * Z.of_nat q + rem) by lia.
    destruct (IH fuel rem Hrem ltac:(lia) ltac:(lia)) as [E B].
    rewrite E. cbn [bind].
    set (X := 10 ^ Z.of_nat q * 2 ^ rem) in *.
    assert (PX : 0 < X) by (unfold X; assert (0 < 10 ^ Z.of_nat q) by apply pow10_pos; assert (0 < 2 ^ rem) by (apply pow2_pos; lia); nia).
    assert (E16 : 2 ^ (4 * Z.of_nat (S q) + rem) = 16 * 2 ^ (4 * Z.of_nat q + rem)).
    { replace (4 * Z.of_nat (S q) + rem) with (4 + (4 * Z.of_nat q + rem)) by lia. rewrite pow2_add by lia. reflexivity. }
    assert (Hle : 2 ^ (4 * Z.of_nat (S q) + rem) <= 2 ^ cbits vt) by (apply pow2_le; lia).
    unfold lit, c_add.
    rewrite arith2_exact; rewrite ?common_i32_r by assumption; try lia; try (apply in_cty_promote_nonneg; [assumption|lia]).
    cbn [bind]. unfold c_mul.
    rewrite arith2_exact; rewrite ?common_promote_r, ?common_i32_l by assumption; try lia; try (apply in_cty_promote_nonneg; [assumption|lia]).
    cbn [bind]. unfold c_sub.
    rewrite arith2_exact; rewrite ?common_promote_l, ?common_i32_r by assumption; try lia; try (apply in_cty_promote_nonneg; [assumption|lia]).
    cbn [bind val snd].
    rewrite wrap_id by (first [lia | apply in_cty_nonneg; [assumption|lia]]).
    rewrite pow10_S. split; [f_equal; unfold X; lia|]. fold X. lia.
Qed.

Lemma bcd_max_split : forall w, 0 <= w -> w = 4 * Z.of_nat (Z.to_nat (w / 4)) + w mod 4 /\ 0 <= w mod 4 < 4.
Proof.
  intros w Hw. rewrite Z2Nat.id by (apply Z.div_pos; lia).
  split; [rewrite (Z.div_mod w 4) at 1 by lia; lia|apply Z.mod_pos_bound; lia].
Qed.

Lemma max_bcd_spec : forall w, 1 <= w <= 64 -> max_bcd (uty w) bcd_fuel w = Some (bcd_max w).
Proof.
  intros w Hw. destruct (bcd_max_split w ltac:(lia)) as [E R].
  assert (Hlw := lw_ge w ltac:(lia)).
  rewrite E at 2.
  destruct (max_bcd_inv (uty w) (std_uty w) eq_refl (Z.to_nat (w / 4)) bcd_fuel (w mod 4) R) as [H _].
  - unfold bcd_fuel. assert (w / 4 <= 16) by (apply Z.div_le_upper_bound; lia).
    apply Nat2Z.inj_lt. rewrite Z2Nat.id by (apply Z.div_pos; lia). lia.
  - rewrite <- E. exact Hlw.
  - rewrite H. unfold bcd_max. rewrite Z2Nat.id by (apply Z.div_pos; lia). reflexivity.
Qed.

(* CouldWriteValue when the argument is already a ValueType value (what the signature says) *)
Lemma bcd_could_write_spec : forall argty w v, 1 <= w <= 64 -> in_cty (uty w) v ->
  bcd_could_write argty w v = Some (v <=? bcd_max w).
Proof.
  intros argty w v Hw Hv. unfold bcd_could_write. rewrite max_bcd_spec by assumption. cbn [bind].
  f_equal. unfold c_le, c_cast. cbn [val snd].
  assert (Hb : 1 <= cbits (uty w)) by (cbn [cbits uty]; assert (H := lw_ge w); lia).
  rewrite wrap_id by assumption.
  destruct (max_bcd_inv (uty w) (std_uty w) eq_refl (Z.to_nat (w / 4)) bcd_fuel (w mod 4)) as [_ B].
  - apply bcd_max_split; lia.
  - unfold bcd_fuel. assert (w / 4 <= 16) by (apply Z.div_le_upper_bound; lia).
    apply Nat2Z.inj_lt. rewrite Z2Nat.id by (apply Z.div_pos; lia). lia.
  - destruct (bcd_max_split w ltac:(lia)) as [E _]. rewrite <- E. cbn [cbits uty]. apply lw_ge. lia.
  - destruct (bcd_max_split w ltac:(lia)) as [E _]. rewrite <- E in B.
    rewrite Z2Nat.id in B by (apply Z.div_pos; lia). fold (bcd_max w + 1) in B.
    assert (Hle : 2 ^ w <= 2 ^ lw w) by (apply pow2_le; assert (H := lw_ge w); lia).
    assert (0 <= bcd_max w).
    { unfold bcd_max. assert (0 < 10 ^ (w / 4)) by (apply Z.pow_pos_nonneg; [lia|apply Z.div_pos; lia]).
      assert (0 < 2 ^ (w mod 4)) by (apply pow2_pos; apply Z.mod_pos_bound; lia). nia. }
    apply in_cty_unsigned in Hv; [|reflexivity]. cbn [cbits uty] in Hv.
    apply c_cmp_sem; try apply std_uty; try (apply in_cty_unsigned; [reflexivity|cbn [cbits uty]; unfold bcd_max in *; lia]).
    left. lia.
Qed.

(* the narrowing finding: CouldWriteValue(256) on an 8-bit Bcd field called with an int argument *)
Lemma bcd_could_write_narrowing_refuted_l :
  exists argty w v, std_cty argty /\ in_cty argty v /\ 1 <= w <= 64 /\ ~ (0 <= v <= bcd_max w) /\
                    bcd_could_write argty w v = Some true.
Proof.
  exists i32, 8, 256. repeat split; try (vm_compute; congruence).
  - right; right; left; reflexivity.
  - vm_compute. intros [_ H]. apply H. reflexivity.
Qed.

(* ------------------------------------------------------------------------- *)
(* ConvertToBcd                                                               *)
(* ------------------------------------------------------------------------- *)
Lemma to_bcd_bound : forall k v, 0 <= v -> 0 <= to_bcd_spec k v < 16 ^ Z.of_nat k.
Proof.
  induction k as [|k IH]; intros v Hv; cbn [to_bcd_spec]; [change (16 ^ Z.of_nat 0) with 1; lia|].
  rewrite pow16_S. assert (0 <= v mod 10 < 10) by (apply Z.mod_pos_bound; lia).
  specialize (IH (v / 10) ltac:(apply Z.div_pos; lia)). lia.
Qed.

Lemma to_bcd_loop_inv : forall vt w (K : nat),
  std_cty vt -> csigned vt = false -> 1 <= w <= cbits vt ->
  4 * (Z.of_nat K - 1) < w <= 4 * Z.of_nat K -> 4 * Z.of_nat K <= cbits vt ->
  forall fuel (i : nat) value bcd, (i <= K)%nat -> (K - i < fuel)%nat ->
    0 <= value <= cmax vt -> 0 <= bcd < 16 ^ Z.of_nat i ->
    to_bcd_loop vt w fuel value (4 * Z.of_nat i) bcd
    = Some (bcd + 16 ^ Z.of_nat i * to_bcd_spec (K - i) value).
Proof.
  intros vt w K Hstd Hu Hw HK HKc.
  assert (Hpb := promote_bits_ge vt Hstd). assert (Hcp := cbits_promote vt Hstd).
  assert (Hpstd : std_cty (promote vt)) by (apply promote_std; assumption).
  assert (Hcm := cmax_promote vt Hstd). assert (H127 := cmax_ge_127 vt Hstd).
  assert (Hmax : cmax vt = 2 ^ cbits vt - 1) by (unfold cmax; rewrite Hu; reflexivity).
  assert (Hb1 : 1 <= cbits (promote vt)) by lia.
  induction fuel as [|fuel IH]; intros i value bcd Hi Hf Hval Hbcd; [lia|].
  cbn [to_bcd_loop].
  destruct (Nat.eq_dec i K) as [->|Hne].
  - replace (4 * Z.of_nat K <? w) with false by lia.
    replace (K - K)%nat with 0%nat by lia. cbn [to_bcd_spec]. f_equal. lia.
  - assert (HiK : (i < K)%nat) by lia.
    replace (4 * Z.of_nat i <? w) with true by lia.
    assert (P16 := pow16_pos i).
    assert (E16 : 2 ^ (4 * Z.of_nat i) = 16 ^ Z.of_nat i) by apply pow16_pow2.
    assert (Hle : 16 * 16 ^ Z.of_nat i <= 2 ^ cbits vt).
    { rewrite <- pow16_S, <- pow16_pow2. apply pow2_le. lia. }
    set (d := value mod 10). assert (Hd : 0 <= d < 10) by (apply Z.mod_pos_bound; lia).
    set (q := value / 10). assert (Hq : 0 <= q <= value) by (unfold q; split; [apply Z.div_pos; lia|apply Z.div_le_upper_bound; lia]).
    assert (HdX : 0 <= d * 16 ^ Z.of_nat i <= 9 * 16 ^ Z.of_nat i) by nia.
    unfold lit.
    (* value % 10 *)
    unfold c_rem. cbn [ty val fst snd]. rewrite common_i32_r by assumption.
    rewrite !wrap_id by (first [lia | apply in_cty_promote_nonneg; [assumption|lia]]).
    change (10 =? 0) with false. cbv iota.
    rewrite Z.quot_div_nonneg by lia. fold q.
    rewrite in_ctyb_true by (apply in_cty_promote_nonneg; [assumption|lia]).
    rewrite Z.rem_mod_nonneg by lia. fold d. cbn [bind].
    (* << shift *)
    rewrite c_shl_exact; rewrite ?promote_idem; try assumption; try lia; try (rewrite ?E16; nia).
    cbn [bind].
    (* value / 10 *)
    unfold c_div. cbn [ty val fst snd]. rewrite common_i32_r by assumption.
    rewrite !wrap_id by (first [lia | apply in_cty_promote_nonneg; [assumption|lia]]).
    change (10 =? 0) with false. cbv iota.
    rewrite Z.quot_div_nonneg by lia. fold q.
    rewrite in_ctyb_true by (apply in_cty_promote_nonneg; [assumption|lia]). cbn [bind].
    unfold c_add. rewrite arith2_exact; change (common i32 i32) with i32; try (cbn; lia); try (incty; lia).
    cbn [bind val snd].
    rewrite E16.
    rewrite c_or_exact; rewrite ?common_promote_r, ?common_same by assumption; try lia;
      try (apply in_cty_promote_nonneg; [assumption|lia]).
    cbn [val snd].
    rewrite <- E16 at 1. rewrite lor_low_high by (rewrite ?E16; lia). rewrite E16.
    rewrite !wrap_id by (first [unfold std_cty, std_bits in Hstd; lia | apply in_cty_nonneg; [assumption|lia]]).
    replace (4 * Z.of_nat i + 4) with (4 * Z.of_nat (S i)) by lia.
    rewrite (IH (S i) q (bcd + d * 16 ^ Z.of_nat i)); try lia.
    2: { rewrite pow16_S. lia. }
    f_equal. replace (K - i)%nat with (S (K - S i)) by lia. cbn [to_bcd_spec]. fold d q.
    rewrite pow16_S. ring.
Qed.

Lemma split16 : forall a b, 0 <= a < 16 -> (a + 16 * b) mod 16 = a /\ (a + 16 * b) / 16 = b.
Proof.
  intros a b Ha. replace (a + 16 * b) with (a + b * 16) by lia. split.
  - rewrite Z.mod_add by lia. apply Z.mod_small. lia.
  - rewrite Z.div_add by lia. rewrite Z.div_small by lia. lia.
Qed.

Lemma bcd_value_to_bcd : forall k v, 0 <= v -> bcd_value k (to_bcd_spec k v) = v mod 10 ^ Z.of_nat k.
Proof.
  induction k as [|k IH]; intros v Hv; cbn [bcd_value to_bcd_spec].
  - change (10 ^ Z.of_nat 0) with 1. rewrite Z.mod_1_r. reflexivity.
  - assert (Hd : 0 <= v mod 10 < 10) by (apply Z.mod_pos_bound; lia).
    destruct (split16 (v mod 10) (to_bcd_spec k (v / 10)) ltac:(lia)) as [E1 E2]. rewrite E1, E2.
    rewrite IH by (apply Z.div_pos; lia). rewrite pow10_S.
    assert (P := pow10_pos k). rewrite Z.rem_mul_r by lia. lia.
Qed.

Lemma all_nibbles_to_bcd : forall k v, 0 <= v -> all_nibbles_le9 k (to_bcd_spec k v) = true.
Proof.
  induction k as [|k IH]; intros v Hv; cbn [all_nibbles_le9 to_bcd_spec]; [reflexivity|].
  assert (Hd : 0 <= v mod 10 < 10) by (apply Z.mod_pos_bound; lia).
  destruct (split16 (v mod 10) (to_bcd_spec k (v / 10)) ltac:(lia)) as [E1 E2]. rewrite E1, E2.
  rewrite IH by (apply Z.div_pos; lia). replace (v mod 10 <=? 9) with true by lia. reflexivity.
Qed.

(* digits from the top: the most significant of k+1 digits *)
Lemma to_bcd_top : forall k v, 0 <= v ->
  to_bcd_spec (S k) v = to_bcd_spec k v + 16 ^ Z.of_nat k * ((v / 10 ^ Z.of_nat k) mod 10).
Proof.
  induction k as [|k IH]; intros v Hv.
  - cbn [to_bcd_spec]. change (16 ^ Z.of_nat 0) with 1. change (10 ^ Z.of_nat 0) with 1. rewrite Z.div_1_r. lia.
  - change (to_bcd_spec (S (S k)) v) with (v mod 10 + 16 * to_bcd_spec (S k) (v / 10)).
    rewrite IH by (apply Z.div_pos; lia). cbn [to_bcd_spec]. rewrite pow16_S, pow10_S.
    rewrite Z.div_div by (try lia; apply pow10_pos). ring.
Qed.

(* a representable value's BCD encoding fits the field *)
Lemma to_bcd_fits : forall w v, 1 <= w <= 64 -> 0 <= v <= bcd_max w ->
  to_bcd_spec (bcd_digits w) v < 2 ^ w /\ v < 10 ^ Z.of_nat (bcd_digits w).
Proof.
  intros w v Hw Hv.
  destruct (bcd_max_split w ltac:(lia)) as [E R].
  set (q := Z.to_nat (w / 4)) in *. set (r := w mod 4) in *.
  assert (Hq : Z.of_nat q = w / 4) by (unfold q; apply Z2Nat.id; apply Z.div_pos; lia).
  unfold bcd_max in Hv. fold r in Hv. rewrite <- Hq in Hv.
  assert (P10 := pow10_pos q). assert (P16 := pow16_pos q).
  assert (B := bcd_digits_bounds w ltac:(lia)).
  destruct (Z.eq_dec r 0) as [Hr0|Hr0].
  - (* w is a multiple of 4: K = q digits, v < 10^q *)
    assert (HK : bcd_digits w = q) by (apply Nat2Z.inj; lia).
    rewrite HK. rewrite Hr0 in Hv. change (2 ^ 0) with 1 in Hv.
    split; [|lia].
    replace w with (4 * Z.of_nat q) by lia. rewrite pow16_pow2. apply to_bcd_bound. lia.
  - (* a partial top nibble of r bits: K = q + 1 digits, the top digit is < 2^r *)
    assert (HK : bcd_digits w = S q) by (apply Nat2Z.inj; lia).
    rewrite HK. rewrite to_bcd_top by lia.
    assert (Pr : 0 < 2 ^ r) by (apply pow2_pos; lia).
    assert (H8 : 2 ^ r <= 8).
    { assert (C : r = 1 \/ r = 2 \/ r = 3) by lia. destruct C as [-> | [-> | ->]]; pow_consts; lia. }
    assert (Ht : v / 10 ^ Z.of_nat q < 2 ^ r) by (apply Z.div_lt_upper_bound; nia).
    assert (Ht0 : 0 <= v / 10 ^ Z.of_nat q) by (apply Z.div_pos; lia).
    rewrite (Z.mod_small (v / 10 ^ Z.of_nat q)) by lia.
    assert (Bq := to_bcd_bound q v ltac:(lia)).
    split.
    + replace w with (4 * Z.of_nat q + r) by lia. rewrite pow2_add by lia. rewrite pow16_pow2. nia.
    + rewrite pow10_S. nia.
Qed.

Lemma convert_to_bcd_spec : forall w v, 1 <= w <= 64 -> 0 <= v <= bcd_max w ->
  convert_to_bcd w v = Some (to_bcd_spec (bcd_digits w) v).
Proof.
  intros w v Hw Hv. unfold convert_to_bcd.
  assert (Hlw := lw_ge w ltac:(lia)). assert (B := bcd_digits_bounds w ltac:(lia)).
  destruct (to_bcd_fits w v Hw Hv) as [_ Hlt].
  assert (HvV : v <= cmax (uty w)).
  { assert (Bd := bcd_bound w Hw). lia. }
  replace 0 with (4 * Z.of_nat 0) at 1 by reflexivity.
  rewrite (to_bcd_loop_inv (uty w) w (bcd_digits w)); try apply std_uty; try reflexivity; try lia.
  - change (16 ^ Z.of_nat 0) with 1. rewrite Nat.sub_0_r. f_equal. lia.
  - cbn [cbits uty]. lia.
  - cbn [cbits uty]. assert (Hs := lw_std w). unfold std_bits in Hs. lia.
  - unfold bcd_fuel. lia.
Qed.

Lemma bcd_try_write_accept : forall bv bytes off w argty v, wf_field bv bytes off w ->
  0 <= v <= bcd_max w -> in_cty (uty w) v ->
  exists bs', bcd_try_write true bv argty w v = Some (true, Some bs') /\
              written bv bytes off w (to_bcd_spec (bcd_digits w) v) bs' /\
              bcd_read true (set_bytes bv bs') w = Some v /\ bcd_ok true (set_bytes bv bs') w = Some true.
Proof.
  intros bv bytes off w argty v F Hv Hin.
  pose proof F as [W Hobb Hw Hoff Hext].
  destruct (bv_ct_std bv bytes W) as [Hstd [Hu Hc]].
  assert (Hw64 : 1 <= w <= 64) by (destruct W; lia).
  assert (Hwc : w <= cbits (bv_ct bv)) by (destruct W; lia).
  destruct (to_bcd_fits w v Hw64 Hv) as [Hfit Hlt].
  assert (Hb0 := to_bcd_bound (bcd_digits w) v ltac:(lia)).
  set (u := to_bcd_spec (bcd_digits w) v) in *.
  assert (Hu' : 0 <= u < 2 ^ w) by lia.
  unfold bcd_try_write. rewrite bcd_could_write_spec by assumption.
  replace (v <=? bcd_max w) with true by lia. cbn [bind negb].
  rewrite (is_complete_wf bv bytes off w F). cbn [negb].
  rewrite (wrap_id (uty w) v) by (first [cbn [cbits uty]; assert (H := lw_ge w); lia | assumption]).
  rewrite convert_to_bcd_spec by assumption. fold u. cbn [bind].
  assert (Hle2 : 2 ^ w <= 2 ^ cbits (bv_ct bv)) by (apply pow2_le; lia).
  rewrite (wrap_id (bv_ct bv) u) by (first [lia | apply in_cty_unsigned; [assumption|lia]]).
  destruct (bv_write_field bv bytes off w u F Hu') as [bs' [Hwr Hwritten]].
  rewrite Hwr. cbn [bind]. exists bs'. split; [reflexivity|]. split; [exact Hwritten|].
  pose proof Hwritten as [Hl [HB _]].
  assert (F' := set_bytes_wf bv bytes off w bs' F Hl HB).
  rewrite (bcd_read_spec _ _ _ _ F'), (bcd_ok_spec _ _ _ _ F').
  rewrite (written_read_back bv bytes off w u bs' F Hu' Hwritten).
  unfold u. rewrite bcd_value_to_bcd, all_nibbles_to_bcd by lia.
  rewrite Z.mod_small by lia. split; reflexivity.
Qed.

Lemma bcd_try_write_reject : forall bv argty w v, 1 <= w <= 64 -> in_cty (uty w) v -> ~ (v <= bcd_max w) ->
  bcd_try_write true bv argty w v = Some (false, None).
Proof.
  intros bv argty w v Hw Hin Hv. unfold bcd_try_write. rewrite bcd_could_write_spec by assumption.
  replace (v <=? bcd_max w) with false by lia. reflexivity.
Qed.
