(* Bits/Proofs_Invert.v -- the inverse synthesised by write inference really inverts the read transform *)
From Coq Require Import ZArith List Bool Lia.
Import ListNotations.
Require Import EmbossV.Bits.InvertModel.
Open Scope Z_scope.

Section SemanticsLemmas.
  Variable other : Z -> list Z -> Z.

  Lemma find_path_zero_free : forall e, fst (find_path e) = 0%nat -> field_free e = true.
  Proof.
    fix IH 1. intros e. destruct e as [id|z| |f args]; cbn [find_path field_free]; try reflexivity; try discriminate.
    intros H.
    assert (G : forall l index fc path,
               fst ((fix go (l : list expr) (index field_count : nat) (path : list nat) {struct l} : nat * list nat :=
                       match l with
                       | [] => (field_count, path)
                       | arg :: rest =>
                           go rest (S index) (field_count + fst (find_path arg))%nat
                              (if (Nat.eqb (fst (find_path arg)) 1 && Nat.eqb field_count 0)%bool
                               then index :: snd (find_path arg) else path)
                       end) l index fc path) = 0%nat -> fc = 0%nat /\ forallb field_free l = true).
    { induction l as [|a l IHl]; intros index fc path Hg; cbn in Hg |- *.
      - split; [exact Hg|reflexivity].
      - apply IHl in Hg. destruct Hg as [Hfc Hl].
        assert (fc = 0%nat /\ fst (find_path a) = 0%nat) as [H0 Ha] by lia.
        split; [exact H0|]. rewrite (IH a Ha), Hl. reflexivity. }
    match type of H with context [Nat.eqb ?x 1] => destruct (Nat.eqb x 1) eqn:E end; cbn [fst] in H.
    - apply Nat.eqb_eq in E. rewrite E in H. discriminate.
    - apply (G args 0%nat 0%nat []). exact H.
  Qed.

  Lemma eval_field_free : forall e env env' lv, field_free e = true -> eval other env lv e = eval other env' lv e.
  Proof.
    fix IH 1. intros e env env' lv. destruct e as [id|z| |f args]; cbn [field_free eval]; try reflexivity; try discriminate.
    intros H.
    assert (M : map (eval other env lv) args = map (eval other env' lv) args).
    { induction args as [|a l IHl]; [reflexivity|]. cbn [forallb] in H. apply andb_true_iff in H. destruct H as [Ha Hl].
      cbn [map]. rewrite (IH a env env' lv Ha), (IHl Hl). reflexivity. }
    rewrite M. reflexivity.
  Qed.
End SemanticsLemmas.

(* ---------- correctness of the synthesised inverse ---------- *)
Lemma find_path_bin : forall f a0 a1,
  find_path (EFn f [a0; a1]) =
  let r0 := find_path a0 in
  let r1 := find_path a1 in
  let c := (0 + fst r0 + fst r1)%nat in
  let p0 := if (Nat.eqb (fst r0) 1 && Nat.eqb 0 0)%bool then 0%nat :: snd r0 else [] in
  let p := if (Nat.eqb (fst r1) 1 && Nat.eqb (0 + fst r0) 0)%bool then 1%nat :: snd r1 else p0 in
  if Nat.eqb c 1 then (c, p) else (c, []).
Proof. intros. reflexivity. Qed.

Lemma find_path_bin_one : forall f a0 a1, fst (find_path (EFn f [a0; a1])) = 1%nat ->
  (fst (find_path a0) = 1%nat /\ fst (find_path a1) = 0%nat /\
   snd (find_path (EFn f [a0; a1])) = 0%nat :: snd (find_path a0)) \/
  (fst (find_path a0) = 0%nat /\ fst (find_path a1) = 1%nat /\
   snd (find_path (EFn f [a0; a1])) = 1%nat :: snd (find_path a1)).
Proof.
  intros f a0 a1. rewrite find_path_bin. cbv zeta.
  destruct (find_path a0) as [c0 p0]. destruct (find_path a1) as [c1 p1]. cbn [fst snd].
  destruct (Nat.eqb (0 + c0 + c1) 1) eqn:E; cbn [fst snd]; intros H.
  - apply Nat.eqb_eq in E.
    destruct c0 as [|[|c0]]; destruct c1 as [|[|c1]]; cbn in E; try lia.
    + right. cbn. auto.
    + left. cbn. auto.
  - rewrite H in E. discriminate.
Qed.

Section Correct.
  Variable other : Z -> list Z -> Z.
  Notation ev := (eval other).

  Lemma update_same : forall env x v, update env x v x = v.
  Proof. intros. unfold update. rewrite Z.eqb_refl. reflexivity. Qed.

  Lemma invert_loop_correct : forall path e result x inv,
    fst (find_path e) = 1%nat -> snd (find_path e) = path -> field_free result = true ->
    invert_loop path e result = Some (EField x, inv) ->
    forall env v, ev (update env x (ev env v inv)) v e = ev env v result.
  Proof.
    induction path as [|i rest IH]; intros e result x inv Hc Hp Hfree Hinv env v.
    - cbn [invert_loop] in Hinv. inversion Hinv; subst. cbn [eval]. apply update_same.
    - cbn [invert_loop] in Hinv.
      destruct e as [id|z| |f args]; try discriminate.
      destruct f as [| |c]; try discriminate;
        destruct args as [|a0 [|a1 [|a2 args]]]; try discriminate.
      + (* a0 + a1 *)
        destruct (find_path_bin_one FAdd a0 a1 Hc) as [[C0 [C1 P]]|[C0 [C1 P]]]; rewrite P in Hp; inversion Hp; subst i rest.
        * assert (F1 := find_path_zero_free a1 C1).
          specialize (IH a0 (EFn FSub [result; a1]) x inv C0 eq_refl).
          cbn [field_free forallb] in IH. rewrite Hfree, F1 in IH. specialize (IH eq_refl Hinv env v).
          cbn [eval map] in IH |- *. rewrite IH.
          rewrite (eval_field_free other a1 (update env x (ev env v inv)) env v F1). lia.
        * assert (F0 := find_path_zero_free a0 C0).
          specialize (IH a1 (EFn FSub [result; a0]) x inv C1 eq_refl).
          cbn [field_free forallb] in IH. rewrite Hfree, F0 in IH. specialize (IH eq_refl Hinv env v).
          cbn [eval map] in IH |- *. rewrite IH.
          rewrite (eval_field_free other a0 (update env x (ev env v inv)) env v F0). lia.
      + (* a0 - a1 *)
        destruct (find_path_bin_one FSub a0 a1 Hc) as [[C0 [C1 P]]|[C0 [C1 P]]]; rewrite P in Hp; inversion Hp; subst i rest.
        * assert (F1 := find_path_zero_free a1 C1).
          specialize (IH a0 (EFn FAdd [result; a1]) x inv C0 eq_refl).
          cbn [field_free forallb] in IH. rewrite Hfree, F1 in IH. specialize (IH eq_refl Hinv env v).
          cbn [eval map] in IH |- *. rewrite IH.
          rewrite (eval_field_free other a1 (update env x (ev env v inv)) env v F1). lia.
        * assert (F0 := find_path_zero_free a0 C0).
          specialize (IH a1 (EFn FSub [a0; result]) x inv C1 eq_refl).
          cbn [field_free forallb] in IH. rewrite Hfree, F0 in IH. specialize (IH eq_refl Hinv env v).
          cbn [eval map] in IH |- *. rewrite IH.
          rewrite (eval_field_free other a0 (update env x (ev env v inv)) env v F0). lia.
  Qed.

  (* writing v through the virtual field: store inv[$logical_value := v] into x; the field then reads back v *)
  Theorem invert_correct_l : forall e x inv, invert e = Some (EField x, inv) ->
    forall env v, ev (update env x (ev env v inv)) v e = v.
  Proof.
    intros e x inv H env v. unfold invert, find_field_reference_path in H.
    destruct (Nat.eqb (fst (find_path e)) 1) eqn:E; [|discriminate].
    apply Nat.eqb_eq in E.
    rewrite (invert_loop_correct (snd (find_path e)) e ELogical x inv E eq_refl eq_refl H env v).
    reflexivity.
  Qed.

End Correct.

(* non-vacuity: 2 + ((3 - x) - 10), the example of the source comment *)
Example invert_example :
  invert (EFn FAdd [EConst 2; EFn FSub [EFn FSub [EConst 3; EField 7]; EConst 10]])
  = Some (EField 7, EFn FSub [EConst 3; EFn FAdd [EFn FSub [ELogical; EConst 2]; EConst 10]]).
Proof. reflexivity. Qed.
