(* Bits/Proofs_Read.v -- BitBlock / OffsetBitBlock reads and the integer-like views *)
From Coq Require Import ZArith List Bool Lia ZifyBool.
Import ListNotations.
Require Import EmbossV.Bits.Model EmbossV.Bits.Proofs_Int EmbossV.Bits.Proofs_Load.
Open Scope Z_scope.

Local Arguments Z.pow : simpl never.
Local Arguments Z.mul : simpl never.
Local Arguments Z.add : simpl never.
Local Arguments Z.sub : simpl never.
Local Arguments Z.div : simpl never.
Local Arguments Z.modulo : simpl never.
Local Arguments Z.of_nat : simpl never.
Local Arguments wrap : simpl never.

(* A view whose BitBlock is complete: [bytes] are the container's bytes. *)
Record wf_block (bv : bitview) (bytes : list Z) : Prop := {
  wf_bytes : bv_bytes bv = Some bytes;
  wf_byte : Forall byte bytes;
  wf_n : 1 <= Z.of_nat (length bytes) <= 8;
  wf_k : bv_kbits bv = 8 * Z.of_nat (length bytes);
  wf_fit : order_fits (bv_order bv) (length bytes) }.

(* ... seen through an OffsetBitBlock (offset_, size_, ok_ = true) inside the container *)
Record wf_field (bv : bitview) (bytes : list Z) (off w : Z) : Prop := {
  wf_blk : wf_block bv bytes;
  wf_obb : bv_obb bv = Some (mk_obb off w true);
  wf_w : 1 <= w;
  wf_off : 0 <= off;
  wf_ext : off + w <= 8 * Z.of_nat (length bytes) }.

Definition cv_of (bv : bitview) (bytes : list Z) : Z := container_valz (bv_order bv) bytes.

Lemma bv_ct_std : forall bv bytes, wf_block bv bytes ->
  std_cty (bv_ct bv) /\ csigned (bv_ct bv) = false /\ 8 * Z.of_nat (length bytes) <= cbits (bv_ct bv).
Proof.
  intros bv bytes W. destruct W. unfold bv_ct, uty. cbn [csigned cbits]. rewrite wf_k0.
  split; [apply lw_std|]. split; [reflexivity|]. apply lw8_ge. assumption.
Qed.

Lemma cv_bound : forall bv bytes, wf_block bv bytes ->
  0 <= cv_of bv bytes < 2 ^ (8 * Z.of_nat (length bytes)).
Proof. intros bv bytes W. apply container_valz_bound. apply W. Qed.

Lemma cv_bound_ct : forall bv bytes, wf_block bv bytes -> 0 <= cv_of bv bytes < 2 ^ cbits (bv_ct bv).
Proof.
  intros bv bytes W. destruct (bv_ct_std bv bytes W) as [_ [_ H]].
  assert (B := cv_bound bv bytes W). split; [lia|].
  eapply Z.lt_le_trans; [apply B|]. apply pow2_le. destruct W. lia.
Qed.

Lemma bitblock_read_spec : forall bv bytes, wf_block bv bytes ->
  bitblock_read true bv = Some (cv_of bv bytes).
Proof.
  intros bv bytes W. unfold bitblock_read. destruct W. rewrite wf_bytes0, wf_k0.
  apply container_load_opt; assumption.
Qed.

Lemma field_bits_bound : forall cv off w, 0 <= w -> 0 <= field_bits cv off w < 2 ^ w.
Proof. intros. unfold field_bits. apply Z.mod_pos_bound. apply pow2_pos. lia. Qed.

(* OffsetBitBlock::ReadUInt = the field's bits *)
Lemma bv_read_field : forall bv bytes off w, wf_field bv bytes off w ->
  bv_read true bv = Some (field_bits (cv_of bv bytes) off w).
Proof.
  intros bv bytes off w [W Hobb Hw Hoff Hext].
  destruct (bv_ct_std bv bytes W) as [Hstd [Hu Hc]].
  assert (Hcv := cv_bound_ct bv bytes W).
  unfold bv_read. rewrite Hobb. cbn [ob_offset ob_size ob_ok negb].
  destruct W as [Hb HB Hn Hk Hfit].
  replace (off + w <=? bv_kbits bv) with true by lia. cbn [negb].
  rewrite (bitblock_read_spec bv bytes) by (constructor; assumption).
  cbn [bind].
  rewrite mask_to_n_bits_spec by (try assumption; lia).
  cbn [bind].
  assert (Hp := cbits_promote (bv_ct bv) Hstd).
  rewrite c_shr_ok by lia.
  cbn [bind val snd].
  rewrite mod_div_pow2 by lia.
  fold (field_bits (cv_of bv bytes) off w).
  assert (Hf := field_bits_bound (cv_of bv bytes) off w ltac:(lia)).
  rewrite wrap_id; [reflexivity|lia|].
  apply in_cty_unsigned; [assumption|].
  split; [lia|]. eapply Z.lt_le_trans; [apply Hf|]. apply pow2_le. lia.
Qed.

Lemma bv_read_whole : forall bv bytes, wf_block bv bytes -> bv_obb bv = None ->
  bv_read true bv = Some (cv_of bv bytes).
Proof.
  intros bv bytes W Hobb. unfold bv_read. rewrite Hobb. apply bitblock_read_spec. assumption.
Qed.

Lemma field_bits_whole : forall cv n, 0 <= n -> 0 <= cv < 2 ^ n -> field_bits cv 0 n = cv.
Proof. intros. unfold field_bits. change (2 ^ 0) with 1. rewrite Z.div_1_r. apply Z.mod_small. lia. Qed.

(* ---------- how generated code obtains such views ---------- *)
Lemma in_firstn_in : forall (A : Type) (x : A) n l, In x (firstn n l) -> In x l.
Proof. intros A x n l H. rewrite <- (firstn_skipn n l). apply in_or_app. left. exact H. Qed.
Lemma in_skipn_in : forall (A : Type) (x : A) n l, In x (skipn n l) -> In x l.
Proof. intros A x n l H. rewrite <- (firstn_skipn n l). apply in_or_app. right. exact H. Qed.

Lemma field_bv_wf : forall o root (boff c : nat), Forall byte root ->
  1 <= Z.of_nat c <= 8 -> (boff + c <= length root)%nat -> order_fits o c ->
  wf_block (field_bv o root boff c) (sub_storage root boff c) /\ length (sub_storage root boff c) = c.
Proof.
  intros o root boff c Hb Hc Hlen Hfit.
  assert (L : length (sub_storage root boff c) = c).
  { unfold sub_storage. rewrite firstn_length, skipn_length. lia. }
  split; [|exact L].
  constructor; cbn [field_bv bv_bytes bv_kbits bv_order]; rewrite ?L; try assumption; try reflexivity.
  unfold sub_storage. apply Forall_forall. intros x Hx.
  apply (proj1 (Forall_forall byte root) Hb).
  apply (in_skipn_in _ x boff). eapply in_firstn_in. exact Hx.
Qed.

Lemma wf_block_ok : forall bv bytes, wf_block bv bytes -> bitblock_ok bv = true.
Proof.
  intros bv bytes [Hb HB Hn Hk Hfit]. unfold bitblock_ok. rewrite Hb, Hk.
  unfold orderer_size_in_bytes. destruct (bv_order bv); cbn [order_fits] in Hfit; lia.
Qed.

(* BitBlock::GetOffsetStorage *)
Lemma get_offset_storage_wf : forall bv bytes off w, wf_block bv bytes -> bv_obb bv = None ->
  1 <= w -> 0 <= off -> off + w <= 8 * Z.of_nat (length bytes) ->
  wf_field (get_offset_storage bv off w) bytes off w.
Proof.
  intros bv bytes off w W Hobb Hw Hoff Hext.
  assert (Hok := wf_block_ok bv bytes W).
  destruct W as [Hb HB Hn Hk Hfit].
  unfold get_offset_storage. rewrite Hobb.
  constructor; cbn [bv_bytes bv_kbits bv_order bv_obb]; try assumption; try lia.
  - constructor; cbn [bv_bytes bv_kbits bv_order bv_obb]; assumption.
  - unfold mk_offset_block. rewrite Hok.
    rewrite !(wrap_id u8) by (cbn; try lia; incty).
    f_equal. f_equal. lia.
Qed.

(* OffsetBitBlock::GetOffsetStorage (a bits type nested in a bits type) *)
Lemma get_offset_storage_nested_wf : forall bv bytes off1 s1 off w, wf_field bv bytes off1 s1 ->
  1 <= w -> 0 <= off -> off + w <= s1 ->
  wf_field (get_offset_storage bv off w) bytes (off1 + off) w.
Proof.
  intros bv bytes off1 s1 off w [W Hobb Hw1 Hoff1 Hext1] Hw Hoff Hext.
  destruct W as [Hb HB Hn Hk Hfit].
  unfold get_offset_storage. rewrite Hobb.
  constructor; cbn [bv_bytes bv_kbits bv_order bv_obb ob_offset ob_size ob_ok]; try assumption; try lia.
  - constructor; cbn [bv_bytes bv_kbits bv_order bv_obb]; assumption.
  - unfold mk_offset_block.
    rewrite !(wrap_id u8) by (cbn; try lia; incty).
    f_equal. f_equal. lia.
Qed.

(* ---------- UIntView ---------- *)
Lemma lw_mono : forall a b, a <= b -> lw a <= lw b.
Proof.
  intros a b H. unfold lw.
  destruct (a <=? 8) eqn:A1; destruct (b <=? 8) eqn:B1; try lia;
  destruct (a <=? 16) eqn:A2; destruct (b <=? 16) eqn:B2; try lia;
  destruct (a <=? 32) eqn:A3; destruct (b <=? 32) eqn:B3; lia.
Qed.

Lemma uint_read_spec : forall bv bytes off w, wf_field bv bytes off w ->
  uint_read true bv w = Some (field_bits (cv_of bv bytes) off w).
Proof.
  intros bv bytes off w F. unfold uint_read. rewrite (bv_read_field bv bytes off w F). cbn [bind].
  destruct F as [W _ Hw Hoff Hext].
  assert (Hf := field_bits_bound (cv_of bv bytes) off w ltac:(lia)).
  assert (Hn : w <= 64) by (destruct W; lia).
  rewrite wrap_id; [reflexivity|unfold uty; cbn [cbits]; assert (H := lw_ge w Hn); lia|].
  apply in_cty_unsigned; [reflexivity|]. unfold uty; cbn [cbits].
  split; [lia|]. eapply Z.lt_le_trans; [apply Hf|]. apply pow2_le. assert (H := lw_ge w Hn). lia.
Qed.

(* ---------- IntView::ConvertToSigned (two's complement branch) ---------- *)
Lemma twos_complement_range : forall w u, 1 <= w -> 0 <= u < 2 ^ w ->
  - 2 ^ (w - 1) <= twos_complement w u < 2 ^ (w - 1).
Proof.
  intros w u Hw Hu. unfold twos_complement. assert (E := pow2_pred w Hw).
  destruct (u <? 2 ^ (w - 1)) eqn:C; lia.
Qed.

Lemma convert_to_signed_tc_spec : forall ct w data,
  std_cty ct -> csigned ct = false -> 1 <= w <= 64 -> lw w <= cbits ct -> 0 <= data < 2 ^ w ->
  convert_to_signed_tc ct w data = Some (twos_complement w data).
Proof.
  intros ct w data Hstd Hu Hw Hlw Hd.
  unfold convert_to_signed_tc.
  set (V := lw w) in *. assert (HV := lw_std w). assert (HVw := lw_ge w ltac:(lia)). fold V in HV, HVw.
  assert (Hvt : std_cty (sty w)) by exact HV.
  change (cbits (sty w)) with V.
  set (k := V - w). assert (Hk : 0 <= k < V) by (unfold k; lia).
  assert (Pk := pow2_pos k ltac:(lia)).
  assert (EV : 2 ^ V = 2 ^ w * 2 ^ k) by (rewrite <- pow2_add by lia; f_equal; unfold k; lia).
  assert (Hlt : data * 2 ^ k < 2 ^ V) by nia.
  assert (HVc : 2 ^ V <= 2 ^ cbits ct) by (apply pow2_le; unfold std_bits in HV; lia).
  assert (Hpb := promote_bits_ge ct Hstd). assert (Hcp := cbits_promote ct Hstd).
  rewrite c_shl_exact; try assumption; try lia.
  2: { unfold cmax. rewrite Hu. lia. }
  cbn [bind].
  (* cast to the signed value type *)
  unfold c_cast. cbn [val snd].
  assert (Hpvb := promote_bits_ge (sty w) Hvt). assert (Hcpv := cbits_promote (sty w) Hvt).
  change (cbits (sty w)) with V in Hcpv.
  rewrite c_shr_ok by lia.
  cbn [bind val snd].
  assert (E1 := pow2_pred w ltac:(lia)).
  assert (EV1 : 2 ^ (V - 1) = 2 ^ (w - 1) * 2 ^ k) by (rewrite <- pow2_add by lia; f_equal; unfold k; lia).
  assert (Hwrap : wrap (sty w) (data * 2 ^ k) = twos_complement w data * 2 ^ k).
  { unfold wrap, twos_complement. change (csigned (sty w)) with true. change (cbits (sty w)) with V. cbv iota.
    rewrite Z.mod_small by nia.
    destruct (data <? 2 ^ (w - 1)) eqn:C1; destruct (data * 2 ^ k <? 2 ^ (V - 1)) eqn:C2; nia. }
  rewrite Hwrap, Z.div_mul by lia.
  assert (R := twos_complement_range w data ltac:(lia) Hd).
  rewrite wrap_id; [reflexivity|change (cbits (sty w)) with V; unfold std_bits in HV; lia|].
  unfold in_cty, cmin, cmax. change (csigned (sty w)) with true. change (cbits (sty w)) with V. cbv iota.
  assert (2 ^ (w - 1) <= 2 ^ (V - 1)) by (apply pow2_le; lia). lia.
Qed.

Lemma int_read_spec : forall bv bytes off w, wf_field bv bytes off w ->
  int_read true bv w = Some (twos_complement w (field_bits (cv_of bv bytes) off w)).
Proof.
  intros bv bytes off w F. unfold int_read. rewrite (bv_read_field bv bytes off w F). cbn [bind convert_to_signed].
  destruct F as [W _ Hw Hoff Hext].
  destruct (bv_ct_std bv bytes W) as [Hstd [Hu Hc]].
  assert (Hn : w <= 64) by (destruct W; lia).
  apply convert_to_signed_tc_spec; try assumption; try lia.
  - destruct W as [_ _ Hn' Hk _]. unfold bv_ct, uty. cbn [cbits]. rewrite Hk. apply lw_mono. lia.
  - apply field_bits_bound. lia.
Qed.

(* ---------- FlagView, EnumView, FloatView ---------- *)
Lemma flag_read_spec : forall bv bytes off, wf_field bv bytes off 1 ->
  flag_read true bv = Some (negb (field_bits (cv_of bv bytes) off 1 =? 0)).
Proof. intros bv bytes off F. unfold flag_read. rewrite (bv_read_field bv bytes off 1 F). reflexivity. Qed.

Lemma enum_read_unsigned_spec : forall bv bytes off w ut, wf_field bv bytes off w ->
  std_cty ut -> csigned ut = false -> w <= cbits ut ->
  enum_read true bv ut w = Some (field_bits (cv_of bv bytes) off w).
Proof.
  intros bv bytes off w ut F Hstd Hu Hwu. unfold enum_read. rewrite (bv_read_field bv bytes off w F). cbn [bind].
  destruct F as [W _ Hw Hoff Hext].
  assert (Hf := field_bits_bound (cv_of bv bytes) off w ltac:(lia)).
  rewrite wrap_id; [reflexivity|unfold std_cty, std_bits in Hstd; lia|].
  apply in_cty_unsigned; [assumption|]. split; [lia|].
  eapply Z.lt_le_trans; [apply Hf|]. apply pow2_le. lia.
Qed.

(* signed enum whose field is as wide as the underlying type: the cast sign-extends *)
Lemma enum_read_signed_full_spec : forall bv bytes off ut, wf_field bv bytes off (cbits ut) ->
  std_cty ut -> csigned ut = true ->
  enum_read true bv ut (cbits ut) = Some (twos_complement (cbits ut) (field_bits (cv_of bv bytes) off (cbits ut))).
Proof.
  intros bv bytes off ut F Hstd Hs. unfold enum_read. rewrite (bv_read_field bv bytes off _ F). cbn [bind].
  destruct F as [W _ Hw Hoff Hext].
  assert (Hf := field_bits_bound (cv_of bv bytes) off (cbits ut) ltac:(lia)).
  f_equal. unfold wrap, twos_complement. rewrite Hs. rewrite Z.mod_small by lia. reflexivity.
Qed.

Lemma float_read_spec : forall bv bytes off w, wf_field bv bytes off w ->
  float_read_bits true bv w = Some (field_bits (cv_of bv bytes) off w).
Proof.
  intros bv bytes off w F. unfold float_read_bits. rewrite (bv_read_field bv bytes off w F). cbn [bind].
  destruct F as [W _ Hw Hoff Hext].
  assert (Hf := field_bits_bound (cv_of bv bytes) off w ltac:(lia)).
  rewrite wrap_unsigned by reflexivity. cbn [cbits]. rewrite Z.mod_small by lia. reflexivity.
Qed.

Lemma is_complete_wf : forall bv bytes off w, wf_field bv bytes off w -> is_complete bv w = true.
Proof.
  intros bv bytes off w [W Hobb Hw Hoff Hext]. unfold is_complete, bv_ok, bv_size_in_bits. rewrite Hobb.
  cbn [ob_ok ob_size]. lia.
Qed.

