(* Bits/Proofs_Write.v -- CouldWriteValue predicates, MaskInValue, TryToWrite *)
From Coq Require Import ZArith List Bool Lia ZifyBool.
Import ListNotations.
Require Import EmbossV.Bits.Model EmbossV.Bits.Proofs_Int EmbossV.Bits.Proofs_Load EmbossV.Bits.Proofs_Read.
Open Scope Z_scope.

Local Arguments Z.pow : simpl never.
Local Arguments Z.mul : simpl never.
Local Arguments Z.add : simpl never.
Local Arguments Z.sub : simpl never.
Local Arguments Z.div : simpl never.
Local Arguments Z.modulo : simpl never.
Local Arguments Z.land : simpl never.
Local Arguments Z.lor : simpl never.
Local Arguments Z.of_nat : simpl never.
Local Arguments wrap : simpl never.

(* ------------------------------------------------------------------------- *)
(* values survive the usual arithmetic conversions when ...                   *)
(* ------------------------------------------------------------------------- *)
Lemma in_cty_common_l : forall a b x, std_cty a -> std_cty b -> in_cty a x ->
  (0 <= x \/ (csigned a = true /\ csigned b = true)) -> in_cty (common a b) x.
Proof.
  intros a b x Ha Hb Hx Hc.
  std_split a Ha; std_split b Hb;
    match goal with |- in_cty (common ?p ?q) _ => let t := eval vm_compute in (common p q) in change (common p q) with t end;
    (destruct Hc as [Hc|[Hc1 Hc2]]; [|try discriminate]); incty.
Qed.

Lemma in_cty_common_r : forall a b x, std_cty a -> std_cty b -> in_cty b x ->
  (0 <= x \/ (csigned a = true /\ csigned b = true)) -> in_cty (common a b) x.
Proof.
  intros a b x Ha Hb Hx Hc.
  std_split a Ha; std_split b Hb;
    match goal with |- in_cty (common ?p ?q) _ => let t := eval vm_compute in (common p q) in change (common p q) with t end;
    (destruct Hc as [Hc|[Hc1 Hc2]]; [|try discriminate]); incty.
Qed.

Lemma common_bits : forall a b, std_cty a -> std_cty b -> 1 <= cbits (common a b).
Proof.
  intros a b Ha Hb. std_split a Ha; std_split b Hb; vm_compute; congruence.
Qed.

Lemma c_cmp_sem : forall op a x b y, std_cty a -> std_cty b -> in_cty a x -> in_cty b y ->
  ((0 <= x /\ 0 <= y) \/ (csigned a = true /\ csigned b = true)) ->
  c_cmp op (a, x) (b, y) = op x y.
Proof.
  intros op a x b y Ha Hb Hx Hy Hc.
  apply c_cmp_exact; [apply common_bits; assumption| |].
  - apply in_cty_common_l; try assumption. destruct Hc as [[? ?]|?]; [left|right]; assumption.
  - apply in_cty_common_r; try assumption. destruct Hc as [[? ?]|?]; [left|right]; assumption.
Qed.

Lemma std_i32 : std_cty i32. Proof. right; right; left; reflexivity. Qed.
Lemma std_i64 : std_cty i64. Proof. right; right; right; reflexivity. Qed.
Lemma std_u64 : std_cty u64. Proof. right; right; right; reflexivity. Qed.
Lemma std_uty : forall w, std_cty (uty w). Proof. intros; apply lw_std. Qed.
Lemma std_sty : forall w, std_cty (sty w). Proof. intros; apply lw_std. Qed.

(* ------------------------------------------------------------------------- *)
(* UIntView::CouldWriteValue                                                  *)
(* ------------------------------------------------------------------------- *)
(* ((static_cast<ValueType>(1) << (kBits - 1)) << 1) - 1  =  2^kBits - 1, in the promoted value type *)
Lemma uint_limit : forall w, 1 <= w <= 64 ->
  (a <- c_shl (uty w, 1) (lit (w - 1)) ;; b <- c_shl a (lit 1) ;; c_sub b (lit 1))
  = Some (promote (uty w), 2 ^ w - 1).
Proof.
  intros w Hw.
  assert (Hlw := lw_ge w ltac:(lia)). assert (Hstd := std_uty w).
  assert (Hpb := promote_bits_ge (uty w) Hstd). assert (Hcp := cbits_promote (uty w) Hstd).
  change (cbits (uty w)) with (lw w) in Hcp.
  assert (E := pow2_pred w ltac:(lia)).
  assert (Hlt : 2 ^ (w - 1) < 2 ^ lw w) by (apply pow2_lt; lia).
  assert (Hle : 2 ^ w <= 2 ^ lw w) by (apply pow2_le; lia).
  unfold lit.
  rewrite c_shl_exact; try assumption; try lia.
  2: { unfold cmax; cbn [csigned cbits uty]. lia. }
  cbn [bind]. rewrite Z.mul_1_l.
  assert (Hpstd : std_cty (promote (uty w))) by (apply promote_std; assumption).
  destruct (csigned (promote (uty w))) eqn:Hs.
  - (* int: lw w <= 16 *)
    assert (Hp : promote (uty w) = i32).
    { unfold promote in *. destruct (cbits (uty w) <? 32) eqn:C; [reflexivity|]. cbn in Hs. discriminate. }
    assert (Hw16 : lw w <= 16).
    { unfold promote in Hp. destruct (cbits (uty w) <? 32) eqn:C; [|discriminate Hp].
      change (cbits (uty w)) with (lw w) in C. destruct (lw_std w) as [H|[H|[H|H]]]; lia. }
    rewrite Hp.
    assert (2 ^ lw w <= 2 ^ 16) by (apply pow2_le; lia). pow_consts.
    rewrite (c_shl_signed i32 (2 ^ (w - 1)) i32 1); try reflexivity; try (cbn; lia); try (unfold cmax; cbn; pow_consts; lia).
    cbn [bind]. change (promote i32) with i32.
    unfold c_sub. rewrite arith2_exact; change (common i32 i32) with i32; try (cbn; lia); try (incty; lia).
    f_equal. f_equal. lia.
  - (* unsigned / unsigned long: the value type itself *)
    assert (Hp : promote (uty w) = uty w).
    { unfold promote in *. destruct (cbits (uty w) <? 32) eqn:C; [cbn in Hs; discriminate|reflexivity]. }
    rewrite Hp in Hs, Hpb. rewrite Hp. change (cbits (uty w)) with (lw w) in Hpb.
    rewrite c_shl_unsigned by (rewrite ?Hp; try assumption; cbn [cbits uty]; lia).
    cbn [bind]. rewrite Hp.
    unfold c_sub. rewrite arith2_unsigned by (cbn [ty fst]; rewrite common_i32_r, Hp by assumption; reflexivity).
    cbn [ty val fst snd]. rewrite common_i32_r, Hp by assumption. cbn [cbits uty].
    f_equal. f_equal.
    assert (P : 0 < 2 ^ lw w) by (apply pow2_pos; lia).
    rewrite !(wrap_unsigned (uty w)) by reflexivity. cbn [cbits uty].
    change (2 ^ 1) with 2. replace (2 ^ (w - 1) * 2) with (2 ^ w) by lia.
    rewrite Z.mod_mod by lia.
    rewrite (Z.mod_small 1) by (assert (2 ^ 8 <= 2 ^ lw w) by (apply pow2_le; lia); pow_consts; lia).
    destruct (Z.eq_dec w (lw w)) as [Ew|Ne].
    + rewrite <- Ew. rewrite Z.mod_same by lia.
      symmetry. apply Z.mod_unique with (-1); lia.
    + assert (2 ^ w < 2 ^ lw w) by (apply pow2_lt; lia).
      rewrite (Z.mod_small (2 ^ w)) by lia. apply Z.mod_small. lia.
Qed.

Lemma uint_could_write_spec : forall argty w v, std_cty argty -> in_cty argty v -> 1 <= w <= 64 ->
  uint_could_write argty w v = Some ((0 <=? v) && (v <? 2 ^ w)).
Proof.
  intros argty w v Ha Hv Hw. unfold uint_could_write.
  assert (Hge : c_ge (argty, v) (lit 0) = (v >=? 0)).
  { unfold c_ge, lit. apply c_cmp_sem; try assumption; [apply std_i32|incty|].
    destruct (csigned argty) eqn:S; [right; split; reflexivity|left].
    apply in_cty_unsigned in Hv; [lia|assumption]. }
  rewrite Hge.
  destruct (v >=? 0) eqn:G; cbn [negb].
  2: { f_equal. lia. }
  assert (Hu := uint_limit w Hw).
  destruct (c_shl (uty w, 1) (lit (w - 1))) as [a|]; [|discriminate]. cbn [bind] in *.
  destruct (c_shl a (lit 1)) as [b|]; [|discriminate]. cbn [bind] in *.
  rewrite Hu. cbn [bind].
  f_equal.
  assert (Hstd := std_uty w). assert (Hpstd : std_cty (promote (uty w))) by (apply promote_std; assumption).
  assert (P : 0 < 2 ^ w) by (apply pow2_pos; lia).
  assert (Hvmax : v <= cmax u64).
  { destruct Hv as [_ Hv]. etransitivity; [exact Hv|]. std_split argty Ha; unfold cmax; cbn; pow_consts; lia. }
  unfold c_le, c_cast. cbn [val snd].
  rewrite (wrap_id u64) by (first [cbn; lia | apply in_cty_nonneg; [apply std_u64|lia]]).
  rewrite c_cmp_sem; try assumption; try apply std_u64.
  - lia.
  - apply in_cty_nonneg; [apply std_u64|lia].
  - apply in_cty_promote_nonneg; [assumption|]. unfold cmax; cbn [csigned cbits uty].
    assert (2 ^ w <= 2 ^ lw w) by (apply pow2_le; assert (H := lw_ge w); lia). lia.
  - left. lia.
Qed.

(* ------------------------------------------------------------------------- *)
(* IntView::CouldWriteValue                                                   *)
(* ------------------------------------------------------------------------- *)
Lemma promote_sty_signed : forall w, csigned (promote (sty w)) = true.
Proof. intros w. unfold promote. destruct (cbits (sty w) <? 32); reflexivity. Qed.

Lemma cmax_sty : forall w, cmax (sty w) = 2 ^ (lw w - 1) - 1.
Proof. reflexivity. Qed.

Lemma cmin_promote_sty : forall w, cmin (promote (sty w)) <= - 2 ^ (lw w - 1).
Proof. intros w. assert (H := cmin_promote (sty w) (std_sty w)). unfold cmin at 2 in H. cbn [csigned cbits sty] in H. exact H. Qed.

Lemma cmax_promote_sty : forall w, 2 ^ (lw w - 1) - 1 <= cmax (promote (sty w)).
Proof. intros w. assert (H := cmax_promote (sty w) (std_sty w)). rewrite cmax_sty in H. exact H. Qed.

(* (static_cast<ValueType>(1) << (kBits - 2)) * -2 = -2^(kBits-1) *)
Lemma int_lower_limit : forall w, 2 <= w <= 64 ->
  (a <- c_shl (sty w, 1) (lit (w - 2)) ;; c_mul a (lit (-2))) = Some (promote (sty w), - 2 ^ (w - 1)).
Proof.
  intros w Hw.
  assert (Hlw := lw_ge w ltac:(lia)). assert (Hstd := std_sty w).
  assert (Hpb := promote_bits_ge (sty w) Hstd). assert (Hcp := cbits_promote (sty w) Hstd).
  change (cbits (sty w)) with (lw w) in Hcp.
  assert (Hpstd : std_cty (promote (sty w))) by (apply promote_std; assumption).
  assert (E : 2 ^ (w - 1) = 2 * 2 ^ (w - 2)) by (rewrite (pow2_pred (w - 1)) by lia; do 2 f_equal; lia).
  assert (P : 0 < 2 ^ (w - 2)) by (apply pow2_pos; lia).
  assert (Hle : 2 ^ (w - 1) <= 2 ^ (lw w - 1)) by (apply pow2_le; lia).
  assert (Hmin := cmin_promote_sty w). assert (Hmax := cmax_promote_sty w).
  assert (H7 : 128 <= 2 ^ (lw w - 1)) by (change 128 with (2 ^ 7); apply pow2_le; assert (X := lw_std w); unfold std_bits in X; lia).
  unfold lit.
  rewrite c_shl_exact; try assumption; try lia.
  2: { rewrite cmax_sty. lia. }
  cbn [bind]. rewrite Z.mul_1_l.
  unfold c_mul. rewrite arith2_exact; rewrite ?common_promote_l, ?common_i32_r by assumption; try lia.
  - f_equal. f_equal. lia.
  - unfold in_cty. lia.
  - unfold in_cty. lia.
  - unfold in_cty. lia.
Qed.

(* ((static_cast<ValueType>(1) << (kBits - 2)) - 1) * 2 + 1 = 2^(kBits-1) - 1 *)
Lemma int_upper_limit : forall w, 2 <= w <= 64 ->
  (a <- c_shl (sty w, 1) (lit (w - 2)) ;; b <- c_sub a (lit 1) ;; c <- c_mul b (lit 2) ;; c_add c (lit 1))
  = Some (promote (sty w), 2 ^ (w - 1) - 1).
Proof.
  intros w Hw.
  assert (Hlw := lw_ge w ltac:(lia)). assert (Hstd := std_sty w).
  assert (Hpb := promote_bits_ge (sty w) Hstd). assert (Hcp := cbits_promote (sty w) Hstd).
  change (cbits (sty w)) with (lw w) in Hcp.
  assert (Hpstd : std_cty (promote (sty w))) by (apply promote_std; assumption).
  assert (E : 2 ^ (w - 1) = 2 * 2 ^ (w - 2)) by (rewrite (pow2_pred (w - 1)) by lia; do 2 f_equal; lia).
  assert (P : 0 < 2 ^ (w - 2)) by (apply pow2_pos; lia).
  assert (Hle : 2 ^ (w - 1) <= 2 ^ (lw w - 1)) by (apply pow2_le; lia).
  assert (Hmin := cmin_promote_sty w). assert (Hmax := cmax_promote_sty w).
  assert (H7 : 128 <= 2 ^ (lw w - 1)) by (change 128 with (2 ^ 7); apply pow2_le; assert (X := lw_std w); unfold std_bits in X; lia).
  unfold lit.
  rewrite c_shl_exact; try assumption; try lia.
  2: { rewrite cmax_sty. lia. }
  cbn [bind]. rewrite Z.mul_1_l.
  unfold c_sub. rewrite arith2_exact; rewrite ?common_promote_l, ?common_i32_r by assumption; try lia; try (unfold in_cty; lia).
  cbn [bind]. unfold c_mul. rewrite arith2_exact; rewrite ?common_promote_l, ?common_i32_r by assumption; try lia; try (unfold in_cty; lia).
  cbn [bind]. unfold c_add. rewrite arith2_exact; rewrite ?common_promote_l, ?common_i32_r by assumption; try lia; try (unfold in_cty; lia).
  f_equal. f_equal. lia.
Qed.

Lemma in_cty_i64_of_signed : forall t v, std_cty t -> csigned t = true -> in_cty t v -> in_cty i64 v.
Proof. intros t v H Hs Hv. std_split t H; try discriminate; incty. Qed.

Lemma int_could_write_spec : forall argty w v, std_cty argty -> in_cty argty v -> 1 <= w <= 64 ->
  int_could_write argty w v = Some ((- 2 ^ (w - 1) <=? v) && (v <? 2 ^ (w - 1))).
Proof.
  intros argty w v Ha Hv Hw. unfold int_could_write.
  assert (Hstd := std_sty w). assert (Hpstd : std_cty (promote (sty w))) by (apply promote_std; assumption).
  assert (Hps := promote_sty_signed w).
  assert (Hlw := lw_ge w ltac:(lia)).
  assert (Hmin := cmin_promote_sty w). assert (Hmax := cmax_promote_sty w).
  assert (Hle : 2 ^ (w - 1) <= 2 ^ (lw w - 1)) by (apply pow2_le; lia).
  assert (P : 0 < 2 ^ (w - 1)) by (apply pow2_pos; lia).
  destruct (Z.eq_dec w 1) as [->|Hne].
  - (* kBits == 1: the limits are the literals -1 and 0 *)
    change (1 =? 1) with true. cbv iota. change (2 ^ (1 - 1)) with 1.
    destruct (csigned argty) eqn:S; cbn [negb bind].
    + unfold c_ge, c_cast, lit. cbn [val snd].
      assert (H64 := in_cty_i64_of_signed argty v Ha S Hv).
      rewrite (wrap_id i64) by (first [cbn; lia|assumption]).
      rewrite c_cmp_sem; try assumption; try apply std_i64; try apply std_i32; try (incty; lia); try (right; split; reflexivity).
      destruct (v >=? -1) eqn:G; cbn [negb].
      * f_equal. unfold c_le. rewrite c_cmp_sem; try assumption; try apply std_i32; try (incty; lia); try (right; split; [assumption|reflexivity]); try lia.
      * f_equal. lia.
    + unfold c_le, lit. apply in_cty_unsigned in Hv as Hv'; [|assumption].
      rewrite c_cmp_sem; try assumption; try apply std_i32; try (incty; lia); try (left; lia).
      all: try (f_equal; lia).
  - replace (w =? 1) with false by lia. cbv iota.
    rewrite int_lower_limit by lia. rewrite int_upper_limit by lia. cbn [bind].
    assert (Hlo : in_cty (promote (sty w)) (- 2 ^ (w - 1))) by (unfold in_cty; lia).
    assert (Hhi : in_cty (promote (sty w)) (2 ^ (w - 1) - 1)) by (unfold in_cty; lia).
    destruct (csigned argty) eqn:S; cbn [negb bind].
    + unfold c_ge, c_cast. cbn [val snd].
      assert (H64 := in_cty_i64_of_signed argty v Ha S Hv).
      rewrite (wrap_id i64) by (first [cbn; lia|assumption]).
      rewrite c_cmp_sem; try assumption; try apply std_i64; try (right; split; [reflexivity|assumption]).
      destruct (v >=? - 2 ^ (w - 1)) eqn:G; cbn [negb].
      * f_equal. unfold c_le. rewrite c_cmp_sem; try assumption; try (right; split; assumption); try lia.
      * f_equal. lia.
    + unfold c_le. apply in_cty_unsigned in Hv as Hv'; [|assumption].
      rewrite c_cmp_sem; try assumption; try (left; lia).
      all: try (f_equal; lia).
Qed.

(* ------------------------------------------------------------------------- *)
(* EnumView::CouldWriteValue                                                  *)
(* ------------------------------------------------------------------------- *)
(* (static_cast<BVT>(1) << (kBits - 1)) << 1, for kBits < width of BVT: 2^kBits in the promoted type *)
Lemma enum_limit : forall ct w, std_cty ct -> csigned ct = false -> 1 <= w < cbits ct ->
  (a <- c_shl (ct, 1) (lit (w - 1)) ;; c_shl a (lit 1)) = Some (promote ct, 2 ^ w).
Proof.
  intros ct w Hstd Hu Hw.
  assert (Hpb := promote_bits_ge ct Hstd). assert (Hcp := cbits_promote ct Hstd).
  assert (Hpstd : std_cty (promote ct)) by (apply promote_std; assumption).
  assert (E := pow2_pred w ltac:(lia)).
  assert (Hlt : 2 ^ w <= 2 ^ (cbits ct - 1)) by (apply pow2_le; lia).
  assert (E2 := pow2_pred (cbits ct) ltac:(lia)).
  assert (P : 0 < 2 ^ (w - 1)) by (apply pow2_pos; lia).
  assert (Hcm := cmax_promote ct Hstd).
  assert (Hmax : cmax ct = 2 ^ cbits ct - 1) by (unfold cmax; rewrite Hu; reflexivity).
  unfold lit.
  rewrite c_shl_exact; try assumption; try lia.
  cbn [bind]. rewrite Z.mul_1_l.
  rewrite c_shl_exact; rewrite ?promote_idem; try assumption; try lia.
  all: change (2 ^ 1) with 2; try lia.
  f_equal. f_equal. lia.
Qed.

Lemma enum_could_write_unsigned_spec : forall ct ut w v,
  std_cty ct -> csigned ct = false -> std_cty ut -> csigned ut = false ->
  1 <= w <= cbits ct -> w <= cbits ut -> in_cty ut v ->
  enum_could_write ct ut w v = Some (v <? 2 ^ w).
Proof.
  intros ct ut w v Hc Hcu Hut Huu Hw Hwu Hv.
  apply in_cty_unsigned in Hv; [|assumption].
  assert (Pc : 0 < 2 ^ cbits ct) by (apply pow2_pos; unfold std_cty, std_bits in Hc; lia).
  assert (Pu : 0 < 2 ^ cbits ut) by (apply pow2_pos; unfold std_cty, std_bits in Hut; lia).
  assert (Hwc : 2 ^ w <= 2 ^ cbits ct) by (apply pow2_le; lia).
  unfold enum_could_write.
  rewrite !wrap_unsigned by assumption.
  assert (Hm : 0 <= v mod 2 ^ cbits ct < 2 ^ cbits ct) by (apply Z.mod_pos_bound; lia).
  destruct (Z_lt_le_dec v (2 ^ cbits ct)) as [Hlt|Hge].
  - rewrite (Z.mod_small v (2 ^ cbits ct)) by lia. rewrite (Z.mod_small v (2 ^ cbits ut)) by lia.
    rewrite Z.eqb_refl. cbn [negb].
    destruct (w =? cbits ct) eqn:E.
    + f_equal. assert (w = cbits ct) by lia. subst w. lia.
    + assert (HL := enum_limit ct w Hc Hcu ltac:(lia)).
      destruct (c_shl (ct, 1) (lit (w - 1))) as [a|]; [|discriminate]. cbn [bind] in *.
      rewrite HL. cbn [bind]. f_equal.
      assert (Hlt2 : 2 ^ w < 2 ^ cbits ct) by (apply pow2_lt; lia).
      assert (Pw : 0 < 2 ^ w) by (apply pow2_pos; lia).
      unfold c_lt. rewrite c_cmp_sem; [reflexivity|assumption|apply promote_std; assumption| | |left; lia].
      * apply in_cty_unsigned; [assumption|lia].
      * apply in_cty_promote_nonneg; [assumption|]. unfold cmax. rewrite Hcu. lia.
  - assert (Hne : (v =? (v mod 2 ^ cbits ct) mod 2 ^ cbits ut) = false).
    { assert (0 <= (v mod 2 ^ cbits ct) mod 2 ^ cbits ut <= v mod 2 ^ cbits ct).
      { split; [apply Z.mod_pos_bound; lia|]. apply Z.mod_le; lia. }
      lia. }
    rewrite Hne. cbn [negb]. f_equal. lia.
Qed.

(* signed enum, field as wide as both the underlying type and the container type: every value is accepted *)
Lemma enum_could_write_signed_full : forall ct ut v,
  std_cty ct -> csigned ct = false -> std_cty ut -> csigned ut = true -> cbits ut = cbits ct -> in_cty ut v ->
  enum_could_write ct ut (cbits ut) v = Some true.
Proof.
  intros ct ut v Hc Hcu Hut Hus Heq Hv.
  unfold enum_could_write.
  assert (Hb : 1 <= cbits ut) by (unfold std_cty, std_bits in Hut; lia).
  assert (Hw : wrap ut (wrap ct v) = v).
  { rewrite <- (wrap_id ut v) at 2 by assumption.
    unfold wrap at 1 3. rewrite Hus.
    replace ((wrap ct v) mod 2 ^ cbits ut) with (v mod 2 ^ cbits ut); [reflexivity|].
    rewrite Heq. symmetry. apply wrap_congr. lia. }
  rewrite Hw, Z.eqb_refl. cbn [negb]. rewrite Heq, Z.eqb_refl. reflexivity.
Qed.

(* F1, write side: -1 is representable in an 8-bit two's complement field, CouldWriteValue says no *)
Lemma enum_signed_write_refuted_l :
  exists ct ut w v, std_cty ct /\ std_cty ut /\ csigned ut = true /\ 1 <= w <= cbits ct /\ w <= cbits ut /\
    - 2 ^ (w - 1) <= v < 2 ^ (w - 1) /\ enum_could_write ct ut w v = Some false.
Proof.
  exists u8, i64, 8, (-1). repeat split; try (vm_compute; congruence).
  - left; reflexivity.
  - right; right; right; reflexivity.
Qed.

(* ------------------------------------------------------------------------- *)
(* bits                                                                       *)
(* ------------------------------------------------------------------------- *)
Lemma testbit_small : forall x k i, 0 <= x < 2 ^ k -> 0 <= k <= i -> Z.testbit x i = false.
Proof.
  intros x k i Hx Hk. destruct (Z.eq_dec x 0) as [->|Hne]; [apply Z.bits_0|].
  apply Z.bits_above_log2; [lia|].
  assert (Z.log2 x < k) by (apply Z.log2_lt_pow2; lia). lia.
Qed.

Lemma lt_pow2_of_bits : forall x k, 0 <= x -> 0 <= k ->
  (forall i, k <= i -> Z.testbit x i = false) -> x < 2 ^ k.
Proof.
  intros x k Hx Hk H.
  assert (E : x mod 2 ^ k = x).
  { apply Z.bits_inj'. intros n Hn. rewrite Z.testbit_mod_pow2 by lia.
    destruct (n <? k) eqn:C; [reflexivity|]. cbn [andb]. symmetry. apply H. lia. }
  rewrite <- E. apply Z.mod_pos_bound. apply pow2_pos. lia.
Qed.

Lemma testbit_field_bits : forall cv off w i, 0 <= off -> 0 <= w -> 0 <= i ->
  Z.testbit (field_bits cv off w) i = (i <? w) && Z.testbit cv (i + off).
Proof.
  intros cv off w i Ho Hw Hi. unfold field_bits.
  rewrite Z.testbit_mod_pow2 by lia. rewrite Z.div_pow2_bits by lia. reflexivity.
Qed.

Lemma testbit_ones_shift : forall size off i, 0 <= size -> 0 <= off ->
  Z.testbit ((2 ^ size - 1) * 2 ^ off) i = (off <=? i) && (i <? off + size).
Proof.
  intros size off i Hs Ho. rewrite Z.mul_pow2_bits by lia.
  replace (2 ^ size - 1) with (Z.ones size) by (rewrite Z.ones_equiv; lia).
  rewrite Z.testbit_ones by lia. lia.
Qed.

Lemma ones_mod : forall c s, 0 <= s <= c -> (2 ^ c - 1) mod 2 ^ s = 2 ^ s - 1.
Proof.
  intros c s H. assert (P := pow2_pos s ltac:(lia)).
  assert (E : 2 ^ c = 2 ^ (c - s) * 2 ^ s) by (rewrite <- pow2_add by lia; f_equal; lia).
  assert (P2 := pow2_pos (c - s) ltac:(lia)).
  symmetry. apply Z.mod_unique with (2 ^ (c - s) - 1); lia.
Qed.

Lemma all_ones_spec : forall ct, std_cty ct -> csigned ct = false ->
  wrap ct (val (c_not (ct, 0))) = 2 ^ cbits ct - 1.
Proof. intros ct H Hu. std_split ct H; try discriminate; reflexivity. Qed.

Lemma not_mask_spec : forall ct S, std_cty ct -> csigned ct = false -> 0 <= S < 2 ^ cbits ct ->
  wrap ct (val (c_not (promote ct, S))) = 2 ^ cbits ct - 1 - S.
Proof.
  intros ct S H Hu HS. unfold c_not. cbn [ty val fst snd]. rewrite promote_idem.
  rewrite wrap_unsigned by assumption.
  assert (P : 0 < 2 ^ cbits ct) by (apply pow2_pos; unfold std_cty, std_bits in H; lia).
  destruct (csigned (promote ct)) eqn:Hs.
  - symmetry. apply Z.mod_unique with (-1); lia.
  - assert (Hp : promote ct = ct).
    { unfold promote in *. destruct (cbits ct <? 32); [cbn in Hs; discriminate|reflexivity]. }
    rewrite Hp. apply Z.mod_small. lia.
Qed.

Lemma testbit_not_mask : forall c S i, 0 <= c -> 0 <= S < 2 ^ c -> 0 <= i ->
  Z.testbit (2 ^ c - 1 - S) i = (i <? c) && negb (Z.testbit S i).
Proof.
  intros c S i Hc HS Hi.
  assert (P : 0 < 2 ^ c) by (apply pow2_pos; lia).
  replace (2 ^ c - 1 - S) with ((Z.lnot S) mod 2 ^ c).
  - rewrite Z.testbit_mod_pow2 by lia. rewrite Z.lnot_spec by lia. reflexivity.
  - unfold Z.lnot. symmetry. apply Z.mod_unique with (-1); lia.
Qed.

Lemma lor_bound : forall a b k, 0 <= k -> 0 <= a < 2 ^ k -> 0 <= b < 2 ^ k -> 0 <= Z.lor a b < 2 ^ k.
Proof.
  intros a b k Hk Ha Hb. split; [apply Z.lor_nonneg; lia|].
  apply lt_pow2_of_bits; [apply Z.lor_nonneg; lia|lia|].
  intros i Hi. rewrite Z.lor_spec, (testbit_small a k i), (testbit_small b k i) by lia. reflexivity.
Qed.

Lemma land_bound : forall a b, 0 <= a -> 0 <= b -> 0 <= Z.land a b <= a.
Proof.
  intros a b Ha Hb. split; [apply Z.land_nonneg; lia|].
  assert (E : Z.lor (Z.land a b) (Z.land a (Z.lnot b)) = a).
  { apply Z.bits_inj'. intros n Hn. rewrite Z.lor_spec, !Z.land_spec, Z.lnot_spec by lia.
    destruct (Z.testbit a n), (Z.testbit b n); reflexivity. }
  assert (D : Z.land (Z.land a b) (Z.land a (Z.lnot b)) = 0).
  { apply Z.bits_inj'. intros n Hn. rewrite !Z.land_spec, Z.lnot_spec, Z.bits_0 by lia.
    destruct (Z.testbit a n), (Z.testbit b n); reflexivity. }
  rewrite <- Z.lxor_lor in E by exact D. rewrite <- Z.add_nocarry_lxor in E by exact D.
  assert (0 <= Z.land a (Z.lnot b)) by (apply Z.land_nonneg; lia). lia.
Qed.

(* ------------------------------------------------------------------------- *)
(* OffsetBitBlock::MaskInValue                                                *)
(* ------------------------------------------------------------------------- *)
Definition inserted (orig new off size : Z) (i : Z) : bool :=
  if (off <=? i) && (i <? off + size) then Z.testbit new (i - off) else Z.testbit orig i.

Lemma mask_in_value_spec : forall ct off size orig new,
  std_cty ct -> csigned ct = false -> 0 <= orig < 2 ^ cbits ct ->
  1 <= size -> 0 <= off -> off + size <= cbits ct -> 0 <= new < 2 ^ size ->
  exists R, mask_in_value ct off size orig new = Some R /\ 0 <= R < 2 ^ cbits ct /\
            forall i, 0 <= i -> Z.testbit R i = inserted orig new off size i.
Proof.
  intros ct off size orig new Hstd Hu Ho Hs Hoff Hext Hn.
  assert (Hpb := promote_bits_ge ct Hstd). assert (Hcp := cbits_promote ct Hstd).
  assert (Hpstd : std_cty (promote ct)) by (apply promote_std; assumption).
  assert (Hcm := cmax_promote ct Hstd).
  assert (Hmax : cmax ct = 2 ^ cbits ct - 1) by (unfold cmax; rewrite Hu; reflexivity).
  assert (Pc : 0 < 2 ^ cbits ct) by (apply pow2_pos; lia).
  assert (Ps : 0 < 2 ^ size) by (apply pow2_pos; lia).
  assert (Po : 0 < 2 ^ off) by (apply pow2_pos; lia).
  assert (Eos : 2 ^ (off + size) = 2 ^ off * 2 ^ size) by (apply pow2_add; lia).
  assert (Hos : 2 ^ (off + size) <= 2 ^ cbits ct) by (apply pow2_le; lia).
  set (Msk := (2 ^ size - 1) * 2 ^ off).
  assert (HMsk : 0 <= Msk < 2 ^ cbits ct) by (unfold Msk; nia).
  assert (HN : 0 <= new * 2 ^ off < 2 ^ cbits ct) by nia.
  unfold mask_in_value.
  rewrite all_ones_spec by assumption.
  rewrite mask_to_n_bits_spec by (try assumption; lia).
  rewrite ones_mod by lia. cbn [bind].
  rewrite c_shl_exact; try assumption; try lia.
  cbn [bind]. fold Msk.
  rewrite not_mask_spec by assumption.
  rewrite c_shl_exact; try assumption; try lia.
  cbn [bind].
  set (omask := 2 ^ cbits ct - 1 - Msk). assert (Hom : 0 <= omask < 2 ^ cbits ct) by (unfold omask; lia).
  rewrite c_and_exact; rewrite ?common_same by assumption; try lia;
    try (apply in_cty_promote_nonneg; [assumption|lia]).
  assert (HA := land_bound orig omask ltac:(lia) ltac:(lia)).
  rewrite c_or_exact; rewrite ?common_same, ?promote_idem by assumption; try lia;
    try (apply in_cty_promote_nonneg; [assumption|lia]).
  cbn [val snd].
  assert (HR := lor_bound (Z.land orig omask) (new * 2 ^ off) (cbits ct) ltac:(lia) ltac:(lia) HN).
  rewrite wrap_id by (first [lia | apply in_cty_unsigned; [assumption|lia]]).
  eexists. split; [reflexivity|]. split; [exact HR|].
  intros i Hi. unfold inserted.
  rewrite Z.lor_spec, Z.land_spec. unfold omask. rewrite testbit_not_mask by lia.
  unfold Msk at 1. rewrite testbit_ones_shift by lia. rewrite Z.mul_pow2_bits by lia.
  destruct (off <=? i) eqn:C1; destruct (i <? off + size) eqn:C2; cbn [andb negb].
  - rewrite !andb_false_r. reflexivity.
  - rewrite (testbit_small new size (i - off)) by lia. rewrite andb_true_r, orb_false_r.
    destruct (i <? cbits ct) eqn:C3; [apply andb_true_r|].
    rewrite andb_false_r. symmetry. apply (testbit_small orig (cbits ct)); [exact Ho|].
    apply Z.ltb_ge in C3. lia.
  - rewrite (Z.testbit_neg_r new (i - off)) by lia. rewrite andb_true_r, orb_false_r.
    replace (i <? cbits ct) with true by lia. apply andb_true_r.
  - lia.
Qed.

(* ------------------------------------------------------------------------- *)
(* OffsetBitBlock::WriteUInt                                                  *)
(* ------------------------------------------------------------------------- *)
(* the same view over the container's new bytes *)
Definition set_bytes (bv : bitview) (bs : list Z) : bitview :=
  mk_bv (bv_order bv) (bv_kbits bv) (Some bs) (bv_obb bv).

Lemma set_bytes_wf : forall bv bytes off w bs', wf_field bv bytes off w ->
  length bs' = length bytes -> Forall byte bs' -> wf_field (set_bytes bv bs') bs' off w.
Proof.
  intros bv bytes off w bs' [[Hb HB Hn Hk Hfit] Hobb Hw Hoff Hext] Hl HB'.
  constructor; cbn [set_bytes bv_obb]; rewrite ?Hl; try assumption.
  constructor; cbn [set_bytes bv_bytes bv_kbits bv_order]; rewrite ?Hl; try assumption. reflexivity.
Qed.

Definition written (bv : bitview) (bytes : list Z) (off w v : Z) (bs' : list Z) : Prop :=
  length bs' = length bytes /\ Forall byte bs' /\
  forall i, 0 <= i -> Z.testbit (container_valz (bv_order bv) bs') i = inserted (cv_of bv bytes) v off w i.

Lemma bv_write_field : forall bv bytes off w v, wf_field bv bytes off w -> 0 <= v < 2 ^ w ->
  exists bs', bv_write true bv v = Some bs' /\ written bv bytes off w v bs'.
Proof.
  intros bv bytes off w v F Hv.
  pose proof F as [W Hobb Hw Hoff Hext].
  destruct (bv_ct_std bv bytes W) as [Hstd [Hu Hc]].
  assert (Hcv := cv_bound bv bytes W). assert (Hcvc := cv_bound_ct bv bytes W).
  pose proof W as [Hb HB Hn Hk Hfit].
  assert (Hwc : 2 ^ w <= 2 ^ cbits (bv_ct bv)) by (apply pow2_le; lia).
  unfold bv_write. rewrite Hobb. cbn [ob_offset ob_size ob_ok].
  rewrite mask_to_n_bits_spec by (try assumption; lia).
  rewrite Z.mod_small by lia. cbn [bind]. rewrite Z.eqb_refl. cbn [negb].
  rewrite (bitblock_read_spec bv bytes W). cbn [bind].
  destruct (mask_in_value_spec (bv_ct bv) off w (cv_of bv bytes) v) as [R [HR [HRb Hbits]]]; try assumption; try lia.
  rewrite HR. cbn [bind].
  assert (HR8 : R < 2 ^ (8 * Z.of_nat (length bytes))).
  { apply lt_pow2_of_bits; try lia. intros i Hi. rewrite Hbits by lia. unfold inserted.
    replace ((off <=? i) && (i <? off + w)) with false by lia.
    apply (testbit_small _ (8 * Z.of_nat (length bytes))); lia. }
  unfold bitblock_write. rewrite Hb.
  rewrite mask_to_n_bits_spec by (try assumption; lia).
  rewrite Hk. rewrite (Z.mod_small R) by lia. cbn [bind]. rewrite Z.eqb_refl. cbn [negb].
  destruct (container_store_opt (bv_order bv) bytes R Hn Hfit ltac:(lia)) as [bs' [Hs [Hl [HB' Hval]]]].
  exists bs'. split; [exact Hs|]. split; [exact Hl|]. split; [exact HB'|].
  intros i Hi. rewrite Hval. apply Hbits. exact Hi.
Qed.

(* reading the field back gives the written value; all other bits of the container are unchanged *)
Lemma written_read_back : forall bv bytes off w v bs', wf_field bv bytes off w -> 0 <= v < 2 ^ w ->
  written bv bytes off w v bs' ->
  field_bits (cv_of (set_bytes bv bs') bs') off w = v.
Proof.
  intros bv bytes off w v bs' [W Hobb Hw Hoff Hext] Hv [Hl [HB Hbits]].
  apply Z.bits_inj'. intros i Hi.
  rewrite testbit_field_bits by lia. unfold cv_of. cbn [set_bytes bv_order].
  rewrite Hbits by lia. unfold inserted.
  destruct (i <? w) eqn:C.
  - replace ((off <=? i + off) && (i + off <? off + w)) with true by lia. cbn [andb]. f_equal. lia.
  - cbn [andb]. symmetry. apply (testbit_small v w); lia.
Qed.

Lemma written_frame : forall bv bytes off w v bs' i, written bv bytes off w v bs' ->
  0 <= i -> (i < off \/ off + w <= i) ->
  Z.testbit (container_valz (bv_order bv) bs') i = Z.testbit (cv_of bv bytes) i.
Proof.
  intros bv bytes off w v bs' i [_ [_ Hbits]] Hi Hout. rewrite Hbits by lia. unfold inserted.
  replace ((off <=? i) && (i <? off + w)) with false by lia. reflexivity.
Qed.

(* ------------------------------------------------------------------------- *)
(* TryToWrite                                                                 *)
(* ------------------------------------------------------------------------- *)
Lemma uint_try_write_accept : forall bv bytes off w argty v, wf_field bv bytes off w ->
  std_cty argty -> in_cty argty v -> 0 <= v < 2 ^ w ->
  exists bs', uint_try_write true bv argty w v = Some (true, Some bs') /\ written bv bytes off w v bs' /\
              uint_read true (set_bytes bv bs') w = Some v.
Proof.
  intros bv bytes off w argty v F Ha Hin Hv.
  pose proof F as [W Hobb Hw Hoff Hext].
  destruct (bv_ct_std bv bytes W) as [Hstd [Hu Hc]].
  assert (Hw64 : w <= 64) by (destruct W; lia).
  assert (Hlw := lw_ge w Hw64).
  unfold uint_try_write. rewrite uint_could_write_spec by (try assumption; lia).
  replace ((0 <=? v) && (v <? 2 ^ w)) with true by lia. cbn [bind negb].
  rewrite (is_complete_wf bv bytes off w F). cbn [negb].
  assert (E1 : wrap (uty w) v = v).
  { apply wrap_id; [cbn [cbits uty]; lia|]. apply in_cty_unsigned; [reflexivity|]. cbn [cbits uty].
    assert (2 ^ w <= 2 ^ lw w) by (apply pow2_le; lia). lia. }
  assert (E2 : wrap (bv_ct bv) v = v).
  { apply wrap_id; [destruct W; lia|]. apply in_cty_unsigned; [assumption|].
    assert (2 ^ w <= 2 ^ cbits (bv_ct bv)) by (apply pow2_le; destruct W; lia). lia. }
  rewrite E1, E2.
  destruct (bv_write_field bv bytes off w v F Hv) as [bs' [Hwr Hwritten]].
  rewrite Hwr. cbn [bind]. exists bs'. split; [reflexivity|]. split; [exact Hwritten|].
  pose proof Hwritten as [Hl [HB _]].
  rewrite (uint_read_spec _ _ _ _ (set_bytes_wf bv bytes off w bs' F Hl HB)).
  f_equal. eapply written_read_back; eassumption.
Qed.

Lemma uint_try_write_reject : forall bv argty w v, std_cty argty -> in_cty argty v -> 1 <= w <= 64 ->
  ~ (0 <= v < 2 ^ w) -> uint_try_write true bv argty w v = Some (false, None).
Proof.
  intros bv argty w v Ha Hin Hw Hv. unfold uint_try_write.
  rewrite uint_could_write_spec by assumption.
  replace ((0 <=? v) && (v <? 2 ^ w)) with false by lia. reflexivity.
Qed.

Lemma mod_mod_pow2 : forall a c w, 0 <= w <= c -> (a mod 2 ^ c) mod 2 ^ w = a mod 2 ^ w.
Proof.
  intros a c w H. apply Z.bits_inj'. intros i Hi.
  rewrite !Z.testbit_mod_pow2 by lia.
  destruct (i <? w) eqn:C; [|reflexivity]. replace (i <? c) with true by lia. reflexivity.
Qed.

Lemma twos_complement_mod : forall w v, 1 <= w -> - 2 ^ (w - 1) <= v < 2 ^ (w - 1) ->
  twos_complement w (v mod 2 ^ w) = v.
Proof.
  intros w v Hw Hv. assert (E := pow2_pred w Hw). assert (P : 0 < 2 ^ (w - 1)) by (apply pow2_pos; lia).
  unfold twos_complement.
  destruct (Z_lt_le_dec v 0).
  - replace (v mod 2 ^ w) with (v + 2 ^ w) by (apply Z.mod_unique with (-1); lia).
    replace (v + 2 ^ w <? 2 ^ (w - 1)) with false by lia. lia.
  - rewrite Z.mod_small by lia. replace (v <? 2 ^ (w - 1)) with true by lia. reflexivity.
Qed.

Lemma int_try_write_accept : forall bv bytes off w argty v, wf_field bv bytes off w ->
  std_cty argty -> in_cty argty v -> - 2 ^ (w - 1) <= v < 2 ^ (w - 1) ->
  exists bs', int_try_write true bv argty w v = Some (true, Some bs') /\
              written bv bytes off w (v mod 2 ^ w) bs' /\
              int_read true (set_bytes bv bs') w = Some v.
Proof.
  intros bv bytes off w argty v F Ha Hin Hv.
  pose proof F as [W Hobb Hw Hoff Hext].
  destruct (bv_ct_std bv bytes W) as [Hstd [Hu Hc]].
  assert (Hw64 : w <= 64) by (destruct W; lia).
  assert (Hwc : w <= cbits (bv_ct bv)) by (destruct W; lia).
  assert (P : 0 < 2 ^ w) by (apply pow2_pos; lia).
  unfold int_try_write. rewrite int_could_write_spec by (try assumption; lia).
  replace ((- 2 ^ (w - 1) <=? v) && (v <? 2 ^ (w - 1))) with true by lia. cbn [bind negb].
  rewrite (is_complete_wf bv bytes off w F). cbn [negb].
  assert (Hm : 0 <= v mod 2 ^ w < 2 ^ w) by (apply Z.mod_pos_bound; lia).
  rewrite mask_to_n_bits_spec; try assumption; try lia.
  2: { rewrite wrap_unsigned by assumption. apply Z.mod_pos_bound. apply pow2_pos. lia. }
  rewrite wrap_unsigned by assumption. rewrite mod_mod_pow2 by lia. cbn [bind].
  destruct (bv_write_field bv bytes off w (v mod 2 ^ w) F Hm) as [bs' [Hwr Hwritten]].
  rewrite Hwr. cbn [bind]. exists bs'. split; [reflexivity|]. split; [exact Hwritten|].
  pose proof Hwritten as [Hl [HB _]].
  rewrite (int_read_spec _ _ _ _ (set_bytes_wf bv bytes off w bs' F Hl HB)).
  f_equal. rewrite (written_read_back bv bytes off w (v mod 2 ^ w) bs' F Hm Hwritten).
  apply twos_complement_mod; lia.
Qed.

Lemma int_try_write_reject : forall bv argty w v, std_cty argty -> in_cty argty v -> 1 <= w <= 64 ->
  ~ (- 2 ^ (w - 1) <= v < 2 ^ (w - 1)) -> int_try_write true bv argty w v = Some (false, None).
Proof.
  intros bv argty w v Ha Hin Hw Hv. unfold int_try_write.
  rewrite int_could_write_spec by assumption.
  replace ((- 2 ^ (w - 1) <=? v) && (v <? 2 ^ (w - 1))) with false by lia. reflexivity.
Qed.

Lemma enum_try_write_unsigned_accept : forall bv bytes off w ut v, wf_field bv bytes off w ->
  std_cty ut -> csigned ut = false -> w <= cbits ut -> 0 <= v < 2 ^ w ->
  exists bs', enum_try_write true bv ut w v = Some (true, Some bs') /\ written bv bytes off w v bs' /\
              enum_read true (set_bytes bv bs') ut w = Some v.
Proof.
  intros bv bytes off w ut v F Hut Huu Hwu Hv.
  pose proof F as [W Hobb Hw Hoff Hext].
  destruct (bv_ct_std bv bytes W) as [Hstd [Hu Hc]].
  assert (Hwc : w <= cbits (bv_ct bv)) by (destruct W; lia).
  assert (Hle : 2 ^ w <= 2 ^ cbits ut) by (apply pow2_le; lia).
  assert (Hle2 : 2 ^ w <= 2 ^ cbits (bv_ct bv)) by (apply pow2_le; lia).
  unfold enum_try_write.
  rewrite enum_could_write_unsigned_spec; try assumption; try lia.
  2: { apply in_cty_unsigned; [assumption|lia]. }
  replace (v <? 2 ^ w) with true by lia. cbn [bind negb].
  rewrite (is_complete_wf bv bytes off w F). cbn [negb].
  rewrite (wrap_id (bv_ct bv) v) by (first [lia | apply in_cty_unsigned; [assumption|lia]]).
  destruct (bv_write_field bv bytes off w v F Hv) as [bs' [Hwr Hwritten]].
  rewrite Hwr. cbn [bind]. exists bs'. split; [reflexivity|]. split; [exact Hwritten|].
  pose proof Hwritten as [Hl [HB _]].
  rewrite (enum_read_unsigned_spec _ _ _ _ ut (set_bytes_wf bv bytes off w bs' F Hl HB)) by assumption.
  f_equal. eapply written_read_back; eassumption.
Qed.

Lemma flag_try_write_ok : forall bv bytes off (b : bool), wf_field bv bytes off 1 ->
  exists bs', flag_try_write true bv b = Some (true, Some bs') /\ written bv bytes off 1 (if b then 1 else 0) bs' /\
              flag_read true (set_bytes bv bs') = Some b.
Proof.
  intros bv bytes off b F.
  pose proof F as [W Hobb Hw Hoff Hext].
  unfold flag_try_write, flag_is_complete, bv_ok, bv_size_in_bits. rewrite Hobb. cbn [ob_ok ob_size andb negb].
  change (0 <? 1) with true. cbn [negb].
  assert (Hv : 0 <= (if b then 1 else 0) < 2 ^ 1) by (destruct b; pow_consts; lia).
  destruct (bv_write_field bv bytes off 1 _ F Hv) as [bs' [Hwr Hwritten]].
  rewrite Hwr. cbn [bind]. exists bs'. split; [reflexivity|]. split; [exact Hwritten|].
  pose proof Hwritten as [Hl [HB _]].
  rewrite (flag_read_spec _ _ _ (set_bytes_wf bv bytes off 1 bs' F Hl HB)).
  rewrite (written_read_back bv bytes off 1 _ bs' F Hv Hwritten). destruct b; reflexivity.
Qed.

Lemma float_try_write_ok : forall bv bytes off w bits, wf_field bv bytes off w -> 0 <= bits < 2 ^ w ->
  exists bs', float_try_write true bv w bits = Some (true, Some bs') /\ written bv bytes off w bits bs' /\
              float_read_bits true (set_bytes bv bs') w = Some bits.
Proof.
  intros bv bytes off w bits F Hv.
  pose proof F as [W Hobb Hw Hoff Hext].
  destruct (bv_ct_std bv bytes W) as [Hstd [Hu Hc]].
  assert (Hwc : w <= cbits (bv_ct bv)) by (destruct W; lia).
  assert (Hle2 : 2 ^ w <= 2 ^ cbits (bv_ct bv)) by (apply pow2_le; lia).
  unfold float_try_write. rewrite (is_complete_wf bv bytes off w F). cbn [negb].
  rewrite (wrap_id (bv_ct bv) bits) by (first [lia | apply in_cty_unsigned; [assumption|lia]]).
  destruct (bv_write_field bv bytes off w bits F Hv) as [bs' [Hwr Hwritten]].
  rewrite Hwr. cbn [bind]. exists bs'. split; [reflexivity|]. split; [exact Hwritten|].
  pose proof Hwritten as [Hl [HB _]].
  rewrite (float_read_spec _ _ _ _ (set_bytes_wf bv bytes off w bs' F Hl HB)).
  f_equal. eapply written_read_back; eassumption.
Qed.

(* a write that reports failure produces no bytes: the buffer is untouched *)
Lemma failed_write_no_bytes :
  (forall opt bv argty w v r, uint_try_write opt bv argty w v = Some (false, r) -> r = None) /\
  (forall opt bv argty w v r, int_try_write opt bv argty w v = Some (false, r) -> r = None) /\
  (forall opt bv argty w v r, bcd_try_write opt bv argty w v = Some (false, r) -> r = None) /\
  (forall opt bv ut w v r, enum_try_write opt bv ut w v = Some (false, r) -> r = None) /\
  (forall opt bv v r, flag_try_write opt bv v = Some (false, r) -> r = None) /\
  (forall opt bv w v r, float_try_write opt bv w v = Some (false, r) -> r = None).
Proof.
  repeat split; intros.
  - unfold uint_try_write in H. destruct (uint_could_write argty w v) as [[|]|]; cbn [bind negb] in H; try discriminate; try congruence.
    destruct (is_complete bv w); cbn [bind negb] in H; try congruence.
    destruct (bv_write opt bv _); cbn [bind negb] in H; congruence.
  - unfold int_try_write in H. destruct (int_could_write argty w v) as [[|]|]; cbn [bind negb] in H; try discriminate; try congruence.
    destruct (is_complete bv w); cbn [bind negb] in H; try congruence.
    destruct (mask_to_n_bits _ _ _); cbn [bind negb] in H; try congruence.
    destruct (bv_write opt bv _); cbn [bind negb] in H; congruence.
  - unfold bcd_try_write in H. destruct (bcd_could_write argty w v) as [[|]|]; cbn [bind negb] in H; try discriminate; try congruence.
    destruct (is_complete bv w); cbn [bind negb] in H; try congruence.
    destruct (convert_to_bcd _ _); cbn [bind negb] in H; try congruence.
    destruct (bv_write opt bv _); cbn [bind negb] in H; congruence.
  - unfold enum_try_write in H. destruct (enum_could_write _ ut w v) as [[|]|]; cbn [bind negb] in H; try discriminate; try congruence.
    destruct (is_complete bv w); cbn [bind negb] in H; try congruence.
    destruct (bv_write opt bv _); cbn [bind negb] in H; congruence.
  - unfold flag_try_write in H. destruct (flag_is_complete bv); cbn [bind negb] in H; try congruence.
    destruct (bv_write opt bv _); cbn [bind negb] in H; congruence.
  - unfold float_try_write in H. destruct (is_complete bv w); cbn [bind negb] in H; try congruence.
    destruct (bv_write opt bv _); cbn [bind negb] in H; congruence.
Qed.

(* TryToWrite succeeds exactly when CouldWriteValue holds and the view IsComplete *)
Lemma uint_try_write_iff : forall opt bv argty w v bs,
  uint_try_write opt bv argty w v = Some (true, Some bs) ->
  uint_could_write argty w v = Some true /\ is_complete bv w = true.
Proof.
  intros. unfold uint_try_write in H. destruct (uint_could_write argty w v) as [[|]|]; cbn [bind negb] in H; try discriminate.
  destruct (is_complete bv w); cbn [bind negb] in H; try discriminate. split; reflexivity.
Qed.

Lemma int_try_write_iff : forall opt bv argty w v bs,
  int_try_write opt bv argty w v = Some (true, Some bs) ->
  int_could_write argty w v = Some true /\ is_complete bv w = true.
Proof.
  intros. unfold int_try_write in H. destruct (int_could_write argty w v) as [[|]|]; cbn [bind negb] in H; try discriminate.
  destruct (is_complete bv w); cbn [bind negb] in H; try discriminate. split; reflexivity.
Qed.

Lemma incomplete_write_fails : forall opt bv argty w v, is_complete bv w = false ->
  (forall b, uint_could_write argty w v = Some b -> uint_try_write opt bv argty w v = Some (false, None)) /\
  (forall b, int_could_write argty w v = Some b -> int_try_write opt bv argty w v = Some (false, None)).
Proof.
  intros opt bv argty w v Hc. split; intros b Hb.
  - unfold uint_try_write. rewrite Hb, Hc. destruct b; reflexivity.
  - unfold int_try_write. rewrite Hb, Hc. destruct b; reflexivity.
Qed.

(* ------------------------------------------------------------------------- *)
(* the root buffer                                                            *)
(* ------------------------------------------------------------------------- *)
Lemma splice_length : forall root boff bs, (boff + length bs <= length root)%nat ->
  length (splice root boff bs) = length root.
Proof.
  intros. unfold splice. rewrite !app_length, firstn_length, skipn_length. lia.
Qed.

Lemma splice_outside : forall root boff bs i d, (boff + length bs <= length root)%nat ->
  (i < boff \/ boff + length bs <= i)%nat -> nth i (splice root boff bs) d = nth i root d.
Proof.
  intros root boff bs i d Hl Hi. unfold splice.
  destruct Hi as [Hi|Hi].
  - rewrite app_nth1 by (rewrite firstn_length; lia).
    rewrite <- (firstn_skipn boff root) at 2. rewrite app_nth1 by (rewrite firstn_length; lia). reflexivity.
  - rewrite app_nth2 by (rewrite firstn_length; lia). rewrite firstn_length.
    rewrite app_nth2 by lia.
    replace (Init.Nat.min boff (length root)) with boff by lia.
    rewrite <- (firstn_skipn (boff + length bs) root) at 2.
    rewrite app_nth2 by (rewrite firstn_length; lia). rewrite firstn_length.
    f_equal. lia.
Qed.

Lemma sub_storage_splice : forall root boff bs, (boff + length bs <= length root)%nat ->
  sub_storage (splice root boff bs) boff (length bs) = bs.
Proof.
  intros root boff bs Hl. unfold sub_storage, splice.
  rewrite skipn_app, firstn_length. replace (Init.Nat.min boff (length root)) with boff by lia.
  rewrite skipn_all2 by (rewrite firstn_length; lia).
  replace (boff - boff)%nat with 0%nat by lia. cbn [skipn app].
  rewrite firstn_app, Nat.sub_diag. cbn [firstn]. rewrite app_nil_r. apply firstn_all.
Qed.

(* IsComplete() of a field of a struct <-> the container's bytes are present
   (for every byte order whose orderer reports the buffer's real size) *)
Lemma is_complete_iff_present : forall o root (boff c : nat) off w,
  o <> Null -> 1 <= Z.of_nat c <= 8 -> order_fits o c -> 1 <= w -> 0 <= off -> off + w <= 8 * Z.of_nat c ->
  (is_complete (get_offset_storage (field_bv o root boff c) off w) w = true <-> (boff + c <= length root)%nat).
Proof.
  intros o root boff c off w Ho Hc Hfit Hw Hoff Hext.
  unfold is_complete, bv_ok, bv_size_in_bits, get_offset_storage, field_bv. cbn [bv_obb bv_bytes bv_order bv_kbits].
  unfold mk_offset_block. cbn [ob_ok ob_size].
  rewrite !(wrap_id u8) by (first [cbn; lia | incty]).
  unfold bitblock_ok. cbn [bv_bytes bv_order bv_kbits].
  assert (L : length (sub_storage root boff c) = Nat.min c (length root - boff)).
  { unfold sub_storage. rewrite firstn_length, skipn_length. reflexivity. }
  unfold orderer_size_in_bytes. destruct o; try congruence; rewrite L; lia.
Qed.

(* the Null byte orderer of the tree claims one byte whatever the buffer holds: the field of a struct whose
   byte is absent reports IsComplete() *)
Lemma null_short_complete_refuted_l :
  exists root (boff c : nat) off w, ~ (boff + c <= length root)%nat /\
    is_complete (get_offset_storage (field_bv Null root boff c) off w) w = true /\
    uint_read true (get_offset_storage (field_bv Null root boff c) off w) w = None.
Proof. exists [7], 1%nat, 1%nat, 0, 4. split; [cbn; lia|]. split; reflexivity. Qed.

(* ---------- [requires]: CouldWriteValue = representable && validator(value) ---------- *)
Lemma uint_could_write_req_spec : forall vok argty w v, std_cty argty -> in_cty argty v -> 1 <= w <= 64 ->
  uint_could_write_req vok argty w v = Some ((0 <=? v) && (v <? 2 ^ w) && vok v).
Proof.
  intros vok argty w v Ha Hv Hw. unfold uint_could_write_req. rewrite uint_could_write_spec by assumption. cbn [bind].
  destruct ((0 <=? v) && (v <? 2 ^ w)) eqn:E; [|reflexivity]. cbn [andb].
  assert (Hlw := lw_ge w ltac:(lia)). assert (2 ^ w <= 2 ^ lw w) by (apply pow2_le; lia).
  rewrite wrap_id; [reflexivity|cbn [cbits uty]; lia|]. apply in_cty_unsigned; [reflexivity|]. cbn [cbits uty]. lia.
Qed.

Lemma int_could_write_req_spec : forall vok argty w v, std_cty argty -> in_cty argty v -> 1 <= w <= 64 ->
  int_could_write_req vok argty w v = Some ((- 2 ^ (w - 1) <=? v) && (v <? 2 ^ (w - 1)) && vok v).
Proof.
  intros vok argty w v Ha Hv Hw. unfold int_could_write_req. rewrite int_could_write_spec by assumption. cbn [bind].
  destruct ((- 2 ^ (w - 1) <=? v) && (v <? 2 ^ (w - 1))) eqn:E; [|reflexivity]. cbn [andb].
  assert (Hlw := lw_ge w ltac:(lia)). assert (2 ^ (w - 1) <= 2 ^ (lw w - 1)) by (apply pow2_le; lia).
  rewrite wrap_id; [reflexivity|cbn [cbits sty]; lia|]. unfold in_cty, cmin, cmax. cbn [csigned cbits sty]. lia.
Qed.

Lemma could_write_requires_l : forall vok argty w v, std_cty argty -> in_cty argty v -> 1 <= w <= 64 ->
  uint_could_write_req vok argty w v = Some ((0 <=? v) && (v <? 2 ^ w) && vok v) /\
  int_could_write_req vok argty w v = Some ((- 2 ^ (w - 1) <=? v) && (v <? 2 ^ (w - 1)) && vok v).
Proof. intros; split; [apply uint_could_write_req_spec|apply int_could_write_req_spec]; assumption. Qed.
