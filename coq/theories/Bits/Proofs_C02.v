(* Bits/Proofs_C02.v -- the C02 statements at the [list N] interface *)
From Coq Require Import ZArith NArith List Bool Lia ZifyBool.
Import ListNotations.
Require Import EmbossV.Bits.Model EmbossV.Bits.Proofs_Int EmbossV.Bits.Proofs_Load EmbossV.Bits.Proofs_Read
               EmbossV.Bits.Proofs_Bcd EmbossV.Bits.Proofs_Write EmbossV.Bits.Proofs_Portable.
Open Scope Z_scope.

Local Arguments Z.pow : simpl never.
Local Arguments Z.mul : simpl never.
Local Arguments Z.add : simpl never.
Local Arguments Z.sub : simpl never.
Local Arguments Z.div : simpl never.
Local Arguments Z.modulo : simpl never.
Local Arguments Z.of_nat : simpl never.
Local Arguments wrap : simpl never.

(* a container: 1..8 bytes, each < 256; the Null byte order only for one byte *)
Definition container_ok (o : order) (bs : list N) : Prop :=
  bytes_ok bs /\ 1 <= Z.of_nat (length bs) <= 8 /\ order_fits o (length bs).
(* a field inside it *)
Definition field_ok (bs : list N) (off w : Z) : Prop :=
  1 <= w /\ 0 <= off /\ off + w <= 8 * Z.of_nat (length bs).

Definition cvz (o : order) (bs : list N) : Z := Z.of_N (container_val o bs).

Lemma zbytes_byte : forall bs, bytes_ok bs -> Forall byte (zbytes bs).
Proof.
  intros bs H. unfold zbytes. apply Forall_forall. intros x Hx. apply in_map_iff in Hx.
  destruct Hx as [b [<- Hb]]. apply (proj1 (Forall_forall _ _) H) in Hb. unfold byte. lia.
Qed.

Lemma zbytes_length : forall bs, length (zbytes bs) = length bs.
Proof. intros. apply map_length. Qed.

Lemma cvz_eq : forall o bs, bytes_ok bs -> cvz o bs = container_valz o (zbytes bs).
Proof.
  intros o bs H. unfold cvz, container_val. rewrite Z2N.id; [reflexivity|].
  apply container_valz_bound. apply zbytes_byte. assumption.
Qed.

Lemma whole_field_wf : forall o bs, container_ok o bs -> wf_block (whole_field o bs) (zbytes bs).
Proof.
  intros o bs [Hb [Hn Hfit]]. unfold whole_field.
  destruct (field_bv_wf o (zbytes bs) 0 (length bs)) as [W L].
  - apply zbytes_byte; assumption.
  - assumption.
  - rewrite zbytes_length. lia.
  - assumption.
  - replace (sub_storage (zbytes bs) 0 (length bs)) with (zbytes bs) in W; [exact W|].
    unfold sub_storage. cbn [skipn]. rewrite <- (zbytes_length bs). symmetry. apply firstn_all.
Qed.

Lemma bits_field_wf : forall o bs off w, container_ok o bs -> field_ok bs off w ->
  wf_field (bits_field o bs off w) (zbytes bs) off w.
Proof.
  intros o bs off w C [Hw [Hoff Hext]]. unfold bits_field. fold (whole_field o bs).
  apply get_offset_storage_wf; try assumption.
  - apply whole_field_wf; assumption.
  - reflexivity.
  - rewrite zbytes_length. assumption.
Qed.

Lemma bits_field_cv : forall o bs off w, bytes_ok bs -> cv_of (bits_field o bs off w) (zbytes bs) = cvz o bs.
Proof. intros. unfold cv_of. rewrite cvz_eq by assumption. reflexivity. Qed.

(* bit [off .. off+w) of the container, bit 0 = least significant bit in the byte order *)
Definition spec_bits (o : order) (bs : list N) (off w : Z) : Z := field_bits (cvz o bs) off w.

Lemma read_uint_spec_l : forall o bs off w, container_ok o bs -> field_ok bs off w ->
  read_uint true o bs off w = Some ((cvz o bs / 2 ^ off) mod 2 ^ w).
Proof.
  intros o bs off w C F. unfold read_uint.
  rewrite (uint_read_spec _ _ _ _ (bits_field_wf o bs off w C F)).
  rewrite bits_field_cv by apply C. reflexivity.
Qed.

Lemma read_int_spec_l : forall o bs off w, container_ok o bs -> field_ok bs off w ->
  read_int true o bs off w = Some (twos_complement w ((cvz o bs / 2 ^ off) mod 2 ^ w)).
Proof.
  intros o bs off w C F. unfold read_int.
  rewrite (int_read_spec _ _ _ _ (bits_field_wf o bs off w C F)).
  rewrite bits_field_cv by apply C. reflexivity.
Qed.

Lemma read_bcd_spec_l : forall o bs off w, container_ok o bs -> field_ok bs off w ->
  bcd_read true (bits_field o bs off w) w = Some (bcd_value (bcd_digits w) (spec_bits o bs off w)).
Proof.
  intros o bs off w C F.
  rewrite (bcd_read_spec _ _ _ _ (bits_field_wf o bs off w C F)).
  rewrite bits_field_cv by apply C. reflexivity.
Qed.

Lemma nibble_high : forall (k i : nat) x, 0 <= x < 16 ^ Z.of_nat k -> (k <= i)%nat -> nibble i x = 0.
Proof.
  intros k i x Hx Hi. unfold nibble. rewrite Z.div_small; [reflexivity|].
  split; [lia|]. eapply Z.lt_le_trans; [apply Hx|]. apply Z.pow_le_mono_r; lia.
Qed.

(* IsBcd for all values of the type it is instantiated at *)
Lemma is_bcd_spec_l : forall ct x, std_cty ct -> csigned ct = false -> 0 <= x < 2 ^ cbits ct ->
  exists b, is_bcd ct x = Some b /\ (b = true <-> forall i : nat, nibble i x <= 9).
Proof.
  intros ct x Hstd Hu Hx. eexists. split; [apply is_bcd_spec_ct; assumption|].
  rewrite all_nibbles_spec by lia.
  split; [|intros H i _; apply H].
  intros H i. destruct (Nat.lt_ge_cases i (bcd_nibbles ct)) as [Hi|Hi]; [apply H; exact Hi|].
  rewrite (nibble_high (bcd_nibbles ct) i x); [lia| |exact Hi].
  split; [lia|]. eapply Z.lt_le_trans; [apply Hx|].
  rewrite <- pow16_pow2. apply pow2_le. unfold bcd_nibbles.
  destruct (cbits ct <? 64) eqn:E; unfold std_cty, std_bits in Hstd; lia.
Qed.

Lemma bcd_ok_spec_l : forall o bs off w, container_ok o bs -> field_ok bs off w ->
  exists b, bcd_ok true (bits_field o bs off w) w = Some b /\
            (b = true <-> forall i : nat, nibble i (spec_bits o bs off w) <= 9).
Proof.
  intros o bs off w C F. eexists. split.
  - rewrite (bcd_ok_spec _ _ _ _ (bits_field_wf o bs off w C F)). rewrite bits_field_cv by apply C. reflexivity.
  - fold (spec_bits o bs off w).
    assert (Hf := field_bits_bound (cvz o bs) off w ltac:(destruct F; lia)). fold (spec_bits o bs off w) in Hf.
    rewrite all_nibbles_spec by lia.
    split; [|intros H i _; apply H].
    intros H i. destruct (Nat.lt_ge_cases i (bcd_digits w)) as [Hi|Hi]; [apply H; exact Hi|].
    rewrite (nibble_high (bcd_digits w) i); [lia| |exact Hi].
    split; [lia|]. eapply Z.lt_le_trans; [apply Hf|].
    assert (B := bcd_digits_bounds w ltac:(destruct F; lia)).
    rewrite <- pow16_pow2. apply pow2_le. destruct F. lia.
Qed.

Lemma flag_spec_l : forall o bs off, container_ok o bs -> field_ok bs off 1 ->
  flag_read true (bits_field o bs off 1) = Some (Z.testbit (cvz o bs) off).
Proof.
  intros o bs off C F.
  rewrite (flag_read_spec _ _ _ (bits_field_wf o bs off 1 C F)). rewrite bits_field_cv by apply C.
  f_equal. unfold field_bits. destruct F as [_ [Hoff _]].
  rewrite <- Z.shiftr_div_pow2 by lia. change (2 ^ 1) with 2.
  rewrite <- Z.bit0_mod, Z.shiftr_spec by lia. rewrite Z.add_0_l.
  destruct (Z.testbit (cvz o bs) off); reflexivity.
Qed.

Lemma float_bits_spec_l : forall o bs off w, container_ok o bs -> field_ok bs off w ->
  float_read_bits true (bits_field o bs off w) w = Some (spec_bits o bs off w).
Proof.
  intros o bs off w C F.
  rewrite (float_read_spec _ _ _ _ (bits_field_wf o bs off w C F)). rewrite bits_field_cv by apply C. reflexivity.
Qed.

Lemma enum_read_spec_l : forall o bs off w ut, container_ok o bs -> field_ok bs off w ->
  std_cty ut -> csigned ut = false -> w <= cbits ut ->
  enum_read true (bits_field o bs off w) ut w = Some (spec_bits o bs off w).
Proof.
  intros o bs off w ut C F Hstd Hu Hw.
  rewrite (enum_read_unsigned_spec _ _ _ _ ut (bits_field_wf o bs off w C F)) by assumption.
  rewrite bits_field_cv by apply C. reflexivity.
Qed.

Lemma enum_signed_read_partial_l : forall o bs off ut, container_ok o bs -> field_ok bs off (cbits ut) ->
  std_cty ut -> csigned ut = true ->
  enum_read true (bits_field o bs off (cbits ut)) ut (cbits ut)
  = Some (twos_complement (cbits ut) (spec_bits o bs off (cbits ut))).
Proof.
  intros o bs off ut C F Hstd Hs.
  rewrite (enum_read_signed_full_spec _ _ _ ut (bits_field_wf o bs off _ C F)) by assumption.
  rewrite bits_field_cv by apply C. reflexivity.
Qed.

(* F1: the property "signed enums are two's complement at the field width" fails of the faithful model *)
Lemma enum_signed_read_refuted_l :
  exists o bs off w ut v, container_ok o bs /\ field_ok bs off w /\ std_cty ut /\ csigned ut = true /\ w <= cbits ut /\
    enum_read true (bits_field o bs off w) ut w = Some v /\
    v <> twos_complement w (spec_bits o bs off w).
Proof.
  exists LE, [255%N], 0, 8, i64, 255.
  repeat split; try (cbn; lia); try (vm_compute; congruence).
  - repeat constructor.
  - right; right; right; reflexivity.
Qed.

(* the same at struct level (the view sits directly on the BitBlock): byte 0xFF of [0 [+1] Sgn a] reads 255 *)
Lemma enum_signed_read_refuted_struct :
  enum_read true (whole_field LE [255%N]) i64 8 = Some 255 /\ twos_complement 8 255 = -1.
Proof. split; reflexivity. Qed.

(* through a nested bits type: the bits at the sum of the offsets *)
Lemma nested_read_spec_l : forall o bs off1 s1 off w, container_ok o bs -> field_ok bs off1 s1 ->
  1 <= w -> 0 <= off -> off + w <= s1 ->
  uint_read true (get_offset_storage (bits_field o bs off1 s1) off w) w = Some (spec_bits o bs (off1 + off) w).
Proof.
  intros o bs off1 s1 off w C F Hw Hoff Hext.
  assert (W := get_offset_storage_nested_wf _ _ _ _ off w (bits_field_wf o bs off1 s1 C F) Hw Hoff Hext).
  rewrite (uint_read_spec _ _ _ _ W). unfold cv_of. cbn [get_offset_storage bits_field bv_order].
  unfold spec_bits. rewrite cvz_eq by apply C.
  destruct (bv_obb (bits_field o bs off1 s1)); reflexivity.
Qed.

(* a scalar placed directly in a struct: the whole container *)
Lemma struct_read_uint_spec_l : forall o bs, container_ok o bs ->
  uint_read true (whole_field o bs) (8 * Z.of_nat (length bs)) = Some (cvz o bs).
Proof.
  intros o bs C. assert (W := whole_field_wf o bs C).
  unfold uint_read. rewrite (bv_read_whole _ _ W) by reflexivity. cbn [bind].
  assert (B := cv_bound _ _ W). unfold cv_of in *. cbn [whole_field field_bv bv_order] in *.
  rewrite zbytes_length in B. rewrite <- cvz_eq in * by apply C.
  destruct C as [_ [Hn _]].
  rewrite wrap_id; [reflexivity|unfold uty; cbn [cbits]; assert (H := lw8_ge _ Hn); lia|].
  apply in_cty_unsigned; [reflexivity|]. unfold uty; cbn [cbits].
  split; [lia|]. eapply Z.lt_le_trans; [apply B|]. apply pow2_le. assert (H := lw8_ge _ Hn). lia.
Qed.

(* every decoded value fits the C++ value type, which has at least w bits *)
Lemma value_type_wide_enough_l : forall o bs off w, container_ok o bs -> field_ok bs off w ->
  w <= lw w /\
  (exists v, read_uint true o bs off w = Some v /\ in_cty (uty w) v) /\
  (exists v, read_int true o bs off w = Some v /\ in_cty (sty w) v) /\
  (exists v, bcd_read true (bits_field o bs off w) w = Some v /\ in_cty (uty w) v).
Proof.
  intros o bs off w C F.
  assert (Hw : 1 <= w <= 64) by (destruct C as [_ [? _]]; destruct F as [? [? ?]]; lia).
  assert (Hlw := lw_ge w ltac:(lia)).
  assert (Hf := field_bits_bound (cvz o bs) off w ltac:(lia)).
  assert (Hle : 2 ^ w <= 2 ^ lw w) by (apply pow2_le; lia).
  split; [exact Hlw|]. split; [|split].
  - eexists. split; [apply read_uint_spec_l; assumption|].
    apply in_cty_unsigned; [reflexivity|]. unfold field_bits in Hf. cbn [cbits uty]. lia.
  - eexists. split; [apply read_int_spec_l; assumption|].
    assert (R := twos_complement_range w _ ltac:(lia) Hf). unfold field_bits in R.
    unfold in_cty, cmin, cmax. cbn [csigned cbits sty].
    assert (2 ^ (w - 1) <= 2 ^ (lw w - 1)) by (apply pow2_le; lia). lia.
  - eexists. split; [apply read_bcd_spec_l; assumption|].
    apply in_cty_nonneg; [apply lw_std|].
    assert (B := bcd_bound w Hw).
    assert (V : forall k x, 0 <= x -> 0 <= bcd_value k x /\ 9 * bcd_value k x <= 15 * (10 ^ Z.of_nat k - 1)).
    { induction k as [|k IH]; intros x Hx; cbn [bcd_value]; [change (10 ^ Z.of_nat 0) with 1; lia|].
      rewrite pow10_S. assert (0 <= x mod 16 < 16) by (apply Z.mod_pos_bound; lia).
      specialize (IH (x / 16) ltac:(apply Z.div_pos; lia)). lia. }
    specialize (V (bcd_digits w) (spec_bits o bs off w) ltac:(unfold spec_bits; lia)). lia.
Qed.

(* the EMBOSS_NO_OPTIMIZATIONS configuration (portable loops, non-two's-complement ConvertToSigned) reads the same *)
Lemma portable_reads_agree_l : forall o bs off w ut, container_ok o bs -> field_ok bs off w ->
  read_uint false o bs off w = read_uint true o bs off w /\
  read_int false o bs off w = read_int true o bs off w /\
  bcd_read false (bits_field o bs off w) w = bcd_read true (bits_field o bs off w) w /\
  bcd_ok false (bits_field o bs off w) w = bcd_ok true (bits_field o bs off w) w /\
  flag_read false (bits_field o bs off w) = flag_read true (bits_field o bs off w) /\
  enum_read false (bits_field o bs off w) ut w = enum_read true (bits_field o bs off w) ut w /\
  float_read_bits false (bits_field o bs off w) w = float_read_bits true (bits_field o bs off w) w.
Proof.
  intros o bs off w ut C F. assert (WF := bits_field_wf o bs off w C F).
  destruct (reads_portable _ _ w ut (wf_blk _ _ _ _ WF)) as [H1 [H2 [H3 [H4 [H5 H6]]]]].
  unfold read_uint, read_int. rewrite (int_read_portable _ _ _ _ WF). repeat split; assumption.
Qed.

(* ---------- non-vacuity: the hypotheses are satisfiable and the functions compute ---------- *)
Lemma ex_container : container_ok BE [18%N; 52%N; 171%N] /\ field_ok [18%N; 52%N; 171%N] 4 12.
Proof.
  unfold container_ok, field_ok, bytes_ok. cbn [length order_fits].
  repeat split; try lia; try (cbn; lia).
  repeat (apply Forall_cons; [reflexivity|]). apply Forall_nil.
Qed.

Lemma ex_reads :
  read_uint true BE [18%N; 52%N; 171%N] 4 12 = Some 842 (* 0x34A *) /\
  read_int true BE [18%N; 52%N; 171%N] 4 12 = Some 842 /\
  read_int true LE [18%N; 52%N; 171%N] 12 12 = Some (-1357) (* 0xAB3 - 4096 *) /\
  bcd_read true (bits_field BE [18%N; 52%N; 171%N] 8 16) 16 = Some 1234 /\
  bcd_ok true (bits_field BE [18%N; 52%N; 171%N] 8 16) 16 = Some true /\
  bcd_ok true (bits_field BE [18%N; 52%N; 171%N] 0 16) 16 = Some false /\
  read_uint false BE [18%N; 52%N; 171%N] 4 12 = Some 842 /\
  read_int false LE [18%N; 52%N; 171%N] 12 12 = Some (-1357).
Proof. vm_compute. repeat split; reflexivity. Qed.
