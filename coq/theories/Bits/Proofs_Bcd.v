(* Bits/Proofs_Bcd.v -- IsBcd's parallel-nibble trick and BcdView::ConvertToBinary *)
From Coq Require Import ZArith List Bool Lia ZifyBool.
Import ListNotations.
Require Import EmbossV.Bits.Model EmbossV.Bits.Proofs_Int EmbossV.Bits.Proofs_Load EmbossV.Bits.Proofs_Read.
Open Scope Z_scope.

(* let lia see through / and mod by constants *)
Local Ltac Zify.zify_post_hook ::= Z.to_euclidean_division_equations.

Local Arguments Z.pow : simpl never.
Local Arguments Z.mul : simpl never.
Local Arguments Z.add : simpl never.
Local Arguments Z.sub : simpl never.
Local Arguments Z.div : simpl never.
Local Arguments Z.modulo : simpl never.
Local Arguments Z.land : simpl never.
Local Arguments Z.lor : simpl never.
Local Arguments Z.of_nat : simpl never.
Local Arguments wrap : simpl never.

(* ------------------------------------------------------------------------- *)
(* nibble-wise AND                                                            *)
(* ------------------------------------------------------------------------- *)
Lemma land_le_l : forall a b, 0 <= a -> Z.land a b <= a.
Proof.
  intros a b Ha.
  assert (E : Z.lor (Z.land a b) (Z.land a (Z.lnot b)) = a).
  { apply Z.bits_inj'. intros n Hn. rewrite Z.lor_spec, !Z.land_spec, Z.lnot_spec by lia.
    destruct (Z.testbit a n), (Z.testbit b n); reflexivity. }
  assert (D : Z.land (Z.land a b) (Z.land a (Z.lnot b)) = 0).
  { apply Z.bits_inj'. intros n Hn. rewrite !Z.land_spec, Z.lnot_spec, Z.bits_0 by lia.
    destruct (Z.testbit a n), (Z.testbit b n); reflexivity. }
  rewrite <- Z.lxor_lor in E by exact D. rewrite <- Z.add_nocarry_lxor in E by exact D.
  assert (0 <= Z.land a (Z.lnot b)) by (apply Z.land_nonneg; lia). lia.
Qed.

Lemma land_split16 : forall a0 a b0 b, 0 <= a0 < 16 -> 0 <= b0 < 16 ->
  Z.land (a0 + 16 * a) (b0 + 16 * b) = Z.land a0 b0 + 16 * Z.land a b.
Proof.
  intros a0 a b0 b Ha Hb.
  replace (a0 + 16 * a) with (Z.lor a0 (a * 2 ^ 4)) by (rewrite lor_low_high by (pow_consts; lia); pow_consts; lia).
  replace (b0 + 16 * b) with (Z.lor b0 (b * 2 ^ 4)) by (rewrite lor_low_high by (pow_consts; lia); pow_consts; lia).
  rewrite Z.land_lor_distr_l, !Z.land_lor_distr_r.
  rewrite (land_low_high a0 b 4) by (pow_consts; lia).
  rewrite (Z.land_comm (a * 2 ^ 4) b0), (land_low_high b0 a 4) by (pow_consts; lia).
  rewrite Z.lor_0_r, Z.lor_0_l.
  rewrite <- !Z.shiftl_mul_pow2 by lia. rewrite <- Z.shiftl_land. rewrite Z.shiftl_mul_pow2 by lia.
  assert (0 <= Z.land a0 b0 < 2 ^ 4).
  { split; [apply Z.land_nonneg; lia|]. assert (Z.land a0 b0 <= a0) by (apply land_le_l; lia). pow_consts. lia. }
  rewrite lor_low_high by lia. pow_consts. lia.
Qed.

Lemma land_nonneg2 : forall a b, 0 <= a -> 0 <= b -> 0 <= Z.land a b.
Proof. intros. apply Z.land_nonneg. lia. Qed.

(* ------------------------------------------------------------------------- *)
(* IsBcd                                                                      *)
(* ------------------------------------------------------------------------- *)
Fixpoint c6 (k : nat) : Z := match k with O => 0 | S k' => 6 + 16 * c6 k' end.
Fixpoint c8 (k : nat) : Z := match k with O => 0 | S k' => 8 + 16 * c8 k' end.

Lemma c8_nonneg : forall k, 0 <= c8 k.
Proof. induction k; cbn [c8]; lia. Qed.

Lemma pow16_S : forall k : nat, 16 ^ Z.of_nat (S k) = 16 * 16 ^ Z.of_nat k.
Proof. intros. rewrite Nat2Z.inj_succ, Z.pow_succ_r by lia. reflexivity. Qed.

Lemma pow16_pos : forall k : nat, 0 < 16 ^ Z.of_nat k.
Proof. intros. apply Z.pow_pos_nonneg; lia. Qed.

Lemma nib_ok : forall n, 0 <= n <= 9 -> Z.land (Z.land (9 - n) n) 8 = 0.
Proof.
  intros n H.
  assert (C : n = 0 \/ n = 1 \/ n = 2 \/ n = 3 \/ n = 4 \/ n = 5 \/ n = 6 \/ n = 7 \/ n = 8 \/ n = 9) by lia.
  repeat (destruct C as [C|C]; [subst n; reflexivity|]). subst n; reflexivity.
Qed.

Lemma nib_bad : forall n, 10 <= n <= 15 -> Z.land (Z.land (25 - n) n) 8 = 8.
Proof.
  intros n H.
  assert (C : n = 10 \/ n = 11 \/ n = 12 \/ n = 13 \/ n = 14 \/ n = 15) by lia.
  repeat (destruct C as [C|C]; [subst n; reflexivity|]). subst n; reflexivity.
Qed.

(* (~x - 0x66..6) & x & 0x88..8 == 0  <->  every nibble of x is at most 9, for any number of nibbles *)
Lemma bcd_trick : forall k x, 0 <= x < 16 ^ Z.of_nat k ->
  (Z.land (Z.land ((16 ^ Z.of_nat k - 1 - x - c6 k) mod 16 ^ Z.of_nat k) x) (c8 k) =? 0) = all_nibbles_le9 k x.
Proof.
  induction k as [|k IH]; intros x Hx.
  - cbn [c8 all_nibbles_le9]. rewrite Z.land_0_r. reflexivity.
  - rewrite pow16_S in *. assert (P := pow16_pos k).
    set (Q := 16 ^ Z.of_nat k) in *.
    cbn [c6 c8 all_nibbles_le9].
    set (n := x mod 16). set (x' := x / 16).
    assert (Hn : 0 <= n < 16) by (apply Z.mod_pos_bound; lia).
    assert (Ex : x = n + 16 * x') by (unfold n, x'; lia).
    assert (Hx' : 0 <= x' < Q) by (unfold x'; split; [apply Z.div_pos; lia|apply Z.div_lt_upper_bound; lia]).
    set (M' := Q - 1 - x' - c6 k).
    assert (EM : 16 * Q - 1 - x - (6 + 16 * c6 k) = (9 - n) + 16 * M') by (unfold M'; lia).
    rewrite EM. rewrite Z.rem_mul_r by lia.
    specialize (IH x' Hx'). fold M' in IH.
    destruct (Z_le_gt_dec n 9) as [Hle|Hgt].
    + replace (((9 - n) + 16 * M') mod 16) with (9 - n) by lia.
      replace (((9 - n) + 16 * M') / 16) with M' by lia.
      assert (HR : 0 <= M' mod Q) by (apply Z.mod_pos_bound; lia).
      rewrite Ex at 1. rewrite land_split16 by lia.
      rewrite land_split16.
      2: { split; [apply land_nonneg2; lia|].
           assert (Z.land (9 - n) n <= 9 - n); [|lia].
           assert (C : n = 0 \/ n = 1 \/ n = 2 \/ n = 3 \/ n = 4 \/ n = 5 \/ n = 6 \/ n = 7 \/ n = 8 \/ n = 9) by lia.
           repeat (destruct C as [C|C]; [subst n; rewrite C; vm_compute; congruence|]). rewrite C; vm_compute; congruence. }
      2: lia.
      rewrite nib_ok by lia.
      replace (n <=? 9) with true by lia. cbn [andb].
      rewrite <- IH.
      assert (0 <= Z.land (Z.land (M' mod Q) x') (c8 k)) by (apply land_nonneg2; [apply land_nonneg2; lia|apply c8_nonneg]).
      destruct (Z.land (Z.land (M' mod Q) x') (c8 k) =? 0) eqn:E; lia.
    + replace (((9 - n) + 16 * M') mod 16) with (25 - n) by lia.
      replace (((9 - n) + 16 * M') / 16) with (M' - 1) by lia.
      assert (HR : 0 <= (M' - 1) mod Q) by (apply Z.mod_pos_bound; lia).
      rewrite Ex at 1. rewrite land_split16 by lia.
      rewrite land_split16.
      2: { split; [apply land_nonneg2; lia|].
           assert (C : n = 10 \/ n = 11 \/ n = 12 \/ n = 13 \/ n = 14 \/ n = 15) by lia.
           repeat (destruct C as [C|C]; [subst n; rewrite C; vm_compute; congruence|]). rewrite C; vm_compute; congruence. }
      2: lia.
      rewrite nib_bad by lia.
      replace (n <=? 9) with false by lia. cbn [andb].
      assert (0 <= Z.land (Z.land ((M' - 1) mod Q) x') (c8 k)) by (apply land_nonneg2; [apply land_nonneg2; lia|apply c8_nonneg]).
      lia.
Qed.


(* the C++ expression, at the type IsBcd actually computes in *)
Definition bcd_nibbles (ct : cty) : nat := if cbits ct <? 64 then 8%nat else 16%nat.

Lemma is_bcd_wide : forall t (k : nat) x,
  (t = u32 /\ k = 8%nat) \/ (t = u64 /\ k = 16%nat) -> 0 <= x < 2 ^ cbits t ->
  (d <- c_sub (c_not (t, x)) (t, c6 k) ;;
   Some (c_eq (c_and (c_and d (t, x)) (t, c8 k)) (lit 0))) = Some (all_nibbles_le9 k x).
Proof.
  intros t k x Ht Hx.
  assert (E16 : 2 ^ cbits t = 16 ^ Z.of_nat k) by (destruct Ht as [[-> ->]|[-> ->]]; reflexivity).
  assert (Hc6 : 0 <= c6 k < 2 ^ cbits t) by (destruct Ht as [[-> ->]|[-> ->]]; vm_compute; split; congruence).
  assert (Hc8 : 0 <= c8 k < 2 ^ cbits t) by (destruct Ht as [[-> ->]|[-> ->]]; vm_compute; split; congruence).
  assert (Hp : promote t = t) by (destruct Ht as [[-> _]|[-> _]]; reflexivity).
  assert (Hcm : common t t = t) by (destruct Ht as [[-> _]|[-> _]]; reflexivity).
  assert (Hci : common t i32 = t) by (destruct Ht as [[-> _]|[-> _]]; reflexivity).
  assert (Hu : csigned t = false) by (destruct Ht as [[-> _]|[-> _]]; reflexivity).
  assert (Hb : 1 <= cbits t) by (destruct Ht as [[-> _]|[-> _]]; cbn; lia).
  assert (P : 0 < 2 ^ cbits t) by (apply pow2_pos; lia).
  rewrite <- (bcd_trick k x) by (rewrite <- E16; exact Hx).
  rewrite <- E16.
  unfold c_not, c_sub. cbn [ty val fst snd]. rewrite Hp, Hu.
  rewrite arith2_unsigned by (cbn [ty fst]; rewrite Hcm; exact Hu).
  cbn [bind ty val fst snd]. rewrite Hcm.
  rewrite !(wrap_id t) by (first [lia | apply in_cty_unsigned; [exact Hu|lia]]).
  set (D := (2 ^ cbits t - 1 - x - c6 k) mod 2 ^ cbits t).
  assert (HD : 0 <= D < 2 ^ cbits t) by (apply Z.mod_pos_bound; lia).
  rewrite c_and_exact; rewrite ?Hcm; try lia; try (apply in_cty_unsigned; [exact Hu|lia]).
  assert (HL : 0 <= Z.land D x <= x).
  { split; [apply land_nonneg2; lia|]. rewrite Z.land_comm. apply land_le_l. lia. }
  rewrite c_and_exact; rewrite ?Hcm; try lia; try (apply in_cty_unsigned; [exact Hu|lia]).
  assert (HL2 : 0 <= Z.land (Z.land D x) (c8 k) <= x).
  { split; [apply land_nonneg2; lia|]. etransitivity; [apply land_le_l; lia|lia]. }
  unfold c_eq, lit. rewrite c_cmp_exact; rewrite ?Hci; try lia; try (apply in_cty_unsigned; [exact Hu|lia]).
  replace (2 ^ cbits t - 1 - x - c6 k) with (2 ^ cbits t - 1 - x - c6 k) by reflexivity.
  reflexivity.
Qed.

Lemma is_bcd_spec_ct : forall ct x, std_cty ct -> csigned ct = false -> 0 <= x < 2 ^ cbits ct ->
  is_bcd ct x = Some (all_nibbles_le9 (bcd_nibbles ct) x).
Proof.
  intros ct x Hstd Hu Hx.
  assert (Hx32 : cbits ct <= 32 -> 0 <= x < 2 ^ 32).
  { intros. split; [lia|]. eapply Z.lt_le_trans; [apply Hx|]. apply pow2_le. unfold std_cty, std_bits in Hstd. lia. }
  unfold is_bcd, bcd_nibbles.
  std_split ct Hstd; try discriminate; cbn [cbits] in *.
  - specialize (Hx32 ltac:(lia)).
    change (8 <? 32) with true. change (8 <? 64) with true. cbv iota.
    change (c_div (c_not (u32, 0)) (lit 15)) with (Some (u32, 286331153)). cbn [bind].
    change (c_mul (u32, 286331153) (lit 6)) with (Some (u32, c6 8)).
    change (c_mul (u32, 286331153) (lit 8)) with (Some (u32, c8 8)). cbn [bind].
    apply (is_bcd_wide u32 8 x); [left; split; reflexivity|exact Hx32].
  - specialize (Hx32 ltac:(lia)).
    change (16 <? 32) with true. change (16 <? 64) with true. cbv iota.
    change (c_div (c_not (u32, 0)) (lit 15)) with (Some (u32, 286331153)). cbn [bind].
    change (c_mul (u32, 286331153) (lit 6)) with (Some (u32, c6 8)).
    change (c_mul (u32, 286331153) (lit 8)) with (Some (u32, c8 8)). cbn [bind].
    apply (is_bcd_wide u32 8 x); [left; split; reflexivity|exact Hx32].
  - specialize (Hx32 ltac:(lia)).
    change (32 <? 32) with false. change (32 <? 64) with true. cbv iota.
    change (c_div (c_not (mk_cty false 32, 0)) (lit 15)) with (Some (u32, 286331153)). cbn [bind].
    change (c_mul (u32, 286331153) (lit 6)) with (Some (u32, c6 8)).
    change (c_mul (u32, 286331153) (lit 8)) with (Some (u32, c8 8)). cbn [bind].
    apply (is_bcd_wide u32 8 x); [left; split; reflexivity|exact Hx32].
  - change (64 <? 32) with false. change (64 <? 64) with false. cbv iota.
    change (c_div (c_not (mk_cty false 64, 0)) (lit 15)) with (Some (u64, 1229782938247303441)). cbn [bind].
    change (c_mul (u64, 1229782938247303441) (lit 6)) with (Some (u64, c6 16)).
    change (c_mul (u64, 1229782938247303441) (lit 8)) with (Some (u64, c8 16)). cbn [bind].
    apply (is_bcd_wide u64 16 x); [right; split; reflexivity|exact Hx].
Qed.

(* nibbles above the value's width are zero, so any larger nibble count gives the same verdict *)
Lemma all_nibbles_zero : forall k, all_nibbles_le9 k 0 = true.
Proof. induction k; cbn [all_nibbles_le9]; [reflexivity|]. rewrite Z.mod_0_l, Z.div_0_l by lia. exact IHk. Qed.

Lemma all_nibbles_more : forall k j x, 0 <= x < 16 ^ Z.of_nat k ->
  all_nibbles_le9 (k + j) x = all_nibbles_le9 k x.
Proof.
  induction k as [|k IH]; intros j x Hx.
  - change (16 ^ Z.of_nat 0) with 1 in Hx. replace x with 0 by lia. cbn [all_nibbles_le9 Nat.add]. apply all_nibbles_zero.
  - rewrite pow16_S in Hx. cbn [Nat.add all_nibbles_le9]. f_equal. apply IH.
    assert (P := pow16_pos k). split; [apply Z.div_pos; lia|apply Z.div_lt_upper_bound; lia].
Qed.

Lemma all_nibbles_spec : forall k x, 0 <= x ->
  (all_nibbles_le9 k x = true <-> forall i, (i < k)%nat -> nibble i x <= 9).
Proof.
  induction k as [|k IH]; intros x Hx.
  - cbn [all_nibbles_le9]. split; [intros _ i Hi; lia|reflexivity].
  - cbn [all_nibbles_le9]. rewrite andb_true_iff, (IH (x / 16)) by (apply Z.div_pos; lia).
    split.
    + intros [H0 Hr] i Hi. destruct i as [|i].
      * unfold nibble. change (16 ^ Z.of_nat 0) with 1. rewrite Z.div_1_r. lia.
      * specialize (Hr i ltac:(lia)). unfold nibble in *. rewrite pow16_S.
        rewrite <- Z.div_div by (try lia; apply pow16_pos). exact Hr.
    + intros H. split.
      * specialize (H 0%nat ltac:(lia)). unfold nibble in H. change (16 ^ Z.of_nat 0) with 1 in H. rewrite Z.div_1_r in H. lia.
      * intros i Hi. specialize (H (S i) ltac:(lia)). unfold nibble in *. rewrite pow16_S in H.
        rewrite <- Z.div_div in H by (try lia; apply pow16_pos). exact H.
Qed.

(* ------------------------------------------------------------------------- *)
(* ConvertToBinary                                                            *)
(* ------------------------------------------------------------------------- *)
Lemma common_promote_r : forall t u, common t (promote u) = common t u.
Proof. intros t u. unfold common. rewrite promote_idem. reflexivity. Qed.

Lemma pow16_pow2 : forall i : nat, 2 ^ (4 * Z.of_nat i) = 16 ^ Z.of_nat i.
Proof. intros. change 16 with (2 ^ 4). rewrite <- Z.pow_mul_r by lia. reflexivity. Qed.

Lemma pow10_S : forall k : nat, 10 ^ Z.of_nat (S k) = 10 * 10 ^ Z.of_nat k.
Proof. intros. rewrite Nat2Z.inj_succ, Z.pow_succ_r by lia. reflexivity. Qed.

Lemma pow10_pos : forall k : nat, 0 < 10 ^ Z.of_nat k.
Proof. intros. apply Z.pow_pos_nonneg; lia. Qed.

Lemma bcd_loop_inv : forall vt w (K : nat) D bcd,
  std_cty vt -> csigned vt = false -> 1 <= w <= cbits vt ->
  4 * (Z.of_nat K - 1) < w <= 4 * Z.of_nat K ->
  D = 10 ^ Z.of_nat K -> 15 * (D - 1) <= 9 * cmax vt ->
  0 <= bcd <= cmax vt ->
  forall fuel (i : nat) r T, (i <= K)%nat -> (K - i < fuel)%nat ->
    T = 10 ^ Z.of_nat i -> 0 <= r -> 9 * r <= 15 * (T - 1) ->
    bcd_to_binary_loop vt w fuel bcd (4 * Z.of_nat i) r T
    = Some (r + T * bcd_value (K - i) (bcd / 16 ^ Z.of_nat i)).
Proof.
  intros vt w K D bcd Hstd Hu Hw HK HD HDb Hbcd.
  assert (Hpb := promote_bits_ge vt Hstd). assert (Hcp := cbits_promote vt Hstd).
  assert (Hpstd : std_cty (promote vt)) by (apply promote_std; assumption).
  assert (Hcm := cmax_promote vt Hstd). assert (H127 := cmax_ge_127 vt Hstd).
  assert (Hb1 : 1 <= cbits (promote vt)) by lia.
  induction fuel as [|fuel IH]; intros i r T Hi Hf HT Hr Hinv; [lia|].
  cbn [bcd_to_binary_loop].
  destruct (Nat.eq_dec i K) as [->|Hne].
  - replace (4 * Z.of_nat K <? w) with false by lia.
    replace (K - K)%nat with 0%nat by lia. cbn [bcd_value]. f_equal. lia.
  - assert (HiK : (i < K)%nat) by lia.
    replace (4 * Z.of_nat i <? w) with true by lia.
    assert (PT := pow10_pos i). rewrite <- HT in PT.
    assert (HTD : 10 * T <= D).
    { rewrite HT, HD, <- pow10_S. apply Z.pow_le_mono_r; lia. }
    unfold lit.
    rewrite c_shr_ok by lia. cbn [bind].
    set (y := bcd / 2 ^ (4 * Z.of_nat i)).
    assert (Hy : 0 <= y <= bcd).
    { unfold y. assert (0 < 2 ^ (4 * Z.of_nat i)) by (apply pow2_pos; lia).
      split; [apply Z.div_pos; lia|]. apply Z.div_le_upper_bound; [lia|]. nia. }
    rewrite c_and_exact; rewrite ?common_promote_l, ?common_i32_r by assumption;
      try assumption; try (apply in_cty_promote_nonneg; [assumption|lia]).
    change 15 with (2 ^ 4 - 1). rewrite land_ones_mod by lia. change (2 ^ 4) with 16.
    set (nib := y mod 16). assert (Hnib : 0 <= nib < 16) by (apply Z.mod_pos_bound; lia).
    assert (HnT : 0 <= nib * T <= 15 * T) by nia.
    unfold c_mul at 1.
    rewrite arith2_exact; rewrite ?common_promote_l, ?common_same by assumption;
      try assumption; try (apply in_cty_promote_nonneg; [assumption|lia]).
    cbn [bind]. unfold c_add at 1.
    rewrite arith2_exact; rewrite ?common_promote_r, ?common_same by assumption;
      try assumption; try (apply in_cty_promote_nonneg; [assumption|lia]).
    cbn [bind]. unfold c_mul.
    rewrite arith2_exact; rewrite ?common_i32_r by assumption;
      try assumption; try (apply in_cty_promote_nonneg; [assumption|lia]).
    cbn [bind]. unfold c_add.
    rewrite arith2_exact; change (common i32 i32) with i32; try (cbn; lia); try (incty; lia).
    cbn [bind val snd].
    rewrite !wrap_id by (first [unfold std_cty, std_bits in Hstd; lia | apply in_cty_nonneg; [assumption|lia]]).
    replace (4 * Z.of_nat i + 4) with (4 * Z.of_nat (S i)) by lia.
    rewrite (IH (S i) (r + nib * T) (T * 10)); try lia.
    2: { rewrite HT, pow10_S. lia. }
    f_equal.
    replace (K - i)%nat with (S (K - S i)) by lia. cbn [bcd_value].
    rewrite pow16_S, (Z.mul_comm 16).
    rewrite <- Z.div_div by (try lia; apply pow16_pos).
    unfold nib, y. rewrite pow16_pow2. ring.
Qed.

Definition bcd_digits (w : Z) : nat := Z.to_nat ((w + 3) / 4).

Lemma bcd_digits_bounds : forall w, 1 <= w -> 4 * (Z.of_nat (bcd_digits w) - 1) < w <= 4 * Z.of_nat (bcd_digits w).
Proof. intros w Hw. unfold bcd_digits. rewrite Z2Nat.id by (apply Z.div_pos; lia). lia. Qed.

(* the value type can hold every decoded value (even of non-BCD patterns): 15 * (10^K - 1) / 9 <= max *)
Lemma bcd_bound : forall w, 1 <= w <= 64 ->
  15 * (10 ^ Z.of_nat (bcd_digits w) - 1) <= 9 * cmax (uty w).
Proof.
  intros w Hw. assert (B := bcd_digits_bounds w ltac:(lia)).
  assert (Hm : forall j, Z.of_nat (bcd_digits w) <= j -> 10 ^ Z.of_nat (bcd_digits w) <= 10 ^ j)
    by (intros; apply Z.pow_le_mono_r; lia).
  unfold cmax, uty, lw. cbn [csigned cbits].
  destruct (w <=? 8) eqn:E1; [specialize (Hm 2 ltac:(lia)); pow_consts; change (10 ^ 2) with 100 in Hm; lia|].
  destruct (w <=? 16) eqn:E2; [specialize (Hm 4 ltac:(lia)); pow_consts; change (10 ^ 4) with 10000 in Hm; lia|].
  destruct (w <=? 32) eqn:E3; [specialize (Hm 8 ltac:(lia)); pow_consts; change (10 ^ 8) with 100000000 in Hm; lia|].
  specialize (Hm 16 ltac:(lia)); pow_consts; change (10 ^ 16) with 10000000000000000 in Hm; lia.
Qed.

Lemma convert_to_binary_spec : forall w data, 1 <= w <= 64 -> 0 <= data < 2 ^ w ->
  convert_to_binary w data = Some (bcd_value (bcd_digits w) data).
Proof.
  intros w data Hw Hd.
  assert (Hlw := lw_ge w ltac:(lia)). assert (Hstd : std_cty (uty w)) by apply lw_std.
  assert (Hmax : cmax (uty w) = 2 ^ lw w - 1) by reflexivity.
  assert (Hle : 2 ^ w <= 2 ^ lw w) by (apply pow2_le; lia).
  unfold convert_to_binary.
  rewrite wrap_id by (first [unfold uty; cbn [cbits]; lia | apply in_cty_nonneg; [assumption|lia]]).
  assert (B := bcd_digits_bounds w ltac:(lia)).
  replace 0 with (4 * Z.of_nat 0) at 1 by reflexivity.
  rewrite (bcd_loop_inv (uty w) w (bcd_digits w) (10 ^ Z.of_nat (bcd_digits w)) data); try assumption; try reflexivity; try lia.
  - change (16 ^ Z.of_nat 0) with 1. rewrite Z.div_1_r, Nat.sub_0_r. f_equal. lia.
  - unfold uty; cbn [cbits]; lia.
  - apply bcd_bound. lia.
  - unfold bcd_fuel. assert (Z.of_nat (bcd_digits w) <= 16) by lia. lia.
Qed.

Lemma bcd_read_spec : forall bv bytes off w, wf_field bv bytes off w ->
  bcd_read true bv w = Some (bcd_value (bcd_digits w) (field_bits (cv_of bv bytes) off w)).
Proof.
  intros bv bytes off w F. unfold bcd_read. rewrite (bv_read_field bv bytes off w F). cbn [bind].
  destruct F as [W _ Hw Hoff Hext].
  apply convert_to_binary_spec; [destruct W; lia|apply field_bits_bound; lia].
Qed.

(* Ok(): the verdict of IsBcd on the field's bits = every nibble of the field is a decimal digit *)
Lemma bcd_ok_spec : forall bv bytes off w, wf_field bv bytes off w ->
  bcd_ok true bv w = Some (all_nibbles_le9 (bcd_digits w) (field_bits (cv_of bv bytes) off w)).
Proof.
  intros bv bytes off w F. unfold bcd_ok. rewrite (is_complete_wf bv bytes off w F). cbn [negb].
  rewrite (bv_read_field bv bytes off w F). cbn [bind].
  destruct F as [W _ Hw Hoff Hext].
  destruct (bv_ct_std bv bytes W) as [Hstd [Hu Hc]].
  assert (Hf := field_bits_bound (cv_of bv bytes) off w ltac:(lia)).
  set (fb := field_bits (cv_of bv bytes) off w) in *.
  assert (Hw64 : w <= 64) by (destruct W; lia).
  assert (Hwc : w <= cbits (bv_ct bv)) by (destruct W; lia).
  rewrite is_bcd_spec_ct; try assumption.
  2: { split; [lia|]. eapply Z.lt_le_trans; [apply Hf|]. apply pow2_le. lia. }
  f_equal.
  assert (B := bcd_digits_bounds w ltac:(lia)).
  assert (Hfk : 0 <= fb < 16 ^ Z.of_nat (bcd_digits w)).
  { split; [lia|]. eapply Z.lt_le_trans; [apply Hf|]. rewrite <- pow16_pow2. apply pow2_le. lia. }
  assert (Hk : (bcd_digits w <= bcd_nibbles (bv_ct bv))%nat).
  { unfold bcd_nibbles. destruct (cbits (bv_ct bv) <? 64) eqn:E; [|lia].
    assert (cbits (bv_ct bv) <= 32) by (unfold std_cty, std_bits in Hstd; lia). lia. }
  replace (bcd_nibbles (bv_ct bv)) with (bcd_digits w + (bcd_nibbles (bv_ct bv) - bcd_digits w))%nat by lia.
  apply all_nibbles_more. exact Hfk.
Qed.
