(* Bits/Accessor.v -- definitions only.

   The MemoryAccessor layer of runtime/cpp/emboss_memory_util.h, which Bits/Model.v only
   REPRESENTS by one load/store function per byte order ([container_load] / [container_store]):

     * template selection: the primary template MemoryAccessor<CharT, kAlignment, kOffset, kBits>
       chains to <CharT, kAlignment / 2, kOffset % (kAlignment / 2), kBits> until a partial
       specialisation matches: <CharT, 1, 0, kBits> (bytes) or, when EMBOSS_ALIAS_SAFE_POINTER_CAST and
       the four EMBOSS_*_ENDIAN* macros are defined, <CharT, 8, 0, 64>, <CharT, 4, 0, 32>,
       <CharT, 2, 0, 16> (whole-object access through a may_alias pointer);
     * the storage element type CharT: `char` (signed here, as on x86-64 GCC/Clang), `unsigned char`,
       `std::byte`, and `signed char` (which IsAliasSafe rejects);
     * the byte loops with their cast chains, the memcpy variants, the whole-object variants, the
       byte swap (builtin or the portable ByteSwap overloads of emboss_bit_util.h), for a
       little-endian or a big-endian host;
     * ContiguousBuffer's static (alignment, offset) bookkeeping: OffsetStorageType /
       GetOffsetStorage<kSubAlignment, kSubOffset>, GreatestCommonDivisor, and the run-time
       EMBOSS_CHECK_POINTER_ALIGNMENT of the checked Read/Write entry points.

   C++ integer semantics are those of Bits/Model.v section 1 ([cty], [wrap], [c_shl] ...).

   Memory is a list of bytes (0..255, the object representation); the pointer handed to the
   accessor is [base + p] where [base] is the address of the first element of [mem] and [p] an
   index.  An lvalue bytes[i] of type CharT reads [wrap (chart_cty c) b] (negative for bytes >= 0x80
   when CharT is signed) and a CharT value v is stored as the byte [v mod 256].  [None] = does not
   compile (static_assert, no matching overload) or undefined behaviour (out-of-bounds index,
   misaligned whole-object access, shift by >= width ...) or failed EMBOSS_CHECK. *)
From Coq Require Import ZArith NArith List Bool.
Import ListNotations.
Require Import EmbossV.Bits.Model.
Open Scope Z_scope.

(* ------------------------------------------------------------------------- *)
(* 1. CharT                                                                   *)
(* ------------------------------------------------------------------------- *)

Inductive chart := CharPlain | CharUnsigned | CharSigned | CharStdByte.

(* the integer type whose values an lvalue of type CharT holds; std::byte is an enumeration over
   unsigned char.  Plain char is signed on this platform. *)
Definition chart_cty (c : chart) : cty :=
  match c with CharPlain | CharSigned => i8 | CharUnsigned | CharStdByte => u8 end.

(* IsAliasSafe<CharT>::value (emboss_cpp_types.h): char, unsigned char, std::byte; NOT signed char *)
Definition alias_safe (c : chart) : bool :=
  match c with CharSigned => false | _ => true end.

(* bytes[i] as an rvalue *)
Definition char_at (c : chart) (mem : list Z) (i : nat) : option tv :=
  match nth_error mem i with
  | Some b => Some (chart_cty c, wrap (chart_cty c) b)
  | None => None
  end.

(* replace element i *)
Definition upd (mem : list Z) (i : nat) (b : Z) : option (list Z) :=
  if (i <? length mem)%nat then Some (firstn i mem ++ b :: skipn (S i) mem) else None.

(* bytes[i] = static_cast<CharT>(x): the byte left in memory is the CharT value's object representation *)
Definition store_char (c : chart) (mem : list Z) (i : nat) (x : tv) : option (list Z) :=
  upd mem i (wrap u8 (val (c_cast (chart_cty c) x))).

(* n bytes at index p *)
Definition load_n (mem : list Z) (p n : nat) : option (list Z) :=
  if (p + n <=? length mem)%nat then Some (firstn n (skipn p mem)) else None.
Definition store_n (mem : list Z) (p : nat) (bs : list Z) : option (list Z) :=
  if (p + length bs <=? length mem)%nat then Some (splice mem p bs) else None.

(* ------------------------------------------------------------------------- *)
(* 2. Build configuration (emboss_defines.h)                                  *)
(* ------------------------------------------------------------------------- *)

(* host_le       : the host stores the least significant byte of an integer object first
   endian_macros : EMBOSS_LITTLE_ENDIAN_TO_NATIVE, EMBOSS_BIG_ENDIAN_TO_NATIVE, EMBOSS_NATIVE_TO_LITTLE_ENDIAN,
                   EMBOSS_NATIVE_TO_BIG_ENDIAN are defined (emboss_defines.h defines all four together, for
                   GCC-compatible compilers on little-endian hosts unless EMBOSS_NO_OPTIMIZATIONS; on a
                   big-endian host they are only present when the user supplies them, and then they must
                   be: LITTLE = ByteSwap, BIG = identity)
   alias_cast    : EMBOSS_ALIAS_SAFE_POINTER_CAST is defined (not for the Intel compiler)
   builtin_bswap : EMBOSS_BYTESWAP16/32/64 are the __builtin_bswapN; otherwise the portable ByteSwap overloads *)
Record config := mk_config { host_le : bool; endian_macros : bool; alias_cast : bool; builtin_bswap : bool }.

(* the configurations the harness can build on this host *)
Definition cfg_gcc := mk_config true true true true.                (* default build *)
Definition cfg_portable := mk_config true false false false.        (* EMBOSS_NO_OPTIMIZATIONS *)
Definition cfg_swap_portable := mk_config true true true false.     (* macros, no EMBOSS_BYTESWAPn *)
Definition cfg_no_alias := mk_config true true false true.          (* macros, no pointer cast (icc) *)

(* value of an unsigned integer object from its object representation, and back *)
Definition obj_val (hl : bool) (l : list Z) : Z := if hl then of_le l else of_be l.
Definition obj_repr (hl : bool) (sz : nat) (v : Z) : list Z :=
  if hl then le_bytes sz v else rev (le_bytes sz v).

(* ::emboss::support::ByteSwap(x), overload chosen by the type of x *)
Definition byte_swap (builtin : bool) (ct : cty) (x : Z) : option Z :=
  if cbits ct =? 8 then Some x
  else if builtin then Some (bswap (cbits ct) x)
  else if cbits ct =? 16 then byteswap16 x
  else if cbits ct =? 32 then byteswap32 x
  else byteswap64 x.

(* EMBOSS_LITTLE_ENDIAN_TO_NATIVE(x) = EMBOSS_NATIVE_TO_LITTLE_ENDIAN(x);
   EMBOSS_BIG_ENDIAN_TO_NATIVE(x) = EMBOSS_NATIVE_TO_BIG_ENDIAN(x) *)
Definition le_native (cfg : config) (ct : cty) (x : Z) : option Z :=
  if host_le cfg then Some x else byte_swap (builtin_bswap cfg) ct x.
Definition be_native (cfg : config) (ct : cty) (x : Z) : option Z :=
  if host_le cfg then byte_swap (builtin_bswap cfg) ct x else Some x.
Definition to_native (cfg : config) (be : bool) := if be then be_native cfg else le_native cfg.

(* ------------------------------------------------------------------------- *)
(* 3. MemoryAccessor<CharT, 1, 0, kBits>                                      *)
(* ------------------------------------------------------------------------- *)

Definition nbytes (kbits : Z) : nat := Z.to_nat (kbits / 8).

(* the cast chain applied to bytes[i] in the read loops:
     static_cast<Unsigned>(static_cast<uint8_t>(bytes[i])) *)
Definition cast_read (ct : cty) (x : tv) : tv := c_cast ct (c_cast u8 x).
(* mutants used by the _refuted theorems *)
Definition cast_read_no_u8 (ct : cty) (x : tv) : tv := c_cast ct x.          (* static_cast<Unsigned>(bytes[i]) *)
Definition cast_read_no_widen (ct : cty) (x : tv) : tv := c_cast u8 x.       (* static_cast<uint8_t>(bytes[i]) *)

(* for (decltype(kBits) i = 0; i < kBits / 8; ++i) result |= CAST(bytes[i]) << i * 8;
   [n] iterations remain, [i] is the loop variable (a size_t) *)
Fixpoint read_le_loop_with (cast : tv -> tv) (ct : cty) (c : chart) (mem : list Z) (p n i : nat) (result : Z)
  : option Z :=
  match n with
  | O => Some result
  | S n' =>
      x <- char_at c mem (p + i) ;;
      s <- c_shl (cast x) (u64, Z.of_nat i * 8) ;;
      read_le_loop_with cast ct c mem p n' (S i) (wrap ct (val (c_or (ct, result) s)))
  end.
(* ... << (kBits - 8 - i * 8) *)
Fixpoint read_be_loop_with (cast : tv -> tv) (ct : cty) (kbits : Z) (c : chart) (mem : list Z) (p n i : nat)
  (result : Z) : option Z :=
  match n with
  | O => Some result
  | S n' =>
      x <- char_at c mem (p + i) ;;
      s <- c_shl (cast x) (u64, kbits - 8 - Z.of_nat i * 8) ;;
      read_be_loop_with cast ct kbits c mem p n' (S i) (wrap ct (val (c_or (ct, result) s)))
  end.
Definition read_le_loop (ct : cty) := read_le_loop_with (cast_read ct) ct.
Definition read_be_loop (ct : cty) := read_be_loop_with (cast_read ct) ct.

(* for (i..) { bytes[POS(i)] = static_cast<CharT>(static_cast<uint8_t>(value));
               if (sizeof value > 1) value >>= 8; }
   POS(i) = i (little endian) or kBits / 8 - 1 - i (big endian);
   [guard] = false is the mutant without `if (sizeof value > 1)` *)
Fixpoint write_loop_with (guard : bool) (ct : cty) (c : chart) (pos : nat -> nat) (n i : nat) (value : Z)
  (mem : list Z) : option (list Z) :=
  match n with
  | O => Some mem
  | S n' =>
      mem' <- store_char c mem (pos i) (c_cast u8 (ct, value)) ;;
      v' <- (if negb guard || (8 <? cbits ct)
             then r <- c_shr (ct, value) (lit 8) ;; Some (wrap ct (val r)) else Some value) ;;
      write_loop_with guard ct c pos n' (S i) v' mem'
  end.
Definition write_le_loop (ct : cty) (c : chart) (p nb : nat) (value : Z) (mem : list Z) :=
  write_loop_with true ct c (fun i => (p + i)%nat) nb 0 value mem.
Definition write_be_loop (ct : cty) (c : chart) (p nb : nat) (value : Z) (mem : list Z) :=
  write_loop_with true ct c (fun i => (p + (nb - 1 - i))%nat) nb 0 value mem.

(* Read{Little,Big}EndianUInt of the byte specialisation.
   with the macros:
     LE: Unsigned result = 0; memcpy(&result, bytes, kBits / 8); return LITTLE_ENDIAN_TO_NATIVE(result);
     BE: memcpy(reinterpret_cast<char ptr>(&result) + sizeof result - kBits / 8, bytes, kBits / 8);
         return BIG_ENDIAN_TO_NATIVE(result);
   without: the loops *)
Definition bytes_read (cfg : config) (c : chart) (be : bool) (kbits : Z) (mem : list Z) (p : nat) : option Z :=
  let ct := uty kbits in
  let n := nbytes kbits in
  if endian_macros cfg then
    bs <- load_n mem p n ;;
    let pad := zeros (sz_of ct - n) in
    to_native cfg be ct (obj_val (host_le cfg) (if be then pad ++ bs else bs ++ pad))
  else if be then read_be_loop ct kbits c mem p n 0 0
  else read_le_loop ct c mem p n 0 0.

(* Write{Little,Big}EndianUInt of the byte specialisation.
     LE: value = NATIVE_TO_LITTLE_ENDIAN(value); memcpy(bytes, &value, kBits / 8);
     BE: value = NATIVE_TO_BIG_ENDIAN(value);
         memcpy(bytes, reinterpret_cast<char ptr>(&value) + sizeof value - kBits / 8, kBits / 8); *)
Definition bytes_write (cfg : config) (c : chart) (be : bool) (kbits : Z) (mem : list Z) (p : nat) (value : Z)
  : option (list Z) :=
  let ct := uty kbits in
  let n := nbytes kbits in
  if endian_macros cfg then
    v <- to_native cfg be ct value ;;
    let repr := obj_repr (host_le cfg) (sz_of ct) v in
    store_n mem p (if be then skipn (sz_of ct - n) repr else firstn n repr)
  else if be then write_be_loop ct c p n value mem
  else write_le_loop ct c p n value mem.

(* ------------------------------------------------------------------------- *)
(* 4. MemoryAccessor<CharT, N/8, 0, N>, N in 16, 32, 64                        *)
(* ------------------------------------------------------------------------- *)

(* return X_ENDIAN_TO_NATIVE( *EMBOSS_ALIAS_SAFE_POINTER_CAST(const uintN_t, bytes));
   dereferencing a pointer that is not a multiple of alignof(uintN_t) = N/8 is undefined *)
Definition whole_read (cfg : config) (be : bool) (kbits : Z) (base : Z) (mem : list Z) (p : nat) : option Z :=
  let ct := uty kbits in
  if negb ((base + Z.of_nat p) mod (kbits / 8) =? 0) then None
  else bs <- load_n mem p (nbytes kbits) ;; to_native cfg be ct (obj_val (host_le cfg) bs).

(* *EMBOSS_ALIAS_SAFE_POINTER_CAST(uintN_t, bytes) = NATIVE_TO_X_ENDIAN(value); *)
Definition whole_write (cfg : config) (be : bool) (kbits : Z) (base : Z) (mem : list Z) (p : nat) (value : Z)
  : option (list Z) :=
  let ct := uty kbits in
  if negb ((base + Z.of_nat p) mod (kbits / 8) =? 0) then None
  else v <- to_native cfg be ct value ;; store_n mem p (obj_repr (host_le cfg) (nbytes kbits) v).

(* ------------------------------------------------------------------------- *)
(* 5. Template selection                                                      *)
(* ------------------------------------------------------------------------- *)

Inductive spec := SpecBytes | SpecWhole.

(* IsPowerOfTwo(value): value > 0 && (value & (value - 1)) == 0 *)
Definition is_pow2 (a : Z) : bool := (0 <? a) && (Z.land a (a - 1) =? 0).

Definition specialised (cfg : config) : bool := alias_cast cfg && endian_macros cfg.

Definition whole_spec_matches (A K kbits : Z) : bool :=
  (K =? 0) && (((A =? 8) && (kbits =? 64)) || ((A =? 4) && (kbits =? 32)) || ((A =? 2) && (kbits =? 16))).

(* which definition MemoryAccessor<CharT, A, K, kBits> resolves to; every step of the chain is an
   instantiation whose static_asserts must hold *)
Fixpoint select (fuel : nat) (cfg : config) (c : chart) (A K kbits : Z) : option spec :=
  if (A =? 1) && (K =? 0) then
    (* <CharT, 1, 0, kBits>: static_assert(kBits % 8 == 0); static_assert(IsAliasSafe<CharT>::value) *)
    if (kbits mod 8 =? 0) && alias_safe c then Some SpecBytes else None
  else if specialised cfg && whole_spec_matches A K kbits then Some SpecWhole
  else
    (* primary template: static_assert(IsPowerOfTwo(kAlignment)); static_assert(kOffset < kAlignment) *)
    if negb (is_pow2 A) || negb ((0 <=? K) && (K <? A)) then None
    else match fuel with
         | O => None
         | S f => select f cfg c (A / 2) (K mod (A / 2)) kbits
         end.
Definition select_fuel (A : Z) : nat := S (Z.to_nat (Z.log2 A)).

(* kBits for which LeastWidthInteger<kBits> exists and the accessor moves at least one byte *)
Definition kbits_ok (kbits : Z) : bool := (8 <=? kbits) && (kbits <=? 64).

(* MemoryAccessor<CharT, A, K, kBits>::Read{Little,Big}EndianUInt(bytes), bytes = base + p *)
Definition accessor_read (cfg : config) (c : chart) (be : bool) (A K kbits : Z) (base : Z) (mem : list Z) (p : nat)
  : option Z :=
  if negb (kbits_ok kbits) then None
  else match select (select_fuel A) cfg c A K kbits with
       | Some SpecBytes => bytes_read cfg c be kbits mem p
       | Some SpecWhole => whole_read cfg be kbits base mem p
       | None => None
       end.

(* MemoryAccessor<CharT, A, K, kBits>::Write{Little,Big}EndianUInt(bytes, value): the memory afterwards *)
Definition accessor_write (cfg : config) (c : chart) (be : bool) (A K kbits : Z) (base : Z) (mem : list Z) (p : nat)
  (value : Z) : option (list Z) :=
  if negb (kbits_ok kbits) then None
  else match select (select_fuel A) cfg c A K kbits with
       | Some SpecBytes => bytes_write cfg c be kbits mem p value
       | Some SpecWhole => whole_write cfg be kbits base mem p value
       | None => None
       end.

(* ------------------------------------------------------------------------- *)
(* 6. ContiguousBuffer<Byte, kAlignment, kOffset>                             *)
(* ------------------------------------------------------------------------- *)

(* constexpr size_t GreatestCommonDivisor(size_t a, size_t b) { return a == 0 ? b : GreatestCommonDivisor(b % a, a); }
   the first argument decreases strictly after the first call *)
Fixpoint gcd_euclid (fuel : nat) (a b : Z) : option Z :=
  if a =? 0 then Some b
  else match fuel with O => None | S f => gcd_euclid f (b mod a) a end.
Definition greatest_common_divisor (a b : Z) : option Z := gcd_euclid (S (Z.to_nat a)) a b.

(* ContiguousBuffer<Byte, A, K>::OffsetStorageType<SA, SK>
     = ContiguousBuffer<Byte, GCD(A, SA), (K + SK) % GCD(A, SA)>   (size_t arithmetic)
   with GetOffsetStorage's static_assert(SA == 0 || SA > SK) and the static_asserts of the resulting
   ContiguousBuffer (power-of-two alignment, offset < alignment) *)
Definition offset_storage_type (A K SA SK : Z) : option (Z * Z) :=
  if negb ((SA =? 0) || (SK <? SA)) then None
  else
    g <- greatest_common_divisor A SA ;;
    if g =? 0 then None (* % 0 in a constant expression *)
    else
      let k := wrap u64 (K + SK) mod g in
      if is_pow2 g && (k <? g) then Some (g, k) else None.

(* what GetOffsetStorage<SA, SK>(offset, size) asserts about its run-time argument
   (EMBOSS_DCHECK_EQ; SA = 0 means "offset is exactly SK") *)
Definition sub_claim (SA SK offset : Z) : Prop :=
  if SA =? 0 then offset = SK else offset mod SA = SK.
Definition sub_claimb (SA SK offset : Z) : bool :=
  if SA =? 0 then offset =? SK else offset mod SA =? SK.

(* the invariant a ContiguousBuffer<Byte, A, K> documents:
   reinterpret_cast<uintptr_t>(bytes_) % kAlignment == kOffset *)
Definition claim (A K addr : Z) : Prop := addr mod A = K.
Definition claimb (A K addr : Z) : bool := addr mod A =? K.

(* ContiguousBuffer::Read{Little,Big}EndianUInt<kBits>() on a buffer of [size] bytes at [base + p]:
     EMBOSS_CHECK_EQ(SizeInBytes() * 8, kBits); EMBOSS_CHECK_POINTER_ALIGNMENT(bytes_, kAlignment, kOffset);
     return UncheckedRead...UInt<kBits>();
   [checked] = false is the Unchecked entry point *)
Definition buffer_read (cfg : config) (c : chart) (checked be : bool) (A K kbits : Z) (base : Z) (mem : list Z)
  (p size : nat) : option Z :=
  if checked && negb ((Z.of_nat size * 8 =? kbits) && claimb A K (base + Z.of_nat p)) then None
  else accessor_read cfg c be A K kbits base mem p.
Definition buffer_write (cfg : config) (c : chart) (checked be : bool) (A K kbits : Z) (base : Z) (mem : list Z)
  (p size : nat) (value : Z) : option (list Z) :=
  if checked && negb ((Z.of_nat size * 8 =? kbits) && claimb A K (base + Z.of_nat p)) then None
  else accessor_write cfg c be A K kbits base mem p value.

(* ------------------------------------------------------------------------- *)
(* 7. Specification-level                                                     *)
(* ------------------------------------------------------------------------- *)

(* the bytes a container of n bytes holding [v] consists of, in its byte order *)
Definition container_bytes (be : bool) (n : nat) (v : Z) : list Z :=
  if be then rev (le_bytes n v) else le_bytes n v.
Definition order_of (be : bool) : order := if be then BE else LE.
