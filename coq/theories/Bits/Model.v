(* Bits/Model.v -- definitions only.

   Gallina mirrors of the scalar read and write paths of the Emboss C++ runtime
   (runtime/cpp/emboss_memory_util.h, emboss_bit_util.h, emboss_prelude.h,
   emboss_enum_view.h, emboss_cpp_types.h), written at the level of C++
   expressions: every arithmetic step carries its C++ type after integer
   promotion / the usual arithmetic conversions; unsigned results are reduced
   mod 2^width; signed overflow, shifts by >= width (or of negative values to
   the left) and division by zero yield [None]; failed EMBOSS_CHECKs yield
   [None] as well.  Implementation-defined behaviour is fixed as in GCC/Clang:
   conversion to a signed type is modular (two's complement), right shift of a
   negative value is arithmetic, int is 32 bits, long/long long are 64 bits.

   Bytes are [Z] in 0..255 internally; the [list N] interface of DESIGN.md
   Appendix B is provided at the end ([zbytes], [container_val], [read_uint] ...). *)
From Coq Require Import ZArith NArith List Bool.
Import ListNotations.
Open Scope Z_scope.

(* ------------------------------------------------------------------------- *)
(* 1. C++ integer types and operators                                         *)
(* ------------------------------------------------------------------------- *)

Record cty := mk_cty { csigned : bool; cbits : Z }.

Definition u8 := mk_cty false 8.   Definition i8 := mk_cty true 8.
Definition u16 := mk_cty false 16. Definition i16 := mk_cty true 16.
Definition u32 := mk_cty false 32. Definition i32 := mk_cty true 32.
Definition u64 := mk_cty false 64. Definition i64 := mk_cty true 64.

Definition cty_eqb (a b : cty) : bool := Bool.eqb (csigned a) (csigned b) && (cbits a =? cbits b).

Definition cmin (t : cty) : Z := if csigned t then - 2 ^ (cbits t - 1) else 0.
Definition cmax (t : cty) : Z := if csigned t then 2 ^ (cbits t - 1) - 1 else 2 ^ cbits t - 1.
Definition in_cty (t : cty) (z : Z) : Prop := cmin t <= z <= cmax t.
Definition in_ctyb (t : cty) (z : Z) : bool := (cmin t <=? z) && (z <=? cmax t).

(* static_cast<t>(z) / implicit conversion to t.  For signed t this is the
   implementation-defined (GCC: modular) conversion. *)
Definition wrap (t : cty) (z : Z) : Z :=
  let m := z mod 2 ^ cbits t in
  if csigned t then (if m <? 2 ^ (cbits t - 1) then m else m - 2 ^ cbits t) else m.

(* integer promotion: everything narrower than int becomes int (int = 32 bits
   holds every value of [u]int8_t and [u]int16_t) *)
Definition promote (t : cty) : cty := if cbits t <? 32 then i32 else t.

(* usual arithmetic conversions on {int, unsigned, long, unsigned long} *)
Definition common (a b : cty) : cty :=
  let a := promote a in
  let b := promote b in
  if Bool.eqb (csigned a) (csigned b) then (if cbits a <? cbits b then b else a)
  else
    let s := if csigned a then a else b in
    let u := if csigned a then b else a in
    if cbits s <=? cbits u then u else s.

(* a typed value *)
Definition tv := (cty * Z)%type.
Definition ty (x : tv) : cty := fst x.
Definition val (x : tv) : Z := snd x.

Definition bind {A B} (a : option A) (f : A -> option B) : option B :=
  match a with Some x => f x | None => None end.
Notation "x <- a ;; b" := (bind a (fun x => b)) (at level 61, a at next level, right associativity).

Definition c_cast (t : cty) (x : tv) : tv := (t, wrap t (val x)).

(* + - * : operands converted to the common type; signed overflow is UB *)
Definition arith2 (f : Z -> Z -> Z) (x y : tv) : option tv :=
  let t := common (ty x) (ty y) in
  let r := f (wrap t (val x)) (wrap t (val y)) in
  if csigned t then (if in_ctyb t r then Some (t, r) else None)
  else Some (t, r mod 2 ^ cbits t).
Definition c_add := arith2 Z.add.
Definition c_sub := arith2 Z.sub.
Definition c_mul := arith2 Z.mul.

(* / and % truncate toward zero; division by zero and MIN / -1 are UB *)
Definition c_div (x y : tv) : option tv :=
  let t := common (ty x) (ty y) in
  let a := wrap t (val x) in
  let b := wrap t (val y) in
  if b =? 0 then None
  else let r := Z.quot a b in if in_ctyb t r then Some (t, r) else None.
Definition c_rem (x y : tv) : option tv :=
  let t := common (ty x) (ty y) in
  let a := wrap t (val x) in
  let b := wrap t (val y) in
  if b =? 0 then None
  else if in_ctyb t (Z.quot a b) then Some (t, Z.rem a b) else None.

(* << and >> : the result type is the promoted left operand; the count must be
   in [0, width).  Signed <<: negative left operand or a result outside the
   signed range is treated as UB (stricter than C++14, which tolerates results
   representable in the unsigned type).  Signed >> of a negative value is
   arithmetic (implementation-defined; GCC). *)
Definition c_shl (x y : tv) : option tv :=
  let t := promote (ty x) in
  let a := val x in
  let k := val y in
  if (k <? 0) || (cbits t <=? k) then None
  else if csigned t then
         (if a <? 0 then None
          else if in_ctyb t (a * 2 ^ k) then Some (t, a * 2 ^ k) else None)
       else Some (t, (a * 2 ^ k) mod 2 ^ cbits t).
Definition c_shr (x y : tv) : option tv :=
  let t := promote (ty x) in
  let a := val x in
  let k := val y in
  if (k <? 0) || (cbits t <=? k) then None
  else Some (t, a / 2 ^ k).

Definition c_and (x y : tv) : tv :=
  let t := common (ty x) (ty y) in (t, Z.land (wrap t (val x)) (wrap t (val y))).
Definition c_or (x y : tv) : tv :=
  let t := common (ty x) (ty y) in (t, Z.lor (wrap t (val x)) (wrap t (val y))).
Definition c_not (x : tv) : tv :=
  let t := promote (ty x) in
  (t, if csigned t then - val x - 1 else 2 ^ cbits t - 1 - val x).

Definition c_cmp (op : Z -> Z -> bool) (x y : tv) : bool :=
  let t := common (ty x) (ty y) in op (wrap t (val x)) (wrap t (val y)).
Definition c_le := c_cmp Z.leb.
Definition c_lt := c_cmp Z.ltb.
Definition c_ge := c_cmp Z.geb.
Definition c_eq := c_cmp Z.eqb.

(* int literal *)
Definition lit (z : Z) : tv := (i32, z).

(* LeastWidthInteger<kBits> *)
Definition lw (w : Z) : Z := if w <=? 8 then 8 else if w <=? 16 then 16 else if w <=? 32 then 32 else 64.
Definition uty (w : Z) : cty := mk_cty false (lw w).
Definition sty (w : Z) : cty := mk_cty true (lw w).

(* template <typename T> T MaskToNBits(T value, unsigned bits) {
     return bits < sizeof value * 8 ? value & ((static_cast<T>(1) << bits) - 1) : value; } *)
Definition mask_to_n_bits (t : cty) (value bits : Z) : option Z :=
  if bits <? cbits t then
    s <- c_shl (t, 1) (u32, bits) ;;
    m <- c_sub s (lit 1) ;;
    Some (wrap t (val (c_and (t, value) m)))
  else Some value.

(* ------------------------------------------------------------------------- *)
(* 2. Byte buffers, MemoryAccessor, byte orderers, BitBlock, OffsetBitBlock   *)
(* ------------------------------------------------------------------------- *)

(* Null: NullByteOrderer as in the tree (SizeInBytes() = Ok() ? 1 : 0);
   NullSized: NullByteOrderer whose SizeInBytes() is the buffer's (the repaired
   form; the harness picks the constructor after reading the header's text). *)
Inductive order := LE | BE | Null | NullSized.

Definition byte (b : Z) : Prop := 0 <= b < 256.
Definition byteb (b : Z) : bool := (0 <=? b) && (b <? 256).

(* object representation of an unsigned integer on the little-endian host *)
Fixpoint le_bytes (n : nat) (v : Z) : list Z :=
  match n with O => [] | S n' => (v mod 256) :: le_bytes n' (v / 256) end.
Fixpoint of_le (l : list Z) : Z :=
  match l with [] => 0 | b :: t => b + 256 * of_le t end.
Definition of_be (l : list Z) : Z := of_le (rev l).

(* __builtin_bswapN on an N-bit value: reversal of the object representation *)
Definition bswap (cw : Z) (v : Z) : Z := of_le (rev (le_bytes (Z.to_nat (cw / 8)) v)).

(* The portable ByteSwap overloads of emboss_bit_util.h (used when
   EMBOSS_BYTESWAPn is not defined). *)
Definition byteswap16 (x : Z) : option Z :=
  (* return (x << 8) | (x >> 8);   x : uint16_t, result converted to uint16_t *)
  a <- c_shl (u16, x) (lit 8) ;; b <- c_shr (u16, x) (lit 8) ;; Some (wrap u16 (val (c_or a b))).
Definition byteswap32 (x : Z) : option Z :=
  lo <- byteswap16 (wrap u16 x) ;;
  a <- c_shl (u32, lo) (lit 16) ;;
  h <- c_shr (u32, x) (lit 16) ;;
  hi <- byteswap16 (wrap u16 (val h)) ;;
  Some (wrap u32 (val (c_or a (u16, hi)))).
Definition byteswap64 (x : Z) : option Z :=
  lo <- byteswap32 (wrap u32 x) ;;
  a <- c_shl (u64, lo) (lit 32) ;;
  h <- c_shr (u64, x) (lit 32) ;;
  hi <- byteswap32 (wrap u32 (val h)) ;;
  Some (wrap u64 (val (c_or a (u32, hi)))).

(* MemoryAccessor<CharT, 1, 0, kBits>: [ct] = LeastWidthInteger<kBits>::Unsigned,
   [bytes] are the kBits/8 bytes at the pointer.

   opt = true : the memcpy (+ byte swap) variants, which GCC/Clang on a
                little-endian host select (also stands for the aligned
                EMBOSS_ALIAS_SAFE_POINTER_CAST specialisations, which load the
                full-width object the same way);
   opt = false: the portable shift-and-or loops (EMBOSS_NO_OPTIMIZATIONS). *)
Definition zeros (n : nat) : list Z := repeat 0 n.
Definition sz_of (ct : cty) : nat := Z.to_nat (cbits ct / 8).

Definition load_le_memcpy (ct : cty) (bytes : list Z) : Z :=
  (* Unsigned result = 0; memcpy(&result, bytes, kBits / 8); *)
  of_le (bytes ++ zeros (sz_of ct - length bytes)).
Definition load_be_memcpy (ct : cty) (bytes : list Z) : Z :=
  (* memcpy(reinterpret_cast<char ptr>&result + sizeof result - kBits / 8, bytes, kBits / 8); ByteSwap(result) *)
  bswap (cbits ct) (of_le (zeros (sz_of ct - length bytes) ++ bytes)).

(* for (i = 0; i < kBits / 8; ++i) result |= static_cast<Unsigned>(bytes[i]) << i * 8; *)
Fixpoint load_le_loop (ct : cty) (bytes : list Z) (i : Z) (result : Z) : option Z :=
  match bytes with
  | [] => Some result
  | b :: t =>
      s <- c_shl (ct, wrap ct b) (u64, i * 8) ;;
      load_le_loop ct t (i + 1) (wrap ct (val (c_or (ct, result) s)))
  end.
(* ... << (kBits - 8 - i * 8) *)
Fixpoint load_be_loop (ct : cty) (kbits : Z) (bytes : list Z) (i : Z) (result : Z) : option Z :=
  match bytes with
  | [] => Some result
  | b :: t =>
      s <- c_shl (ct, wrap ct b) (u64, kbits - 8 - i * 8) ;;
      load_be_loop ct kbits t (i + 1) (wrap ct (val (c_or (ct, result) s)))
  end.

Definition store_le_memcpy (ct : cty) (n : nat) (value : Z) : list Z :=
  (* memcpy(bytes, &value, kBits / 8) *)
  firstn n (le_bytes (sz_of ct) value).
Definition store_be_memcpy (ct : cty) (n : nat) (value : Z) : list Z :=
  (* value = ByteSwap(value); memcpy(bytes, reinterpret_cast<char ptr>&value + sizeof value - kBits / 8, kBits / 8) *)
  skipn (sz_of ct - n) (le_bytes (sz_of ct) (bswap (cbits ct) value)).

(* for (i..) { bytes[i] = (uint8_t)value; if (sizeof value > 1) value >>= 8; } *)
Fixpoint store_le_loop (ct : cty) (n : nat) (value : Z) : option (list Z) :=
  match n with
  | O => Some []
  | S n' =>
      v' <- (if 8 <? cbits ct then r <- c_shr (ct, value) (lit 8) ;; Some (wrap ct (val r)) else Some value) ;;
      rest <- store_le_loop ct n' v' ;;
      Some (wrap u8 value :: rest)
  end.
(* bytes[kBits / 8 - 1 - i] = ... : the same sequence, laid out backwards *)
Definition store_be_loop (ct : cty) (n : nat) (value : Z) : option (list Z) :=
  l <- store_le_loop ct n value ;; Some (rev l).

(* ContiguousBuffer::Read{Little,Big}EndianUInt<kBits> through the byte orderer:
   EMBOSS_CHECK_EQ(SizeInBytes() * 8, kBits), then the accessor.
   NullByteOrderer reads little-endian and writes big-endian, 8 bits only
   (static_assert kBits == 8: [None] stands for "does not compile"). *)
Definition container_load (opt : bool) (o : order) (kbits : Z) (bytes : list Z) : option Z :=
  let ct := uty kbits in
  if negb (Z.of_nat (length bytes) * 8 =? kbits) then None
  else match o with
       | LE => if opt then Some (load_le_memcpy ct bytes) else load_le_loop ct bytes 0 0
       | BE => if opt then Some (load_be_memcpy ct bytes) else load_be_loop ct kbits bytes 0 0
       | Null | NullSized =>
           if kbits =? 8 then (if opt then Some (load_le_memcpy ct bytes) else load_le_loop ct bytes 0 0)
           else None
       end.

Definition container_store (opt : bool) (o : order) (kbits : Z) (bytes : list Z) (value : Z) : option (list Z) :=
  let ct := uty kbits in
  let n := length bytes in
  if negb (Z.of_nat n * 8 =? kbits) then None
  else match o with
       | LE => if opt then Some (store_le_memcpy ct n value) else store_le_loop ct n value
       | BE => if opt then Some (store_be_memcpy ct n value) else store_be_loop ct n value
       | Null | NullSized =>
           if kbits =? 8 then (if opt then Some (store_be_memcpy ct n value) else store_be_loop ct n value)
           else None
       end.

(* What a scalar view holds as its [buffer_]: a BitBlock<ByteOrderer<ContiguousBuffer>, kbits>
   possibly wrapped in an OffsetBitBlock (nested GetOffsetStorage calls collapse
   into one OffsetBitBlock over the same BitBlock).
   bv_bytes = None: the ContiguousBuffer holds a null pointer. *)
Record obb := mk_obb { ob_offset : Z; ob_size : Z; ob_ok : bool }.
Record bitview := mk_bv {
  bv_order : order;
  bv_kbits : Z;                    (* kBufferSizeInBits *)
  bv_bytes : option (list Z);      (* bytes covered by the ContiguousBuffer (may be short) *)
  bv_obb : option obb }.

Definition bv_ct (bv : bitview) : cty := uty (bv_kbits bv).

(* BitBlock::Ok(): buffer_.Ok() && buffer_.SizeInBytes() * 8 == kBufferSizeInBits.
   NullByteOrderer::SizeInBytes() is [Ok() ? 1 : 0], whatever the size of the
   underlying ContiguousBuffer. *)
Definition orderer_size_in_bytes (o : order) (bs : list Z) : Z :=
  match o with Null => 1 | _ => Z.of_nat (length bs) end.
Definition bitblock_ok (bv : bitview) : bool :=
  match bv_bytes bv with
  | Some bs => orderer_size_in_bytes (bv_order bv) bs * 8 =? bv_kbits bv
  | None => false
  end.

(* BitBlock::GetOffsetStorage(offset, size) and OffsetBitBlock::GetOffsetStorage;
   the constructor narrows offset and size to uint8_t and records whether that
   was lossless. *)
Definition mk_offset_block (offset size : Z) (ok : bool) : obb :=
  let o8 := wrap u8 offset in
  let s8 := wrap u8 size in
  mk_obb o8 s8 ((offset =? o8) && (size =? s8) && ok).
Definition get_offset_storage (bv : bitview) (offset size : Z) : bitview :=
  match bv_obb bv with
  | None =>
      mk_bv (bv_order bv) (bv_kbits bv) (bv_bytes bv)
            (Some (mk_offset_block offset size (bitblock_ok bv && (offset + size <=? bv_kbits bv))))
  | Some ob =>
      mk_bv (bv_order bv) (bv_kbits bv) (bv_bytes bv)
            (Some (mk_offset_block (ob_offset ob + offset) size (ob_ok ob && (offset + size <=? ob_size ob))))
  end.

Definition bv_ok (bv : bitview) : bool :=
  match bv_obb bv with None => bitblock_ok bv | Some ob => ob_ok ob end.
Definition bv_size_in_bits (bv : bitview) : Z :=
  match bv_obb bv with None => bv_kbits bv | Some ob => ob_size ob end.

(* BitBlock::ReadUInt *)
Definition bitblock_read (opt : bool) (bv : bitview) : option Z :=
  match bv_bytes bv with
  | Some bs => container_load opt (bv_order bv) (bv_kbits bv) bs
  | None => None
  end.

(* buffer_.ReadUInt():
   OffsetBitBlock: EMBOSS_CHECK_GE(bit_block_.SizeInBits(), offset_ + size_); EMBOSS_CHECK(Ok());
                   return MaskToNBits(bit_block_.ReadUInt(), offset_ + size_) >> offset_; *)
Definition bv_read (opt : bool) (bv : bitview) : option Z :=
  match bv_obb bv with
  | None => bitblock_read opt bv
  | Some ob =>
      let ct := bv_ct bv in
      if negb (ob_offset ob + ob_size ob <=? bv_kbits bv) then None
      else if negb (ob_ok ob) then None
      else
        raw <- bitblock_read opt bv ;;
        m <- mask_to_n_bits ct raw (ob_offset ob + ob_size ob) ;;
        r <- c_shr (ct, m) (u8, ob_offset ob) ;;
        Some (wrap ct (val r))
  end.

(* BitBlock::WriteUInt: EMBOSS_CHECK_EQ(value, MaskToNBits(value, kBufferSizeInBits)); store *)
Definition bitblock_write (opt : bool) (bv : bitview) (value : Z) : option (list Z) :=
  match bv_bytes bv with
  | Some bs =>
      m <- mask_to_n_bits (bv_ct bv) value (bv_kbits bv) ;;
      if negb (value =? m) then None
      else container_store opt (bv_order bv) (bv_kbits bv) bs value
  | None => None
  end.

(* ValueType MaskInValue(ValueType original_value, ValueType new_value) const {
     ValueType original_mask = static_cast<ValueType>(~(
         MaskToNBits(static_cast<ValueType>(~ValueType{0}), size_) << offset_));
     return static_cast<ValueType>((original_value & original_mask) | (new_value << offset_)); } *)
Definition mask_in_value (ct : cty) (offset size original_value new_value : Z) : option Z :=
  let all_ones := wrap ct (val (c_not (ct, 0))) in
  m <- mask_to_n_bits ct all_ones size ;;
  sh <- c_shl (ct, m) (u8, offset) ;;
  let original_mask := wrap ct (val (c_not sh)) in
  nv <- c_shl (ct, new_value) (u8, offset) ;;
  Some (wrap ct (val (c_or (c_and (ct, original_value) (ct, original_mask)) nv))).

(* buffer_.WriteUInt(value); result: the new contents of the container's bytes *)
Definition bv_write (opt : bool) (bv : bitview) (value : Z) : option (list Z) :=
  match bv_obb bv with
  | None => bitblock_write opt bv value
  | Some ob =>
      let ct := bv_ct bv in
      m <- mask_to_n_bits ct value (ob_size ob) ;;
      if negb (value =? m) then None
      else if negb (ob_ok ob) then None
      else
        raw <- bitblock_read opt bv ;;
        nv <- mask_in_value ct (ob_offset ob) (ob_size ob) raw value ;;
        bitblock_write opt bv nv
  end.

(* ------------------------------------------------------------------------- *)
(* 3. Views                                                                   *)
(* ------------------------------------------------------------------------- *)

(* IsComplete(): buffer_.Ok() && buffer_.SizeInBits() >= Parameters::kBits
   (FlagView: ... > 0) *)
Definition is_complete (bv : bitview) (w : Z) : bool := bv_ok bv && (w <=? bv_size_in_bits bv).
Definition flag_is_complete (bv : bitview) : bool := bv_ok bv && (0 <? bv_size_in_bits bv).

(* ---- UIntView ---- *)
Definition uint_read (opt : bool) (bv : bitview) (w : Z) : option Z :=
  r <- bv_read opt bv ;; Some (wrap (uty w) r).
Definition uint_ok (bv : bitview) (w : Z) : bool := is_complete bv w.

(* value >= 0 &&
   static_cast<uint64_t>(value) <= ((static_cast<ValueType>(1) << (kBits - 1)) << 1) - 1 *)
Definition uint_could_write (argty : cty) (w : Z) (v : Z) : option bool :=
  if negb (c_ge (argty, v) (lit 0)) then Some false
  else
    a <- c_shl (uty w, 1) (lit (w - 1)) ;;
    b <- c_shl a (lit 1) ;;
    c <- c_sub b (lit 1) ;;
    Some (c_le (c_cast u64 (argty, v)) c).

(* TryToWrite: result (success?, new container bytes if written) *)
Definition uint_try_write (opt : bool) (bv : bitview) (argty : cty) (w : Z) (v : Z)
  : option (bool * option (list Z)) :=
  cw <- uint_could_write argty w v ;;
  if negb cw then Some (false, None)
  else if negb (is_complete bv w) then Some (false, None)
  else bs <- bv_write opt bv (wrap (bv_ct bv) (wrap (uty w) v)) ;; Some (true, Some bs).

(* ---- IntView ---- *)
(* static_cast<ValueType>(data << (sizeof(ValueType) * 8 - kBits)) >> (sizeof(ValueType) * 8 - kBits) *)
Definition convert_to_signed_tc (ct : cty) (w : Z) (data : Z) : option Z :=
  let vt := sty w in
  let k := cbits vt - w in
  a <- c_shl (ct, data) (u64, k) ;;
  b <- c_shr (c_cast vt a) (u64, k) ;;
  Some (wrap vt (val b)).
(* the branch for EMBOSS_SYSTEM_IS_TWOS_COMPLEMENT == 0 *)
Definition convert_to_signed_portable (ct : cty) (w : Z) (data : Z) : option Z :=
  let vt := sty w in
  if w =? 1 then
    (if c_eq (ct, data) (lit 0) then Some 0
     else if c_eq (ct, data) (lit 1) then Some (-1)
     else None (* EMBOSS_CHECK(false) *))
  else
    sb <- c_shl (ct, 1) (lit (w - 1)) ;;
    let sign_bit := wrap ct (val sb) in
    mk <- c_sub (ct, sign_bit) (lit 1) ;;
    let mask := wrap ct (val mk) in
    let data_mod := wrap ct (val (c_and (ct, mask) (ct, data))) in
    rs <- c_shr (c_and (ct, data) (ct, sign_bit)) (lit 1) ;;
    let result_sign_bit := wrap vt (val rs) in
    d1 <- c_sub (ct, data_mod) (vt, result_sign_bit) ;;
    d2 <- c_sub d1 (vt, result_sign_bit) ;;
    Some (wrap vt (val d2)).
Definition convert_to_signed (opt : bool) := if opt then convert_to_signed_tc else convert_to_signed_portable.

Definition int_read (opt : bool) (bv : bitview) (w : Z) : option Z :=
  r <- bv_read opt bv ;; convert_to_signed opt (bv_ct bv) w r.
Definition int_ok (bv : bitview) (w : Z) : bool := is_complete bv w.

(* (!is_signed<IntT> || static_cast<int64_t>(value) >=
       (kBits == 1 ? -1 : (static_cast<ValueType>(1) << (kBits - 2)) * -2)) &&
   value <= (kBits == 1 ? 0 : ((static_cast<ValueType>(1) << (kBits - 2)) - 1) * 2 + 1) *)
Definition int_could_write (argty : cty) (w : Z) (v : Z) : option bool :=
  let vt := sty w in
  lower_ok <-
    (if negb (csigned argty) then Some true
     else
       lo <- (if w =? 1 then Some (lit (-1))
              else a <- c_shl (vt, 1) (lit (w - 2)) ;; c_mul a (lit (-2))) ;;
       Some (c_ge (c_cast i64 (argty, v)) lo)) ;;
  if negb lower_ok then Some false
  else
    hi <- (if w =? 1 then Some (lit 0)
           else a <- c_shl (vt, 1) (lit (w - 2)) ;;
                b <- c_sub a (lit 1) ;;
                c <- c_mul b (lit 2) ;;
                c_add c (lit 1)) ;;
    Some (c_le (argty, v) hi).

(* buffer_.WriteUInt(MaskToNBits(static_cast<typename BitViewType::ValueType>(value), kBits)) *)
Definition int_try_write (opt : bool) (bv : bitview) (argty : cty) (w : Z) (v : Z)
  : option (bool * option (list Z)) :=
  cw <- int_could_write argty w v ;;
  if negb cw then Some (false, None)
  else if negb (is_complete bv w) then Some (false, None)
  else
    m <- mask_to_n_bits (bv_ct bv) (wrap (bv_ct bv) v) w ;;
    bs <- bv_write opt bv m ;; Some (true, Some bs).

(* ---- BcdView ---- *)
(* for (int shift = 0; shift < kBits; shift += 4) {
     result += ((bcd_value >> shift) & 0xf) * multiplier;  multiplier *= 10; } *)
Fixpoint bcd_to_binary_loop (vt : cty) (w : Z) (fuel : nat) (bcd shift result multiplier : Z) : option Z :=
  match fuel with
  | O => if shift <? w then None (* fuel exhausted: excluded in statements *) else Some result
  | S f =>
      if shift <? w then
        a <- c_shr (vt, bcd) (lit shift) ;;
        p <- c_mul (c_and a (lit 15)) (vt, multiplier) ;;
        r <- c_add (vt, result) p ;;
        m <- c_mul (vt, multiplier) (lit 10) ;;
        s <- c_add (lit shift) (lit 4) ;;
        bcd_to_binary_loop vt w f bcd (val s) (wrap vt (val r)) (wrap vt (val m))
      else Some result
  end.
Definition bcd_fuel : nat := 17.
Definition convert_to_binary (w : Z) (data : Z) : option Z :=
  let vt := uty w in bcd_to_binary_loop vt w bcd_fuel (wrap vt data) 0 0 1.

(* IsBcd<T>(x): T narrower than unsigned is redirected to IsBcd<unsigned>;
   ((~x - (~T{0} / 0xf * 0x6)) & x & (~T{0} / 0xf * 0x8)) == 0 *)
Definition is_bcd (ct : cty) (x : Z) : option bool :=
  let t := if cbits ct <? 32 then u32 else ct in
  let ones := c_not (t, 0) in
  q <- c_div ones (lit 15) ;;
  c6 <- c_mul q (lit 6) ;;
  c8 <- c_mul q (lit 8) ;;
  d <- c_sub (c_not (t, x)) c6 ;;
  Some (c_eq (c_and (c_and d (t, x)) c8) (lit 0)).

Definition bcd_read (opt : bool) (bv : bitview) (w : Z) : option Z :=
  r <- bv_read opt bv ;; convert_to_binary w r.
(* Ok(): IsComplete() && IsBcd(buffer_.ReadUInt()) [&& ValueIsOk] *)
Definition bcd_ok (opt : bool) (bv : bitview) (w : Z) : option bool :=
  if negb (is_complete bv w) then Some false
  else r <- bv_read opt bv ;; is_bcd (bv_ct bv) r.

(* constexpr ValueType MaxBcd(int bits) {
     return bits < 4 ? (1 << bits) - 1 : 10 * (MaxBcd<ValueType>(bits - 4) + 1) - 1; } *)
Fixpoint max_bcd (vt : cty) (fuel : nat) (bits : Z) : option Z :=
  match fuel with
  | O => None
  | S f =>
      if bits <? 4 then
        a <- c_shl (lit 1) (lit bits) ;; b <- c_sub a (lit 1) ;; Some (wrap vt (val b))
      else
        m <- max_bcd vt f (bits - 4) ;;
        a <- c_add (vt, m) (lit 1) ;;
        b <- c_mul (lit 10) a ;;
        c <- c_sub b (lit 1) ;;
        Some (wrap vt (val c))
  end.

(* CouldWriteValue(ValueType value): the argument has already been converted to
   ValueType by the caller's implicit conversion, which is part of the call. *)
Definition bcd_could_write (argty : cty) (w : Z) (v : Z) : option bool :=
  let vt := uty w in
  mx <- max_bcd vt bcd_fuel w ;;
  Some (c_le (c_cast vt (argty, v)) (vt, mx)).

(* for (int shift = 0; shift < kBits; shift += 4) { bcd_value |= (value % 10) << shift; value /= 10; } *)
Fixpoint to_bcd_loop (vt : cty) (w : Z) (fuel : nat) (value shift bcd : Z) : option Z :=
  match fuel with
  | O => if shift <? w then None else Some bcd
  | S f =>
      if shift <? w then
        d <- c_rem (vt, value) (lit 10) ;;
        s <- c_shl d (lit shift) ;;
        q <- c_div (vt, value) (lit 10) ;;
        n <- c_add (lit shift) (lit 4) ;;
        to_bcd_loop vt w f (wrap vt (val q)) (val n) (wrap vt (val (c_or (vt, bcd) s)))
      else Some bcd
  end.
Definition convert_to_bcd (w : Z) (value : Z) : option Z :=
  to_bcd_loop (uty w) w bcd_fuel value 0 0.

Definition bcd_try_write (opt : bool) (bv : bitview) (argty : cty) (w : Z) (v : Z)
  : option (bool * option (list Z)) :=
  cw <- bcd_could_write argty w v ;;
  if negb cw then Some (false, None)
  else if negb (is_complete bv w) then Some (false, None)
  else
    b <- convert_to_bcd w (wrap (uty w) v) ;;
    bs <- bv_write opt bv (wrap (bv_ct bv) b) ;; Some (true, Some bs).

(* ---- FlagView ---- *)
Definition flag_read (opt : bool) (bv : bitview) : option bool :=
  r <- bv_read opt bv ;; Some (negb (r =? 0)).
Definition flag_ok (bv : bitview) : bool := flag_is_complete bv.
Definition flag_try_write (opt : bool) (bv : bitview) (v : bool)
  : option (bool * option (list Z)) :=
  if negb (flag_is_complete bv) then Some (false, None)
  else bs <- bv_write opt bv (if v then 1 else 0) ;; Some (true, Some bs).

(* ---- EnumView<Enum, Parameters, BitViewType>; [ut] = the enum's underlying type ---- *)
Definition enum_read (opt : bool) (bv : bitview) (ut : cty) (w : Z) : option Z :=
  r <- bv_read opt bv ;; Some (wrap ut r).
Definition enum_ok (bv : bitview) (w : Z) : bool := is_complete bv w.

(* value == static_cast<ValueType>(static_cast<BVT>(value)) &&
   ((kBits == sizeof(BVT) * 8) ||
    (static_cast<BVT>(value) < ((static_cast<BVT>(1) << (kBits - 1)) << 1))) *)
Definition enum_could_write (ct ut : cty) (w : Z) (v : Z) : option bool :=
  let as_bvt := wrap ct v in
  if negb (v =? wrap ut as_bvt) then Some false
  else if w =? cbits ct then Some true
  else
    a <- c_shl (ct, 1) (lit (w - 1)) ;;
    b <- c_shl a (lit 1) ;;
    Some (c_lt (ct, as_bvt) b).

Definition enum_try_write (opt : bool) (bv : bitview) (ut : cty) (w : Z) (v : Z)
  : option (bool * option (list Z)) :=
  cw <- enum_could_write (bv_ct bv) ut w v ;;
  if negb cw then Some (false, None)
  else if negb (is_complete bv w) then Some (false, None)
  else bs <- bv_write opt bv (wrap (bv_ct bv) v) ;; Some (true, Some bs).

(* ---- FloatView: the value is identified with its bit pattern (memcpy both ways) ---- *)
Definition float_read_bits (opt : bool) (bv : bitview) (w : Z) : option Z :=
  r <- bv_read opt bv ;; Some (wrap (mk_cty false w) r).
Definition float_ok (bv : bitview) (w : Z) : bool := is_complete bv w.
Definition float_try_write (opt : bool) (bv : bitview) (w : Z) (bits : Z)
  : option (bool * option (list Z)) :=
  if negb (is_complete bv w) then Some (false, None)
  else bs <- bv_write opt bv (wrap (bv_ct bv) bits) ;; Some (true, Some bs).

(* ------------------------------------------------------------------------- *)
(* 4. Root buffer: ContiguousBuffer::GetOffsetStorage(offset, size)           *)
(* ------------------------------------------------------------------------- *)

(* size_ < offset ? 0 : min(size, size_ - offset) bytes starting at offset *)
Definition sub_storage (root : list Z) (offset size : nat) : list Z :=
  firstn size (skipn offset root).

(* the bit view of a field of a struct: c bytes at byte offset boff, byte order o *)
Definition field_bv (o : order) (root : list Z) (boff c : nat) : bitview :=
  mk_bv o (8 * Z.of_nat c) (Some (sub_storage root boff c)) None.

(* the root buffer after the container's bytes were replaced *)
Definition splice (root : list Z) (boff : nat) (bs : list Z) : list Z :=
  firstn boff root ++ bs ++ skipn (boff + length bs) root.

(* ------------------------------------------------------------------------- *)
(* 5. Specification-level functions                                           *)
(* ------------------------------------------------------------------------- *)

Definition container_valz (o : order) (bytes : list Z) : Z :=
  match o with LE | Null | NullSized => of_le bytes | BE => of_be bytes end.

Definition field_bits (cv off w : Z) : Z := (cv / 2 ^ off) mod 2 ^ w.
Definition twos_complement (w u : Z) : Z := if u <? 2 ^ (w - 1) then u else u - 2 ^ w.
Definition nibble (i : nat) (x : Z) : Z := (x / 16 ^ Z.of_nat i) mod 16.
Fixpoint bcd_value (k : nat) (x : Z) : Z :=
  match k with O => 0 | S k' => x mod 16 + 10 * bcd_value k' (x / 16) end.
Fixpoint all_nibbles_le9 (k : nat) (x : Z) : bool :=
  match k with O => true | S k' => (x mod 16 <=? 9) && all_nibbles_le9 k' (x / 16) end.
(* largest value a w-bit Bcd holds: 10^(w/4) * 2^(w mod 4) - 1 *)
Definition bcd_max (w : Z) : Z := 10 ^ (w / 4) * 2 ^ (w mod 4) - 1.
(* decimal digits to BCD *)
Fixpoint to_bcd_spec (k : nat) (v : Z) : Z :=
  match k with O => 0 | S k' => v mod 10 + 16 * to_bcd_spec k' (v / 10) end.

(* ------------------------------------------------------------------------- *)
(* 6. The [list N] interface                                                  *)
(* ------------------------------------------------------------------------- *)

Definition zbytes (bs : list N) : list Z := map Z.of_N bs.
Definition bytes_ok (bs : list N) : Prop := Forall (fun b => (b < 256)%N) bs.
Definition container_val (o : order) (bs : list N) : N := Z.to_N (container_valz o (zbytes bs)).

(* a field at bit offset [off], width [w] of a container made of all of [bs] *)
Definition bits_field (o : order) (bs : list N) (off w : Z) : bitview :=
  get_offset_storage (field_bv o (zbytes bs) 0 (length bs)) off w.
Definition whole_field (o : order) (bs : list N) : bitview := field_bv o (zbytes bs) 0 (length bs).

Definition read_uint (opt : bool) (o : order) (bs : list N) (off w : Z) : option Z :=
  uint_read opt (bits_field o bs off w) w.
Definition read_int (opt : bool) (o : order) (bs : list N) (off w : Z) : option Z :=
  int_read opt (bits_field o bs off w) w.

(* ------------------------------------------------------------------------- *)
(* 7. [requires]: CouldWriteValue ends with `&& Parameters::ValueIsOk(static_cast<ValueType>(value))`;
      [vok] stands for the generated validator (its expression semantics are C01's subject) *)
(* ------------------------------------------------------------------------- *)
Definition uint_could_write_req (vok : Z -> bool) (argty : cty) (w : Z) (v : Z) : option bool :=
  b <- uint_could_write argty w v ;; Some (if b then vok (wrap (uty w) v) else false).
Definition int_could_write_req (vok : Z -> bool) (argty : cty) (w : Z) (v : Z) : option bool :=
  b <- int_could_write argty w v ;; Some (if b then vok (wrap (sty w) v) else false).
