(* Bits/Exec.v -- executable glue for the C02/C03 correspondence harness:
   an accessor descriptor (what gen_bits.py generated), the observations the
   C++ driver prints for it, and boolean equality on observations. *)
From Coq Require Import ZArith List Bool.
Import ListNotations.
Require Import EmbossV.Bits.Model.
Open Scope Z_scope.

Inductive kind := KUInt | KInt | KBcd | KFlag | KEnum (ut : cty) | KFloat.

Record acc := mk_acc {
  a_opt : bool;              (* false: compiled with EMBOSS_NO_OPTIMIZATIONS *)
  a_order : order;
  a_boff : nat;              (* byte offset of the container in the root buffer *)
  a_c : nat;                 (* container size in bytes *)
  a_path : list (Z * Z);     (* nested GetOffsetStorage(offset, size) calls; [] = directly on the BitBlock *)
  a_kind : kind;
  a_w : Z }.

Definition acc_bv (a : acc) (root : list Z) : bitview :=
  fold_left (fun bv os => get_offset_storage bv (fst os) (snd os)) (a_path a)
            (field_bv (a_order a) root (a_boff a) (a_c a)).

(* sizeof(ValueType) * 8 and signedness as the driver prints them *)
Definition value_type (a : acc) : Z * bool :=
  match a_kind a with
  | KUInt | KBcd => (lw (a_w a), false)
  | KInt => (lw (a_w a), true)
  | KFlag => (8, false)
  | KEnum ut => (cbits ut, csigned ut)
  | KFloat => (a_w a, true)
  end.

Definition b2z (b : bool) : Z := if b then 1 else 0.

(* UncheckedRead() (same arithmetic as Read(), without the CHECKs that IsComplete() implies) *)
Definition view_read (a : acc) (bv : bitview) : option Z :=
  match a_kind a with
  | KUInt => uint_read (a_opt a) bv (a_w a)
  | KInt => int_read (a_opt a) bv (a_w a)
  | KBcd => bcd_read (a_opt a) bv (a_w a)
  | KFlag => option_map b2z (flag_read (a_opt a) bv)
  | KEnum ut => enum_read (a_opt a) bv ut (a_w a)
  | KFloat => float_read_bits (a_opt a) bv (a_w a)
  end.

Definition view_complete (a : acc) (bv : bitview) : bool :=
  match a_kind a with KFlag => flag_is_complete bv | _ => is_complete bv (a_w a) end.

Definition view_ok (a : acc) (bv : bitview) : option bool :=
  match a_kind a with
  | KBcd => bcd_ok (a_opt a) bv (a_w a)
  | _ => Some (view_complete a bv)
  end.

(* R line: Ok(), IsComplete(), sizeof*8, signed, UncheckedRead() when complete *)
Definition robs := (bool * bool * Z * bool * option Z)%type.
Definition run_read (a : acc) (root : list Z) : option robs :=
  let bv := acc_bv a root in
  let cpl := view_complete a bv in
  ok <- view_ok a bv ;;
  v <- (if cpl then r <- view_read a bv ;; Some (Some r) else Some None) ;;
  Some (ok, cpl, fst (value_type a), snd (value_type a), v).

Definition view_could_write (a : acc) (bv : bitview) (argty : cty) (v : Z) : option bool :=
  match a_kind a with
  | KUInt => uint_could_write argty (a_w a) v
  | KInt => int_could_write argty (a_w a) v
  | KBcd => bcd_could_write argty (a_w a) v
  | KFlag => Some true
  | KEnum ut => enum_could_write (bv_ct bv) ut (a_w a) v
  | KFloat => Some true
  end.

Definition view_try_write (a : acc) (bv : bitview) (argty : cty) (v : Z) : option (bool * option (list Z)) :=
  match a_kind a with
  | KUInt => uint_try_write (a_opt a) bv argty (a_w a) v
  | KInt => int_try_write (a_opt a) bv argty (a_w a) v
  | KBcd => bcd_try_write (a_opt a) bv argty (a_w a) v
  | KFlag => flag_try_write (a_opt a) bv (negb (v =? 0))
  | KEnum ut => enum_try_write (a_opt a) bv ut (a_w a) v
  | KFloat => float_try_write (a_opt a) bv (a_w a) v
  end.

(* W line: CouldWriteValue(v), TryToWrite(v), Read() afterwards (when written), the whole buffer *)
Definition wobs := (bool * bool * option Z * list Z)%type.
Definition run_write (a : acc) (root : list Z) (av : cty * Z) : option wobs :=
  let bv := acc_bv a root in
  cw <- view_could_write a bv (fst av) (snd av) ;;
  tw <- view_try_write a bv (fst av) (snd av) ;;
  match tw with
  | (true, Some bs) =>
      let root' := splice root (a_boff a) bs in
      r <- view_read a (acc_bv a root') ;;
      Some (cw, true, Some r, root')
  | (false, None) => Some (cw, false, None, root)
  | _ => None
  end.

Definition case_in := (acc * list Z * list (cty * Z))%type.
Definition case_out := (option robs * list (option wobs))%type.
Definition run_case (c : case_in) : case_out :=
  let '(a, root, ws) := c in (run_read a root, map (run_write a root) ws).

(* ---- equality on observations ---- *)
Definition optb {A} (f : A -> A -> bool) (a b : option A) : bool :=
  match a, b with
  | None, None => true
  | Some x, Some y => f x y
  | _, _ => false
  end.
Fixpoint list_eqb {A} (f : A -> A -> bool) (a b : list A) : bool :=
  match a, b with
  | [], [] => true
  | x :: a', y :: b' => f x y && list_eqb f a' b'
  | _, _ => false
  end.
Definition robs_eqb (x y : robs) : bool :=
  let '(o1, c1, s1, g1, v1) := x in
  let '(o2, c2, s2, g2, v2) := y in
  Bool.eqb o1 o2 && Bool.eqb c1 c2 && (s1 =? s2) && Bool.eqb g1 g2 && optb Z.eqb v1 v2.
Definition wobs_eqb (x y : wobs) : bool :=
  let '(c1, t1, r1, b1) := x in
  let '(c2, t2, r2, b2) := y in
  Bool.eqb c1 c2 && Bool.eqb t1 t2 && optb Z.eqb r1 r2 && list_eqb Z.eqb b1 b2.
Definition case_out_eqb (x y : case_out) : bool :=
  optb robs_eqb (fst x) (fst y) && list_eqb (optb wobs_eqb) (snd x) (snd y).

(* entry points used by harness/props/c02.py and c03.py; a buffer is passed as
   (length, little-endian number) to keep the generated case files small *)
Definition buf_of (b : nat * Z) : list Z := le_bytes (fst b) (snd b).
Definition buf_to (l : list Z) : Z * Z := (Z.of_nat (length l), of_le l).
Definition run_read_case (c : acc * (nat * Z)) : option robs := run_read (fst c) (buf_of (snd c)).
Definition wobs' := (bool * bool * option Z * (Z * Z))%type.
Definition run_write_case (c : acc * (nat * Z) * list (cty * Z)) : list (option wobs') :=
  let '(a, b, ws) := c in
  map (fun av => option_map (fun o : wobs => let '(cw, tw, rd, root') := o in (cw, tw, rd, buf_to root'))
                            (run_write a (buf_of b) av)) ws.
Definition wobs'_eqb (x y : wobs') : bool :=
  let '(c1, t1, r1, b1) := x in
  let '(c2, t2, r2, b2) := y in
  Bool.eqb c1 c2 && Bool.eqb t1 t2 && optb Z.eqb r1 r2 && (fst b1 =? fst b2) && (snd b1 =? snd b2).
Definition read_out_eqb := optb robs_eqb.
Definition write_out_eqb := list_eqb (optb wobs'_eqb).
