From Coq Require Import ZArith List Bool.
Require Import EmbossV.Bits.Model.
Lemma placeholder_c02 : True. Proof. exact I. Qed.
