(* C02 -- scalar fields decode with the documented byte order, bit numbering and format.
   Statements only; proofs are in Proofs_*.v.  [read_uint], [read_int], [bits_field] ... are the
   Gallina mirrors of the C++ read path in Bits/Model.v ([true] = the runtime as compiled by GCC/Clang:
   memcpy + byte swap, two's-complement ConvertToSigned). *)
From Coq Require Import ZArith NArith List Bool.
Import ListNotations.
Require Import EmbossV.Bits.Model EmbossV.Bits.Proofs_Int EmbossV.Bits.Proofs_Load EmbossV.Bits.Proofs_Read
               EmbossV.Bits.Proofs_Bcd EmbossV.Bits.Proofs_Write EmbossV.Bits.Proofs_Portable EmbossV.Bits.Proofs_C02.
Open Scope Z_scope.

(* container: 1..8 bytes (Null order: 1 byte); field: 1 <= w, 0 <= off, off + w <= 8 * bytes.
   cvz o bs = the container's value in its byte order (as a Z); bit 0 is its least significant bit. *)
Theorem read_uint_spec : forall o bs off w, container_ok o bs -> field_ok bs off w ->
  read_uint true o bs off w = Some ((cvz o bs / 2 ^ off) mod 2 ^ w).
Proof. exact read_uint_spec_l. Qed.

Theorem read_int_spec : forall o bs off w, container_ok o bs -> field_ok bs off w ->
  read_int true o bs off w = Some (twos_complement w ((cvz o bs / 2 ^ off) mod 2 ^ w)).
Proof. exact read_int_spec_l. Qed.

Theorem read_bcd_spec : forall o bs off w, container_ok o bs -> field_ok bs off w ->
  bcd_read true (bits_field o bs off w) w = Some (bcd_value (bcd_digits w) (spec_bits o bs off w)).
Proof. exact read_bcd_spec_l. Qed.

(* IsBcd's parallel-nibble trick, for every value of the type it is instantiated at (all 2^64 for uint64_t) *)
Theorem is_bcd_spec : forall ct x, std_cty ct -> csigned ct = false -> 0 <= x < 2 ^ cbits ct ->
  exists b, is_bcd ct x = Some b /\ (b = true <-> forall i : nat, nibble i x <= 9).
Proof. exact is_bcd_spec_l. Qed.

(* ... and for any number of nibbles, as pure arithmetic *)
Theorem bcd_trick_all_widths : forall k x, 0 <= x < 16 ^ Z.of_nat k ->
  (Z.land (Z.land ((16 ^ Z.of_nat k - 1 - x - c6 k) mod 16 ^ Z.of_nat k) x) (c8 k) =? 0) = all_nibbles_le9 k x.
Proof. exact bcd_trick. Qed.

Theorem bcd_ok_spec : forall o bs off w, container_ok o bs -> field_ok bs off w ->
  exists b, bcd_ok true (bits_field o bs off w) w = Some b /\
            (b = true <-> forall i : nat, nibble i (spec_bits o bs off w) <= 9).
Proof. exact bcd_ok_spec_l. Qed.

Theorem flag_spec : forall o bs off, container_ok o bs -> field_ok bs off 1 ->
  flag_read true (bits_field o bs off 1) = Some (Z.testbit (cvz o bs) off).
Proof. exact flag_spec_l. Qed.

(* Float: the value is the field's exact w-bit pattern (the C++ memcpy is the identity on it) *)
Theorem float_bits_spec : forall o bs off w, container_ok o bs -> field_ok bs off w ->
  float_read_bits true (bits_field o bs off w) w = Some (spec_bits o bs off w).
Proof. exact float_bits_spec_l. Qed.

Theorem enum_read_spec : forall o bs off w ut, container_ok o bs -> field_ok bs off w ->
  std_cty ut -> csigned ut = false -> w <= cbits ut ->
  enum_read true (bits_field o bs off w) ut w = Some (spec_bits o bs off w).
Proof. exact enum_read_spec_l. Qed.

(* F1: signed enum narrower than its underlying type is NOT sign-extended *)
Theorem enum_signed_read_refuted :
  exists o bs off w ut v, container_ok o bs /\ field_ok bs off w /\ std_cty ut /\ csigned ut = true /\ w <= cbits ut /\
    enum_read true (bits_field o bs off w) ut w = Some v /\
    v <> twos_complement w (spec_bits o bs off w).
Proof. exact enum_signed_read_refuted_l. Qed.

Theorem enum_signed_read_refuted_at_struct_level :
  enum_read true (whole_field LE [255%N]) i64 8 = Some 255 /\ twos_complement 8 255 = -1.
Proof. exact enum_signed_read_refuted_struct. Qed.

(* what remains true: field width = width of the underlying type *)
Theorem enum_signed_read_partial : forall o bs off ut, container_ok o bs -> field_ok bs off (cbits ut) ->
  std_cty ut -> csigned ut = true ->
  enum_read true (bits_field o bs off (cbits ut)) ut (cbits ut)
  = Some (twos_complement (cbits ut) (spec_bits o bs off (cbits ut))).
Proof. exact enum_signed_read_partial_l. Qed.

Theorem nested_read_spec : forall o bs off1 s1 off w, container_ok o bs -> field_ok bs off1 s1 ->
  1 <= w -> 0 <= off -> off + w <= s1 ->
  uint_read true (get_offset_storage (bits_field o bs off1 s1) off w) w = Some (spec_bits o bs (off1 + off) w).
Proof. exact nested_read_spec_l. Qed.

Theorem struct_read_uint_spec : forall o bs, container_ok o bs ->
  uint_read true (whole_field o bs) (8 * Z.of_nat (length bs)) = Some (cvz o bs).
Proof. exact struct_read_uint_spec_l. Qed.

(* no step of the read path is undefined or trips a CHECK (the results above are [Some]), the value type
   LeastWidthInteger<w> has at least w bits and holds every decoded value *)
Theorem value_type_wide_enough : forall o bs off w, container_ok o bs -> field_ok bs off w ->
  w <= lw w /\
  (exists v, read_uint true o bs off w = Some v /\ in_cty (uty w) v) /\
  (exists v, read_int true o bs off w = Some v /\ in_cty (sty w) v) /\
  (exists v, bcd_read true (bits_field o bs off w) w = Some v /\ in_cty (uty w) v).
Proof. exact value_type_wide_enough_l. Qed.

(* the runtime built with EMBOSS_NO_OPTIMIZATIONS (portable shift-and-or loops instead of memcpy + byte swap, the
   non-two's-complement branch of ConvertToSigned) reads the same values; so every theorem above holds for [false] too *)
Theorem portable_reads_agree : forall o bs off w ut, container_ok o bs -> field_ok bs off w ->
  read_uint false o bs off w = read_uint true o bs off w /\
  read_int false o bs off w = read_int true o bs off w /\
  bcd_read false (bits_field o bs off w) w = bcd_read true (bits_field o bs off w) w /\
  bcd_ok false (bits_field o bs off w) w = bcd_ok true (bits_field o bs off w) w /\
  flag_read false (bits_field o bs off w) = flag_read true (bits_field o bs off w) /\
  enum_read false (bits_field o bs off w) ut w = enum_read true (bits_field o bs off w) ut w /\
  float_read_bits false (bits_field o bs off w) w = float_read_bits true (bits_field o bs off w) w.
Proof. exact portable_reads_agree_l. Qed.

Theorem nonvacuous_container : container_ok BE [18%N; 52%N; 171%N] /\ field_ok [18%N; 52%N; 171%N] 4 12.
Proof. exact ex_container. Qed.

Theorem nonvacuous_reads :
  read_uint true BE [18%N; 52%N; 171%N] 4 12 = Some 842 /\
  read_int true BE [18%N; 52%N; 171%N] 4 12 = Some 842 /\
  read_int true LE [18%N; 52%N; 171%N] 12 12 = Some (-1357) /\
  bcd_read true (bits_field BE [18%N; 52%N; 171%N] 8 16) 16 = Some 1234 /\
  bcd_ok true (bits_field BE [18%N; 52%N; 171%N] 8 16) 16 = Some true /\
  bcd_ok true (bits_field BE [18%N; 52%N; 171%N] 0 16) 16 = Some false /\
  read_uint false BE [18%N; 52%N; 171%N] 4 12 = Some 842 /\
  read_int false LE [18%N; 52%N; 171%N] 12 12 = Some (-1357).
Proof. exact ex_reads. Qed.

(* ------------------------------------------------------------------------------------------------------------
   The MemoryAccessor / ContiguousBuffer layer (Bits/Accessor.v), which the theorems above only REPRESENT by
   [container_load]: template selection over (kAlignment, kOffset, kBits), the storage element type CharT
   (char is signed here), the byte loops with their cast chains, the memcpy and whole-object
   (EMBOSS_ALIAS_SAFE_POINTER_CAST) variants with the X_ENDIAN_TO_NATIVE macros on a little- or big-endian host,
   builtin or portable ByteSwap, and the static (alignment, offset) bookkeeping of GetOffsetStorage.

   acc_pre c A K n base mem p :=  1 <= n <= 8  /\  IsPowerOfTwo(A)  /\  0 <= K < A  /\  IsAliasSafe<c>  /\
                                  p + n <= length mem  /\  (base + p) mod A = K      (the static claim holds)
   [cfg] ranges over every build configuration (host endianness, macros defined or not, pointer cast available
   or not, builtin or portable byte swap); mem is the memory as bytes, the pointer is base + p.
   ------------------------------------------------------------------------------------------------------------ *)
Require Import EmbossV.Bits.Accessor EmbossV.Bits.ProofsAccessor.

(* MemoryAccessor<CharT, A, K, 8n>::ReadLittleEndianUInt = sum of byte_i * 256^i, whatever specialisation is selected *)
Theorem accessor_read_le_spec : forall cfg c A K (n : nat) base mem p,
  acc_pre c A K n base mem p -> Forall byte mem ->
  accessor_read cfg c false A K (8 * Z.of_nat n) base mem p = Some (of_le (sub_storage mem p n)).
Proof. exact accessor_read_le_spec_l. Qed.

Theorem accessor_read_be_spec : forall cfg c A K (n : nat) base mem p,
  acc_pre c A K n base mem p -> Forall byte mem ->
  accessor_read cfg c true A K (8 * Z.of_nat n) base mem p = Some (of_be (sub_storage mem p n)).
Proof. exact accessor_read_be_spec_l. Qed.

(* formerly an assumption tested every run: static alignment does not change the function computed, and that
   function is the [container_load] of Bits/Model.v (either runtime configuration [opt] of that model) *)
Theorem aligned_reads_agree : forall cfg c be A K (n : nat) base mem p opt,
  acc_pre c A K n base mem p -> Forall byte mem ->
  accessor_read cfg c be A K (8 * Z.of_nat n) base mem p = accessor_read cfg c be 1 0 (8 * Z.of_nat n) base mem p /\
  accessor_read cfg c be A K (8 * Z.of_nat n) base mem p
  = container_load opt (order_of be) (8 * Z.of_nat n) (sub_storage mem p n).
Proof. exact aligned_reads_agree_l. Qed.

(* the result does not depend on the signedness of the storage element type *)
Theorem char_storage_irrelevant : forall cfg c1 c2 be A K (n : nat) base mem p,
  acc_pre c1 A K n base mem p -> alias_safe c2 = true -> Forall byte mem ->
  accessor_read cfg c1 be A K (8 * Z.of_nat n) base mem p = accessor_read cfg c2 be A K (8 * Z.of_nat n) base mem p.
Proof. exact char_storage_irrelevant_reads_l. Qed.

(* whichever definition the template chain ends in is applicable under the claim of its first link: the
   whole-object specialisations are only reached with an address that is a multiple of the object size *)
Theorem selection_sound : forall fuel cfg c A K kbits addr s,
  select fuel cfg c A K kbits = Some s -> addr mod A = K ->
  match s with
  | SpecBytes => kbits mod 8 = 0 /\ alias_safe c = true
  | SpecWhole => specialised cfg = true /\ (kbits = 16 \/ kbits = 32 \/ kbits = 64) /\ addr mod (kbits / 8) = 0
  end.
Proof. exact select_sound. Qed.

Theorem selection_total : forall cfg c A K kbits,
  is_pow2 A = true -> 0 <= K < A -> kbits mod 8 = 0 -> alias_safe c = true ->
  exists s, select (select_fuel A) cfg c A K kbits = Some s.
Proof. exact select_total. Qed.

(* GetOffsetStorage<SA, SK>(offset, _) of a ContiguousBuffer<_, A, K> at [addr]: the (alignment, offset) the result
   type claims follows from the parent's claim and the claim about [offset] that the back end derives from the
   field's start expression (header_generator._alignment_of_location: modulus and modular_value of
   expression_bounds, SA = 0 for a constant start; that those bound the run-time value is C05's theorem);
   the size_t wrap of K + SK is harmless; the result satisfies ContiguousBuffer's static_asserts *)
Theorem alignment_bookkeeping_sound : forall A K SA SK A' K' addr offset,
  is_pow2 A = true -> A < 2 ^ 64 -> 0 <= SA ->
  offset_storage_type A K SA SK = Some (A', K') ->
  claim A K addr -> sub_claim SA SK offset ->
  claim A' K' (addr + offset) /\ is_pow2 A' = true /\ 0 <= K' < A' /\ (A' | A).
Proof. exact alignment_bookkeeping_sound_l. Qed.

Theorem greatest_common_divisor_is_gcd : forall a b, 0 <= a -> 0 <= b ->
  greatest_common_divisor a b = Some (Z.gcd a b).
Proof. exact greatest_common_divisor_spec. Qed.

(* the checked entry point ContiguousBuffer::Read{Little,Big}EndianUInt<8n>(): both EMBOSS_CHECKs pass *)
Theorem buffer_read_checked : forall cfg c be A K (n : nat) base mem p,
  acc_pre c A K n base mem p -> Forall byte mem ->
  buffer_read cfg c true be A K (8 * Z.of_nat n) base mem p n
  = Some (container_valz (order_of be) (sub_storage mem p n)).
Proof. exact buffer_read_checked_l. Qed.

(* __builtin_bswapN and the portable ByteSwap overloads are the same involution *)
Theorem bswap_involutive : forall (n : nat) x, 0 <= x < 2 ^ (8 * Z.of_nat n) ->
  bswap (8 * Z.of_nat n) (bswap (8 * Z.of_nat n) x) = x.
Proof. exact bswap_involutive_l. Qed.

Theorem byte_swap_is_reversal : forall builtin ct x, std_cty ct -> 0 <= x < 2 ^ cbits ct ->
  byte_swap builtin ct x = Some (bswap (cbits ct) x).
Proof. exact byte_swap_spec. Qed.

Theorem byte_swap_involutive : forall b1 b2 ct x, std_cty ct -> 0 <= x < 2 ^ cbits ct ->
  exists y, byte_swap b1 ct x = Some y /\ byte_swap b2 ct y = Some x.
Proof. exact byte_swap_involutive_l. Qed.

(* casts that are NECESSARY.  Without static_cast<uint8_t> a byte >= 0x80 in char storage is sign-extended: *)
Theorem read_loop_without_uint8_cast_refuted :
  exists c mem v, alias_safe c = true /\ Forall byte mem /\ length mem = 2%nat /\
    read_le_loop_with (cast_read_no_u8 (uty 16)) (uty 16) c mem 0 2 0 0 = Some v /\ v <> of_le mem /\
    read_le_loop (uty 16) c mem 0 2 0 0 = Some (of_le mem).
Proof. exact read_loop_without_uint8_cast_refuted_l. Qed.

(* without static_cast<Unsigned> the shift happens in int and its count reaches the width of int: *)
Theorem read_loop_without_widening_cast_refuted :
  exists c mem, alias_safe c = true /\ Forall byte mem /\ length mem = 8%nat /\
    read_le_loop_with (cast_read_no_widen (uty 64)) (uty 64) c mem 0 8 0 0 = None /\
    read_le_loop (uty 64) c mem 0 8 0 0 = Some (of_le mem).
Proof. exact read_loop_without_widening_cast_refuted_l. Qed.

(* the static claim is NECESSARY: with a false one the selected whole-object access is undefined *)
Theorem false_static_claim_refuted :
  exists cfg c A K base mem p, acc_pre c 1 0 8 base mem p /\ Forall byte mem /\ is_pow2 A = true /\ 0 <= K < A /\
    ~ claim A K (base + Z.of_nat p) /\
    accessor_read cfg c false A K 64 base mem p = None /\
    accessor_read cfg c false 1 0 64 base mem p = Some (of_le (sub_storage mem p 8)).
Proof. exact false_claim_refuted_l. Qed.

(* signed char is not an alias-safe storage type: the byte specialisation does not instantiate *)
Theorem signed_char_rejected : forall fuel cfg kbits, select fuel cfg CharSigned 1 0 kbits = None.
Proof. exact signed_char_rejected_l. Qed.

Theorem nonvacuous_accessor_pre :
  acc_pre CharPlain 8 4 4 64 ex_mem 4 /\ acc_pre CharPlain 8 3 3 64 ex_mem 3 /\ Forall byte ex_mem.
Proof. exact ex_acc_pre. Qed.

Theorem nonvacuous_accessor :
  select (select_fuel 8) cfg_gcc CharPlain 8 4 32 = Some SpecWhole /\
  select (select_fuel 8) cfg_gcc CharPlain 8 3 24 = Some SpecBytes /\
  accessor_read cfg_gcc CharPlain false 8 4 32 64 ex_mem 4 = Some 2289526527 /\
  accessor_read cfg_portable CharPlain false 8 4 32 64 ex_mem 4 = Some 2289526527 /\
  accessor_read (mk_config false true true false) CharPlain true 8 4 32 64 ex_mem 4 = Some 4284905352 /\
  accessor_read cfg_swap_portable CharStdByte true 8 3 24 64 ex_mem 3 = Some 8453990 /\
  accessor_write cfg_portable CharPlain true 8 3 24 64 ex_mem 3 11259375
  = Some [17; 34; 51; 171; 205; 239; 119; 136; 153; 170; 187; 204] /\
  accessor_write (mk_config false true true true) CharPlain false 8 4 32 64 ex_mem 4 2864434397
  = Some [17; 34; 51; 128; 221; 204; 187; 170; 153; 170; 187; 204] /\
  offset_storage_type 8 3 0 5 = Some (8, 0) /\ offset_storage_type 8 3 12 1 = Some (4, 0).
Proof. exact ex_accessor. Qed.
