(* C02 -- scalar fields decode with the documented byte order, bit numbering and format.
   Statements only; proofs are in Proofs_*.v.  [read_uint], [read_int], [bits_field] ... are the
   Gallina mirrors of the C++ read path in Bits/Model.v ([true] = the runtime as compiled by GCC/Clang:
   memcpy + byte swap, two's-complement ConvertToSigned). *)
From Coq Require Import ZArith NArith List Bool.
Import ListNotations.
Require Import EmbossV.Bits.Model EmbossV.Bits.Proofs_Int EmbossV.Bits.Proofs_Load EmbossV.Bits.Proofs_Read
               EmbossV.Bits.Proofs_Bcd EmbossV.Bits.Proofs_Write EmbossV.Bits.Proofs_Portable EmbossV.Bits.Proofs_C02.
Open Scope Z_scope.

(* container: 1..8 bytes (Null order: 1 byte); field: 1 <= w, 0 <= off, off + w <= 8 * bytes.
   cvz o bs = the container's value in its byte order (as a Z); bit 0 is its least significant bit. *)
Theorem read_uint_spec : forall o bs off w, container_ok o bs -> field_ok bs off w ->
  read_uint true o bs off w = Some ((cvz o bs / 2 ^ off) mod 2 ^ w).
Proof. exact read_uint_spec_l. Qed.

Theorem read_int_spec : forall o bs off w, container_ok o bs -> field_ok bs off w ->
  read_int true o bs off w = Some (twos_complement w ((cvz o bs / 2 ^ off) mod 2 ^ w)).
Proof. exact read_int_spec_l. Qed.

Theorem read_bcd_spec : forall o bs off w, container_ok o bs -> field_ok bs off w ->
  bcd_read true (bits_field o bs off w) w = Some (bcd_value (bcd_digits w) (spec_bits o bs off w)).
Proof. exact read_bcd_spec_l. Qed.

(* IsBcd's parallel-nibble trick, for every value of the type it is instantiated at (all 2^64 for uint64_t) *)
Theorem is_bcd_spec : forall ct x, std_cty ct -> csigned ct = false -> 0 <= x < 2 ^ cbits ct ->
  exists b, is_bcd ct x = Some b /\ (b = true <-> forall i : nat, nibble i x <= 9).
Proof. exact is_bcd_spec_l. Qed.

(* ... and for any number of nibbles, as pure arithmetic *)
Theorem bcd_trick_all_widths : forall k x, 0 <= x < 16 ^ Z.of_nat k ->
  (Z.land (Z.land ((16 ^ Z.of_nat k - 1 - x - c6 k) mod 16 ^ Z.of_nat k) x) (c8 k) =? 0) = all_nibbles_le9 k x.
Proof. exact bcd_trick. Qed.

Theorem bcd_ok_spec : forall o bs off w, container_ok o bs -> field_ok bs off w ->
  exists b, bcd_ok true (bits_field o bs off w) w = Some b /\
            (b = true <-> forall i : nat, nibble i (spec_bits o bs off w) <= 9).
Proof. exact bcd_ok_spec_l. Qed.

Theorem flag_spec : forall o bs off, container_ok o bs -> field_ok bs off 1 ->
  flag_read true (bits_field o bs off 1) = Some (Z.testbit (cvz o bs) off).
Proof. exact flag_spec_l. Qed.

(* Float: the value is the field's exact w-bit pattern (the C++ memcpy is the identity on it) *)
Theorem float_bits_spec : forall o bs off w, container_ok o bs -> field_ok bs off w ->
  float_read_bits true (bits_field o bs off w) w = Some (spec_bits o bs off w).
Proof. exact float_bits_spec_l. Qed.

Theorem enum_read_spec : forall o bs off w ut, container_ok o bs -> field_ok bs off w ->
  std_cty ut -> csigned ut = false -> w <= cbits ut ->
  enum_read true (bits_field o bs off w) ut w = Some (spec_bits o bs off w).
Proof. exact enum_read_spec_l. Qed.

(* F1: signed enum narrower than its underlying type is NOT sign-extended *)
Theorem enum_signed_read_refuted :
  exists o bs off w ut v, container_ok o bs /\ field_ok bs off w /\ std_cty ut /\ csigned ut = true /\ w <= cbits ut /\
    enum_read true (bits_field o bs off w) ut w = Some v /\
    v <> twos_complement w (spec_bits o bs off w).
Proof. exact enum_signed_read_refuted_l. Qed.

Theorem enum_signed_read_refuted_at_struct_level :
  enum_read true (whole_field LE [255%N]) i64 8 = Some 255 /\ twos_complement 8 255 = -1.
Proof. exact enum_signed_read_refuted_struct. Qed.

(* what remains true: field width = width of the underlying type *)
Theorem enum_signed_read_partial : forall o bs off ut, container_ok o bs -> field_ok bs off (cbits ut) ->
  std_cty ut -> csigned ut = true ->
  enum_read true (bits_field o bs off (cbits ut)) ut (cbits ut)
  = Some (twos_complement (cbits ut) (spec_bits o bs off (cbits ut))).
Proof. exact enum_signed_read_partial_l. Qed.

Theorem nested_read_spec : forall o bs off1 s1 off w, container_ok o bs -> field_ok bs off1 s1 ->
  1 <= w -> 0 <= off -> off + w <= s1 ->
  uint_read true (get_offset_storage (bits_field o bs off1 s1) off w) w = Some (spec_bits o bs (off1 + off) w).
Proof. exact nested_read_spec_l. Qed.

Theorem struct_read_uint_spec : forall o bs, container_ok o bs ->
  uint_read true (whole_field o bs) (8 * Z.of_nat (length bs)) = Some (cvz o bs).
Proof. exact struct_read_uint_spec_l. Qed.

(* no step of the read path is undefined or trips a CHECK (the results above are [Some]), the value type
   LeastWidthInteger<w> has at least w bits and holds every decoded value *)
Theorem value_type_wide_enough : forall o bs off w, container_ok o bs -> field_ok bs off w ->
  w <= lw w /\
  (exists v, read_uint true o bs off w = Some v /\ in_cty (uty w) v) /\
  (exists v, read_int true o bs off w = Some v /\ in_cty (sty w) v) /\
  (exists v, bcd_read true (bits_field o bs off w) w = Some v /\ in_cty (uty w) v).
Proof. exact value_type_wide_enough_l. Qed.

(* the runtime built with EMBOSS_NO_OPTIMIZATIONS (portable shift-and-or loops instead of memcpy + byte swap, the
   non-two's-complement branch of ConvertToSigned) reads the same values; so every theorem above holds for [false] too *)
Theorem portable_reads_agree : forall o bs off w ut, container_ok o bs -> field_ok bs off w ->
  read_uint false o bs off w = read_uint true o bs off w /\
  read_int false o bs off w = read_int true o bs off w /\
  bcd_read false (bits_field o bs off w) w = bcd_read true (bits_field o bs off w) w /\
  bcd_ok false (bits_field o bs off w) w = bcd_ok true (bits_field o bs off w) w /\
  flag_read false (bits_field o bs off w) = flag_read true (bits_field o bs off w) /\
  enum_read false (bits_field o bs off w) ut w = enum_read true (bits_field o bs off w) ut w /\
  float_read_bits false (bits_field o bs off w) w = float_read_bits true (bits_field o bs off w) w.
Proof. exact portable_reads_agree_l. Qed.

Theorem nonvacuous_container : container_ok BE [18%N; 52%N; 171%N] /\ field_ok [18%N; 52%N; 171%N] 4 12.
Proof. exact ex_container. Qed.

Theorem nonvacuous_reads :
  read_uint true BE [18%N; 52%N; 171%N] 4 12 = Some 842 /\
  read_int true BE [18%N; 52%N; 171%N] 4 12 = Some 842 /\
  read_int true LE [18%N; 52%N; 171%N] 12 12 = Some (-1357) /\
  bcd_read true (bits_field BE [18%N; 52%N; 171%N] 8 16) 16 = Some 1234 /\
  bcd_ok true (bits_field BE [18%N; 52%N; 171%N] 8 16) 16 = Some true /\
  bcd_ok true (bits_field BE [18%N; 52%N; 171%N] 0 16) 16 = Some false /\
  read_uint false BE [18%N; 52%N; 171%N] 4 12 = Some 842 /\
  read_int false LE [18%N; 52%N; 171%N] 12 12 = Some (-1357).
Proof. exact ex_reads. Qed.
