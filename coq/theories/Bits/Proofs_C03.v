(* Bits/Proofs_C03.v -- the C03 statements assembled over a container given as a byte list *)
From Coq Require Import ZArith NArith List Bool Lia ZifyBool.
Import ListNotations.
Require Import EmbossV.Bits.Model EmbossV.Bits.Proofs_Int EmbossV.Bits.Proofs_Load EmbossV.Bits.Proofs_Read
               EmbossV.Bits.Proofs_Bcd EmbossV.Bits.Proofs_Write EmbossV.Bits.Proofs_BcdWrite EmbossV.Bits.Proofs_Portable.
Open Scope Z_scope.

Local Arguments Z.pow : simpl never.
Local Arguments Z.mul : simpl never.
Local Arguments Z.add : simpl never.
Local Arguments Z.sub : simpl never.
Local Arguments Z.of_nat : simpl never.
Local Arguments wrap : simpl never.

Definition zcontainer_ok (o : order) (zs : list Z) : Prop :=
  Forall byte zs /\ 1 <= Z.of_nat (length zs) <= 8 /\ order_fits o (length zs).
Definition zfield_ok (zs : list Z) (off w : Z) : Prop :=
  1 <= w /\ 0 <= off /\ off + w <= 8 * Z.of_nat (length zs).

(* the view generated code hands to a scalar field at bit [off, off+w) of a bits container made of [zs] *)
Definition zfield (o : order) (zs : list Z) (off w : Z) : bitview :=
  get_offset_storage (field_bv o zs 0 (length zs)) off w.

Lemma zfield_wf : forall o zs off w, zcontainer_ok o zs -> zfield_ok zs off w ->
  wf_field (zfield o zs off w) zs off w.
Proof.
  intros o zs off w [Hb [Hn Hfit]] [Hw [Hoff Hext]]. unfold zfield.
  destruct (field_bv_wf o zs 0 (length zs) Hb Hn ltac:(lia) Hfit) as [W L].
  replace (sub_storage zs 0 (length zs)) with zs in W by (unfold sub_storage; cbn [skipn]; symmetry; apply firstn_all).
  apply get_offset_storage_wf; try assumption. reflexivity.
Qed.

Lemma zfield_set_bytes : forall o zs off w bs', length bs' = length zs ->
  set_bytes (zfield o zs off w) bs' = zfield o bs' off w.
Proof.
  intros o zs off w bs' Hl. unfold set_bytes, zfield, get_offset_storage, field_bv.
  cbn [bv_obb bv_order bv_kbits bv_bytes]. unfold bitblock_ok. cbn [bv_bytes bv_order bv_kbits].
  unfold sub_storage. cbn [skipn]. rewrite !firstn_all. unfold orderer_size_in_bytes.
  destruct o; rewrite Hl; reflexivity.
Qed.

Definition cvl (o : order) (zs : list Z) : Z := container_valz o zs.

(* post-condition of a successful write of the raw field value [u] *)
Definition write_post (o : order) (zs : list Z) (off w u : Z) (zs' : list Z) : Prop :=
  length zs' = length zs /\ Forall byte zs' /\
  field_bits (cvl o zs') off w = u /\
  forall i, 0 <= i -> (i < off \/ off + w <= i) -> Z.testbit (cvl o zs') i = Z.testbit (cvl o zs) i.

Lemma written_post : forall o zs off w u zs', zcontainer_ok o zs -> zfield_ok zs off w -> 0 <= u < 2 ^ w ->
  written (zfield o zs off w) zs off w u zs' -> write_post o zs off w u zs'.
Proof.
  intros o zs off w u zs' C F Hu Hwr. pose proof Hwr as [Hl [HB Hbits]].
  assert (WF := zfield_wf o zs off w C F).
  split; [exact Hl|]. split; [exact HB|]. split.
  - assert (E := written_read_back _ _ _ _ _ _ WF Hu Hwr).
    unfold cv_of in E. cbn [set_bytes bv_order] in E. exact E.
  - intros i Hi Hout. apply (written_frame _ _ _ _ _ _ i Hwr Hi Hout).
Qed.

Lemma write_uint_accept_l : forall o zs off w argty v, zcontainer_ok o zs -> zfield_ok zs off w ->
  std_cty argty -> in_cty argty v -> 0 <= v < 2 ^ w ->
  exists zs', uint_try_write true (zfield o zs off w) argty w v = Some (true, Some zs') /\
              write_post o zs off w v zs' /\ uint_read true (zfield o zs' off w) w = Some v.
Proof.
  intros o zs off w argty v C F Ha Hin Hv.
  destruct (uint_try_write_accept _ _ _ _ argty v (zfield_wf o zs off w C F) Ha Hin Hv) as [zs' [H1 [H2 H3]]].
  exists zs'. split; [exact H1|]. split; [apply written_post; assumption|].
  rewrite <- (zfield_set_bytes o zs off w zs') by apply H2. exact H3.
Qed.

Lemma write_int_accept_l : forall o zs off w argty v, zcontainer_ok o zs -> zfield_ok zs off w ->
  std_cty argty -> in_cty argty v -> - 2 ^ (w - 1) <= v < 2 ^ (w - 1) ->
  exists zs', int_try_write true (zfield o zs off w) argty w v = Some (true, Some zs') /\
              write_post o zs off w (v mod 2 ^ w) zs' /\ int_read true (zfield o zs' off w) w = Some v.
Proof.
  intros o zs off w argty v C F Ha Hin Hv.
  destruct (int_try_write_accept _ _ _ _ argty v (zfield_wf o zs off w C F) Ha Hin Hv) as [zs' [H1 [H2 H3]]].
  exists zs'. split; [exact H1|]. split.
  - apply written_post; try assumption. apply Z.mod_pos_bound. apply pow2_pos. destruct F; lia.
  - rewrite <- (zfield_set_bytes o zs off w zs') by apply H2. exact H3.
Qed.

Lemma write_enum_unsigned_accept_l : forall o zs off w ut v, zcontainer_ok o zs -> zfield_ok zs off w ->
  std_cty ut -> csigned ut = false -> w <= cbits ut -> 0 <= v < 2 ^ w ->
  exists zs', enum_try_write true (zfield o zs off w) ut w v = Some (true, Some zs') /\
              write_post o zs off w v zs' /\ enum_read true (zfield o zs' off w) ut w = Some v.
Proof.
  intros o zs off w ut v C F Hut Hu Hw Hv.
  destruct (enum_try_write_unsigned_accept _ _ _ _ ut v (zfield_wf o zs off w C F) Hut Hu Hw Hv) as [zs' [H1 [H2 H3]]].
  exists zs'. split; [exact H1|]. split; [apply written_post; assumption|].
  rewrite <- (zfield_set_bytes o zs off w zs') by apply H2. exact H3.
Qed.

Lemma write_flag_l : forall o zs off (b : bool), zcontainer_ok o zs -> zfield_ok zs off 1 ->
  exists zs', flag_try_write true (zfield o zs off 1) b = Some (true, Some zs') /\
              write_post o zs off 1 (if b then 1 else 0) zs' /\ flag_read true (zfield o zs' off 1) = Some b.
Proof.
  intros o zs off b C F.
  destruct (flag_try_write_ok _ _ _ b (zfield_wf o zs off 1 C F)) as [zs' [H1 [H2 H3]]].
  exists zs'. split; [exact H1|]. split.
  - apply written_post; try assumption. destruct b; pow_consts; lia.
  - rewrite <- (zfield_set_bytes o zs off 1 zs') by apply H2. exact H3.
Qed.

Lemma write_float_l : forall o zs off w bits, zcontainer_ok o zs -> zfield_ok zs off w -> 0 <= bits < 2 ^ w ->
  exists zs', float_try_write true (zfield o zs off w) w bits = Some (true, Some zs') /\
              write_post o zs off w bits zs' /\ float_read_bits true (zfield o zs' off w) w = Some bits.
Proof.
  intros o zs off w bits C F Hv.
  destruct (float_try_write_ok _ _ _ _ bits (zfield_wf o zs off w C F) Hv) as [zs' [H1 [H2 H3]]].
  exists zs'. split; [exact H1|]. split; [apply written_post; assumption|].
  rewrite <- (zfield_set_bytes o zs off w zs') by apply H2. exact H3.
Qed.

Lemma write_bcd_accept_l : forall o zs off w argty v, zcontainer_ok o zs -> zfield_ok zs off w ->
  0 <= v <= bcd_max w -> in_cty (uty w) v ->
  exists zs', bcd_try_write true (zfield o zs off w) argty w v = Some (true, Some zs') /\
              write_post o zs off w (to_bcd_spec (bcd_digits w) v) zs' /\
              bcd_read true (zfield o zs' off w) w = Some v /\ bcd_ok true (zfield o zs' off w) w = Some true.
Proof.
  intros o zs off w argty v C F Hv Hin.
  assert (Hw : 1 <= w <= 64) by (destruct C as [_ [? _]]; destruct F as [? [? ?]]; lia).
  destruct (bcd_try_write_accept _ _ _ _ argty v (zfield_wf o zs off w C F) Hv Hin) as [zs' [H1 [H2 [H3 H4]]]].
  exists zs'. split; [exact H1|]. split.
  - apply written_post; try assumption.
    destruct (to_bcd_fits w v Hw Hv) as [Hfit _]. assert (B := to_bcd_bound (bcd_digits w) v ltac:(lia)). lia.
  - rewrite <- (zfield_set_bytes o zs off w zs') by apply H2. split; assumption.
Qed.

(* TryToWrite <-> CouldWriteValue /\ IsComplete, UInt and Int views *)
Lemma try_write_iff_l : forall o zs off w argty v, zcontainer_ok o zs -> zfield_ok zs off w ->
  std_cty argty -> in_cty argty v ->
  ((exists zs', uint_try_write true (zfield o zs off w) argty w v = Some (true, Some zs')) <->
   (uint_could_write argty w v = Some true /\ is_complete (zfield o zs off w) w = true)) /\
  ((exists zs', int_try_write true (zfield o zs off w) argty w v = Some (true, Some zs')) <->
   (int_could_write argty w v = Some true /\ is_complete (zfield o zs off w) w = true)).
Proof.
  intros o zs off w argty v C F Ha Hin.
  assert (Hw : 1 <= w <= 64) by (destruct C as [_ [? _]]; destruct F as [? [? ?]]; lia).
  split; split.
  - intros [zs' H]. eapply uint_try_write_iff. exact H.
  - intros [Hc _]. rewrite uint_could_write_spec in Hc by assumption.
    assert (Hv : 0 <= v < 2 ^ w) by (injection Hc; lia).
    destruct (write_uint_accept_l o zs off w argty v C F Ha Hin Hv) as [zs' [H _]]. exists zs'. exact H.
  - intros [zs' H]. eapply int_try_write_iff. exact H.
  - intros [Hc _]. rewrite int_could_write_spec in Hc by assumption.
    assert (Hv : - 2 ^ (w - 1) <= v < 2 ^ (w - 1)) by (injection Hc; lia).
    destruct (write_int_accept_l o zs off w argty v C F Ha Hin Hv) as [zs' [H _]]. exists zs'. exact H.
Qed.

Lemma portable_writes_agree_l : forall o zs off w, zcontainer_ok o zs -> zfield_ok zs off w ->
  (forall argty v, std_cty argty -> in_cty argty v ->
     uint_try_write false (zfield o zs off w) argty w v = uint_try_write true (zfield o zs off w) argty w v) /\
  (forall argty v, std_cty argty -> in_cty argty v ->
     int_try_write false (zfield o zs off w) argty w v = int_try_write true (zfield o zs off w) argty w v) /\
  (forall ut v, std_cty ut -> csigned ut = false -> w <= cbits ut -> in_cty ut v ->
     enum_try_write false (zfield o zs off w) ut w v = enum_try_write true (zfield o zs off w) ut w v) /\
  (forall bits, 0 <= bits < 2 ^ w ->
     float_try_write false (zfield o zs off w) w bits = float_try_write true (zfield o zs off w) w bits).
Proof. intros o zs off w C F. exact (writes_portable _ _ _ _ (zfield_wf o zs off w C F)). Qed.

(* non-vacuity *)
Lemma ex_write :
  zcontainer_ok BE [18; 52; 171] /\ zfield_ok [18; 52; 171] 4 12 /\
  uint_try_write true (zfield BE [18; 52; 171] 4 12) i32 12 2748 (* 0xABC *) = Some (true, Some [18; 171; 203]) /\
  uint_try_write true (zfield BE [18; 52; 171] 4 12) i32 12 4096 = Some (false, None) /\
  int_try_write true (zfield LE [18; 52; 171] 12 12) i8 12 (-2) = Some (true, Some [18; 228; 255]) /\
  int_try_write false (zfield LE [18; 52; 171] 12 12) i8 12 (-2) = Some (true, Some [18; 228; 255]) /\
  bcd_try_write true (zfield BE [18; 52; 171] 8 16) u16 16 9876 = Some (true, Some [152; 118; 171]) /\
  bcd_try_write true (zfield BE [18; 52; 171] 8 16) u16 16 10000 = Some (false, None).
Proof.
  split; [|split].
  - unfold zcontainer_ok. cbn [length order_fits]. repeat split; try lia.
    repeat (apply Forall_cons; [unfold byte; lia|]). apply Forall_nil.
  - unfold zfield_ok. cbn [length]. lia.
  - vm_compute. repeat split; reflexivity.
Qed.
