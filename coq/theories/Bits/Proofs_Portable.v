(* Bits/Proofs_Portable.v -- the EMBOSS_NO_OPTIMIZATIONS configuration: the portable shift-and-or loops of
   MemoryAccessor and the non-two's-complement branch of IntView::ConvertToSigned compute the same results as the
   memcpy / byte-swap / shift-pair code that GCC and Clang builds use. *)
From Coq Require Import ZArith List Bool Lia ZifyBool.
Import ListNotations.
Require Import EmbossV.Bits.Model EmbossV.Bits.Proofs_Int EmbossV.Bits.Proofs_Load EmbossV.Bits.Proofs_Read
               EmbossV.Bits.Proofs_Write.
Open Scope Z_scope.

Local Arguments Z.pow : simpl never.
Local Arguments Z.mul : simpl never.
Local Arguments Z.add : simpl never.
Local Arguments Z.sub : simpl never.
Local Arguments Z.div : simpl never.
Local Arguments Z.modulo : simpl never.
Local Arguments Z.land : simpl never.
Local Arguments Z.lor : simpl never.
Local Arguments Z.of_nat : simpl never.
Local Arguments wrap : simpl never.

Lemma common_ct_promote : forall t, std_cty t -> common t (promote t) = promote t.
Proof. intros t H. std_split t H; reflexivity. Qed.

(* ---------- ReadLittleEndianUInt, portable ---------- *)
Lemma load_le_loop_spec : forall ct, std_cty ct -> csigned ct = false ->
  forall bytes (i : nat) result, Forall byte bytes ->
    8 * (Z.of_nat i + Z.of_nat (length bytes)) <= cbits ct ->
    0 <= result < 2 ^ (8 * Z.of_nat i) ->
    load_le_loop ct bytes (Z.of_nat i) result = Some (result + 2 ^ (8 * Z.of_nat i) * of_le bytes).
Proof.
  intros ct Hstd Hu.
  assert (Hpb := promote_bits_ge ct Hstd). assert (Hcp := cbits_promote ct Hstd).
  assert (Hpstd : std_cty (promote ct)) by (apply promote_std; assumption).
  assert (Hcm := cmax_promote ct Hstd).
  assert (Hmax : cmax ct = 2 ^ cbits ct - 1) by (unfold cmax; rewrite Hu; reflexivity).
  assert (Hcb : 8 <= cbits ct) by (unfold std_cty, std_bits in Hstd; lia).
  induction bytes as [|b t IH]; intros i result HB Hlen Hres.
  - cbn [load_le_loop of_le]. f_equal. lia.
  - inversion HB as [|? ? Hb Ht]; subst. unfold byte in Hb. cbn [length] in Hlen. cbn [load_le_loop of_le].
    assert (P : 0 < 2 ^ (8 * Z.of_nat i)) by (apply pow2_pos; lia).
    assert (E8 : 2 ^ (8 * Z.of_nat (S i)) = 256 * 2 ^ (8 * Z.of_nat i)).
    { replace (8 * Z.of_nat (S i)) with (8 + 8 * Z.of_nat i) by lia. rewrite pow2_add by lia. reflexivity. }
    assert (Hle : 2 ^ (8 * Z.of_nat (S i)) <= 2 ^ cbits ct) by (apply pow2_le; lia).
    assert (H256 : 2 ^ 8 <= 2 ^ cbits ct) by (apply pow2_le; lia). pow_consts.
    rewrite (wrap_id ct b) by (first [lia | apply in_cty_unsigned; [assumption|lia]]).
    replace (Z.of_nat i * 8) with (8 * Z.of_nat i) by lia.
    assert (HbX : 0 <= b * 2 ^ (8 * Z.of_nat i) <= 255 * 2 ^ (8 * Z.of_nat i)) by nia.
    rewrite c_shl_exact; try assumption; try lia.
    cbn [bind].
    rewrite c_or_exact; rewrite ?common_ct_promote by assumption; try lia;
      try (apply in_cty_promote_nonneg; [assumption|lia]).
    cbn [val snd]. rewrite lor_low_high by lia.
    rewrite wrap_id by (first [lia | apply in_cty_unsigned; [assumption|lia]]).
    replace (Z.of_nat i + 1) with (Z.of_nat (S i)) by lia.
    rewrite IH; try assumption; try lia.
    f_equal. rewrite E8. ring.
Qed.

(* ---------- ReadBigEndianUInt, portable ---------- *)
Lemma of_be_cons : forall b t, of_be (b :: t) = b * 256 ^ Z.of_nat (length t) + of_be t.
Proof.
  intros b t. unfold of_be. cbn [rev]. rewrite of_le_app, rev_length. cbn [of_le]. lia.
Qed.

Lemma load_be_loop_spec : forall ct kbits, std_cty ct -> csigned ct = false -> kbits <= cbits ct ->
  forall bytes (i : nat) X, Forall byte bytes ->
    8 * (Z.of_nat i + Z.of_nat (length bytes)) = kbits ->
    0 <= X < 2 ^ (8 * Z.of_nat i) ->
    load_be_loop ct kbits bytes (Z.of_nat i) (X * 2 ^ (kbits - 8 * Z.of_nat i))
    = Some (X * 256 ^ Z.of_nat (length bytes) + of_be bytes).
Proof.
  intros ct kbits Hstd Hu Hk.
  assert (Hpb := promote_bits_ge ct Hstd). assert (Hcp := cbits_promote ct Hstd).
  assert (Hpstd : std_cty (promote ct)) by (apply promote_std; assumption).
  assert (Hcm := cmax_promote ct Hstd).
  assert (Hmax : cmax ct = 2 ^ cbits ct - 1) by (unfold cmax; rewrite Hu; reflexivity).
  assert (Hcb : 8 <= cbits ct) by (unfold std_cty, std_bits in Hstd; lia).
  induction bytes as [|b t IH]; intros i X HB Hlen HX.
  - cbn [load_be_loop of_be length]. unfold of_be. cbn [rev of_le length].
    cbn [length] in Hlen. replace (kbits - 8 * Z.of_nat i) with 0 by lia.
    change (2 ^ 0) with 1. change (256 ^ Z.of_nat 0) with 1. f_equal. lia.
  - pose proof (Forall_inv HB) as Hb. pose proof (Forall_inv_tail HB) as Ht. unfold byte in Hb. cbn [length] in Hlen.
    cbn [load_be_loop].
    set (k := kbits - 8 - Z.of_nat i * 8).
    assert (Hk0 : 0 <= k) by (unfold k; lia).
    assert (Ek : kbits - 8 * Z.of_nat i = 8 + k) by (unfold k; lia).
    assert (Pk : 0 < 2 ^ k) by (apply pow2_pos; lia).
    assert (E8 : 2 ^ (8 + k) = 256 * 2 ^ k) by (rewrite pow2_add by lia; reflexivity).
    assert (EX : 2 ^ (8 * Z.of_nat i) * 2 ^ (8 + k) = 2 ^ kbits) by (rewrite <- pow2_add by lia; f_equal; lia).
    assert (Hle : 2 ^ kbits <= 2 ^ cbits ct) by (apply pow2_le; lia).
    assert (H256 : 2 ^ 8 <= 2 ^ cbits ct) by (apply pow2_le; lia). pow_consts.
    rewrite (wrap_id ct b) by (first [lia | apply in_cty_unsigned; [assumption|lia]]).
    rewrite Ek.
    assert (HbX : 0 <= b * 2 ^ k <= 255 * 2 ^ k) by nia.
    assert (HXX : 0 <= X * 2 ^ (8 + k) < 2 ^ kbits) by nia.
    assert (HXX2 : X * 2 ^ (8 + k) + 2 ^ (8 + k) <= 2 ^ kbits) by nia.
    rewrite c_shl_exact; try assumption; try lia.
    cbn [bind].
    rewrite c_or_exact; rewrite ?common_ct_promote by assumption; try lia;
      try (apply in_cty_promote_nonneg; [assumption|lia]).
    cbn [val snd]. rewrite Z.lor_comm.
    rewrite (lor_low_high (b * 2 ^ k) X (8 + k)) by lia.
    rewrite wrap_id by (first [lia | apply in_cty_unsigned; [assumption|lia]]).
    replace (b * 2 ^ k + X * 2 ^ (8 + k)) with ((X * 256 + b) * 2 ^ (kbits - 8 * Z.of_nat (S i))).
    2: { replace (kbits - 8 * Z.of_nat (S i)) with k by (unfold k; lia). rewrite E8. ring. }
    replace (Z.of_nat i + 1) with (Z.of_nat (S i)) by lia.
    rewrite IH; try assumption; try lia.
    + f_equal. rewrite of_be_cons. cbn [length]. rewrite pow256_S. ring.
    + replace (8 * Z.of_nat (S i)) with (8 + 8 * Z.of_nat i) by lia. rewrite pow2_add by lia. pow_consts. lia.
Qed.

Lemma container_load_portable : forall o bytes, Forall byte bytes ->
  1 <= Z.of_nat (length bytes) <= 8 -> order_fits o (length bytes) ->
  container_load false o (8 * Z.of_nat (length bytes)) bytes = container_load true o (8 * Z.of_nat (length bytes)) bytes.
Proof.
  intros o bytes HB Hn Hfit.
  rewrite container_load_opt by assumption.
  assert (Hlw := lw8_ge (Z.of_nat (length bytes)) Hn).
  assert (Hstd := std_uty (8 * Z.of_nat (length bytes))).
  unfold container_load.
  replace (Z.of_nat (length bytes) * 8 =? 8 * Z.of_nat (length bytes)) with true by lia. cbn [negb].
  assert (LE_ : load_le_loop (uty (8 * Z.of_nat (length bytes))) bytes 0 0 = Some (of_le bytes)).
  { change 0 with (Z.of_nat 0) at 1. rewrite load_le_loop_spec; try assumption; try reflexivity;
      try (cbn [cbits uty]; lia); try (change (2 ^ (8 * Z.of_nat 0)) with 1; lia).
    change (2 ^ (8 * Z.of_nat 0)) with 1. f_equal. lia. }
  destruct o; cbn [container_valz order_fits] in *.
  - exact LE_.
  - replace 0 with (0 * 2 ^ (8 * Z.of_nat (length bytes) - 8 * Z.of_nat 0)) at 2 by lia.
    change 0 with (Z.of_nat 0) at 1.
    rewrite load_be_loop_spec; try assumption; try reflexivity; try (cbn [cbits uty]; lia);
      try (change (2 ^ (8 * Z.of_nat 0)) with 1; lia).
    all: try (f_equal; lia).
  - rewrite Hfit in *. exact LE_.
  - rewrite Hfit in *. exact LE_.
Qed.

(* ---------- WriteLittleEndianUInt / WriteBigEndianUInt, portable ---------- *)
Lemma store_le_loop_spec : forall ct, std_cty ct -> csigned ct = false ->
  forall (n : nat) value, 8 * Z.of_nat n <= cbits ct -> 0 <= value < 2 ^ cbits ct ->
    store_le_loop ct n value = Some (le_bytes n value).
Proof.
  intros ct Hstd Hu.
  assert (Hpb := promote_bits_ge ct Hstd). assert (Hcp := cbits_promote ct Hstd).
  assert (Hcb : 8 <= cbits ct) by (unfold std_cty, std_bits in Hstd; lia).
  assert (Pc : 0 < 2 ^ cbits ct) by (apply pow2_pos; lia).
  induction n as [|n IH]; intros value Hn Hv; [reflexivity|].
  cbn [store_le_loop le_bytes].
  assert (Hq : 0 <= value / 256 <= value) by (split; [apply Z.div_pos; lia|apply Z.div_le_upper_bound; lia]).
  destruct (8 <? cbits ct) eqn:C.
  - unfold lit. rewrite c_shr_ok by lia. cbn [bind val snd]. change (2 ^ 8) with 256.
    rewrite (wrap_id ct (value / 256)) by (first [lia | apply in_cty_unsigned; [assumption|lia]]).
    rewrite IH by lia. cbn [bind]. rewrite wrap_unsigned by reflexivity. reflexivity.
  - cbn [bind]. assert (n = 0%nat) by lia. subst n. cbn [store_le_loop bind le_bytes].
    rewrite wrap_unsigned by reflexivity. reflexivity.
Qed.

Lemma container_store_portable : forall o bytes value,
  1 <= Z.of_nat (length bytes) <= 8 -> order_fits o (length bytes) ->
  0 <= value < 2 ^ (8 * Z.of_nat (length bytes)) ->
  container_store false o (8 * Z.of_nat (length bytes)) bytes value
  = container_store true o (8 * Z.of_nat (length bytes)) bytes value.
Proof.
  intros o bytes value Hn Hfit Hv.
  assert (Hlw := lw8_ge (Z.of_nat (length bytes)) Hn).
  assert (Hstd := std_uty (8 * Z.of_nat (length bytes))).
  assert (Hv' : 0 <= value < 2 ^ lw (8 * Z.of_nat (length bytes))).
  { split; [lia|]. eapply Z.lt_le_trans; [apply Hv|]. apply pow2_le. lia. }
  assert (L : store_le_loop (uty (8 * Z.of_nat (length bytes))) (length bytes) value = Some (le_bytes (length bytes) value)).
  { apply store_le_loop_spec; try assumption; try reflexivity; cbn [cbits uty]; lia. }
  unfold container_store.
  replace (Z.of_nat (length bytes) * 8 =? 8 * Z.of_nat (length bytes)) with true by lia. cbn [negb].
  destruct o; cbn [order_fits] in *.
  - rewrite store_le_memcpy_spec by assumption. exact L.
  - rewrite store_be_memcpy_spec by assumption. unfold store_be_loop. rewrite L. reflexivity.
  - replace (8 * Z.of_nat (length bytes) =? 8) with true by lia.
    rewrite store_be_memcpy_spec by assumption. unfold store_be_loop. rewrite L. reflexivity.
  - replace (8 * Z.of_nat (length bytes) =? 8) with true by lia.
    rewrite store_be_memcpy_spec by assumption. unfold store_be_loop. rewrite L. reflexivity.
Qed.

(* ---------- the views, portable configuration ---------- *)
Lemma bitblock_read_portable : forall bv bytes, wf_block bv bytes ->
  bitblock_read false bv = bitblock_read true bv.
Proof.
  intros bv bytes [Hb HB Hn Hk Hfit]. unfold bitblock_read. rewrite Hb, Hk.
  apply container_load_portable; assumption.
Qed.

Lemma bv_read_portable : forall bv bytes, wf_block bv bytes -> bv_read false bv = bv_read true bv.
Proof.
  intros bv bytes W. unfold bv_read. rewrite (bitblock_read_portable bv bytes W). reflexivity.
Qed.

Lemma bitblock_write_portable : forall bv bytes v, wf_block bv bytes -> 0 <= v < 2 ^ cbits (bv_ct bv) ->
  bitblock_write false bv v = bitblock_write true bv v.
Proof.
  intros bv bytes v W Hv. destruct (bv_ct_std bv bytes W) as [Hstd [Hu Hc]].
  pose proof W as [Hb HB Hn Hk Hfit]. unfold bitblock_write. rewrite Hb.
  rewrite mask_to_n_bits_spec by (try assumption; lia). cbn [bind].
  destruct (v =? v mod 2 ^ bv_kbits bv) eqn:E; cbn [negb]; [|reflexivity].
  rewrite Hk in *. apply container_store_portable; try assumption.
  assert (0 <= v mod 2 ^ (8 * Z.of_nat (length bytes)) < 2 ^ (8 * Z.of_nat (length bytes)))
    by (apply Z.mod_pos_bound; apply pow2_pos; lia).
  lia.
Qed.

Lemma bv_write_portable : forall bv bytes off w v, wf_field bv bytes off w -> 0 <= v < 2 ^ w ->
  bv_write false bv v = bv_write true bv v.
Proof.
  intros bv bytes off w v F Hv. pose proof F as [W Hobb Hw Hoff Hext].
  destruct (bv_ct_std bv bytes W) as [Hstd [Hu Hc]].
  assert (Hcvc := cv_bound_ct bv bytes W).
  unfold bv_write. rewrite Hobb. cbn [ob_offset ob_size ob_ok].
  destruct (mask_to_n_bits (bv_ct bv) v w); cbn [bind]; [|reflexivity].
  destruct (negb (v =? z)); [reflexivity|]. cbn [negb].
  rewrite (bitblock_read_portable bv bytes W), (bitblock_read_spec bv bytes W). cbn [bind].
  destruct (mask_in_value_spec (bv_ct bv) off w (cv_of bv bytes) v) as [R [HR [HRb _]]]; try assumption; try lia.
  rewrite HR. cbn [bind]. apply (bitblock_write_portable bv bytes R W HRb).
Qed.

Lemma reads_portable : forall bv bytes w ut, wf_block bv bytes ->
  uint_read false bv w = uint_read true bv w /\
  bcd_read false bv w = bcd_read true bv w /\
  bcd_ok false bv w = bcd_ok true bv w /\
  flag_read false bv = flag_read true bv /\
  enum_read false bv ut w = enum_read true bv ut w /\
  float_read_bits false bv w = float_read_bits true bv w.
Proof.
  intros bv bytes w ut W.
  unfold uint_read, bcd_read, bcd_ok, flag_read, enum_read, float_read_bits.
  rewrite (bv_read_portable bv bytes W). repeat split; reflexivity.
Qed.

Lemma writes_portable : forall bv bytes off w, wf_field bv bytes off w ->
  (forall argty v, std_cty argty -> in_cty argty v -> uint_try_write false bv argty w v = uint_try_write true bv argty w v) /\
  (forall argty v, std_cty argty -> in_cty argty v -> int_try_write false bv argty w v = int_try_write true bv argty w v) /\
  (forall ut v, std_cty ut -> csigned ut = false -> w <= cbits ut -> in_cty ut v ->
                enum_try_write false bv ut w v = enum_try_write true bv ut w v) /\
  (forall bits, 0 <= bits < 2 ^ w -> float_try_write false bv w bits = float_try_write true bv w bits).
Proof.
  intros bv bytes off w F. pose proof F as [W Hobb Hw Hoff Hext].
  destruct (bv_ct_std bv bytes W) as [Hstd [Hu Hc]].
  assert (Hw64 : 1 <= w <= 64) by (destruct W; lia).
  assert (Hwc : w <= cbits (bv_ct bv)) by (destruct W; lia).
  assert (Hlw := lw_ge w ltac:(lia)).
  assert (Hle : 2 ^ w <= 2 ^ lw w) by (apply pow2_le; lia).
  assert (Hle2 : 2 ^ w <= 2 ^ cbits (bv_ct bv)) by (apply pow2_le; lia).
  assert (Pw : 0 < 2 ^ w) by (apply pow2_pos; lia).
  repeat split.
  - intros argty v Ha Hin. unfold uint_try_write. rewrite uint_could_write_spec by assumption. cbn [bind].
    destruct ((0 <=? v) && (v <? 2 ^ w)) eqn:E; cbn [negb]; [|reflexivity].
    destruct (is_complete bv w); cbn [negb]; [|reflexivity].
    assert (Hv : 0 <= v < 2 ^ w) by lia.
    rewrite (wrap_id (uty w) v) by (first [cbn [cbits uty]; lia | apply in_cty_unsigned; [reflexivity|cbn [cbits uty]; lia]]).
    rewrite (wrap_id (bv_ct bv) v) by (first [lia | apply in_cty_unsigned; [assumption|lia]]).
    rewrite (bv_write_portable bv bytes off w v F Hv). reflexivity.
  - intros argty v Ha Hin. unfold int_try_write. rewrite int_could_write_spec by assumption. cbn [bind].
    destruct ((- 2 ^ (w - 1) <=? v) && (v <? 2 ^ (w - 1))) eqn:E; cbn [negb]; [|reflexivity].
    destruct (is_complete bv w); cbn [negb]; [|reflexivity].
    rewrite mask_to_n_bits_spec; try assumption; try lia.
    2: { rewrite wrap_unsigned by assumption. apply Z.mod_pos_bound. apply pow2_pos. lia. }
    cbn [bind].
    rewrite (bv_write_portable bv bytes off w _ F); [reflexivity|]. apply Z.mod_pos_bound. lia.
  - intros ut v Hut Huu Hwu Hin. unfold enum_try_write.
    rewrite enum_could_write_unsigned_spec; try assumption; try lia. cbn [bind].
    destruct (v <? 2 ^ w) eqn:E; cbn [negb]; [|reflexivity].
    destruct (is_complete bv w); cbn [negb]; [|reflexivity].
    apply in_cty_unsigned in Hin; [|assumption].
    rewrite (wrap_id (bv_ct bv) v) by (first [lia | apply in_cty_unsigned; [assumption|lia]]).
    rewrite (bv_write_portable bv bytes off w v F ltac:(lia)). reflexivity.
  - intros bits Hb. unfold float_try_write. destruct (is_complete bv w); cbn [negb]; [|reflexivity].
    rewrite (wrap_id (bv_ct bv) bits) by (first [lia | apply in_cty_unsigned; [assumption|lia]]).
    rewrite (bv_write_portable bv bytes off w bits F Hb). reflexivity.
Qed.

(* ---------- IntView::ConvertToSigned, the branch for EMBOSS_SYSTEM_IS_TWOS_COMPLEMENT == 0 ---------- *)
Lemma land_split_pow : forall k a0 a b0 b, 0 <= k -> 0 <= a0 < 2 ^ k -> 0 <= b0 < 2 ^ k ->
  Z.land (a0 + a * 2 ^ k) (b0 + b * 2 ^ k) = Z.land a0 b0 + Z.land a b * 2 ^ k.
Proof.
  intros k a0 a b0 b Hk Ha Hb.
  rewrite <- (lor_low_high a0 a k), <- (lor_low_high b0 b k) by lia.
  rewrite Z.land_lor_distr_l, !Z.land_lor_distr_r.
  rewrite (land_low_high a0 b k) by lia.
  rewrite (Z.land_comm (a * 2 ^ k) b0), (land_low_high b0 a k) by lia.
  rewrite Z.lor_0_r, Z.lor_0_l.
  rewrite <- !Z.shiftl_mul_pow2 by lia. rewrite <- Z.shiftl_land. rewrite Z.shiftl_mul_pow2 by lia.
  assert (H := land_bound a0 b0 ltac:(lia) ltac:(lia)).
  rewrite lor_low_high by lia. reflexivity.
Qed.

Lemma wrap_mod_ge : forall t c x, 1 <= cbits t <= c -> wrap t (x mod 2 ^ c) = wrap t x.
Proof.
  intros t c x H. unfold wrap. rewrite mod_mod_pow2 by lia. reflexivity.
Qed.

Lemma common_ct_sty_cases : forall ct V, std_cty ct -> csigned ct = false -> std_bits V -> V <= cbits ct ->
  (common ct (mk_cty true V) = i32 /\ V <= 16 /\ common i32 (mk_cty true V) = i32) \/
  (common ct (mk_cty true V) = ct /\ 32 <= cbits ct).
Proof.
  intros ct V Hstd Hu HV Hle.
  std_split ct Hstd; try discriminate; destruct HV as [-> | [-> | [-> | ->]]]; cbn [cbits] in Hle; try lia;
    first [left; split; [reflexivity|split; [lia|reflexivity]] | right; split; [reflexivity|cbn; lia]].
Qed.

Lemma convert_to_signed_portable_spec : forall ct w data,
  std_cty ct -> csigned ct = false -> 1 <= w <= 64 -> lw w <= cbits ct -> 0 <= data < 2 ^ w ->
  convert_to_signed_portable ct w data = Some (twos_complement w data).
Proof.
  intros ct w data Hstd Hu Hw Hlw Hd.
  assert (Hpb := promote_bits_ge ct Hstd). assert (Hcp := cbits_promote ct Hstd).
  assert (Hpstd : std_cty (promote ct)) by (apply promote_std; assumption).
  assert (Hcm := cmax_promote ct Hstd).
  assert (Hmax : cmax ct = 2 ^ cbits ct - 1) by (unfold cmax; rewrite Hu; reflexivity).
  assert (HV := lw_ge w ltac:(lia)). assert (Hvstd := std_sty w).
  assert (Hwc : 2 ^ w <= 2 ^ cbits ct) by (apply pow2_le; lia).
  unfold convert_to_signed_portable.
  destruct (Z.eq_dec w 1) as [->|Hne].
  - change (1 =? 1) with true. cbv iota. change (2 ^ 1) with 2 in Hd.
    unfold c_eq, lit.
    rewrite !c_cmp_sem; try assumption; try apply std_i32; try (incty; lia); try (left; lia);
      try (apply in_cty_unsigned; [assumption|pow_consts; lia]).
    unfold twos_complement. change (2 ^ (1 - 1)) with 1. change (2 ^ 1) with 2.
    assert (C : data = 0 \/ data = 1) by lia. destruct C as [-> | ->]; reflexivity.
  - replace (w =? 1) with false by lia. cbv iota.
    assert (E := pow2_pred w ltac:(lia)).
    assert (E2 : 2 ^ (w - 1) = 2 * 2 ^ (w - 2)) by (rewrite (pow2_pred (w - 1)) by lia; do 2 f_equal; lia).
    assert (P2 : 0 < 2 ^ (w - 2)) by (apply pow2_pos; lia).
    set (SB := 2 ^ (w - 1)) in *.
    unfold lit.
    rewrite c_shl_exact; try assumption; try lia.
    cbn [bind val snd]. rewrite Z.mul_1_l. fold SB.
    rewrite (wrap_id ct SB) by (first [lia | apply in_cty_unsigned; [assumption|lia]]).
    unfold c_sub at 1. rewrite arith2_exact; rewrite ?common_i32_r by assumption; try lia;
      try (apply in_cty_promote_nonneg; [assumption|lia]).
    cbn [bind val snd].
    rewrite (wrap_id ct (SB - 1)) by (first [lia | apply in_cty_unsigned; [assumption|lia]]).
    rewrite (c_and_exact ct (SB - 1) ct data); rewrite ?common_same by assumption; try lia;
      try (apply in_cty_promote_nonneg; [assumption|lia]).
    rewrite (c_and_exact ct data ct SB); rewrite ?common_same by assumption; try lia;
      try (apply in_cty_promote_nonneg; [assumption|lia]).
    cbn [val snd].
    replace (Z.land (SB - 1) data) with (data mod SB) by (unfold SB; rewrite Z.land_comm, land_ones_mod by lia; reflexivity).
    set (lo := data mod SB). assert (Hlo : 0 <= lo < SB) by (apply Z.mod_pos_bound; lia).
    set (hb := data / SB).
    assert (Hhb : 0 <= hb <= 1).
    { unfold hb. split; [apply Z.div_pos; lia|]. assert (data / SB < 2); [apply Z.div_lt_upper_bound; lia|lia]. }
    assert (Edata : data = lo + hb * SB) by (unfold lo, hb; rewrite (Z.div_mod data SB) at 1 by lia; lia).
    rewrite (wrap_id ct lo) by (first [lia | apply in_cty_unsigned; [assumption|lia]]).
    assert (Hland : Z.land data SB = hb * SB).
    { pose proof (land_split_pow (w - 1) lo hb 0 1 ltac:(lia) Hlo ltac:(fold SB; lia)) as H.
      fold SB in H. rewrite Z.add_0_l, Z.mul_1_l, Z.land_0_r, Z.add_0_l in H.
      rewrite Edata at 1. rewrite H.
      assert (C : hb = 0 \/ hb = 1) by lia. destruct C as [-> | ->]; reflexivity. }
    rewrite Hland.
    rewrite c_shr_ok by (rewrite ?promote_idem; lia).
    cbn [bind val snd]. change (2 ^ 1) with 2.
    replace (hb * SB / 2) with (hb * 2 ^ (w - 2)) by (rewrite E2; replace (hb * (2 * 2 ^ (w - 2))) with (hb * 2 ^ (w - 2) * 2) by ring; rewrite Z.div_mul by lia; reflexivity).
    set (rsb := hb * 2 ^ (w - 2)). assert (Hrsb : 0 <= rsb <= 2 ^ (w - 2)) by (unfold rsb; nia).
    assert (HVle : 2 ^ (w - 1) <= 2 ^ (lw w - 1)) by (apply pow2_le; lia). fold SB in HVle.
    rewrite (wrap_id (sty w) rsb).
    2: { cbn [cbits sty]; lia. }
    2: { unfold in_cty, cmin, cmax. cbn [csigned cbits sty]. lia. }
    assert (Htc : twos_complement w data = lo - 2 * rsb).
    { unfold twos_complement. fold SB. unfold rsb.
      assert (C : hb = 0 \/ hb = 1) by lia. destruct C as [C | C]; rewrite C in *.
      - replace (data <? SB) with true by lia. lia.
      - replace (data <? SB) with false by lia. lia. }
    rewrite Htc.
    assert (Hres : - 2 ^ (lw w - 1) <= lo - 2 * rsb <= 2 ^ (lw w - 1) - 1) by lia.
    (* the two subtractions happen in the common type of the container type and the value type *)
    assert (Hcstd : 1 <= cbits (common ct (sty w))) by (apply common_bits; assumption).
    destruct (common_ct_sty_cases ct (lw w) Hstd Hu (lw_std w) Hlw) as [[Hc32 [H16 Hc32']]|[Hcc H32]];
      change (mk_cty true (lw w)) with (sty w) in *.
    + (* both promote to int: exact signed arithmetic *)
      assert (H15 : 2 ^ (lw w - 1) <= 2 ^ 15) by (apply pow2_le; lia). pow_consts.
      unfold c_sub. rewrite arith2_exact; rewrite ?Hc32; try (cbn; lia); try (incty; lia).
      cbn [bind].
      rewrite arith2_exact; rewrite ?Hc32'; try (cbn; lia); try (incty; lia).
      cbn [bind val snd].
      rewrite wrap_id; [f_equal; lia|cbn [cbits sty]; lia|].
      unfold in_cty, cmin, cmax. cbn [csigned cbits sty]. lia.
    + (* the container type is unsigned int or wider: arithmetic modulo 2^width, then the final conversion *)
      assert (Pc : 0 < 2 ^ cbits ct) by (apply pow2_pos; lia).
      unfold c_sub. rewrite arith2_unsigned by (cbn [ty fst]; rewrite Hcc; exact Hu).
      cbn [bind ty val fst snd]. rewrite Hcc.
      rewrite arith2_unsigned by (cbn [ty fst]; rewrite Hcc; exact Hu).
      cbn [bind ty val fst snd]. rewrite Hcc.
      rewrite !(wrap_unsigned ct) by assumption.
      rewrite (Z.mod_small lo) by lia. rewrite (Z.mod_small rsb) by lia.
      rewrite Z.mod_mod by lia. rewrite Zminus_mod_idemp_l.
      replace (lo - rsb - rsb) with (lo - 2 * rsb) by lia.
      rewrite wrap_mod_ge by (cbn [cbits sty]; lia).
      rewrite wrap_id; [reflexivity|cbn [cbits sty]; lia|].
      unfold in_cty, cmin, cmax. cbn [csigned cbits sty]. lia.
Qed.

Lemma int_read_portable : forall bv bytes off w, wf_field bv bytes off w ->
  int_read false bv w = int_read true bv w.
Proof.
  intros bv bytes off w F. rewrite (int_read_spec _ _ _ _ F).
  pose proof F as [W Hobb Hw Hoff Hext].
  unfold int_read. rewrite (bv_read_portable bv bytes W), (bv_read_field bv bytes off w F). cbn [bind convert_to_signed].
  destruct (bv_ct_std bv bytes W) as [Hstd [Hu Hc]].
  apply convert_to_signed_portable_spec; try assumption.
  - destruct W; lia.
  - destruct W as [_ _ Hn Hk _]. unfold bv_ct, uty. cbn [cbits]. rewrite Hk. apply lw_mono. lia.
  - apply field_bits_bound. lia.
Qed.
