(* Bits/InvertModel.v -- write inference for virtual fields: a Gallina mirror of
   compiler/front_end/write_inference.py (_recursively_find_field_reference_path, _find_field_reference_path,
   _invert_expression) and the proof that the synthesised inverse really inverts the read transform.
   Definitions only; the proofs are in Proofs_Invert.v. *)
From Coq Require Import ZArith List Bool Lia.
Import ListNotations.
Open Scope Z_scope.

Inductive fn := FAdd | FSub | FOther (code : Z).   (* FOther: every other FunctionMapping value *)

Inductive expr :=
| EField (id : Z)            (* field_reference *)
| EConst (z : Z)             (* constant, constant_reference, builtin_reference other than $logical_value ... *)
| ELogical                   (* $logical_value *)
| EFn (f : fn) (args : list expr).

(* def _recursively_find_field_reference_path(expression): returns (field_count, path) *)
Fixpoint find_path (e : expr) : nat * list nat :=
  match e with
  | EField _ => (1%nat, [])
  | EFn _ args =>
      let fix go (l : list expr) (index : nat) (field_count : nat) (path : list nat) : nat * list nat :=
        match l with
        | [] => (field_count, path)
        | arg :: rest =>
            let r := find_path arg in
            let path' := if (Nat.eqb (fst r) 1 && Nat.eqb field_count 0)%bool then index :: snd r else path in
            go rest (S index) (field_count + fst r)%nat path'
        end in
      let r := go args 0%nat 0%nat [] in
      if Nat.eqb (fst r) 1 then r else (fst r, [])
  | _ => (0%nat, [])
  end.

(* def _find_field_reference_path(expression) *)
Definition find_field_reference_path (e : expr) : option (list nat) :=
  let r := find_path e in if Nat.eqb (fst r) 1 then Some (snd r) else None.

(* the loop of _invert_expression: peel one layer per path index *)
Fixpoint invert_loop (path : list nat) (sub result : expr) : option (expr * expr) :=
  match path with
  | [] => Some (sub, result)
  | index :: rest =>
      match sub with
      | EFn FAdd [a0; a1] =>
          match index with
          | O => invert_loop rest a0 (EFn FSub [result; a1])
          | S O => invert_loop rest a1 (EFn FSub [result; a0])
          | _ => None
          end
      | EFn FSub [a0; a1] =>
          match index with
          | O => invert_loop rest a0 (EFn FAdd [result; a1])
          | S O => invert_loop rest a1 (EFn FSub [a0; result])
          | _ => None
          end
      | _ => None
      end
  end.

(* def _invert_expression(expression, ir): (field_reference, inverse_expression) or None *)
Definition invert (e : expr) : option (expr * expr) :=
  match find_field_reference_path e with
  | None => None
  | Some path => invert_loop path e ELogical
  end.

(* the language semantics over unbounded integers; [other] interprets the remaining functions *)
Section Semantics.
  Variable other : Z -> list Z -> Z.

  Fixpoint eval (env : Z -> Z) (lv : Z) (e : expr) : Z :=
    match e with
    | EField id => env id
    | EConst z => z
    | ELogical => lv
    | EFn f args =>
        let vs := map (eval env lv) args in
        match f, vs with
        | FAdd, [a; b] => a + b
        | FSub, [a; b] => a - b
        | FAdd, _ | FSub, _ => 0
        | FOther c, _ => other c vs
        end
    end.

  Definition update (env : Z -> Z) (x v : Z) : Z -> Z := fun y => if Z.eqb y x then v else env y.

  (* an expression without field references *)
  Fixpoint field_free (e : expr) : bool :=
    match e with
    | EField _ => false
    | EFn _ args => forallb field_free args
    | _ => true
    end.

End Semantics.

(* ---------- executable comparison for the harness ---------- *)
Definition fn_eqb (a b : fn) : bool :=
  match a, b with
  | FAdd, FAdd | FSub, FSub => true
  | FOther x, FOther y => Z.eqb x y
  | _, _ => false
  end.

Fixpoint expr_eqb (a b : expr) {struct a} : bool :=
  match a, b with
  | EField x, EField y => Z.eqb x y
  | EConst x, EConst y => Z.eqb x y
  | ELogical, ELogical => true
  | EFn f xs, EFn g ys =>
      fn_eqb f g &&
      (fix all2 (l : list expr) (m : list expr) {struct l} : bool :=
         match l, m with
         | [], [] => true
         | x :: l', y :: m' => expr_eqb x y && all2 l' m'
         | _, _ => false
         end) xs ys
  | _, _ => false
  end.

Definition invert_out_eqb (a b : option (expr * expr)) : bool :=
  match a, b with
  | None, None => true
  | Some (x1, y1), Some (x2, y2) => expr_eqb x1 x2 && expr_eqb y1 y2
  | _, _ => false
  end.
