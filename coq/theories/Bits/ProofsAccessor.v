(* Bits/ProofsAccessor.v -- proofs about Bits/Accessor.v (the MemoryAccessor / ContiguousBuffer layer of
   runtime/cpp/emboss_memory_util.h): every specialisation, every CharT, either host endianness, builtin or
   portable ByteSwap computes the container value / stores the container bytes that Bits/Model.v's
   [container_load] / [container_store] stand for; the static alignment bookkeeping is sound. *)
From Coq Require Import ZArith Znumtheory List Bool Lia ZifyBool.
Import ListNotations.
Require Import EmbossV.Bits.Model EmbossV.Bits.Proofs_Int EmbossV.Bits.Proofs_Load EmbossV.Bits.Proofs_Read
               EmbossV.Bits.Proofs_Write EmbossV.Bits.Proofs_Portable EmbossV.Bits.Accessor.
Open Scope Z_scope.

Local Arguments Z.pow : simpl never.
Local Arguments Z.mul : simpl never.
Local Arguments Z.add : simpl never.
Local Arguments Z.sub : simpl never.
Local Arguments Z.div : simpl never.
Local Arguments Z.modulo : simpl never.
Local Arguments Z.land : simpl never.
Local Arguments Z.lor : simpl never.
Local Arguments Z.of_nat : simpl never.
Local Arguments wrap : simpl never.


(* ---------- CharT ---------- *)
Lemma chart_bits : forall c, cbits (chart_cty c) = 8.
Proof. destruct c; reflexivity. Qed.

Lemma wrap_u8_chart : forall c x, wrap u8 (wrap (chart_cty c) x) = wrap u8 x.
Proof.
  intros c x. rewrite !(wrap_unsigned u8) by reflexivity. change (cbits u8) with 8.
  rewrite <- (chart_bits c). apply wrap_congr. rewrite chart_bits. lia.
Qed.

Lemma wrap_u8_byte : forall b, byte b -> wrap u8 b = b.
Proof. intros b Hb. rewrite wrap_unsigned by reflexivity. apply Z.mod_small. exact Hb. Qed.

Lemma chart_byte : forall c b, byte b -> wrap u8 (wrap (chart_cty c) b) = b.
Proof. intros. rewrite wrap_u8_chart. apply wrap_u8_byte. assumption. Qed.

Lemma wrap_u8_is_byte : forall x, byte (wrap u8 x).
Proof. intros x. rewrite wrap_unsigned by reflexivity. apply Z.mod_pos_bound. reflexivity. Qed.

(* ---------- lists ---------- *)
Lemma skipn_nth_error_cons : forall (l : list Z) k b, nth_error l k = Some b -> skipn k l = b :: skipn (S k) l.
Proof.
  induction l as [|a t IH]; intros k b H; destruct k; cbn in *; try discriminate.
  - inversion H. reflexivity.
  - apply IH. exact H.
Qed.

Lemma nth_error_in_range : forall (l : list Z) k, (k < length l)%nat -> exists b, nth_error l k = Some b.
Proof.
  intros l k H. destruct (nth_error l k) eqn:E; [eauto|]. apply nth_error_None in E. lia.
Qed.

Lemma Forall_nth_error : forall (P : Z -> Prop) l k b, Forall P l -> nth_error l k = Some b -> P b.
Proof. intros P l k b H E. rewrite Forall_forall in H. apply H. eapply nth_error_In. exact E. Qed.

Lemma Forall_firstn' : forall (P : Z -> Prop) n l, Forall P l -> Forall P (firstn n l).
Proof.
  induction n; intros l H; [constructor|]. destruct l; [constructor|].
  cbn [firstn]. inversion H; subst. constructor; [assumption|]. apply IHn. assumption.
Qed.
Lemma Forall_skipn' : forall (P : Z -> Prop) n l, Forall P l -> Forall P (skipn n l).
Proof.
  induction n; intros l H; [exact H|]. destruct l; [constructor|].
  cbn [skipn]. inversion H; subst. apply IHn. assumption.
Qed.
Lemma Forall_firstn_skipn : forall (P : Z -> Prop) l a n, Forall P l -> Forall P (firstn n (skipn a l)).
Proof. intros. apply Forall_firstn', Forall_skipn'. assumption. Qed.

Lemma firstn_skipn_length : forall (l : list Z) a n, (a + n <= length l)%nat -> length (firstn n (skipn a l)) = n.
Proof. intros. rewrite firstn_length, skipn_length. lia. Qed.

Lemma load_n_some : forall mem p n, (p + n <= length mem)%nat -> load_n mem p n = Some (firstn n (skipn p mem)).
Proof. intros. unfold load_n. replace (p + n <=? length mem)%nat with true by lia. reflexivity. Qed.

Lemma store_n_some : forall mem p bs, (p + length bs <= length mem)%nat -> store_n mem p bs = Some (splice mem p bs).
Proof. intros. unfold store_n. replace (p + length bs <=? length mem)%nat with true by lia. reflexivity. Qed.

(* ---------- the read loops are the loops of Bits/Model.v on the bytes at the pointer ---------- *)
Lemma cast_read_byte : forall ct c b, byte b ->
  cast_read ct (chart_cty c, wrap (chart_cty c) b) = (ct, wrap ct b).
Proof.
  intros ct c b Hb. unfold cast_read, c_cast. cbn [val snd fst]. rewrite chart_byte by assumption. reflexivity.
Qed.

Lemma read_le_loop_eq : forall ct c mem p, Forall byte mem ->
  forall n i result, (p + i + n <= length mem)%nat ->
    read_le_loop ct c mem p n i result = load_le_loop ct (firstn n (skipn (p + i) mem)) (Z.of_nat i) result.
Proof.
  intros ct c mem p HB. induction n as [|n IH]; intros i result Hr.
  - reflexivity.
  - destruct (nth_error_in_range mem (p + i)%nat ltac:(lia)) as [b Eb].
    assert (Hb : byte b) by (eapply Forall_nth_error; eassumption).
    rewrite (skipn_nth_error_cons _ _ _ Eb). cbn [firstn load_le_loop].
    unfold read_le_loop in *. cbn [read_le_loop_with]. unfold char_at. rewrite Eb. cbn [bind].
    rewrite cast_read_byte by assumption.
    destruct (c_shl (ct, wrap ct b) (u64, Z.of_nat i * 8)) as [s|]; cbn [bind]; [|reflexivity].
    rewrite IH by lia. replace (p + S i)%nat with (S (p + i)) by lia.
    replace (Z.of_nat (S i)) with (Z.of_nat i + 1) by lia. reflexivity.
Qed.

Lemma read_be_loop_eq : forall ct kbits c mem p, Forall byte mem ->
  forall n i result, (p + i + n <= length mem)%nat ->
    read_be_loop ct kbits c mem p n i result = load_be_loop ct kbits (firstn n (skipn (p + i) mem)) (Z.of_nat i) result.
Proof.
  intros ct kbits c mem p HB. induction n as [|n IH]; intros i result Hr.
  - reflexivity.
  - destruct (nth_error_in_range mem (p + i)%nat ltac:(lia)) as [b Eb].
    assert (Hb : byte b) by (eapply Forall_nth_error; eassumption).
    rewrite (skipn_nth_error_cons _ _ _ Eb). cbn [firstn load_be_loop].
    unfold read_be_loop in *. cbn [read_be_loop_with]. unfold char_at. rewrite Eb. cbn [bind].
    rewrite cast_read_byte by assumption.
    destruct (c_shl (ct, wrap ct b) (u64, kbits - 8 - Z.of_nat i * 8)) as [s|]; cbn [bind]; [|reflexivity].
    rewrite IH by lia. replace (p + S i)%nat with (S (p + i)) by lia.
    replace (Z.of_nat (S i)) with (Z.of_nat i + 1) by lia. reflexivity.
Qed.


(* ---------- byte swap ---------- *)
Lemma le_bytes_app : forall a b x, le_bytes (a + b) x = le_bytes a x ++ le_bytes b (x / 256 ^ Z.of_nat a).
Proof.
  induction a as [|a IH]; intros b x.
  - cbn [Nat.add le_bytes app]. change (256 ^ Z.of_nat 0) with 1. rewrite Z.div_1_r. reflexivity.
  - cbn [Nat.add le_bytes app]. rewrite IH. f_equal. f_equal. f_equal.
    rewrite pow256_S. rewrite Z.div_div by (try lia; apply pow256_pos; lia). reflexivity.
Qed.

Lemma le_bytes_mod : forall a x, le_bytes a (x mod 256 ^ Z.of_nat a) = le_bytes a x.
Proof.
  intros a x. rewrite <- of_le_le_bytes.
  rewrite <- (le_bytes_length a x) at 1. apply le_bytes_of_le. apply le_bytes_byte.
Qed.

Definition bswapn (n : nat) (x : Z) : Z := of_le (rev (le_bytes n x)).

Lemma bswapn_split : forall a b x,
  bswapn (a + b) x = bswapn a (x mod 256 ^ Z.of_nat a) * 256 ^ Z.of_nat b + bswapn b (x / 256 ^ Z.of_nat a).
Proof.
  intros a b x. unfold bswapn. rewrite le_bytes_app, rev_app_distr, of_le_app, rev_length, le_bytes_length.
  rewrite le_bytes_mod. lia.
Qed.

Lemma bswapn_1 : forall x, 0 <= x < 256 -> bswapn 1 x = x.
Proof. intros x H. unfold bswapn. cbn [le_bytes rev app of_le]. rewrite Z.mod_small by lia. lia. Qed.

Lemma bswapn_bound : forall n x, 0 <= bswapn n x < 256 ^ Z.of_nat n.
Proof.
  intros n x. unfold bswapn.
  assert (H := of_le_bound (rev (le_bytes n x)) (Forall_rev (le_bytes_byte n x))).
  rewrite rev_length, le_bytes_length in H. exact H.
Qed.

Lemma bswap_n : forall (n : nat) x, bswap (8 * Z.of_nat n) x = bswapn n x.
Proof.
  intros n x. unfold bswap, bswapn. replace (8 * Z.of_nat n / 8) with (Z.of_nat n).
  - rewrite Nat2Z.id. reflexivity.
  - rewrite Z.mul_comm, Z.div_mul by lia. reflexivity.
Qed.

Lemma byteswap16_spec : forall x, 0 <= x < 2 ^ 16 -> byteswap16 x = Some (bswapn 2 x).
Proof.
  intros x Hx. pow_consts. unfold byteswap16, lit.
  assert (Hq : 0 <= x / 256 < 256) by (split; [apply Z.div_pos; lia|apply Z.div_lt_upper_bound; lia]).
  assert (Hr := Z.mod_pos_bound x 256 ltac:(lia)).
  rewrite c_shl_signed; try reflexivity; try (cbn; lia).
  cbn [bind]. rewrite c_shr_ok by (cbn; lia). cbn [bind].
  change (promote u16) with i32. change (2 ^ 8) with 256.
  rewrite c_or_exact; try (change (common i32 i32) with i32; incty).
  cbn [val snd]. change (common i32 i32) with i32.
  rewrite Z.lor_comm. change 256 with (2 ^ 8) at 2. rewrite lor_low_high by (change (2 ^ 8) with 256; lia).
  change (2 ^ 8) with 256.
  f_equal. rewrite wrap_unsigned by reflexivity. change (2 ^ cbits u16) with 65536.
  change 2%nat with (1 + 1)%nat. rewrite bswapn_split. change (256 ^ Z.of_nat 1) with 256.
  rewrite !bswapn_1 by lia.
  rewrite (Z.div_mod x 256) at 2 by lia.
  replace (x / 256 + (256 * (x / 256) + x mod 256) * 256) with ((x mod 256 * 256 + x / 256) + (x / 256) * 65536) by lia.
  rewrite Z_mod_plus_full. apply Z.mod_small. lia.
Qed.

Lemma byteswap32_spec : forall x, 0 <= x < 2 ^ 32 -> byteswap32 x = Some (bswapn 4 x).
Proof.
  intros x Hx. pow_consts. unfold byteswap32, lit.
  assert (Hq : 0 <= x / 65536 < 65536) by (split; [apply Z.div_pos; lia|apply Z.div_lt_upper_bound; lia]).
  assert (Hr := Z.mod_pos_bound x 65536 ltac:(lia)).
  rewrite (wrap_unsigned u16) by reflexivity. change (2 ^ cbits u16) with 65536.
  rewrite byteswap16_spec by (pow_consts; lia). cbn [bind].
  assert (B1 := bswapn_bound 2 (x mod 65536)). assert (B2 := bswapn_bound 2 (x / 65536)).
  change (256 ^ Z.of_nat 2) with 65536 in *.
  rewrite c_shl_unsigned by (cbn; lia). cbn [bind]. change (promote u32) with u32. change (cbits u32) with 32.
  rewrite c_shr_ok by (cbn; lia). cbn [bind val snd]. change (2 ^ 16) with 65536. change (2 ^ 32) with 4294967296.
  rewrite (wrap_unsigned u16) by reflexivity. change (2 ^ cbits u16) with 65536.
  rewrite (Z.mod_small (x / 65536)) by lia.
  rewrite byteswap16_spec by (pow_consts; lia). cbn [bind].
  rewrite (Z.mod_small (_ * 65536)) by lia.
  rewrite c_or_exact; try (change (common u32 u16) with u32; incty).
  cbn [val snd]. change (common u32 u16) with u32.
  rewrite Z.lor_comm. change 65536 with (2 ^ 16) at 3. rewrite lor_low_high by (change (2 ^ 16) with 65536; lia).
  change (2 ^ 16) with 65536.
  f_equal. rewrite wrap_unsigned by reflexivity. change (2 ^ cbits u32) with 4294967296.
  rewrite Z.mod_small by lia.
  change 4%nat with (2 + 2)%nat. rewrite bswapn_split. change (256 ^ Z.of_nat 2) with 65536. lia.
Qed.

Lemma byteswap64_spec : forall x, 0 <= x < 2 ^ 64 -> byteswap64 x = Some (bswapn 8 x).
Proof.
  intros x Hx. pow_consts. unfold byteswap64, lit.
  assert (Hq : 0 <= x / 4294967296 < 4294967296) by (split; [apply Z.div_pos; lia|apply Z.div_lt_upper_bound; lia]).
  assert (Hr := Z.mod_pos_bound x 4294967296 ltac:(lia)).
  rewrite (wrap_unsigned u32) by reflexivity. change (2 ^ cbits u32) with 4294967296.
  rewrite byteswap32_spec by (pow_consts; lia). cbn [bind].
  assert (B1 := bswapn_bound 4 (x mod 4294967296)). assert (B2 := bswapn_bound 4 (x / 4294967296)).
  change (256 ^ Z.of_nat 4) with 4294967296 in *.
  rewrite c_shl_unsigned by (cbn; lia). cbn [bind]. change (promote u64) with u64. change (cbits u64) with 64.
  rewrite c_shr_ok by (cbn; lia). cbn [bind val snd]. change (2 ^ 32) with 4294967296. change (2 ^ 64) with 18446744073709551616.
  rewrite (wrap_unsigned u32) by reflexivity. change (2 ^ cbits u32) with 4294967296.
  rewrite (Z.mod_small (x / 4294967296)) by lia.
  rewrite byteswap32_spec by (pow_consts; lia). cbn [bind].
  rewrite (Z.mod_small (_ * 4294967296)) by lia.
  rewrite c_or_exact; try (change (common u64 u32) with u64; incty).
  cbn [val snd]. change (common u64 u32) with u64.
  rewrite Z.lor_comm. change 4294967296 with (2 ^ 32) at 3. rewrite lor_low_high by (change (2 ^ 32) with 4294967296; lia).
  change (2 ^ 32) with 4294967296.
  f_equal. rewrite wrap_unsigned by reflexivity. change (2 ^ cbits u64) with 18446744073709551616.
  rewrite Z.mod_small by lia.
  change 8%nat with (4 + 4)%nat. rewrite bswapn_split. change (256 ^ Z.of_nat 4) with 4294967296. lia.
Qed.

(* ByteSwap, builtin or portable, is the reversal of the object representation *)
Lemma byte_swap_spec : forall builtin ct x, std_cty ct -> 0 <= x < 2 ^ cbits ct ->
  byte_swap builtin ct x = Some (bswap (cbits ct) x).
Proof.
  intros builtin ct x Hstd Hx. unfold byte_swap.
  destruct Hstd as [E|[E|[E|E]]]; rewrite E in *; cbn [Z.eqb Pos.eqb].
  - f_equal. change 8 with (8 * Z.of_nat 1). rewrite bswap_n. symmetry. apply bswapn_1. pow_consts. lia.
  - destruct builtin; [reflexivity|]. rewrite byteswap16_spec by assumption. change 16 with (8 * Z.of_nat 2).
    rewrite bswap_n. reflexivity.
  - destruct builtin; [reflexivity|]. rewrite byteswap32_spec by assumption. change 32 with (8 * Z.of_nat 4).
    rewrite bswap_n. reflexivity.
  - destruct builtin; [reflexivity|]. rewrite byteswap64_spec by assumption. change 64 with (8 * Z.of_nat 8).
    rewrite bswap_n. reflexivity.
Qed.


(* ---------- X_ENDIAN_TO_NATIVE / NATIVE_TO_X_ENDIAN on either host ---------- *)
Lemma std_bits_div8 : forall b, std_bits b -> 8 * (b / 8) = b.
Proof. intros b [E|[E|[E|E]]]; rewrite E; reflexivity. Qed.

Lemma of_le_bound_ct : forall ct l, std_cty ct -> Forall byte l -> Z.of_nat (length l) = cbits ct / 8 ->
  0 <= of_le l < 2 ^ cbits ct.
Proof.
  intros ct l Hstd Hb Hl. assert (H := of_le_bound l Hb). rewrite pow256 in H by lia.
  rewrite Hl, (std_bits_div8 _ Hstd) in H. exact H.
Qed.

(* reading an object whose representation is [l] through X_ENDIAN_TO_NATIVE gives the X-endian value of [l] *)
Lemma native_read : forall cfg be ct l, std_cty ct -> Forall byte l -> Z.of_nat (length l) = cbits ct / 8 ->
  to_native cfg be ct (obj_val (host_le cfg) l) = Some (if be then of_be l else of_le l).
Proof.
  intros cfg be ct l Hstd Hb Hl.
  assert (Hr : Forall byte (rev l)) by (apply Forall_rev; assumption).
  assert (Hlr : Z.of_nat (length (rev l)) = cbits ct / 8) by (rewrite rev_length; assumption).
  unfold to_native, le_native, be_native, obj_val. destruct (host_le cfg), be; try reflexivity.
  - rewrite byte_swap_spec by (try assumption; apply of_le_bound_ct; assumption).
    rewrite bswap_of_le by assumption. reflexivity.
  - unfold of_be. rewrite byte_swap_spec by (try assumption; apply of_le_bound_ct; assumption).
    rewrite bswap_of_le by assumption. rewrite rev_involutive. reflexivity.
Qed.

(* NATIVE_TO_X_ENDIAN(value) is an object whose representation is the X-endian byte sequence of value *)
Lemma native_write : forall cfg be ct v, std_cty ct -> 0 <= v < 2 ^ cbits ct ->
  exists v', to_native cfg be ct v = Some v' /\
             obj_repr (host_le cfg) (sz_of ct) v' = container_bytes be (sz_of ct) v.
Proof.
  intros cfg be ct v Hstd Hv.
  assert (Hsw : le_bytes (sz_of ct) (bswap (cbits ct) v) = rev (le_bytes (sz_of ct) v)).
  { unfold bswap. fold (sz_of ct).
    rewrite <- (le_bytes_length (sz_of ct) v) at 1. rewrite <- rev_length.
    apply le_bytes_of_le. apply Forall_rev, le_bytes_byte. }
  unfold to_native, le_native, be_native, obj_repr, container_bytes. destruct (host_le cfg), be.
  - rewrite byte_swap_spec by assumption. eexists. split; [reflexivity|]. exact Hsw.
  - eexists. split; reflexivity.
  - eexists. split; reflexivity.
  - rewrite byte_swap_spec by assumption. eexists. split; [reflexivity|]. rewrite Hsw. apply rev_involutive.
Qed.

(* ---------- sizes ---------- *)
Lemma nbytes_8n : forall n : nat, nbytes (8 * Z.of_nat n) = n.
Proof. intros n. unfold nbytes. rewrite Z.mul_comm, Z.div_mul by lia. apply Nat2Z.id. Qed.

Lemma sz_of_cbits : forall ct, std_cty ct -> Z.of_nat (sz_of ct) = cbits ct / 8.
Proof.
  intros ct H. unfold sz_of. rewrite Z2Nat.id; [reflexivity|].
  destruct H as [E|[E|[E|E]]]; rewrite E; discriminate.
Qed.

(* ---------- the portable loops from index 0 ---------- *)
Lemma load_le_loop_0 : forall bytes, Forall byte bytes -> 1 <= Z.of_nat (length bytes) <= 8 ->
  load_le_loop (uty (8 * Z.of_nat (length bytes))) bytes 0 0 = Some (of_le bytes).
Proof.
  intros bytes Hb Hn.
  assert (H := container_load_portable LE bytes Hb Hn I). rewrite container_load_opt in H by (try assumption; exact I).
  unfold container_load in H.
  replace (Z.of_nat (length bytes) * 8 =? 8 * Z.of_nat (length bytes)) with true in H by lia. exact H.
Qed.

Lemma load_be_loop_0 : forall bytes, Forall byte bytes -> 1 <= Z.of_nat (length bytes) <= 8 ->
  load_be_loop (uty (8 * Z.of_nat (length bytes))) (8 * Z.of_nat (length bytes)) bytes 0 0 = Some (of_be bytes).
Proof.
  intros bytes Hb Hn.
  assert (H := container_load_portable BE bytes Hb Hn I). rewrite container_load_opt in H by (try assumption; exact I).
  unfold container_load in H.
  replace (Z.of_nat (length bytes) * 8 =? 8 * Z.of_nat (length bytes)) with true in H by lia. exact H.
Qed.

(* ---------- MemoryAccessor<CharT, 1, 0, kBits>: reads ---------- *)
Lemma bytes_read_spec : forall cfg c be (n : nat) mem p,
  1 <= Z.of_nat n <= 8 -> Forall byte mem -> (p + n <= length mem)%nat ->
  bytes_read cfg c be (8 * Z.of_nat n) mem p = Some (container_valz (order_of be) (sub_storage mem p n)).
Proof.
  intros cfg c be n mem p Hn HB Hr. unfold bytes_read, sub_storage. rewrite nbytes_8n.
  set (bs := firstn n (skipn p mem)).
  assert (Hlen : length bs = n) by (apply firstn_skipn_length; assumption).
  assert (Hbs : Forall byte bs) by (apply Forall_firstn_skipn; assumption).
  assert (Hstd := std_uty (8 * Z.of_nat n)).
  destruct (sz_of_uty n Hn) as [Hle Hsz].
  destruct (endian_macros cfg).
  - rewrite load_n_some by assumption. fold bs. cbn [bind].
    rewrite native_read; try assumption.
    + f_equal. destruct be; cbn [order_of container_valz].
      * unfold of_be. rewrite rev_app_distr, of_le_app, rev_zeros, of_le_zeros. lia.
      * rewrite of_le_app, of_le_zeros. lia.
    + destruct be; apply Forall_app; split; try assumption; apply zeros_byte.
    + rewrite <- (sz_of_cbits _ Hstd).
      destruct be; rewrite app_length, zeros_length, Hlen; lia.
  - destruct be; cbn [order_of container_valz].
    + rewrite read_be_loop_eq by (try assumption; lia). rewrite Nat.add_0_r. fold bs.
      change (Z.of_nat 0) with 0. rewrite <- Hlen. apply load_be_loop_0; [assumption|lia].
    + rewrite read_le_loop_eq by (try assumption; lia). rewrite Nat.add_0_r. fold bs.
      change (Z.of_nat 0) with 0. rewrite <- Hlen. apply load_le_loop_0; [assumption|lia].
Qed.

(* ---------- MemoryAccessor<CharT, N/8, 0, N>: reads ---------- *)
Lemma whole_read_spec : forall cfg be (n : nat) base mem p,
  (n = 2 \/ n = 4 \/ n = 8)%nat -> Forall byte mem -> (p + n <= length mem)%nat ->
  (base + Z.of_nat p) mod Z.of_nat n = 0 ->
  whole_read cfg be (8 * Z.of_nat n) base mem p = Some (container_valz (order_of be) (sub_storage mem p n)).
Proof.
  intros cfg be n base mem p Hn HB Hr Hal. unfold whole_read, sub_storage. rewrite nbytes_8n.
  replace (8 * Z.of_nat n / 8) with (Z.of_nat n) by (rewrite Z.mul_comm, Z.div_mul by lia; reflexivity).
  rewrite Hal. cbn [Z.eqb negb].
  rewrite load_n_some by assumption. cbn [bind].
  set (bs := firstn n (skipn p mem)).
  assert (Hlen : length bs = n) by (apply firstn_skipn_length; assumption).
  assert (Hbs : Forall byte bs) by (apply Forall_firstn_skipn; assumption).
  rewrite native_read; try assumption; try apply std_uty.
  - destruct be; reflexivity.
  - rewrite Hlen. destruct Hn as [E|[E|E]]; subst n; reflexivity.
Qed.


(* ---------- splice algebra ---------- *)
Lemma firstn_app_exact : forall (l r : list Z) n, n = length l -> firstn n (l ++ r) = l.
Proof. intros l r n ->. rewrite firstn_app, Nat.sub_diag, firstn_all. cbn [firstn]. apply app_nil_r. Qed.
Lemma skipn_app_exact : forall (l r : list Z) n, n = length l -> skipn n (l ++ r) = r.
Proof. intros l r n ->. rewrite skipn_app, Nat.sub_diag, skipn_all. reflexivity. Qed.

Lemma skipn_skipn' : forall (l : list Z) a b, skipn a (skipn b l) = skipn (b + a) l.
Proof.
  intros l a b. revert l. induction b as [|b IH]; intros l; [reflexivity|].
  destruct l; [destruct a; reflexivity|]. cbn [skipn Nat.add]. apply IH.
Qed.

Lemma upd_splice : forall mem k b, (k < length mem)%nat -> upd mem k b = Some (splice mem k [b]).
Proof.
  intros mem k b H. unfold upd, splice. replace (k <? length mem)%nat with true by lia.
  cbn [length app]. replace (k + 1)%nat with (S k) by lia. reflexivity.
Qed.

(* writing [b] at k and then [l] from k + 1 on *)
Lemma splice_cons : forall mem k b l, (k + S (length l) <= length mem)%nat ->
  splice (splice mem k [b]) (S k) l = splice mem k (b :: l).
Proof.
  intros mem k b l H. unfold splice. cbn [length app].
  assert (Hk : length (firstn k mem) = k) by (rewrite firstn_length; lia).
  replace (firstn k mem ++ b :: skipn (k + 1) mem) with ((firstn k mem ++ [b]) ++ skipn (k + 1) mem)
    by (rewrite <- app_assoc; reflexivity).
  assert (Hk1 : length (firstn k mem ++ [b]) = S k) by (rewrite app_length, Hk; cbn; lia).
  rewrite firstn_app_exact by (symmetry; exact Hk1).
  replace (S k + length l)%nat with (length (firstn k mem ++ [b]) + length l)%nat by lia.
  rewrite skipn_app, skipn_all2 by lia. cbn [app].
  replace (length (firstn k mem ++ [b]) + length l - length (firstn k mem ++ [b]))%nat with (length l) by lia.
  rewrite skipn_skipn'. rewrite <- app_assoc. cbn [app].
  replace (k + 1 + length l)%nat with (k + S (length l))%nat by lia. reflexivity.
Qed.

(* writing [b] at p + |x| and then [x] from p on *)
Lemma splice_snoc : forall mem p x b, (p + S (length x) <= length mem)%nat ->
  splice (splice mem (p + length x) [b]) p x = splice mem p (x ++ [b]).
Proof.
  intros mem p x b H. unfold splice. cbn [length app].
  set (q := (p + length x)%nat).
  assert (Hq : length (firstn q mem) = q) by (rewrite firstn_length; lia).
  rewrite firstn_app, firstn_firstn, Hq.
  replace (Nat.min p q) with p by lia. replace (p - q)%nat with 0%nat by lia. cbn [firstn]. rewrite app_nil_r.
  rewrite skipn_app_exact by (symmetry; exact Hq).
  rewrite app_length. cbn [length]. rewrite <- app_assoc. cbn [app].
  replace (p + (length x + 1))%nat with (q + 1)%nat by lia. reflexivity.
Qed.

Lemma splice_nil : forall mem p, (p <= length mem)%nat -> splice mem p [] = mem.
Proof. intros. unfold splice. cbn [length app]. rewrite Nat.add_0_r. apply firstn_skipn. Qed.

(* ---------- one iteration of the write loops ---------- *)
Lemma store_char_spec : forall ct c mem k value, (k < length mem)%nat ->
  store_char c mem k (c_cast u8 (ct, value)) = Some (splice mem k [value mod 256]).
Proof.
  intros ct c mem k value H. unfold store_char, c_cast. cbn [val snd].
  rewrite wrap_u8_chart. rewrite upd_splice by assumption.
  rewrite (wrap_unsigned u8 (wrap u8 value)) by reflexivity. rewrite (wrap_unsigned u8 value) by reflexivity.
  change (2 ^ cbits u8) with 256. rewrite Z.mod_mod by lia. reflexivity.
Qed.

Lemma shift_step : forall guard ct value, std_cty ct -> csigned ct = false -> 0 <= value < 2 ^ cbits ct ->
  (if negb guard || (8 <? cbits ct)
   then r <- c_shr (ct, value) (lit 8) ;; Some (wrap ct (val r)) else Some value)
  = Some (if negb guard || (8 <? cbits ct) then value / 256 else value).
Proof.
  intros guard ct value Hstd Hu Hv.
  assert (Hpb := promote_bits_ge ct Hstd).
  assert (Hcb : 8 <= cbits ct) by (unfold std_cty, std_bits in Hstd; lia).
  assert (Hq : 0 <= value / 256 <= value) by (split; [apply Z.div_pos; lia|apply Z.div_le_upper_bound; lia]).
  destruct (negb guard || (8 <? cbits ct)); [|reflexivity].
  unfold lit. rewrite c_shr_ok by lia. cbn [bind val snd]. change (2 ^ 8) with 256.
  rewrite wrap_id by (first [lia | apply in_cty_unsigned; [assumption|lia]]). reflexivity.
Qed.

(* WriteLittleEndianUInt's loop, from any iteration on *)
Lemma write_le_loop_from : forall guard ct c p, std_cty ct -> csigned ct = false ->
  forall n i value mem, (p + i + n <= length mem)%nat -> 8 * Z.of_nat n <= cbits ct -> 0 <= value < 2 ^ cbits ct ->
    write_loop_with guard ct c (fun j => (p + j)%nat) n i value mem = Some (splice mem (p + i) (le_bytes n value)).
Proof.
  intros guard ct c p Hstd Hu. induction n as [|n IH]; intros i value mem Hr Hn Hv.
  - cbn [write_loop_with le_bytes]. rewrite splice_nil by lia. reflexivity.
  - cbn [write_loop_with le_bytes]. rewrite store_char_spec by lia. cbn [bind].
    rewrite shift_step by assumption. cbn [bind].
    assert (Hq : 0 <= value / 256 <= value) by (split; [apply Z.div_pos; lia|apply Z.div_le_upper_bound; lia]).
    assert (Hlen : length (splice mem (p + i) [value mod 256]) = length mem) by (apply splice_length; cbn; lia).
    destruct (negb guard || (8 <? cbits ct)) eqn:C.
    + rewrite IH by (rewrite ?Hlen; lia).
      replace (p + S i)%nat with (S (p + i)) by lia. rewrite splice_cons by (rewrite le_bytes_length; lia). reflexivity.
    + assert (n = 0%nat) by lia. subst n. cbn [write_loop_with le_bytes]. reflexivity.
Qed.

(* WriteBigEndianUInt's loop: iteration i stores at p + (nb - 1 - i) *)
Lemma write_be_loop_from : forall guard ct c p nb, std_cty ct -> csigned ct = false ->
  forall n i value mem, (i + n = nb)%nat -> (p + nb <= length mem)%nat -> 8 * Z.of_nat n <= cbits ct ->
    0 <= value < 2 ^ cbits ct ->
    write_loop_with guard ct c (fun j => (p + (nb - 1 - j))%nat) n i value mem
    = Some (splice mem p (rev (le_bytes n value))).
Proof.
  intros guard ct c p nb Hstd Hu. induction n as [|n IH]; intros i value mem Hi Hr Hn Hv.
  - cbn [write_loop_with le_bytes rev]. rewrite splice_nil by lia. reflexivity.
  - cbn [write_loop_with le_bytes rev]. rewrite store_char_spec by lia. cbn [bind].
    rewrite shift_step by assumption. cbn [bind].
    assert (Hq : 0 <= value / 256 <= value) by (split; [apply Z.div_pos; lia|apply Z.div_le_upper_bound; lia]).
    replace (p + (nb - 1 - i))%nat with (p + n)%nat by lia.
    assert (Hlen : length (splice mem (p + n) [value mod 256]) = length mem) by (apply splice_length; cbn; lia).
    destruct (negb guard || (8 <? cbits ct)) eqn:C.
    + rewrite IH by (rewrite ?Hlen; lia).
      rewrite <- (le_bytes_length n (value / 256)) at 1. rewrite <- rev_length.
      rewrite splice_snoc by (rewrite rev_length, le_bytes_length; lia). reflexivity.
    + assert (n = 0%nat) by lia. subst n. cbn [write_loop_with le_bytes rev app]. rewrite Nat.add_0_r. reflexivity.
Qed.

(* ---------- MemoryAccessor<CharT, 1, 0, kBits>: writes ---------- *)
Lemma lw_range_ct : forall kbits, cbits (uty kbits) = lw kbits.
Proof. reflexivity. Qed.

Lemma bytes_write_spec : forall cfg c be (n : nat) mem p value,
  1 <= Z.of_nat n <= 8 -> (p + n <= length mem)%nat -> 0 <= value < 2 ^ lw (8 * Z.of_nat n) ->
  bytes_write cfg c be (8 * Z.of_nat n) mem p value = Some (splice mem p (container_bytes be n value)).
Proof.
  intros cfg c be n mem p value Hn Hr Hv. unfold bytes_write. rewrite nbytes_8n.
  assert (Hstd := std_uty (8 * Z.of_nat n)).
  destruct (sz_of_uty n Hn) as [Hle Hsz].
  assert (Hlw := lw8_ge (Z.of_nat n) Hn).
  destruct (endian_macros cfg).
  - destruct (native_write cfg be (uty (8 * Z.of_nat n)) value Hstd Hv) as [v' [E1 E2]].
    rewrite E1. cbn [bind]. rewrite E2. unfold container_bytes. destruct be.
    + rewrite <- (le_bytes_length (sz_of (uty (8 * Z.of_nat n))) value) at 1.
      rewrite skipn_rev, le_bytes_length.
      replace (sz_of (uty (8 * Z.of_nat n)) - (sz_of (uty (8 * Z.of_nat n)) - n))%nat with n by lia.
      rewrite firstn_le_bytes by lia.
      rewrite store_n_some by (rewrite rev_length, le_bytes_length; lia). reflexivity.
    + rewrite firstn_le_bytes by lia. rewrite store_n_some by (rewrite le_bytes_length; lia). reflexivity.
  - unfold container_bytes. destruct be.
    + unfold write_be_loop.
      rewrite write_be_loop_from by (first [assumption | reflexivity | lia | cbn [cbits uty]; lia]). reflexivity.
    + unfold write_le_loop.
      rewrite write_le_loop_from by (first [assumption | reflexivity | lia | cbn [cbits uty]; lia]).
      rewrite Nat.add_0_r. reflexivity.
Qed.

(* ---------- MemoryAccessor<CharT, N/8, 0, N>: writes ---------- *)
Lemma whole_write_spec : forall cfg be (n : nat) base mem p value,
  (n = 2 \/ n = 4 \/ n = 8)%nat -> (p + n <= length mem)%nat -> (base + Z.of_nat p) mod Z.of_nat n = 0 ->
  0 <= value < 2 ^ lw (8 * Z.of_nat n) ->
  whole_write cfg be (8 * Z.of_nat n) base mem p value = Some (splice mem p (container_bytes be n value)).
Proof.
  intros cfg be n base mem p value Hn Hr Hal Hv. unfold whole_write. rewrite nbytes_8n.
  replace (8 * Z.of_nat n / 8) with (Z.of_nat n) by (rewrite Z.mul_comm, Z.div_mul by lia; reflexivity).
  rewrite Hal. cbn [Z.eqb negb].
  assert (Hstd := std_uty (8 * Z.of_nat n)).
  destruct (native_write cfg be (uty (8 * Z.of_nat n)) value Hstd Hv) as [v' [E1 E2]].
  assert (Hsz : sz_of (uty (8 * Z.of_nat n)) = n) by (destruct Hn as [E|[E|E]]; subst n; reflexivity).
  rewrite Hsz in E2. rewrite E1. cbn [bind]. rewrite E2.
  rewrite store_n_some; [reflexivity|].
  unfold container_bytes. destruct be; rewrite ?rev_length, le_bytes_length; lia.
Qed.


(* ---------- IsPowerOfTwo ---------- *)
Lemma land_half : forall a b, Z.land a b = 0 -> Z.land (a / 2) (b / 2) = 0.
Proof.
  intros a b H. change 2 with (2 ^ 1). rewrite <- !Z.shiftr_div_pow2 by lia.
  rewrite <- Z.shiftr_land, H. apply Z.shiftr_0_l.
Qed.

Lemma is_pow2_pos : forall p, is_pow2 (Zpos p) = true -> exists e : nat, Zpos p = 2 ^ Z.of_nat e.
Proof.
  induction p as [q IH|q IH|]; intros H.
  - exfalso. unfold is_pow2 in H. apply andb_prop in H. destruct H as [_ H]. apply Z.eqb_eq in H.
    apply land_half in H.
    replace (Z.pos q~1 / 2) with (Z.pos q) in H
      by (apply (Z.div_unique _ _ _ 1); lia).
    replace ((Z.pos q~1 - 1) / 2) with (Z.pos q) in H
      by (apply (Z.div_unique _ _ _ 0); lia).
    rewrite Z.land_diag in H. discriminate.
  - unfold is_pow2 in H. apply andb_prop in H. destruct H as [_ H]. apply Z.eqb_eq in H.
    apply land_half in H.
    replace (Z.pos q~0 / 2) with (Z.pos q) in H
      by (apply (Z.div_unique _ _ _ 0); lia).
    replace ((Z.pos q~0 - 1) / 2) with (Z.pos q - 1) in H
      by (apply (Z.div_unique _ _ _ 1); lia).
    destruct IH as [e He].
    + unfold is_pow2. rewrite H. reflexivity.
    + exists (S e). rewrite Nat2Z.inj_succ, Z.pow_succ_r by lia. rewrite <- He. reflexivity.
  - exists 0%nat. reflexivity.
Qed.

Lemma is_pow2_exp : forall a, is_pow2 a = true -> exists e : nat, a = 2 ^ Z.of_nat e.
Proof.
  intros a H. destruct a as [|p|p]; try (unfold is_pow2 in H; cbn in H; discriminate).
  apply is_pow2_pos. exact H.
Qed.

Lemma is_pow2_pow : forall e : nat, is_pow2 (2 ^ Z.of_nat e) = true.
Proof.
  intros e. unfold is_pow2. assert (0 < 2 ^ Z.of_nat e) by (apply pow2_pos; lia).
  rewrite land_ones_mod by lia. rewrite Z.mod_same by lia. apply andb_true_intro. split; lia.
Qed.

Lemma pow2_half : forall e : nat, 2 ^ Z.of_nat (S e) / 2 = 2 ^ Z.of_nat e.
Proof.
  intros e. rewrite Nat2Z.inj_succ, Z.pow_succ_r by lia. rewrite Z.mul_comm, Z.div_mul by lia. reflexivity.
Qed.

(* ---------- selection ---------- *)
Definition spec_ok (cfg : config) (c : chart) (kbits addr : Z) (s : spec) : Prop :=
  match s with
  | SpecBytes => kbits mod 8 = 0 /\ alias_safe c = true
  | SpecWhole => specialised cfg = true /\ (kbits = 16 \/ kbits = 32 \/ kbits = 64) /\ addr mod (kbits / 8) = 0
  end.

(* whatever definition the chain of templates ends in, the static claim of its first link makes it applicable:
   the whole-object specialisations are only reached with an address that is a multiple of the object size *)
Lemma select_sound : forall fuel cfg c A K kbits addr s,
  select fuel cfg c A K kbits = Some s -> addr mod A = K -> spec_ok cfg c kbits addr s.
Proof.
  induction fuel as [|f IH]; intros cfg c A K kbits addr s H Hc.
  - cbn [select] in H.
    destruct ((A =? 1) && (K =? 0)) eqn:E1.
    + destruct ((kbits mod 8 =? 0) && alias_safe c) eqn:E2; [|discriminate]. inversion H; subst s.
      cbn [spec_ok]. apply andb_prop in E2. destruct E2. split; [lia|assumption].
    + destruct (specialised cfg && whole_spec_matches A K kbits) eqn:E2.
      * inversion H; subst s. cbn [spec_ok]. apply andb_prop in E2. destruct E2 as [E2 E3].
        unfold whole_spec_matches in E3. split; [assumption|].
        assert (HK0 : K = 0) by lia. rewrite HK0 in Hc.
        assert (HA : (A = 8 /\ kbits = 64) \/ (A = 4 /\ kbits = 32) \/ (A = 2 /\ kbits = 16)) by lia.
        destruct HA as [[-> ->]|[[-> ->]|[-> ->]]]; (split; [lia|exact Hc]).
      * destruct (negb (is_pow2 A) || negb ((0 <=? K) && (K <? A))); discriminate.
  - cbn [select] in H.
    destruct ((A =? 1) && (K =? 0)) eqn:E1.
    + destruct ((kbits mod 8 =? 0) && alias_safe c) eqn:E2; [|discriminate]. inversion H; subst s.
      cbn [spec_ok]. apply andb_prop in E2. destruct E2. split; [lia|assumption].
    + destruct (specialised cfg && whole_spec_matches A K kbits) eqn:E2.
      * inversion H; subst s. cbn [spec_ok]. apply andb_prop in E2. destruct E2 as [E2 E3].
        unfold whole_spec_matches in E3. split; [assumption|].
        assert (HK0 : K = 0) by lia. rewrite HK0 in Hc.
        assert (HA : (A = 8 /\ kbits = 64) \/ (A = 4 /\ kbits = 32) \/ (A = 2 /\ kbits = 16)) by lia.
        destruct HA as [[-> ->]|[[-> ->]|[-> ->]]]; (split; [lia|exact Hc]).
      * destruct (negb (is_pow2 A) || negb ((0 <=? K) && (K <? A))) eqn:E3; [discriminate|].
        apply orb_false_elim in E3. destruct E3 as [P R]. apply negb_false_iff in P. apply negb_false_iff in R.
        destruct (is_pow2_exp A P) as [e He].
        destruct e as [|e].
        { change (2 ^ Z.of_nat 0) with 1 in He. lia. }
        apply (IH _ _ _ _ _ addr _ H).
        rewrite He, pow2_half. rewrite <- Hc, He.
        assert (P2 : 0 < 2 ^ Z.of_nat e) by (apply pow2_pos; lia).
        apply Zmod_div_mod; try lia.
        { exists 2. rewrite Nat2Z.inj_succ, Z.pow_succ_r by lia. reflexivity. }
Qed.

Lemma select_complete : forall fuel cfg c (e : nat) K kbits,
  (e < fuel)%nat -> 0 <= K < 2 ^ Z.of_nat e -> kbits mod 8 = 0 -> alias_safe c = true ->
  exists s, select fuel cfg c (2 ^ Z.of_nat e) K kbits = Some s.
Proof.
  induction fuel as [|f IH]; intros cfg c e K kbits He HK Hk Ha; [lia|].
  cbn [select].
  destruct ((2 ^ Z.of_nat e =? 1) && (K =? 0)) eqn:E1.
  - replace (kbits mod 8 =? 0) with true by lia. rewrite Ha. eexists. reflexivity.
  - destruct (specialised cfg && whole_spec_matches (2 ^ Z.of_nat e) K kbits); [eexists; reflexivity|].
    rewrite is_pow2_pow. replace ((0 <=? K) && (K <? 2 ^ Z.of_nat e)) with true by lia. cbn [negb orb].
    destruct e as [|e].
    + change (2 ^ Z.of_nat 0) with 1 in *. lia.
    + rewrite pow2_half. apply IH; try assumption; try lia.
      apply Z.mod_pos_bound. apply pow2_pos. lia.
Qed.

Lemma select_total : forall cfg c A K kbits, is_pow2 A = true -> 0 <= K < A -> kbits mod 8 = 0 -> alias_safe c = true ->
  exists s, select (select_fuel A) cfg c A K kbits = Some s.
Proof.
  intros cfg c A K kbits P HK Hk Ha. destruct (is_pow2_exp A P) as [e He]. subst A.
  apply select_complete; try assumption.
  unfold select_fuel. rewrite Z.log2_pow2 by lia. rewrite Nat2Z.id. lia.
Qed.

(* ---------- the accessor, every specialisation ---------- *)
Definition acc_pre (c : chart) (A K : Z) (n : nat) (base : Z) (mem : list Z) (p : nat) : Prop :=
  1 <= Z.of_nat n <= 8 /\ is_pow2 A = true /\ 0 <= K < A /\ alias_safe c = true /\
  (p + n <= length mem)%nat /\ claim A K (base + Z.of_nat p).

Lemma kbits_ok_8n : forall n : nat, 1 <= Z.of_nat n <= 8 -> kbits_ok (8 * Z.of_nat n) = true.
Proof. intros. unfold kbits_ok. lia. Qed.

Lemma mod8_8n : forall n : nat, (8 * Z.of_nat n) mod 8 = 0.
Proof. intros. rewrite Z.mul_comm. apply Z.mod_mul. lia. Qed.

Lemma whole_n : forall (n : nat) kbits, kbits = 8 * Z.of_nat n -> (kbits = 16 \/ kbits = 32 \/ kbits = 64) ->
  (n = 2 \/ n = 4 \/ n = 8)%nat /\ kbits / 8 = Z.of_nat n.
Proof.
  intros n kbits -> H. split; [lia|]. rewrite Z.mul_comm, Z.div_mul by lia. reflexivity.
Qed.

Lemma accessor_read_spec_l : forall cfg c be A K (n : nat) base mem p,
  acc_pre c A K n base mem p -> Forall byte mem ->
  accessor_read cfg c be A K (8 * Z.of_nat n) base mem p
  = Some (container_valz (order_of be) (sub_storage mem p n)).
Proof.
  intros cfg c be A K n base mem p (Hn & P & HK & Ha & Hr & Hc) HB. unfold accessor_read.
  rewrite kbits_ok_8n by assumption. cbn [negb].
  destruct (select_total cfg c A K (8 * Z.of_nat n) P HK (mod8_8n n) Ha) as [s Hs]. rewrite Hs.
  assert (Hok := select_sound _ _ _ _ _ _ _ _ Hs Hc).
  destruct s; cbn [spec_ok] in Hok.
  - apply bytes_read_spec; assumption.
  - destruct Hok as (_ & Hk & Hal). destruct (whole_n n _ eq_refl Hk) as [Hn' E]. rewrite E in Hal.
    apply whole_read_spec; assumption.
Qed.

Lemma accessor_write_spec_l : forall cfg c be A K (n : nat) base mem p value,
  acc_pre c A K n base mem p -> 0 <= value < 2 ^ lw (8 * Z.of_nat n) ->
  accessor_write cfg c be A K (8 * Z.of_nat n) base mem p value
  = Some (splice mem p (container_bytes be n value)).
Proof.
  intros cfg c be A K n base mem p value (Hn & P & HK & Ha & Hr & Hc) Hv. unfold accessor_write.
  rewrite kbits_ok_8n by assumption. cbn [negb].
  destruct (select_total cfg c A K (8 * Z.of_nat n) P HK (mod8_8n n) Ha) as [s Hs]. rewrite Hs.
  assert (Hok := select_sound _ _ _ _ _ _ _ _ Hs Hc).
  destruct s; cbn [spec_ok] in Hok.
  - apply bytes_write_spec; assumption.
  - destruct Hok as (_ & Hk & Hal). destruct (whole_n n _ eq_refl Hk) as [Hn' E]. rewrite E in Hal.
    apply whole_write_spec; assumption.
Qed.

Lemma container_bytes_length : forall be n v, length (container_bytes be n v) = n.
Proof. intros. unfold container_bytes. destruct be; rewrite ?rev_length; apply le_bytes_length. Qed.

Lemma container_bytes_byte : forall be n v, Forall byte (container_bytes be n v).
Proof. intros. unfold container_bytes. destruct be; [apply Forall_rev|]; apply le_bytes_byte. Qed.

(* the bytes written hold the value (its low 8n bits) in the byte order of the function called *)
Lemma container_bytes_val : forall be n v,
  container_valz (order_of be) (container_bytes be n v) = v mod 2 ^ (8 * Z.of_nat n).
Proof.
  intros be n v. rewrite <- pow256 by lia. unfold container_bytes. destruct be; cbn [order_of container_valz].
  - unfold of_be. rewrite rev_involutive. apply of_le_le_bytes.
  - apply of_le_le_bytes.
Qed.


(* ---------- the accessor against the load/store of Bits/Model.v ---------- *)
Lemma order_fits_of : forall be n, order_fits (order_of be) n.
Proof. intros be n. destruct be; exact I. Qed.

Lemma container_load_either : forall opt be bytes, Forall byte bytes -> 1 <= Z.of_nat (length bytes) <= 8 ->
  container_load opt (order_of be) (8 * Z.of_nat (length bytes)) bytes = Some (container_valz (order_of be) bytes).
Proof.
  intros opt be bytes Hb Hn. destruct opt.
  - apply container_load_opt; try assumption. apply order_fits_of.
  - rewrite container_load_portable by (try assumption; apply order_fits_of).
    apply container_load_opt; try assumption. apply order_fits_of.
Qed.

Lemma container_store_either : forall opt be bytes value, 1 <= Z.of_nat (length bytes) <= 8 ->
  0 <= value < 2 ^ (8 * Z.of_nat (length bytes)) ->
  container_store opt (order_of be) (8 * Z.of_nat (length bytes)) bytes value
  = Some (container_bytes be (length bytes) value).
Proof.
  intros opt be bytes value Hn Hv.
  assert (Hlw := lw8_ge (Z.of_nat (length bytes)) Hn).
  assert (Hv' : 0 <= value < 2 ^ lw (8 * Z.of_nat (length bytes))).
  { split; [lia|]. eapply Z.lt_le_trans; [apply Hv|]. apply pow2_le. lia. }
  assert (T : container_store true (order_of be) (8 * Z.of_nat (length bytes)) bytes value
              = Some (container_bytes be (length bytes) value)).
  { unfold container_store.
    replace (Z.of_nat (length bytes) * 8 =? 8 * Z.of_nat (length bytes)) with true by lia. cbn [negb].
    unfold container_bytes. destruct be; cbn [order_of].
    - rewrite store_be_memcpy_spec by assumption. reflexivity.
    - rewrite store_le_memcpy_spec by assumption. reflexivity. }
  destruct opt; [exact T|].
  rewrite container_store_portable by (try assumption; apply order_fits_of). exact T.
Qed.

Lemma acc_pre_unaligned : forall c A K n base mem p, acc_pre c A K n base mem p -> acc_pre c 1 0 n base mem p.
Proof.
  intros c A K n base mem p (Hn & P & HK & Ha & Hr & Hc).
  repeat split; try assumption; try lia. unfold claim. apply Z.mod_1_r.
Qed.

Lemma sub_storage_length : forall mem p n, (p + n <= length mem)%nat -> length (sub_storage mem p n) = n.
Proof. intros. unfold sub_storage. apply firstn_skipn_length. assumption. Qed.

Lemma aligned_reads_agree_l : forall cfg c be A K (n : nat) base mem p opt,
  acc_pre c A K n base mem p -> Forall byte mem ->
  accessor_read cfg c be A K (8 * Z.of_nat n) base mem p = accessor_read cfg c be 1 0 (8 * Z.of_nat n) base mem p /\
  accessor_read cfg c be A K (8 * Z.of_nat n) base mem p
  = container_load opt (order_of be) (8 * Z.of_nat n) (sub_storage mem p n).
Proof.
  intros cfg c be A K n base mem p opt Hpre HB.
  rewrite (accessor_read_spec_l cfg c be A K n base mem p Hpre HB).
  rewrite (accessor_read_spec_l cfg c be 1 0 n base mem p (acc_pre_unaligned _ _ _ _ _ _ _ Hpre) HB).
  split; [reflexivity|].
  destruct Hpre as (Hn & _ & _ & _ & Hr & _).
  assert (Hl := sub_storage_length mem p n Hr).
  rewrite <- Hl at 2. rewrite container_load_either; [reflexivity| |rewrite Hl; assumption].
  apply Forall_firstn_skipn. assumption.
Qed.

Lemma aligned_writes_agree_l : forall cfg c be A K (n : nat) base mem p value opt,
  acc_pre c A K n base mem p -> 0 <= value < 2 ^ (8 * Z.of_nat n) ->
  accessor_write cfg c be A K (8 * Z.of_nat n) base mem p value
  = accessor_write cfg c be 1 0 (8 * Z.of_nat n) base mem p value /\
  exists bs, container_store opt (order_of be) (8 * Z.of_nat n) (sub_storage mem p n) value = Some bs /\
             accessor_write cfg c be A K (8 * Z.of_nat n) base mem p value = Some (splice mem p bs).
Proof.
  intros cfg c be A K n base mem p value opt Hpre Hv.
  assert (Hn : 1 <= Z.of_nat n <= 8) by apply Hpre.
  assert (Hr : (p + n <= length mem)%nat) by apply Hpre.
  assert (Hlw := lw8_ge (Z.of_nat n) Hn).
  assert (Hv' : 0 <= value < 2 ^ lw (8 * Z.of_nat n)).
  { split; [lia|]. eapply Z.lt_le_trans; [apply Hv|]. apply pow2_le. lia. }
  rewrite (accessor_write_spec_l cfg c be A K n base mem p value Hpre Hv').
  rewrite (accessor_write_spec_l cfg c be 1 0 n base mem p value (acc_pre_unaligned _ _ _ _ _ _ _ Hpre) Hv').
  split; [reflexivity|].
  assert (Hl := sub_storage_length mem p n Hr).
  exists (container_bytes be n value). split; [|reflexivity].
  rewrite <- Hl at 1 3. apply container_store_either; rewrite Hl; assumption.
Qed.

Lemma char_storage_irrelevant_l : forall cfg c1 c2 be A K (n : nat) base mem p value,
  acc_pre c1 A K n base mem p -> alias_safe c2 = true -> Forall byte mem -> 0 <= value < 2 ^ lw (8 * Z.of_nat n) ->
  accessor_read cfg c1 be A K (8 * Z.of_nat n) base mem p = accessor_read cfg c2 be A K (8 * Z.of_nat n) base mem p /\
  accessor_write cfg c1 be A K (8 * Z.of_nat n) base mem p value
  = accessor_write cfg c2 be A K (8 * Z.of_nat n) base mem p value.
Proof.
  intros cfg c1 c2 be A K n base mem p value Hpre Ha2 HB Hv.
  assert (Hpre2 : acc_pre c2 A K n base mem p).
  { destruct Hpre as (Hn & P & HK & Ha & Hr & Hc). repeat split; try assumption; lia. }
  rewrite !accessor_read_spec_l, !accessor_write_spec_l by assumption. split; reflexivity.
Qed.

(* ---------- byte swap ---------- *)
Lemma bswap_involutive_l : forall (n : nat) x, 0 <= x < 2 ^ (8 * Z.of_nat n) ->
  bswap (8 * Z.of_nat n) (bswap (8 * Z.of_nat n) x) = x.
Proof.
  intros n x Hx. rewrite !bswap_n. unfold bswapn.
  assert (E : le_bytes n (of_le (rev (le_bytes n x))) = rev (le_bytes n x)).
  { rewrite <- (le_bytes_length n x) at 1. rewrite <- rev_length.
    apply le_bytes_of_le. apply Forall_rev, le_bytes_byte. }
  rewrite E, rev_involutive, of_le_le_bytes. apply Z.mod_small. rewrite pow256 by lia. exact Hx.
Qed.

Lemma byte_swap_involutive_l : forall b1 b2 ct x, std_cty ct -> 0 <= x < 2 ^ cbits ct ->
  exists y, byte_swap b1 ct x = Some y /\ byte_swap b2 ct y = Some x.
Proof.
  intros b1 b2 ct x Hstd Hx. rewrite byte_swap_spec by assumption. eexists. split; [reflexivity|].
  assert (E : cbits ct = 8 * Z.of_nat (Z.to_nat (cbits ct / 8))).
  { rewrite Z2Nat.id; [symmetry; apply std_bits_div8; assumption|].
    destruct Hstd as [E|[E|[E|E]]]; rewrite E; discriminate. }
  rewrite byte_swap_spec; try assumption.
  - f_equal. rewrite E. apply bswap_involutive_l. rewrite <- E. assumption.
  - rewrite E at 1. rewrite bswap_n.
    assert (B := bswapn_bound (Z.to_nat (cbits ct / 8)) x). rewrite pow256 in B by lia. rewrite <- E in B. exact B.
Qed.

(* ---------- GreatestCommonDivisor, OffsetStorageType ---------- *)
Lemma gcd_euclid_spec : forall fuel a b, 0 <= a -> 0 <= b -> a < Z.of_nat fuel ->
  gcd_euclid fuel a b = Some (Z.gcd a b).
Proof.
  induction fuel as [|f IH]; intros a b Ha Hb Hf; [lia|].
  cbn [gcd_euclid]. destruct (a =? 0) eqn:E.
  - assert (a = 0) by lia. subst a. rewrite Z.gcd_0_l, Z.abs_eq by assumption. reflexivity.
  - assert (Hm := Z.mod_pos_bound b a ltac:(lia)).
    rewrite IH by lia. f_equal. apply Z.gcd_mod. lia.
Qed.

Lemma greatest_common_divisor_spec : forall a b, 0 <= a -> 0 <= b ->
  greatest_common_divisor a b = Some (Z.gcd a b).
Proof. intros. unfold greatest_common_divisor. apply gcd_euclid_spec; lia. Qed.

Lemma mod_of_divisor : forall g m x k, 0 < g -> 0 < m -> (g | m) -> x mod m = k -> x mod g = k mod g.
Proof. intros g m x k Hg Hm Hd <-. apply Zmod_div_mod; assumption. Qed.

Lemma alignment_bookkeeping_sound_l : forall A K SA SK A' K' addr offset,
  is_pow2 A = true -> A < 2 ^ 64 -> 0 <= SA ->
  offset_storage_type A K SA SK = Some (A', K') ->
  claim A K addr -> sub_claim SA SK offset ->
  claim A' K' (addr + offset) /\ is_pow2 A' = true /\ 0 <= K' < A' /\ (A' | A).
Proof.
  intros A K SA SK A' K' addr offset P HA HSA H Hc Hs.
  unfold offset_storage_type in H.
  destruct (negb ((SA =? 0) || (SK <? SA))); [discriminate|].
  assert (PA : 0 < A) by (unfold is_pow2 in P; lia).
  rewrite greatest_common_divisor_spec in H by lia. cbn [bind] in H.
  set (g := Z.gcd A SA) in *.
  destruct (g =? 0) eqn:G0; [discriminate|].
  destruct (is_pow2 g && (wrap u64 (K + SK) mod g <? g)) eqn:E; [|discriminate].
  inversion H; subst A' K'. clear H.
  apply andb_prop in E. destruct E as [Pg Hlt].
  assert (Hg : 0 < g) by (unfold is_pow2 in Pg; lia).
  assert (DA : (g | A)) by apply Z.gcd_divide_l.
  assert (DS : (g | SA)) by apply Z.gcd_divide_r.
  assert (Hm := Z.mod_pos_bound (wrap u64 (K + SK)) g Hg).
  repeat split; try assumption; try lia.
  unfold claim in *.
  (* g divides 2^64: wrapping K + SK to size_t does not change it modulo g *)
  assert (D64 : (g | 2 ^ 64)).
  { destruct (is_pow2_exp g Pg) as [e He]. rewrite He in *.
    assert (e64 : Z.of_nat e < 64).
    { destruct (Z.lt_ge_cases (Z.of_nat e) 64) as [L|L]; [exact L|].
      assert (2 ^ 64 <= 2 ^ Z.of_nat e) by (apply pow2_le; lia).
      assert (2 ^ Z.of_nat e <= A) by (apply Z.divide_pos_le; assumption). lia. }
    exists (2 ^ (64 - Z.of_nat e)). rewrite <- pow2_add by lia. f_equal. lia. }
  rewrite wrap_unsigned by reflexivity. change (cbits u64) with 64.
  rewrite <- (Zmod_div_mod g (2 ^ 64) (K + SK)) by (try assumption; apply pow2_pos; lia).
  rewrite Zplus_mod, (Zplus_mod K SK).
  rewrite (mod_of_divisor g A addr K Hg PA DA Hc).
  unfold sub_claim in Hs. destruct (SA =? 0) eqn:S0.
  - subst offset. reflexivity.
  - rewrite (mod_of_divisor g SA offset SK Hg ltac:(lia) DS Hs). reflexivity.
Qed.

(* the checked entry point: the CHECKs hold whenever the claim does, and then it is the accessor *)
Lemma buffer_read_checked_l : forall cfg c be A K (n : nat) base mem p,
  acc_pre c A K n base mem p -> Forall byte mem ->
  buffer_read cfg c true be A K (8 * Z.of_nat n) base mem p n
  = Some (container_valz (order_of be) (sub_storage mem p n)).
Proof.
  intros cfg c be A K n base mem p Hpre HB. unfold buffer_read.
  assert (Hc : claim A K (base + Z.of_nat p)) by apply Hpre. unfold claim in Hc. unfold claimb. rewrite Hc.
  replace (Z.of_nat n * 8 =? 8 * Z.of_nat n) with true by lia. rewrite Z.eqb_refl. cbn [andb negb].
  apply accessor_read_spec_l; assumption.
Qed.

(* ---------- casts ---------- *)
Lemma write_uint8_cast_redundant_l : forall c ct mem k value,
  store_char c mem k (c_cast u8 (ct, value)) = store_char c mem k (ct, value).
Proof.
  intros. unfold store_char, c_cast. cbn [val snd]. rewrite !wrap_u8_chart.
  rewrite !(wrap_unsigned u8) by reflexivity. change (2 ^ cbits u8) with 256. rewrite Z.mod_mod by lia. reflexivity.
Qed.

Lemma write_shift_guard_redundant_l : forall ct c p nb value mem, std_cty ct -> csigned ct = false ->
  (p + nb <= length mem)%nat -> 8 * Z.of_nat nb <= cbits ct -> 0 <= value < 2 ^ cbits ct ->
  write_loop_with false ct c (fun i => (p + i)%nat) nb 0 value mem
  = write_loop_with true ct c (fun i => (p + i)%nat) nb 0 value mem /\
  write_loop_with false ct c (fun i => (p + (nb - 1 - i))%nat) nb 0 value mem
  = write_loop_with true ct c (fun i => (p + (nb - 1 - i))%nat) nb 0 value mem.
Proof.
  intros ct c p nb value mem Hstd Hu Hr Hn Hv. split.
  - rewrite !write_le_loop_from by (first [assumption | lia]). reflexivity.
  - rewrite !(write_be_loop_from _ ct c p nb) by (first [assumption | lia]). reflexivity.
Qed.

(* dropping static_cast<uint8_t> from the read loop: a byte >= 0x80 held in a signed char is sign-extended
   by the conversion to Unsigned and sets every higher bit of the result *)
Lemma read_loop_without_uint8_cast_refuted_l :
  exists c mem v, alias_safe c = true /\ Forall byte mem /\ length mem = 2%nat /\
    read_le_loop_with (cast_read_no_u8 (uty 16)) (uty 16) c mem 0 2 0 0 = Some v /\ v <> of_le mem /\
    read_le_loop (uty 16) c mem 0 2 0 0 = Some (of_le mem).
Proof.
  exists CharPlain, [128; 0], 65408. repeat split.
  - repeat constructor; unfold byte; lia.
  - vm_compute. discriminate.
Qed.

(* dropping static_cast<Unsigned>: the shift is done in int; for the upper half of a 64-bit value the count
   reaches the width of int *)
Lemma read_loop_without_widening_cast_refuted_l :
  exists c mem, alias_safe c = true /\ Forall byte mem /\ length mem = 8%nat /\
    read_le_loop_with (cast_read_no_widen (uty 64)) (uty 64) c mem 0 8 0 0 = None /\
    read_le_loop (uty 64) c mem 0 8 0 0 = Some (of_le mem).
Proof.
  exists CharUnsigned, [1; 2; 3; 4; 5; 6; 7; 8]. repeat split.
  repeat constructor; unfold byte; lia.
Qed.

(* a false static claim: the whole-object specialisation dereferences a misaligned pointer *)
Lemma false_claim_refuted_l :
  exists cfg c A K base mem p, acc_pre c 1 0 8 base mem p /\ Forall byte mem /\ is_pow2 A = true /\ 0 <= K < A /\
    ~ claim A K (base + Z.of_nat p) /\
    accessor_read cfg c false A K 64 base mem p = None /\
    accessor_read cfg c false 1 0 64 base mem p = Some (of_le (sub_storage mem p 8)).
Proof.
  exists cfg_gcc, CharUnsigned, 8, 0, 64, [0; 1; 2; 3; 4; 5; 6; 7; 8; 9], 1%nat.
  split; [|split; [|split; [|split; [|split; [|split]]]]]; try reflexivity.
  - unfold acc_pre, claim. repeat split; try reflexivity; cbn; lia.
  - repeat constructor; unfold byte; lia.
  - lia.
  - unfold claim. vm_compute. discriminate.
Qed.

(* signed char storage does not compile with the byte specialisation *)
Lemma signed_char_rejected_l : forall fuel cfg kbits, select fuel cfg CharSigned 1 0 kbits = None.
Proof. intros. destruct fuel; cbn [select]; cbn; rewrite andb_false_r; reflexivity. Qed.

(* ---------- examples: the hypotheses are satisfiable, every path is exercised ---------- *)
Definition ex_mem : list Z := [17; 34; 51; 128; 255; 102; 119; 136; 153; 170; 187; 204].

Lemma ex_acc_pre : acc_pre CharPlain 8 4 4 64 ex_mem 4 /\ acc_pre CharPlain 8 3 3 64 ex_mem 3 /\ Forall byte ex_mem.
Proof.
  unfold acc_pre, claim. repeat split; try reflexivity; try (cbn; lia).
  repeat constructor; unfold byte; lia.
Qed.

Lemma ex_accessor :
  select (select_fuel 8) cfg_gcc CharPlain 8 4 32 = Some SpecWhole /\
  select (select_fuel 8) cfg_gcc CharPlain 8 3 24 = Some SpecBytes /\
  accessor_read cfg_gcc CharPlain false 8 4 32 64 ex_mem 4 = Some 2289526527 /\
  accessor_read cfg_portable CharPlain false 8 4 32 64 ex_mem 4 = Some 2289526527 /\
  accessor_read (mk_config false true true false) CharPlain true 8 4 32 64 ex_mem 4 = Some 4284905352 /\
  accessor_read cfg_swap_portable CharStdByte true 8 3 24 64 ex_mem 3 = Some 8453990 /\
  accessor_write cfg_portable CharPlain true 8 3 24 64 ex_mem 3 11259375
  = Some [17; 34; 51; 171; 205; 239; 119; 136; 153; 170; 187; 204] /\
  accessor_write (mk_config false true true true) CharPlain false 8 4 32 64 ex_mem 4 2864434397
  = Some [17; 34; 51; 128; 221; 204; 187; 170; 153; 170; 187; 204] /\
  offset_storage_type 8 3 0 5 = Some (8, 0) /\ offset_storage_type 8 3 12 1 = Some (4, 0).
Proof. repeat split; vm_compute; reflexivity. Qed.

(* ---------- the statements as Properties_C02.v / Properties_C03.v quote them ---------- *)
Lemma accessor_read_le_spec_l : forall cfg c A K (n : nat) base mem p,
  acc_pre c A K n base mem p -> Forall byte mem ->
  accessor_read cfg c false A K (8 * Z.of_nat n) base mem p = Some (of_le (sub_storage mem p n)).
Proof. intros. apply (accessor_read_spec_l cfg c false); assumption. Qed.

Lemma accessor_read_be_spec_l : forall cfg c A K (n : nat) base mem p,
  acc_pre c A K n base mem p -> Forall byte mem ->
  accessor_read cfg c true A K (8 * Z.of_nat n) base mem p = Some (of_be (sub_storage mem p n)).
Proof. intros. apply (accessor_read_spec_l cfg c true); assumption. Qed.

Lemma accessor_write_le_spec_l : forall cfg c A K (n : nat) base mem p value,
  acc_pre c A K n base mem p -> 0 <= value < 2 ^ lw (8 * Z.of_nat n) ->
  accessor_write cfg c false A K (8 * Z.of_nat n) base mem p value = Some (splice mem p (le_bytes n value)).
Proof. intros. apply (accessor_write_spec_l cfg c false); assumption. Qed.

Lemma accessor_write_be_spec_l : forall cfg c A K (n : nat) base mem p value,
  acc_pre c A K n base mem p -> 0 <= value < 2 ^ lw (8 * Z.of_nat n) ->
  accessor_write cfg c true A K (8 * Z.of_nat n) base mem p value = Some (splice mem p (rev (le_bytes n value))).
Proof. intros. apply (accessor_write_spec_l cfg c true); assumption. Qed.

(* no element outside [p, p + n) is touched, the length is unchanged, and reading back gives the value *)
Lemma accessor_write_frame_l : forall cfg c be A K (n : nat) base mem p value,
  acc_pre c A K n base mem p -> 0 <= value < 2 ^ lw (8 * Z.of_nat n) ->
  exists mem', accessor_write cfg c be A K (8 * Z.of_nat n) base mem p value = Some mem' /\
    length mem' = length mem /\
    (forall i d, (i < p \/ p + n <= i)%nat -> nth i mem' d = nth i mem d) /\
    sub_storage mem' p n = container_bytes be n value /\
    (Forall byte mem -> Forall byte mem' /\
       accessor_read cfg c be A K (8 * Z.of_nat n) base mem' p = Some (value mod 2 ^ (8 * Z.of_nat n))).
Proof.
  intros cfg c be A K n base mem p value Hpre Hv.
  assert (Hr : (p + n <= length mem)%nat) by apply Hpre.
  assert (Hl := container_bytes_length be n value).
  assert (Hr' : (p + length (container_bytes be n value) <= length mem)%nat) by (rewrite Hl; exact Hr).
  rewrite (accessor_write_spec_l cfg c be A K n base mem p value Hpre Hv).
  eexists. split; [reflexivity|].
  assert (L : length (splice mem p (container_bytes be n value)) = length mem) by (apply splice_length; exact Hr').
  assert (S : sub_storage (splice mem p (container_bytes be n value)) p n = container_bytes be n value).
  { rewrite <- Hl at 2. apply sub_storage_splice. exact Hr'. }
  split; [exact L|]. split; [|split; [exact S|]].
  - intros i d Hi. apply splice_outside; [exact Hr'|]. rewrite Hl. exact Hi.
  - intros HB.
    assert (HB' : Forall byte (splice mem p (container_bytes be n value))).
    { unfold splice. apply Forall_app. split; [apply Forall_firstn'; assumption|].
      apply Forall_app. split; [apply container_bytes_byte|apply Forall_skipn'; assumption]. }
    split; [exact HB'|].
    assert (Hpre' : acc_pre c A K n base (splice mem p (container_bytes be n value)) p).
    { destruct Hpre as (Hn & P & HK & Ha & _ & Hc). repeat split; try assumption; try lia. }
    rewrite (accessor_read_spec_l cfg c be A K n base _ p Hpre' HB'). rewrite S.
    rewrite container_bytes_val. reflexivity.
Qed.

Lemma char_storage_irrelevant_reads_l : forall cfg c1 c2 be A K (n : nat) base mem p,
  acc_pre c1 A K n base mem p -> alias_safe c2 = true -> Forall byte mem ->
  accessor_read cfg c1 be A K (8 * Z.of_nat n) base mem p = accessor_read cfg c2 be A K (8 * Z.of_nat n) base mem p.
Proof.
  intros cfg c1 c2 be A K n base mem p Hpre Ha2 HB.
  apply (char_storage_irrelevant_l cfg c1 c2 be A K n base mem p 0 Hpre Ha2 HB).
  split; [lia|]. apply pow2_pos. destruct Hpre as (Hn & _). assert (H := lw_std (8 * Z.of_nat n)).
  destruct H as [E|[E|[E|E]]]; rewrite E; lia.
Qed.

Lemma char_storage_irrelevant_writes_l : forall cfg c1 c2 be A K (n : nat) base mem p value,
  acc_pre c1 A K n base mem p -> alias_safe c2 = true -> 0 <= value < 2 ^ lw (8 * Z.of_nat n) ->
  accessor_write cfg c1 be A K (8 * Z.of_nat n) base mem p value
  = accessor_write cfg c2 be A K (8 * Z.of_nat n) base mem p value.
Proof.
  intros cfg c1 c2 be A K n base mem p value Hpre Ha2 Hv.
  assert (Hpre2 : acc_pre c2 A K n base mem p).
  { destruct Hpre as (Hn & P & HK & Ha & Hr & Hc). repeat split; try assumption; lia. }
  rewrite !accessor_write_spec_l by assumption. reflexivity.
Qed.
