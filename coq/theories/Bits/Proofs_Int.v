(* Bits/Proofs_Int.v -- arithmetic facts about the C++ integer layer of Model.v *)
From Coq Require Import ZArith List Bool Lia ZifyBool.
Import ListNotations.
Require Import EmbossV.Bits.Model.
Open Scope Z_scope.

Local Arguments Z.pow : simpl never.
Local Arguments Z.mul : simpl never.
Local Arguments Z.add : simpl never.
Local Arguments Z.sub : simpl never.
Local Arguments Z.div : simpl never.
Local Arguments Z.modulo : simpl never.
Local Arguments Z.land : simpl never.
Local Arguments Z.lor : simpl never.

(* ---------- powers of two ---------- *)
Lemma pow2_pos : forall a, 0 <= a -> 0 < 2 ^ a.
Proof. intros. apply Z.pow_pos_nonneg; lia. Qed.

Lemma pow2_le : forall a b, 0 <= a <= b -> 2 ^ a <= 2 ^ b.
Proof. intros. apply Z.pow_le_mono_r; lia. Qed.

Lemma pow2_lt : forall a b, 0 <= a < b -> 2 ^ a < 2 ^ b.
Proof. intros. apply Z.pow_lt_mono_r; lia. Qed.

Lemma pow2_add : forall a b, 0 <= a -> 0 <= b -> 2 ^ (a + b) = 2 ^ a * 2 ^ b.
Proof. intros. apply Z.pow_add_r; lia. Qed.

Lemma pow2_succ : forall a, 0 <= a -> 2 ^ (a + 1) = 2 * 2 ^ a.
Proof. intros. rewrite pow2_add by lia. change (2 ^ 1) with 2. lia. Qed.

Lemma pow2_pred : forall a, 1 <= a -> 2 ^ a = 2 * 2 ^ (a - 1).
Proof. intros. rewrite <- pow2_succ by lia. f_equal. lia. Qed.

(* (v mod 2^(o+w)) / 2^o = (v / 2^o) mod 2^w *)
Lemma mod_div_pow2 : forall v o w, 0 <= o -> 0 <= w ->
  (v mod 2 ^ (o + w)) / 2 ^ o = (v / 2 ^ o) mod 2 ^ w.
Proof.
  intros v o w Ho Hw.
  assert (Po := pow2_pos o Ho). assert (Pw := pow2_pos w Hw).
  rewrite pow2_add by lia.
  rewrite Z.rem_mul_r by lia.
  rewrite Z.mul_comm, Z.div_add by lia.
  rewrite Z.div_small by (apply Z.mod_pos_bound; lia). lia.
Qed.

Lemma land_ones_mod : forall a n, 0 <= n -> Z.land a (2 ^ n - 1) = a mod 2 ^ n.
Proof.
  intros. replace (2 ^ n - 1) with (Z.ones n) by (rewrite Z.ones_equiv; lia).
  apply Z.land_ones; lia.
Qed.

(* ---------- standard types ---------- *)
Definition std_bits (b : Z) : Prop := b = 8 \/ b = 16 \/ b = 32 \/ b = 64.
Definition std_cty (t : cty) : Prop := std_bits (cbits t).

Lemma lw_std : forall w, std_bits (lw w).
Proof.
  intros w. unfold lw, std_bits.
  destruct (w <=? 8); [auto|]. destruct (w <=? 16); [auto|]. destruct (w <=? 32); auto.
Qed.

Lemma lw_ge : forall w, w <= 64 -> w <= lw w.
Proof.
  intros w H. unfold lw.
  destruct (w <=? 8) eqn:E1; [lia|]. destruct (w <=? 16) eqn:E2; [lia|]. destruct (w <=? 32) eqn:E3; lia.
Qed.

Lemma std_bits_pos : forall b, std_bits b -> 8 <= b <= 64.
Proof. unfold std_bits; intros; lia. Qed.

Lemma cmin_le_0 : forall t, 1 <= cbits t -> cmin t <= 0.
Proof.
  intros t H. unfold cmin. destruct (csigned t); [|lia].
  assert (0 < 2 ^ (cbits t - 1)) by (apply pow2_pos; lia). lia.
Qed.

(* ---------- wrap ---------- *)
Lemma wrap_unsigned : forall t z, csigned t = false -> wrap t z = z mod 2 ^ cbits t.
Proof. intros t z H. unfold wrap. rewrite H. reflexivity. Qed.

Lemma wrap_id : forall t z, 1 <= cbits t -> in_cty t z -> wrap t z = z.
Proof.
  intros t z Hb [Hlo Hhi]. unfold wrap, cmin, cmax in *.
  assert (P := pow2_pos (cbits t - 1) ltac:(lia)).
  assert (E := pow2_pred (cbits t) Hb).
  destruct (csigned t).
  - destruct (Z_lt_le_dec z 0).
    + replace (z mod 2 ^ cbits t) with (z + 2 ^ cbits t).
      * destruct (z + 2 ^ cbits t <? 2 ^ (cbits t - 1)) eqn:E1; lia.
      * apply Z.mod_unique with (-1); lia.
    + rewrite Z.mod_small by lia.
      destruct (z <? 2 ^ (cbits t - 1)) eqn:E1; lia.
  - apply Z.mod_small. lia.
Qed.

Lemma wrap_in : forall t z, 1 <= cbits t -> in_cty t (wrap t z).
Proof.
  intros t z Hb. unfold in_cty, wrap, cmin, cmax.
  assert (P := pow2_pos (cbits t - 1) ltac:(lia)).
  assert (E := pow2_pred (cbits t) Hb).
  assert (M := Z.mod_pos_bound z (2 ^ cbits t) ltac:(lia)).
  destruct (csigned t).
  - destruct (z mod 2 ^ cbits t <? 2 ^ (cbits t - 1)) eqn:E1; lia.
  - lia.
Qed.

Lemma wrap_congr : forall t z, 1 <= cbits t -> (wrap t z) mod 2 ^ cbits t = z mod 2 ^ cbits t.
Proof.
  intros t z Hb. unfold wrap.
  assert (P := pow2_pos (cbits t) ltac:(lia)).
  destruct (csigned t).
  - destruct (z mod 2 ^ cbits t <? 2 ^ (cbits t - 1)).
    + apply Z.mod_mod; lia.
    + rewrite <- (Z.mod_mod z (2 ^ cbits t)) at 2 by lia.
      rewrite <- Zminus_mod_idemp_r, Z.mod_same, Z.sub_0_r by lia. reflexivity.
  - apply Z.mod_mod; lia.
Qed.

Lemma in_ctyb_true : forall t z, in_cty t z -> in_ctyb t z = true.
Proof. unfold in_cty, in_ctyb; intros; lia. Qed.

Lemma in_ctyb_spec : forall t z, in_ctyb t z = true <-> in_cty t z.
Proof. unfold in_cty, in_ctyb; intros; lia. Qed.

Lemma in_cty_unsigned : forall t z, csigned t = false -> (in_cty t z <-> 0 <= z < 2 ^ cbits t).
Proof. intros t z H. unfold in_cty, cmin, cmax. rewrite H. lia. Qed.

(* ---------- promotion / usual arithmetic conversions on standard types ---------- *)
Lemma promote_small : forall t, cbits t < 32 -> promote t = i32.
Proof. intros t H. unfold promote. destruct (cbits t <? 32) eqn:E; [reflexivity|lia]. Qed.

Lemma promote_big : forall t, 32 <= cbits t -> promote t = t.
Proof. intros t H. unfold promote. destruct (cbits t <? 32) eqn:E; [lia|reflexivity]. Qed.

Lemma promote_std : forall t, std_cty t -> std_cty (promote t) /\ 32 <= cbits (promote t).
Proof.
  intros t H. unfold promote. destruct (cbits t <? 32) eqn:E.
  - split; [right; right; left; reflexivity|cbn; lia].
  - split; [exact H|lia].
Qed.

(* a value of type t is unchanged by promotion *)
Lemma in_cty_promote : forall t z, std_cty t -> in_cty t z -> in_cty (promote t) z.
Proof.
  intros t z H Hin. unfold promote. destruct (cbits t <? 32) eqn:E; [|exact Hin].
  unfold in_cty, cmin, cmax in *. cbn.
  destruct H as [H|[H|[H|H]]]; rewrite H in *; try lia;
    destruct (csigned t); cbn in Hin; lia.
Qed.

(* ---------- shifts ---------- *)
Lemma c_shl_unsigned : forall t a tk k,
  csigned (promote t) = false -> 0 <= k < cbits (promote t) ->
  c_shl (t, a) (tk, k) = Some (promote t, (a * 2 ^ k) mod 2 ^ cbits (promote t)).
Proof.
  intros t a tk k Hs Hk. unfold c_shl. cbn [ty val fst snd].
  replace ((k <? 0) || (cbits (promote t) <=? k)) with false by lia.
  rewrite Hs. reflexivity.
Qed.

Lemma c_shl_signed : forall t a tk k,
  csigned (promote t) = true -> 0 <= k < cbits (promote t) -> 0 <= a -> a * 2 ^ k <= cmax (promote t) ->
  c_shl (t, a) (tk, k) = Some (promote t, a * 2 ^ k).
Proof.
  intros t a tk k Hs Hk Ha Hmax. unfold c_shl. cbn [ty val fst snd].
  replace ((k <? 0) || (cbits (promote t) <=? k)) with false by lia.
  rewrite Hs. replace (a <? 0) with false by lia.
  rewrite in_ctyb_true; [reflexivity|].
  split; [|exact Hmax].
  assert (0 < 2 ^ k) by (apply pow2_pos; lia).
  unfold cmin. rewrite Hs.
  assert (0 < 2 ^ (cbits (promote t) - 1)) by (apply pow2_pos; lia). nia.
Qed.

Lemma c_shr_ok : forall t a tk k, 0 <= k < cbits (promote t) ->
  c_shr (t, a) (tk, k) = Some (promote t, a / 2 ^ k).
Proof.
  intros t a tk k Hk. unfold c_shr. cbn [ty val fst snd].
  replace ((k <? 0) || (cbits (promote t) <=? k)) with false by lia. reflexivity.
Qed.

(* ---------- + - * without overflow ---------- *)
Lemma arith2_signed : forall f x y,
  csigned (common (ty x) (ty y)) = true ->
  in_cty (common (ty x) (ty y)) (f (wrap (common (ty x) (ty y)) (val x)) (wrap (common (ty x) (ty y)) (val y))) ->
  arith2 f x y = Some (common (ty x) (ty y), f (wrap (common (ty x) (ty y)) (val x)) (wrap (common (ty x) (ty y)) (val y))).
Proof.
  intros f x y Hs Hin. unfold arith2. rewrite Hs, in_ctyb_true by exact Hin. reflexivity.
Qed.

Lemma arith2_unsigned : forall f x y,
  csigned (common (ty x) (ty y)) = false ->
  arith2 f x y = Some (common (ty x) (ty y),
                       f (wrap (common (ty x) (ty y)) (val x)) (wrap (common (ty x) (ty y)) (val y))
                         mod 2 ^ cbits (common (ty x) (ty y))).
Proof. intros f x y Hs. unfold arith2. rewrite Hs. reflexivity. Qed.

(* MaskToNBits on an in-range unsigned value *)
Lemma mask_to_n_bits_spec : forall t value bits,
  std_cty t -> csigned t = false -> 0 <= value < 2 ^ cbits t -> 0 <= bits ->
  mask_to_n_bits t value bits = Some (value mod 2 ^ bits).
Proof.
  intros t value bits Hstd Hu Hv Hb.
  unfold mask_to_n_bits.
  destruct (bits <? cbits t) eqn:E.
  - assert (Hlt : bits < cbits t) by lia.
    assert (Pb := pow2_pos bits Hb).
    assert (Hle : 2 ^ bits <= 2 ^ (cbits t - 1)) by (apply pow2_le; lia).
    assert (Hm : 0 <= value mod 2 ^ bits < 2 ^ bits) by (apply Z.mod_pos_bound; lia).
    assert (Hpc : 2 ^ cbits t = 2 * 2 ^ (cbits t - 1)) by (apply pow2_pred; destruct Hstd as [H|[H|[H|H]]]; lia).
    destruct t as [s b]. cbn in Hu, Hv, Hlt, Hle, Hpc, E. subst s.
    destruct Hstd as [H|[H|[H|H]]]; cbn in H; subst b.
    + (* u8 : arithmetic in int *)
      rewrite (c_shl_signed (mk_cty false 8) 1 u32 bits) by
        (cbn; try reflexivity; try lia; change (2 ^ (8 - 1)) with 128 in Hle; lia).
      cbn [bind]. change (promote (mk_cty false 8)) with i32.
      unfold c_sub. rewrite arith2_signed.
      2: reflexivity.
      2: { cbn [ty val fst snd lit]. change (common i32 i32) with i32.
           rewrite !wrap_id; cbn; try lia; unfold in_cty, cmin, cmax; cbn;
             change (2 ^ (8 - 1)) with 128 in Hle; lia. }
      cbn [bind ty val fst snd lit]. change (common i32 i32) with i32.
      rewrite !(wrap_id i32) by (cbn; try lia; unfold in_cty, cmin, cmax; cbn; change (2 ^ (8 - 1)) with 128 in Hle; lia).
      unfold c_and. cbn [ty val fst snd]. change (common (mk_cty false 8) i32) with i32.
      rewrite !(wrap_id i32) by (cbn; try lia; unfold in_cty, cmin, cmax; cbn;
                                 change (2 ^ (8 - 1)) with 128 in Hle; change (2 ^ 8) with 256 in Hv; lia).
      replace (1 * 2 ^ bits - 1) with (2 ^ bits - 1) by lia.
      rewrite land_ones_mod by lia.
      rewrite wrap_id; [reflexivity|cbn; lia|].
      unfold in_cty, cmin, cmax; cbn. change (2 ^ (8 - 1)) with 128 in Hle. lia.
    + (* u16 *)
      rewrite (c_shl_signed (mk_cty false 16) 1 u32 bits) by
        (cbn; try reflexivity; try lia; change (2 ^ (16 - 1)) with 32768 in Hle; lia).
      cbn [bind]. change (promote (mk_cty false 16)) with i32.
      unfold c_sub. rewrite arith2_signed.
      2: reflexivity.
      2: { cbn [ty val fst snd lit]. change (common i32 i32) with i32.
           rewrite !wrap_id; cbn; try lia; unfold in_cty, cmin, cmax; cbn;
             change (2 ^ (16 - 1)) with 32768 in Hle; lia. }
      cbn [bind ty val fst snd lit]. change (common i32 i32) with i32.
      rewrite !(wrap_id i32) by (cbn; try lia; unfold in_cty, cmin, cmax; cbn; change (2 ^ (16 - 1)) with 32768 in Hle; lia).
      unfold c_and. cbn [ty val fst snd]. change (common (mk_cty false 16) i32) with i32.
      rewrite !(wrap_id i32) by (cbn; try lia; unfold in_cty, cmin, cmax; cbn;
                                 change (2 ^ (16 - 1)) with 32768 in Hle; change (2 ^ 16) with 65536 in Hv; lia).
      replace (1 * 2 ^ bits - 1) with (2 ^ bits - 1) by lia.
      rewrite land_ones_mod by lia.
      rewrite wrap_id; [reflexivity|cbn; lia|].
      unfold in_cty, cmin, cmax; cbn. change (2 ^ (16 - 1)) with 32768 in Hle. lia.
    + (* u32 *)
      rewrite (c_shl_unsigned (mk_cty false 32) 1 u32 bits) by (cbn; try reflexivity; lia).
      cbn [bind]. change (promote (mk_cty false 32)) with u32.
      unfold c_sub. rewrite arith2_unsigned by reflexivity.
      cbn [bind ty val fst snd lit]. change (common u32 i32) with u32. change (cbits u32) with 32.
      rewrite !(wrap_unsigned u32) by reflexivity. change (cbits u32) with 32.
      rewrite (Z.mod_small (1 * 2 ^ bits)) by lia.
      rewrite (Z.mod_small (1 * 2 ^ bits)) by lia.
      rewrite (Z.mod_small 1) by (change (2 ^ 32) with 4294967296; lia).
      rewrite (Z.mod_small (1 * 2 ^ bits - 1)) by lia.
      unfold c_and. cbn [ty val fst snd]. change (common (mk_cty false 32) u32) with u32.
      rewrite !(wrap_unsigned u32) by reflexivity. change (cbits u32) with 32.
      rewrite (Z.mod_small value) by lia.
      rewrite (Z.mod_small (1 * 2 ^ bits - 1)) by lia.
      replace (1 * 2 ^ bits - 1) with (2 ^ bits - 1) by lia.
      rewrite land_ones_mod by lia.
      try (rewrite wrap_unsigned by reflexivity); cbn [cbits].
      rewrite Z.mod_small by lia. reflexivity.
    + (* u64 *)
      rewrite (c_shl_unsigned (mk_cty false 64) 1 u32 bits) by (cbn; try reflexivity; lia).
      cbn [bind]. change (promote (mk_cty false 64)) with u64.
      unfold c_sub. rewrite arith2_unsigned by reflexivity.
      cbn [bind ty val fst snd lit]. change (common u64 i32) with u64. change (cbits u64) with 64.
      rewrite !(wrap_unsigned u64) by reflexivity. change (cbits u64) with 64.
      rewrite (Z.mod_small (1 * 2 ^ bits)) by lia.
      rewrite (Z.mod_small (1 * 2 ^ bits)) by lia.
      rewrite (Z.mod_small 1) by (change (2 ^ 64) with 18446744073709551616; lia).
      rewrite (Z.mod_small (1 * 2 ^ bits - 1)) by lia.
      unfold c_and. cbn [ty val fst snd]. change (common (mk_cty false 64) u64) with u64.
      rewrite !(wrap_unsigned u64) by reflexivity. change (cbits u64) with 64.
      rewrite (Z.mod_small value) by lia.
      rewrite (Z.mod_small (1 * 2 ^ bits - 1)) by lia.
      replace (1 * 2 ^ bits - 1) with (2 ^ bits - 1) by lia.
      rewrite land_ones_mod by lia.
      try (rewrite wrap_unsigned by reflexivity); cbn [cbits].
      rewrite Z.mod_small by lia. reflexivity.
  - f_equal. symmetry. apply Z.mod_small.
    assert (2 ^ cbits t <= 2 ^ bits) by (apply pow2_le; destruct Hstd as [H|[H|[H|H]]]; lia). lia.
Qed.

(* ---------- tactics ---------- *)
(* replace closed powers of two by their value *)
Ltac pow_consts :=
  repeat match goal with
         | |- context [2 ^ ?e] =>
             let b := eval vm_compute in (0 <? 2 ^ e) in
             match b with true => let v := eval vm_compute in (2 ^ e) in change (2 ^ e) with v end
         | H : context [2 ^ ?e] |- _ =>
             let b := eval vm_compute in (0 <? 2 ^ e) in
             match b with true => let v := eval vm_compute in (2 ^ e) in change (2 ^ e) with v in H end
         end.

Ltac incty := unfold in_cty, cmin, cmax in *; cbn [csigned cbits u8 i8 u16 i16 u32 i32 u64 i64 lit] in *; pow_consts; try lia.

(* ---------- more facts about promote / common ---------- *)
Lemma std_cases : forall t, std_cty t ->
  t = mk_cty (csigned t) 8 \/ t = mk_cty (csigned t) 16 \/ t = mk_cty (csigned t) 32 \/ t = mk_cty (csigned t) 64.
Proof.
  intros [s b] H. unfold std_cty, std_bits in H. cbn in *.
  destruct H as [H|[H|[H|H]]]; subst; auto.
Qed.

Ltac std_split t H :=
  let s := fresh "sg" in
  let b := fresh "bw" in
  destruct t as [s b]; unfold std_cty, std_bits in H; cbn [cbits] in H;
  destruct H as [H|[H|[H|H]]]; subst b; destruct s.

Lemma cbits_promote : forall t, std_cty t -> cbits t <= cbits (promote t).
Proof. intros t H. std_split t H; cbn; lia. Qed.

Lemma common_i32_r : forall t, std_cty t -> common t i32 = promote t.
Proof. intros t H. std_split t H; reflexivity. Qed.

Lemma common_i32_l : forall t, std_cty t -> common i32 t = promote t.
Proof. intros t H. std_split t H; reflexivity. Qed.

Lemma common_same : forall t, std_cty t -> common t t = promote t.
Proof. intros t H. std_split t H; reflexivity. Qed.

Lemma promote_idem : forall t, promote (promote t) = promote t.
Proof. intros t. unfold promote. destruct (cbits t <? 32) eqn:E; [reflexivity|]. rewrite E. reflexivity. Qed.

Lemma common_promote_l : forall t u, common (promote t) u = common t u.
Proof.
  intros t u. unfold common. rewrite promote_idem. reflexivity.
Qed.

Lemma promote_bits_ge : forall t, std_cty t -> 32 <= cbits (promote t) <= 64.
Proof. intros t H. std_split t H; cbn; lia. Qed.

Lemma cmax_promote : forall t, std_cty t -> cmax t <= cmax (promote t).
Proof. intros t H. std_split t H; unfold cmax; cbn; pow_consts; lia. Qed.

Lemma cmin_promote : forall t, std_cty t -> cmin (promote t) <= cmin t.
Proof. intros t H. std_split t H; unfold cmin; cbn; pow_consts; lia. Qed.

Lemma cmax_lt_pow : forall t, 1 <= cbits t -> cmax t < 2 ^ cbits t.
Proof.
  intros t H. unfold cmax. assert (E := pow2_pred (cbits t) H).
  assert (0 < 2 ^ (cbits t - 1)) by (apply pow2_pos; lia).
  destruct (csigned t); lia.
Qed.

(* shift left without loss, any standard type *)
Lemma c_shl_exact : forall t a tk k, std_cty t ->
  0 <= a -> 0 <= k < cbits (promote t) -> a * 2 ^ k <= cmax t ->
  c_shl (t, a) (tk, k) = Some (promote t, a * 2 ^ k).
Proof.
  intros t a tk k Hstd Ha Hk Hmax.
  assert (Hm := cmax_promote t Hstd).
  destruct (csigned (promote t)) eqn:Hs.
  - apply c_shl_signed; try assumption; lia.
  - rewrite c_shl_unsigned by assumption.
    f_equal. f_equal. apply Z.mod_small.
    assert (0 < 2 ^ k) by (apply pow2_pos; lia).
    assert (Hp := promote_bits_ge t Hstd).
    assert (cmax (promote t) < 2 ^ cbits (promote t)) by (apply cmax_lt_pow; lia).
    nia.
Qed.

(* + - * when both operands and the result are representable in the common type *)
Lemma arith2_exact : forall f tx a tb b,
  1 <= cbits (common tx tb) ->
  in_cty (common tx tb) a -> in_cty (common tx tb) b -> in_cty (common tx tb) (f a b) ->
  arith2 f (tx, a) (tb, b) = Some (common tx tb, f a b).
Proof.
  intros f tx a tb b Hb Ha Hbb Hr. unfold arith2. cbn [ty val fst snd].
  rewrite !wrap_id by assumption.
  destruct (csigned (common tx tb)) eqn:Hs.
  - rewrite in_ctyb_true by assumption. reflexivity.
  - f_equal. f_equal. apply Z.mod_small. apply in_cty_unsigned in Hr; assumption.
Qed.

Lemma c_and_exact : forall tx a tb b,
  1 <= cbits (common tx tb) -> in_cty (common tx tb) a -> in_cty (common tx tb) b ->
  c_and (tx, a) (tb, b) = (common tx tb, Z.land a b).
Proof. intros. unfold c_and. cbn [ty val fst snd]. rewrite !wrap_id by assumption. reflexivity. Qed.

Lemma c_or_exact : forall tx a tb b,
  1 <= cbits (common tx tb) -> in_cty (common tx tb) a -> in_cty (common tx tb) b ->
  c_or (tx, a) (tb, b) = (common tx tb, Z.lor a b).
Proof. intros. unfold c_or. cbn [ty val fst snd]. rewrite !wrap_id by assumption. reflexivity. Qed.

Lemma c_cmp_exact : forall op tx a tb b,
  1 <= cbits (common tx tb) -> in_cty (common tx tb) a -> in_cty (common tx tb) b ->
  c_cmp op (tx, a) (tb, b) = op a b.
Proof. intros. unfold c_cmp. cbn [ty val fst snd]. rewrite !wrap_id by assumption. reflexivity. Qed.

(* bit-level helpers *)
Lemma land_low_high : forall a b k, 0 <= k -> 0 <= a < 2 ^ k -> Z.land a (b * 2 ^ k) = 0.
Proof.
  intros a b k Hk Ha. apply Z.bits_inj'. intros n Hn.
  rewrite Z.land_spec, Z.bits_0.
  destruct (Z_lt_le_dec n k).
  - rewrite Z.mul_pow2_bits_low by lia. apply andb_false_r.
  - replace (Z.testbit a n) with false; [reflexivity|].
    symmetry. destruct (Z.eq_dec a 0) as [->|Hne]; [apply Z.bits_0|].
    apply Z.bits_above_log2; [lia|].
    assert (Z.log2 a < k) by (apply Z.log2_lt_pow2; lia). lia.
Qed.

Lemma lor_low_high : forall a b k, 0 <= k -> 0 <= a < 2 ^ k -> Z.lor a (b * 2 ^ k) = a + b * 2 ^ k.
Proof.
  intros a b k Hk Ha.
  assert (H0 := land_low_high a b k Hk Ha).
  rewrite <- Z.lxor_lor by exact H0.
  symmetry. apply Z.add_nocarry_lxor. exact H0.
Qed.

Lemma in_cty_nonneg : forall t z, std_cty t -> 0 <= z <= cmax t -> in_cty t z.
Proof.
  intros t z Hstd Hz. unfold in_cty. split; [|lia].
  assert (cmin t <= 0); [|lia]. apply cmin_le_0. unfold std_cty, std_bits in Hstd. lia.
Qed.

Lemma in_cty_promote_nonneg : forall t z, std_cty t -> 0 <= z <= cmax t -> in_cty (promote t) z.
Proof.
  intros t z Hstd Hz. apply in_cty_nonneg; [apply promote_std; assumption|].
  assert (H := cmax_promote t Hstd). lia.
Qed.

Lemma cmax_ge_127 : forall t, std_cty t -> 127 <= cmax t.
Proof. intros t H. std_split t H; unfold cmax; cbn [csigned cbits]; pow_consts; lia. Qed.

