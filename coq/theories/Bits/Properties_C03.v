(* C03 -- field writes are range-checked, read back exactly, and touch only their own bits.
   Statements only; proofs are in Proofs_*.v.  [zfield o zs off w] is the view generated code hands to a scalar at
   bits [off, off+w) of a `bits` container whose bytes are [zs] (BitBlock::GetOffsetStorage); the *_try_write
   functions mirror TryToWrite: Some (success?, new bytes of the container when written); None = undefined
   behaviour or a failed EMBOSS_CHECK, so every [= Some ...] below also says that no step is UB. *)
From Coq Require Import ZArith NArith List Bool.
Import ListNotations.
Require Import EmbossV.Bits.Model EmbossV.Bits.Proofs_Int EmbossV.Bits.Proofs_Load EmbossV.Bits.Proofs_Read
               EmbossV.Bits.Proofs_Bcd EmbossV.Bits.Proofs_Write EmbossV.Bits.Proofs_BcdWrite EmbossV.Bits.Proofs_Portable EmbossV.Bits.Proofs_C03
               EmbossV.Bits.InvertModel EmbossV.Bits.Proofs_Invert.
Open Scope Z_scope.

(* ---- CouldWriteValue: for every width 1..64 and every C++ integer argument type (std_cty: [u]int8..64_t) ---- *)
Theorem could_write_uint_iff_representable : forall argty w v, std_cty argty -> in_cty argty v -> 1 <= w <= 64 ->
  uint_could_write argty w v = Some ((0 <=? v) && (v <? 2 ^ w)).
Proof. exact uint_could_write_spec. Qed.

Theorem could_write_int_iff_representable : forall argty w v, std_cty argty -> in_cty argty v -> 1 <= w <= 64 ->
  int_could_write argty w v = Some ((- 2 ^ (w - 1) <=? v) && (v <? 2 ^ (w - 1))).
Proof. exact int_could_write_spec. Qed.

(* with a [requires] attribute (vok = the generated Parameters::ValueIsOk, evaluated on the value converted to the
   value type, and only when the range test passed): representable && requires *)
Theorem could_write_requires : forall vok argty w v, std_cty argty -> in_cty argty v -> 1 <= w <= 64 ->
  uint_could_write_req vok argty w v = Some ((0 <=? v) && (v <? 2 ^ w) && vok v) /\
  int_could_write_req vok argty w v = Some ((- 2 ^ (w - 1) <=? v) && (v <? 2 ^ (w - 1)) && vok v).
Proof. exact could_write_requires_l. Qed.

(* unsigned enum; ct = the container's unsigned type (BitViewType::ValueType), ut = the enum's underlying type *)
Theorem could_write_enum_unsigned_iff_representable : forall ct ut w v,
  std_cty ct -> csigned ct = false -> std_cty ut -> csigned ut = false ->
  1 <= w <= cbits ct -> w <= cbits ut -> in_cty ut v ->
  enum_could_write ct ut w v = Some (v <? 2 ^ w).
Proof. exact enum_could_write_unsigned_spec. Qed.

(* F1 (write side): -1 fits an 8-bit two's-complement field; EnumView::CouldWriteValue rejects it *)
Theorem enum_signed_write_refuted :
  exists ct ut w v, std_cty ct /\ std_cty ut /\ csigned ut = true /\ 1 <= w <= cbits ct /\ w <= cbits ut /\
    - 2 ^ (w - 1) <= v < 2 ^ (w - 1) /\ enum_could_write ct ut w v = Some false.
Proof. exact enum_signed_write_refuted_l. Qed.

(* what remains true for signed enums: field width = underlying width = container type width *)
Theorem enum_signed_write_partial : forall ct ut v,
  std_cty ct -> csigned ct = false -> std_cty ut -> csigned ut = true -> cbits ut = cbits ct -> in_cty ut v ->
  enum_could_write ct ut (cbits ut) v = Some true.
Proof. exact enum_could_write_signed_full. Qed.

(* BcdView::CouldWriteValue(ValueType): exact when the argument is a ValueType value, as the signature says
   (bcd_max w = 10^(w/4) * 2^(w mod 4) - 1, the constant MaxBcd computes) ... *)
Theorem could_write_bcd_partial : forall argty w v, 1 <= w <= 64 -> in_cty (uty w) v ->
  bcd_could_write argty w v = Some (v <=? bcd_max w).
Proof. exact bcd_could_write_spec. Qed.

Theorem max_bcd_is_bcd_max : forall w, 1 <= w <= 64 -> max_bcd (uty w) bcd_fuel w = Some (bcd_max w).
Proof. exact max_bcd_spec. Qed.

(* ... and refuted for wider argument types: the caller's implicit conversion narrows (finding) *)
Theorem could_write_bcd_narrowing_refuted :
  exists argty w v, std_cty argty /\ in_cty argty v /\ 1 <= w <= 64 /\ ~ (0 <= v <= bcd_max w) /\
                    bcd_could_write argty w v = Some true.
Proof. exact bcd_could_write_narrowing_refuted_l. Qed.

(* ---- successful writes: Read() gives the value back; every other bit of the container is unchanged ---- *)
(* write_post o zs off w u zs' :=  length zs' = length zs /\ Forall byte zs' /\
      field_bits (cvl o zs') off w = u /\ forall i outside [off, off+w), bit i of the container is unchanged *)
Theorem write_read_frame_uint : forall o zs off w argty v, zcontainer_ok o zs -> zfield_ok zs off w ->
  std_cty argty -> in_cty argty v -> 0 <= v < 2 ^ w ->
  exists zs', uint_try_write true (zfield o zs off w) argty w v = Some (true, Some zs') /\
              write_post o zs off w v zs' /\ uint_read true (zfield o zs' off w) w = Some v.
Proof. exact write_uint_accept_l. Qed.

Theorem write_read_frame_int : forall o zs off w argty v, zcontainer_ok o zs -> zfield_ok zs off w ->
  std_cty argty -> in_cty argty v -> - 2 ^ (w - 1) <= v < 2 ^ (w - 1) ->
  exists zs', int_try_write true (zfield o zs off w) argty w v = Some (true, Some zs') /\
              write_post o zs off w (v mod 2 ^ w) zs' /\ int_read true (zfield o zs' off w) w = Some v.
Proof. exact write_int_accept_l. Qed.

Theorem write_read_frame_enum_unsigned : forall o zs off w ut v, zcontainer_ok o zs -> zfield_ok zs off w ->
  std_cty ut -> csigned ut = false -> w <= cbits ut -> 0 <= v < 2 ^ w ->
  exists zs', enum_try_write true (zfield o zs off w) ut w v = Some (true, Some zs') /\
              write_post o zs off w v zs' /\ enum_read true (zfield o zs' off w) ut w = Some v.
Proof. exact write_enum_unsigned_accept_l. Qed.

(* Bcd: the stored pattern is the decimal digits of v, it reads back as v and is Ok() *)
Theorem write_read_frame_bcd : forall o zs off w argty v, zcontainer_ok o zs -> zfield_ok zs off w ->
  0 <= v <= bcd_max w -> in_cty (uty w) v ->
  exists zs', bcd_try_write true (zfield o zs off w) argty w v = Some (true, Some zs') /\
              write_post o zs off w (to_bcd_spec (bcd_digits w) v) zs' /\
              bcd_read true (zfield o zs' off w) w = Some v /\ bcd_ok true (zfield o zs' off w) w = Some true.
Proof. exact write_bcd_accept_l. Qed.

Theorem write_bcd_rejects : forall bv argty w v, 1 <= w <= 64 -> in_cty (uty w) v -> ~ (v <= bcd_max w) ->
  bcd_try_write true bv argty w v = Some (false, None).
Proof. exact bcd_try_write_reject. Qed.

Theorem write_read_frame_flag : forall o zs off (b : bool), zcontainer_ok o zs -> zfield_ok zs off 1 ->
  exists zs', flag_try_write true (zfield o zs off 1) b = Some (true, Some zs') /\
              write_post o zs off 1 (if b then 1 else 0) zs' /\ flag_read true (zfield o zs' off 1) = Some b.
Proof. exact write_flag_l. Qed.

Theorem write_read_frame_float_bits : forall o zs off w bits, zcontainer_ok o zs -> zfield_ok zs off w -> 0 <= bits < 2 ^ w ->
  exists zs', float_try_write true (zfield o zs off w) w bits = Some (true, Some zs') /\
              write_post o zs off w bits zs' /\ float_read_bits true (zfield o zs' off w) w = Some bits.
Proof. exact write_float_l. Qed.

(* ---- rejected values ---- *)
Theorem write_uint_rejects : forall bv argty w v, std_cty argty -> in_cty argty v -> 1 <= w <= 64 ->
  ~ (0 <= v < 2 ^ w) -> uint_try_write true bv argty w v = Some (false, None).
Proof. exact uint_try_write_reject. Qed.

Theorem write_int_rejects : forall bv argty w v, std_cty argty -> in_cty argty v -> 1 <= w <= 64 ->
  ~ (- 2 ^ (w - 1) <= v < 2 ^ (w - 1)) -> int_try_write true bv argty w v = Some (false, None).
Proof. exact int_try_write_reject. Qed.

(* a TryToWrite that returns false has written nothing (all view kinds, both runtime configurations) *)
Theorem failed_write_frame :
  (forall opt bv argty w v r, uint_try_write opt bv argty w v = Some (false, r) -> r = None) /\
  (forall opt bv argty w v r, int_try_write opt bv argty w v = Some (false, r) -> r = None) /\
  (forall opt bv argty w v r, bcd_try_write opt bv argty w v = Some (false, r) -> r = None) /\
  (forall opt bv ut w v r, enum_try_write opt bv ut w v = Some (false, r) -> r = None) /\
  (forall opt bv v r, flag_try_write opt bv v = Some (false, r) -> r = None) /\
  (forall opt bv w v r, float_try_write opt bv w v = Some (false, r) -> r = None).
Proof. exact failed_write_no_bytes. Qed.

(* ---- TryToWrite <-> CouldWriteValue /\ IsComplete ---- *)
Theorem try_write_iff : forall o zs off w argty v, zcontainer_ok o zs -> zfield_ok zs off w ->
  std_cty argty -> in_cty argty v ->
  ((exists zs', uint_try_write true (zfield o zs off w) argty w v = Some (true, Some zs')) <->
   (uint_could_write argty w v = Some true /\ is_complete (zfield o zs off w) w = true)) /\
  ((exists zs', int_try_write true (zfield o zs off w) argty w v = Some (true, Some zs')) <->
   (int_could_write argty w v = Some true /\ is_complete (zfield o zs off w) w = true)).
Proof. exact try_write_iff_l. Qed.

Theorem incomplete_write_fails : forall opt bv argty w v, is_complete bv w = false ->
  (forall b, uint_could_write argty w v = Some b -> uint_try_write opt bv argty w v = Some (false, None)) /\
  (forall b, int_could_write argty w v = Some b -> int_try_write opt bv argty w v = Some (false, None)).
Proof. exact Proofs_Write.incomplete_write_fails. Qed.

(* IsComplete() <-> the container's bytes lie inside the root buffer; [o <> Null]: every byte orderer that reports
   the real size of its buffer (LittleEndian, BigEndian, and the repaired Null orderer [NullSized]) *)
Theorem is_complete_iff_bytes_present : forall o root (boff c : nat) off w,
  o <> Null -> 1 <= Z.of_nat c <= 8 -> order_fits o c -> 1 <= w -> 0 <= off -> off + w <= 8 * Z.of_nat c ->
  (is_complete (get_offset_storage (field_bv o root boff c) off w) w = true <-> (boff + c <= length root)%nat).
Proof. exact is_complete_iff_present. Qed.

(* finding: NullByteOrderer::SizeInBytes() is [Ok() ? 1 : 0]; a one-byte bits field whose byte lies beyond the
   buffer reports IsComplete(), and reading it trips a CHECK ([None]) *)
Theorem null_short_complete_refuted :
  exists root (boff c : nat) off w, ~ (boff + c <= length root)%nat /\
    is_complete (get_offset_storage (field_bv Null root boff c) off w) w = true /\
    uint_read true (get_offset_storage (field_bv Null root boff c) off w) w = None.
Proof. exact null_short_complete_refuted_l. Qed.

(* ---- the root buffer: replacing the container's bytes changes nothing else ---- *)
Theorem root_frame : forall root boff bs i d, (boff + length bs <= length root)%nat ->
  (i < boff \/ boff + length bs <= i)%nat -> nth i (splice root boff bs) d = nth i root d.
Proof. exact splice_outside. Qed.

Theorem root_length : forall root boff bs, (boff + length bs <= length root)%nat ->
  length (splice root boff bs) = length root.
Proof. exact splice_length. Qed.

Theorem root_container_after : forall root boff bs, (boff + length bs <= length root)%nat ->
  sub_storage (splice root boff bs) boff (length bs) = bs.
Proof. exact sub_storage_splice. Qed.

(* the EMBOSS_NO_OPTIMIZATIONS runtime performs the same writes (UInt, Int, unsigned enum, Float) *)
Theorem portable_writes_agree : forall o zs off w, zcontainer_ok o zs -> zfield_ok zs off w ->
  (forall argty v, std_cty argty -> in_cty argty v ->
     uint_try_write false (zfield o zs off w) argty w v = uint_try_write true (zfield o zs off w) argty w v) /\
  (forall argty v, std_cty argty -> in_cty argty v ->
     int_try_write false (zfield o zs off w) argty w v = int_try_write true (zfield o zs off w) argty w v) /\
  (forall ut v, std_cty ut -> csigned ut = false -> w <= cbits ut -> in_cty ut v ->
     enum_try_write false (zfield o zs off w) ut w v = enum_try_write true (zfield o zs off w) ut w v) /\
  (forall bits, 0 <= bits < 2 ^ w ->
     float_try_write false (zfield o zs off w) w bits = float_try_write true (zfield o zs off w) w bits).
Proof. exact portable_writes_agree_l. Qed.

(* ---- write inference (write_inference.py): [invert] mirrors _find_field_reference_path + _invert_expression;
   storing inv[$logical_value := v] into the referenced field makes the virtual field read back v
   (integers are unbounded here; the C++ intermediate types of the generated transform are C01/C04 matter, F8) ---- *)
Theorem invert_correct : forall other e x inv, invert e = Some (EField x, inv) ->
  forall env v, eval other (update env x (eval other env v inv)) v e = v.
Proof. exact invert_correct_l. Qed.

Theorem invert_nonvacuous :
  invert (EFn FAdd [EConst 2; EFn FSub [EFn FSub [EConst 3; EField 7]; EConst 10]])
  = Some (EField 7, EFn FSub [EConst 3; EFn FAdd [EFn FSub [ELogical; EConst 2]; EConst 10]]).
Proof. exact invert_example. Qed.

Theorem nonvacuous_writes :
  zcontainer_ok BE [18; 52; 171] /\ zfield_ok [18; 52; 171] 4 12 /\
  uint_try_write true (zfield BE [18; 52; 171] 4 12) i32 12 2748 = Some (true, Some [18; 171; 203]) /\
  uint_try_write true (zfield BE [18; 52; 171] 4 12) i32 12 4096 = Some (false, None) /\
  int_try_write true (zfield LE [18; 52; 171] 12 12) i8 12 (-2) = Some (true, Some [18; 228; 255]) /\
  int_try_write false (zfield LE [18; 52; 171] 12 12) i8 12 (-2) = Some (true, Some [18; 228; 255]) /\
  bcd_try_write true (zfield BE [18; 52; 171] 8 16) u16 16 9876 = Some (true, Some [152; 118; 171]) /\
  bcd_try_write true (zfield BE [18; 52; 171] 8 16) u16 16 10000 = Some (false, None).
Proof. exact ex_write. Qed.

(* ------------------------------------------------------------------------------------------------------------
   The write half of the MemoryAccessor layer (Bits/Accessor.v; see Properties_C02.v for [acc_pre] and [cfg]).
   ------------------------------------------------------------------------------------------------------------ *)
Require Import EmbossV.Bits.Accessor EmbossV.Bits.ProofsAccessor.

(* MemoryAccessor<CharT, A, K, 8n>::WriteLittleEndianUInt(bytes, value), any value of the type Unsigned:
   exactly the n elements at the pointer are replaced, by the low n bytes of value, least significant first *)
Theorem accessor_write_le_spec : forall cfg c A K (n : nat) base mem p value,
  acc_pre c A K n base mem p -> 0 <= value < 2 ^ lw (8 * Z.of_nat n) ->
  accessor_write cfg c false A K (8 * Z.of_nat n) base mem p value = Some (splice mem p (le_bytes n value)).
Proof. exact accessor_write_le_spec_l. Qed.

Theorem accessor_write_be_spec : forall cfg c A K (n : nat) base mem p value,
  acc_pre c A K n base mem p -> 0 <= value < 2 ^ lw (8 * Z.of_nat n) ->
  accessor_write cfg c true A K (8 * Z.of_nat n) base mem p value = Some (splice mem p (rev (le_bytes n value))).
Proof. exact accessor_write_be_spec_l. Qed.

(* no element outside [p, p + n) is touched; the n elements are the container bytes; reading them back
   with the same accessor returns the value (its low 8n bits) *)
Theorem accessor_write_frame : forall cfg c be A K (n : nat) base mem p value,
  acc_pre c A K n base mem p -> 0 <= value < 2 ^ lw (8 * Z.of_nat n) ->
  exists mem', accessor_write cfg c be A K (8 * Z.of_nat n) base mem p value = Some mem' /\
    length mem' = length mem /\
    (forall i d, (i < p \/ p + n <= i)%nat -> nth i mem' d = nth i mem d) /\
    sub_storage mem' p n = container_bytes be n value /\
    (Forall byte mem -> Forall byte mem' /\
       accessor_read cfg c be A K (8 * Z.of_nat n) base mem' p = Some (value mod 2 ^ (8 * Z.of_nat n))).
Proof. exact accessor_write_frame_l. Qed.

(* formerly an assumption tested every run: static alignment does not change the bytes stored, and they are the
   ones [container_store] of Bits/Model.v produces (either runtime configuration [opt] of that model) *)
Theorem aligned_writes_agree : forall cfg c be A K (n : nat) base mem p value opt,
  acc_pre c A K n base mem p -> 0 <= value < 2 ^ (8 * Z.of_nat n) ->
  accessor_write cfg c be A K (8 * Z.of_nat n) base mem p value
  = accessor_write cfg c be 1 0 (8 * Z.of_nat n) base mem p value /\
  exists bs, container_store opt (order_of be) (8 * Z.of_nat n) (sub_storage mem p n) value = Some bs /\
             accessor_write cfg c be A K (8 * Z.of_nat n) base mem p value = Some (splice mem p bs).
Proof. exact aligned_writes_agree_l. Qed.

Theorem char_storage_irrelevant_for_writes : forall cfg c1 c2 be A K (n : nat) base mem p value,
  acc_pre c1 A K n base mem p -> alias_safe c2 = true -> 0 <= value < 2 ^ lw (8 * Z.of_nat n) ->
  accessor_write cfg c1 be A K (8 * Z.of_nat n) base mem p value
  = accessor_write cfg c2 be A K (8 * Z.of_nat n) base mem p value.
Proof. exact char_storage_irrelevant_writes_l. Qed.

(* casts of the write loops that are NOT necessary under GCC's modular conversion to a signed type: the inner
   static_cast<uint8_t>, and the `if (sizeof value > 1)` guard around `value >>= 8` (the operand is promoted to int
   first, so the shift is defined for uint8_t too) *)
Theorem write_uint8_cast_redundant : forall c ct mem k value,
  store_char c mem k (c_cast u8 (ct, value)) = store_char c mem k (ct, value).
Proof. exact write_uint8_cast_redundant_l. Qed.

Theorem write_shift_guard_redundant : forall ct c p nb value mem, std_cty ct -> csigned ct = false ->
  (p + nb <= length mem)%nat -> 8 * Z.of_nat nb <= cbits ct -> 0 <= value < 2 ^ cbits ct ->
  write_loop_with false ct c (fun i => (p + i)%nat) nb 0 value mem
  = write_loop_with true ct c (fun i => (p + i)%nat) nb 0 value mem /\
  write_loop_with false ct c (fun i => (p + (nb - 1 - i))%nat) nb 0 value mem
  = write_loop_with true ct c (fun i => (p + (nb - 1 - i))%nat) nb 0 value mem.
Proof. exact write_shift_guard_redundant_l. Qed.
