(* Bits/Proofs_Load.v -- MemoryAccessor loads and stores compute the container value *)
From Coq Require Import ZArith List Bool Lia ZifyBool.
Import ListNotations.
Require Import EmbossV.Bits.Model EmbossV.Bits.Proofs_Int.
Open Scope Z_scope.

Local Arguments Z.pow : simpl never.
Local Arguments Z.mul : simpl never.
Local Arguments Z.add : simpl never.
Local Arguments Z.sub : simpl never.
Local Arguments Z.div : simpl never.
Local Arguments Z.modulo : simpl never.
Local Arguments Z.of_nat : simpl never.

Lemma pow256 : forall n, 0 <= n -> 256 ^ n = 2 ^ (8 * n).
Proof. intros. change 256 with (2 ^ 8). rewrite <- Z.pow_mul_r by lia. reflexivity. Qed.

Lemma pow256_pos : forall n, 0 <= n -> 0 < 256 ^ n.
Proof. intros. apply Z.pow_pos_nonneg; lia. Qed.

Lemma pow256_S : forall n : nat, 256 ^ Z.of_nat (S n) = 256 * 256 ^ Z.of_nat n.
Proof. intros. rewrite Nat2Z.inj_succ, Z.pow_succ_r by lia. reflexivity. Qed.

(* ---------- of_le / le_bytes ---------- *)
Lemma of_le_bound : forall l, Forall byte l -> 0 <= of_le l < 256 ^ Z.of_nat (length l).
Proof.
  induction l as [|b t IH]; intros H.
  - cbn. lia.
  - inversion H as [|? ? Hb Ht]; subst. specialize (IH Ht).
    cbn [of_le length]. rewrite pow256_S. unfold byte in Hb. lia.
Qed.

Lemma of_le_app : forall a b, of_le (a ++ b) = of_le a + 256 ^ Z.of_nat (length a) * of_le b.
Proof.
  induction a as [|x a IH]; intros b.
  - cbn [app of_le length]. change (256 ^ Z.of_nat 0) with 1. lia.
  - cbn [app of_le length]. rewrite IH, pow256_S. lia.
Qed.

Lemma of_le_zeros : forall n, of_le (zeros n) = 0.
Proof. induction n as [|n IH]; cbn [zeros repeat of_le]; [reflexivity|]. unfold zeros in IH. rewrite IH. lia. Qed.

Lemma zeros_length : forall n, length (zeros n) = n.
Proof. intros. apply repeat_length. Qed.

Lemma zeros_byte : forall n, Forall byte (zeros n).
Proof. intros n. apply Forall_forall. intros x Hx. apply repeat_spec in Hx. subst. unfold byte. lia. Qed.

Lemma rev_zeros : forall n, rev (zeros n) = zeros n.
Proof.
  intros n. unfold zeros. induction n as [|n IH]; [reflexivity|].
  cbn [repeat rev]. rewrite IH. change [0] with (repeat 0 1). rewrite <- repeat_app.
  replace (n + 1)%nat with (S n) by lia. reflexivity.
Qed.

Lemma le_bytes_length : forall n v, length (le_bytes n v) = n.
Proof. induction n as [|n IH]; intros v; cbn [le_bytes length]; [reflexivity|]. rewrite IH. reflexivity. Qed.

Lemma le_bytes_byte : forall n v, Forall byte (le_bytes n v).
Proof.
  induction n as [|n IH]; intros v; cbn [le_bytes]; constructor; [|apply IH].
  unfold byte. apply Z.mod_pos_bound. lia.
Qed.

Lemma le_bytes_of_le : forall l, Forall byte l -> le_bytes (length l) (of_le l) = l.
Proof.
  induction l as [|b t IH]; intros H; [reflexivity|].
  inversion H as [|? ? Hb Ht]; subst. cbn [length le_bytes of_le]. unfold byte in Hb.
  f_equal.
  - replace (b + 256 * of_le t) with (b + of_le t * 256) by lia.
    rewrite Z.mod_add by lia. apply Z.mod_small; lia.
  - replace (b + 256 * of_le t) with (b + of_le t * 256) by lia.
    rewrite Z.div_add by lia. rewrite Z.div_small by lia. rewrite Z.add_0_l. apply IH; assumption.
Qed.

Lemma of_le_le_bytes : forall n v, of_le (le_bytes n v) = v mod 256 ^ Z.of_nat n.
Proof.
  induction n as [|n IH]; intros v.
  - cbn [le_bytes of_le]. change (256 ^ Z.of_nat 0) with 1. rewrite Z.mod_1_r. reflexivity.
  - cbn [le_bytes of_le]. rewrite IH, pow256_S.
    assert (P := pow256_pos (Z.of_nat n) ltac:(lia)).
    rewrite Z.rem_mul_r by lia. lia.
Qed.

Lemma firstn_le_bytes : forall n m v, (n <= m)%nat -> firstn n (le_bytes m v) = le_bytes n v.
Proof.
  induction n as [|n IH]; intros m v H; [reflexivity|].
  destruct m as [|m]; [lia|]. cbn [le_bytes firstn]. f_equal. apply IH. lia.
Qed.

(* ---------- bswap ---------- *)
Lemma bswap_of_le : forall cw l, Forall byte l -> Z.of_nat (length l) = cw / 8 ->
  bswap cw (of_le l) = of_le (rev l).
Proof.
  intros cw l Hb Hl. unfold bswap. rewrite <- Hl, Nat2Z.id, le_bytes_of_le by assumption. reflexivity.
Qed.

(* ---------- sizes ---------- *)
Lemma lw8_ge : forall n, 1 <= n <= 8 -> 8 * n <= lw (8 * n).
Proof. intros. apply lw_ge. lia. Qed.

Lemma sz_of_uty : forall n : nat, 1 <= Z.of_nat n <= 8 ->
  (n <= sz_of (uty (8 * Z.of_nat n)))%nat /\ Z.of_nat (sz_of (uty (8 * Z.of_nat n))) = lw (8 * Z.of_nat n) / 8.
Proof.
  intros n Hn. unfold sz_of, uty. cbn [cbits].
  assert (H := lw8_ge (Z.of_nat n) Hn).
  assert (Hs := lw_std (8 * Z.of_nat n)).
  split.
  - apply Nat2Z.inj_le. rewrite Z2Nat.id.
    + apply Z.div_le_lower_bound; lia.
    + apply Z.div_pos; [|lia]. destruct Hs as [E|[E|[E|E]]]; lia.
  - rewrite Z2Nat.id; [reflexivity|]. apply Z.div_pos; [|lia]. destruct Hs as [E|[E|[E|E]]]; lia.
Qed.

(* ---------- memcpy loads ---------- *)
Lemma load_le_memcpy_spec : forall ct bytes, load_le_memcpy ct bytes = of_le bytes.
Proof.
  intros. unfold load_le_memcpy. rewrite of_le_app, of_le_zeros. lia.
Qed.

Lemma load_be_memcpy_spec : forall bytes, Forall byte bytes ->
  1 <= Z.of_nat (length bytes) <= 8 ->
  load_be_memcpy (uty (8 * Z.of_nat (length bytes))) bytes = of_be bytes.
Proof.
  intros bytes Hb Hn. unfold load_be_memcpy, of_be.
  destruct (sz_of_uty (length bytes) Hn) as [Hle Hsz].
  set (sz := sz_of (uty (8 * Z.of_nat (length bytes)))) in *.
  rewrite bswap_of_le.
  - rewrite rev_app_distr, rev_zeros, of_le_app, of_le_zeros. lia.
  - apply Forall_app. split; [apply zeros_byte|assumption].
  - rewrite app_length, zeros_length. cbn [cbits uty]. rewrite <- Hsz. lia.
Qed.

(* ---------- memcpy stores ---------- *)
Lemma store_le_memcpy_spec : forall (n : nat) value, 1 <= Z.of_nat n <= 8 ->
  store_le_memcpy (uty (8 * Z.of_nat n)) n value = le_bytes n value.
Proof.
  intros n value Hn. unfold store_le_memcpy. apply firstn_le_bytes. apply (sz_of_uty n Hn).
Qed.

Lemma store_be_memcpy_spec : forall (n : nat) value, 1 <= Z.of_nat n <= 8 ->
  0 <= value < 2 ^ lw (8 * Z.of_nat n) ->
  store_be_memcpy (uty (8 * Z.of_nat n)) n value = rev (le_bytes n value).
Proof.
  intros n value Hn Hv. unfold store_be_memcpy.
  destruct (sz_of_uty n Hn) as [Hle Hsz].
  set (sz := sz_of (uty (8 * Z.of_nat n))) in *.
  assert (Hval : value = of_le (le_bytes sz value)).
  { rewrite of_le_le_bytes. symmetry. apply Z.mod_small.
    rewrite pow256 by lia. rewrite Hsz.
    assert (Hs := lw_std (8 * Z.of_nat n)).
    replace (8 * (lw (8 * Z.of_nat n) / 8)) with (lw (8 * Z.of_nat n)); [exact Hv|].
    destruct Hs as [E|[E|[E|E]]]; rewrite E; reflexivity. }
  rewrite Hval at 1.
  rewrite bswap_of_le.
  - rewrite <- (le_bytes_length sz value) at 2.
    rewrite <- (rev_length (le_bytes sz value)).
    rewrite le_bytes_of_le by (apply Forall_rev, le_bytes_byte).
    rewrite skipn_rev, le_bytes_length.
    replace (sz - (sz - n))%nat with n by lia.
    rewrite firstn_le_bytes by lia. reflexivity.
  - apply le_bytes_byte.
  - rewrite le_bytes_length. cbn [cbits uty]. exact Hsz.
Qed.

(* ---------- the container value ---------- *)
Lemma container_valz_bound : forall o bytes, Forall byte bytes ->
  0 <= container_valz o bytes < 2 ^ (8 * Z.of_nat (length bytes)).
Proof.
  intros o bytes Hb. rewrite <- pow256 by lia.
  destruct o; cbn [container_valz]; unfold of_be;
    try (apply of_le_bound; assumption);
    rewrite <- (rev_length bytes); apply of_le_bound; apply Forall_rev; assumption.
Qed.

Definition order_fits (o : order) (n : nat) : Prop :=
  match o with Null | NullSized => n = 1%nat | _ => True end.

Lemma container_load_opt : forall o bytes, Forall byte bytes ->
  1 <= Z.of_nat (length bytes) <= 8 -> order_fits o (length bytes) ->
  container_load true o (8 * Z.of_nat (length bytes)) bytes = Some (container_valz o bytes).
Proof.
  intros o bytes Hb Hn Hfit. unfold container_load.
  replace (Z.of_nat (length bytes) * 8 =? 8 * Z.of_nat (length bytes)) with true by lia.
  cbn [negb].
  destruct o; cbn [container_valz order_fits] in *.
  - rewrite load_le_memcpy_spec. reflexivity.
  - rewrite load_be_memcpy_spec by assumption. reflexivity.
  - rewrite Hfit. cbn. rewrite load_le_memcpy_spec. reflexivity.
  - rewrite Hfit. cbn. rewrite load_le_memcpy_spec. reflexivity.
Qed.

(* what the store leaves in memory has the stored value as its container value *)
Lemma container_store_opt : forall o bytes value,
  1 <= Z.of_nat (length bytes) <= 8 -> order_fits o (length bytes) ->
  0 <= value < 2 ^ (8 * Z.of_nat (length bytes)) ->
  exists bs', container_store true o (8 * Z.of_nat (length bytes)) bytes value = Some bs' /\
              length bs' = length bytes /\ Forall byte bs' /\ container_valz o bs' = value.
Proof.
  intros o bytes value Hn Hfit Hv.
  assert (Hlw := lw8_ge (Z.of_nat (length bytes)) Hn).
  assert (Hv' : 0 <= value < 2 ^ lw (8 * Z.of_nat (length bytes))).
  { split; [lia|]. eapply Z.lt_le_trans; [apply Hv|]. apply pow2_le. lia. }
  assert (Hmod : value mod 256 ^ Z.of_nat (length bytes) = value).
  { apply Z.mod_small. rewrite pow256 by lia. exact Hv. }
  unfold container_store.
  replace (Z.of_nat (length bytes) * 8 =? 8 * Z.of_nat (length bytes)) with true by lia.
  cbn [negb].
  destruct o; cbn [container_valz order_fits] in *.
  - rewrite store_le_memcpy_spec by assumption.
    eexists. split; [reflexivity|]. rewrite le_bytes_length. split; [reflexivity|]. split; [apply le_bytes_byte|].
    rewrite of_le_le_bytes. exact Hmod.
  - rewrite store_be_memcpy_spec by assumption.
    eexists. split; [reflexivity|]. rewrite rev_length, le_bytes_length. split; [reflexivity|].
    split; [apply Forall_rev, le_bytes_byte|].
    unfold of_be. rewrite rev_involutive, of_le_le_bytes. exact Hmod.
  - replace (8 * Z.of_nat (length bytes) =? 8) with true by lia.
    rewrite store_be_memcpy_spec by assumption.
    eexists. split; [reflexivity|]. rewrite rev_length, le_bytes_length. split; [reflexivity|].
    split; [apply Forall_rev, le_bytes_byte|].
    rewrite Hfit in *. cbn [le_bytes rev app of_le]. cbn [le_bytes rev app of_le] in Hmod.
    change (256 ^ Z.of_nat 1) with 256 in Hmod. lia.
  - replace (8 * Z.of_nat (length bytes) =? 8) with true by lia.
    rewrite store_be_memcpy_spec by assumption.
    eexists. split; [reflexivity|]. rewrite rev_length, le_bytes_length. split; [reflexivity|].
    split; [apply Forall_rev, le_bytes_byte|].
    rewrite Hfit in *. cbn [le_bytes rev app of_le]. cbn [le_bytes rev app of_le] in Hmod.
    change (256 ^ Z.of_nat 1) with 256 in Hmod. lia.
Qed.
