(* Bits/ExecAccessor.v -- executable glue for the accessor part of the C02/C03 correspondence
   (harness/accessor_x.py): case runners for Bits/Accessor.v and boolean equalities on their results. *)
From Coq Require Import ZArith List Bool.
Import ListNotations.
Require Import EmbossV.Bits.Model EmbossV.Bits.Accessor.
Open Scope Z_scope.

Definition opt_eqb {A} (e : A -> A -> bool) (x y : option A) : bool :=
  match x, y with Some a, Some b => e a b | None, None => true | _, _ => false end.
Fixpoint zlist_eqb (a b : list Z) : bool :=
  match a, b with
  | [], [] => true
  | x :: a', y :: b' => (x =? y) && zlist_eqb a' b'
  | _, _ => false
  end.

(* the micro-driver's buffer is 64-byte aligned *)
Definition micro_base : Z := 64.

(* (configuration, CharT, (A, K, kBits), index of the pointer, memory) -> (ReadLittleEndianUInt, ReadBigEndianUInt) *)
Definition acc_read_in := (config * chart * (Z * Z * Z) * nat * list Z)%type.
Definition run_acc_read (x : acc_read_in) : option Z * option Z :=
  let '(cfg, c, (A, K, kbits), p, mem) := x in
  (accessor_read cfg c false A K kbits micro_base mem p, accessor_read cfg c true A K kbits micro_base mem p).
Definition acc_read_eqb (a b : option Z * option Z) : bool :=
  opt_eqb Z.eqb (fst a) (fst b) && opt_eqb Z.eqb (snd a) (snd b).

(* ... and a value -> memory after WriteLittleEndianUInt, memory after WriteBigEndianUInt (each from the same start) *)
Definition run_acc_write (x : acc_read_in * Z) : option (list Z) * option (list Z) :=
  let '((cfg, c, (A, K, kbits), p, mem), v) := x in
  (accessor_write cfg c false A K kbits micro_base mem p v, accessor_write cfg c true A K kbits micro_base mem p v).
Definition acc_write_eqb (a b : option (list Z) * option (list Z)) : bool :=
  opt_eqb zlist_eqb (fst a) (fst b) && opt_eqb zlist_eqb (snd a) (snd b).

(* OffsetStorageType *)
Definition run_offset_storage_type (x : Z * Z * Z * Z) : option (Z * Z) :=
  let '(A, K, SA, SK) := x in offset_storage_type A K SA SK.
Definition zpair_opt_eqb (a b : option (Z * Z)) : bool :=
  opt_eqb (fun x y => (fst x =? fst y) && (snd x =? snd y)) a b.

(* A whole-container unsigned field of a generated struct, observed through a view over
   ContiguousBuffer<CharT, A, k> whose buffer starts at an address that is k modulo 16:
   the field's storage is GetOffsetStorage<0, boff>(boff, c), i.e. ContiguousBuffer<CharT, A', K'> with
   (A', K') = OffsetStorageType<0, boff>, and Read() is the checked Read{Little,Big}EndianUInt<8c>().
   Input: (configuration, CharT, big endian?, (A, k, boff, c), root buffer). *)
Definition run_view_read (x : config * chart * bool * (Z * Z * nat * nat) * list Z) : option Z :=
  let '(cfg, c, be, (A, k, boff, n), root) := x in
  match offset_storage_type A k 0 (Z.of_nat boff) with
  | Some (A', K') =>
      buffer_read cfg c true be A' K' (8 * Z.of_nat n) (micro_base + k) root boff (Nat.min n (length root - boff))
  | None => None
  end.
Definition run_view_write (x : config * chart * bool * (Z * Z * nat * nat) * list Z * Z) : option (list Z) :=
  let '(cfg, c, be, (A, k, boff, n), root, v) := x in
  match offset_storage_type A k 0 (Z.of_nat boff) with
  | Some (A', K') =>
      buffer_write cfg c true be A' K' (8 * Z.of_nat n) (micro_base + k) root boff (Nat.min n (length root - boff)) v
  | None => None
  end.

(* A field of a generated struct whose storage is backing_.GetOffsetStorage<SA, SK>(off, _) on a
   ContiguousBuffer<_, A, K> at address addr0; (SA, SK) are read from the generated header, off and the address of
   the result are printed by the driver: the type of the result, the claim about off, the claim of the result.
   Input (A, K, SA, SK, off, addr0). *)
Definition run_generated_claim (x : Z * Z * Z * Z * Z * Z) : option (Z * Z) * bool * bool :=
  let '(A, K, SA, SK, off, addr0) := x in
  let t := offset_storage_type A K SA SK in
  (t, claimb A K addr0 && sub_claimb SA SK off,
   match t with Some (a, k) => claimb a k (addr0 + off) | None => false end).
Definition generated_claim_eqb (a b : option (Z * Z) * bool * bool) : bool :=
  zpair_opt_eqb (fst (fst a)) (fst (fst b)) && Bool.eqb (snd (fst a)) (snd (fst b)) && Bool.eqb (snd a) (snd b).
