(* C14 — physical layout and attribute rules.

   Definitions only.
   * [realisable]: the rules as the language reference states them (documented
     width ranges, enum range, bits <= 64 bits of bit-oriented members, array
     element rules, explicit size = fixed size, byte order where it matters,
     attribute placement tables, reserved words), as propositions;
   * [check_layout]: a Gallina mirror of attribute_checker.normalize_and_verify
     + constraints.check_constraints on the modelled IR subset, driven by
     tables the harness REGENERATES each run: the prelude's
     static_requirements expressions (evaluated with the C05 model of
     ir_util.constant_value), the attribute type/scope tables (import +
     introspection) and the reserved-word list (from the file). *)
From Coq Require Import ZArith NArith List Bool String.
Import ListNotations.
Require Import EmbossV.Bounds.Model.
Open Scope Z_scope.

(* ---------- prelude types and their static_requirements ---------- *)
Inductive prelude := PUInt | PInt | PBcd | PFlag | PFloat.

(* In a requirement expression (EVar 0) is $static_size_in_bits and (EBVar 0)
   is $is_statically_sized; [instantiate] is the `bindings` argument of
   ir_util.constant_value. *)
Fixpoint instantiate (w : option Z) (e : expr) {struct e} : expr :=
  match e with
  | EVar O => match w with Some z => EConst z | None => EVar O end
  | EBVar O => EBool (match w with Some _ => true | None => false end)
  | ERef a => ERef (instantiate w a)
  | ECRef a => ECRef (instantiate w a)
  | EAdd a b => EAdd (instantiate w a) (instantiate w b)
  | ESub a b => ESub (instantiate w a) (instantiate w b)
  | EMul a b => EMul (instantiate w a) (instantiate w b)
  | ECmp op a b => ECmp op (instantiate w a) (instantiate w b)
  | EECmp ne a b => EECmp ne (instantiate w a) (instantiate w b)
  | EBop op a b => EBop op (instantiate w a) (instantiate w b)
  | EChoice c t f => EChoice (instantiate w c) (instantiate w t) (instantiate w f)
  | EMax args => EMax (map (instantiate w) args)
  | EUpper a => EUpper (instantiate w a)
  | ELower a => ELower (instantiate w a)
  | _ => e
  end.

Definition G_unknown : tenv := fun _ => mk_aval NegInf PosInf (Some 1) 0.

(* `requires_attr and not ir_util.constant_value(requires_attr.expression, bindings)` is an error *)
Definition req_holds (e : expr) (w : option Z) : bool :=
  match constant_value G_unknown (instantiate w e) with
  | Some (VBool true) => true
  | _ => false
  end.

Definition size_var := EVar O.
Definition static_var := EBVar O.
Definition range_req (lo hi : Z) : expr :=
  EBop BAnd static_var (EBop BAnd (ECmp CLe (EConst lo) size_var) (ECmp CLe size_var (EConst hi))).

(* what the prelude of the unchanged tree contains (the harness compares the regenerated
   translation of prelude.emb with this table on every run) *)
Definition prelude_req (p : prelude) : expr :=
  match p with
  | PUInt | PInt | PBcd => range_req 1 64
  | PFlag => EBop BAnd static_var (ECmp CEq size_var (EConst 1))
  | PFloat => EBop BAnd static_var
                (EBop BOr (ECmp CEq size_var (EConst 32)) (ECmp CEq size_var (EConst 64)))
  end.
Definition prelude_fixed (p : prelude) : option Z := match p with PFlag => Some 1 | _ => None end.

(* the documented ranges (language reference, "Builtin Types and the Prelude") *)
Definition width_ok (p : prelude) (w : Z) : Prop :=
  match p with
  | PUInt | PInt | PBcd => 1 <= w <= 64
  | PFlag => w = 1
  | PFloat => w = 32 \/ w = 64
  end.

(* ---------- attributes ---------- *)
Inductive scope := ScModule | ScStruct | ScBits | ScEnum | ScEnumValue | ScExternal | ScPhysField | ScVirtField.
Definition scope_eqb (a b : scope) : bool :=
  match a, b with
  | ScModule, ScModule | ScStruct, ScStruct | ScBits, ScBits | ScEnum, ScEnum
  | ScEnumValue, ScEnumValue | ScExternal, ScExternal | ScPhysField, ScPhysField
  | ScVirtField, ScVirtField => true
  | _, _ => false
  end.

Inductive aval :=
| AVInt (const : bool)      (* integer-typed expression; const = ir_util.is_constant *)
| AVBool (const : bool)     (* boolean-typed expression; const = type.boolean has a value *)
| AVExpr                    (* expression of another type *)
| AVString (s : string).

Record attr := mk_attr { a_name : string; a_default : bool; a_val : aval }.

Inductive vreq := QIntConst | QBoolConst | QBool | QString | QOneOf (l : list string) | QUnmodelled.

Record attr_tables := mk_tabs {
  at_types : list (string * vreq);
  at_scopes : list (scope * list (string * bool))
}.

Fixpoint assoc_str {A} (l : list (string * A)) (k : string) : option A :=
  match l with
  | [] => None
  | (k', v) :: r => if String.eqb k' k then Some v else assoc_str r k
  end.

Fixpoint assoc_scope {A} (l : list (scope * A)) (k : scope) : option A :=
  match l with
  | [] => None
  | (k', v) :: r => if scope_eqb k' k then Some v else assoc_scope r k
  end.

Definition key_eqb (a b : string * bool) : bool := String.eqb (fst a) (fst b) && Bool.eqb (snd a) (snd b).
Definition key_of (a : attr) : string * bool := (a_name a, a_default a).

Definition value_check (q : vreq) (v : aval) : bool :=
  match q, v with
  | QIntConst, AVInt true => true
  | QBoolConst, AVBool true => true
  | QBool, AVBool _ => true
  | QString, AVString _ => true
  | QOneOf l, AVString s => existsb (String.eqb s) l
  | QUnmodelled, _ => true
  | _, _ => false
  end.

(* attribute_util._check_attributes on the attributes of one back end *)
Fixpoint check_attrs_loop (T : attr_tables) (spec : list (string * bool)) (seen : list (string * bool))
                          (l : list attr) : bool :=
  match l with
  | [] => true
  | a :: r =>
      if existsb (key_eqb (key_of a)) seen then false
      else if negb (existsb (key_eqb (key_of a)) spec) then false
      else match assoc_str (at_types T) (a_name a) with
           | Some q => value_check q (a_val a) && check_attrs_loop T spec (key_of a :: seen) r
           | None => false
           end
  end.

Definition check_attrs (T : attr_tables) (sc : scope) (l : list attr) : bool :=
  match assoc_scope (at_scopes T) sc with
  | Some spec => check_attrs_loop T spec [] l
  | None => match l with [] => true | _ => false end
  end.

(* declarative: each (name, $default?) at most once, allowed in this scope, value of the
   documented kind *)
Definition attr_allowed (T : attr_tables) (spec : list (string * bool)) (a : attr) : Prop :=
  In (key_of a) spec /\
  exists q, assoc_str (at_types T) (a_name a) = Some q /\ value_check q (a_val a) = true.

Definition attrs_ok (T : attr_tables) (sc : scope) (l : list attr) : Prop :=
  match assoc_scope (at_scopes T) sc with
  | Some spec => NoDup (map key_of l) /\ Forall (attr_allowed T spec) l
  | None => l = []
  end.

(* ---------- the IR subset ---------- *)
(* RExt: a user-defined `external` type (the prelude's externals are RPre) *)
Inductive tref := RPre (p : prelude) | REnum (i : nat) | RStruct (i : nat) | RExt (i : nat).
Inductive alen := LConst (n : Z) | LDynamic | LAuto.
(* t_dims: array dimensions in source order (innermost first, outermost last) *)
Record ftype := mk_ftype { t_ref : tref; t_bits : option Z; t_dims : list alen }.
Inductive border := BLittle | BBig | BNull.

Record field := mk_field {
  f_name : string;
  f_virtual : bool;
  f_start : option Z;             (* ir_util.constant_value of location.start *)
  f_size : option Z;              (* ir_util.constant_value of location.size *)
  f_smin : Z; f_smax : Z;         (* bounds the front end inferred for location.size *)
  f_type : ftype;
  f_border : option border;       (* explicit [byte_order] on the field *)
  f_attrs : list attr
}.

Record enum_def := mk_enum {
  e_name : string;
  e_maxbits : option Z;           (* explicit [maximum_bits] *)
  e_signed : option bool;         (* explicit [is_signed] *)
  e_values : list (string * Z);
  e_attrs : list attr;
  e_value_attrs : list (list attr)
}.

Record struct_def := mk_struct {
  s_name : string;
  s_anon : bool;
  s_unit : Z;                     (* 8 = struct, 1 = bits *)
  s_defaults : list (option border);  (* $default byte_order of the enclosing scopes, outermost first, own last *)
  s_fixed_attr : option Z;        (* explicit [fixed_size_in_bits] *)
  s_fields : list field;
  s_attrs : list attr;
  s_params : list (tref * option Z)   (* runtime parameters: type and explicit :N *)
}.

(* a user-defined `external`: what its attributes say, as attribute_checker / constraints read them
   (ir_util.get_integer_attribute / get_attribute of the unqualified, non-default attribute) *)
Record ext_def := mk_extdef {
  xd_name : string;
  xd_unit : option Z;             (* [addressable_unit_size] *)
  xd_fixed : option Z;            (* [fixed_size_in_bits] *)
  xd_req : option expr;           (* [static_requirements]: (EVar 0) = $static_size_in_bits, (EBVar 0) = $is_statically_sized *)
  xd_attrs : list attr
}.

(* Attributes qualified with a back end ([(cpp) ...], [(xyz) ...]) are not front-end attributes:
   they never appear in the attr lists above (they cannot change byte order, enum width/sign or
   fixed size); the front end only requires their qualifier to be declared. *)
Record module := mk_module {
  m_attrs : list attr;
  m_enums : list enum_def;
  m_structs : list struct_def;
  m_expected_back_ends : list string;   (* [expected_back_ends], default "cpp" *)
  m_used_back_ends : list string;       (* qualifiers occurring on attributes anywhere in the module *)
  m_externals : list ext_def            (* user-defined externals of every module of the IR *)
}.

Record tables := mk_tables {
  t_attr : attr_tables;
  t_reserved : list string;
  t_req : prelude -> expr
}.

(* ---------- sizes ---------- *)
(* attribute_checker._fixed_size_of_struct_or_bits *)
Fixpoint fixed_size_loop (fs : list field) (size : Z) : option Z :=
  match fs with
  | [] => Some size
  | f :: r =>
      if f_virtual f then fixed_size_loop r size
      else match f_start f, f_size f with
           | Some a, Some b =>
               let e := a + b in fixed_size_loop r (if e >=? size then e else size)
           | _, _ => None
           end
  end.

Definition struct_fixed_size (s : struct_def) : option Z :=
  option_map (fun x => x * s_unit s) (fixed_size_loop (s_fields s) 0).

Definition nth_struct (M : module) (i : nat) : option struct_def := nth_error (m_structs M) i.
Definition nth_enum (M : module) (i : nat) : option enum_def := nth_error (m_enums M) i.
Definition nth_ext (M : module) (i : nat) : option ext_def := nth_error (m_externals M) i.

(* attribute_checker._add_addressable_unit_to_external: BIT for 1, BYTE for 8, otherwise the
   TypeDefinition keeps AddressableUnit.NONE (= 0) *)
Definition ext_unit (x : ext_def) : Z :=
  match xd_unit x with
  | Some 1 => 1
  | Some 8 => 8
  | _ => 0
  end.

(* the [fixed_size_in_bits] attribute of the referenced type definition after normalisation *)
Definition type_fixed_attr (M : module) (r : tref) : option Z :=
  match r with
  | RPre p => prelude_fixed p
  | REnum _ => None
  | RStruct i => match nth_struct M i with Some s => struct_fixed_size s | None => None end
  | RExt i => match nth_ext M i with Some x => xd_fixed x | None => None end
  end.

Definition unit_of_ref (M : module) (r : tref) : Z :=
  match r with
  | RStruct i => match nth_struct M i with Some s => s_unit s | None => 8 end
  | RExt i => match nth_ext M i with Some x => ext_unit x | None => 1 end
  | _ => 1
  end.

(* size of the innermost element: explicit :N, else the type's fixed size *)
Definition elem_size (M : module) (t : ftype) : option Z :=
  match t_bits t with Some b => Some b | None => type_fixed_attr M (t_ref t) end.

Definition enum_maxbits (e : enum_def) : Z := match e_maxbits e with Some b => b | None => 64 end.
Definition enum_is_signed (e : enum_def) : bool :=
  match e_signed e with Some b => b | None => existsb (fun nv => snd nv <? 0) (e_values e) end.

(* ---------- byte order ---------- *)
Fixpoint last_some {A} (l : list (option A)) (acc : option A) : option A :=
  match l with
  | [] => acc
  | Some x :: r => last_some r (Some x)
  | None :: r => last_some r acc
  end.

(* the `defaults` dictionary as the traversal reaches the fields of s *)
Definition inherited_border (s : struct_def) : option border := last_some (s_defaults s) None.

Definition needs_border (M : module) (s : struct_def) (f : field) : bool :=
  negb (f_virtual f) && negb (unit_of_ref M (t_ref (f_type f)) =? s_unit s).

Definition may_be_null (M : module) (s : struct_def) (f : field) : bool :=
  (match f_size f with Some 1 => true | _ => false end)
  || (match elem_size M (f_type f) with Some z => z =? s_unit s | None => false end).

(* _add_missing_byte_order_attribute_on_field *)
Definition effective_border (M : module) (s : struct_def) (f : field) : option border :=
  match f_border f with
  | Some b => Some b
  | None =>
      if needs_border M s f then
        match inherited_border s with
        | Some b => Some b
        | None => if may_be_null M s f then Some BNull else None
        end
      else None
  end.

Definition is_null (b : option border) : bool := match b with Some BNull => true | _ => false end.
Definition is_some {A} (o : option A) : bool := match o with Some _ => true | None => false end.

(* _verify_byte_order_attribute_on_field *)
Definition check_border (M : module) (s : struct_def) (f : field) : bool :=
  let b := effective_border M s f in
  let need := needs_border M s f in
  negb (is_some b && negb need)
  && negb (negb (is_some b) && need)
  && negb (is_null b && negb (may_be_null M s f)).

(* ---------- constraints on one physical field ---------- *)
Definition all_but_last_const (d : list alen) : bool :=
  forallb (fun a => match a with LConst _ => true | _ => false end) (removelast d).

(* _check_physical_type_requirements *)
Definition phys_req (T : tables) (M : module) (r : tref) (size : option Z) : bool :=
  match r with
  | RPre p => req_holds (t_req T p) size
  | REnum i =>
      match nth_enum M i, size with
      | Some e, Some w => (1 <=? w) && (w <=? enum_maxbits e)
      | _, _ => false
      end
  | RStruct _ => true
  | RExt i =>
      (* `requires_attr and not constant_value(...)`: no [static_requirements], no requirement *)
      match nth_ext M i with
      | Some x => match xd_req x with Some e => req_holds e size | None => true end
      | None => true
      end
  end.

(* _check_type_requirements_for_field on the innermost atomic type of f *)
Definition check_type_req (T : tables) (M : module) (s : struct_def) (f : field) : bool :=
  let t := f_type f in
  let atomic := match t_dims t with [] => true | _ => false end in
  let fmin := f_smin f * s_unit s in
  let fmax := f_smax f * s_unit s in
  let tsize := type_fixed_attr M (t_ref t) in
  let anon := match t_ref t with
              | RStruct i => match nth_struct M i with Some s' => s_anon s' | None => false end
              | _ => false
              end in
  match t_bits t, tsize with
  | Some a, Some b => if negb (a =? b) then false else
      (* sizes agree: continue with a *)
      (if atomic then
         (if (fmax =? fmin) && ((a >? fmax) || ((a <? fmin) && negb anon)) then false
          else if a >? fmax then false else phys_req T M (t_ref t) (Some a))
       else phys_req T M (t_ref t) (Some a))
  | _, _ =>
      let es := elem_size M t in
      match es with
      | Some a =>
          if atomic then
            (if (fmax =? fmin) && ((a >? fmax) || ((a <? fmin) && negb anon)) then false
             else if a >? fmax then false else phys_req T M (t_ref t) (Some a))
          else phys_req T M (t_ref t) (Some a)
      | None =>
          if atomic && (fmin =? fmax) then phys_req T M (t_ref t) (Some fmin)
          else phys_req T M (t_ref t) None
      end
  end.

Definition check_field (T : tables) (M : module) (s : struct_def) (f : field) : bool :=
  if f_virtual f then true else
  let t := f_type f in
  (* _check_allowed_in_bits *)
  (s_unit s mod unit_of_ref M (t_ref t) =? 0)
  (* _check_that_array_base_types_are_fixed_size *)
  && (match t_dims t with [] => true | _ => is_some (elem_size M t) end)
  (* _check_that_array_base_types_in_structs_are_multiples_of_bytes *)
  && (match t_dims t, elem_size M t with
      | _ :: _, Some z => z mod s_unit s =? 0
      | _, _ => true
      end)
  (* _check_that_inner_array_dimensions_are_constant *)
  && all_but_last_const (t_dims t)
  && check_type_req T M s f
  && check_border M s f.

(* ---------- enums ---------- *)
Definition enum_range (e : enum_def) : Z * Z :=
  let b := enum_maxbits e in
  if enum_is_signed e then (- 2 ^ (b - 1), 2 ^ (b - 1) - 1) else (0, 2 ^ b - 1).

Definition check_enum (e : enum_def) : bool :=
  (1 <=? enum_maxbits e) && (enum_maxbits e <=? 64)
  && forallb (fun nv => (fst (enum_range e) <=? snd nv) && (snd nv <=? snd (enum_range e))) (e_values e).

(* ---------- structures ---------- *)
Definition check_struct_size (s : struct_def) : bool :=
  (match s_fixed_attr s with
   | Some a => match struct_fixed_size s with Some z => a =? z | None => false end
   | None => true
   end)
  && (if s_unit s =? 1 then
        match struct_fixed_size s with Some z => z <=? 64 | None => false end
      else true).

Definition reserved (T : tables) (n : string) : bool := existsb (String.eqb n) (t_reserved T).

Definition check_names (T : tables) (M : module) : bool :=
  forallb (fun e => negb (reserved T (e_name e))
                    && forallb (fun nv => negb (reserved T (fst nv))) (e_values e)) (m_enums M)
  && forallb (fun s => negb (reserved T (s_name s))
                       && forallb (fun f => negb (reserved T (f_name f))) (s_fields s)) (m_structs M)
  && forallb (fun x => negb (reserved T (xd_name x))) (m_externals M).

Definition struct_scope (s : struct_def) : scope := if s_unit s =? 1 then ScBits else ScStruct.
Definition field_scope (f : field) : scope := if f_virtual f then ScVirtField else ScPhysField.

Definition check_all_attrs (T : tables) (M : module) : bool :=
  check_attrs (t_attr T) ScModule (m_attrs M)
  && forallb (fun e => check_attrs (t_attr T) ScEnum (e_attrs e)
                       && forallb (check_attrs (t_attr T) ScEnumValue) (e_value_attrs e)) (m_enums M)
  && forallb (fun s => check_attrs (t_attr T) (struct_scope s) (s_attrs s)
                       && forallb (fun f => check_attrs (t_attr T) (field_scope f) (f_attrs f)) (s_fields s))
             (m_structs M)
  && forallb (fun x => check_attrs (t_attr T) ScExternal (xd_attrs x)) (m_externals M).

(* _check_type_requirements_for_parameter_type (integer parameters) *)
Definition check_param (T : tables) (M : module) (p : tref * option Z) : bool :=
  match fst p with
  | RPre _ => phys_req T M (fst p) (snd p)
  | _ => true
  end.

(* _verify_back_end_attributes *)
Definition check_back_ends (M : module) : bool :=
  forallb (fun b => existsb (String.eqb b) (m_expected_back_ends M)) (m_used_back_ends M).

(* _verify_addressable_unit_attribute_on_external *)
Definition check_external (x : ext_def) : bool :=
  match xd_unit x with
  | Some u => (u =? 1) || (u =? 8)
  | None => false
  end.

Definition check_layout (T : tables) (M : module) : bool :=
  check_all_attrs T M
  && forallb check_external (m_externals M)
  && check_back_ends M
  && forallb check_enum (m_enums M)
  && forallb (fun s => check_struct_size s && forallb (check_field T M s) (s_fields s)
                       && forallb (check_param T M) (s_params s)) (m_structs M)
  && check_names T M.

(* ---------- the documented rules, as propositions ---------- *)
(* m is the size of the structure in its own units: the largest end of a physical field *)
Definition is_max_end (fs : list field) (m : Z) : Prop :=
  (forall f a b, In f fs -> f_virtual f = false -> f_start f = Some a -> f_size f = Some b -> a + b <= m)
  /\ (m = 0 \/ exists f a b, In f fs /\ f_virtual f = false /\ f_start f = Some a /\ f_size f = Some b /\ a + b = m)
  /\ 0 <= m.

Definition all_constant (fs : list field) : Prop :=
  forall f, In f fs -> f_virtual f = false -> exists a b, f_start f = Some a /\ f_size f = Some b.

Definition has_fixed_size (s : struct_def) (bits : Z) : Prop :=
  all_constant (s_fields s) /\ exists m, is_max_end (s_fields s) m /\ bits = m * s_unit s.

(* nearest enclosing $default byte_order *)
Inductive nearest_default : list (option border) -> option border -> Prop :=
| ND_nil : nearest_default [] None
| ND_here l b : nearest_default (l ++ [Some b]) (Some b)
| ND_up l r : nearest_default l r -> nearest_default (l ++ [None]) r.

Definition in_enum_range (e : enum_def) (v : Z) : Prop :=
  let b := enum_maxbits e in
  if enum_is_signed e then - 2 ^ (b - 1) <= v <= 2 ^ (b - 1) - 1 else 0 <= v <= 2 ^ b - 1.

Definition real_enum (e : enum_def) : Prop :=
  1 <= enum_maxbits e <= 64 /\ forall n v, In (n, v) (e_values e) -> in_enum_range e v.

Definition real_struct_size (s : struct_def) : Prop :=
  (forall a, s_fixed_attr s = Some a -> has_fixed_size s a)
  /\ (s_unit s = 1 -> exists z, has_fixed_size s z /\ z <= 64).

(* the width a scalar or enum field is read with, when it is static *)
Definition real_width (M : module) (r : tref) (size : option Z) : Prop :=
  match r with
  | RPre p => exists w, size = Some w /\ width_ok p w
  | REnum i => exists e w, nth_enum M i = Some e /\ size = Some w /\ 1 <= w <= enum_maxbits e
  | RStruct _ => True
  | RExt i =>
      (* the external's [static_requirements], with $static_size_in_bits / $is_statically_sized bound
         to the size the field gives the type, is the constant true (ir_util.constant_value; C05) *)
      forall x e, nth_ext M i = Some x -> xd_req x = Some e -> req_holds e size = true
  end.

Definition fits_field (s : struct_def) (f : field) (a : Z) (anon : bool) : Prop :=
  let fmin := f_smin f * s_unit s in
  let fmax := f_smax f * s_unit s in
  a <= fmax /\ (fmax = fmin -> anon = false -> a = fmax).

Definition real_type_req (T : tables) (M : module) (s : struct_def) (f : field) : Prop :=
  let t := f_type f in
  let anon := match t_ref t with
              | RStruct i => match nth_struct M i with Some s' => s_anon s' | None => false end
              | _ => false
              end in
  (forall a b, t_bits t = Some a -> type_fixed_attr M (t_ref t) = Some b -> a = b) /\
  match elem_size M t with
  | Some a => (t_dims t = [] -> fits_field s f a anon) /\ real_width M (t_ref t) (Some a)
  | None =>
      if (match t_dims t with [] => true | _ => false end) && (f_smin f * s_unit s =? f_smax f * s_unit s)
      then real_width M (t_ref t) (Some (f_smin f * s_unit s))
      else real_width M (t_ref t) None
  end.

(* the byte order a field ends up with: its own attribute, else the nearest enclosing
   $default, else Null when the field is one unit wide *)
Inductive effective_spec (M : module) (s : struct_def) (f : field) : option border -> Prop :=
| ES_own b : f_border f = Some b -> effective_spec M s f (Some b)
| ES_unneeded : f_border f = None -> needs_border M s f = false -> effective_spec M s f None
| ES_default d : f_border f = None -> needs_border M s f = true ->
                 nearest_default (s_defaults s) (Some d) -> effective_spec M s f (Some d)
| ES_null : f_border f = None -> needs_border M s f = true ->
            nearest_default (s_defaults s) None -> may_be_null M s f = true ->
            effective_spec M s f (Some BNull)
| ES_missing : f_border f = None -> needs_border M s f = true ->
               nearest_default (s_defaults s) None -> may_be_null M s f = false ->
               effective_spec M s f None.

(* byte order present iff it matters; Null only for one-unit fields *)
Definition real_border (M : module) (s : struct_def) (f : field) : Prop :=
  exists eff, effective_spec M s f eff
              /\ (eff <> None <-> needs_border M s f = true)
              /\ (eff = Some BNull -> may_be_null M s f = true).

Definition real_field (T : tables) (M : module) (s : struct_def) (f : field) : Prop :=
  f_virtual f = false ->
  let t := f_type f in
  (* bits contain only bit-oriented members *)
  (s_unit s = 1 -> unit_of_ref M (t_ref t) = 1)
  (* array elements have a fixed size, a whole number of bytes in a struct *)
  /\ (t_dims t <> [] -> exists z, elem_size M t = Some z /\ (s_unit s | z))
  (* only the outermost dimension may be omitted or dynamic *)
  /\ Forall (fun a => exists n, a = LConst n) (removelast (t_dims t))
  /\ real_type_req T M s f
  /\ real_border M s f.

Definition real_names (T : tables) (M : module) : Prop :=
  (forall e, In e (m_enums M) -> ~ In (e_name e) (t_reserved T) /\
                                 forall n v, In (n, v) (e_values e) -> ~ In n (t_reserved T))
  /\ (forall s, In s (m_structs M) -> ~ In (s_name s) (t_reserved T) /\
                                     forall f, In f (s_fields s) -> ~ In (f_name f) (t_reserved T))
  /\ (forall x, In x (m_externals M) -> ~ In (xd_name x) (t_reserved T)).

Definition real_attrs (T : tables) (M : module) : Prop :=
  attrs_ok (t_attr T) ScModule (m_attrs M)
  /\ (forall e, In e (m_enums M) -> attrs_ok (t_attr T) ScEnum (e_attrs e)
                                   /\ Forall (attrs_ok (t_attr T) ScEnumValue) (e_value_attrs e))
  /\ (forall s, In s (m_structs M) -> attrs_ok (t_attr T) (struct_scope s) (s_attrs s)
                                     /\ forall f, In f (s_fields s) -> attrs_ok (t_attr T) (field_scope f) (f_attrs f))
  /\ (forall x, In x (m_externals M) -> attrs_ok (t_attr T) ScExternal (xd_attrs x)).

Definition units_ok (M : module) : Prop := forall s, In s (m_structs M) -> s_unit s = 1 \/ s_unit s = 8.

Definition real_param (M : module) (p : tref * option Z) : Prop :=
  match fst p with
  | RPre _ => real_width M (fst p) (snd p)
  | _ => True
  end.

Definition real_back_ends (M : module) : Prop :=
  forall b, In b (m_used_back_ends M) -> In b (m_expected_back_ends M).

(* an external states its addressable unit: 1 (bit) or 8 (byte) *)
Definition real_external (x : ext_def) : Prop := xd_unit x = Some 1 \/ xd_unit x = Some 8.

Definition realisable (T : tables) (M : module) : Prop :=
  real_attrs T M
  /\ (forall x, In x (m_externals M) -> real_external x)
  /\ real_back_ends M
  /\ (forall e, In e (m_enums M) -> real_enum e)
  /\ (forall s, In s (m_structs M) ->
        real_struct_size s /\ (forall f, In f (s_fields s) -> real_field T M s f)
        /\ (forall p, In p (s_params s) -> real_param M p))
  /\ real_names T M.
