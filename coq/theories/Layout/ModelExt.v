(* C14 — extension of the layout model.  Definitions only.

   1. the (cpp) back-end attribute rules of back_end/cpp/header_generator.py
      (_propagate_defaults_and_verify_attributes): the attribute table of
      back_end/cpp/attributes.py (types + Scope, regenerated each run) applied to every
      attribute-bearing IR node of every module, and the string-level validators
      _verify_namespace_attribute (regex _NS_RE, reserved C++ words) and
      _verify_enum_case_attribute (_split_enum_case_values_into_spans);
   2. front-end rules that Model.check_layout does not carry:
      attribute_checker._verify_requires_attribute_on_field,
      constraints._check_early_type_requirements_for_parameter_type,
      constraints._check_bounds_on_runtime_integer_expressions (the 64-bit gate),
      and the module-level attribute / back-end checks of IMPORTED modules (the type
      tables m_enums / m_structs of the base module span all modules of the IR).

   [realisable_x] states the same rules from the documentation
   (doc/language-reference.md: "(cpp) namespace", "(cpp) enum_case", "requires", runtime arguments of structures;
   the 64-bit limit of run-time integer expressions is not stated in the language reference:
   [gate_ok] follows the compiler's diagnostics "must fit in a 64-bit signed or unsigned integer"
   and "Either all arguments ... must fit in a 64-bit unsigned integer, or all ... signed"). *)
From Coq Require Import ZArith NArith List Bool String Ascii.
Import ListNotations.
Require Import EmbossV.Bounds.Model EmbossV.Layout.Model.
Open Scope Z_scope.

(* ====================================================================== *)
(* 1. strings                                                             *)
(* ====================================================================== *)
Definition code (c : ascii) : N := N_of_ascii c.
Definition in_range (lo hi : N) (c : ascii) : bool := (N.leb lo (code c)) && (N.leb (code c) hi).

(* Python's \s / str.isspace() on the ASCII range: \t \n \v \f \r, \x1c..\x1f, space *)
Definition is_space (c : ascii) : bool := in_range 9 13 c || in_range 28 32 c.
Definition is_colon (c : ascii) : bool := N.eqb (code c) 58.
Definition is_comma (c : ascii) : bool := N.eqb (code c) 44.
(* [a-zA-Z_] and [a-zA-Z0-9_] *)
Definition id_start (c : ascii) : bool := in_range 97 122 c || in_range 65 90 c || N.eqb (code c) 95.
Definition id_char (c : ascii) : bool := id_start c || in_range 48 57 c.

Definition chars := list ascii.
Definition cc : chars := [":"%char; ":"%char].

Fixpoint skip_ws (l : chars) : chars :=
  match l with
  | c :: r => if is_space c then skip_ws r else l
  | [] => []
  end.

Fixpoint span_id (l : chars) : chars * chars :=
  match l with
  | c :: r => if id_char c then (c :: fst (span_id r), snd (span_id r)) else ([], l)
  | [] => ([], [])
  end.

Definition strip_cc (l : chars) : option chars :=
  match l with
  | c1 :: c2 :: r => if is_colon c1 && is_colon c2 then Some r else None
  | _ => None
  end.

(* ws* IDENT ws* ( "::" ws* IDENT ws* )*  up to the end of the string *)
Fixpoint comps (fuel : nat) (l : chars) : option (list chars) :=
  match fuel with
  | O => None
  | S n =>
      match skip_ws l with
      | [] => None
      | c :: r0 =>
          if id_start c then
            let id := fst (span_id (c :: r0)) in
            match skip_ws (snd (span_id (c :: r0))) with
            | [] => Some [id]
            | r1 => match strip_cc r1 with
                    | Some r2 => option_map (cons id) (comps n r2)
                    | None => None
                    end
            end
          else None
      end
  end.

(* re.fullmatch(_NS_RE, s) together with _get_namespace_components(s) *)
Definition parse_ns (l : chars) : option (list chars) :=
  match strip_cc (skip_ws l) with
  | Some r => comps (S (List.length r)) r
  | None => comps (S (List.length l)) l
  end.

Definition str_in (l : list string) (s : string) : bool := existsb (String.eqb s) l.

Definition namespace_okb (reserved_cpp : list string) (s : string) : bool :=
  match parse_ns (list_ascii_of_string s) with
  | Some ids => forallb (fun id => negb (str_in reserved_cpp (string_of_list_ascii id))) ids
  | None => false
  end.

(* the error the back end reports *)
Inductive ns_class := NsOk | NsEmpty | NsGlobal | NsInvalid | NsReserved.
Definition ns_classify (reserved_cpp : list string) (s : string) : ns_class :=
  let l := list_ascii_of_string s in
  match parse_ns l with
  | Some ids => if forallb (fun id => negb (str_in reserved_cpp (string_of_list_ascii id))) ids then NsOk else NsReserved
  | None =>
      match skip_ws l with
      | [] => NsEmpty
      | r => match strip_cc r with
             | Some r2 => match skip_ws r2 with [] => NsGlobal | _ => NsInvalid end
             | None => NsInvalid
             end
      end
  end.

(* --- declarative: a ::-separated non-empty list of C++ identifiers, optional leading ::,
       whitespace allowed around every identifier, no identifier reserved --- *)
Definition all_ws (l : chars) : Prop := Forall (fun c => is_space c = true) l.
Definition is_ident (l : chars) : Prop :=
  exists c r, l = c :: r /\ id_start c = true /\ Forall (fun c => id_char c = true) r.

Inductive ns_body : chars -> list chars -> Prop :=
| NB_last pre id post : all_ws pre -> is_ident id -> all_ws post -> ns_body (pre ++ id ++ post) [id]
| NB_more pre id post rest ids :
    all_ws pre -> is_ident id -> all_ws post -> ns_body rest ids ->
    ns_body (pre ++ id ++ post ++ cc ++ rest) (id :: ids).

Definition ns_shape (l : chars) (ids : list chars) : Prop :=
  exists w lead body, all_ws w /\ (lead = [] \/ lead = cc) /\ ns_body body ids /\ l = w ++ lead ++ body.

Definition namespace_ok (reserved_cpp : list string) (s : string) : Prop :=
  exists ids, ns_shape (list_ascii_of_string s) ids
              /\ Forall (fun id => ~ In (string_of_list_ascii id) reserved_cpp) ids.

(* ---------- enum_case ---------- *)
(* str.split(',') : never empty *)
Fixpoint split_comma (l : chars) : list chars :=
  match l with
  | [] => [[]]
  | c :: r =>
      if is_comma c then [] :: split_comma r
      else match split_comma r with
           | p :: ps => (c :: p) :: ps
           | [] => [[c]]
           end
  end.

Definition is_nil {A} (l : list A) : bool := match l with [] => true | _ => false end.

Definition drop_trailing_ws (l : chars) : chars :=
  fold_right (fun c acc => if is_space c && is_nil acc then [] else c :: acc) [] l.

Definition trim (l : chars) : chars := drop_trailing_ws (skip_ws l).

(* _split_enum_case_values: the trimmed pieces; no piece for a trailing comma *)
Definition case_pieces (l : chars) : list chars :=
  let ps := map trim (split_comma l) in
  match ps with
  | _ :: _ :: _ => if is_nil (last ps []) then removelast ps else ps
  | _ => ps
  end.

Definition chars_eqb (a b : chars) : bool := String.eqb (string_of_list_ascii a) (string_of_list_ascii b).

Fixpoint nodupb (l : list chars) : bool :=
  match l with
  | [] => true
  | x :: r => negb (existsb (chars_eqb x) r) && nodupb r
  end.

Definition enum_cases (s : string) : list string :=
  map string_of_list_ascii (case_pieces (list_ascii_of_string s)).

Definition enum_case_okb (supported : list string) (s : string) : bool :=
  let cs := case_pieces (list_ascii_of_string s) in
  forallb (fun c => negb (is_nil c)) cs && nodupb cs
  && forallb (fun c => str_in supported (string_of_list_ascii c)) cs.

(* --- declarative: comma-separated list of case names, each padded with whitespace, an
       optional trailing comma (followed by whitespace only); names non-empty, distinct,
       supported --- *)
Definition no_comma (l : chars) : Prop := Forall (fun c => is_comma c = false) l.
Definition trimmed (t : chars) : Prop :=
  (forall c r, t = c :: r -> is_space c = false) /\ (forall r c, t = r ++ [c] -> is_space c = false).
Definition padded (t piece : chars) : Prop :=
  exists a b, all_ws a /\ all_ws b /\ piece = a ++ t ++ b.

Fixpoint join_comma (ps : list chars) : chars :=
  match ps with
  | [] => []
  | [p] => p
  | p :: r => p ++ ","%char :: join_comma r
  end.

Definition case_shape (l : chars) (cs : list chars) : Prop :=
  cs <> [] /\ Forall (fun t => t <> [] /\ no_comma t /\ trimmed t) cs /\
  exists pieces, Forall2 padded cs pieces /\
    (l = join_comma pieces \/ exists w, all_ws w /\ l = join_comma pieces ++ ","%char :: w).

Definition enum_case_ok (supported : list string) (s : string) : Prop :=
  exists cs, case_shape (list_ascii_of_string s) cs /\ NoDup cs
             /\ Forall (fun c => In (string_of_list_ascii c) supported) cs.

(* ====================================================================== *)
(* 2. (cpp) attributes                                                    *)
(* ====================================================================== *)
Record cpp_tables := mk_ctabs {
  ct_attr : attr_tables;            (* attributes.TYPES / attributes.Scope *)
  ct_reserved : list string;        (* _CPP_RESERVED_WORDS *)
  ct_cases : list string            (* _SUPPORTED_ENUM_CASES *)
}.

Open Scope string_scope.
Definition cpp_value_okb (C : cpp_tables) (a : attr) : bool :=
  match a_val a with
  | AVString s =>
      if String.eqb (a_name a) "namespace" then namespace_okb (ct_reserved C) s
      else if String.eqb (a_name a) "enum_case" then enum_case_okb (ct_cases C) s
      else true
  | _ => true
  end.

Definition cpp_value_ok (C : cpp_tables) (a : attr) : Prop :=
  forall s, a_val a = AVString s ->
    (a_name a = "namespace" -> namespace_ok (ct_reserved C) s)
    /\ (a_name a = "enum_case" -> enum_case_ok (ct_cases C) s).
Close Scope string_scope.

(* one entry per attribute-bearing IR node (module, struct, bits, enum, enum value, external,
   physical / virtual field) of every module of the IR: its scope and its (cpp)-qualified attributes *)
Definition cpp_nodes := list (scope * list attr).

Definition check_cpp (C : cpp_tables) (nodes : cpp_nodes) : bool :=
  forallb (fun n => check_attrs (ct_attr C) (fst n) (snd n) && forallb (cpp_value_okb C) (snd n)) nodes.

Definition real_cpp (C : cpp_tables) (nodes : cpp_nodes) : Prop :=
  forall n, In n nodes -> attrs_ok (ct_attr C) (fst n) (snd n) /\ Forall (cpp_value_ok C) (snd n).

(* ====================================================================== *)
(* 3. further front-end rules                                             *)
(* ====================================================================== *)
(* value kind of a field: type_check.unbounded_expression_type_for_physical_type / read_transform.type *)
Inductive vkind := VkInt | VkBool | VkEnum | VkOpaque.
(* a field that carries an (unqualified, non-default) [requires] *)
Record req_site := mk_req { rs_array : bool; rs_kind : vkind }.

Definition check_req_site (r : req_site) : bool :=
  negb (rs_array r) && match rs_kind r with VkOpaque => false | _ => true end.
Definition real_req_site (r : req_site) : Prop :=
  rs_array r = false /\ (rs_kind r = VkInt \/ rs_kind r = VkBool \/ rs_kind r = VkEnum).

(* parameters: integers need an explicit width, enums must not have one *)
Definition check_param_early (p : tref * option Z) : bool :=
  match fst p, snd p with
  | REnum _, Some _ => false
  | RPre _, None => false
  | _, _ => true
  end.
Definition real_param_early (p : tref * option Z) : Prop :=
  (forall i, fst p = REnum i -> snd p = None) /\ (forall q, fst p = RPre q -> snd p <> None).

(* the 64-bit gate: one tree per top-level expression; a node = (non-constant function?,
   integer bounds if the node is integer-typed, arguments) *)
Inductive btree := BT (fn : bool) (ib : option (ext * ext)) (args : list btree).

Definition fits_u (lo hi : Z) : bool := (0 <=? lo) && (hi <=? 2 ^ 64 - 1).
Definition fits_i (lo hi : Z) : bool := (- 2 ^ 63 <=? lo) && (hi <=? 2 ^ 63 - 1).

(* _integer_bounds_errors *)
Definition own_ok (ib : option (ext * ext)) : bool :=
  match ib with
  | None => true
  | Some (Fin lo, Fin hi) => fits_u lo hi || fits_i lo hi
  | Some _ => false
  end.
Definition needs_unsigned (ib : option (ext * ext)) : bool :=
  match ib with Some (Fin lo, Fin hi) => negb (fits_i lo hi) | _ => false end.
Definition needs_signed (ib : option (ext * ext)) : bool :=
  match ib with Some (Fin lo, Fin hi) => fits_i lo hi && negb (fits_u lo hi) | _ => false end.
Definition bt_ib (t : btree) : option (ext * ext) := match t with BT _ ib _ => ib end.

(* _integer_bounds_errors_for_expression returns [] *)
Fixpoint gate64 (t : btree) : bool :=
  match t with
  | BT fn ib args =>
      if fn then
        forallb gate64 args && own_ok ib
        && negb (existsb needs_unsigned (ib :: map bt_ib args) && existsb needs_signed (ib :: map bt_ib args))
      else own_ok ib
  end.

Definition fits64 (ib : option (ext * ext)) : Prop :=
  forall a b, ib = Some (a, b) ->
    exists lo hi, a = Fin lo /\ b = Fin hi /\
      ((0 <= lo /\ hi <= 2 ^ 64 - 1) \/ (- 2 ^ 63 <= lo /\ hi <= 2 ^ 63 - 1)).
(* the value range of clause ib lies in uint64 only / in int64 only *)
Definition only_unsigned (ib : option (ext * ext)) : Prop :=
  exists lo hi, ib = Some (Fin lo, Fin hi) /\ ~ (- 2 ^ 63 <= lo /\ hi <= 2 ^ 63 - 1).
Definition only_signed (ib : option (ext * ext)) : Prop :=
  exists lo hi, ib = Some (Fin lo, Fin hi) /\ (- 2 ^ 63 <= lo /\ hi <= 2 ^ 63 - 1) /\ ~ (0 <= lo /\ hi <= 2 ^ 64 - 1).

(* every integer (sub)expression that is computed at run time fits one 64-bit type, and an
   operation never mixes an operand/result that needs uint64 with one that needs int64 *)
Inductive gate_ok : btree -> Prop :=
| GO_leaf ib args : fits64 ib -> gate_ok (BT false ib args)
| GO_fn ib args :
    Forall gate_ok args -> fits64 ib ->
    ~ ((exists c, In c (ib :: map bt_ib args) /\ only_unsigned c)
       /\ (exists c, In c (ib :: map bt_ib args) /\ only_signed c)) ->
    gate_ok (BT true ib args).

(* what an IMPORTED module contributes besides its types: its own module-level attributes and
   back-end declarations *)
Record import_info := mk_import {
  i_attrs : list attr;
  i_expected_back_ends : list string;
  i_used_back_ends : list string
}.

Definition check_import (T : tables) (i : import_info) : bool :=
  check_attrs (t_attr T) ScModule (i_attrs i)
  && forallb (fun b => existsb (String.eqb b) (i_expected_back_ends i)) (i_used_back_ends i).
Definition real_import (T : tables) (i : import_info) : Prop :=
  attrs_ok (t_attr T) ScModule (i_attrs i)
  /\ forall b, In b (i_used_back_ends i) -> In b (i_expected_back_ends i).

Record ext_info := mk_ext {
  x_cpp : cpp_nodes;
  x_req_sites : list req_site;
  x_exprs : list btree;
  x_imports : list import_info;
  x_param_names : list string      (* names of the runtime parameters of every structure of every module *)
}.

(* the front end before /repo commit 8d5ef9f: parameter names were not compared with the reserved words *)
Definition check_front_x_old (T : tables) (X : ext_info) (M : module) : bool :=
  check_layout T M
  && forallb check_req_site (x_req_sites X)
  && forallb (fun s => forallb check_param_early (s_params s)) (m_structs M)
  && forallb gate64 (x_exprs X)
  && forallb (check_import T) (x_imports X).

(* front end (all passes up to check_constraints); _check_parameter_name_for_reserved_words *)
Definition check_front_x (T : tables) (X : ext_info) (M : module) : bool :=
  check_front_x_old T X M
  && forallb (fun n => negb (reserved T n)) (x_param_names X).

(* front end + C++ back end's attribute verification: embossc succeeds as far as attributes and
   layout are concerned *)
Definition check_layout_x (T : tables) (C : cpp_tables) (X : ext_info) (M : module) : bool :=
  check_front_x T X M && check_cpp C (x_cpp X).

Definition realisable_front_x (T : tables) (X : ext_info) (M : module) : Prop :=
  realisable T M
  /\ (forall r, In r (x_req_sites X) -> real_req_site r)
  /\ (forall s, In s (m_structs M) -> forall p, In p (s_params s) -> real_param_early p)
  /\ (forall t, In t (x_exprs X) -> gate_ok t)
  /\ (forall i, In i (x_imports X) -> real_import T i)
  (* no reserved word as the name of a runtime parameter *)
  /\ (forall n, In n (x_param_names X) -> ~ In n (t_reserved T)).

Definition realisable_x (T : tables) (C : cpp_tables) (X : ext_info) (M : module) : Prop :=
  realisable_front_x T X M /\ real_cpp C (x_cpp X).
