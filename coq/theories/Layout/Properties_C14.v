(* C14 — property theorems.  Statements only; every proof is `exact <lemma>`. *)
From Coq Require Import ZArith NArith List Bool String.
Import ListNotations.
Require Import EmbossV.Bounds.Model EmbossV.Layout.Model EmbossV.Layout.Proofs EmbossV.Layout.ProofsMain EmbossV.Layout.Exec.
Require Import EmbossV.Layout.ModelExt EmbossV.Layout.ExecExt EmbossV.Layout.ProofsExt.
Require Import EmbossV.Layout.ModelExt2 EmbossV.Layout.ExecExt2 EmbossV.Layout.ProofsExt2.
Open Scope Z_scope.

(* For ALL modules of the modelled IR subset and ALL attribute / reserved-word tables:
   the mirror of normalize_and_verify + check_constraints accepts exactly the modules that
   satisfy the documented rules.  (t_req is the prelude's requirement table, compared with
   the regenerated one on every run; units_ok: every structure is a struct or a bits.) *)
Theorem check_layout_iff_realisable : forall T M,
  t_req T = prelude_req -> units_ok M -> (check_layout T M = true <-> realisable T M).
Proof. exact check_layout_iff_realisable_lem. Qed.

(* UInt/Int/Bcd => 1 <= w <= 64, Flag => 1, Float => 32 or 64, computed from the prelude's
   static_requirements expressions by the C05 model of ir_util.constant_value *)
Theorem prelude_requirements : forall p w,
  req_holds (prelude_req p) (Some w) = true <-> width_ok p w.
Proof. exact prelude_requirements_lem. Qed.

Theorem prelude_requires_static_size : forall p, req_holds (prelude_req p) None = false.
Proof. exact req_none. Qed.

(* $default byte_order: own attribute, else the innermost enclosing $default, else Null for
   one-unit fields; the computed value is the unique one satisfying the specification *)
Theorem defaults_inherited : forall M s f,
  effective_spec M s f (effective_border M s f) /\
  (forall e, effective_spec M s f e -> e = effective_border M s f) /\
  nearest_default (s_defaults s) (inherited_border s) /\
  (forall l d, s_defaults s = (l ++ [Some d])%list -> inherited_border s = Some d) /\
  (forall l, s_defaults s = (l ++ [None])%list -> inherited_border s = last_some l None).
Proof. exact defaults_inherited_lem. Qed.

(* attribute table: each (name, $default?) at most once, allowed in the scope, value of the
   documented kind — for every table *)
Theorem attribute_table_rule : forall T sc l, check_attrs T sc l = true <-> attrs_ok T sc l.
Proof. exact check_attrs_iff. Qed.

(* _fixed_size_of_struct_or_bits computes the largest end of a physical field, when all are constant *)
Theorem struct_fixed_size_spec : forall s z, struct_fixed_size s = Some z <-> has_fixed_size s z.
Proof. exact struct_fixed_size_iff. Qed.

Theorem byte_order_rule : forall M s f, check_border M s f = true <-> real_border M s f.
Proof. exact check_border_iff. Qed.

Theorem enum_range_rule : forall e, check_enum e = true <-> real_enum e.
Proof. exact check_enum_iff. Qed.

(* non-vacuity *)
Example example_realisable : units_ok ex_M /\ check_layout ex_T ex_M = true /\ realisable ex_T ex_M.
Proof. exact example_realisable_lem. Qed.

Example example_not_realisable : units_ok ex_M_bad /\ check_layout ex_T ex_M_bad = false /\ ~ realisable ex_T ex_M_bad.
Proof. exact example_not_realisable_lem. Qed.

(* ---------- user-defined `external` types (m_externals; type references RExt) ---------- *)

(* _verify_addressable_unit_attribute_on_external: [addressable_unit_size] is present and is 1 or 8 *)
Theorem external_addressable_unit_rule : forall x, check_external x = true <-> real_external x.
Proof. exact check_external_iff. Qed.

(* in an accepted module every external has unit 1 or 8, and that unit is the one the field rules use
   (bits hold bit-oriented types only; a byte order is needed iff the units differ) *)
Theorem external_unit_rule : forall T M,
  check_layout T M = true -> forall i x, nth_ext M i = Some x ->
  (xd_unit x = Some 1 \/ xd_unit x = Some 8) /\ unit_of_ref M (RExt i) = ext_unit x
  /\ (ext_unit x = 1 \/ ext_unit x = 8).
Proof. exact external_unit_lem. Qed.

(* _check_physical_type_requirements on a user-defined external: the [static_requirements] expression,
   with $static_size_in_bits / $is_statically_sized bound as the field's size dictates, must be the
   constant true; an external without the attribute accepts every size, static or not *)
Theorem external_requirements_rule : forall T M i size,
  t_req T = prelude_req -> (phys_req T M (RExt i) size = true <-> real_width M (RExt i) size).
Proof. exact external_requirements_lem. Qed.

(* ... and when the requirement is written as the prelude writes its own
   ($is_statically_sized && lo <= $static_size_in_bits <= hi) it means exactly that range *)
Theorem external_range_requirement : forall T M i x lo hi size,
  nth_ext M i = Some x -> xd_req x = Some (range_req lo hi) ->
  (phys_req T M (RExt i) size = true <-> exists w, size = Some w /\ lo <= w <= hi).
Proof. exact external_range_requirement_lem. Qed.

Theorem external_without_requirement : forall T M i x size,
  nth_ext M i = Some x -> xd_req x = None -> phys_req T M (RExt i) size = true.
Proof. exact external_without_requirement_lem. Qed.

(* non-vacuity: a realisable module with a field of a user-defined external, and seven modules that
   break one external rule each (no unit, unit 4, field narrower than the fixed size, width outside the
   requirement, dynamic size, byte-oriented external in bits, non-constant [is_integer]) *)
Example example_externals :
  (units_ok ex_M_ext_ok /\ check_layout ex_T ex_M_ext_ok = true /\ realisable ex_T ex_M_ext_ok)
  /\ Forall (fun M => units_ok M /\ check_layout ex_T M = false /\ ~ realisable ex_T M) ex_M_ext_bad.
Proof. exact example_externals_lem. Qed.

(* ====================== extended rule set (ModelExt.v) ====================== *)

(* For ALL modules, tables and extension data: the mirror of the front end (check_early_constraints,
   normalize_and_verify, check_constraints incl. [requires] placement, early parameter rules, the
   64-bit gate, imported modules) and of the C++ back end's attribute verification accepts exactly
   the modules that satisfy the documented rules. *)
Theorem check_layout_x_iff_realisable_x : forall T C X M,
  t_req T = prelude_req -> units_ok M -> (check_layout_x T C X M = true <-> realisable_x T C X M).
Proof. exact check_layout_x_iff. Qed.

Theorem check_front_x_iff_realisable_front_x : forall T X M,
  t_req T = prelude_req -> units_ok M -> (check_front_x T X M = true <-> realisable_front_x T X M).
Proof. exact check_front_x_iff. Qed.

(* (cpp) namespace: optional leading "::", then a non-empty "::"-separated list of C++ identifiers,
   whitespace allowed around each, none of them a reserved word — for every reserved-word list *)
Theorem namespace_rule : forall reserved_cpp s, namespace_okb reserved_cpp s = true <-> namespace_ok reserved_cpp s.
Proof. exact namespace_okb_iff. Qed.

(* the scanner returns the components the grammar determines *)
Theorem namespace_components : forall l ids, parse_ns l = Some ids <-> ns_shape l ids.
Proof. exact parse_ns_iff. Qed.

Theorem namespace_components_unique : forall l ids ids', ns_shape l ids -> ns_shape l ids' -> ids = ids'.
Proof. exact ns_shape_functional. Qed.

(* (cpp) enum_case: comma-separated, whitespace-padded, optional trailing comma; names non-empty,
   pairwise distinct and supported — for every list of supported cases *)
Theorem enum_case_rule : forall supported s, enum_case_okb supported s = true <-> enum_case_ok supported s.
Proof. exact enum_case_okb_iff. Qed.

Theorem enum_case_pieces_rule : forall l cs, case_shape l cs -> case_pieces l = cs.
Proof. exact case_pieces_complete. Qed.

(* (cpp) attribute table + value validators on every attribute-bearing node *)
Theorem cpp_attribute_rule : forall C nodes, check_cpp C nodes = true <-> real_cpp C nodes.
Proof. exact check_cpp_iff. Qed.

(* every run-time integer (sub)expression fits one 64-bit type; no operation mixes uint64-only and int64-only *)
Theorem gate64_rule : forall t, gate64 t = true <-> gate_ok t.
Proof. exact gate64_iff. Qed.

Theorem requires_site_rule : forall r, check_req_site r = true <-> real_req_site r.
Proof. exact check_req_site_iff. Qed.

Theorem parameter_early_rule : forall p, check_param_early p = true <-> real_param_early p.
Proof. exact check_param_early_iff. Qed.

(* non-vacuity *)
Example example_realisable_x :
  units_ok ex_M /\ check_layout_x ex_T ex_C ex_X ex_M = true /\ realisable_x ex_T ex_C ex_X ex_M.
Proof. exact example_realisable_x_lem. Qed.

Example example_not_realisable_x :
  Forall (fun X => check_layout_x ex_T ex_C X ex_M = false /\ ~ realisable_x ex_T ex_C X ex_M)
         [ex_X_bad_ns; ex_X_bad_case; ex_X_bad_scope; ex_X_bad_req; ex_X_bad_gate; ex_X_bad_param].
Proof. exact example_not_realisable_x_lem. Qed.

Example namespace_examples :
  namespace_ok ["class"%string] " ::foo :: bar::baz "%string /\ ~ namespace_ok ["class"%string] "foo::class"%string
  /\ ~ namespace_ok [] "::"%string /\ ~ namespace_ok [] ""%string /\ ~ namespace_ok [] "foo::"%string
  /\ ~ namespace_ok [] "foo:::bar"%string /\ ~ namespace_ok [] "9foo"%string.
Proof. exact namespace_examples_lem. Qed.

Example enum_case_examples :
  let sup := ["SHOUTY_CASE"; "kCamelCase"]%string in
  enum_case_ok sup "SHOUTY_CASE, kCamelCase"%string /\ enum_case_ok sup "kCamelCase ,"%string
  /\ ~ enum_case_ok sup ""%string /\ ~ enum_case_ok sup "kCamelCase,,SHOUTY_CASE"%string
  /\ ~ enum_case_ok sup "kCamelCase, kCamelCase"%string /\ ~ enum_case_ok sup "snake_case"%string.
Proof. exact enum_case_examples_lem. Qed.

(* Reserved words as names of runtime parameters (enforced since /repo commit 8d5ef9f): an accepted
   module has none. *)
Theorem parameter_names_checked : forall T C X M,
  check_layout_x T C X M = true -> forall n, In n (x_param_names X) -> ~ In n (t_reserved T).
Proof. exact parameter_names_checked_lem. Qed.

(* the front-end mirror as it was before that commit accepted a parameter called "class" *)
Theorem old_parameter_names_unchecked_refuted :
  check_front_x_old ex_T ex_X_bad_param ex_M = true /\ check_front_x ex_T ex_X_bad_param ex_M = false
  /\ exists n, In n (x_param_names ex_X_bad_param) /\ In n (t_reserved ex_T).
Proof. exact old_parameter_names_unchecked_lem. Qed.

(* ====================== second extension (ModelExt2.v) ====================== *)

(* For ALL modules, tables and extension data: the front-end mirror extended with the constancy of
   static references and the [expected_back_ends] declaration of every module, together with the C++
   back end's attribute verification, accepts exactly the modules that satisfy the stated rules.
   (User-defined externals are part of check_layout / realisable themselves.) *)
Theorem check_layout_y_iff_realisable_y : forall T C X Y M,
  t_req T = prelude_req -> units_ok M -> (check_layout_y T C X Y M = true <-> realisable_y T C X Y M).
Proof. exact check_layout_y_iff. Qed.

Theorem check_front_y_iff_realisable_front_y : forall T X Y M,
  t_req T = prelude_req -> units_ok M -> (check_front_y T X Y M = true <-> realisable_front_y T X Y M).
Proof. exact check_front_y_iff. Qed.

(* "Static references must refer to constants": every static reference resolves to a constant enum
   value or to a virtual field whose value is constant *)
Theorem static_reference_rule : forall l, check_srefs l = true <-> forall t, In t l -> real_sref t.
Proof. exact check_srefs_iff. Qed.

(* [expected_back_ends]: blank, or comma-separated back-end names (lower-case letter, then lower-case
   letters, digits, underscores), each padded by whitespace, optional trailing comma *)
Theorem expected_back_ends_rule : forall s, back_ends_okb s = true <-> back_ends_ok s.
Proof. exact back_ends_okb_iff. Qed.

(* the qualifiers then accepted are exactly the trimmed comma-separated pieces of that string *)
Theorem expected_back_ends_members : forall s b,
  In b (back_ends_of s) <->
  exists piece, In piece (split_comma (list_ascii_of_string s)) /\ b = string_of_list_ascii (trim piece).
Proof. exact back_ends_members_lem. Qed.

Theorem back_end_declaration_rule : forall d, check_be_decl d = true <-> real_be_decl d.
Proof. exact check_be_decl_iff. Qed.

(* non-vacuity: one realisable instance; eight that break one rule each (non-constant virtual field,
   non-constant enum value, "cpp,,xyz", "Cpp", "cpp xyz", undeclared cpp, blank list with a qualifier in
   use, default list with xyz in use) *)
Example example_realisable_y :
  units_ok ex_M /\ check_layout_y ex_T ex_C ex_X ex_Y ex_M = true /\ realisable_y ex_T ex_C ex_X ex_Y ex_M
  /\ Forall (fun Y => check_layout_y ex_T ex_C ex_X Y ex_M = false /\ ~ realisable_y ex_T ex_C ex_X Y ex_M) ex_Y_bad.
Proof. exact example_realisable_y_lem. Qed.

Example back_ends_examples :
  back_ends_ok "cpp" /\ back_ends_ok " cpp , proto_2 ," /\ back_ends_ok "" /\ back_ends_ok "  "
  /\ ~ back_ends_ok "cpp,,proto" /\ ~ back_ends_ok "Cpp" /\ ~ back_ends_ok "cpp proto" /\ ~ back_ends_ok ",cpp"
  /\ ~ back_ends_ok "2cpp" /\ ~ back_ends_ok "cpp, ,"
  /\ back_ends_of " cpp , proto_2 ," = ["cpp"; "proto_2"; ""]%string.
Proof. exact back_ends_examples_lem. Qed.
