(* C14 — property theorems.  Statements only; every proof is `exact <lemma>`. *)
From Coq Require Import ZArith NArith List Bool String.
Import ListNotations.
Require Import EmbossV.Bounds.Model EmbossV.Layout.Model EmbossV.Layout.Proofs EmbossV.Layout.ProofsMain EmbossV.Layout.Exec.
Open Scope Z_scope.

(* For ALL modules of the modelled IR subset and ALL attribute / reserved-word tables:
   the mirror of normalize_and_verify + check_constraints accepts exactly the modules that
   satisfy the documented rules.  (t_req is the prelude's requirement table, compared with
   the regenerated one on every run; units_ok: every structure is a struct or a bits.) *)
Theorem check_layout_iff_realisable : forall T M,
  t_req T = prelude_req -> units_ok M -> (check_layout T M = true <-> realisable T M).
Proof. exact check_layout_iff_realisable_lem. Qed.

(* UInt/Int/Bcd => 1 <= w <= 64, Flag => 1, Float => 32 or 64, computed from the prelude's
   static_requirements expressions by the C05 model of ir_util.constant_value *)
Theorem prelude_requirements : forall p w,
  req_holds (prelude_req p) (Some w) = true <-> width_ok p w.
Proof. exact prelude_requirements_lem. Qed.

Theorem prelude_requires_static_size : forall p, req_holds (prelude_req p) None = false.
Proof. exact req_none. Qed.

(* $default byte_order: own attribute, else the innermost enclosing $default, else Null for
   one-unit fields; the computed value is the unique one satisfying the specification *)
Theorem defaults_inherited : forall M s f,
  effective_spec M s f (effective_border M s f) /\
  (forall e, effective_spec M s f e -> e = effective_border M s f) /\
  nearest_default (s_defaults s) (inherited_border s) /\
  (forall l d, s_defaults s = (l ++ [Some d])%list -> inherited_border s = Some d) /\
  (forall l, s_defaults s = (l ++ [None])%list -> inherited_border s = last_some l None).
Proof. exact defaults_inherited_lem. Qed.

(* attribute table: each (name, $default?) at most once, allowed in the scope, value of the
   documented kind — for every table *)
Theorem attribute_table_rule : forall T sc l, check_attrs T sc l = true <-> attrs_ok T sc l.
Proof. exact check_attrs_iff. Qed.

(* _fixed_size_of_struct_or_bits computes the largest end of a physical field, when all are constant *)
Theorem struct_fixed_size_spec : forall s z, struct_fixed_size s = Some z <-> has_fixed_size s z.
Proof. exact struct_fixed_size_iff. Qed.

Theorem byte_order_rule : forall M s f, check_border M s f = true <-> real_border M s f.
Proof. exact check_border_iff. Qed.

Theorem enum_range_rule : forall e, check_enum e = true <-> real_enum e.
Proof. exact check_enum_iff. Qed.

(* non-vacuity *)
Example example_realisable : units_ok ex_M /\ check_layout ex_T ex_M = true /\ realisable ex_T ex_M.
Proof. exact example_realisable_lem. Qed.

Example example_not_realisable : units_ok ex_M_bad /\ check_layout ex_T ex_M_bad = false /\ ~ realisable ex_T ex_M_bad.
Proof. exact example_not_realisable_lem. Qed.
