(* Executable glue for the extended C14 harness. *)
From Coq Require Import ZArith NArith List Bool String Ascii.
Import ListNotations.
Require Import EmbossV.Bounds.Model EmbossV.Layout.Model EmbossV.Layout.Exec EmbossV.Layout.ModelExt.
Open Scope Z_scope.

(* ---- string validators, compared with header_generator's functions on generated strings ---- *)
Definition ns_class_eqb (a b : ns_class) : bool :=
  match a, b with
  | NsOk, NsOk | NsEmpty, NsEmpty | NsGlobal, NsGlobal | NsInvalid, NsInvalid | NsReserved, NsReserved => true
  | _, _ => false
  end.

Definition run_ns (res : list string) (s : string) : ns_class * list string :=
  (ns_classify res s,
   match parse_ns (list_ascii_of_string s) with
   | Some ids => map string_of_list_ascii ids
   | None => []
   end).
Definition ns_out_eqb (a b : ns_class * list string) : bool :=
  ns_class_eqb (fst a) (fst b) && list_eqb String.eqb (snd a) (snd b).

Definition run_ec (sup : list string) (s : string) : bool * list string := (enum_case_okb sup s, enum_cases s).
Definition ec_out_eqb (a b : bool * list string) : bool :=
  Bool.eqb (fst a) (fst b) && list_eqb String.eqb (snd a) (snd b).

(* ---- modules ---- *)
Definition eff_t : Type := (list (list (option border)) * list (Z * bool) * list (option Z))%type.

Inductive xout :=
| XModel (front cpp units : bool) (e : eff_t)
| XExpect (front : bool) (cpp : option bool) (units : bool) (e : option eff_t).

Definition run_layout_x (T : tables) (C : cpp_tables) (XM : ext_info * module) : xout :=
  let X := fst XM in
  let M := snd XM in
  XModel (check_front_x T X M) (check_cpp C (x_cpp X)) (units_okb M)
         (if check_all_attrs T M then effective M else ([], [], [])).

Definition xout_agrees (a b : xout) : bool :=
  match a, b with
  | XModel f c u e, XExpect f' oc u' oe =>
      Bool.eqb f f' && Bool.eqb u u'
      && match oc with None => true | Some c' => Bool.eqb c c' end
      && match oe with
         | None => true
         | Some e' =>
             list_eqb (list_eqb optborder_eqb) (fst (fst e)) (fst (fst e'))
             && list_eqb zb_eqb (snd (fst e)) (snd (fst e'))
             && list_eqb optz_eqb (snd e) (snd e')
         end
  | _, _ => false
  end.

(* ---- non-vacuity examples ---- *)
Open Scope string_scope.
Definition ex_C : cpp_tables := mk_ctabs
  (mk_tabs [("enum_case", QString); ("namespace", QString)]
           [(ScBits, [("enum_case", true)]); (ScEnum, [("enum_case", true)]); (ScEnumValue, [("enum_case", false)]);
            (ScModule, [("enum_case", true); ("namespace", false)]); (ScStruct, [("enum_case", true)])])
  ["class"; "int"; "namespace"; "NULL"] ["SHOUTY_CASE"; "kCamelCase"].

Definition ex_X : ext_info := mk_ext
  [ (ScModule, [mk_attr "namespace" false (AVString " ::foo :: bar::baz "); mk_attr "enum_case" true (AVString "kCamelCase")]);
    (ScEnumValue, [mk_attr "enum_case" false (AVString "SHOUTY_CASE, kCamelCase,")]) ]
  [mk_req false VkInt; mk_req false VkEnum]
  [ BT true (Some (Fin 0, Fin 18446744073709551615)) [BT false (Some (Fin 0, Fin 255)) []; BT false (Some (Fin 0, Fin 4294967295)) []];
    BT false (Some (Fin (-9223372036854775808), Fin (-9223372036854775808))) [] ]
  [mk_import [mk_attr "byte_order" true (AVString "BigEndian")] ["cpp"] []]
  ["p"; "klass"].

(* one rule broken at a time *)
Definition ex_X_bad_ns : ext_info :=
  mk_ext [(ScModule, [mk_attr "namespace" false (AVString "foo::class")])] [] [] [] [].
Definition ex_X_bad_case : ext_info :=
  mk_ext [(ScEnum, [mk_attr "enum_case" true (AVString "kCamelCase,,SHOUTY_CASE")])] [] [] [] [].
Definition ex_X_bad_scope : ext_info :=
  mk_ext [(ScStruct, [mk_attr "namespace" false (AVString "foo")])] [] [] [] [].
Definition ex_X_bad_param : ext_info := mk_ext [] [] [] [] ["p"; "class"].
Definition ex_X_bad_req : ext_info := mk_ext [] [mk_req true VkInt] [] [] [].
Definition ex_X_bad_gate : ext_info :=
  mk_ext [] [] [BT true (Some (Fin (-1), Fin 18446744073709551614))
                   [BT false (Some (Fin 0, Fin 18446744073709551615)) []; BT false (Some (Fin (-1), Fin (-1))) []]] [] [].
